(* C01: composition of the per-operator lemmas (Proofs/C01Proofs.v) over arbitrary nesting, for the scalar
   fragment of the core expression language: the value the fuelled executor (Tmpl/Exec.v) computes for the
   argument that renderExpression (Pug/Compile.v carg) emits represents the value S (Spec/Sem.v sem_expr)
   prescribes.  Induction on the expression; the fuel bound is explicit. *)
From PV Require Import Base.Bytes Base.Escape Js.Ast Tmpl.Value Tmpl.IR Tmpl.Runtime Tmpl.Exec Pug.Ast Pug.Compile
  Pug.Lower Gen.OpsTable Spec.Sem Proofs.EscapeProofs Proofs.C01Proofs Proofs.C04Proofs Proofs.C06Proofs.
Local Open Scope Z_scope.

Local Strategy opaque [eval_cmds eval_cmd eval_operand eval_args call_ident field_chain eval_field].

(* ---- one-step equations of the evaluator (fuel S f) ------------------------------------------------ *)
Section Steps.
  Variables (E : env) (h : heap).

  Lemma operand_pipe f cmds : eval_operand (S f) E h (APipe [] cmds) = eval_cmds f E h cmds VInvalid.
  Proof. reflexivity. Qed.
  Lemma cmds_one f c final :
    eval_cmds (S f) E h [c] final = (do x <- eval_cmd f E h c final; let '(v, h1) := x in eval_cmds f E h1 [] v).
  Proof. reflexivity. Qed.
  Lemma cmds_nil f hh v : eval_cmds (S f) E hh [] v = Ok (v, hh).
  Proof. reflexivity. Qed.
  Lemma cmd_ident f fn rest final : eval_cmd (S f) E h (AIdent fn :: rest) final = call_ident f E h fn rest final.
  Proof. reflexivity. Qed.
  Lemma call_step f fn args final :
    call_ident (S f) E h fn args final =
    (if beqb fn (B "null") then Ok (VNil, h)
     else if beqb fn (B "__freeze") then Unmod
     else match lookup fn builtin_sigs with
          | Some sg => do x <- eval_args f E h sg args final; let '(vs, h1) := x in apply_builtin h1 fn vs
          | None => Unmod
          end).
  Proof. reflexivity. Qed.
End Steps.

(* ---- arguments: the shapes carg emits in the fragment, and how eval_args evaluates one --------------- *)
Definition arg_shape (a : targ) : bool :=
  match a with
  | ANum _ | AStr _ | ABool _ | AVar _ [] | APipe [] _ => true
  | _ => false
  end.
Definition open_ty (t : pty) : bool := match t with PIface | PValue => true | _ => false end.

Section Args.
  Variables (E : env) (h : heap).

  (* an argument that stands alone in a command is evaluated like an operand *)
  Lemma cmd_alone F a : arg_shape a = true -> eval_cmd F E h [a] VInvalid = eval_operand F E h a.
  Proof.
    intros Ha. destruct F as [|f]; [reflexivity|].
    destruct a as [z|t|s|b| |x fs|fs|fn|decl cmds|a fs]; try discriminate; reflexivity.
  Qed.

  (* inside a call: a literal is coerced by the parameter type, anything else is evaluated as an operand;
     for interface-typed parameters both give the operand's value *)
  Lemma arg_step f t a v :
    arg_shape a = true -> open_ty t = true -> eval_operand f E h a = Ok (v, h) ->
    (if is_lit a then do v <- coerce_lit t a; Ok (v, h)
     else do y <- eval_operand f E h a; let '(v0, h1) := y in do v <- coerce_val t v0; Ok (v, h1)) = Ok (v, h).
  Proof.
    intros Ha Ht Hv. destruct f as [|f]; [discriminate|].
    destruct a as [z|tx|s|b| |x fs|fs|fn|decl cmds|a fs]; try discriminate;
      cbn [is_lit]; try (rewrite Hv; cbn [bind]); destruct t; try discriminate; try reflexivity.
    all: cbn in Hv; injection Hv as <-; reflexivity.
  Qed.

  Lemma args1 f sg a v :
    In sg [([PValue], None); ([], Some PIface); ([PIface], None)] ->
    arg_shape a = true -> eval_operand f E h a = Ok (v, h) ->
    eval_args (S f) E h sg [a] VInvalid = Ok ([v], h).
  Proof.
    intros Hs Ha Hv. cbn [In] in Hs.
    destruct Hs as [<-|[<-|[<-|[]]]];
      cbn [eval_args length valid Nat.add Nat.eqb Nat.leb negb nth_error];
      rewrite arg_step with (a := a) (v := v) by (first [assumption | reflexivity]); reflexivity.
  Qed.

  Lemma args2 f sg a1 a2 v1 v2 :
    In sg [two; ([], Some PIface); ([PValue], Some PValue)] ->
    arg_shape a1 = true -> arg_shape a2 = true ->
    eval_operand f E h a1 = Ok (v1, h) -> eval_operand f E h a2 = Ok (v2, h) ->
    eval_args (S f) E h sg [a1; a2] VInvalid = Ok ([v1; v2], h).
  Proof.
    intros Hs Ha1 Ha2 Hv1 Hv2. cbn [In] in Hs.
    destruct Hs as [<-|[<-|[<-|[]]]];
      cbn [eval_args two length valid Nat.add Nat.eqb Nat.leb negb nth_error];
      rewrite arg_step with (a := a1) (v := v1) by (first [assumption | reflexivity]); cbn [bind];
      rewrite arg_step with (a := a2) (v := v2) by (first [assumption | reflexivity]); reflexivity.
  Qed.

  Lemma args3 f a1 a2 a3 v1 v2 v3 :
    arg_shape a1 = true -> arg_shape a2 = true -> arg_shape a3 = true ->
    eval_operand f E h a1 = Ok (v1, h) -> eval_operand f E h a2 = Ok (v2, h) -> eval_operand f E h a3 = Ok (v3, h) ->
    eval_args (S f) E h ([PIface; PIface; PIface], None) [a1; a2; a3] VInvalid = Ok ([v1; v2; v3], h).
  Proof.
    intros Ha1 Ha2 Ha3 Hv1 Hv2 Hv3.
    cbn [eval_args length valid Nat.add Nat.eqb Nat.leb negb nth_error].
    rewrite arg_step with (a := a1) (v := v1) by (first [assumption | reflexivity]); cbn [bind].
    rewrite arg_step with (a := a2) (v := v2) by (first [assumption | reflexivity]); cbn [bind].
    rewrite arg_step with (a := a3) (v := v3) by (first [assumption | reflexivity]); reflexivity.
  Qed.

  (* "(" fn args ")" as an operand: three levels of fuel down to the call *)
  Lemma pipe_call f fn args r :
    call_ident f E h fn args VInvalid = Ok r ->
    eval_operand (S (S (S f))) E h (APipe [] [AIdent fn :: args]) = Ok r.
  Proof.
    intros Hc. rewrite operand_pipe, cmds_one, cmd_ident, Hc. cbn [bind]. destruct r as [v h1].
    apply cmds_nil.
  Qed.

  (* "(" a ")" as an operand *)
  Lemma cmd1_eval f a v :
    arg_shape a = true -> eval_operand f E h a = Ok (v, h) -> eval_operand (S (S f)) E h (cmd1 a) = Ok (v, h).
  Proof.
    intros Ha Hv. unfold cmd1. rewrite operand_pipe, cmds_one, (cmd_alone f a Ha), Hv. cbn [bind].
    destruct f as [|f]; [discriminate|]. apply cmds_nil.
  Qed.

  Definition plain_fn (fn : bytes) : Prop := beqb fn (B "null") = false /\ beqb fn (B "__freeze") = false.

  Lemma call1 f fn sg a v :
    plain_fn fn -> lookup fn builtin_sigs = Some sg ->
    In sg [([PValue], None); ([], Some PIface); ([PIface], None)] ->
    arg_shape a = true -> eval_operand f E h a = Ok (v, h) ->
    call_ident (S (S f)) E h fn [a] VInvalid = apply_builtin h fn [v].
  Proof.
    intros [H1 H2] Hl Hs Ha Hv. rewrite call_step, H1, H2, Hl, (args1 f sg a v Hs Ha Hv). reflexivity.
  Qed.

  Lemma call2 f fn sg a1 a2 v1 v2 :
    plain_fn fn -> lookup fn builtin_sigs = Some sg ->
    In sg [two; ([], Some PIface); ([PValue], Some PValue)] ->
    arg_shape a1 = true -> arg_shape a2 = true ->
    eval_operand f E h a1 = Ok (v1, h) -> eval_operand f E h a2 = Ok (v2, h) ->
    call_ident (S (S f)) E h fn [a1; a2] VInvalid = apply_builtin h fn [v1; v2].
  Proof.
    intros [H1 H2] Hl Hs Ha1 Ha2 Hv1 Hv2.
    rewrite call_step, H1, H2, Hl, (args2 f sg a1 a2 v1 v2 Hs Ha1 Ha2 Hv1 Hv2). reflexivity.
  Qed.

  Lemma call_if f a1 a2 a3 v1 v2 v3 :
    arg_shape a1 = true -> arg_shape a2 = true -> arg_shape a3 = true ->
    eval_operand f E h a1 = Ok (v1, h) -> eval_operand f E h a2 = Ok (v2, h) -> eval_operand f E h a3 = Ok (v3, h) ->
    call_ident (S (S f)) E h (B "__if") [a1; a2; a3] VInvalid =
    (do c <- truthy h v1; Ok (box (if c then v2 else v3), h)).
  Proof.
    intros Ha1 Ha2 Ha3 Hv1 Hv2 Hv3. rewrite call_step.
    change (beqb (B "__if") (B "null")) with false. change (beqb (B "__if") (B "__freeze")) with false.
    change (lookup (B "__if") builtin_sigs) with (Some ([PIface; PIface; PIface], @None pty)).
    cbv iota. rewrite (args3 f a1 a2 a3 v1 v2 v3 Ha1 Ha2 Ha3 Hv1 Hv2 Hv3). reflexivity.
  Qed.
End Args.

(* ---- the scalar fragment --------------------------------------------------------------------------- *)
Definition core_binop (op : binop) : bool :=
  match op with
  | BAdd | BSub | BMul | BDiv | BMod | BLt | BGt | BLe | BGe | BEq | BSEq | BNe | BSNe | BAnd | BOr => true
  | _ => false
  end.

(* literals, template variables, the fifteen core binary operators, ! and unary -, ?: ; every
   sub-expression in the fragment.  [funcs]: the names Engine.FuncProvider supplies (Compile.v's Section
   variable): an identifier of that set is a function, not a variable. *)
Fixpoint scalar_core (funcs : list bytes) (e : jexpr) : bool :=
  match e with
  | JNum _ | JBool _ => true
  | JStr s => match goquote s with Some _ => true | None => false end
  | JId x => is_ident x && negb (known funcs x) && negb (beqb x (B "range"))
  | JBin op l r => core_binop op && scalar_core funcs l && scalar_core funcs r
  | JUn UNot _ x | JUn UNeg _ x => scalar_core funcs x
  | JCond c a b => scalar_core funcs c && scalar_core funcs a && scalar_core funcs b
  | _ => false
  end.

Fixpoint depth (e : jexpr) : nat :=
  match e with
  | JBin _ l r => S (Nat.max (depth l) (depth r))
  | JUn _ _ x => S (depth x)
  | JCond c a b => S (Nat.max (depth c) (Nat.max (depth a) (depth b)))
  | _ => O
  end.

(* the fuel [eval_operand] / [eval_cmd] needs: a call costs five levels (operand, pipeline, command, call,
   arguments); ?: costs seven, its operands being wrapped in one more pipeline each *)
Fixpoint need (e : jexpr) : nat :=
  match e with
  | JBin _ l r => 5 + Nat.max (need l) (need r)
  | JUn _ _ x => 5 + need x
  | JCond c a b => 7 + Nat.max (need c) (Nat.max (need a) (need b))
  | _ => 1
  end.

Lemma need_depth e : (need e <= 7 * depth e + 1)%nat.
Proof. induction e; cbn [need depth]; lia. Qed.

Fixpoint cond_free (e : jexpr) : bool :=
  match e with
  | JBin _ l r => cond_free l && cond_free r
  | JUn _ _ x => cond_free x
  | JCond _ _ _ => false
  | _ => true
  end.
Lemma need_depth_cond_free e : cond_free e = true -> (need e <= 5 * depth e + 1)%nat.
Proof.
  induction e; cbn [need depth cond_free]; intros H; try lia; try discriminate.
  - apply IHe in H. lia.
  - apply andb_prop in H. destruct H as [H1 H2]. apply IHe1 in H1. apply IHe2 in H2. lia.
Qed.

(* the variables of an expression *)
Fixpoint fv (e : jexpr) : list bytes :=
  match e with
  | JId x => [x]
  | JBin _ l r => fv l ++ fv r
  | JUn _ _ x => fv x
  | JCond c a b => fv c ++ fv a ++ fv b
  | _ => []
  end.

Definition env_rep (vs : vars) (env : list (bytes * jv)) : Prop := forall x, rep (var_val vs x) (env_get env x).
Definition env_rep_on (xs : list bytes) (vs : vars) (env : list (bytes * jv)) : Prop :=
  forall x, In x xs -> rep (var_val vs x) (env_get env x).
Lemma env_rep_all xs vs env : env_rep vs env -> env_rep_on xs vs env.
Proof. intros H x _. apply H. Qed.

(* numbers held by the variables are in the property's range (S checks literals and results, not the data) *)
Definition jv_ok (j : jv) : Prop := match j with JN z => in_range z = true | _ => True end.
Definition env_range_on (xs : list bytes) (env : list (bytes * jv)) : Prop :=
  forall x, In x xs -> jv_ok (env_get env x).

(* no listed-deviation flag is raised by any sub-expression evaluated in [s] — including the operand of
   && / || and the branch of ?: that S evaluates "for the domain check only" and whose state it drops.
   (Needed: the engine evaluates those operands eagerly, and S's result does not show a flag raised
   there; see [dead_operand_refuted].) *)
Definition noflag (fs : nat) (s : sstate) (e : jexpr) : bool :=
  match sem_expr fs s e with
  | SOk (_, s') => Nat.eqb (length (s_flags s')) (length (s_flags s))
  | _ => false
  end.
Fixpoint quietb (fs : nat) (s : sstate) (e : jexpr) : bool :=
  match fs with
  | O => false
  | S f =>
    noflag (S f) s e &&
    match e with
    | JBin _ l r => quietb f s l && quietb f s r
    | JUn _ _ x => quietb f s x
    | JCond c a b => quietb f s c && quietb f s a && quietb f s b
    | _ => true
    end
  end.

(* History: before the repair F-C01-g (runtimeRem had no case for int % float) these theorems carried a hypothesis
   [rem_dom E e] — no % with a Go-int left operand (a number literal or a variable declared from one) and a
   pugjs.Number right operand — and a witness [rem_int_float_refuted]: `5 % n` with n = 3 evaluated to the string
   "<nil>" where JavaScript gives 2.  The model (Tmpl/Runtime.v rt_rem) now has the repaired case and the hypothesis
   is gone; the witness is corpus/C01/F-C01-g.json. *)

(* ---- one-step equations of S ------------------------------------------------------------------------ *)
Definition plain_binop (op : binop) : bool := match op with BAnd | BOr => false | _ => true end.

Lemma sem_id f s x : sem_expr (S f) s (JId x) = SOk (env_get (s_env s) x, s).
Proof. reflexivity. Qed.
Lemma sem_num f s z : sem_expr (S f) s (JNum z) = (sdo v <- num z; SOk (v, s)).
Proof. reflexivity. Qed.
Lemma sem_str f s t : sem_expr (S f) s (JStr t) = SOk (JS t, s).
Proof. reflexivity. Qed.
Lemma sem_bool f s b : sem_expr (S f) s (JBool b) = SOk (JB b, s).
Proof. reflexivity. Qed.
Lemma sem_bin f s op l r :
  plain_binop op = true ->
  sem_expr (S f) s (JBin op l r) =
  (sdo a <- sem_expr f s l; let '(x, s1) := a in
   sdo b <- sem_expr f s1 r; let '(y, s2) := b in sem_binop s2 op x y).
Proof. destruct op; try discriminate; reflexivity. Qed.
Lemma sem_and f s l r :
  sem_expr (S f) s (JBin BAnd l r) =
  (sdo a <- sem_expr f s l; let '(v, s1) := a in
   let '(b, s2) := to_boolean s1 v in
   if b then sem_expr f s2 r else (sdo _ <- sem_expr f s2 r; SOk (v, s2))).
Proof. reflexivity. Qed.
Lemma sem_or f s l r :
  sem_expr (S f) s (JBin BOr l r) =
  (sdo a <- sem_expr f s l; let '(v, s1) := a in
   let '(b, s2) := to_boolean s1 v in
   if b then (sdo _ <- sem_expr f s2 r; SOk (v, s2)) else sem_expr f s2 r).
Proof. reflexivity. Qed.
Lemma sem_not f s p x :
  sem_expr (S f) s (JUn UNot p x) =
  (sdo a <- sem_expr f s x; let '(v, s1) := a in let '(b, s2) := to_boolean s1 v in SOk (JB (negb b), s2)).
Proof. reflexivity. Qed.
Lemma sem_neg f s p x :
  sem_expr (S f) s (JUn UNeg p x) =
  (sdo a <- sem_expr f s x; let '(v, s1) := a in
   match v with JN z => sdo r <- num (- z); SOk (r, s1) | _ => SOff end).
Proof. reflexivity. Qed.
Lemma sem_cond f s c a b :
  sem_expr (S f) s (JCond c a b) =
  (sdo t <- sem_expr f s c; let '(v, s1) := t in
   let '(tb, s2) := to_boolean s1 v in
   sdo _ <- sem_expr f s2 (if tb then b else a);
   sem_expr f s2 (if tb then a else b)).
Proof. reflexivity. Qed.

(* ---- the helper each core operator is lowered to (depends on Gen/OpsTable.v) -------------------------- *)
Definition helper (op : binop) : bytes :=
  match op with
  | BAdd => B "__op__add" | BSub => B "__op__sub" | BMul => B "__op__mul" | BDiv => B "__op__slash"
  | BMod => B "__op__mod" | BLt => B "__op__lt" | BGt => B "__op__gt" | BLe => B "__op__lte"
  | BGe => B "__op__gte" | BEq | BSEq => B "__op__eql" | BNe | BSNe => B "__op__neq"
  | BAnd => B "__op__and" | BOr => B "__op__or"
  | _ => []
  end.
Definition sig_of (op : binop) : sig :=
  match op with
  | BSub => ([], Some PIface)
  | BAnd | BOr => ([PValue], Some PValue)
  | _ => two
  end.

Lemma helper_name op : core_binop op = true -> op_name (binop_token op) = helper op.
Proof. destruct op; try discriminate; intros _; vm_compute; reflexivity. Qed.
Lemma helper_runtime op : core_binop op = true -> mem (helper op) runtime_funcs = true.
Proof. destruct op; try discriminate; intros _; vm_compute; reflexivity. Qed.
Lemma helper_plain op : core_binop op = true -> plain_fn (helper op).
Proof. destruct op; try discriminate; intros _; split; vm_compute; reflexivity. Qed.
Lemma helper_sig op : core_binop op = true -> lookup (helper op) builtin_sigs = Some (sig_of op).
Proof. destruct op; try discriminate; intros _; vm_compute; reflexivity. Qed.
Lemma sig_of_open op : In (sig_of op) [two; ([], Some PIface); ([PValue], Some PValue)].
Proof. destruct op; cbn; auto. Qed.

Section Apply.
  Variable h : heap.
  Lemma ab_add x y : apply_builtin h (B "__op__add") [x; y] = (do v <- rt_add h x y; Ok (v, h)).
  Proof. reflexivity. Qed.
  Lemma ab_sub x y : apply_builtin h (B "__op__sub") [x; y] = (do v <- rt_sub [x; y]; Ok (v, h)).
  Proof. reflexivity. Qed.
  Lemma ab_mul x y : apply_builtin h (B "__op__mul") [x; y] = (do v <- rt_mul x y; Ok (v, h)).
  Proof. reflexivity. Qed.
  Lemma ab_slash x y : apply_builtin h (B "__op__slash") [x; y] = (do v <- rt_quo x y; Ok (v, h)).
  Proof. reflexivity. Qed.
  Lemma ab_mod x y : apply_builtin h (B "__op__mod") [x; y] = (do v <- rt_rem x y; Ok (v, h)).
  Proof. reflexivity. Qed.
  Lemma ab_eql x y : apply_builtin h (B "__op__eql") [x; y] = (do b <- rt_eql h x y; Ok (VBool b, h)).
  Proof. reflexivity. Qed.
  Lemma ab_neq x y :
    apply_builtin h (B "__op__neq") [x; y] = (do b <- (do b <- rt_eql h x y; Ok (negb b)); Ok (VBool b, h)).
  Proof. reflexivity. Qed.
  Lemma ab_lt x y : apply_builtin h (B "__op__lt") [x; y] = (do b <- rt_lss x y; Ok (VBool b, h)).
  Proof. reflexivity. Qed.
  Lemma ab_gt x y :
    apply_builtin h (B "__op__gt") [x; y] =
    (do b <- (do l <- rt_lss x y; do e <- rt_eql h x y; Ok (negb l && negb e)); Ok (VBool b, h)).
  Proof. reflexivity. Qed.
  Lemma ab_gte x y : apply_builtin h (B "__op__gte") [x; y] = (do b <- (do l <- rt_lss x y; Ok (negb l)); Ok (VBool b, h)).
  Proof. reflexivity. Qed.
  Lemma ab_lte x y :
    apply_builtin h (B "__op__lte") [x; y] =
    (do b <- (do l <- rt_lss x y; if l then Ok true else rt_eql h x y); Ok (VBool b, h)).
  Proof. reflexivity. Qed.
  Lemma ab_and x y : apply_builtin h (B "__op__and") [x; y] = (do v <- rt_and h x [y]; Ok (v, h)).
  Proof. reflexivity. Qed.
  Lemma ab_or x y : apply_builtin h (B "__op__or") [x; y] = (do v <- rt_or h x [y]; Ok (v, h)).
  Proof. reflexivity. Qed.
  Lemma ab_not x : apply_builtin h (B "__op__not") [x] = (do b <- (do t <- truthy h x; Ok (negb t)); Ok (VBool b, h)).
  Proof. reflexivity. Qed.
  Lemma ab_neg x : apply_builtin h (B "__op__sub") [x] = (do v <- rt_sub [x]; Ok (v, h)).
  Proof. reflexivity. Qed.
End Apply.

(* ---- values: the helpers on represented operands against sem_binop ------------------------------------ *)
(* [rep], except that an undefined value that went through ?: has become the engine's Nil (__if converts
   its result; see [cond_undefined_refuted]): both print nothing, are falsy, and are outside the domain of
   every other operator *)
Definition repu (v : val) (j : jv) : Prop := rep v j \/ (v = VNil /\ j = JUndef).
Lemma rep_repu v j : rep v j -> repu v j.
Proof. left; assumption. Qed.
Lemma repu_rep v j : repu v j -> j <> JUndef -> rep v j.
Proof. intros [H|[_ ->]] Hj; [exact H|congruence]. Qed.

Lemma repu_box v j : repu v j -> repu (box v) j.
Proof. intros [H|[-> ->]]; [destruct H; cbn; try (left; constructor); right; split; reflexivity|right; split; reflexivity]. Qed.
Lemma repu_box_valid v j : repu v j -> repu (box_valid v) j.
Proof. intros [H|[-> ->]]; [left; destruct H; cbn; constructor|right; split; reflexivity]. Qed.

(* the variables hold values representing S's, where a variable may hold Nil for undefined
   (e.g. after `- var x = p ? u : 1`) *)
Definition env_repu_on (xs : list bytes) (vs : vars) (env : list (bytes * jv)) : Prop :=
  forall x, In x xs -> repu (var_val vs x) (env_get env x).
Lemma env_rep_repu_on xs vs env : env_rep_on xs vs env -> env_repu_on xs vs env.
Proof. intros H x Hx. left. apply H. exact Hx. Qed.
Lemma repu_not_ref v j : repu v j -> is_ref j = false.
Proof. intros [H|[_ ->]]; [destruct H|]; reflexivity. Qed.

Lemma N_of_ascii_inj c d : N_of_ascii c = N_of_ascii d -> c = d.
Proof. intros H. rewrite <- (ascii_N_embedding c), <- (ascii_N_embedding d), H. reflexivity. Qed.

Lemma beqb_cons c x y : beqb (c :: x) (c :: y) = beqb x y.
Proof.
  destruct (beqb x y) eqn:E.
  - apply beqb_eq in E. subst. apply beqb_refl.
  - apply beqb_neq in E. apply beqb_neq. congruence.
Qed.

(* the byte order is total: > and <= follow from < and = as the engine computes them *)
Lemma bytes_lt_flip x y : bytes_lt y x = negb (bytes_lt x y) && negb (beqb x y).
Proof.
  revert y; induction x as [|c x IH]; intros [|d y]; try reflexivity.
  cbn [bytes_lt].
  destruct (N.ltb_spec (N_of_ascii d) (N_of_ascii c)) as [H1|H1];
    destruct (N.ltb_spec (N_of_ascii c) (N_of_ascii d)) as [H2|H2]; try lia.
  - cbn [negb andb]. symmetry. apply negb_true_iff, beqb_neq. intros He. injection He as -> _. lia.
  - assert (c = d) by (apply N_of_ascii_inj; lia). subst d. rewrite beqb_cons. apply IH.
Qed.

Section Ops.
  Variables (h : heap) (s : sstate).

  Definition quiet_res (r : sres (jv * sstate)) : bool :=
    match r with SOk (_, s') => Nat.eqb (length (s_flags s')) (length (s_flags s)) | _ => false end.

  Lemma flag_not_quiet k j : quiet_res (SOk (j, flag s k)) = false.
  Proof. unfold quiet_res; cbn [flag s_flags length]. apply Nat.eqb_neq. lia. Qed.
  Lemma same_quiet j : quiet_res (SOk (j, s)) = true.
  Proof. unfold quiet_res. apply Nat.eqb_refl. Qed.

  Lemma to_boolean_u v j : repu v j -> to_boolean s j = (fst (to_boolean s j), s).
  Proof. intros [H|[_ ->]]; [destruct H|]; reflexivity. Qed.
  Lemma truthy_u v j : repu v j -> truthy h v = Ok (fst (to_boolean s j)).
  Proof. intros [H|[-> ->]]; [apply truthy_js; exact H|reflexivity]. Qed.

  Lemma rt_rem_js x y a b :
    rep x (JN a) -> rep y (JN b) -> b <> 0 -> in_range (Z.rem a b) = true ->
    rt_rem x y = Ok (VNum (Z.rem a b)).
  Proof.
    intros Rx Ry Hb Hr. apply in_range_num_ok in Hr. apply Z.eqb_neq in Hb.
    inversion Rx; subst; inversion Ry; subst; unfold rt_rem, mknum; cbn; rewrite Hb, Hr; reflexivity.
  Qed.

  Lemma rt_and_val x y jx jy :
    repu x jx -> repu y jy -> rt_and h x [y] = Ok (box_valid (if fst (to_boolean s jx) then y else x)).
  Proof.
    intros Rx Ry. cbn [rt_and]. rewrite (truthy_u x jx Rx). cbn [bind].
    destruct (fst (to_boolean s jx)); cbn [negb]; [|reflexivity].
    rewrite (truthy_u y jy Ry). cbn [bind]. destruct (fst (to_boolean s jy)); reflexivity.
  Qed.
  Lemma rt_or_val x y jx jy :
    repu x jx -> repu y jy -> rt_or h x [y] = Ok (box_valid (if fst (to_boolean s jx) then x else y)).
  Proof.
    intros Rx Ry. cbn [rt_or]. rewrite (truthy_u x jx Rx). cbn [bind].
    destruct (fst (to_boolean s jx)); [reflexivity|].
    rewrite (truthy_u y jy Ry). cbn [bind]. destruct (fst (to_boolean s jy)); reflexivity.
  Qed.

  Ltac done_with j v :=
    exists j, v; repeat split; try constructor; try reflexivity; try assumption.
  Ltac to_rep Rl Rr := apply repu_rep in Rl; [|discriminate]; apply repu_rep in Rr; [|discriminate].

  Lemma binop_agree op jl jr vl vr :
    core_binop op = true -> plain_binop op = true ->
    repu vl jl -> repu vr jr -> jv_ok jl -> jv_ok jr ->
    quiet_res (sem_binop s op jl jr) = true ->
    exists j v, sem_binop s op jl jr = SOk (j, s) /\ apply_builtin h (helper op) [vl; vr] = Ok (v, h) /\
                rep v j /\ jv_ok j.
  Proof.
    intros Hc Hp Rl Rr Ol Or Hq.
    destruct op; try discriminate; cbn [helper].
    - (* + *)
      rewrite ab_add.
      destruct jl as [| |bl|zl|sl|ll|ll], jr as [| |br|zr|sr|lr|lr]; cbn [sem_binop] in Hq |- *; try discriminate Hq;
        to_rep Rl Rr.
      + unfold num in *. destruct (in_range (zl + zr)) eqn:Hr; cbn [sbind] in Hq |- *; try discriminate Hq.
        rewrite (rt_add_num_js h vl vr zl zr Rl Rr Hr). done_with (JN (zl + zr)) (VNum (zl + zr)).
      + rewrite flag_not_quiet in Hq. discriminate.
      + rewrite (rt_add_str_num_js h vl vr sl zr Rl Rr Or). done_with (JS (sl ++ show_Z zr)) (VStr (sl ++ show_Z zr)).
      + rewrite (rt_add_str_str_js h vl vr sl sr Rl Rr). done_with (JS (sl ++ sr)) (VStr (sl ++ sr)).
    - (* - *)
      rewrite ab_sub.
      destruct jl as [| |bl|zl|sl|ll|ll], jr as [| |br|zr|sr|lr|lr]; cbn [sem_binop] in Hq |- *; try discriminate Hq;
        to_rep Rl Rr.
      unfold num in *. destruct (in_range (zl - zr)) eqn:Hr; cbn [sbind] in Hq |- *; try discriminate Hq.
      rewrite (rt_sub_js vl vr zl zr Rl Rr Hr). done_with (JN (zl - zr)) (VNum (zl - zr)).
    - (* * *)
      rewrite ab_mul.
      destruct jl as [| |bl|zl|sl|ll|ll], jr as [| |br|zr|sr|lr|lr]; cbn [sem_binop] in Hq |- *; try discriminate Hq;
        to_rep Rl Rr.
      unfold num in *. destruct (in_range (zl * zr)) eqn:Hr; cbn [sbind] in Hq |- *; try discriminate Hq.
      rewrite (rt_mul_js vl vr zl zr Rl Rr Hr). done_with (JN (zl * zr)) (VNum (zl * zr)).
    - (* / *)
      rewrite ab_slash.
      destruct jl as [| |bl|zl|sl|ll|ll], jr as [| |br|zr|sr|lr|lr]; cbn [sem_binop] in Hq |- *; try discriminate Hq;
        to_rep Rl Rr.
      destruct (Z.eqb zr 0) eqn:Hz; try discriminate Hq.
      destruct (Z.eqb (Z.rem zl zr) 0) eqn:Hrem; try discriminate Hq.
      unfold num in *. destruct (in_range (Z.quot zl zr)) eqn:Hr; cbn [sbind] in Hq |- *; try discriminate Hq.
      apply Z.eqb_neq in Hz. apply Z.eqb_eq in Hrem.
      rewrite (rt_quo_js vl vr zl zr Rl Rr Hz Hrem Hr). done_with (JN (Z.quot zl zr)) (VNum (Z.quot zl zr)).
    - (* % *)
      rewrite ab_mod.
      destruct jl as [| |bl|zl|sl|ll|ll], jr as [| |br|zr|sr|lr|lr]; cbn [sem_binop] in Hq |- *; try discriminate Hq;
        to_rep Rl Rr.
      destruct (Z.eqb zr 0) eqn:Hz; try discriminate Hq.
      unfold num in *. destruct (in_range (Z.rem zl zr)) eqn:Hr; cbn [sbind] in Hq |- *; try discriminate Hq.
      apply Z.eqb_neq in Hz.
      rewrite (rt_rem_js vl vr zl zr Rl Rr Hz Hr). done_with (JN (Z.rem zl zr)) (VNum (Z.rem zl zr)).
    - (* < *)
      rewrite ab_lt.
      destruct jl as [| |bl|zl|sl|ll|ll], jr as [| |br|zr|sr|lr|lr]; cbn [sem_binop] in Hq |- *; try discriminate Hq;
        to_rep Rl Rr.
      + rewrite (rt_lss_num_js vl vr zl zr Rl Rr). done_with (JB (zl <? zr)) (VBool (zl <? zr)).
      + destruct (ascii_only sl && ascii_only sr); try discriminate Hq.
        rewrite (rt_lss_str_js vl vr sl sr Rl Rr). done_with (JB (bytes_lt sl sr)) (VBool (bytes_lt sl sr)).
    - (* > *)
      rewrite ab_gt.
      destruct jl as [| |bl|zl|sl|ll|ll], jr as [| |br|zr|sr|lr|lr]; cbn [sem_binop] in Hq |- *; try discriminate Hq;
        to_rep Rl Rr.
      + rewrite (rt_lss_num_js vl vr zl zr Rl Rr), (rt_eql_num_js h vl vr zl zr Rl Rr). cbn [bind].
        replace (negb (zl <? zr) && negb (zl =? zr)) with (zl >? zr)
          by (rewrite Z.gtb_ltb; destruct (Z.ltb_spec zr zl), (Z.ltb_spec zl zr), (Z.eqb_spec zl zr); cbn; lia).
        done_with (JB (zl >? zr)) (VBool (zl >? zr)).
      + destruct (ascii_only sl && ascii_only sr); try discriminate Hq.
        rewrite (rt_lss_str_js vl vr sl sr Rl Rr), (rt_eql_str_js h vl vr sl sr Rl Rr). cbn [bind].
        rewrite <- bytes_lt_flip. done_with (JB (bytes_lt sr sl)) (VBool (bytes_lt sr sl)).
    - (* <= *)
      rewrite ab_lte.
      destruct jl as [| |bl|zl|sl|ll|ll], jr as [| |br|zr|sr|lr|lr]; cbn [sem_binop] in Hq |- *; try discriminate Hq;
        to_rep Rl Rr.
      + rewrite (rt_lss_num_js vl vr zl zr Rl Rr). cbn [bind].
        assert (Hv : (if zl <? zr then Ok true else rt_eql h vl vr) = Ok (zl <=? zr)).
        { rewrite (rt_eql_num_js h vl vr zl zr Rl Rr).
          destruct (Z.ltb_spec zl zr), (Z.leb_spec zl zr), (Z.eqb_spec zl zr); try reflexivity; lia. }
        rewrite Hv. done_with (JB (zl <=? zr)) (VBool (zl <=? zr)).
      + destruct (ascii_only sl && ascii_only sr); try discriminate Hq.
        rewrite (rt_lss_str_js vl vr sl sr Rl Rr). cbn [bind].
        assert (Hv : (if bytes_lt sl sr then Ok true else rt_eql h vl vr) = Ok (negb (bytes_lt sr sl))).
        { rewrite (rt_eql_str_js h vl vr sl sr Rl Rr), (bytes_lt_flip sl sr).
          destruct (bytes_lt sl sr), (beqb sl sr); reflexivity. }
        rewrite Hv. done_with (JB (negb (bytes_lt sr sl))) (VBool (negb (bytes_lt sr sl))).
    - (* >= *)
      rewrite ab_gte.
      destruct jl as [| |bl|zl|sl|ll|ll], jr as [| |br|zr|sr|lr|lr]; cbn [sem_binop] in Hq |- *; try discriminate Hq;
        to_rep Rl Rr.
      + rewrite (rt_lss_num_js vl vr zl zr Rl Rr). cbn [bind].
        replace (negb (zl <? zr)) with (zl >=? zr)
          by (rewrite Z.geb_leb; destruct (Z.leb_spec zr zl), (Z.ltb_spec zl zr); cbn; lia).
        done_with (JB (zl >=? zr)) (VBool (zl >=? zr)).
      + destruct (ascii_only sl && ascii_only sr); try discriminate Hq.
        rewrite (rt_lss_str_js vl vr sl sr Rl Rr). cbn [bind].
        done_with (JB (negb (bytes_lt sl sr))) (VBool (negb (bytes_lt sl sr))).
    - (* == *)
      rewrite ab_eql.
      destruct jl as [| |bl|zl|sl|ll|ll], jr as [| |br|zr|sr|lr|lr]; cbn [sem_binop jv_strict_eq] in Hq |- *;
        try discriminate Hq; to_rep Rl Rr.
      + rewrite (rt_eql_bool_js h vl vr bl br Rl Rr). done_with (JB (Bool.eqb bl br)) (VBool (Bool.eqb bl br)).
      + rewrite (rt_eql_num_js h vl vr zl zr Rl Rr). done_with (JB (zl =? zr)) (VBool (zl =? zr)).
      + rewrite (rt_eql_str_js h vl vr sl sr Rl Rr). done_with (JB (beqb sl sr)) (VBool (beqb sl sr)).
    - (* === *)
      rewrite ab_eql.
      destruct jl as [| |bl|zl|sl|ll|ll], jr as [| |br|zr|sr|lr|lr]; cbn [sem_binop jv_strict_eq] in Hq |- *;
        try discriminate Hq; to_rep Rl Rr.
      + rewrite (rt_eql_bool_js h vl vr bl br Rl Rr). done_with (JB (Bool.eqb bl br)) (VBool (Bool.eqb bl br)).
      + rewrite (rt_eql_num_js h vl vr zl zr Rl Rr). done_with (JB (zl =? zr)) (VBool (zl =? zr)).
      + rewrite (rt_eql_str_js h vl vr sl sr Rl Rr). done_with (JB (beqb sl sr)) (VBool (beqb sl sr)).
    - (* != *)
      rewrite ab_neq.
      destruct jl as [| |bl|zl|sl|ll|ll], jr as [| |br|zr|sr|lr|lr]; cbn [sem_binop jv_strict_eq] in Hq |- *;
        try discriminate Hq; to_rep Rl Rr.
      + rewrite (rt_eql_bool_js h vl vr bl br Rl Rr). done_with (JB (negb (Bool.eqb bl br))) (VBool (negb (Bool.eqb bl br))).
      + rewrite (rt_eql_num_js h vl vr zl zr Rl Rr). done_with (JB (negb (zl =? zr))) (VBool (negb (zl =? zr))).
      + rewrite (rt_eql_str_js h vl vr sl sr Rl Rr). done_with (JB (negb (beqb sl sr))) (VBool (negb (beqb sl sr))).
    - (* !== *)
      rewrite ab_neq.
      destruct jl as [| |bl|zl|sl|ll|ll], jr as [| |br|zr|sr|lr|lr]; cbn [sem_binop jv_strict_eq] in Hq |- *;
        try discriminate Hq; to_rep Rl Rr.
      + rewrite (rt_eql_bool_js h vl vr bl br Rl Rr). done_with (JB (negb (Bool.eqb bl br))) (VBool (negb (Bool.eqb bl br))).
      + rewrite (rt_eql_num_js h vl vr zl zr Rl Rr). done_with (JB (negb (zl =? zr))) (VBool (negb (zl =? zr))).
      + rewrite (rt_eql_str_js h vl vr sl sr Rl Rr). done_with (JB (negb (beqb sl sr))) (VBool (negb (beqb sl sr))).
  Qed.
End Ops.

Lemma noflag_quiet fs s e : noflag fs s e = quiet_res s (sem_expr fs s e).
Proof. reflexivity. Qed.

(* ---- what carg emits for the constructs of the fragment ------------------------------------------------ *)
Section CargEq.
  Variable funcs : list bytes.
  Lemma carg_id x :
    carg funcs true (JId x) = if is_ident x then Some (ident_text funcs true x, Some (ident_arg funcs true x)) else None.
  Proof. reflexivity. Qed.
  Lemma carg_bin op l r :
    carg funcs true (JBin op l r) =
    (let n := op_name (binop_token op) in
     if negb (mem n runtime_funcs) then None else
     match carg funcs true l, carg funcs true r with
     | Some (lt, la), Some (rt, ra) =>
       Some (B "(" ++ n ++ sp ++ lt ++ sp ++ rt ++ B ")", Some (call n (opt_cons la (opt_cons ra []))))
     | _, _ => None
     end).
  Proof. reflexivity. Qed.
  Lemma carg_not p x :
    carg funcs true (JUn UNot p x) =
    match carg funcs true x with
    | Some (t, a) => Some (B "(" ++ B "__op__not" ++ sp ++ t ++ B ")", Some (call (B "__op__not") (opt_cons a [])))
    | None => None
    end.
  Proof. reflexivity. Qed.
  Lemma carg_neg p x :
    carg funcs true (JUn UNeg p x) =
    match carg funcs true x with
    | Some (t, a) => Some (B "(" ++ B "__op__sub" ++ sp ++ t ++ B ")", Some (call (B "__op__sub") (opt_cons a [])))
    | None => None
    end.
  Proof. reflexivity. Qed.
  Lemma carg_cond c a b :
    carg funcs true (JCond c a b) =
    match carg funcs true c, carg funcs true a, carg funcs true b with
    | Some (ct, Some ca), Some (at_, aa), Some (bt, ba) =>
      Some (B "(__if (" ++ ct ++ B ") (" ++ or_null_t at_ ++ B ") (" ++ or_null_t bt ++ B ") )",
            Some (call (B "__if") [cmd1 ca; cmd1 (or_null_a aa); cmd1 (or_null_a ba)]))
    | _, _, _ => None
    end.
  Proof. reflexivity. Qed.
End CargEq.

Lemma env_repu_on_app_l xs ys vs env : env_repu_on (xs ++ ys) vs env -> env_repu_on xs vs env.
Proof. intros H x Hx. apply H, in_or_app. left; exact Hx. Qed.
Lemma env_repu_on_app_r xs ys vs env : env_repu_on (xs ++ ys) vs env -> env_repu_on ys vs env.
Proof. intros H x Hx. apply H, in_or_app. right; exact Hx. Qed.
Lemma env_range_on_app_l xs ys env : env_range_on (xs ++ ys) env -> env_range_on xs env.
Proof. intros H x Hx. apply H, in_or_app. left; exact Hx. Qed.
Lemma env_range_on_app_r xs ys env : env_range_on (xs ++ ys) env -> env_range_on ys env.
Proof. intros H x Hx. apply H, in_or_app. right; exact Hx. Qed.

(* ---- the core lemma: operand form, any depth, explicit fuel ---------------------------------------------- *)
Section Core.
  Variables (funcs : list bytes) (E : env) (h : heap) (s : sstate).

  Definition agrees (fs F : nat) (e : jexpr) : Prop :=
    exists j t a v,
      sem_expr fs s e = SOk (j, s) /\ carg funcs true e = Some (t, Some a) /\ arg_shape a = true /\
      eval_operand F E h a = Ok (v, h) /\ repu v j /\ jv_ok j.

  Lemma core_operand : forall e fs F,
    scalar_core funcs e = true ->
    env_repu_on (fv e) (e_vars E) (s_env s) -> env_range_on (fv e) (s_env s) ->
    quietb fs s e = true -> (need e <= F)%nat ->
    agrees fs F e.
  Proof.
    induction e as [x|z|txt|t|parts|b| |es|kvs|e0 IH0 name|e0 IH0 i IHi|fn IHfn args|fn IHfn args|op p x IHx
                   |op l IHl r IHr|c IHc a IHa b IHb|op l IHl r IHr|es|x init];
      intros fs F Hsc Hrep Hrng Hq Hn; try discriminate Hsc;
      (destruct fs as [|f]; [discriminate Hq|]); cbn [quietb] in Hq.
    - (* variable *)
      cbn [scalar_core] in Hsc. apply andb_prop in Hsc. destruct Hsc as [Hsc Hrange].
      apply andb_prop in Hsc. destruct Hsc as [Hid Hk].
      apply negb_true_iff in Hk, Hrange.
      destruct F as [|F]; [cbn [need] in Hn; lia|].
      exists (env_get (s_env s) x), (ident_text funcs true x), (AVar x []), (var_val (e_vars E) x).
      repeat split.
      + rewrite carg_id, Hid. unfold ident_arg. rewrite Hk, Hrange. reflexivity.
      + apply Hrep. left; reflexivity.
      + apply Hrng. left; reflexivity.
    - (* number literal *)
      apply andb_prop in Hq. destruct Hq as [Hq _]. rewrite noflag_quiet, sem_num in Hq.
      unfold num in Hq. destruct (in_range z) eqn:Hz; [|discriminate Hq].
      destruct F as [|F]; [cbn [need] in Hn; lia|].
      exists (JN z), (show_Z z), (ANum z), (VInt z). repeat split.
      + rewrite sem_num. unfold num. rewrite Hz. reflexivity.
      + left. constructor.
      + exact Hz.
    - (* string literal *)
      cbn [scalar_core] in Hsc. destruct (goquote t) as [q|] eqn:Hg; [|discriminate Hsc].
      destruct F as [|F]; [cbn [need] in Hn; lia|].
      exists (JS t), q, (AStr t), (VGoStr t). repeat split.
      + cbn [carg]. rewrite Hg. reflexivity.
      + left. constructor.
    - (* boolean literal *)
      destruct F as [|F]; [cbn [need] in Hn; lia|].
      exists (JB b), (if b then B "true" else B "false"), (ABool b), (VGoBool b). repeat split.
      left. constructor.
    - (* unary *)
      apply andb_prop in Hq. destruct Hq as [Hq0 Hqx]. rewrite noflag_quiet in Hq0.
      cbn [need] in Hn. do 5 (destruct F as [|F]; [lia|]).
      assert (Hscx : scalar_core funcs x = true) by (destruct op; try discriminate Hsc; exact Hsc).
      destruct (IHx f F Hscx Hrep Hrng Hqx ltac:(lia)) as (jx & tx & ax & vx & Hsx & Hcx & Hax & Hex & Rx & Ox).
      destruct op; try discriminate Hsc.
      + (* ! *)
        rewrite sem_not, Hsx in Hq0. cbn [sbind] in Hq0. rewrite (to_boolean_u s vx jx Rx) in Hq0.
        exists (JB (negb (fst (to_boolean s jx)))). eexists.
        exists (call (B "__op__not") [ax]), (VBool (negb (fst (to_boolean s jx)))). repeat split.
        * rewrite sem_not, Hsx. cbn [sbind]. rewrite (to_boolean_u s vx jx Rx). reflexivity.
        * rewrite carg_not, Hcx. reflexivity.
        * apply pipe_call.
          rewrite (call1 E h F (B "__op__not") ([PValue], None) ax vx); try assumption;
            [|split; vm_compute; reflexivity|vm_compute; reflexivity|cbn; auto].
          rewrite ab_not, (truthy_u h s vx jx Rx). reflexivity.
        * left. constructor.
      + (* unary - *)
        rewrite sem_neg, Hsx in Hq0. cbn [sbind] in Hq0.
        destruct jx as [| |bx|zx|sx|lx|lx]; try discriminate Hq0.
        unfold num in Hq0. destruct (in_range (- zx)) eqn:Hr; [|discriminate Hq0].
        apply repu_rep in Rx; [|discriminate].
        exists (JN (- zx)). eexists. exists (call (B "__op__sub") [ax]), (VNum (- zx)). repeat split.
        * rewrite sem_neg, Hsx. cbn [sbind]. unfold num. rewrite Hr. reflexivity.
        * rewrite carg_neg, Hcx. reflexivity.
        * apply pipe_call.
          rewrite (call1 E h F (B "__op__sub") ([], Some PIface) ax vx); try assumption;
            [|split; vm_compute; reflexivity|vm_compute; reflexivity|cbn; auto].
          rewrite ab_neg, (rt_neg_js vx zx Rx Hr). reflexivity.
        * left. constructor.
        * exact Hr.
    - (* binary *)
      apply andb_prop in Hq. destruct Hq as [Hq0 Hq]. apply andb_prop in Hq. destruct Hq as [Hql Hqr].
      rewrite noflag_quiet in Hq0.
      cbn [scalar_core] in Hsc. apply andb_prop in Hsc. destruct Hsc as [Hsc Hscr].
      apply andb_prop in Hsc. destruct Hsc as [Hop Hscl].
      cbn [fv] in Hrep, Hrng.
      cbn [need] in Hn. do 5 (destruct F as [|F]; [lia|]).
      destruct (IHl f F Hscl (env_repu_on_app_l _ _ _ _ Hrep) (env_range_on_app_l _ _ _ Hrng) Hql ltac:(lia))
        as (jl & tl & al & vl & Hsl & Hcl & Hal & Hel & Rl & Ol).
      destruct (IHr f F Hscr (env_repu_on_app_r _ _ _ _ Hrep) (env_range_on_app_r _ _ _ Hrng) Hqr ltac:(lia))
        as (jr & tr & ar & vr & Hsr & Hcr & Har & Her & Rr & Or).
      assert (Hcarg : carg funcs true (JBin op l r) =
                      Some (B "(" ++ helper op ++ sp ++ tl ++ sp ++ tr ++ B ")", Some (call (helper op) [al; ar]))).
      { rewrite carg_bin. cbv zeta. rewrite (helper_name op Hop), (helper_runtime op Hop), Hcl, Hcr. reflexivity. }
      assert (Hcall : eval_operand (S (S (S (S (S F))))) E h (call (helper op) [al; ar]) = apply_builtin h (helper op) [vl; vr]).
      { destruct (apply_builtin h (helper op) [vl; vr]) eqn:Hab.
        - apply pipe_call.
          rewrite (call2 E h F (helper op) (sig_of op) al ar vl vr (helper_plain op Hop) (helper_sig op Hop) (sig_of_open op)
                         Hal Har Hel Her). exact Hab.
        - unfold call. rewrite operand_pipe, cmds_one, cmd_ident.
          rewrite (call2 E h F (helper op) (sig_of op) al ar vl vr (helper_plain op Hop) (helper_sig op Hop) (sig_of_open op)
                         Hal Har Hel Her), Hab. reflexivity.
        - unfold call. rewrite operand_pipe, cmds_one, cmd_ident.
          rewrite (call2 E h F (helper op) (sig_of op) al ar vl vr (helper_plain op Hop) (helper_sig op Hop) (sig_of_open op)
                         Hal Har Hel Her), Hab. reflexivity.
        - unfold call. rewrite operand_pipe, cmds_one, cmd_ident.
          rewrite (call2 E h F (helper op) (sig_of op) al ar vl vr (helper_plain op Hop) (helper_sig op Hop) (sig_of_open op)
                         Hal Har Hel Her), Hab. reflexivity. }
      destruct (plain_binop op) eqn:Hp.
      + (* strict operators *)
        rewrite (sem_bin f s op l r Hp), Hsl in Hq0. cbn [sbind] in Hq0. rewrite Hsr in Hq0. cbn [sbind] in Hq0.
        destruct (binop_agree h s op jl jr vl vr Hop Hp Rl Rr Ol Or Hq0) as (j & v & Hsb & Hab & Rv & Ov).
        exists j. eexists. exists (call (helper op) [al; ar]), v. repeat split.
        * rewrite (sem_bin f s op l r Hp), Hsl. cbn [sbind]. rewrite Hsr. cbn [sbind]. exact Hsb.
        * exact Hcarg.
        * rewrite Hcall. exact Hab.
        * left. exact Rv.
        * exact Ov.
      + (* && and || : the operand itself is the result *)
        destruct op; try discriminate Hp; try discriminate Hop.
        * exists (if fst (to_boolean s jl) then jr else jl). eexists.
          exists (call (helper BAnd) [al; ar]), (box_valid (if fst (to_boolean s jl) then vr else vl)). repeat split.
          -- rewrite sem_and, Hsl. cbn [sbind]. rewrite (to_boolean_u s vl jl Rl).
             destruct (fst (to_boolean s jl)); rewrite Hsr; reflexivity.
          -- exact Hcarg.
          -- rewrite Hcall. cbn [helper]. rewrite ab_and, (rt_and_val h s vl vr jl jr Rl Rr). reflexivity.
          -- apply repu_box_valid. destruct (fst (to_boolean s jl)); assumption.
          -- destruct (fst (to_boolean s jl)); assumption.
        * exists (if fst (to_boolean s jl) then jl else jr). eexists.
          exists (call (helper BOr) [al; ar]), (box_valid (if fst (to_boolean s jl) then vl else vr)). repeat split.
          -- rewrite sem_or, Hsl. cbn [sbind]. rewrite (to_boolean_u s vl jl Rl).
             destruct (fst (to_boolean s jl)); rewrite Hsr; reflexivity.
          -- exact Hcarg.
          -- rewrite Hcall. cbn [helper]. rewrite ab_or, (rt_or_val h s vl vr jl jr Rl Rr). reflexivity.
          -- apply repu_box_valid. destruct (fst (to_boolean s jl)); assumption.
          -- destruct (fst (to_boolean s jl)); assumption.
    - (* ?: *)
      apply andb_prop in Hq. destruct Hq as [Hq0 Hq]. apply andb_prop in Hq. destruct Hq as [Hq Hqb].
      apply andb_prop in Hq. destruct Hq as [Hqc Hqa].
      cbn [scalar_core] in Hsc. apply andb_prop in Hsc. destruct Hsc as [Hsc Hscb].
      apply andb_prop in Hsc. destruct Hsc as [Hscc Hsca].
      cbn [fv] in Hrep, Hrng.
      cbn [need] in Hn. do 7 (destruct F as [|F]; [lia|]).
      destruct (IHc f F Hscc (env_repu_on_app_l _ _ _ _ Hrep) (env_range_on_app_l _ _ _ Hrng) Hqc ltac:(lia))
        as (jc & tc & ac & vc & Hsc_ & Hcc & Hac & Hec & Rc & Oc).
      destruct (IHa f F Hsca (env_repu_on_app_l _ _ _ _ (env_repu_on_app_r _ _ _ _ Hrep))
                    (env_range_on_app_l _ _ _ (env_range_on_app_r _ _ _ Hrng)) Hqa ltac:(lia))
        as (ja & ta & aa & va & Hsa & Hca & Haa & Hea & Ra & Oa).
      destruct (IHb f F Hscb (env_repu_on_app_r _ _ _ _ (env_repu_on_app_r _ _ _ _ Hrep))
                    (env_range_on_app_r _ _ _ (env_range_on_app_r _ _ _ Hrng)) Hqb ltac:(lia))
        as (jb & tb & ab & vb & Hsb & Hcb & Hab & Heb & Rb & Ob).
      exists (if fst (to_boolean s jc) then ja else jb). eexists.
      exists (call (B "__if") [cmd1 ac; cmd1 aa; cmd1 ab]), (box (if fst (to_boolean s jc) then va else vb)).
      repeat split.
      + rewrite sem_cond, Hsc_. cbn [sbind]. rewrite (to_boolean_u s vc jc Rc).
        destruct (fst (to_boolean s jc)); rewrite Hsa, Hsb; reflexivity.
      + rewrite carg_cond, Hcc, Hca, Hcb. reflexivity.
      + apply pipe_call.
        rewrite (call_if E h (S (S F)) (cmd1 ac) (cmd1 aa) (cmd1 ab) vc va vb); try reflexivity;
          try (apply cmd1_eval; assumption).
        rewrite (truthy_u h s vc jc Rc). reflexivity.
      + apply repu_box. destruct (fst (to_boolean s jc)); assumption.
      + destruct (fst (to_boolean s jc)); assumption.
  Qed.
End Core.

(* ---- S alone on the fragment: the state changes by added flags only ------------------------------------ *)
Definition addfl (fl : list nat) (s : sstate) : sstate :=
  {| s_env := s_env s; s_heap := s_heap s; s_out := s_out s; s_flags := fl ++ s_flags s; s_grown := s_grown s |}.
Lemma addfl_nil s : addfl [] s = s.
Proof. destruct s; reflexivity. Qed.
Lemma addfl_addfl a b s : addfl a (addfl b s) = addfl (a ++ b) s.
Proof. unfold addfl; cbn. rewrite app_assoc. reflexivity. Qed.
Lemma flag_addfl s k : flag s k = addfl [k] s.
Proof. reflexivity. Qed.
Lemma app_eq_self {A} (a l : list A) : a ++ l = l -> a = [].
Proof.
  intros H. apply (f_equal (@length A)) in H. rewrite app_length in H.
  destruct a; [reflexivity|cbn in H; lia].
Qed.
Lemma addfl_same_flags fl s : s_flags (addfl fl s) = s_flags s -> addfl fl s = s.
Proof. cbn. intros H. apply app_eq_self in H. subst. apply addfl_nil. Qed.
Lemma addfl_same_len fl s : length (s_flags (addfl fl s)) = length (s_flags s) -> addfl fl s = s.
Proof. cbn. rewrite app_length. intros H. destruct fl; [apply addfl_nil|cbn in H; lia]. Qed.

Lemma to_boolean_pres s v : exists fl, snd (to_boolean s v) = addfl fl s.
Proof.
  destruct v; cbn; try (exists []; symmetry; apply addfl_nil).
  - destruct (jget (s_heap s) l) as [[[|]|]|]; try (exists []; symmetry; apply addfl_nil). exists [fl_empty_truthy]. reflexivity.
  - destruct (jget (s_heap s) l) as [[|[|]]|]; try (exists []; symmetry; apply addfl_nil). exists [fl_empty_truthy]. reflexivity.
Qed.
Lemma to_boolean_fst s1 s2 v : fst (to_boolean s1 v) = fst (to_boolean s2 v).
Proof. destruct v; reflexivity. Qed.

Lemma sem_binop_pres s op a b j s' : sem_binop s op a b = SOk (j, s') -> exists fl, s' = addfl fl s.
Proof.
  assert (Hs : forall j0, SOk (j0, s) = SOk (j, s') -> exists fl, s' = addfl fl s).
  { intros j0 H. injection H as _ <-. exists []. symmetry; apply addfl_nil. }
  assert (Hn : forall z, (sdo v <- num z; SOk (v, s)) = SOk (j, s') -> exists fl, s' = addfl fl s).
  { intros z. unfold num. destruct (in_range z); cbn [sbind]; [apply Hs|discriminate]. }
  destruct op; cbn [sem_binop]; try discriminate;
    destruct a, b; cbn [jv_strict_eq]; try discriminate; try apply Hs; try apply Hn;
    repeat match goal with |- context [if ?c then _ else _] => destruct c end;
    try discriminate; try apply Hs; try apply Hn.
  intros H. injection H as _ <-. exists [fl_num_plus_str]. reflexivity.
Qed.

Section SAlone.
  Variable funcs : list bytes.

  Lemma sem_pres : forall e fs s j s',
    scalar_core funcs e = true -> sem_expr fs s e = SOk (j, s') -> exists fl, s' = addfl fl s.
  Proof.
    induction e as [x|z|txt|t|parts|b| |es|kvs|e0 IH0 name|e0 IH0 i IHi|fn IHfn args|fn IHfn args|op p x IHx
                   |op l IHl r IHr|c IHc a IHa b IHb|op l IHl r IHr|es|x init];
      intros fs s j s' Hsc H; try discriminate Hsc; (destruct fs as [|f]; [discriminate H|]).
    - rewrite sem_id in H. injection H as _ <-. exists []. symmetry; apply addfl_nil.
    - rewrite sem_num in H. unfold num in H. destruct (in_range z); [|discriminate H].
      injection H as _ <-. exists []. symmetry; apply addfl_nil.
    - rewrite sem_str in H. injection H as _ <-. exists []. symmetry; apply addfl_nil.
    - rewrite sem_bool in H. injection H as _ <-. exists []. symmetry; apply addfl_nil.
    - assert (Hscx : scalar_core funcs x = true) by (destruct op; try discriminate Hsc; exact Hsc).
      destruct op; try discriminate Hsc.
      + rewrite sem_not in H. destruct (sem_expr f s x) as [[v s1]| | |] eqn:Hx; try discriminate H.
        cbn [sbind] in H. destruct (IHx _ _ _ _ Hscx Hx) as [fl1 ->].
        destruct (to_boolean_pres (addfl fl1 s) v) as [fl2 Hb].
        destruct (to_boolean (addfl fl1 s) v) as [bb s2]. cbn [snd] in Hb. subst s2.
        injection H as _ <-. rewrite addfl_addfl. eexists; reflexivity.
      + rewrite sem_neg in H. destruct (sem_expr f s x) as [[v s1]| | |] eqn:Hx; try discriminate H.
        cbn [sbind] in H. destruct (IHx _ _ _ _ Hscx Hx) as [fl1 ->].
        destruct v; try discriminate H. unfold num in H. destruct (in_range (- z)); [|discriminate H].
        injection H as _ <-. eexists; reflexivity.
    - cbn [scalar_core] in Hsc. apply andb_prop in Hsc. destruct Hsc as [Hsc Hscr].
      apply andb_prop in Hsc. destruct Hsc as [Hop Hscl].
      destruct (plain_binop op) eqn:Hp.
      + rewrite (sem_bin f s op l r Hp) in H.
        destruct (sem_expr f s l) as [[x s1]| | |] eqn:Hl; try discriminate H. cbn [sbind] in H.
        destruct (IHl _ _ _ _ Hscl Hl) as [fl1 ->].
        destruct (sem_expr f (addfl fl1 s) r) as [[y s2]| | |] eqn:Hr; try discriminate H. cbn [sbind] in H.
        destruct (IHr _ _ _ _ Hscr Hr) as [fl2 ->].
        destruct (sem_binop_pres _ _ _ _ _ _ H) as [fl3 ->].
        rewrite !addfl_addfl. eexists; reflexivity.
      + destruct op; try discriminate Hp; try discriminate Hop.
        * rewrite sem_and in H.
          destruct (sem_expr f s l) as [[x s1]| | |] eqn:Hl; try discriminate H. cbn [sbind] in H.
          destruct (IHl _ _ _ _ Hscl Hl) as [fl1 ->].
          destruct (to_boolean_pres (addfl fl1 s) x) as [fl2 Hb].
          destruct (to_boolean (addfl fl1 s) x) as [bb s2]. cbn [snd] in Hb. subst s2.
          destruct bb.
          -- destruct (IHr _ _ _ _ Hscr H) as [fl3 ->]. rewrite !addfl_addfl. eexists; reflexivity.
          -- destruct (sem_expr f (addfl fl2 (addfl fl1 s)) r) as [[y s3]| | |]; try discriminate H.
             cbn [sbind] in H. injection H as _ <-. rewrite !addfl_addfl. eexists; reflexivity.
        * rewrite sem_or in H.
          destruct (sem_expr f s l) as [[x s1]| | |] eqn:Hl; try discriminate H. cbn [sbind] in H.
          destruct (IHl _ _ _ _ Hscl Hl) as [fl1 ->].
          destruct (to_boolean_pres (addfl fl1 s) x) as [fl2 Hb].
          destruct (to_boolean (addfl fl1 s) x) as [bb s2]. cbn [snd] in Hb. subst s2.
          destruct bb.
          -- destruct (sem_expr f (addfl fl2 (addfl fl1 s)) r) as [[y s3]| | |]; try discriminate H.
             cbn [sbind] in H. injection H as _ <-. rewrite !addfl_addfl. eexists; reflexivity.
          -- destruct (IHr _ _ _ _ Hscr H) as [fl3 ->]. rewrite !addfl_addfl. eexists; reflexivity.
    - cbn [scalar_core] in Hsc. apply andb_prop in Hsc. destruct Hsc as [Hsc Hscb].
      apply andb_prop in Hsc. destruct Hsc as [Hscc Hsca].
      rewrite sem_cond in H.
      destruct (sem_expr f s c) as [[x s1]| | |] eqn:Hc; try discriminate H. cbn [sbind] in H.
      destruct (IHc _ _ _ _ Hscc Hc) as [fl1 ->].
      destruct (to_boolean_pres (addfl fl1 s) x) as [fl2 Hb].
      destruct (to_boolean (addfl fl1 s) x) as [bb s2]. cbn [snd] in Hb. subst s2.
      destruct bb.
      + destruct (sem_expr f (addfl fl2 (addfl fl1 s)) b) as [[y s3]| | |]; try discriminate H. cbn [sbind] in H.
        destruct (IHa _ _ _ _ Hsca H) as [fl3 ->]. rewrite !addfl_addfl. eexists; reflexivity.
      + destruct (sem_expr f (addfl fl2 (addfl fl1 s)) a) as [[y s3]| | |]; try discriminate H. cbn [sbind] in H.
        destruct (IHb _ _ _ _ Hscb H) as [fl3 ->]. rewrite !addfl_addfl. eexists; reflexivity.
  Qed.

  (* S only ever conses flags; nothing else of the state changes *)
  Lemma sem_flags_mono fs s e j s' :
    scalar_core funcs e = true -> sem_expr fs s e = SOk (j, s') -> exists l, s_flags s' = l ++ s_flags s.
  Proof. intros Hsc H. destruct (sem_pres e fs s j s' Hsc H) as [fl ->]. exists fl. reflexivity. Qed.

  Lemma sem_unchanged fs s e j s' :
    scalar_core funcs e = true -> sem_expr fs s e = SOk (j, s') ->
    s_env s' = s_env s /\ s_heap s' = s_heap s /\ s_out s' = s_out s /\ s_grown s' = s_grown s.
  Proof. intros Hsc H. destruct (sem_pres e fs s j s' Hsc H) as [fl ->]. repeat split. Qed.

  Lemma sem_same_state fs s e j s' :
    scalar_core funcs e = true -> sem_expr fs s e = SOk (j, s') -> s_flags s' = s_flags s -> s' = s.
  Proof. intros Hsc H Hf. destruct (sem_pres e fs s j s' Hsc H) as [fl ->]. apply addfl_same_flags. exact Hf. Qed.
End SAlone.

(* ---- from S's own answer to [quietb] --------------------------------------------------------------------- *)
(* the operand of && / || and the branch of ?: that S evaluates for the domain check only (and whose final
   state, flags included, it drops) raise no flag either; everything live is covered by S's final flags *)
Fixpoint dead_quiet (fs : nat) (s : sstate) (e : jexpr) : bool :=
  match fs with
  | O => true
  | S f =>
    match e with
    | JBin BAnd l r =>
      dead_quiet f s l &&
      match sem_expr f s l with
      | SOk (v, _) => if fst (to_boolean s v) then dead_quiet f s r else quietb f s r
      | _ => true
      end
    | JBin BOr l r =>
      dead_quiet f s l &&
      match sem_expr f s l with
      | SOk (v, _) => if fst (to_boolean s v) then quietb f s r else dead_quiet f s r
      | _ => true
      end
    | JBin _ l r => dead_quiet f s l && dead_quiet f s r
    | JUn _ _ x => dead_quiet f s x
    | JCond c a b =>
      dead_quiet f s c &&
      match sem_expr f s c with
      | SOk (v, _) =>
        if fst (to_boolean s v) then dead_quiet f s a && quietb f s b else quietb f s a && dead_quiet f s b
      | _ => true
      end
    | _ => true
    end
  end.

Lemma dead_quiet_bin f s op l r :
  plain_binop op = true -> dead_quiet (S f) s (JBin op l r) = dead_quiet f s l && dead_quiet f s r.
Proof. destruct op; try discriminate; reflexivity. Qed.

Lemma noflag_of fs s e j s' : sem_expr fs s e = SOk (j, s') -> s_flags s' = s_flags s -> noflag fs s e = true.
Proof. intros H Hf. unfold noflag. rewrite H, Hf. apply Nat.eqb_refl. Qed.

Section LiveQuiet.
  Variable funcs : list bytes.

  Ltac nil_flags Hf :=
    rewrite ?addfl_addfl in Hf; apply app_eq_self in Hf;
    repeat match goal with H : _ ++ _ = [] |- _ => apply app_eq_nil in H; destruct H end; subst.

  Lemma live_quiet : forall e fs s j s',
    scalar_core funcs e = true -> sem_expr fs s e = SOk (j, s') -> s_flags s' = s_flags s ->
    dead_quiet fs s e = true -> quietb fs s e = true.
  Proof.
    induction e as [x|z|txt|t|parts|b| |es|kvs|e0 IH0 name|e0 IH0 i IHi|fn IHfn args|fn IHfn args|op p x IHx
                   |op l IHl r IHr|c IHc a IHa b IHb|op l IHl r IHr|es|x init];
      intros fs s j s' Hsc H Hf Hd; try discriminate Hsc; (destruct fs as [|f]; [discriminate H|]);
      cbn [quietb]; rewrite (noflag_of _ _ _ _ _ H Hf); cbn [andb]; try reflexivity.
    - (* unary *)
      assert (Hscx : scalar_core funcs x = true) by (destruct op; try discriminate Hsc; exact Hsc).
      cbn [dead_quiet] in Hd.
      destruct op; try discriminate Hsc.
      + rewrite sem_not in H. destruct (sem_expr f s x) as [[v s1]| | |] eqn:Hx; try discriminate H.
        cbn [sbind] in H. destruct (sem_pres funcs _ _ _ _ _ Hscx Hx) as [fl1 ->].
        destruct (to_boolean_pres (addfl fl1 s) v) as [fl2 Hb].
        destruct (to_boolean (addfl fl1 s) v) as [bb s2]. cbn [snd] in Hb. subst s2.
        injection H as _ <-. cbn [s_flags addfl] in Hf. rewrite app_assoc in Hf. nil_flags Hf.
        rewrite addfl_nil in Hx. exact (IHx _ _ _ _ Hscx Hx eq_refl Hd).
      + rewrite sem_neg in H. destruct (sem_expr f s x) as [[v s1]| | |] eqn:Hx; try discriminate H.
        cbn [sbind] in H. destruct (sem_pres funcs _ _ _ _ _ Hscx Hx) as [fl1 ->].
        destruct v; try discriminate H. unfold num in H. destruct (in_range (- z)); [|discriminate H].
        injection H as _ <-. cbn [s_flags addfl] in Hf. nil_flags Hf.
        rewrite addfl_nil in Hx. exact (IHx _ _ _ _ Hscx Hx eq_refl Hd).
    - (* binary *)
      cbn [scalar_core] in Hsc. apply andb_prop in Hsc. destruct Hsc as [Hsc Hscr].
      apply andb_prop in Hsc. destruct Hsc as [Hop Hscl].
      destruct (plain_binop op) eqn:Hp.
      + rewrite (dead_quiet_bin f s op l r Hp) in Hd. apply andb_prop in Hd. destruct Hd as [Hdl Hdr].
        rewrite (sem_bin f s op l r Hp) in H.
        destruct (sem_expr f s l) as [[x s1]| | |] eqn:Hl; try discriminate H. cbn [sbind] in H.
        destruct (sem_pres funcs _ _ _ _ _ Hscl Hl) as [fl1 ->].
        destruct (sem_expr f (addfl fl1 s) r) as [[y s2]| | |] eqn:Hr; try discriminate H. cbn [sbind] in H.
        destruct (sem_pres funcs _ _ _ _ _ Hscr Hr) as [fl2 ->].
        destruct (sem_binop_pres _ _ _ _ _ _ H) as [fl3 ->].
        rewrite !addfl_addfl in Hf. cbn [s_flags addfl] in Hf. nil_flags Hf.
        try rewrite !addfl_nil in Hl; try rewrite !addfl_nil in Hr.
        rewrite (IHl _ _ _ _ Hscl Hl eq_refl Hdl), (IHr _ _ _ _ Hscr Hr eq_refl Hdr). reflexivity.
      + destruct op; try discriminate Hp; try discriminate Hop.
        * cbn [dead_quiet] in Hd. apply andb_prop in Hd. destruct Hd as [Hdl Hdr].
          rewrite sem_and in H.
          destruct (sem_expr f s l) as [[x s1]| | |] eqn:Hl; try discriminate H. cbn [sbind] in H.
          destruct (sem_pres funcs _ _ _ _ _ Hscl Hl) as [fl1 ->].
          pose proof (to_boolean_fst (addfl fl1 s) s x) as Hfst.
          destruct (to_boolean_pres (addfl fl1 s) x) as [fl2 Hb].
          destruct (to_boolean (addfl fl1 s) x) as [bb s2]. cbn [snd] in Hb. cbn [fst] in Hfst. subst s2.
          rewrite <- Hfst in Hdr.
          destruct bb.
          -- destruct (sem_pres funcs _ _ _ _ _ Hscr H) as [fl3 ->].
             rewrite !addfl_addfl in Hf. cbn [s_flags addfl] in Hf. nil_flags Hf.
             try rewrite !addfl_nil in Hl; try rewrite !addfl_nil in H.
             rewrite (IHl _ _ _ _ Hscl Hl eq_refl Hdl), (IHr _ _ _ _ Hscr H eq_refl Hdr). reflexivity.
          -- destruct (sem_expr f (addfl fl2 (addfl fl1 s)) r) as [[y s3]| | |]; try discriminate H.
             cbn [sbind] in H. injection H as _ <-.
             rewrite !addfl_addfl in Hf. cbn [s_flags addfl] in Hf. nil_flags Hf.
             try rewrite !addfl_nil in Hl.
             rewrite (IHl _ _ _ _ Hscl Hl eq_refl Hdl), Hdr. reflexivity.
        * cbn [dead_quiet] in Hd. apply andb_prop in Hd. destruct Hd as [Hdl Hdr].
          rewrite sem_or in H.
          destruct (sem_expr f s l) as [[x s1]| | |] eqn:Hl; try discriminate H. cbn [sbind] in H.
          destruct (sem_pres funcs _ _ _ _ _ Hscl Hl) as [fl1 ->].
          pose proof (to_boolean_fst (addfl fl1 s) s x) as Hfst.
          destruct (to_boolean_pres (addfl fl1 s) x) as [fl2 Hb].
          destruct (to_boolean (addfl fl1 s) x) as [bb s2]. cbn [snd] in Hb. cbn [fst] in Hfst. subst s2.
          rewrite <- Hfst in Hdr.
          destruct bb.
          -- destruct (sem_expr f (addfl fl2 (addfl fl1 s)) r) as [[y s3]| | |]; try discriminate H.
             cbn [sbind] in H. injection H as _ <-.
             rewrite !addfl_addfl in Hf. cbn [s_flags addfl] in Hf. nil_flags Hf.
             try rewrite !addfl_nil in Hl.
             rewrite (IHl _ _ _ _ Hscl Hl eq_refl Hdl), Hdr. reflexivity.
          -- destruct (sem_pres funcs _ _ _ _ _ Hscr H) as [fl3 ->].
             rewrite !addfl_addfl in Hf. cbn [s_flags addfl] in Hf. nil_flags Hf.
             try rewrite !addfl_nil in Hl; try rewrite !addfl_nil in H.
             rewrite (IHl _ _ _ _ Hscl Hl eq_refl Hdl), (IHr _ _ _ _ Hscr H eq_refl Hdr). reflexivity.
    - (* ?: *)
      cbn [scalar_core] in Hsc. apply andb_prop in Hsc. destruct Hsc as [Hsc Hscb].
      apply andb_prop in Hsc. destruct Hsc as [Hscc Hsca].
      cbn [dead_quiet] in Hd. apply andb_prop in Hd. destruct Hd as [Hdc Hdr].
      rewrite sem_cond in H.
      destruct (sem_expr f s c) as [[x s1]| | |] eqn:Hc; try discriminate H. cbn [sbind] in H.
      destruct (sem_pres funcs _ _ _ _ _ Hscc Hc) as [fl1 ->].
      pose proof (to_boolean_fst (addfl fl1 s) s x) as Hfst.
      destruct (to_boolean_pres (addfl fl1 s) x) as [fl2 Hb].
      destruct (to_boolean (addfl fl1 s) x) as [bb s2]. cbn [snd] in Hb. cbn [fst] in Hfst. subst s2.
      rewrite <- Hfst in Hdr.
      destruct bb.
      + destruct (sem_expr f (addfl fl2 (addfl fl1 s)) b) as [[y s3]| | |]; try discriminate H. cbn [sbind] in H.
        destruct (sem_pres funcs _ _ _ _ _ Hsca H) as [fl3 ->].
        rewrite !addfl_addfl in Hf. cbn [s_flags addfl] in Hf. nil_flags Hf.
        try rewrite !addfl_nil in Hc; try rewrite !addfl_nil in H. apply andb_prop in Hdr. destruct Hdr as [Hda Hqb].
        rewrite (IHc _ _ _ _ Hscc Hc eq_refl Hdc), (IHa _ _ _ _ Hsca H eq_refl Hda), Hqb. reflexivity.
      + destruct (sem_expr f (addfl fl2 (addfl fl1 s)) a) as [[y s3]| | |]; try discriminate H. cbn [sbind] in H.
        destruct (sem_pres funcs _ _ _ _ _ Hscb H) as [fl3 ->].
        rewrite !addfl_addfl in Hf. cbn [s_flags addfl] in Hf. nil_flags Hf.
        try rewrite !addfl_nil in Hc; try rewrite !addfl_nil in H. apply andb_prop in Hdr. destruct Hdr as [Hqa Hdb].
        rewrite (IHc _ _ _ _ Hscc Hc eq_refl Hdc), Hqa, (IHb _ _ _ _ Hscb H eq_refl Hdb). reflexivity.
  Qed.
End LiveQuiet.

(* ---- the composition theorems ------------------------------------------------------------------------------ *)
Lemma need_pos e : (1 <= need e)%nat.
Proof. destruct e; cbn [need]; lia. Qed.

Section Main.
  Variables (funcs : list bytes) (E : env) (h : heap).

  (* every hypothesis about S's run in one boolean: no sub-expression raises a flag *)
  Theorem operand_agree e fs s F :
    scalar_core funcs e = true ->
    env_repu_on (fv e) (e_vars E) (s_env s) -> env_range_on (fv e) (s_env s) ->
    quietb fs s e = true -> (need e <= F)%nat ->
    exists j t a v,
      sem_expr fs s e = SOk (j, s) /\ carg funcs true e = Some (t, Some a) /\
      eval_operand F E h a = Ok (v, h) /\ eval_cmd F E h [a] VInvalid = Ok (v, h) /\ repu v j /\ jv_ok j.
  Proof.
    intros Hsc Hrep Hrng Hq Hn.
    destruct (core_operand funcs E h s e fs F Hsc Hrep Hrng Hq Hn) as (j & t & a & v & Hs & Hc & Ha & He & R & O).
    exists j, t, a, v. repeat split; try assumption. rewrite (cmd_alone E h F a Ha). exact He.
  Qed.

  (* the fuel-explicit statement in terms of S's own answer *)
  Theorem compile_eval_fuel e F fs s j s' :
    scalar_core funcs e = true -> (need e <= F)%nat ->
    env_repu_on (fv e) (e_vars E) (s_env s) -> env_range_on (fv e) (s_env s) ->
    sem_expr fs s e = SOk (j, s') -> s_flags s' = s_flags s -> dead_quiet fs s e = true ->
    exists t a v,
      carg funcs true e = Some (t, Some a) /\
      eval_operand F E h a = Ok (v, h) /\ eval_cmd F E h [a] VInvalid = Ok (v, h) /\
      repu v j /\ jv_ok j /\
      s_env s' = s_env s /\ s_heap s' = s_heap s /\ s_out s' = s_out s /\ s_grown s' = s_grown s.
  Proof.
    intros Hsc Hn Hrep Hrng Hs Hf Hd.
    pose proof (live_quiet funcs e fs s j s' Hsc Hs Hf Hd) as Hq.
    destruct (operand_agree e fs s F Hsc Hrep Hrng Hq Hn) as (j0 & t & a & v & Hs0 & Hc & He & Hcmd & R & O).
    rewrite Hs in Hs0. injection Hs0 as <- ->.
    exists t, a, v. repeat split; assumption.
  Qed.

  Lemma cmds_single f a v :
    eval_cmd (S f) E h [a] VInvalid = Ok (v, h) -> eval_cmds (S (S f)) E h [[a]] VInvalid = Ok (v, h).
  Proof. intros H. rewrite cmds_one, H. cbn [bind]. apply cmds_nil. Qed.

  Lemma expr_fuel_SS : expr_fuel = S (S (pred (pred expr_fuel))).
  Proof. reflexivity. Qed.

  (* what eval_pipeline reaches: eval_cmds at expr_fuel, eval_cmd at pred expr_fuel = 399 *)
  Theorem compile_eval_pipeline e fs s j s' :
    scalar_core funcs e = true -> (need e < expr_fuel)%nat ->
    env_repu_on (fv e) (e_vars E) (s_env s) -> env_range_on (fv e) (s_env s) ->
    sem_expr fs s e = SOk (j, s') -> s_flags s' = s_flags s -> dead_quiet fs s e = true ->
    exists t a v,
      carg funcs true e = Some (t, Some a) /\
      eval_cmd (pred expr_fuel) E h [a] VInvalid = Ok (v, h) /\
      eval_cmds expr_fuel E h [[a]] VInvalid = Ok (v, h) /\
      repu v j /\ jv_ok j /\
      s_env s' = s_env s /\ s_heap s' = s_heap s /\ s_out s' = s_out s /\ s_grown s' = s_grown s.
  Proof.
    intros Hsc Hn Hrep Hrng Hs Hf Hd.
    assert (Hn' : (need e <= pred expr_fuel)%nat) by lia.
    destruct (compile_eval_fuel e (pred expr_fuel) fs s j s' Hsc Hn' Hrep Hrng Hs Hf Hd)
      as (t & a & v & Hc & _ & Hcmd & R & O & Hst).
    exists t, a, v. repeat split; try assumption; try apply Hst.
    rewrite expr_fuel_SS. apply cmds_single. exact Hcmd.
  Qed.

  Lemma depth_fuel_56 e : (depth e <= 56)%nat -> (need e < expr_fuel)%nat.
  Proof. intros H. pose proof (need_depth e). unfold expr_fuel. lia. Qed.
  Lemma depth_fuel_79 e : cond_free e = true -> (depth e <= 79)%nat -> (need e < expr_fuel)%nat.
  Proof. intros Hc H. pose proof (need_depth_cond_free e Hc). unfold expr_fuel. lia. Qed.

  (* expr_fuel is enough for every expression of nesting depth <= 56 (7 levels of fuel per ?:, 5 per
     operator: <= 79 without ?:); deeper chains of ?: exhaust the model's fuel, see [cond_chain_57_fuel] *)
  Theorem compile_eval e fs s j s' :
    scalar_core funcs e = true -> (depth e <= 56)%nat ->
    env_repu_on (fv e) (e_vars E) (s_env s) -> env_range_on (fv e) (s_env s) ->
    sem_expr fs s e = SOk (j, s') -> s_flags s' = s_flags s -> dead_quiet fs s e = true ->
    exists t a v,
      carg funcs true e = Some (t, Some a) /\
      eval_cmd (pred expr_fuel) E h [a] VInvalid = Ok (v, h) /\
      eval_cmds expr_fuel E h [[a]] VInvalid = Ok (v, h) /\
      repu v j /\ jv_ok j /\
      s_env s' = s_env s /\ s_heap s' = s_heap s /\ s_out s' = s_out s /\ s_grown s' = s_grown s.
  Proof. intros Hsc Hdp. apply compile_eval_pipeline; [exact Hsc|apply depth_fuel_56; exact Hdp]. Qed.
End Main.

(* ---- buffered escaped code: what is printed ------------------------------------------------------------------ *)
Definition printable (j : jv) : bool := match j with JN _ | JS _ | JB _ => true | _ => false end.

Lemma txt_js h v j s t s2 :
  repu v j -> printable j = true -> jv_ok j -> print_string s j = SOk (t, s2) -> txt h v = Ok t /\ valid v = true.
Proof.
  intros R Hp Ho Hs. destruct j; try discriminate Hp; apply repu_rep in R; try discriminate;
    unfold print_string, tostr in Hs; cbn in Hs; injection Hs as <- _;
    inversion R; subst; unfold txt, to_text, depth_fuel; cbn; rewrite ?(in_range_num_text _ Ho); split; reflexivity.
Qed.

Lemma plain_escape s : forallb (fun c => negb (is_special c)) s = true -> escape s = s.
Proof.
  induction s as [|c s IH]; cbn [forallb]; intros H; [reflexivity|].
  apply andb_prop in H. destruct H as [Hc Hs]. unfold escape in *. cbn [flat_map]. rewrite (IH Hs).
  destruct (esc_char_cases c) as [[_ ->]|[Hsp _]]; [reflexivity|]. rewrite Hsp in Hc. discriminate.
Qed.
Lemma show_Z_escape z : escape (show_Z z) = show_Z z.
Proof.
  apply plain_escape. destruct z; [reflexivity| |]; cbn [show_Z].
  - apply show_N_fuel_plain; reflexivity.
  - cbn [forallb]. change (negb (is_special "-"%char)) with true. cbn [andb]. apply show_N_fuel_plain; reflexivity.
Qed.

(* a token that stands alone becomes this node (Tmpl/IR.v parse_list) *)
Definition node_of_tok (t : tok) : option tnode :=
  match t with
  | TText x => Some (NText x)
  | TAct _ _ _ (AcPipe p) => Some (NAction p)
  | _ => None
  end.

(* a buffered string literal is written into the template as text through the delimiter quoting of the Text
   arm (repair F-C06-f): it is ONE text token exactly when nothing in it needs quoting *)
Definition str_single (e : jexpr) : bool :=
  match e with
  | JStr s => match text_toks (quote_text (escape s)) with [] | [TText _] => true | _ => false end
  | _ => true
  end.

Section CargSome.
  Variable funcs : list bytes.
  Lemma carg_some e :
    scalar_core funcs e = true -> exists t a, carg funcs true e = Some (t, Some a) /\ arg_shape a = true.
  Proof.
    induction e as [x|z|txt|t|parts|b| |es|kvs|e0 IH0 name|e0 IH0 i IHi|fn IHfn args|fn IHfn args|op p x IHx
                   |op l IHl r IHr|c IHc a IHa b IHb|op l IHl r IHr|es|x init];
      intros Hsc; try discriminate Hsc.
    - cbn [scalar_core] in Hsc. apply andb_prop in Hsc. destruct Hsc as [Hsc Hrange].
      apply andb_prop in Hsc. destruct Hsc as [Hid Hk]. apply negb_true_iff in Hk, Hrange.
      rewrite carg_id, Hid. unfold ident_arg. rewrite Hk, Hrange. eexists _, _; split; reflexivity.
    - eexists _, _; split; reflexivity.
    - cbn [scalar_core] in Hsc. cbn [carg]. destruct (goquote t); [|discriminate Hsc]. eexists _, _; split; reflexivity.
    - eexists _, _; split; reflexivity.
    - assert (Hscx : scalar_core funcs x = true) by (destruct op; try discriminate Hsc; exact Hsc).
      destruct (IHx Hscx) as (t0 & a0 & Hx & _).
      destruct op; try discriminate Hsc; [rewrite carg_not|rewrite carg_neg]; rewrite Hx; eexists _, _; split; reflexivity.
    - cbn [scalar_core] in Hsc. apply andb_prop in Hsc. destruct Hsc as [Hsc Hscr].
      apply andb_prop in Hsc. destruct Hsc as [Hop Hscl].
      destruct (IHl Hscl) as (tl & al & Hl & _). destruct (IHr Hscr) as (tr & ar & Hr & _).
      rewrite carg_bin. cbv zeta. rewrite (helper_name op Hop), (helper_runtime op Hop), Hl, Hr.
      eexists _, _; split; reflexivity.
    - cbn [scalar_core] in Hsc. apply andb_prop in Hsc. destruct Hsc as [Hsc Hscb].
      apply andb_prop in Hsc. destruct Hsc as [Hscc Hsca].
      destruct (IHc Hscc) as (tc & ac & Hc & _). destruct (IHa Hsca) as (ta & aa & Ha & _).
      destruct (IHb Hscb) as (tb & ab & Hb & _).
      rewrite carg_cond, Hc, Ha, Hb. eexists _, _; split; reflexivity.
  Qed.

  Lemma cwrap_not p x t0 a0 :
    carg funcs true x = Some (t0, Some a0) ->
    cwrap funcs false (JUn UNot p x) =
    Some [TAct (B "{{" ++ B "__op__not" ++ sp ++ t0 ++ esc_suffix false ++ B "}}") false false
               (AcPipe ([], [[AIdent (B "__op__not"); a0]; html_cmd]))].
  Proof. intros H. cbn [cwrap]. rewrite H. reflexivity. Qed.
  Lemma cwrap_neg p x t0 a0 :
    carg funcs true x = Some (t0, Some a0) ->
    cwrap funcs false (JUn UNeg p x) =
    Some [TAct (B "{{" ++ B "__op__sub" ++ sp ++ t0 ++ esc_suffix false ++ B "}}") false false
               (AcPipe ([], [[AIdent (B "__op__sub"); a0]; html_cmd]))].
  Proof. intros H. cbn [cwrap]. rewrite H. reflexivity. Qed.
End CargSome.

Section Text.
  Variables (funcs : list bytes) (defs : list (bytes * list tnode)).

  Lemma cmds_cons E h f c r final :
    eval_cmds (S f) E h (c :: r) final = (do x <- eval_cmd f E h c final; let '(v, h1) := x in eval_cmds f E h1 r v).
  Proof. reflexivity. Qed.

  Lemma html_after E h f v t :
    valid v = true -> txt h v = Ok t ->
    eval_cmds (S (S (S (S f)))) E h [html_cmd] v = Ok (VStr (escape t), h).
  Proof.
    intros Hv Ht. rewrite cmds_one. unfold html_cmd. rewrite cmd_ident, call_step.
    change (beqb (B "__pug__html") (B "null")) with false. change (beqb (B "__pug__html") (B "__freeze")) with false.
    change (lookup (B "__pug__html") builtin_sigs) with (Some ([] : list pty, Some PIface)). cbv iota.
    cbn [eval_args length Nat.add Nat.leb nth_error]. rewrite Hv. cbn [negb coerce_val bind].
    rewrite apply_html_1. unfold rt_html.
    assert (Hr : match v with VInvalid => Ok (VStr (escape (B "<nil>"))) | _ => do t0 <- txt h v; Ok (VStr (escape t0)) end
                 = Ok (VStr (escape t))).
    { destruct v; try discriminate Hv; rewrite Ht; reflexivity. }
    rewrite Hr. cbn [bind]. apply cmds_nil.
  Qed.

  Lemma set_heap_same st : set_heap st (x_heap st) = st.
  Proof. destruct st; reflexivity. Qed.

  Lemma action_eq fuel dot st first :
    exec_node defs (S fuel) dot st (NAction ([], [first; html_cmd])) =
    (do x <- eval_pipeline (env_of st dot) (x_heap st) ([], [first; html_cmd]);
     let '(v, h1) := x in do t <- print_text h1 v; Ok (emit (set_heap st h1) t)).
  Proof.
    cbn [exec_node]. destruct first as [|a [|b [|c r]]]; try reflexivity; destruct a; try reflexivity; destruct b; reflexivity.
  Qed.

  (* an action whose first command yields a value representing a printable scalar, followed by the escaper *)
  Lemma html_print fuel dot st first v j s t s2 :
    eval_cmd (pred expr_fuel) (env_of st dot) (x_heap st) first VInvalid = Ok (v, x_heap st) ->
    repu v j -> printable j = true -> jv_ok j -> print_string s j = SOk (t, s2) ->
    exec_node defs (S fuel) dot st (NAction ([], [first; html_cmd])) = Ok (emit st (escape t)).
  Proof.
    intros He R Hp Ho Hs. destruct (txt_js (x_heap st) v j s t s2 R Hp Ho Hs) as [Ht Hv].
    rewrite action_eq. unfold eval_pipeline. cbn [snd].
    change expr_fuel with (S (pred expr_fuel)). rewrite cmds_cons, He. cbn [bind].
    change (pred expr_fuel) with (S (S (S (S (pred (pred (pred (pred (pred expr_fuel))))))))).
    rewrite (html_after _ _ _ v t Hv Ht). cbn [bind].
    unfold print_text, to_text, depth_fuel. cbn [text_of of_opt bind]. rewrite set_heap_same. reflexivity.
  Qed.

  Section One.
    Variables (fuel : nat) (dot : val) (st : xstate).
    Let E := env_of st dot.
    Let h := x_heap st.

    (* the action wrap_value emits for a non-literal expression *)
    Theorem text_action e fs s j s' t s2 :
      scalar_core funcs e = true -> (need e < expr_fuel)%nat ->
      env_repu_on (fv e) (e_vars E) (s_env s) -> env_range_on (fv e) (s_env s) ->
      sem_expr fs s e = SOk (j, s') -> s_flags s' = s_flags s -> dead_quiet fs s e = true ->
      printable j = true -> print_string s' j = SOk (t, s2) ->
      exists tx a,
        carg funcs true e = Some (tx, Some a) /\
        wrap_value false tx a = [TAct (B "{{" ++ tx ++ B " | __pug__html" ++ B "}}") false false
                                      (AcPipe ([], [[a]; [AIdent (B "__pug__html")]]))] /\
        exec_node defs (S fuel) dot st (NAction ([], [[a]; [AIdent (B "__pug__html")]])) = Ok (emit st (escape t)).
    Proof.
      intros Hsc Hn Hrep Hrng Hs Hf Hd Hp Hpr.
      destruct (compile_eval_pipeline funcs E h e fs s j s' Hsc Hn Hrep Hrng Hs Hf Hd)
        as (tx & a & v & Hc & Hcmd & _ & R & O & _).
      exists tx, a. repeat split; [exact Hc|].
      exact (html_print fuel dot st [a] v j s' t s2 Hcmd R Hp O Hpr).
    Qed.

    (* whatever cwrap emits for the expression (static text for a literal, `{{op x | __pug__html}}` for a
       unary operator, wrap_value otherwise) prints escape (print_string j) *)
    Theorem text_cwrap e fs s j s' t s2 toks :
      scalar_core funcs e = true -> (need e < expr_fuel)%nat ->
      env_repu_on (fv e) (e_vars E) (s_env s) -> env_range_on (fv e) (s_env s) ->
      sem_expr fs s e = SOk (j, s') -> s_flags s' = s_flags s -> dead_quiet fs s e = true ->
      printable j = true -> print_string s' j = SOk (t, s2) ->
      str_single e = true ->
      cwrap funcs false e = Some toks ->
      exists tk n, toks = [tk] /\ node_of_tok tk = Some n /\
                   exec_node defs (S fuel) dot st n = Ok (emit st (escape t)).
    Proof.
      intros Hsc Hn Hrep Hrng Hs Hf Hd Hp Hpr Hsingle Hw.
      assert (Hgen : (forall tx a, carg funcs true e = Some (tx, Some a) ->
                                   cwrap funcs false e = Some (wrap_value false tx a)) ->
                     exists tk n, toks = [tk] /\ node_of_tok tk = Some n /\
                                  exec_node defs (S fuel) dot st n = Ok (emit st (escape t))).
      { intros Hw'.
        destruct (compile_eval_pipeline funcs E h e fs s j s' Hsc Hn Hrep Hrng Hs Hf Hd)
          as (tx & a & v & Hc & Hcmd & _ & R & O & _).
        rewrite (Hw' tx a Hc) in Hw. injection Hw as <-.
        eexists. exists (NAction ([], [[a]; html_cmd])). repeat split.
        exact (html_print fuel dot st [a] v j s' t s2 Hcmd R Hp O Hpr). }
      destruct e; try discriminate Hsc; try (apply Hgen; intros tx a Hc; cbn [cwrap]; rewrite Hc; reflexivity).
      - (* number literal *)
        destruct fs as [|f]; [discriminate Hs|]. rewrite sem_num in Hs. unfold num in Hs.
        destruct (in_range z); [|discriminate Hs]. injection Hs as <- <-.
        unfold print_string, tostr in Hpr. cbn in Hpr. injection Hpr as <- _.
        cbn [cwrap] in Hw. injection Hw as <-.
        exists (TText (show_Z z)), (NText (show_Z z)). repeat split. rewrite show_Z_escape. reflexivity.
      - (* string literal *)
        destruct fs as [|f]; [discriminate Hs|]. rewrite sem_str in Hs. injection Hs as <- <-.
        unfold print_string, tostr in Hpr. cbn in Hpr. injection Hpr as <- _.
        cbn [cwrap] in Hw. rewrite ctext_total in Hw. cbn [str_single] in Hsingle.
        pose proof (toks_value_text (escape s0)) as Hv.
        destruct (text_toks (quote_text (escape s0))) as [|[y|] [|]]; try discriminate Hsingle; injection Hw as <-.
        + cbn in Hv. injection Hv as Hv. rewrite <- Hv. exists (TText []), (NText []). repeat split.
        + cbn in Hv. rewrite app_nil_r in Hv. injection Hv as ->. exists (TText (escape s0)), (NText (escape s0)). repeat split.
      - (* boolean literal *)
        destruct fs as [|f]; [discriminate Hs|]. rewrite sem_bool in Hs. injection Hs as <- <-.
        unfold print_string, tostr in Hpr. cbn in Hpr. injection Hpr as <- _.
        cbn [cwrap] in Hw. injection Hw as <-.
        exists (TText (if b then B "true" else B "false")), (NText (if b then B "true" else B "false")).
        repeat split. destruct b; reflexivity.
      - (* unary operator: the call is the action's first command *)
        assert (Hn' : (need (JUn op postfix e) <= S expr_fuel)%nat) by lia.
        destruct (compile_eval_fuel funcs E h _ (S expr_fuel) fs s j s' Hsc Hn' Hrep Hrng Hs Hf Hd)
          as (tx & a & v & Hc & Hop & _ & R & O & _).
        assert (Hscx : scalar_core funcs e = true) by (destruct op; try discriminate Hsc; exact Hsc).
        destruct (carg_some funcs e Hscx) as (t0 & a0 & Hce & _).
        assert (Hex : exists n, a = call n [a0] /\
                        toks = [TAct (B "{{" ++ n ++ sp ++ t0 ++ esc_suffix false ++ B "}}") false false
                                     (AcPipe ([], [[AIdent n; a0]; html_cmd]))]).
        { destruct op; try discriminate Hsc.
          - rewrite carg_not, Hce in Hc. injection Hc as _ <-. exists (B "__op__not"). split; [reflexivity|].
            rewrite (cwrap_not funcs postfix e t0 a0 Hce) in Hw. injection Hw as <-. reflexivity.
          - rewrite carg_neg, Hce in Hc. injection Hc as _ <-. exists (B "__op__sub"). split; [reflexivity|].
            rewrite (cwrap_neg funcs postfix e t0 a0 Hce) in Hw. injection Hw as <-. reflexivity. }
        destruct Hex as (n & -> & ->).
        eexists. exists (NAction ([], [[AIdent n; a0]; html_cmd])). repeat split.
        apply (html_print fuel dot st [AIdent n; a0] v j s' t s2); try assumption.
        unfold call in Hop. rewrite operand_pipe in Hop. change expr_fuel with (S (pred expr_fuel)) in Hop.
        rewrite cmds_one in Hop.
        fold E h. destruct (eval_cmd (pred expr_fuel) E h [AIdent n; a0] VInvalid) as [[v1 h1]| | |] eqn:Hev;
          try discriminate Hop.
        cbn [bind] in Hop. change (pred expr_fuel) with (S (pred (pred expr_fuel))) in Hop.
        rewrite cmds_nil in Hop. exact Hop.
    Qed.
  End One.
End Text.

(* ---- the hypothesis [str_single] of text_cwrap ------------------------------------------------------------ *)
(* it holds for every literal whose escaped text has no brace ... *)
Definition no_brace (c : ascii) : bool := negb (Ascii.eqb c "{") && negb (Ascii.eqb c "}").
Lemma tokz_no_brace x : forallb no_brace x = true -> tokz x = map QC x.
Proof.
  revert x. apply (list_ind2 (fun x => forallb no_brace x = true -> tokz x = map QC x)).
  - reflexivity.
  - reflexivity.
  - intros a b r IH1 IH2 H. cbn [forallb] in H. apply andb_true_iff in H. destruct H as [Ha Hr].
    rewrite tokz_cons2. unfold no_brace in Ha. apply andb_true_iff in Ha. destruct Ha as [A1 A2].
    apply negb_true_iff in A1, A2. rewrite A1, A2. cbn [andb map]. rewrite (IH2 Hr). reflexivity.
Qed.
Lemma ttoks_no_brace x : forall acc, forallb no_brace x = true -> ttoks acc (map QC x) = flush (rev x ++ acc).
Proof.
  induction x as [|c x IH]; intros acc H; [reflexivity|].
  cbn [forallb] in H. apply andb_true_iff in H. destruct H as [Hc Hx].
  unfold no_brace in Hc. apply andb_true_iff in Hc. destruct Hc as [A1 _]. apply negb_true_iff in A1.
  cbn [map ttoks]. rewrite A1. cbn [andb]. rewrite (IH _ Hx). cbn [rev]. rewrite <- app_assoc. reflexivity.
Qed.
Lemma str_single_no_brace s : forallb no_brace (escape s) = true -> str_single (JStr s) = true.
Proof.
  intros H. cbn [str_single].
  assert (E : text_toks (quote_text (escape s)) = ttoks [] (tokz (escape s))).
  { unfold text_toks. rewrite quote_text_rend. apply tt_rend; [apply nf_tokz|lia]. }
  rewrite E, (tokz_no_brace _ H), (ttoks_no_brace _ [] H). destruct (rev (escape s) ++ []); reflexivity.
Qed.
(* ... and it is forced: a literal with a delimiter in it is written as several tokens (text and the quoting
   actions of the Text arm), which together print the escaped literal (Props/C06.v C06_code_literal) *)
Example text_cwrap_quoted_literal :
  scalar_core [] (JStr (B "a}}")) = true /\ str_single (JStr (B "a}}")) = false /\
  cwrap [] false (JStr (B "a}}")) = Some [TText (B "a"); lit_close].
Proof. repeat split; vm_compute; reflexivity. Qed.

(* ---- non-vacuity: a depth-5 expression over a number, a string and a boolean ------------------------------ *)
Definition ex_funcs : list bytes := [B "Math"; B "JSON"; B "Object"; B "stripTags"; B "parseInt"].
Definition ex_vars : vars := [(B "n", VNum 7); (B "t", VStr (B "k1")); (B "p", VBool true)].
Definition ex_env : list (bytes * jv) := [(B "n", JN 7); (B "t", JS (B "k1")); (B "p", JB true)].
Definition ex_E : env := {| e_vars := ex_vars; e_dot := VInvalid |}.
Definition ex_s : sstate := {| s_env := ex_env; s_heap := []; s_out := []; s_flags := []; s_grown := [] |}.
(* ((n + 2) * 3 > 10 && p) ? t + (n - 1) : -(n % 4) *)
Definition ex_e : jexpr :=
  JCond (JBin BAnd (JBin BGt (JBin BMul (JBin BAdd (JId (B "n")) (JNum 2)) (JNum 3)) (JNum 10)) (JId (B "p")))
        (JBin BAdd (JId (B "t")) (JBin BSub (JId (B "n")) (JNum 1)))
        (JUn UNeg false (JBin BMod (JId (B "n")) (JNum 4))).

Example ex_both_sides :
  depth ex_e = 5%nat /\
  sem_expr efuel ex_s ex_e = SOk (JS (B "k16"), ex_s) /\
  match carg ex_funcs true ex_e with
  | Some (t, Some a) =>
    t = B "(__if ((__op__and (__op__gt (__op__mul (__op__add $n 2) 3) 10) $p)) ((__op__add $t (__op__sub $n 1))) ((__op__sub (__op__mod $n 4))) )" /\
    eval_cmds expr_fuel ex_E [] [[a]] VInvalid = Ok (VStr (B "k16"), [])
  | _ => False
  end.
Proof. vm_compute. repeat split; reflexivity. Qed.

Lemma ex_env_rep : env_rep_on (fv ex_e) (e_vars ex_E) (s_env ex_s).
Proof. intros x Hx. cbn in Hx. repeat (destruct Hx as [<-|Hx]; [vm_compute; constructor|]). destruct Hx. Qed.
Lemma ex_env_range : env_range_on (fv ex_e) (s_env ex_s).
Proof. intros x Hx. cbn in Hx. repeat (destruct Hx as [<-|Hx]; [vm_compute; try reflexivity; exact I|]). destruct Hx. Qed.

(* every hypothesis of [compile_eval] holds for it, so the theorem applies (and gives what both sides compute) *)
Example ex_hypotheses :
  scalar_core ex_funcs ex_e = true /\ (depth ex_e <= 56)%nat /\
  dead_quiet efuel ex_s ex_e = true /\ quietb efuel ex_s ex_e = true /\ s_flags ex_s = s_flags ex_s.
Proof. vm_compute. repeat split; try reflexivity. lia. Qed.

Example ex_theorem_applies :
  exists t a v,
    carg ex_funcs true ex_e = Some (t, Some a) /\
    eval_cmd (pred expr_fuel) ex_E [] [a] VInvalid = Ok (v, []) /\
    eval_cmds expr_fuel ex_E [] [[a]] VInvalid = Ok (v, []) /\ repu v (JS (B "k16")).
Proof.
  destruct ex_hypotheses as (Hsc & Hd & Hdq & _ & Hf).
  destruct (compile_eval ex_funcs ex_E [] ex_e efuel ex_s (JS (B "k16")) ex_s Hsc Hd (env_rep_repu_on _ _ _ ex_env_rep) ex_env_range
              (proj1 (proj2 ex_both_sides)) Hf Hdq) as (t & a & v & H1 & H2 & H3 & H4 & _).
  exists t, a, v. repeat split; assumption.
Qed.

(* ---- why each extra hypothesis is there: witnesses ---------------------------------------------------------- *)
Definition st0 (env : list (bytes * jv)) : sstate :=
  {| s_env := env; s_heap := []; s_out := []; s_flags := []; s_grown := [] |}.
Definition en0 (vs : vars) : env := {| e_vars := vs; e_dot := VInvalid |}.
Definition model_value (funcs : list bytes) (E : env) (e : jexpr) : option (res (val * heap)) :=
  match carg funcs true e with
  | Some (_, Some a) => Some (eval_cmds expr_fuel E [] [[a]] VInvalid)
  | _ => None
  end.

(* after the repair F-C01-g: `5 % n` with n = 3 is 2 on both sides (before it, the engine printed <nil>) *)
Lemma rem_int_float_repaired :
  let e := JBin BMod (JNum 5) (JId (B "n")) in
  let E := en0 [(B "n", VNum 3)] in
  let s := st0 [(B "n", JN 3)] in
  sem_expr efuel s e = SOk (JN 2, s) /\ model_value ex_funcs E e = Some (Ok (VNum 2, [])).
Proof. vm_compute. repeat split; reflexivity. Qed.

(* [dead_quiet]: `false && (1 + "x1")` — S answers false with no flag (the flag of the operand it evaluates for
   the domain check is dropped); the engine evaluates the operand eagerly and number + string is the listed
   deviation F-C01-a, which the model declines for this string *)
Lemma dead_operand_refuted :
  let e := JBin BAnd (JBool false) (JBin BAdd (JNum 1) (JStr (B "x1"))) in
  let E := en0 [] in
  let s := st0 [] in
  scalar_core ex_funcs e = true /\ dead_quiet efuel s e = false /\
  sem_expr efuel s e = SOk (JB false, s) /\ model_value ex_funcs E e = Some Unmod.
Proof. vm_compute. repeat split; reflexivity. Qed.

(* [repu] instead of [rep]: `true ? u : 1` with u undefined — __if converts its result, undefined becomes Nil *)
Lemma cond_undefined_refuted :
  let e := JCond (JBool true) (JId (B "u")) (JNum 1) in
  let E := en0 [] in
  let s := st0 [] in
  scalar_core ex_funcs e = true /\ dead_quiet efuel s e = true /\
  sem_expr efuel s e = SOk (JUndef, s) /\ model_value ex_funcs E e = Some (Ok (VNil, [])) /\ ~ rep VNil JUndef.
Proof. vm_compute. repeat split; try reflexivity. intros H; inversion H. Qed.

(* [env_range_on]: S checks the range of literals and results, not of the data: "a" + n with n = 10^10 *)
Lemma data_range_refuted :
  let e := JBin BAdd (JStr (B "a")) (JId (B "n")) in
  let E := en0 [(B "n", VNum 10000000000)] in
  let s := st0 [(B "n", JN 10000000000)] in
  scalar_core ex_funcs e = true /\ dead_quiet efuel s e = true /\
  sem_expr efuel s e = SOk (JS (B "a10000000000"), s) /\ model_value ex_funcs E e = Some Unmod.
Proof. vm_compute. repeat split; reflexivity. Qed.

(* the fuel bound is tight: a chain of 56 nested ?: evaluates at expr_fuel, 57 exhaust the model's fuel
   (a limit of the model, not of the Go code) *)
Fixpoint cond_chain (n : nat) : jexpr :=
  match n with O => JNum 0 | S k => JCond (JBool true) (cond_chain k) (JNum 0) end.
Lemma cond_chain_57_fuel :
  depth (cond_chain 56) = 56%nat /\ model_value ex_funcs (en0 []) (cond_chain 56) = Some (Ok (VNum 0, [])) /\
  depth (cond_chain 57) = 57%nat /\ scalar_core ex_funcs (cond_chain 57) = true /\
  sem_expr efuel (st0 []) (cond_chain 57) = SOk (JN 0, st0 []) /\
  model_value ex_funcs (en0 []) (cond_chain 57) = Some OutOfFuel.
Proof. vm_compute. repeat split; reflexivity. Qed.

(* ---- a syntactic condition for the dead operands ------------------------------------------------------------ *)
(* the only flag S can raise on the fragment over scalar variables is number + string; an operand that
   contains no + raises none.  [dead_safe]: every operand that can be dead (the right operand of && and ||,
   both branches of ?:) contains no +. *)
Fixpoint no_add (e : jexpr) : bool :=
  match e with
  | JBin op l r => negb (match op with BAdd => true | _ => false end) && no_add l && no_add r
  | JUn _ _ x => no_add x
  | JCond c a b => no_add c && no_add a && no_add b
  | _ => true
  end.
Fixpoint dead_safe (e : jexpr) : bool :=
  match e with
  | JBin BAnd l r | JBin BOr l r => dead_safe l && no_add r
  | JBin _ l r => dead_safe l && dead_safe r
  | JUn _ _ x => dead_safe x
  | JCond c a b => dead_safe c && no_add a && no_add b
  | _ => true
  end.
Lemma dead_safe_bin op l r :
  plain_binop op = true -> dead_safe (JBin op l r) = dead_safe l && dead_safe r.
Proof. destruct op; try discriminate; reflexivity. Qed.

(* the variables hold no array / object (S's ToBoolean flags an empty one) *)
Definition env_scalar_on (xs : list bytes) (env : list (bytes * jv)) : Prop :=
  forall x, In x xs -> is_ref (env_get env x) = false.
Lemma env_repu_scalar_on xs vs env : env_repu_on xs vs env -> env_scalar_on xs env.
Proof. intros H x Hx. exact (repu_not_ref _ _ (H x Hx)). Qed.
Lemma env_scalar_on_app_l xs ys env : env_scalar_on (xs ++ ys) env -> env_scalar_on xs env.
Proof. intros H x Hx. apply H, in_or_app. left; exact Hx. Qed.
Lemma env_scalar_on_app_r xs ys env : env_scalar_on (xs ++ ys) env -> env_scalar_on ys env.
Proof. intros H x Hx. apply H, in_or_app. right; exact Hx. Qed.

Lemma to_boolean_scalar s v : is_ref v = false -> to_boolean s v = (fst (to_boolean s v), s).
Proof. destruct v; try discriminate; reflexivity. Qed.

Lemma sem_binop_noadd s op a b j s' :
  match op with BAdd => true | _ => false end = false ->
  sem_binop s op a b = SOk (j, s') -> s' = s /\ is_ref j = false.
Proof.
  intros Hop.
  assert (Hn : forall z, (sdo v <- num z; SOk (v, s)) = SOk (j, s') -> s' = s /\ is_ref j = false).
  { intros z. unfold num. destruct (in_range z); cbn [sbind]; [|discriminate].
    intros H. injection H as <- <-. split; reflexivity. }
  destruct op; try discriminate Hop; cbn [sem_binop]; try discriminate;
    destruct a, b; cbn [jv_strict_eq]; try discriminate; try apply Hn;
    repeat match goal with |- context [if ?c then _ else _] => destruct c end;
    try discriminate; try apply Hn; intros H; injection H as <- <-; split; reflexivity.
Qed.

Lemma noflag_same fs s e j : sem_expr fs s e = SOk (j, s) -> noflag fs s e = true.
Proof. intros H. unfold noflag. rewrite H. apply Nat.eqb_refl. Qed.

Section Safe.
  Variable funcs : list bytes.

  Lemma noadd_quiet : forall e fs s j s',
    scalar_core funcs e = true -> no_add e = true -> env_scalar_on (fv e) (s_env s) ->
    sem_expr fs s e = SOk (j, s') -> s' = s /\ is_ref j = false /\ quietb fs s e = true.
  Proof.
    induction e as [x|z|txt|t|parts|b| |es|kvs|e0 IH0 name|e0 IH0 i IHi|fn IHfn args|fn IHfn args|op p x IHx
                   |op l IHl r IHr|c IHc a IHa b IHb|op l IHl r IHr|es|x init];
      intros fs s j s' Hsc Hna Hes H; try discriminate Hsc; (destruct fs as [|f]; [discriminate H|]);
      pose proof H as H0; cbn [quietb].
    - rewrite sem_id in H. injection H as <- <-. rewrite (noflag_same _ _ _ _ H0).
      repeat split. apply Hes. left; reflexivity.
    - rewrite sem_num in H. unfold num in H. destruct (in_range z); [|discriminate H]. injection H as <- <-.
      rewrite (noflag_same _ _ _ _ H0). repeat split.
    - rewrite sem_str in H. injection H as <- <-. rewrite (noflag_same _ _ _ _ H0). repeat split.
    - rewrite sem_bool in H. injection H as <- <-. rewrite (noflag_same _ _ _ _ H0). repeat split.
    - (* unary *)
      assert (Hscx : scalar_core funcs x = true) by (destruct op; try discriminate Hsc; exact Hsc).
      cbn [no_add fv] in Hna, Hes.
      destruct op; try discriminate Hsc.
      + rewrite sem_not in H. destruct (sem_expr f s x) as [[v s1]| | |] eqn:Hx; try discriminate H.
        cbn [sbind] in H. destruct (IHx _ _ _ _ Hscx Hna Hes Hx) as (-> & Hv & Hqx).
        rewrite (to_boolean_scalar s v Hv) in H. injection H as <- <-.
        rewrite (noflag_same _ _ _ _ H0), Hqx. repeat split.
      + rewrite sem_neg in H. destruct (sem_expr f s x) as [[v s1]| | |] eqn:Hx; try discriminate H.
        cbn [sbind] in H. destruct (IHx _ _ _ _ Hscx Hna Hes Hx) as (-> & Hv & Hqx).
        destruct v; try discriminate H. unfold num in H. destruct (in_range (- z)); [|discriminate H].
        injection H as <- <-. rewrite (noflag_same _ _ _ _ H0), Hqx. repeat split.
    - (* binary *)
      cbn [scalar_core] in Hsc. apply andb_prop in Hsc. destruct Hsc as [Hsc Hscr].
      apply andb_prop in Hsc. destruct Hsc as [Hop Hscl].
      cbn [no_add] in Hna. apply andb_prop in Hna. destruct Hna as [Hna Hnar].
      apply andb_prop in Hna. destruct Hna as [Hadd Hnal]. apply negb_true_iff in Hadd.
      cbn [fv] in Hes. pose proof (env_scalar_on_app_l _ _ _ Hes) as Hesl. pose proof (env_scalar_on_app_r _ _ _ Hes) as Hesr.
      destruct (plain_binop op) eqn:Hp.
      + rewrite (sem_bin f s op l r Hp) in H.
        destruct (sem_expr f s l) as [[x s1]| | |] eqn:Hl; try discriminate H. cbn [sbind] in H.
        destruct (IHl _ _ _ _ Hscl Hnal Hesl Hl) as (-> & Hx & Hql).
        destruct (sem_expr f s r) as [[y s2]| | |] eqn:Hr; try discriminate H. cbn [sbind] in H.
        destruct (IHr _ _ _ _ Hscr Hnar Hesr Hr) as (-> & Hy & Hqr).
        destruct (sem_binop_noadd _ _ _ _ _ _ Hadd H) as (-> & Hj).
        rewrite (noflag_same _ _ _ _ H0), Hql, Hqr. repeat split. exact Hj.
      + destruct op; try discriminate Hp; try discriminate Hop.
        * rewrite sem_and in H.
          destruct (sem_expr f s l) as [[x s1]| | |] eqn:Hl; try discriminate H. cbn [sbind] in H.
          destruct (IHl _ _ _ _ Hscl Hnal Hesl Hl) as (-> & Hx & Hql).
          rewrite (to_boolean_scalar s x Hx) in H.
          destruct (fst (to_boolean s x)).
          -- destruct (IHr _ _ _ _ Hscr Hnar Hesr H) as (-> & Hy & Hqr).
             rewrite (noflag_same _ _ _ _ H0), Hql, Hqr. repeat split. exact Hy.
          -- destruct (sem_expr f s r) as [[y s2]| | |] eqn:Hr; try discriminate H. cbn [sbind] in H.
             destruct (IHr _ _ _ _ Hscr Hnar Hesr Hr) as (_ & Hy & Hqr). injection H as <- <-.
             rewrite (noflag_same _ _ _ _ H0), Hql, Hqr. repeat split. exact Hx.
        * rewrite sem_or in H.
          destruct (sem_expr f s l) as [[x s1]| | |] eqn:Hl; try discriminate H. cbn [sbind] in H.
          destruct (IHl _ _ _ _ Hscl Hnal Hesl Hl) as (-> & Hx & Hql).
          rewrite (to_boolean_scalar s x Hx) in H.
          destruct (fst (to_boolean s x)).
          -- destruct (sem_expr f s r) as [[y s2]| | |] eqn:Hr; try discriminate H. cbn [sbind] in H.
             destruct (IHr _ _ _ _ Hscr Hnar Hesr Hr) as (_ & Hy & Hqr). injection H as <- <-.
             rewrite (noflag_same _ _ _ _ H0), Hql, Hqr. repeat split. exact Hx.
          -- destruct (IHr _ _ _ _ Hscr Hnar Hesr H) as (-> & Hy & Hqr).
             rewrite (noflag_same _ _ _ _ H0), Hql, Hqr. repeat split. exact Hy.
    - (* ?: *)
      cbn [scalar_core] in Hsc. apply andb_prop in Hsc. destruct Hsc as [Hsc Hscb].
      apply andb_prop in Hsc. destruct Hsc as [Hscc Hsca].
      cbn [no_add] in Hna. apply andb_prop in Hna. destruct Hna as [Hna Hnab].
      apply andb_prop in Hna. destruct Hna as [Hnac Hnaa].
      cbn [fv] in Hes. pose proof (env_scalar_on_app_l _ _ _ Hes) as Hesc.
      pose proof (env_scalar_on_app_l _ _ _ (env_scalar_on_app_r _ _ _ Hes)) as Hesa.
      pose proof (env_scalar_on_app_r _ _ _ (env_scalar_on_app_r _ _ _ Hes)) as Hesb.
      rewrite sem_cond in H.
      destruct (sem_expr f s c) as [[x s1]| | |] eqn:Hc; try discriminate H. cbn [sbind] in H.
      destruct (IHc _ _ _ _ Hscc Hnac Hesc Hc) as (-> & Hx & Hqc).
      rewrite (to_boolean_scalar s x Hx) in H.
      destruct (fst (to_boolean s x)).
      + destruct (sem_expr f s b) as [[y s2]| | |] eqn:Hb; try discriminate H. cbn [sbind] in H.
        destruct (IHb _ _ _ _ Hscb Hnab Hesb Hb) as (_ & _ & Hqb).
        destruct (IHa _ _ _ _ Hsca Hnaa Hesa H) as (-> & Hy & Hqa).
        rewrite (noflag_same _ _ _ _ H0), Hqc, Hqa, Hqb. repeat split. exact Hy.
      + destruct (sem_expr f s a) as [[y s2]| | |] eqn:Ha; try discriminate H. cbn [sbind] in H.
        destruct (IHa _ _ _ _ Hsca Hnaa Hesa Ha) as (_ & _ & Hqa).
        destruct (IHb _ _ _ _ Hscb Hnab Hesb H) as (-> & Hy & Hqb).
        rewrite (noflag_same _ _ _ _ H0), Hqc, Hqa, Hqb. repeat split. exact Hy.
  Qed.

  Ltac nil_flags Hf :=
    rewrite ?addfl_addfl in Hf; apply app_eq_self in Hf;
    repeat match goal with H : _ ++ _ = [] |- _ => apply app_eq_nil in H; destruct H end; subst.

  (* [live_quiet] with the syntactic condition: S's own answer without a new flag, and dead operands without + *)
  Lemma live_quiet_safe : forall e fs s j s',
    scalar_core funcs e = true -> env_scalar_on (fv e) (s_env s) ->
    sem_expr fs s e = SOk (j, s') -> s_flags s' = s_flags s ->
    dead_safe e = true -> quietb fs s e = true.
  Proof.
    induction e as [x|z|txt|t|parts|b| |es|kvs|e0 IH0 name|e0 IH0 i IHi|fn IHfn args|fn IHfn args|op p x IHx
                   |op l IHl r IHr|c IHc a IHa b IHb|op l IHl r IHr|es|x init];
      intros fs s j s' Hsc Hes H Hf Hd; try discriminate Hsc; (destruct fs as [|f]; [discriminate H|]);
      cbn [quietb]; rewrite (noflag_of _ _ _ _ _ H Hf); cbn [andb]; try reflexivity.
    - (* unary *)
      assert (Hscx : scalar_core funcs x = true) by (destruct op; try discriminate Hsc; exact Hsc).
      cbn [dead_safe fv] in Hd, Hes.
      destruct op; try discriminate Hsc.
      + rewrite sem_not in H. destruct (sem_expr f s x) as [[v s1]| | |] eqn:Hx; try discriminate H.
        cbn [sbind] in H. destruct (sem_pres funcs _ _ _ _ _ Hscx Hx) as [fl1 ->].
        destruct (to_boolean_pres (addfl fl1 s) v) as [fl2 Hb].
        destruct (to_boolean (addfl fl1 s) v) as [bb s2]. cbn [snd] in Hb. subst s2.
        injection H as _ <-. cbn [s_flags addfl] in Hf. rewrite app_assoc in Hf. nil_flags Hf.
        rewrite addfl_nil in Hx. exact (IHx _ _ _ _ Hscx Hes Hx eq_refl Hd).
      + rewrite sem_neg in H. destruct (sem_expr f s x) as [[v s1]| | |] eqn:Hx; try discriminate H.
        cbn [sbind] in H. destruct (sem_pres funcs _ _ _ _ _ Hscx Hx) as [fl1 ->].
        destruct v; try discriminate H. unfold num in H. destruct (in_range (- z)); [|discriminate H].
        injection H as _ <-. cbn [s_flags addfl] in Hf. nil_flags Hf.
        rewrite addfl_nil in Hx. exact (IHx _ _ _ _ Hscx Hes Hx eq_refl Hd).
    - (* binary *)
      cbn [scalar_core] in Hsc. apply andb_prop in Hsc. destruct Hsc as [Hsc Hscr].
      apply andb_prop in Hsc. destruct Hsc as [Hop Hscl].
      cbn [fv] in Hes. pose proof (env_scalar_on_app_l _ _ _ Hes) as Hesl. pose proof (env_scalar_on_app_r _ _ _ Hes) as Hesr.
      destruct (plain_binop op) eqn:Hp.
      + rewrite (dead_safe_bin op l r Hp) in Hd. apply andb_prop in Hd. destruct Hd as [Hdl Hdr].
        rewrite (sem_bin f s op l r Hp) in H.
        destruct (sem_expr f s l) as [[x s1]| | |] eqn:Hl; try discriminate H. cbn [sbind] in H.
        destruct (sem_pres funcs _ _ _ _ _ Hscl Hl) as [fl1 ->].
        destruct (sem_expr f (addfl fl1 s) r) as [[y s2]| | |] eqn:Hr; try discriminate H. cbn [sbind] in H.
        destruct (sem_pres funcs _ _ _ _ _ Hscr Hr) as [fl2 ->].
        destruct (sem_binop_pres _ _ _ _ _ _ H) as [fl3 ->].
        rewrite !addfl_addfl in Hf. cbn [s_flags addfl] in Hf. nil_flags Hf.
        try rewrite !addfl_nil in Hl; try rewrite !addfl_nil in Hr.
        rewrite (IHl _ _ _ _ Hscl Hesl Hl eq_refl Hdl), (IHr _ _ _ _ Hscr Hesr Hr eq_refl Hdr). reflexivity.
      + destruct op; try discriminate Hp; try discriminate Hop.
        * cbn [dead_safe] in Hd. apply andb_prop in Hd. destruct Hd as [Hdl Hnar].
          rewrite sem_and in H.
          destruct (sem_expr f s l) as [[x s1]| | |] eqn:Hl; try discriminate H. cbn [sbind] in H.
          destruct (sem_pres funcs _ _ _ _ _ Hscl Hl) as [fl1 ->].
          destruct (to_boolean_pres (addfl fl1 s) x) as [fl2 Hb].
          destruct (to_boolean (addfl fl1 s) x) as [bb s2]. cbn [snd] in Hb. subst s2.
          destruct bb.
          -- destruct (sem_pres funcs _ _ _ _ _ Hscr H) as [fl3 ->].
             rewrite !addfl_addfl in Hf. cbn [s_flags addfl] in Hf. nil_flags Hf.
             try rewrite !addfl_nil in Hl; try rewrite !addfl_nil in H.
             destruct (noadd_quiet _ _ _ _ _ Hscr Hnar Hesr H) as (_ & _ & Hqr).
             rewrite (IHl _ _ _ _ Hscl Hesl Hl eq_refl Hdl), Hqr. reflexivity.
          -- destruct (sem_expr f (addfl fl2 (addfl fl1 s)) r) as [[y s3]| | |] eqn:Hr; try discriminate H.
             cbn [sbind] in H. injection H as _ <-.
             rewrite !addfl_addfl in Hf. cbn [s_flags addfl] in Hf. nil_flags Hf.
             try rewrite !addfl_nil in Hl; try rewrite !addfl_nil in Hr.
             destruct (noadd_quiet _ _ _ _ _ Hscr Hnar Hesr Hr) as (_ & _ & Hqr).
             rewrite (IHl _ _ _ _ Hscl Hesl Hl eq_refl Hdl), Hqr. reflexivity.
        * cbn [dead_safe] in Hd. apply andb_prop in Hd. destruct Hd as [Hdl Hnar].
          rewrite sem_or in H.
          destruct (sem_expr f s l) as [[x s1]| | |] eqn:Hl; try discriminate H. cbn [sbind] in H.
          destruct (sem_pres funcs _ _ _ _ _ Hscl Hl) as [fl1 ->].
          destruct (to_boolean_pres (addfl fl1 s) x) as [fl2 Hb].
          destruct (to_boolean (addfl fl1 s) x) as [bb s2]. cbn [snd] in Hb. subst s2.
          destruct bb.
          -- destruct (sem_expr f (addfl fl2 (addfl fl1 s)) r) as [[y s3]| | |] eqn:Hr; try discriminate H.
             cbn [sbind] in H. injection H as _ <-.
             rewrite !addfl_addfl in Hf. cbn [s_flags addfl] in Hf. nil_flags Hf.
             try rewrite !addfl_nil in Hl; try rewrite !addfl_nil in Hr.
             destruct (noadd_quiet _ _ _ _ _ Hscr Hnar Hesr Hr) as (_ & _ & Hqr).
             rewrite (IHl _ _ _ _ Hscl Hesl Hl eq_refl Hdl), Hqr. reflexivity.
          -- destruct (sem_pres funcs _ _ _ _ _ Hscr H) as [fl3 ->].
             rewrite !addfl_addfl in Hf. cbn [s_flags addfl] in Hf. nil_flags Hf.
             try rewrite !addfl_nil in Hl; try rewrite !addfl_nil in H.
             destruct (noadd_quiet _ _ _ _ _ Hscr Hnar Hesr H) as (_ & _ & Hqr).
             rewrite (IHl _ _ _ _ Hscl Hesl Hl eq_refl Hdl), Hqr. reflexivity.
    - (* ?: *)
      cbn [scalar_core] in Hsc. apply andb_prop in Hsc. destruct Hsc as [Hsc Hscb].
      apply andb_prop in Hsc. destruct Hsc as [Hscc Hsca].
      cbn [dead_safe] in Hd. apply andb_prop in Hd. destruct Hd as [Hd Hnab].
      apply andb_prop in Hd. destruct Hd as [Hdc Hnaa].
      cbn [fv] in Hes. pose proof (env_scalar_on_app_l _ _ _ Hes) as Hesc.
      pose proof (env_scalar_on_app_l _ _ _ (env_scalar_on_app_r _ _ _ Hes)) as Hesa.
      pose proof (env_scalar_on_app_r _ _ _ (env_scalar_on_app_r _ _ _ Hes)) as Hesb.
      rewrite sem_cond in H.
      destruct (sem_expr f s c) as [[x s1]| | |] eqn:Hc; try discriminate H. cbn [sbind] in H.
      destruct (sem_pres funcs _ _ _ _ _ Hscc Hc) as [fl1 ->].
      destruct (to_boolean_pres (addfl fl1 s) x) as [fl2 Hb].
      destruct (to_boolean (addfl fl1 s) x) as [bb s2]. cbn [snd] in Hb. subst s2.
      destruct bb.
      + destruct (sem_expr f (addfl fl2 (addfl fl1 s)) b) as [[y s3]| | |] eqn:Hbb; try discriminate H. cbn [sbind] in H.
        destruct (sem_pres funcs _ _ _ _ _ Hsca H) as [fl3 ->].
        rewrite !addfl_addfl in Hf. cbn [s_flags addfl] in Hf. nil_flags Hf.
        try rewrite !addfl_nil in Hc; try rewrite !addfl_nil in H; try rewrite !addfl_nil in Hbb.
        destruct (noadd_quiet _ _ _ _ _ Hsca Hnaa Hesa H) as (_ & _ & Hqa).
        destruct (noadd_quiet _ _ _ _ _ Hscb Hnab Hesb Hbb) as (_ & _ & Hqb).
        rewrite (IHc _ _ _ _ Hscc Hesc Hc eq_refl Hdc), Hqa, Hqb. reflexivity.
      + destruct (sem_expr f (addfl fl2 (addfl fl1 s)) a) as [[y s3]| | |] eqn:Haa; try discriminate H. cbn [sbind] in H.
        destruct (sem_pres funcs _ _ _ _ _ Hscb H) as [fl3 ->].
        rewrite !addfl_addfl in Hf. cbn [s_flags addfl] in Hf. nil_flags Hf.
        try rewrite !addfl_nil in Hc; try rewrite !addfl_nil in H; try rewrite !addfl_nil in Haa.
        destruct (noadd_quiet _ _ _ _ _ Hsca Hnaa Hesa Haa) as (_ & _ & Hqa).
        destruct (noadd_quiet _ _ _ _ _ Hscb Hnab Hesb H) as (_ & _ & Hqb).
        rewrite (IHc _ _ _ _ Hscc Hesc Hc eq_refl Hdc), Hqa, Hqb. reflexivity.
  Qed.
End Safe.

(* every sub-expression quiet implies the dead ones quiet *)
Lemma quietb_dead_quiet : forall fs s e, quietb fs s e = true -> dead_quiet fs s e = true.
Proof.
  induction fs as [|f IH]; intros s e H; [reflexivity|].
  cbn [quietb] in H. apply andb_prop in H. destruct H as [_ H].
  destruct e; try reflexivity.
  - cbn [dead_quiet]. apply IH. exact H.
  - apply andb_prop in H. destruct H as [Hl Hr].
    destruct op; cbn [dead_quiet]; rewrite ?(IH _ _ Hl), ?(IH _ _ Hr); try reflexivity;
      cbn [andb]; destruct (sem_expr f s e1) as [[v s1]| | |]; try reflexivity;
      destruct (fst (to_boolean s v)); first [reflexivity | assumption | apply IH; assumption].
  - apply andb_prop in H. destruct H as [H Hb]. apply andb_prop in H. destruct H as [Hc Ha].
    cbn [dead_quiet]. rewrite (IH _ _ Hc). cbn [andb].
    destruct (sem_expr f s e1) as [[v s1]| | |]; try reflexivity.
    destruct (fst (to_boolean s v)); [rewrite (IH _ _ Ha), Hb|rewrite Ha, (IH _ _ Hb)]; reflexivity.
Qed.

(* dead_safe implies dead_quiet — where S answers at all without a new flag (a dead operand that S rejects makes
   dead_quiet false, but then S rejects the whole expression) *)
Lemma dead_safe_dead_quiet funcs e fs s j s' :
  scalar_core funcs e = true -> env_scalar_on (fv e) (s_env s) ->
  sem_expr fs s e = SOk (j, s') -> s_flags s' = s_flags s ->
  dead_safe e = true -> dead_quiet fs s e = true.
Proof. intros Hsc Hes H Hf Hd. apply quietb_dead_quiet. exact (live_quiet_safe funcs e fs s j s' Hsc Hes H Hf Hd). Qed.

(* ---- the main lemmas with the syntactic condition ------------------------------------------------------------ *)
Section MainSafe.
  Variables (funcs : list bytes) (E : env) (h : heap).

  Theorem compile_eval_fuel_safe e F fs s j s' :
    scalar_core funcs e = true -> (need e <= F)%nat ->
    env_repu_on (fv e) (e_vars E) (s_env s) -> env_range_on (fv e) (s_env s) ->
    sem_expr fs s e = SOk (j, s') -> s_flags s' = s_flags s -> dead_safe e = true ->
    exists t a v,
      carg funcs true e = Some (t, Some a) /\
      eval_operand F E h a = Ok (v, h) /\ eval_cmd F E h [a] VInvalid = Ok (v, h) /\
      repu v j /\ jv_ok j /\
      s_env s' = s_env s /\ s_heap s' = s_heap s /\ s_out s' = s_out s /\ s_grown s' = s_grown s.
  Proof.
    intros Hsc Hn Hrep Hrng Hs Hf Hd. apply (compile_eval_fuel funcs E h e F fs s j s'); try assumption.
    exact (dead_safe_dead_quiet funcs e fs s j s' Hsc (env_repu_scalar_on _ _ _ Hrep) Hs Hf Hd).
  Qed.

  Theorem compile_eval_pipeline_safe e fs s j s' :
    scalar_core funcs e = true -> (need e < expr_fuel)%nat ->
    env_repu_on (fv e) (e_vars E) (s_env s) -> env_range_on (fv e) (s_env s) ->
    sem_expr fs s e = SOk (j, s') -> s_flags s' = s_flags s -> dead_safe e = true ->
    exists t a v,
      carg funcs true e = Some (t, Some a) /\
      eval_cmd (pred expr_fuel) E h [a] VInvalid = Ok (v, h) /\
      eval_cmds expr_fuel E h [[a]] VInvalid = Ok (v, h) /\
      repu v j /\ jv_ok j /\
      s_env s' = s_env s /\ s_heap s' = s_heap s /\ s_out s' = s_out s /\ s_grown s' = s_grown s.
  Proof.
    intros Hsc Hn Hrep Hrng Hs Hf Hd. apply (compile_eval_pipeline funcs E h e fs s j s'); try assumption.
    exact (dead_safe_dead_quiet funcs e fs s j s' Hsc (env_repu_scalar_on _ _ _ Hrep) Hs Hf Hd).
  Qed.

  Theorem compile_eval_safe e fs s j s' :
    scalar_core funcs e = true -> (depth e <= 56)%nat ->
    env_repu_on (fv e) (e_vars E) (s_env s) -> env_range_on (fv e) (s_env s) ->
    sem_expr fs s e = SOk (j, s') -> s_flags s' = s_flags s -> dead_safe e = true ->
    exists t a v,
      carg funcs true e = Some (t, Some a) /\
      eval_cmd (pred expr_fuel) E h [a] VInvalid = Ok (v, h) /\
      eval_cmds expr_fuel E h [[a]] VInvalid = Ok (v, h) /\
      repu v j /\ jv_ok j /\
      s_env s' = s_env s /\ s_heap s' = s_heap s /\ s_out s' = s_out s /\ s_grown s' = s_grown s.
  Proof. intros Hsc Hdp. apply compile_eval_pipeline_safe; [exact Hsc|apply depth_fuel_56; exact Hdp]. Qed.
End MainSafe.

(* ---- printing any scalar (null / undefined print nothing), escaped and unescaped -------------------------------- *)
Lemma print_string_scalar s j t s2 : is_ref j = false -> print_string s j = SOk (t, s2) -> s2 = s.
Proof.
  intros Hr. destruct j; try discriminate Hr; unfold print_string, tostr; cbn; intros H; injection H as _ <-; reflexivity.
Qed.
Lemma print_string_pres s j t s2 : print_string s j = SOk (t, s2) -> exists fl, s2 = addfl fl s.
Proof.
  destruct j; unfold print_string, tostr;
    try (intros H; injection H as _ <-; exists []; symmetry; apply addfl_nil);
    destruct (to_string _ _ _); try discriminate; intros H; injection H as _ <-; eexists [_]; reflexivity.
Qed.

Lemma txt_any h v j s t s2 :
  repu v j -> jv_ok j -> print_string s j = SOk (t, s2) ->
  (valid v = true /\ txt h v = Ok t) \/ (v = VInvalid /\ t = []).
Proof.
  intros [R|[-> ->]] Ho Hs.
  - destruct R; unfold print_string, tostr in Hs; cbn in Hs; injection Hs as <- _;
      try (right; split; reflexivity); left; unfold txt, to_text, depth_fuel; cbn;
      rewrite ?(in_range_num_text _ Ho); split; reflexivity.
  - cbn in Hs. injection Hs as <- _. left. split; reflexivity.
Qed.

Section Print.
  Variable defs : list (bytes * list tnode).

  Lemma html_after_any E h f v t :
    (valid v = true /\ txt h v = Ok t) \/ (v = VInvalid /\ t = []) ->
    eval_cmds (S (S (S (S f)))) E h [html_cmd] v = Ok (VStr (escape t), h).
  Proof.
    intros [[Hv Ht]|[-> ->]]; [exact (html_after E h f v t Hv Ht)|].
    rewrite cmds_one. unfold html_cmd. rewrite cmd_ident, call_step.
    change (beqb (B "__pug__html") (B "null")) with false. change (beqb (B "__pug__html") (B "__freeze")) with false.
    change (lookup (B "__pug__html") builtin_sigs) with (Some ([] : list pty, Some PIface)). cbv iota.
    cbn [eval_args length Nat.add Nat.leb nth_error valid negb bind].
    rewrite apply_html_0. apply cmds_nil.
  Qed.

  Lemma html_print_any fuel dot st first v j s t s2 :
    eval_cmd (pred expr_fuel) (env_of st dot) (x_heap st) first VInvalid = Ok (v, x_heap st) ->
    repu v j -> jv_ok j -> print_string s j = SOk (t, s2) ->
    exec_node defs (S fuel) dot st (NAction ([], [first; html_cmd])) = Ok (emit st (escape t)).
  Proof.
    intros He R Ho Hs. pose proof (txt_any (x_heap st) v j s t s2 R Ho Hs) as Ht.
    rewrite action_eq. unfold eval_pipeline. cbn [snd].
    change expr_fuel with (S (pred expr_fuel)). rewrite cmds_cons, He. cbn [bind].
    change (pred expr_fuel) with (S (S (S (S (pred (pred (pred (pred (pred expr_fuel))))))))).
    rewrite (html_after_any _ _ _ v t Ht). cbn [bind].
    unfold print_text, to_text, depth_fuel. cbn [text_of of_opt bind]. rewrite set_heap_same. reflexivity.
  Qed.

  Lemma raw_action_eq fuel dot st a :
    arg_shape a = true ->
    exec_node defs (S fuel) dot st (NAction ([], [[a]])) =
    (do x <- eval_pipeline (env_of st dot) (x_heap st) ([], [[a]]);
     let '(v, h1) := x in do t <- print_text h1 v; Ok (emit (set_heap st h1) t)).
  Proof. intros Ha. destruct a; try discriminate Ha; reflexivity. Qed.

  (* `!= e`: the value is printed by printValue; an undefined variable (invalid value) is the listed deviation F-C11-c *)
  Lemma raw_print fuel dot st a v j s t s2 :
    arg_shape a = true ->
    eval_cmds expr_fuel (env_of st dot) (x_heap st) [[a]] VInvalid = Ok (v, x_heap st) ->
    repu v j -> j <> JUndef -> jv_ok j -> print_string s j = SOk (t, s2) ->
    exec_node defs (S fuel) dot st (NAction ([], [[a]])) = Ok (emit st t).
  Proof.
    intros Ha He R Hu Ho Hs. apply repu_rep in R; [|exact Hu].
    rewrite (raw_action_eq fuel dot st a Ha). unfold eval_pipeline. cbn [snd]. rewrite He. cbn [bind].
    rewrite (text_js (x_heap st) v j s t s2 R Hu Hs).
    - cbn [bind]. rewrite set_heap_same. reflexivity.
    - intros z ->. exact Ho.
  Qed.
End Print.

(* ---- the package Proofs/C02SimProofs.v instantiates its expression hypotheses with ------------------------------ *)
Definition goodS (funcs names : list bytes) (e : jexpr) : bool :=
  scalar_core funcs e && forallb (fun x => mem x names) (fv e) && Nat.ltb (need e) expr_fuel && dead_safe e.

Lemma goodS_parts funcs names e :
  goodS funcs names e = true ->
  scalar_core funcs e = true /\ (forall x, In x (fv e) -> In x names) /\ (need e < expr_fuel)%nat /\ dead_safe e = true.
Proof.
  unfold goodS. intros H. apply andb_prop in H. destruct H as [H Hd]. apply andb_prop in H. destruct H as [H Hn].
  apply andb_prop in H. destruct H as [Hsc Hfv]. repeat split; try assumption.
  - intros x Hx. rewrite forallb_forall in Hfv. apply mem_In. exact (Hfv x Hx).
  - apply Nat.ltb_lt. exact Hn.
Qed.

Definition jv_undef (j : jv) : bool := match j with JUndef => true | _ => false end.

Lemma goodS_eval funcs names e :
  goodS funcs names e = true ->
  forall E h g j g',
    env_repu_on names (e_vars E) (s_env g) -> env_range_on names (s_env g) ->
    sem_expr efuel g e = SOk (j, g') -> s_flags g' = s_flags g ->
    exists a v,
      Lower.lexpr funcs (goodS funcs names) e = Some a /\
      eval_cmd (pred expr_fuel) E h [a] VInvalid = Ok (v, h) /\ repu v j /\ jv_ok j /\
      s_env g' = s_env g /\ s_heap g' = s_heap g /\ s_out g' = s_out g /\ s_grown g' = s_grown g.
Proof.
  intros Hg E h g j g' Hrep Hrng Hs Hf.
  destruct (goodS_parts funcs names e Hg) as (Hsc & Hfv & Hn & Hd).
  assert (Hrep' : env_repu_on (fv e) (e_vars E) (s_env g)) by (intros x Hx; apply Hrep, Hfv, Hx).
  assert (Hrng' : env_range_on (fv e) (s_env g)) by (intros x Hx; apply Hrng, Hfv, Hx).
  destruct (compile_eval_pipeline_safe funcs E h e efuel g j g' Hsc Hn Hrep' Hrng' Hs Hf Hd)
    as (t & a & v & Hc & Hcmd & _ & R & O & Hst).
  exists a, v. repeat split; try assumption; try apply Hst.
  unfold Lower.lexpr. rewrite Hg, Hc. reflexivity.
Qed.

Lemma goodS_mono funcs names e :
  goodS funcs names e = true ->
  forall g j g', sem_expr efuel g e = SOk (j, g') -> exists l, s_flags g' = l ++ s_flags g.
Proof.
  intros Hg g j g' Hs. destruct (goodS_parts funcs names e Hg) as (Hsc & _).
  exact (sem_flags_mono funcs efuel g e j g' Hsc Hs).
Qed.

(* [esc || negb (jv_undef j)]: unescaped output (`!= e`) of an undefined value is the listed deviation F-C11-c
   (printValue on an invalid value), outside this lemma; escaped output prints nothing there, as S does.
   [live st] is not needed. *)
Lemma goodS_print funcs names e esc :
  goodS funcs names e = true -> Lower.printable e = true ->
  forall defs f dot st g g1 j t g2,
    env_repu_on names (f_vars (cur st)) (s_env g) -> env_range_on names (s_env g) ->
    sem_expr efuel g e = SOk (j, g1) -> print_string g1 j = SOk (t, g2) -> s_flags g2 = s_flags g ->
    esc || negb (jv_undef j) = true ->
    exists a,
      Lower.lexpr funcs (goodS funcs names) e = Some a /\
      exec_node defs (S f) dot st (NAction ([], [a] :: esc_cmds (negb esc))) = Ok (emit st (if esc then escape t else t)) /\
      s_env g2 = s_env g /\ s_out g2 = s_out g.
Proof.
  intros Hg _ defs f dot st g g1 j t g2 Hrep Hrng Hs Hp Hf Hu.
  destruct (goodS_parts funcs names e Hg) as (Hsc & Hfv & Hn & Hd).
  destruct (sem_pres funcs e efuel g j g1 Hsc Hs) as [fl1 Hg1].
  destruct (print_string_pres g1 j t g2 Hp) as [fl2 Hg2].
  assert (Hnil : fl2 ++ fl1 = []).
  { subst g2 g1. rewrite addfl_addfl in Hf. cbn [s_flags addfl] in Hf. exact (app_eq_self _ _ Hf). }
  apply app_eq_nil in Hnil. destruct Hnil as [-> ->]. rewrite addfl_nil in Hg1. subst g1. rewrite addfl_nil in Hg2. subst g2.
  set (E := env_of st dot). set (h := x_heap st).
  assert (Hrep' : env_repu_on (fv e) (e_vars E) (s_env g)) by (intros x Hx; apply Hrep, Hfv, Hx).
  assert (Hrng' : env_range_on (fv e) (s_env g)) by (intros x Hx; apply Hrng, Hfv, Hx).
  destruct (compile_eval_pipeline_safe funcs E h e efuel g j g Hsc Hn Hrep' Hrng' Hs eq_refl Hd)
    as (tx & a & v & Hc & Hcmd & Hcmds & R & O & _).
  exists a. repeat split.
  - unfold Lower.lexpr. rewrite Hg, Hc. reflexivity.
  - destruct esc; cbn [negb esc_cmds].
    + exact (html_print_any defs f dot st [a] v j g t g Hcmd R O Hp).
    + cbn [orb negb] in Hu. destruct (carg_some funcs e Hsc) as (t0 & a0 & Hc0 & Ha0).
      rewrite Hc in Hc0. injection Hc0 as _ <-.
      apply (raw_print defs f dot st a v j g t g Ha0 Hcmds R); try assumption.
      intros ->. discriminate Hu.
Qed.

(* ---- S's expression evaluation never yields the while-bound error -------------------------------------------- *)
Lemma sem_binop_noerr s op a b fl : sem_binop s op a b <> SErr fl.
Proof.
  destruct op; cbn [sem_binop]; try discriminate; destruct a, b; cbn [jv_strict_eq]; try discriminate;
    unfold num; repeat match goal with |- context [if ?c then _ else _] => destruct c end; cbn [sbind]; discriminate.
Qed.

Lemma sem_noerr funcs : forall e fs s fl, scalar_core funcs e = true -> sem_expr fs s e <> SErr fl.
Proof.
  induction e as [x|z|txt|t|parts|b| |es|kvs|e0 IH0 name|e0 IH0 i IHi|fn IHfn args|fn IHfn args|op p x IHx
                 |op l IHl r IHr|c IHc a IHa b IHb|op l IHl r IHr|es|x init];
    intros fs s fl Hsc H; try discriminate Hsc; (destruct fs as [|f]; [discriminate H|]).
  - rewrite sem_id in H. discriminate H.
  - rewrite sem_num in H. unfold num in H. destruct (in_range z); discriminate H.
  - rewrite sem_str in H. discriminate H.
  - rewrite sem_bool in H. discriminate H.
  - assert (Hscx : scalar_core funcs x = true) by (destruct op; try discriminate Hsc; exact Hsc).
    destruct op; try discriminate Hsc.
    + rewrite sem_not in H. destruct (sem_expr f s x) as [[v s1]|fl1| |] eqn:Hx; cbn [sbind] in H; try discriminate H.
      * destruct (to_boolean s1 v). discriminate H.
      * exact (IHx _ _ _ Hscx Hx).
    + rewrite sem_neg in H. destruct (sem_expr f s x) as [[v s1]|fl1| |] eqn:Hx; cbn [sbind] in H; try discriminate H.
      * destruct v; try discriminate H. unfold num in H. destruct (in_range (- z)); discriminate H.
      * exact (IHx _ _ _ Hscx Hx).
  - cbn [scalar_core] in Hsc. apply andb_prop in Hsc. destruct Hsc as [Hsc Hscr].
    apply andb_prop in Hsc. destruct Hsc as [Hop Hscl].
    destruct (plain_binop op) eqn:Hp.
    + rewrite (sem_bin f s op l r Hp) in H.
      destruct (sem_expr f s l) as [[x s1]|fl1| |] eqn:Hl; cbn [sbind] in H; try discriminate H;
        [|exact (IHl _ _ _ Hscl Hl)].
      destruct (sem_expr f s1 r) as [[y s2]|fl2| |] eqn:Hr; cbn [sbind] in H; try discriminate H;
        [|exact (IHr _ _ _ Hscr Hr)].
      exact (sem_binop_noerr _ _ _ _ _ H).
    + destruct op; try discriminate Hp; try discriminate Hop.
      * rewrite sem_and in H.
        destruct (sem_expr f s l) as [[x s1]|fl1| |] eqn:Hl; cbn [sbind] in H; try discriminate H;
          [|exact (IHl _ _ _ Hscl Hl)].
        destruct (to_boolean s1 x) as [bb s2]. destruct bb; [exact (IHr _ _ _ Hscr H)|].
        destruct (sem_expr f s2 r) as [[y s3]|fl2| |] eqn:Hr; cbn [sbind] in H; try discriminate H.
        exact (IHr _ _ _ Hscr Hr).
      * rewrite sem_or in H.
        destruct (sem_expr f s l) as [[x s1]|fl1| |] eqn:Hl; cbn [sbind] in H; try discriminate H;
          [|exact (IHl _ _ _ Hscl Hl)].
        destruct (to_boolean s1 x) as [bb s2]. destruct bb; [|exact (IHr _ _ _ Hscr H)].
        destruct (sem_expr f s2 r) as [[y s3]|fl2| |] eqn:Hr; cbn [sbind] in H; try discriminate H.
        exact (IHr _ _ _ Hscr Hr).
  - cbn [scalar_core] in Hsc. apply andb_prop in Hsc. destruct Hsc as [Hsc Hscb].
    apply andb_prop in Hsc. destruct Hsc as [Hscc Hsca].
    rewrite sem_cond in H.
    destruct (sem_expr f s c) as [[x s1]|fl1| |] eqn:Hc; cbn [sbind] in H; try discriminate H;
      [|exact (IHc _ _ _ Hscc Hc)].
    destruct (to_boolean s1 x) as [bb s2]. destruct bb.
    + destruct (sem_expr f s2 b) as [[y s3]|fl2| |] eqn:Hb; cbn [sbind] in H; try discriminate H;
        [exact (IHa _ _ _ Hsca H)|exact (IHb _ _ _ Hscb Hb)].
    + destruct (sem_expr f s2 a) as [[y s3]|fl2| |] eqn:Ha; cbn [sbind] in H; try discriminate H;
        [exact (IHb _ _ _ Hscb H)|exact (IHa _ _ _ Hsca Ha)].
Qed.

Lemma goodS_noerr funcs names e : goodS funcs names e = true -> forall g fl, sem_expr efuel g e <> SErr fl.
Proof. intros Hg g fl. destruct (goodS_parts funcs names e Hg) as (Hsc & _). exact (sem_noerr funcs e efuel g fl Hsc). Qed.

(* the form Proofs/C02SimProofs.v asks for: the whole pipeline at expr_fuel, whatever the declared variables *)
Lemma goodS_eval_pipeline funcs names e :
  goodS funcs names e = true ->
  forall E h g j g',
    env_repu_on names (e_vars E) (s_env g) -> env_range_on names (s_env g) ->
    sem_expr efuel g e = SOk (j, g') -> s_flags g' = s_flags g ->
    exists a v,
      Lower.lexpr funcs (goodS funcs names) e = Some a /\
      (forall d, eval_pipeline E h (d, [[a]]) = Ok (v, h)) /\ repu v j /\ jv_ok j /\
      s_env g' = s_env g /\ s_out g' = s_out g.
Proof.
  intros Hg E h g j g' Hrep Hrng Hs Hf.
  destruct (goodS_parts funcs names e Hg) as (Hsc & Hfv & Hn & Hd).
  assert (Hrep' : env_repu_on (fv e) (e_vars E) (s_env g)) by (intros x Hx; apply Hrep, Hfv, Hx).
  assert (Hrng' : env_range_on (fv e) (s_env g)) by (intros x Hx; apply Hrng, Hfv, Hx).
  destruct (compile_eval_pipeline_safe funcs E h e efuel g j g' Hsc Hn Hrep' Hrng' Hs Hf Hd)
    as (t & a & v & Hc & _ & Hcmds & R & O & He & _ & Ho & _).
  exists a, v. split; [unfold Lower.lexpr; rewrite Hg, Hc; reflexivity|].
  split; [intros d; unfold eval_pipeline; cbn [snd]; exact Hcmds|]. repeat split; assumption.
Qed.
