(* Proofs for C07 (Models/Purity.v): order independence of every map-range site, history
   independence of the engine, and the write footprint of template operations. *)
From PV Require Import Base.Bytes Base.Escape Tmpl.Value Models.Purity.
From Coq Require Import Permutation Lia.

(* ======================================================================== byte order *)

Lemma N_of_ascii_inj a b : N_of_ascii a = N_of_ascii b -> a = b.
Proof.
  intros H. rewrite <- (ascii_N_embedding a), <- (ascii_N_embedding b), H. reflexivity.
Qed.

Lemma ltb_cons x a y b :
  bytes_ltb (x :: a) (y :: b) =
  if N.ltb (N_of_ascii x) (N_of_ascii y) then true
  else if N.ltb (N_of_ascii y) (N_of_ascii x) then false else bytes_ltb a b.
Proof. reflexivity. Qed.

Lemma ltb_irrefl a : bytes_ltb a a = false.
Proof.
  induction a as [|x a IH]; [reflexivity|].
  rewrite ltb_cons, N.ltb_irrefl. exact IH.
Qed.

Lemma ltb_trans : forall a b c,
  bytes_ltb a b = true -> bytes_ltb b c = true -> bytes_ltb a c = true.
Proof.
  induction a as [|x a IH]; intros [|y b] [|z c]; try (simpl; congruence).
  rewrite !ltb_cons.
  destruct (N.ltb_spec (N_of_ascii x) (N_of_ascii y));
  destruct (N.ltb_spec (N_of_ascii y) (N_of_ascii x));
  destruct (N.ltb_spec (N_of_ascii y) (N_of_ascii z));
  destruct (N.ltb_spec (N_of_ascii z) (N_of_ascii y));
  destruct (N.ltb_spec (N_of_ascii x) (N_of_ascii z));
  destruct (N.ltb_spec (N_of_ascii z) (N_of_ascii x));
  try congruence; try lia.
  apply IH.
Qed.

Lemma ltb_asym : forall a b, bytes_ltb a b = true -> bytes_ltb b a = false.
Proof.
  induction a as [|x a IH]; intros [|y b]; try (simpl; congruence).
  rewrite !ltb_cons.
  destruct (N.ltb_spec (N_of_ascii x) (N_of_ascii y));
  destruct (N.ltb_spec (N_of_ascii y) (N_of_ascii x)); try congruence; try lia.
  apply IH.
Qed.

Lemma ltb_total : forall a b, bytes_ltb a b = false -> bytes_ltb b a = false -> a = b.
Proof.
  induction a as [|x a IH]; intros [|y b]; try (simpl; congruence).
  rewrite !ltb_cons.
  destruct (N.ltb_spec (N_of_ascii x) (N_of_ascii y));
  destruct (N.ltb_spec (N_of_ascii y) (N_of_ascii x)); try congruence; try lia.
  intros H1 H2. assert (x = y) by (apply N_of_ascii_inj; lia). subst. f_equal. apply IH; assumption.
Qed.

Lemma beqb_false_sym a b : beqb a b = false -> beqb b a = false.
Proof. rewrite !beqb_neq. congruence. Qed.

(* trichotomy, with everything the case analyses below need *)
Lemma tri a b :
  (bytes_ltb a b = true /\ bytes_ltb b a = false /\ beqb a b = false /\ beqb b a = false)
  \/ a = b
  \/ (bytes_ltb b a = true /\ bytes_ltb a b = false /\ beqb a b = false /\ beqb b a = false).
Proof.
  destruct (bytes_ltb a b) eqn:E1.
  - left. assert (a <> b) by (intros ->; rewrite ltb_irrefl in E1; discriminate).
    repeat split; [apply ltb_asym; exact E1| |]; apply beqb_neq; congruence.
  - destruct (bytes_ltb b a) eqn:E2.
    + right; right. assert (a <> b) by (intros ->; rewrite ltb_irrefl in E2; discriminate).
      repeat split; apply beqb_neq; congruence.
    + right; left. apply ltb_total; assumption.
Qed.

(* ======================================================================== sorting *)

Lemma ins_comm a b l :
  insert_sorted bytes_ltb a (insert_sorted bytes_ltb b l) =
  insert_sorted bytes_ltb b (insert_sorted bytes_ltb a l).
Proof.
  induction l as [|y r IH]; simpl.
  - destruct (tri a b) as [(E1 & E2 & _)|[->|(E1 & E2 & _)]]; rewrite ?E1, ?E2; reflexivity.
  - destruct (bytes_ltb b y) eqn:Q, (bytes_ltb a y) eqn:P; simpl; rewrite ?Q, ?P.
    + destruct (tri a b) as [(E1 & E2 & _)|[->|(E1 & E2 & _)]]; rewrite ?E1, ?E2; reflexivity.
    + destruct (bytes_ltb a b) eqn:E1; [|reflexivity].
      rewrite (ltb_trans _ _ _ E1 Q) in P. discriminate.
    + destruct (bytes_ltb b a) eqn:E1; [|reflexivity].
      rewrite (ltb_trans _ _ _ E1 P) in Q. discriminate.
    + rewrite IH. reflexivity.
Qed.

Lemma sort_bytes_perm l l' : Permutation l l' -> sort_bytes l = sort_bytes l'.
Proof.
  unfold sort_bytes. induction 1; simpl.
  - reflexivity.
  - rewrite IHPermutation. reflexivity.
  - apply ins_comm.
  - congruence.
Qed.

(* ======================================================================== finite maps *)

Lemma fm_insert_comm_lt {A} k1 k2 (v1 v2 : A) m :
  bytes_ltb k1 k2 = true ->
  fm_insert k1 v1 (fm_insert k2 v2 m) = fm_insert k2 v2 (fm_insert k1 v1 m).
Proof.
  intros L.
  assert (L' : bytes_ltb k2 k1 = false) by (apply ltb_asym; exact L).
  assert (N : k1 <> k2) by (intros ->; rewrite ltb_irrefl in L; discriminate).
  assert (B1 : beqb k2 k1 = false) by (apply beqb_neq; congruence).
  induction m as [|[k' v'] r IH]; simpl.
  - rewrite L, L', B1. reflexivity.
  - destruct (tri k2 k') as [(E1 & E2 & E3 & E4)|[->|(E1 & E2 & E3 & E4)]].
    + (* k2 < k' *)
      rewrite E1. rewrite (ltb_trans _ _ _ L E1). simpl. rewrite L, L', B1. simpl. rewrite E1. reflexivity.
    + (* k2 = k' *)
      rewrite ltb_irrefl, beqb_refl, L. simpl. rewrite L, L', B1. simpl.
      rewrite ltb_irrefl, beqb_refl. reflexivity.
    + (* k' < k2 *)
      rewrite E2, E3. simpl.
      destruct (tri k1 k') as [(F1 & F2 & F3 & F4)|[->|(F1 & F2 & F3 & F4)]].
      * rewrite F1. simpl. rewrite L', B1. simpl. rewrite E2, E3. reflexivity.
      * rewrite ltb_irrefl, beqb_refl. simpl. rewrite L', B1. reflexivity.
      * rewrite F2, F3. simpl. rewrite E2, E3. rewrite IH. reflexivity.
Qed.

Lemma fm_insert_comm {A} k1 k2 (v1 v2 : A) m :
  k1 <> k2 ->
  fm_insert k1 v1 (fm_insert k2 v2 m) = fm_insert k2 v2 (fm_insert k1 v1 m).
Proof.
  intros N. destruct (tri k1 k2) as [(E1 & _)|[->|(E1 & _)]].
  - apply fm_insert_comm_lt; exact E1.
  - congruence.
  - symmetry. apply fm_insert_comm_lt; exact E1.
Qed.

Definition ins {A} (m : list (bytes * A)) (kv : bytes * A) := fm_insert (fst kv) (snd kv) m.

Lemma fm_fold_perm {A} (l l' : list (bytes * A)) :
  Permutation l l' -> NoDup (map fst l) -> forall m, fold_left ins l m = fold_left ins l' m.
Proof.
  induction 1 as [|x l l' HP IH|x y l|l l' l'' HP1 IH1 HP2 IH2]; intros ND m; simpl.
  - reflexivity.
  - inversion ND; subst. apply IH. assumption.
  - unfold ins at 2 3 5 6. rewrite (fm_insert_comm (fst x) (fst y)); [reflexivity|].
    simpl in ND. inversion ND as [|? ? Hni _]; subst. intros E. apply Hni. left. exact E.
  - rewrite IH1 by assumption. apply IH2.
    apply (Permutation_NoDup (Permutation_map fst HP1)). assumption.
Qed.

Lemma fm_of_list_perm {A} (l l' : list (bytes * A)) :
  Permutation l l' -> NoDup (map fst l) -> fm_of_list l = fm_of_list l'.
Proof. intros HP ND. apply (fm_fold_perm l l' HP ND []). Qed.

Lemma nodupb_NoDup l : nodupb l = true -> NoDup l.
Proof.
  unfold nodupb. induction l as [|x r IH]; intros H.
  - constructor.
  - apply andb_true_iff in H. destruct H as [H1 H2].
    constructor; [|apply IH; exact H2].
    apply mem_false_In. destruct (mem x r); [discriminate|reflexivity].
Qed.

(* ======================================================================== induction principles *)

Section tval_ind'.
  Variable P : tval -> Prop.
  Hypothesis HNil : P TNil.
  Hypothesis HBool : forall b, P (TBool b).
  Hypothesis HNum : forall z, P (TNum z).
  Hypothesis HStr : forall s, P (TStr s).
  Hypothesis HArr : forall l, Forall P l -> P (TArr l).
  Hypothesis HMap : forall items order, Forall (fun kv => P (snd kv)) items -> P (TMap items order).
  Fixpoint tval_ind' (v : tval) : P v :=
    match v with
    | TNil => HNil
    | TBool b => HBool b
    | TNum z => HNum z
    | TStr s => HStr s
    | TArr l =>
      HArr l ((fix go (l : list tval) : Forall P l :=
                 match l with
                 | [] => Forall_nil _
                 | x :: r => Forall_cons x (tval_ind' x) (go r)
                 end) l)
    | TMap items order =>
      HMap items order
           ((fix go (l : list (bytes * tval)) : Forall (fun kv => P (snd kv)) l :=
               match l with
               | [] => Forall_nil _
               | x :: r => Forall_cons x (tval_ind' (snd x)) (go r)
               end) items)
    end.
End tval_ind'.

Section gdata_ind'.
  Variable P : gdata -> Prop.
  Hypothesis HNil : P GNil.
  Hypothesis HBool : forall b, P (GBool b).
  Hypothesis HInt : forall z, P (GInt z).
  Hypothesis HStr : forall s, P (GStr s).
  Hypothesis HArr : forall l, Forall P l -> P (GArr l).
  Hypothesis HMap : forall kvs, Forall (fun kv => P (snd kv)) kvs -> P (GMap kvs).
  Hypothesis HStruct : forall fs, Forall (fun kv => P (snd kv)) fs -> P (GStruct fs).
  Hypothesis HPtrN : P (GPtr None).
  Hypothesis HPtrS : forall d, P d -> P (GPtr (Some d)).
  Fixpoint gdata_ind' (d : gdata) : P d :=
    match d with
    | GNil => HNil
    | GBool b => HBool b
    | GInt z => HInt z
    | GStr s => HStr s
    | GArr l =>
      HArr l ((fix go (l : list gdata) : Forall P l :=
                 match l with
                 | [] => Forall_nil _
                 | x :: r => Forall_cons x (gdata_ind' x) (go r)
                 end) l)
    | GMap kvs =>
      HMap kvs ((fix go (l : list (gkey * gdata)) : Forall (fun kv => P (snd kv)) l :=
                   match l with
                   | [] => Forall_nil _
                   | x :: r => Forall_cons x (gdata_ind' (snd x)) (go r)
                   end) kvs)
    | GStruct fs =>
      HStruct fs ((fix go (l : list (bytes * gdata)) : Forall (fun kv => P (snd kv)) l :=
                     match l with
                     | [] => Forall_nil _
                     | x :: r => Forall_cons x (gdata_ind' (snd x)) (go r)
                     end) fs)
    | GPtr None => HPtrN
    | GPtr (Some d') => HPtrS d' (gdata_ind' d')
    end.
End gdata_ind'.

(* ======================================================================== (a) the sites *)

Lemma perm_id : perm_oracle id_oracle.
Proof. intros A l. apply Permutation_refl. Qed.
Lemma perm_rev : perm_oracle rev_oracle.
Proof. intros A l. apply Permutation_sym, Permutation_rev. Qed.
Lemma perm_rot : perm_oracle rot_oracle.
Proof.
  intros A [|x r]; [constructor|]. unfold rot_oracle.
  apply Permutation_sym, Permutation_cons_append.
Qed.

Section SiteProofs.
  Variable pi : oracle.
  Hypothesis Hpi : perm_oracle pi.

  Lemma sorted_keys_indep {A} (items : list (bytes * A)) :
    sort_bytes (map fst (pi _ items)) = sort_bytes (map fst items).
  Proof. apply sort_bytes_perm, Permutation_map, Hpi. Qed.

  Lemma keys_site_indep {A} (items : list (bytes * A)) order :
    keys_site pi items order = keys_site id_oracle items order.
  Proof. unfold keys_site, id_oracle. destruct order; [apply sorted_keys_indep|reflexivity]. Qed.

  Lemma range_site_indep {A} (items : list (bytes * A)) order :
    range_site pi items order = range_site id_oracle items order.
  Proof.
    unfold range_site, id_oracle. destruct order; [rewrite sorted_keys_indep|]; reflexivity.
  Qed.

  Lemma globals_site_indep {A} (items : list (bytes * A)) :
    globals_site pi items = globals_site id_oracle items.
  Proof. unfold globals_site, id_oracle. rewrite sorted_keys_indep. reflexivity. Qed.

  Lemma marshal_tmp_indep {A} (items : list (bytes * A)) :
    marshal_tmp pi items = marshal_tmp id_oracle items.
  Proof. unfold marshal_tmp, id_oracle. rewrite sorted_keys_indep. reflexivity. Qed.

  Lemma object_keys_site_indep {A} (items : list (bytes * A)) order :
    object_keys_site pi items order = object_keys_site id_oracle items order.
  Proof. unfold object_keys_site. rewrite keys_site_indep. reflexivity. Qed.

  Lemma object_assign_site_indep {A} (t s : list (bytes * A) * list bytes) :
    object_assign_site pi t s = object_assign_site id_oracle t s.
  Proof. unfold object_assign_site. rewrite keys_site_indep. reflexivity. Qed.

  Lemma map_params_site_indep {A} (args : list (bytes * A)) :
    NoDup (map fst args) -> map_params_site pi args = map_params_site id_oracle args.
  Proof.
    intros ND. unfold map_params_site, id_oracle.
    apply fm_of_list_perm; [apply Hpi|].
    apply (Permutation_NoDup (Permutation_map fst (Permutation_sym (Hpi _ args)))). exact ND.
  Qed.

  Lemma json_of_indep : forall v, json_of pi v = json_of id_oracle v.
  Proof.
    induction v as [| | | |l IH|items order IH] using tval_ind'; simpl; try reflexivity.
    - do 3 f_equal. apply map_ext_in. intros x Hx.
      rewrite Forall_forall in IH. apply IH. exact Hx.
    - rewrite marshal_tmp_indep. do 2 f_equal. apply map_ext_in. intros x Hx.
      rewrite Forall_forall in IH. rewrite (IH x Hx). reflexivity.
  Qed.

  Lemma text_of_indep : forall v, text_of pi v = text_of id_oracle v.
  Proof.
    induction v as [| | | |l IH|items order IH] using tval_ind'; try reflexivity.
    - simpl. f_equal. apply map_ext_in. intros x Hx.
      rewrite Forall_forall in IH. apply IH. exact Hx.
    - change (json_of pi (TMap items order) = json_of id_oracle (TMap items order)).
      apply json_of_indep.
  Qed.

  Lemma convert_indep : forall d, dom_data d = true -> convert pi d = convert id_oracle d.
  Proof.
    unfold convert.
    induction d as [| | | |l IH|kvs IH|fs IH| |d IH] using gdata_ind'; intros Hd; simpl; try reflexivity.
    - f_equal. apply map_ext_in. intros x Hx. rewrite Forall_forall in IH. apply IH; [exact Hx|].
      simpl in Hd. rewrite forallb_forall in Hd. apply Hd. exact Hx.
    - simpl in Hd. apply andb_true_iff in Hd. destruct Hd as [Hnd Hall].
      rewrite forallb_forall in Hall. rewrite Forall_forall in IH.
      assert (E : map (fun kv => (key_text (fst kv), convert_with pi key_text (snd kv))) kvs
                  = map (fun kv => (key_text (fst kv), convert_with id_oracle key_text (snd kv))) kvs).
      { apply map_ext_in. intros x Hx. rewrite (IH x Hx (Hall x Hx)). reflexivity. }
      rewrite E. f_equal. unfold id_oracle at 1.
      set (L := map (fun kv => (key_text (fst kv), convert_with id_oracle key_text (snd kv))) kvs).
      assert (ND : NoDup (map fst L)).
      { unfold L. rewrite map_map. simpl. apply nodupb_NoDup. exact Hnd. }
      apply fm_of_list_perm; [apply Hpi|].
      apply (Permutation_NoDup (Permutation_map fst (Permutation_sym (Hpi _ L)))). exact ND.
    - simpl in Hd. rewrite forallb_forall in Hd. rewrite Forall_forall in IH.
      do 2 f_equal. apply map_ext_in. intros x Hx. rewrite (IH x Hx (Hd x Hx)). reflexivity.
    - apply IH. exact Hd.
  Qed.

  Lemma all_sites_indep x : dom_C07 x = true -> all_sites pi x = all_sites id_oracle x.
  Proof.
    unfold dom_C07, all_sites. intros H. apply andb_true_iff in H. destruct H as [H1 H2].
    rewrite (convert_indep _ H1), keys_site_indep, range_site_indep, globals_site_indep, json_of_indep,
      object_keys_site_indep, object_assign_site_indep, (map_params_site_indep _ (nodupb_NoDup _ H2)).
    reflexivity.
  Qed.

  (* ---- the composed shapes *)
  Lemma each_text_indep kvs : each_text pi kvs = each_text id_oracle kvs.
  Proof.
    unfold each_text. f_equal. apply map_ext. intros kv. rewrite text_of_indep. reflexivity.
  Qed.

  Lemma attr_text_indep kv : attr_text pi kv = attr_text id_oracle kv.
  Proof. unfold attr_text. destruct (snd kv); try reflexivity; rewrite text_of_indep; reflexivity. Qed.

  Lemma join_texts_indep sep l : join_texts pi sep l = join_texts id_oracle sep l.
  Proof. unfold join_texts. f_equal. apply map_ext. intros v. apply text_of_indep. Qed.

  Lemma render_shape_indep sh d :
    dom_data d = true -> render_shape pi sh d = render_shape id_oracle sh d.
  Proof.
    intros Hd. unfold render_shape, top_items, var_of. rewrite (convert_indep _ Hd).
    destruct (convert id_oracle d) as [| | | | |top ord]; try reflexivity.
    rewrite globals_site_indep.
    destruct sh.
    - destruct (tmap_of _) as [[items order]|]; [|reflexivity].
      rewrite range_site_indep, each_text_indep. reflexivity.
    - destruct (tmap_of _) as [[items order]|]; [|reflexivity].
      destruct (mem _ _); [reflexivity|].
      rewrite keys_site_indep, (map_ext _ _ attr_text_indep). reflexivity.
    - destruct (tmap_of _) as [[items order]|]; [|reflexivity]. rewrite json_of_indep. reflexivity.
    - destruct (tmap_of _) as [[items order]|]; [|reflexivity].
      rewrite object_keys_site_indep. reflexivity.
    - destruct (tmap_of _) as [[items order]|]; [|reflexivity]. rewrite keys_site_indep. reflexivity.
    - destruct (var_lookup _ _); [|reflexivity]. rewrite text_of_indep. reflexivity.
    - destruct (tmap_of _) as [[items order]|]; [|reflexivity].
      rewrite keys_site_indep, range_site_indep, each_text_indep. reflexivity.
    - destruct (tmap_of _) as [src|]; [|reflexivity].
      rewrite object_assign_site_indep, range_site_indep, each_text_indep. reflexivity.
    - destruct (var_lookup _ _) as [[| | | |l|]|]; try reflexivity.
      rewrite join_texts_indep, json_of_indep. reflexivity.
    - destruct (var_lookup _ _) as [[| | | |l|]|]; try reflexivity.
      rewrite (map_ext _ _ text_of_indep). reflexivity.
    - destruct (tmap_of _) as [t|]; [|reflexivity]. rewrite json_of_indep. reflexivity.
    - destruct (tmap_of (var_lookup (B "m") _)) as [t|]; [|reflexivity].
      destruct (tmap_of (var_lookup (B "o") _)) as [s|]; [|reflexivity].
      rewrite object_assign_site_indep, json_of_indep. reflexivity.
  Qed.
End SiteProofs.

Lemma oracle_independent (pi1 pi2 : oracle) :
  perm_oracle pi1 -> perm_oracle pi2 ->
  forall x, dom_C07 x = true -> all_sites pi1 x = all_sites pi2 x.
Proof.
  intros H1 H2 x Hx. rewrite (all_sites_indep pi1 H1 x Hx), (all_sites_indep pi2 H2 x Hx). reflexivity.
Qed.

Lemma render_oracle_independent (pi1 pi2 : oracle) :
  perm_oracle pi1 -> perm_oracle pi2 ->
  forall sh d, dom_data d = true -> render_shape pi1 sh d = render_shape pi2 sh d.
Proof.
  intros H1 H2 sh d Hd.
  rewrite (render_shape_indep pi1 H1 sh d Hd), (render_shape_indep pi2 H2 sh d Hd). reflexivity.
Qed.

(* ---- refutations ---- *)

(* without dom_C07: a map[interface{}] holding the keys "1" and 1 *)
Definition clash_input : site_input :=
  {| si_data := GMap [(KStr (B "1"), GStr (B "s")); (KInt 1, GStr (B "i"))];
     si_items := []; si_order := []; si_target := ([], []); si_args := [] |}.

Lemma oracle_independent_refuted :
  exists pi1 pi2 x, perm_oracle pi1 /\ perm_oracle pi2 /\ dom_C07 x = false /\
                    all_sites pi1 x <> all_sites pi2 x.
Proof.
  exists id_oracle, rev_oracle, clash_input.
  split; [exact perm_id|]. split; [exact perm_rev|]. split; [reflexivity|].
  vm_compute. intros H. discriminate H.
Qed.

(* the code before the repairs: every one of these sites depends on the iteration order,
   on data inside dom_C07 *)
Definition unfixed_input : site_input :=
  {| si_data := GMap [(KInt 1, GStr (B "a")); (KInt 2, GStr (B "b"))];
     si_items := [(B "Foo", TStr (B "UPPER")); (B "foo", TStr (B "lower"))];
     si_order := []; si_target := ([], []); si_args := [] |}.

Lemma unrepaired_sites_refuted :
  exists pi1 pi2 x, perm_oracle pi1 /\ perm_oracle pi2 /\ dom_C07 x = true /\
    let a := all_sites_unfixed pi1 x in let b := all_sites_unfixed pi2 x in
    fst (fst (fst a)) <> fst (fst (fst b))        (* convert with "<int Value>" keys *)
    /\ snd (fst (fst a)) <> snd (fst (fst b))     (* Map.Keys *)
    /\ var_lookup (B "foo") (snd (fst a)) <> var_lookup (B "foo") (snd (fst b))   (* execute: `foo` *)
    /\ snd a <> snd b.                            (* MarshalJSON *)
Proof.
  exists id_oracle, rev_oracle, unfixed_input.
  split; [exact perm_id|]. split; [exact perm_rev|]. split; [reflexivity|].
  vm_compute. repeat split; intros H; discriminate H.
Qed.

(* non-vacuity *)
Definition sample_input : site_input :=
  {| si_data := GMap [(KStr (B "b"), GArr [GInt 1; GStr (B "x")]);
                      (KStr (B "a"), GStruct [(B "Name", GStr (B "n")); (B "Next", GPtr None)]);
                      (KInt 7, GMap [(KStr (B "Foo"), GBool true); (KStr (B "foo"), GNil)])];
     si_items := [(B "Foo", TNum 1); (B "b", TStr (B "<")); (B "foo", TNum 2)];
     si_order := [];
     si_target := ([(B "zz", TNum 1)], [B "zz"]);
     si_args := [(B "y", TNum 1); (B "x", TNum 2)] |}.

Example sample_in_dom : dom_C07 sample_input = true.
Proof. vm_compute. reflexivity. Qed.

Example sample_sites_agree :
  all_sites rev_oracle sample_input = all_sites id_oracle sample_input
  /\ all_sites rot_oracle sample_input = all_sites id_oracle sample_input.
Proof. vm_compute. split; reflexivity. Qed.

Example sample_render :
  render_shape rev_oracle ShEach
               (GMap [(KStr (B "m"), GMap [(KStr (B "b"), GInt 2); (KStr (B "a"), GStr (B "<"))])])
  = Some (B "[a=&lt;][b=2]").
Proof. vm_compute. reflexivity. Qed.

Example sample_collision :   (* Foo / foo: `foo` is the exact key, JSON keeps it too *)
  render_shape rot_oracle (ShVar (B "foo")) (GMap [(KStr (B "foo"), GStr (B "lower")); (KStr (B "Foo"), GStr (B "UPPER"))])
  = Some (B "lower")
  /\ render_shape rev_oracle ShJson
       (GMap [(KStr (B "m"), GMap [(KStr (B "foo"), GInt 1); (KStr (B "Foo"), GInt 2)])])
     = Some (B "{""foo"":1}").
Proof. vm_compute. split; reflexivity. Qed.

(* ======================================================================== (b) history *)

Section EngineProofs.
  Variable tpl : Type.
  Variable exec_state : Type.
  Variable new_exec : tpl -> gdata -> exec_state.
  Variable run_exec : exec_state -> exec_state.
  Variable output : exec_state -> option bytes.

  Notation step := (step tpl exec_state new_exec run_exec output).
  Notation run := (run tpl exec_state new_exec run_exec output).

  Lemma step_templates e r : templates tpl (fst (step e r)) = templates tpl e.
  Proof. unfold Purity.step. destruct (lookup _ _); reflexivity. Qed.

  (* invariant over fold_left step: the template set never changes *)
  Lemma run_templates : forall rs s, templates tpl (fst (fold_left (fun s r => step (fst s) r) rs s))
                                     = templates tpl (fst s).
  Proof.
    induction rs as [|r rs IH]; intros s; simpl; [reflexivity|].
    rewrite IH. apply step_templates.
  Qed.

  (* the response is a function of the template set and the request alone *)
  Lemma step_resp e e' r : templates tpl e = templates tpl e' -> snd (step e r) = snd (step e' r).
  Proof. unfold Purity.step. intros ->. destruct (lookup _ _); reflexivity. Qed.

  Lemma history_independent e rs r :
    resp tpl (run e (rs ++ [r])) = resp tpl (run e [r]).
  Proof.
    unfold Purity.run, resp. rewrite fold_left_app. simpl.
    apply step_resp. apply (run_templates rs (e, RNone)).
  Qed.

  (* the same holds between two engines that loaded the same templates *)
  Lemma engine_independent e e' rs rs' r :
    templates tpl e = templates tpl e' ->
    resp tpl (run e (rs ++ [r])) = resp tpl (run e' (rs' ++ [r])).
  Proof.
    intros H. unfold Purity.run, resp. rewrite !fold_left_app. simpl.
    apply step_resp. rewrite (run_templates rs (e, RNone)), (run_templates rs' (e', RNone)). exact H.
  Qed.

  (* ---- a process: several engine instances, requests addressed to any of them ---- *)
  Notation pstep := (pstep tpl exec_state new_exec run_exec output).
  Notation prun := (prun tpl exec_state new_exec run_exec output).

  Definition tsets (p : process tpl) : list (list (bytes * tpl)) := map (templates tpl) p.

  Lemma set_nth_tsets : forall (p : process tpl) i e e',
    nth_error p i = Some e -> templates tpl e' = templates tpl e ->
    tsets (set_nth tpl p i e') = tsets p.
  Proof.
    induction p as [|x p IH]; intros i e e' Hn Ht; destruct i; simpl in *; try discriminate.
    - inversion Hn; subst. unfold tsets. simpl. rewrite Ht. reflexivity.
    - unfold tsets in *. simpl. f_equal. eapply IH; eauto.
  Qed.

  Lemma pstep_tsets p ir : tsets (fst (pstep p ir)) = tsets p.
  Proof.
    unfold Purity.pstep. destruct (nth_error p (fst ir)) as [e|] eqn:Hn; simpl; [|reflexivity].
    eapply set_nth_tsets; [exact Hn|apply step_templates].
  Qed.

  Lemma prun_tsets : forall irs s,
    tsets (fst (fold_left (fun s ir => pstep (fst s) ir) irs s)) = tsets (fst s).
  Proof.
    induction irs as [|ir irs IH]; intros s; simpl; [reflexivity|].
    rewrite IH. apply pstep_tsets.
  Qed.

  Lemma nth_tsets (p : process tpl) i :
    nth_error (tsets p) i = option_map (templates tpl) (nth_error p i).
  Proof. unfold tsets. apply nth_error_map. Qed.

  (* the answer depends on the template set of the addressed engine and the request alone *)
  Lemma pstep_resp p p' i j r :
    option_map (templates tpl) (nth_error p i) = option_map (templates tpl) (nth_error p' j) ->
    snd (pstep p (i, r)) = snd (pstep p' (j, r)).
  Proof.
    unfold Purity.pstep. simpl.
    destruct (nth_error p i) as [e|], (nth_error p' j) as [e'|]; simpl; intros H; try discriminate.
    - inversion H. apply step_resp. assumption.
    - reflexivity.
  Qed.

  Lemma process_history_independent (p p' : process tpl) irs irs' i j r :
    option_map (templates tpl) (nth_error p i) = option_map (templates tpl) (nth_error p' j) ->
    presp tpl (prun p (irs ++ [(i, r)])) = presp tpl (prun p' (irs' ++ [(j, r)])).
  Proof.
    intros H. unfold Purity.prun, presp. rewrite !fold_left_app. simpl.
    apply pstep_resp.
    rewrite <- !nth_tsets.
    rewrite (prun_tsets irs (p, RNone)), (prun_tsets irs' (p', RNone)). simpl.
    rewrite !nth_tsets. exact H.
  Qed.

  (* non-vacuity is shown below, outside the section, on a concrete executor *)
End EngineProofs.

(* a process of two engines with one template each; the executor prints the data's text.  After any
   history on either engine the addressed engine answers as in a new process *)
Example process_history_example :
  let tplT := bytes in
  let new_exec := fun (t : tplT) (d : gdata) => (t, d) in
  let run_exec := fun (s : tplT * gdata) => s in
  let output := fun (s : tplT * gdata) => Some (fst s ++ text_of id_oracle (convert id_oracle (snd s))) in
  let e1 := mk_engine tplT [(B "t", B "T:")] [] in
  let e2 := mk_engine tplT [(B "t", B "T:"); (B "u", B "U:")] [] in
  let r := mk_request (B "t") (GStr (B "x")) in
  presp tplT (prun tplT (tplT * gdata) new_exec run_exec output [e1; e2]
                   [(0, mk_request (B "t") (GStr (B "other"))); (1, mk_request (B "u") GNil); (5, r); (1, r)])
  = ROut (Some (B "T:x")).
Proof. vm_compute. reflexivity. Qed.

(* ---- loading: the template stored under a name is the translation of that file alone ---- *)
Section LoadingProofs.
  Variable src tpl : Type.
  Variable translate : src -> tpl.

  Lemma lookup_load : forall (files : list (bytes * src)) n,
    lookup n (load src tpl translate files) = option_map translate (lookup n files).
  Proof.
    induction files as [|[k v] r IH]; intros n; simpl; [reflexivity|].
    destruct (beqb n k); [reflexivity|apply IH].
  Qed.

  (* two directories that hold the same file under a name - whatever else they hold, in whatever order *)
  Lemma load_sibling_independent (files files' : list (bytes * src)) n :
    lookup n files = lookup n files' ->
    lookup n (load src tpl translate files) = lookup n (load src tpl translate files').
  Proof. intros H. rewrite !lookup_load, H. reflexivity. Qed.

  (* the listing order: any permutation of a listing with pairwise distinct names *)
  Lemma lookup_in_nodup {A} : forall (l : list (bytes * A)) n v,
    NoDup (map fst l) -> In (n, v) l -> lookup n l = Some v.
  Proof.
    induction l as [|[k w] r IH]; intros n v Hnd Hin; simpl in *; [contradiction|].
    inversion Hnd as [|? ? Hk Hr]; subst.
    destruct Hin as [Heq|Hin].
    - inversion Heq; subst. rewrite beqb_refl. reflexivity.
    - destruct (beqb n k) eqn:E.
      + apply beqb_eq in E. subst. exfalso. apply Hk. apply in_map_iff. exists (k, v). split; [reflexivity|assumption].
      + apply IH; assumption.
  Qed.

  Lemma lookup_none_notin {A} : forall (l : list (bytes * A)) n,
    lookup n l = None -> ~ In n (map fst l).
  Proof.
    induction l as [|[k w] r IH]; intros n H; simpl in *; [tauto|].
    destruct (beqb n k) eqn:E; [discriminate|].
    intros [Hk|Hin]; [subst; rewrite beqb_refl in E; discriminate|exact (IH _ H Hin)].
  Qed.

  Lemma lookup_some_in {A} : forall (l : list (bytes * A)) n v, lookup n l = Some v -> In (n, v) l.
  Proof.
    induction l as [|[k w] r IH]; intros n v H; simpl in *; [discriminate|].
    destruct (beqb n k) eqn:E.
    - apply beqb_eq in E. inversion H; subst. left. reflexivity.
    - right. apply IH. exact H.
  Qed.

  Lemma lookup_perm {A} (l l' : list (bytes * A)) n :
    NoDup (map fst l) -> Permutation l l' -> lookup n l = lookup n l'.
  Proof.
    intros Hnd Hp.
    assert (Hnd' : NoDup (map fst l')) by (eapply Permutation_NoDup; [apply Permutation_map; exact Hp|exact Hnd]).
    destruct (lookup n l) as [v|] eqn:E.
    - symmetry. apply lookup_in_nodup; [exact Hnd'|].
      eapply Permutation_in; [exact Hp|]. apply lookup_some_in. exact E.
    - destruct (lookup n l') as [v'|] eqn:E'; [|reflexivity].
      exfalso. apply (lookup_none_notin _ _ E).
      apply in_map_iff. exists (n, v'). split; [reflexivity|].
      eapply Permutation_in; [apply Permutation_sym; exact Hp|]. apply lookup_some_in. exact E'.
  Qed.

  Lemma load_order_independent (files files' : list (bytes * src)) n :
    NoDup (map fst files) -> Permutation files files' ->
    lookup n (load src tpl translate files) = lookup n (load src tpl translate files').
  Proof. intros Hnd Hp. apply load_sibling_independent. apply lookup_perm; assumption. Qed.

  (* ... and so is the answer: engines loaded from two directories that hold the same file under the
     requested name - alone or among any siblings, listed in any order - after any histories *)
  Variable exec_state : Type.
  Variable new_exec : tpl -> gdata -> exec_state.
  Variable run_exec : exec_state -> exec_state.
  Variable output : exec_state -> option bytes.
  Notation step := (step tpl exec_state new_exec run_exec output).
  Notation run := (run tpl exec_state new_exec run_exec output).

  Lemma step_resp_lookup e e' r :
    lookup (rq_name r) (templates tpl e) = lookup (rq_name r) (templates tpl e') ->
    snd (step e r) = snd (step e' r).
  Proof. unfold Purity.step. intros ->. destruct (lookup _ _); reflexivity. Qed.

  Lemma sibling_independent (files files' : list (bytes * src)) st st' rs rs' n d :
    lookup n files = lookup n files' ->
    resp tpl (run (mk_engine tpl (load src tpl translate files) st) (rs ++ [mk_request n d]))
    = resp tpl (run (mk_engine tpl (load src tpl translate files') st') (rs' ++ [mk_request n d])).
  Proof.
    intros H. unfold Purity.run, resp. rewrite !fold_left_app. simpl.
    apply step_resp_lookup. simpl.
    rewrite (run_templates tpl exec_state new_exec run_exec output rs (_, RNone)).
    rewrite (run_templates tpl exec_state new_exec run_exec output rs' (_, RNone)). simpl.
    apply load_sibling_independent. exact H.
  Qed.
End LoadingProofs.

(* non-vacuity: the cart page alone and next to the product page, both defining `item` *)
Definition mx_product : mx_src := ([(B "item", B "PRODUCT")], [B "item"]).
Definition mx_cart : mx_src := ([(B "item", B "CART")], [B "item"; B "badge"]).
Example load_example :
  lookup (B "cart") (load mx_src (list bytes) mx_translate [(B "product", mx_product); (B "cart", mx_cart)])
  = Some [B "CART"; []]
  /\ lookup (B "cart") (load mx_src (list bytes) mx_translate [(B "cart", mx_cart)]) = Some [B "CART"; []].
Proof. vm_compute. split; reflexivity. Qed.

(* with ONE translator for the directory the statement is false: what is stored under a name depends on
   the siblings and on the listing order *)
Lemma shared_translator_refuted :
  exists (files files' : list (bytes * mx_src)) n,
    NoDup (map fst files) /\ Permutation files files' /\
    lookup n (load_shared mx_src (list bytes) (list (bytes * bytes)) mx_translate_st [] files)
    <> lookup n (load_shared mx_src (list bytes) (list (bytes * bytes)) mx_translate_st [] files')
    /\ lookup n (load_shared mx_src (list bytes) (list (bytes * bytes)) mx_translate_st [] files)
       <> lookup n (load_shared mx_src (list bytes) (list (bytes * bytes)) mx_translate_st [] [(B "cart", mx_cart)]).
Proof.
  exists [(B "product", mx_product); (B "cart", mx_cart)], [(B "cart", mx_cart); (B "product", mx_product)], (B "cart").
  split; [|split; [apply perm_swap|split; vm_compute; discriminate]].
  constructor; [|constructor; [intros []|constructor]].
  intros [H|[]]. vm_compute in H. discriminate.
Qed.

(* ---- configurations: what an engine stores depends on its own function table and its own files ---- *)
Section ConfigProofs.
  Variable src tpl cfg : Type.
  Variable translate : cfg -> src -> tpl.
  Variable exec_state : Type.
  Variable new_exec : tpl -> gdata -> exec_state.
  Variable run_exec : exec_state -> exec_state.
  Variable output : exec_state -> option bytes.
  Notation run := (run tpl exec_state new_exec run_exec output).
  Notation load_all := (load_all src tpl cfg translate).

  Lemma nth_load_all (es : list (cfg * list (bytes * src))) i :
    nth_error (load_all es) i = option_map (load_cfg src tpl cfg translate) (nth_error es i).
  Proof. unfold Purity.load_all. apply nth_error_map. Qed.

  (* two processes, each with ANY engines loaded before and after; an engine with configuration c whose
     directory holds the same file under the requested name answers alike in both *)
  Lemma other_engines_independent (es es' : list (cfg * list (bytes * src))) i j c files files' ts ts' st st' rs rs' n d :
    nth_error es i = Some (c, files) -> nth_error es' j = Some (c, files') ->
    lookup n files = lookup n files' ->
    nth_error (load_all es) i = Some ts -> nth_error (load_all es') j = Some ts' ->
    resp tpl (run (mk_engine tpl ts st) (rs ++ [mk_request n d]))
    = resp tpl (run (mk_engine tpl ts' st') (rs' ++ [mk_request n d])).
  Proof.
    intros Hi Hj Hl Hts Hts'.
    rewrite nth_load_all, Hi in Hts. rewrite nth_load_all, Hj in Hts'. simpl in Hts, Hts'.
    inversion Hts; inversion Hts'; subst. unfold load_cfg. simpl.
    apply sibling_independent. exact Hl.
  Qed.
End ConfigProofs.

(* non-vacuity and the variant: the shop area passes `motto` in the page data, in the blog area it is a
   template function; both have a template `page` that reads the name *)
Definition fn_shop : list bytes * list (bytes * list bytes) := ([], [(B "page", [B "motto"])]).
Definition fn_blog : list bytes * list (bytes * list bytes) := ([B "motto"], [(B "page", [B "motto"])]).
Example load_all_example :
  load_all (list bytes) (list bytes) (list bytes) fn_translate [fn_shop; fn_blog]
  = [[(B "page", [B "$motto"])]; [(B "page", [B "motto"])]].
Proof. vm_compute. reflexivity. Qed.

(* with a process-wide table of finished translations that is keyed by the source text alone, what the
   blog engine stores depends on whether the shop engine was loaded before it *)
Lemma translation_memo_refuted :
  exists (e0 e1 : list bytes * list (bytes * list bytes)) n,
    lookup n (nth 1 (load_all_memo (list bytes) (list bytes) (list bytes) fn_translate names_eqb [] [e0; e1]) [])
    <> lookup n (nth 0 (load_all_memo (list bytes) (list bytes) (list bytes) fn_translate names_eqb [] [e1]) [])
    /\ lookup n (nth 1 (load_all (list bytes) (list bytes) (list bytes) fn_translate [e0; e1]) [])
       = lookup n (nth 0 (load_all (list bytes) (list bytes) (list bytes) fn_translate [e1]) []).
Proof.
  exists fn_shop, fn_blog, (B "page"). split.
  - intros H. vm_compute in H. discriminate.
  - vm_compute. reflexivity.
Qed.

(* ---- results: a reader returns the bytes of its render whenever it is read ---- *)
Section ResultProofs.
  Variable tpl : Type.
  Variable exec_state : Type.
  Variable new_exec : tpl -> gdata -> exec_state.
  Variable run_exec : exec_state -> exec_state.
  Variable output : exec_state -> option bytes.
  Notation pstep := (pstep tpl exec_state new_exec run_exec output).
  Notation prun := (prun tpl exec_state new_exec run_exec output).
  Notation rstep := (rstep tpl exec_state new_exec run_exec output).
  Notation rrun := (rrun tpl exec_state new_exec run_exec output).

  (* invariant of rrun: the buffers allocated so far keep their content, the engines go the way of prun *)
  Lemma rrun_spec : forall irs (s : rproc tpl) (last : response),
    rp_engines tpl (rrun s irs) = fst (fold_left (fun s ir => pstep (fst s) ir) irs (rp_engines tpl s, last))
    /\ exists more, rp_bufs tpl (rrun s irs) = rp_bufs tpl s ++ more /\ length more = length irs.
  Proof.
    induction irs as [|ir irs IH]; intros s last; simpl.
    - split; [reflexivity|]. exists []. rewrite app_nil_r. split; reflexivity.
    - destruct (IH (rstep s ir) (snd (pstep (rp_engines tpl s) ir))) as [He [more [Hb Hl]]].
      split.
      + unfold Purity.rrun in *. rewrite He. unfold Purity.rstep at 1. simpl.
        rewrite <- surjective_pairing. reflexivity.
      + exists (snd (pstep (rp_engines tpl s) ir) :: more). split; [|simpl; rewrite Hl; reflexivity].
        unfold Purity.rrun in *. rewrite Hb. simpl. rewrite <- app_assoc. reflexivity.
  Qed.

  (* the result of request (i, r), made after irs, read after any further renders [later] *)
  Lemma late_read (p : process tpl) bufs irs i r later :
    rread tpl (rrun (mk_rproc tpl p bufs) (irs ++ (i, r) :: later)) (length bufs + length irs)
    = Some (presp tpl (prun p (irs ++ [(i, r)]))).
  Proof.
    unfold Purity.rrun, rread. rewrite fold_left_app. simpl.
    destruct (rrun_spec irs (mk_rproc tpl p bufs) RNone) as [He [more [Hb Hl]]]. simpl in *.
    unfold Purity.rrun in *.
    set (s1 := fold_left rstep irs (mk_rproc tpl p bufs)) in *.
    destruct (rrun_spec later (rstep s1 (i, r)) RNone) as [_ [more2 [Hb2 _]]].
    unfold Purity.rrun in Hb2. rewrite Hb2. unfold Purity.rstep at 1. simpl.
    rewrite Hb. rewrite <- !app_assoc.
    rewrite nth_error_app2 by lia. rewrite nth_error_app2 by lia.
    replace (length bufs + length irs - length bufs - length more) with 0 by lia. simpl.
    unfold Purity.prun, presp. rewrite fold_left_app. simpl. rewrite He. reflexivity.
  Qed.

  (* ... is what the request is answered by any engine with the same templates, in any process, after any history *)
  Lemma late_read_independent (p p' : process tpl) bufs irs irs' later i j r :
    option_map (templates tpl) (nth_error p i) = option_map (templates tpl) (nth_error p' j) ->
    rread tpl (rrun (mk_rproc tpl p bufs) (irs ++ (i, r) :: later)) (length bufs + length irs)
    = Some (presp tpl (prun p' (irs' ++ [(j, r)]))).
  Proof.
    intros H. rewrite late_read. f_equal.
    apply process_history_independent. exact H.
  Qed.
End ResultProofs.

(* with one recycled buffer the statement is false: the first result, read after a second render *)
Lemma pooled_buffer_refuted :
  exists (p : process bytes) (r1 r2 : nat * request),
    let new_exec := fun (t : bytes) (d : gdata) => t in
    let run_exec := fun (s : bytes) => s in
    let output := fun (s : bytes) => Some s in
    rread_pooled bytes (rrun_pooled bytes bytes new_exec run_exec output (mk_rproc bytes p []) [r1; r2]) 0
    <> Some (presp bytes (prun bytes bytes new_exec run_exec output p [r1]))
    /\ rread bytes (rrun bytes bytes new_exec run_exec output (mk_rproc bytes p []) [r1; r2]) 0
       = Some (presp bytes (prun bytes bytes new_exec run_exec output p [r1])).
Proof.
  exists [mk_engine bytes [(B "a", B "<p>alice</p>"); (B "b", B "<p>carol</p>")] []],
         (0, mk_request (B "a") GNil), (0, mk_request (B "b") GNil).
  split; vm_compute; [discriminate|reflexivity].
Qed.

(* ======================================================================== (c) aliasing *)

Definition fresh (n0 : nat) (v : mval) : Prop := match v with MRef a => n0 <= a | _ => True end.
Definition cell_fresh (n0 : nat) (c : cell) : Prop :=
  match c with
  | CArr l => Forall (fresh n0) l
  | CMap it _ => Forall (fun kv => fresh n0 (snd kv)) it
  | CPtr v => fresh n0 v
  end.

(* the invariant: caller's cells unchanged; everything a template holds or stored points above *)
Record inv (g : store) (s : tstate) : Prop := mk_inv {
  inv_pre   : firstn (length g) (t_mem s) = g;
  inv_env   : Forall (fresh (length g)) (t_env s);
  inv_cells : Forall (cell_fresh (length g)) (skipn (length g) (t_mem s));
}.

Lemma inv_len g s : inv g s -> length g <= length (t_mem s).
Proof.
  intros [H _ _]. apply (f_equal (@length cell)) in H. rewrite firstn_length in H. lia.
Qed.

Lemma firstn_mset : forall (m : store) n a c, n <= a -> firstn n (mset m a c) = firstn n m.
Proof.
  induction m as [|x m IH]; intros n a c H; [destruct a; reflexivity|].
  destruct a as [|a]; simpl.
  - assert (n = 0) by lia. subst. reflexivity.
  - destruct n as [|n]; [reflexivity|]. simpl. f_equal. apply IH. lia.
Qed.

Lemma skipn_mset : forall (m : store) n a c, n <= a -> skipn n (mset m a c) = mset (skipn n m) (a - n) c.
Proof.
  induction m as [|x m IH]; intros n a c H.
  - destruct a, n; reflexivity.
  - destruct n as [|n]; [rewrite Nat.sub_0_r; reflexivity|].
    destruct a as [|a]; [lia|]. simpl. apply IH. lia.
Qed.

Lemma Forall_mset (P : cell -> Prop) : forall m a c, Forall P m -> P c -> Forall P (mset m a c).
Proof.
  induction m as [|x m IH]; intros a c HF Hc; [destruct a; constructor|].
  inversion HF; subst. destruct a; simpl; constructor; auto.
Qed.

Lemma length_mset : forall (m : store) a c, length (mset m a c) = length m.
Proof. induction m as [|x m IH]; intros [|k] c; simpl; auto. Qed.

Lemma nth_fresh n0 l i : Forall (fresh n0) l -> fresh n0 (nth i l MNil).
Proof.
  revert i. induction l as [|x l IH]; intros [|i] H; simpl; try exact I; inversion H; subst; auto.
Qed.

Lemma env_get_fresh g s i : inv g s -> fresh (length g) (env_get s i).
Proof. intros H. apply nth_fresh, H. Qed.

Lemma cell_at_fresh g s a c :
  inv g s -> length g <= a -> nth_error (t_mem s) a = Some c -> cell_fresh (length g) c.
Proof.
  intros H Ha Hn. pose proof (inv_cells g s H) as HC. rewrite Forall_forall in HC. apply HC.
  pose proof (inv_len g s H) as HL.
  assert (FL : length (firstn (length g) (t_mem s)) = length g) by (rewrite firstn_length; lia).
  rewrite <- (firstn_skipn (length g) (t_mem s)) in Hn.
  rewrite nth_error_app2 in Hn by (rewrite FL; exact Ha).
  apply nth_error_In in Hn. exact Hn.
Qed.

Lemma inv_push_env g s v : inv g s -> fresh (length g) v -> inv g (push_env s v).
Proof.
  intros [H1 H2 H3] Hv. constructor; simpl; auto.
  apply Forall_app. split; [exact H2|constructor; [exact Hv|constructor]].
Qed.

Lemma inv_write g s a c : inv g s -> length g <= a -> cell_fresh (length g) c -> inv g (write s a c).
Proof.
  intros [H1 H2 H3] Ha Hc. constructor; simpl.
  - rewrite firstn_mset by exact Ha. exact H1.
  - exact H2.
  - rewrite skipn_mset by exact Ha. apply Forall_mset; assumption.
Qed.

Lemma inv_append g m env ext v :
  inv g (mk_tstate m env) -> Forall (cell_fresh (length g)) ext -> fresh (length g) v ->
  inv g (mk_tstate (m ++ ext) (env ++ [v])).
Proof.
  intros H Hext Hv. pose proof (inv_len g _ H) as HL. destruct H as [H1 H2 H3]. simpl in *.
  constructor; simpl.
  - rewrite firstn_app. replace (length g - length m) with 0 by lia.
    rewrite firstn_O, app_nil_r. exact H1.
  - apply Forall_app. split; [exact H2|constructor; [exact Hv|constructor]].
  - rewrite skipn_app. replace (length g - length m) with 0 by lia. simpl.
    apply Forall_app. split; assumption.
Qed.

Lemma inv_alloc_push g s c : inv g s -> cell_fresh (length g) c -> inv g (alloc_push s c).
Proof.
  intros H Hc. pose proof (inv_len g s H) as HL. destruct s as [m env]. unfold alloc_push, malloc. simpl.
  apply inv_append; [exact H|constructor; [exact Hc|constructor]|simpl in *; lia].
Qed.

(* convert only appends cells, and everything it returns or stores points at or above [n0] *)
Lemma conv_list_spec n0 (cv : store -> mval -> mval * store) :
  (forall m v, n0 <= length m ->
     exists ext, snd (cv m v) = m ++ ext /\ fresh n0 (fst (cv m v)) /\ Forall (cell_fresh n0) ext) ->
  forall l m, n0 <= length m ->
    exists ext, snd (conv_list cv m l) = m ++ ext /\ Forall (fresh n0) (fst (conv_list cv m l))
                /\ Forall (cell_fresh n0) ext.
Proof.
  intros Hcv. induction l as [|x t IH]; intros m Hm; simpl.
  - exists []. rewrite app_nil_r. repeat split; constructor.
  - destruct (Hcv m x Hm) as (e1 & E1 & F1 & C1).
    destruct (IH (snd (cv m x))) as (e2 & E2 & F2 & C2); [rewrite E1, app_length; lia|].
    exists (e1 ++ e2). split; [rewrite E2, E1, app_assoc; reflexivity|]. split.
    + constructor; assumption.
    + apply Forall_app; split; assumption.
Qed.

Lemma conv_items_spec n0 (cv : store -> mval -> mval * store) :
  (forall m v, n0 <= length m ->
     exists ext, snd (cv m v) = m ++ ext /\ fresh n0 (fst (cv m v)) /\ Forall (cell_fresh n0) ext) ->
  forall l m, n0 <= length m ->
    exists ext, snd (conv_items cv m l) = m ++ ext
                /\ Forall (fun kv => fresh n0 (snd kv)) (fst (conv_items cv m l))
                /\ Forall (cell_fresh n0) ext.
Proof.
  intros Hcv. induction l as [|x t IH]; intros m Hm; simpl.
  - exists []. rewrite app_nil_r. repeat split; constructor.
  - destruct (Hcv m (snd x) Hm) as (e1 & E1 & F1 & C1).
    destruct (IH (snd (cv m (snd x)))) as (e2 & E2 & F2 & C2); [rewrite E1, app_length; lia|].
    exists (e1 ++ e2). split; [rewrite E2, E1, app_assoc; reflexivity|]. split.
    + constructor; assumption.
    + apply Forall_app; split; assumption.
Qed.

Lemma mconvert_spec n0 : forall fuel m v, n0 <= length m ->
  exists ext, snd (mconvert fuel m v) = m ++ ext /\ fresh n0 (fst (mconvert fuel m v))
              /\ Forall (cell_fresh n0) ext.
Proof.
  induction fuel as [|f IH]; intros m v Hm;
    (destruct v as [| | | |a]; try (exists []; simpl; rewrite app_nil_r; repeat split; constructor)).
  simpl. destruct (nth_error m a) as [[l|items order|v']|].
  + destruct (conv_list_spec n0 (mconvert f) IH l m Hm) as (e & E & F & C).
    exists (e ++ [CArr (fst (conv_list (mconvert f) m l))]). simpl. rewrite E, app_assoc.
    repeat split.
    * rewrite app_length. lia.
    * apply Forall_app; split; [exact C|constructor; [exact F|constructor]].
  + destruct (conv_items_spec n0 (mconvert f) IH items m Hm) as (e & E & F & C).
    exists (e ++ [CMap (fst (conv_items (mconvert f) m items)) order]). simpl. rewrite E, app_assoc.
    repeat split.
    * rewrite app_length. lia.
    * apply Forall_app; split; [exact C|constructor; [exact F|constructor]].
  + apply IH. exact Hm.
  + exists []. simpl. rewrite app_nil_r. repeat split; constructor.
Qed.

(* ---- the fuel is enough: on a store without forward references (built bottom-up, hence acyclic)
   converting cell a with fuel a+1 already copies everything; more fuel changes nothing *)
Lemma wf_store_from_nth : forall g n i c,
  wf_store_from n g = true -> nth_error g i = Some c -> cell_refs_below (n + i) c = true.
Proof.
  induction g as [|x g IH]; intros n i c H E; [destruct i; discriminate|].
  simpl in H. apply andb_true_iff in H. destruct H as [H1 H2].
  destruct i as [|i]; simpl in E.
  - inversion E; subst. rewrite Nat.add_0_r. exact H1.
  - replace (n + S i) with (S n + i) by lia. apply (IH _ _ _ H2 E).
Qed.

Lemma mconvert_scalar f m v : (forall a, v <> MRef a) -> mconvert f m v = (v, m).
Proof. intros H. destruct f, v; try reflexivity; exfalso; eapply H; reflexivity. Qed.

Lemma mconvert_appends f m v : exists e, snd (mconvert f m v) = m ++ e.
Proof. destruct (mconvert_spec 0 f m v (Nat.le_0_l _)) as (e & E & _). exists e. exact E. Qed.

Lemma mconvert_fuel_enough g : wf_store g = true ->
  forall a, a < length g -> forall f ext, S a <= f ->
    mconvert f (g ++ ext) (MRef a) = mconvert (S a) (g ++ ext) (MRef a).
Proof.
  intros WF a. induction a as [a IHa] using lt_wf_ind. intros Ha f ext Hf.
  destruct f as [|f]; [lia|]. simpl.
  rewrite nth_error_app1 by exact Ha.
  destruct (nth_error g a) as [c|] eqn:E; [|reflexivity].
  pose proof (wf_store_from_nth g 0 a c WF E) as RB. simpl in RB.
  assert (EL : forall x ext', refs_below a x = true ->
                 mconvert f (g ++ ext') x = mconvert a (g ++ ext') x).
  { intros x ext' Hx. destruct x as [| | | |b];
      try (rewrite !mconvert_scalar; [reflexivity|intros ? ?; discriminate|intros ? ?; discriminate]).
    simpl in Hx. apply Nat.ltb_lt in Hx.
    rewrite (IHa b Hx (Nat.lt_trans _ _ _ Hx Ha) f ext') by lia.
    rewrite (IHa b Hx (Nat.lt_trans _ _ _ Hx Ha) a ext') by lia. reflexivity. }
  destruct c as [l|items order|v'].
  - assert (CL : forall l ext', forallb (refs_below a) l = true ->
                   conv_list (mconvert f) (g ++ ext') l = conv_list (mconvert a) (g ++ ext') l).
    { induction l0 as [|x t IHl]; intros ext' Hl; simpl; [reflexivity|].
      simpl in Hl. apply andb_true_iff in Hl. destruct Hl as [Hx Ht].
      rewrite (EL x ext' Hx).
      destruct (mconvert_appends a (g ++ ext') x) as (e & Ee). rewrite Ee, <- app_assoc.
      rewrite (IHl (ext' ++ e) Ht). reflexivity. }
    simpl in RB. rewrite (CL l ext RB). reflexivity.
  - assert (CI : forall l ext', forallb (fun kv => refs_below a (snd kv)) l = true ->
                   conv_items (mconvert f) (g ++ ext') l = conv_items (mconvert a) (g ++ ext') l).
    { induction l as [|x t IHl]; intros ext' Hl; simpl; [reflexivity|].
      simpl in Hl. apply andb_true_iff in Hl. destruct Hl as [Hx Ht].
      rewrite (EL (snd x) ext' Hx).
      destruct (mconvert_appends a (g ++ ext') (snd x)) as (e & Ee). rewrite Ee, <- app_assoc.
      rewrite (IHl (ext' ++ e) Ht). reflexivity. }
    simpl in RB. rewrite (CI items ext RB). reflexivity.
  - simpl in RB. apply (EL v' ext RB).
Qed.

(* list helpers: the values an operation stores come from where it read them *)
Lemma Forall_removelast {A} (P : A -> Prop) l : Forall P l -> Forall P (removelast l).
Proof.
  induction l as [|x l IH]; intros H; [constructor|]. inversion H; subst.
  simpl. destruct l; [constructor|]. constructor; auto.
Qed.
Lemma Forall_tl {A} (P : A -> Prop) l : Forall P l -> Forall P (tl l).
Proof. intros H. destruct l; [constructor|]. inversion H; assumption. Qed.
Lemma Forall_firstn' {A} (P : A -> Prop) : forall n l, Forall P l -> Forall P (firstn n l).
Proof.
  induction n; intros l H; [constructor|]. destruct l; [constructor|]. inversion H; subst.
  simpl. constructor; auto.
Qed.
Lemma Forall_skipn' {A} (P : A -> Prop) : forall n l, Forall P l -> Forall P (skipn n l).
Proof.
  induction n; intros l H; [exact H|]. destruct l; [constructor|]. inversion H; subst. simpl. auto.
Qed.
Lemma last_fresh n0 l : Forall (fresh n0) l -> fresh n0 (last l MNil).
Proof.
  induction l as [|x l IH]; intros H; [exact I|]. inversion H; subst.
  simpl. destruct l; [assumption|]. apply IH. assumption.
Qed.
Lemma hd_fresh n0 l : Forall (fresh n0) l -> fresh n0 (hd MNil l).
Proof. intros H. destruct l; [exact I|]. inversion H; assumption. Qed.

Lemma Forall_insert_sorted {A} (P : A -> Prop) lt x : forall l, P x -> Forall P l -> Forall P (insert_sorted lt x l).
Proof.
  induction l as [|y l IH]; intros Hx H; simpl; [constructor; auto|].
  inversion H; subst. destruct (lt x y); constructor; auto.
Qed.
Lemma Forall_sort_by {A} (P : A -> Prop) lt l : Forall P l -> Forall P (sort_by lt l).
Proof.
  unfold sort_by. induction 1; simpl; [constructor|]. apply Forall_insert_sorted; assumption.
Qed.

Lemma Forall_fm_insert {A} (P : bytes * A -> Prop) k v :
  forall m, P (k, v) -> Forall P m -> Forall P (fm_insert k v m).
Proof.
  induction m as [|[k' v'] r IH]; intros Hk H; simpl; [constructor; auto|].
  inversion H; subst.
  destruct (bytes_ltb k k'); [constructor; auto|].
  destruct (beqb k k'); constructor; auto.
Qed.

Lemma lookup_In {A} k (m : list (bytes * A)) v : lookup k m = Some v -> In (k, v) m.
Proof.
  induction m as [|[k' v'] r IH]; simpl; [discriminate|].
  destruct (beqb k k') eqn:E.
  - apply beqb_eq in E. subst. intros H. inversion H. left. reflexivity.
  - intros H. right. apply IH. exact H.
Qed.

Lemma Forall_visit {A} (P : A -> Prop) (items : list (bytes * A)) ks :
  Forall (fun kv => P (snd kv)) items -> Forall (fun kv => P (snd kv)) (visit items ks).
Proof.
  intros H. unfold visit. induction ks as [|k ks IH]; simpl; [constructor|].
  destruct (lookup k items) eqn:E; simpl; [|exact IH].
  constructor; [|exact IH]. rewrite Forall_forall in H. apply (H (k, a)). apply lookup_In. exact E.
Qed.

Lemma object_assign_fresh n0 (t s : list (bytes * mval) * list bytes) :
  Forall (fun kv => fresh n0 (snd kv)) (fst t) -> Forall (fun kv => fresh n0 (snd kv)) (fst s) ->
  Forall (fun kv => fresh n0 (snd kv)) (fst (object_assign_site id_oracle t s)).
Proof.
  intros Ht Hs. unfold object_assign_site.
  pose proof (Forall_visit (fresh n0) (fst s) (keys_site id_oracle (fst s) (snd s)) Hs) as HV.
  revert t Ht. induction HV as [|kv l Hkv _ IH]; intros t Ht; simpl; [exact Ht|].
  apply IH. unfold map_assign. simpl. apply Forall_fm_insert; assumption.
Qed.

Lemma arr_at_spec g s i a l :
  inv g s -> arr_at s i = Some (a, l) -> length g <= a /\ Forall (fresh (length g)) l.
Proof.
  intros H E. unfold arr_at in E. pose proof (env_get_fresh g s i H) as HF.
  destruct (env_get s i) as [| | | |a']; try discriminate.
  destruct (nth_error (t_mem s) a') as [[l'| |]|] eqn:EN; try discriminate.
  inversion E; subst. split; [exact HF|]. apply (cell_at_fresh g s a (CArr l) H HF EN).
Qed.

Lemma map_at_spec g s i a t :
  inv g s -> map_at s i = Some (a, t) ->
  length g <= a /\ Forall (fun kv => fresh (length g) (snd kv)) (fst t).
Proof.
  intros H E. unfold map_at in E. pose proof (env_get_fresh g s i H) as HF.
  destruct (env_get s i) as [| | | |a']; try discriminate.
  destruct (nth_error (t_mem s) a') as [[|it o|]|] eqn:EN; try discriminate.
  inversion E; subst. split; [exact HF|]. apply (cell_at_fresh g s a (CMap it o) H HF EN).
Qed.

Lemma tstep_inv g s o : inv g s -> inv g (tstep (length g) s o).
Proof.
  intros H. destruct o; simpl.
  - (* OConvert *)
    destruct v as [| | | |a]; try (apply inv_push_env; [exact H|exact I]).
    destruct (Nat.ltb a (length g)); [|exact H].
    destruct (mconvert_spec (length g) fuel (t_mem s) (MRef a) (inv_len g s H)) as (ext & E & F & C).
    rewrite E. destruct s as [m env]. apply inv_append; assumption.
  - destruct v; try (apply inv_push_env; [exact H|exact I]). exact H.
  - apply inv_alloc_push; [exact H|constructor].
  - apply inv_alloc_push; [exact H|constructor].
  - (* OMember *)
    destruct (map_at s i) as [[a [it o]]|] eqn:E; [|exact H].
    destruct (map_at_spec g s i a (it, o) H E) as [_ HF]. apply inv_push_env; [exact H|].
    destruct (lookup k it) eqn:EL; [|exact I].
    simpl in HF. rewrite Forall_forall in HF. apply (HF (k, m)). apply lookup_In. exact EL.
  - destruct (arr_at s i) as [[a l]|] eqn:E; [|exact H].
    destruct (arr_at_spec g s i a l H E) as [_ HF]. apply inv_push_env; [exact H|apply nth_fresh; exact HF].
  - destruct (arr_at s i) as [[a l]|] eqn:E; [|exact H].
    destruct (arr_at_spec g s i a l H E) as [Ha HF]. apply inv_write; [exact H|exact Ha|].
    simpl. apply Forall_app. split; [exact HF|constructor; [apply env_get_fresh; exact H|constructor]].
  - destruct (arr_at s i) as [[a l]|] eqn:E; [|exact H].
    destruct (arr_at_spec g s i a l H E) as [Ha HF]. apply inv_write; [exact H|exact Ha|].
    simpl. constructor; [apply env_get_fresh; exact H|exact HF].
  - destruct (arr_at s i) as [[a l]|] eqn:E; [|exact H].
    destruct (arr_at_spec g s i a l H E) as [Ha HF].
    apply inv_push_env; [apply inv_write; [exact H|exact Ha|apply Forall_removelast; exact HF]|].
    apply last_fresh; exact HF.
  - destruct (arr_at s i) as [[a l]|] eqn:E; [|exact H].
    destruct (arr_at_spec g s i a l H E) as [Ha HF].
    apply inv_push_env; [apply inv_write; [exact H|exact Ha|apply Forall_tl; exact HF]|].
    apply hd_fresh; exact HF.
  - destruct (arr_at s i) as [[a l]|] eqn:E; [|exact H].
    destruct (arr_at_spec g s i a l H E) as [Ha HF].
    apply inv_write; [exact H|exact Ha|apply Forall_sort_by; exact HF].
  - destruct (arr_at s i) as [[a l]|] eqn:E; [|exact H].
    destruct (arr_at_spec g s i a l H E) as [Ha HF].
    apply inv_alloc_push; [apply inv_write; [exact H|exact Ha|apply Forall_firstn'; exact HF]|].
    apply Forall_skipn'; exact HF.
  - destruct (arr_at s i) as [[a l]|] eqn:E; [|exact H].
    destruct (arr_at_spec g s i a l H E) as [Ha HF].
    apply inv_alloc_push; [exact H|apply Forall_skipn'; exact HF].
  - (* OSetKey *)
    destruct (map_at s i) as [[a t]|] eqn:E; [|exact H].
    destruct (map_at_spec g s i a t H E) as [Ha HF].
    apply inv_write; [exact H|exact Ha|]. simpl.
    apply Forall_fm_insert; [apply env_get_fresh; exact H|exact HF].
  - (* OObjAssign *)
    destruct (map_at s i) as [[a t]|] eqn:E1; [|exact H].
    destruct (map_at s j) as [[b src]|] eqn:E2; [|exact H].
    destruct (map_at_spec g s i a t H E1) as [Ha HFt].
    destruct (map_at_spec g s j b src H E2) as [Hb HFs].
    apply inv_write; [apply inv_write; [exact H|exact Hb|exact HFs]|exact Ha|].
    simpl. apply object_assign_fresh; assumption.
Qed.

Lemma trun_inv g ops : forall s, inv g s -> inv g (trun (length g) ops s).
Proof.
  induction ops as [|o ops IH]; intros s H; simpl; [exact H|]. apply IH, tstep_inv, H.
Qed.

Lemma init_inv g root fuel :
  inv g (mk_tstate (snd (mconvert fuel g root)) [fst (mconvert fuel g root)]).
Proof.
  destruct (mconvert_spec (length g) fuel g root (le_n _)) as (ext & E & F & C).
  rewrite E. constructor; simpl.
  - rewrite firstn_app, Nat.sub_diag, firstn_O, app_nil_r. apply firstn_all.
  - constructor; [exact F|constructor].
  - rewrite skipn_app, Nat.sub_diag, skipn_all. simpl. exact C.
Qed.

Lemma input_untouched g root fuel ops :
  gstore_after g (render_mem g root fuel ops) = g.
Proof.
  unfold gstore_after, render_mem. apply (inv_pre g _ (trun_inv g ops _ (init_inv g root fuel))).
Qed.

(* non-vacuity: a store with a struct holding a slice and a map, reached through a pointer; the
   template pushes, sorts, splices, assigns and Object.assign's - the copies change, the store does not *)
Definition sample_store : store :=
  [ CArr [MStr (B "c"); MStr (B "a"); MStr (B "b")];                 (* 0: Tags []string *)
    CMap [(B "x", MNum 1)] [];                                       (* 1: Attrs map *)
    CMap [(B "attrs", MRef 1); (B "tags", MRef 0)] [];               (* 2: the struct *)
    CPtr (MRef 2) ].                                                  (* 3: pointer to it *)

Definition sample_ops : list op :=
  [ OMember 0 (B "tags");      (* env 1 *)
    OSort 1; OLit (MNum 9); OPush 1 2; OSplice 1 1;
    OMember 0 (B "attrs");     (* env 4 *)
    OSetKey 4 (B "k") 2; ONewMap; OObjAssign 5 4; OSetKey 0 (B "name") 2; OPop 1; OShift 3 ].

Example sample_store_wf : wf_store sample_store = true.
Proof. vm_compute. reflexivity. Qed.

Example sample_ops_mutate :
  let s := render_mem sample_store (MRef 3) 4 sample_ops in
  gstore_after sample_store s = sample_store
  /\ skipn 4 (t_mem s) =
     [ CMap [(B "k", MNum 9); (B "x", MNum 1)] [B "k"; B "x"];      (* 4: copy of Attrs: k assigned; order cached by Object.assign *)
       CArr [];                                                     (* 5: copy of Tags after sort, push, splice, pop *)
       CMap [(B "attrs", MRef 4); (B "name", MNum 9); (B "tags", MRef 5)] [];   (* 6: copy of the struct *)
       CArr [MStr (B "c"); MNum 9];                                 (* 7: the spliced-off tail [b; c; 9] after shift *)
       CMap [(B "k", MNum 9); (B "x", MNum 1)] [] ].                (* 8: {} after Object.assign *)
Proof. vm_compute. split; reflexivity. Qed.

(* ---- values the conversion does not copy ---- *)
Lemma conv_list_ext (cv cv' : store -> mval -> mval * store) :
  (forall m v, cv m v = cv' m v) -> forall l m, conv_list cv m l = conv_list cv' m l.
Proof.
  intros H. induction l as [|x t IH]; intros m; simpl; [reflexivity|].
  rewrite H, IH. reflexivity.
Qed.
Lemma conv_items_ext (cv cv' : store -> mval -> mval * store) :
  (forall m v, cv m v = cv' m v) -> forall l m, conv_items cv m l = conv_items cv' m l.
Proof.
  intros H. induction l as [|x t IH]; intros m; simpl; [reflexivity|].
  rewrite H, IH. reflexivity.
Qed.

(* a conversion that keeps nothing is the conversion of the model *)
Lemma mconvert_keep_none : forall fuel m v, mconvert_keep (fun _ => false) fuel m v = mconvert fuel m v.
Proof.
  induction fuel as [|f IH]; intros m v; destruct v as [| | | |a]; try reflexivity.
  simpl. destruct (nth_error m a) as [[l|items order|v']|]; try reflexivity.
  - rewrite (conv_list_ext _ _ IH). reflexivity.
  - rewrite (conv_items_ext _ _ IH). reflexivity.
  - apply IH.
Qed.

Lemma render_mem_keep_none g root fuel ops :
  render_mem_keep (fun _ => false) g root fuel ops = render_mem g root fuel ops.
Proof. unfold render_mem_keep, render_mem. rewrite mconvert_keep_none. reflexivity. Qed.

Lemma input_untouched_keep_none g root fuel ops :
  gstore_after g (render_mem_keep (fun _ => false) g root fuel ops) = g.
Proof. rewrite render_mem_keep_none. apply input_untouched. Qed.

Lemma copy_all_untouched g root fuel ops :
  render_mem_keep (fun _ => false) g root fuel ops = render_mem g root fuel ops
  /\ gstore_after g (render_mem_keep (fun _ => false) g root fuel ops) = g.
Proof. split; [apply render_mem_keep_none|apply input_untouched_keep_none]. Qed.

(* the page data holds a list the caller converted itself (cell 0 is kept): the template reads it and
   sorts it - the caller's list is sorted *)
Definition shared_store : store :=
  [ CArr [MStr (B "pear"); MStr (B "fig"); MStr (B "apple")];      (* 0: tags, a *pugjs.Array / []pugjs.Object *)
    CMap [(B "tags", MRef 0)] [] ].                                (* 1: the page data, a Go map *)
Lemma shared_object_refuted :
  exists (keep : nat -> bool) (g : store) (root : mval) (fuel : nat) (ops : list op),
    wf_store g = true /\
    gstore_after g (render_mem_keep keep g root fuel ops) <> g
    /\ gstore_after g (render_mem g root fuel ops) = g.
Proof.
  exists (Nat.eqb 0), shared_store, (MRef 1), 2, [OMember 0 (B "tags"); OSort 1].
  split; [vm_compute; reflexivity|]. split.
  - intros H. vm_compute in H. discriminate.
  - apply input_untouched.
Qed.
