(* C13 — debug (pretty-source) mode changes white space only.
   Proofs about the shared template-pipeline model: Pug/Compile.v (the `debug` branches of CommonTag.render and JsExpr),
   Tmpl/IR.v (merge_text / apply_trims / lexed, parse_list / parse_top), Tmpl/Exec.v (exec_nodes ...).
   Chain: compile_tokens (debug tokens = production tokens + separator groups) -> lexed_related (after the lexer's
   trimming: texts differ by white space only, extra neutral {{- "" -}} actions) -> parse_program_rel (same tree shape)
   -> exec_congruence (equal frames and heaps, outputs related by white-space deletion) -> main_ws.
   The oracle [ws_subseq] / [erase_ws] is the one of Run/Judge_Core.v; white space = the lexer's " \t\r\n" = IR.is_space. *)
From PV Require Import Base.Bytes Base.Escape Js.Ast Tmpl.Value Tmpl.IR Tmpl.Runtime Tmpl.Exec Pug.Ast Pug.Compile
                       Proofs.ExecMono Run.Judge_Core.

(* ================================================================================================== *)
(* Part A  white-space-only difference of byte strings and the lexer's trimming *)
(* ================================================================================================== *)
(* [WsSub a b]: a is b with some white-space bytes (space, tab, CR, LF) deleted *)
Inductive WsSub : bytes -> bytes -> Prop :=
| ws_nil : WsSub [] []
| ws_keep x a b : WsSub a b -> WsSub (x :: a) (x :: b)
| ws_skip y a b : is_space y = true -> WsSub a b -> WsSub a (y :: b).

Lemma ws_subseq_sound b : forall a, ws_subseq a b = true -> WsSub a b.
Proof.
  induction b as [|y b IH]; intros a H.
  - destruct a; [constructor|discriminate].
  - destruct a as [|x a]; cbn [ws_subseq] in H.
    + destruct (is_space y) eqn:Ey; [|discriminate]. apply ws_skip; [exact Ey|apply IH; exact H].
    + destruct (Ascii.eqb x y) eqn:E.
      * apply Ascii.eqb_eq in E; subst y. apply ws_keep, IH, H.
      * destruct (is_space y) eqn:Ey; [|discriminate]. apply ws_skip; [exact Ey|apply IH; exact H].
Qed.

(* the greedy matcher loses nothing: dropping a leading white-space byte of a, or adding one in front of b *)
Lemma ws_subseq_greedy b :
  (forall a x, is_space x = true -> ws_subseq (x :: a) b = true -> ws_subseq a b = true) /\
  (forall a y, is_space y = true -> ws_subseq a b = true -> ws_subseq a (y :: b) = true).
Proof.
  assert (L2 : forall b, (forall a x, is_space x = true -> ws_subseq (x :: a) b = true -> ws_subseq a b = true) ->
                         forall a y, is_space y = true -> ws_subseq a b = true -> ws_subseq a (y :: b) = true).
  { intros b0 L1 a y Hy H. destruct a as [|x a]; cbn [ws_subseq].
    - rewrite Hy. exact H.
    - destruct (Ascii.eqb x y) eqn:E.
      + apply Ascii.eqb_eq in E; subst y. apply (L1 a x Hy H).
      + rewrite Hy. exact H. }
  induction b as [|y b [IH1 IH2]].
  - split; [|apply L2]; intros a x Hx H; discriminate.
  - assert (L1 : forall a x, is_space x = true -> ws_subseq (x :: a) (y :: b) = true -> ws_subseq a (y :: b) = true).
    { intros a x Hx H. cbn [ws_subseq] in H. destruct (Ascii.eqb x y) eqn:E.
      - apply Ascii.eqb_eq in E; subst y. apply IH2; assumption.
      - destruct (is_space y) eqn:Ey; [|discriminate]. apply IH2; [exact Ey|]. apply (IH1 a x Hx H). }
    split; [exact L1|apply L2; exact L1].
Qed.

Lemma ws_subseq_complete a b : WsSub a b -> ws_subseq a b = true.
Proof.
  induction 1 as [|x a b _ IH|y a b Hy _ IH].
  - reflexivity.
  - cbn [ws_subseq]. rewrite Ascii.eqb_refl. exact IH.
  - apply (proj2 (ws_subseq_greedy b)); assumption.
Qed.

Lemma ws_subseq_iff a b : ws_subseq a b = true <-> WsSub a b.
Proof. split; [apply ws_subseq_sound|apply ws_subseq_complete]. Qed.

Lemma WsSub_refl a : WsSub a a.
Proof. induction a; constructor; assumption. Qed.

Lemma WsSub_app a b c d : WsSub a b -> WsSub c d -> WsSub (a ++ c) (b ++ d).
Proof. induction 1; intros H2; cbn [app]; [exact H2|apply ws_keep; auto|apply ws_skip; auto]. Qed.

Lemma WsSub_trans b c : WsSub b c -> forall a, WsSub a b -> WsSub a c.
Proof.
  induction 1 as [|x b c _ IH|y b c Hy _ IH]; intros a H1.
  - exact H1.
  - inversion H1; subst.
    + apply ws_keep, IH; assumption.
    + apply ws_skip; [assumption|apply IH; assumption].
  - apply ws_skip; [exact Hy|apply IH; exact H1].
Qed.

Lemma WsSub_spaces l : forallb is_space l = true -> WsSub [] l.
Proof.
  induction l as [|c l IH]; intros H; [constructor|].
  cbn [forallb] in H. apply andb_true_iff in H. destruct H as [Hc Hl]. apply ws_skip; auto.
Qed.

Lemma WsSub_nil_l b : WsSub [] b -> forallb is_space b = true.
Proof.
  induction b as [|y b IH]; intros H; [reflexivity|].
  inversion H as [| |y' a' b' Hy Hr]; subst. cbn [forallb]. rewrite Hy. apply IH. exact Hr.
Qed.

(* the two readings the property statement gives of "white space only" *)
Lemma WsSub_erase a b : WsSub a b -> erase_ws a = erase_ws b.
Proof.
  unfold erase_ws. induction 1 as [|x a b _ IH|y a b Hy _ IH]; cbn [filter].
  - reflexivity.
  - rewrite IH. reflexivity.
  - rewrite Hy. exact IH.
Qed.

Lemma WsSub_In a b : WsSub a b -> forall c, In c a -> In c b.
Proof.
  induction 1 as [|x a b _ IH|y a b Hy _ IH]; intros c Hc.
  - exact Hc.
  - destruct Hc as [->|Hc]; [left; reflexivity|right; apply IH; exact Hc].
  - right. apply IH. exact Hc.
Qed.

Lemma WsSub_count a b : WsSub a b -> forall c, count_occ ascii_dec a c <= count_occ ascii_dec b c.
Proof.
  induction 1 as [|x a b _ IH|y a b Hy _ IH]; intros c; cbn [count_occ].
  - apply le_n.
  - destruct (ascii_dec x c); [apply le_n_S|]; apply IH.
  - destruct (ascii_dec y c); [apply le_S|]; apply IH.
Qed.

Lemma WsSub_count_ns a b : WsSub a b -> forall c, is_space c = false -> count_occ ascii_dec a c = count_occ ascii_dec b c.
Proof.
  induction 1 as [|x a b _ IH|y a b Hy _ IH]; intros c Hc; cbn [count_occ].
  - reflexivity.
  - destruct (ascii_dec x c); [f_equal|]; apply IH; exact Hc.
  - destruct (ascii_dec y c) as [->|]; [congruence|apply IH; exact Hc].
Qed.

Lemma WsSub_length a b : WsSub a b -> length a <= length b.
Proof. induction 1; cbn [length]; lia. Qed.

Lemma ws_subseq_erase a b : ws_subseq a b = true -> erase_ws a = erase_ws b.
Proof. intros H. apply WsSub_erase, ws_subseq_sound, H. Qed.
Lemma ws_subseq_no_new_byte a b : ws_subseq a b = true -> forall c, In c a -> In c b.
Proof. intros H. apply WsSub_In, ws_subseq_sound, H. Qed.
Lemma ws_subseq_no_more_bytes a b :
  ws_subseq a b = true -> forall c, count_occ ascii_dec a c <= count_occ ascii_dec b c.
Proof. intros H. apply WsSub_count, ws_subseq_sound, H. Qed.
Lemma ws_subseq_same_visible_bytes a b :
  ws_subseq a b = true -> forall c, is_space c = false -> count_occ ascii_dec a c = count_occ ascii_dec b c.
Proof. intros H. apply WsSub_count_ns, ws_subseq_sound, H. Qed.

(* ---- reversal ------------------------------------------------------------------------------------ *)
Lemma WsSub_rev a b : WsSub a b -> WsSub (rev a) (rev b).
Proof.
  induction 1 as [|x a b _ IH|y a b Hy _ IH]; cbn [rev].
  - constructor.
  - apply WsSub_app; [exact IH|apply WsSub_refl].
  - rewrite <- (app_nil_r (rev a)). apply WsSub_app; [exact IH|]. apply ws_skip; [exact Hy|constructor].
Qed.

(* ---- trimming ------------------------------------------------------------------------------------ *)
Lemma trim_left_sub s : WsSub (trim_left s) s.
Proof.
  induction s as [|c r IH]; [constructor|]. cbn [trim_left]. destruct (is_space c) eqn:E.
  - apply ws_skip; assumption.
  - apply WsSub_refl.
Qed.
Lemma trim_right_sub s : WsSub (trim_right s) s.
Proof.
  unfold trim_right. rewrite <- (rev_involutive s) at 2. apply WsSub_rev, trim_left_sub.
Qed.

Lemma trim_left_mono a b : WsSub a b -> WsSub (trim_left a) (trim_left b).
Proof.
  induction 1 as [|x a b H IH|y a b Hy H IH]; cbn [trim_left].
  - constructor.
  - destruct (is_space x); [exact IH|apply ws_keep; exact H].
  - rewrite Hy. exact IH.
Qed.
Lemma trim_right_mono a b : WsSub a b -> WsSub (trim_right a) (trim_right b).
Proof. intros H. unfold trim_right. apply WsSub_rev, trim_left_mono, WsSub_rev, H. Qed.

(* a white-space prefix of b is trimmed away on the left of a *)
Lemma trim_left_drop w : forallb is_space w = true -> forall a u, WsSub a (w ++ u) -> WsSub (trim_left a) u.
Proof.
  induction w as [|y w IH]; intros Hw a u H.
  - cbn [app] in H. eapply WsSub_trans; [exact H|apply trim_left_sub].
  - cbn [forallb] in Hw. apply andb_true_iff in Hw. destruct Hw as [Hy Hw]. cbn [app] in H.
    inversion H; subst.
    + cbn [trim_left]. rewrite Hy. apply IH; assumption.
    + apply IH; assumption.
Qed.
Lemma trim_right_drop w : forallb is_space w = true -> forall a u, WsSub a (u ++ w) -> WsSub (trim_right a) u.
Proof.
  intros Hw a u H. unfold trim_right. rewrite <- (rev_involutive u). apply WsSub_rev.
  apply (trim_left_drop (rev w)).
  - rewrite forallb_forall in *. intros x Hx. apply Hw. apply in_rev. exact Hx.
  - rewrite <- rev_app_distr. apply WsSub_rev. exact H.
Qed.

(* a string that does not begin (end) with white space *)
Definition nsp_head (s : bytes) : Prop := match s with [] => True | c :: _ => is_space c = false end.
Definition nsp_last (s : bytes) : Prop := nsp_head (rev s).

Lemma nsp_head_trim_left s : nsp_head (trim_left s).
Proof.
  induction s as [|c r IH]; [exact I|]. cbn [trim_left]. destruct (is_space c) eqn:E; [exact IH|exact E].
Qed.
Lemma nsp_last_trim_right s : nsp_last (trim_right s).
Proof. unfold nsp_last, trim_right. rewrite rev_involutive. apply nsp_head_trim_left. Qed.

Lemma nsp_head_app a b : nsp_head a -> nsp_head b -> nsp_head (a ++ b).
Proof. destruct a; intros Ha Hb; [exact Hb|exact Ha]. Qed.
Lemma nsp_last_app a b : nsp_last a -> nsp_last b -> nsp_last (a ++ b).
Proof. unfold nsp_last. rewrite rev_app_distr. intros Ha Hb. apply nsp_head_app; assumption. Qed.

Lemma trim_left_snoc a c : is_space c = false -> trim_left (a ++ [c]) = trim_left a ++ [c].
Proof.
  intros Hc. induction a as [|x a IH]; cbn [app trim_left].
  - rewrite Hc. reflexivity.
  - destruct (is_space x); [exact IH|reflexivity].
Qed.
Lemma trim_right_cons c s : is_space c = false -> trim_right (c :: s) = c :: trim_right s.
Proof.
  intros Hc. unfold trim_right. cbn [rev]. rewrite (trim_left_snoc _ _ Hc), rev_app_distr. reflexivity.
Qed.
Lemma nsp_head_trim_right s : nsp_head s -> nsp_head (trim_right s).
Proof.
  destruct s as [|c s]; intros H; [exact I|]. cbn [nsp_head] in H. rewrite (trim_right_cons _ _ H). exact H.
Qed.
Lemma nsp_last_trim_left s : nsp_last s -> nsp_last (trim_left s).
Proof.
  unfold nsp_last. intros H.
  assert (E : rev (trim_left s) = trim_right (rev s)) by (unfold trim_right; rewrite rev_involutive; reflexivity).
  rewrite E. apply nsp_head_trim_right, H.
Qed.

(* a that does not begin with white space is untouched by what the left trim removes from b *)
Lemma sub_trim_left a b : WsSub a b -> nsp_head a -> WsSub a (trim_left b).
Proof.
  induction 1 as [|x a b H IH|y a b Hy H IH]; intros Hh; cbn [trim_left].
  - constructor.
  - cbn [nsp_head] in Hh. rewrite Hh. apply ws_keep, H.
  - rewrite Hy. apply IH, Hh.
Qed.
Lemma sub_trim_right a b : WsSub a b -> nsp_last a -> WsSub a (trim_right b).
Proof.
  intros H Hl. unfold trim_right. rewrite <- (rev_involutive a). apply WsSub_rev.
  apply sub_trim_left; [apply WsSub_rev, H|exact Hl].
Qed.

(* conditional trims, as the lexer applies them *)
Definition tlb (b : bool) (s : bytes) : bytes := if b then trim_left s else s.
Definition trb (b : bool) (s : bytes) : bytes := if b then trim_right s else s.

Lemma tlb_sub b s : WsSub (tlb b s) s.
Proof. destruct b; [apply trim_left_sub|apply WsSub_refl]. Qed.
Lemma trb_sub b s : WsSub (trb b s) s.
Proof. destruct b; [apply trim_right_sub|apply WsSub_refl]. Qed.
Lemma tlb_mono k a b : WsSub a b -> WsSub (tlb k a) (tlb k b).
Proof. destruct k; [apply trim_left_mono|exact (fun H => H)]. Qed.
Lemma trb_mono k a b : WsSub a b -> WsSub (trb k a) (trb k b).
Proof. destruct k; [apply trim_right_mono|exact (fun H => H)]. Qed.

(* ---- the separator's two texts next to its trim markers -------------------------------------------
   u: text before the separator (prd: the action before u trims to the right), x: text after it (l: the action
   after x trims to the left); w1 / w2: the separator's own texts.  What the lexer leaves of
   u w1 {{- "" -}} w2 x  is what it leaves of  u x  minus white space. *)
Lemma sep_texts_trimmed w1 w2 :
  forallb is_space w1 = true -> forallb is_space w2 = true ->
  forall prd l u x,
    WsSub (trim_right (tlb prd (u ++ w1)) ++ trb l (trim_left (w2 ++ x))) (trb l (tlb prd (u ++ x))).
Proof.
  intros H1 H2 prd l u x.
  set (A := trim_right (tlb prd (u ++ w1))). set (Bx := trb l (trim_left (w2 ++ x))).
  assert (HA : WsSub A u).
  { unfold A. apply (trim_right_drop w1 H1). apply tlb_sub. }
  assert (HB : WsSub Bx x).
  { unfold Bx. eapply WsSub_trans; [|apply trb_sub]. apply (trim_left_drop w2 H2). apply WsSub_refl. }
  assert (Hsub : WsSub (A ++ Bx) (u ++ x)) by (apply WsSub_app; assumption).
  assert (Hhead : prd = true -> nsp_head (A ++ Bx)).
  { intros ->. apply nsp_head_app.
    - unfold A. cbn [tlb]. apply nsp_head_trim_right, nsp_head_trim_left.
    - unfold Bx. destruct l; cbn [trb]; [apply nsp_head_trim_right|]; apply nsp_head_trim_left. }
  assert (Hlast : l = true -> nsp_last (A ++ Bx)).
  { intros ->. apply nsp_last_app.
    - unfold A. apply nsp_last_trim_right.
    - unfold Bx. cbn [trb]. apply nsp_last_trim_right. }
  assert (Hl : WsSub (A ++ Bx) (tlb prd (u ++ x))).
  { destruct prd; cbn [tlb]; [apply sub_trim_left; [exact Hsub|apply Hhead; reflexivity]|exact Hsub]. }
  destruct l; cbn [trb]; [apply sub_trim_right; [exact Hl|apply Hlast; reflexivity]|exact Hl].
Qed.

(* ================================================================================================== *)
(* Part B  the lexer on a token list with separators inserted *)
(* ================================================================================================== *)
(* ---- [lexed] as one left-to-right pass with the pending text as accumulator ------------------------ *)
Definition flush_text (s : bytes) : list tok := match s with [] => [] | _ => [TText s] end.

Fixpoint lexa (pr : bool) (acc : bytes) (ts : list tok) : list tok :=
  match ts with
  | [] => flush_text (tlb pr acc)
  | TText s :: r => lexa pr (acc ++ s) r
  | TAct x l rt a :: r => flush_text (trb l (tlb pr acc)) ++ TAct x l rt a :: lexa rt [] r
  end.

Lemma merge_text_two a s r : merge_text (TText a :: TText s :: r) = merge_text (TText (a ++ s) :: r).
Proof.
  cbn [merge_text]. destruct (merge_text r) as [|[b|x l rt ac] r']; try reflexivity.
  rewrite app_assoc. reflexivity.
Qed.

Lemma apply_trims_act_any p q t r : (match t with TAct _ _ _ _ => True | _ => False end) ->
  apply_trims p (t :: r) = apply_trims q (t :: r).
Proof. destruct t; [intros []|reflexivity]. Qed.

Lemma apply_trims_empty_head p r : apply_trims p (merge_text (TText [] :: r)) = apply_trims p (merge_text r).
Proof.
  cbn [merge_text]. destruct (merge_text r) as [|[b|x l rt ac] r'] eqn:E.
  - destruct p; reflexivity.
  - reflexivity.
  - destruct p, l; reflexivity.
Qed.

Lemma lexa_spec ts : forall pr acc, apply_trims pr (merge_text (TText acc :: ts)) = lexa pr acc ts.
Proof.
  induction ts as [|t r IH]; intros pr acc.
  - cbn [merge_text apply_trims lexa]. unfold tlb, flush_text. destruct pr; [destruct (trim_left acc)|destruct acc]; reflexivity.
  - destruct t as [s|x l rt a].
    + rewrite merge_text_two. cbn [lexa]. apply IH.
    + cbn [lexa]. rewrite <- (IH rt []). rewrite apply_trims_empty_head.
      change (merge_text (TText acc :: TAct x l rt a :: r)) with (TText acc :: TAct x l rt a :: merge_text r).
      cbn [apply_trims act_ltrim act_rtrim]. unfold tlb, trb, flush_text.
      destruct pr, l; cbn [app];
        match goal with |- context [match ?e with [] => _ | _ :: _ => _ end] => destruct e end; reflexivity.
Qed.

Theorem lexed_lexa ts : lexed ts = lexa false [] ts.
Proof. unfold lexed. rewrite <- lexa_spec, apply_trims_empty_head. reflexivity. Qed.

(* ---- the relation between the two modes' token lists ----------------------------------------------
   debug list / production list: the same tokens, with separator groups inserted on the debug side and, on the
   production side, the line feeds production puts around the content of a multi-line script element *)
Definition neutral_act : act := AcPipe ([], [[AStr []]]).
Definition sp5 : bytes := B "     ".

Lemma sep_eq : sep = [TText sp5; TAct (B "{{- """" -}}") true true neutral_act; TText nl].
Proof. reflexivity. Qed.

Inductive sep_ins : list tok -> list tok -> Prop :=
| si_nil : sep_ins [] []
| si_cons t d p : sep_ins d p -> sep_ins (t :: d) (t :: p)
| si_sep d p : sep_ins d p -> sep_ins (sep ++ d) p
| si_pnl d p : sep_ins d p -> sep_ins d (TText nl :: p).

Lemma sep_ins_refl l : sep_ins l l.
Proof. induction l; constructor; assumption. Qed.
Lemma sep_ins_app a b c d : sep_ins a b -> sep_ins c d -> sep_ins (a ++ c) (b ++ d).
Proof.
  induction 1; intros H2; cbn [app].
  - exact H2.
  - apply si_cons; auto.
  - rewrite <- app_assoc. apply si_sep; auto.
  - apply si_pnl; auto.
Qed.

(* ---- lexed token lists: equal up to white space in texts and neutral actions on the debug side ------
   [trel a b d p]: a / b are the text bytes the debug / production side has produced since the last common action *)
Inductive trel : bytes -> bytes -> list tok -> list tok -> Prop :=
| trel_nil a b : WsSub a b -> trel a b [] []
| trel_dtext a b s d p : trel (a ++ s) b d p -> trel a b (TText s :: d) p
| trel_ptext a b s d p : trel a (b ++ s) d p -> trel a b d (TText s :: p)
| trel_neutral a b x l r d p : trel a b d p -> trel a b (TAct x l r neutral_act :: d) p
| trel_act a b x l r x' l' r' ac d p :
    WsSub a b -> trel [] [] d p -> trel a b (TAct x l r ac :: d) (TAct x' l' r' ac :: p).

Lemma trel_dflush a b s d p : trel (a ++ s) b d p -> trel a b (flush_text s ++ d) p.
Proof. destruct s; cbn [flush_text app]; [rewrite app_nil_r; exact (fun H => H)|apply trel_dtext]. Qed.
Lemma trel_pflush a b s d p : trel a (b ++ s) d p -> trel a b d (flush_text s ++ p).
Proof. destruct s; cbn [flush_text app]; [rewrite app_nil_r; exact (fun H => H)|apply trel_ptext]. Qed.

(* the invariant between the two accumulators inside one text run: e = debug text already flushed in this run *)
Definition acc_inv (e : bytes) (prd : bool) (accd : bytes) (prp : bool) (accp : bytes) : Prop :=
  forall x l, WsSub (e ++ trb l (tlb prd (accd ++ x))) (trb l (tlb prp (accp ++ x))).

Lemma acc_inv_start pr : acc_inv [] pr [] pr [].
Proof. intros x l. apply WsSub_refl. Qed.

Lemma acc_inv_text e prd accd prp accp s :
  acc_inv e prd accd prp accp -> acc_inv e prd (accd ++ s) prp (accp ++ s).
Proof. intros H x l. rewrite <- !app_assoc. apply H. Qed.

Lemma acc_inv_pws e prd accd prp accp w :
  forallb is_space w = true -> acc_inv e prd accd prp accp -> acc_inv e prd accd prp (accp ++ w).
Proof.
  intros Hw H x l. eapply WsSub_trans; [|apply H].
  apply trb_mono, tlb_mono. rewrite <- app_assoc. apply WsSub_app; [apply WsSub_refl|].
  rewrite <- (app_nil_l x) at 1. apply WsSub_app; [apply WsSub_spaces, Hw|apply WsSub_refl].
Qed.

Lemma acc_inv_sep e prd accd prp accp :
  acc_inv e prd accd prp accp ->
  acc_inv (e ++ trim_right (tlb prd (accd ++ sp5))) true nl prp accp.
Proof.
  intros H x l. eapply WsSub_trans; [apply H|]. rewrite <- app_assoc. apply WsSub_app; [apply WsSub_refl|].
  cbn [tlb]. apply (sep_texts_trimmed sp5 nl); reflexivity.
Qed.

Theorem lexa_sim d p : sep_ins d p ->
  forall e prd accd prp accp, acc_inv e prd accd prp accp ->
  trel e [] (lexa prd accd d) (lexa prp accp p).
Proof.
  induction 1 as [|t d p _ IH|d p _ IH|d p _ IH]; intros e prd accd prp accp J.
  - cbn [lexa]. rewrite <- (app_nil_r (flush_text (tlb prd accd))), <- (app_nil_r (flush_text (tlb prp accp))).
    apply trel_dflush, trel_pflush, trel_nil. cbn [app].
    specialize (J [] false). rewrite !app_nil_r in J. exact J.
  - destruct t as [s|x l rt a]; cbn [lexa].
    + apply IH, acc_inv_text, J.
    + apply trel_dflush, trel_pflush, trel_act.
      * cbn [app]. specialize (J [] l). rewrite !app_nil_r in J. exact J.
      * apply IH, acc_inv_start.
  - rewrite sep_eq. cbn [app lexa]. apply trel_dflush, trel_neutral.
    change (trb true (tlb prd (accd ++ sp5))) with (trim_right (tlb prd (accd ++ sp5))).
    apply IH, acc_inv_sep, J.
  - cbn [lexa]. apply IH, acc_inv_pws; [reflexivity|exact J].
Qed.

Theorem lexed_related d p : sep_ins d p -> trel [] [] (lexed d) (lexed p).
Proof. intros H. rewrite !lexed_lexa. apply lexa_sim; [exact H|apply acc_inv_start]. Qed.

(* what the lexer makes of one separator group: its first text is trimmed away together with the white space
   that ends the text before it, the action stays, its second text is trimmed away together with the white space
   that begins the text after it *)
Theorem lexa_sep pr acc r :
  lexa pr acc (sep ++ r) =
  flush_text (trim_right (tlb pr (acc ++ sp5))) ++ TAct (B "{{- """" -}}") true true neutral_act :: lexa true nl r.
Proof. reflexivity. Qed.

(* ================================================================================================== *)
(* Part C  executing related trees *)
(* ================================================================================================== *)
Definition neutral_pipe : tpipe := ([], [[AStr []]]).

(* the neutral action evaluates to the empty string, whatever the state *)
Lemma neutral_eval E h : eval_pipeline E h neutral_pipe = Ok (VGoStr [], h).
Proof. reflexivity. Qed.

(* kernel conversion must not unfold the fuelled evaluator (fuel 400) or the unary cap when re-checking proofs *)
Local Strategy opaque [eval_pipeline eval_cmds truthy while_cap].

(* ---- trees: same structure, texts equal up to white space, neutral actions on the debug side --------- *)
Inductive nrel : bytes -> bytes -> list tnode -> list tnode -> Prop :=
| nrel_nil a b : WsSub a b -> nrel a b [] []
| nrel_dtext a b s d p : nrel (a ++ s) b d p -> nrel a b (NText s :: d) p
| nrel_ptext a b s d p : nrel a (b ++ s) d p -> nrel a b d (NText s :: p)
| nrel_neutral a b d p : nrel a b d p -> nrel a b (NAction neutral_pipe :: d) p
| nrel_node a b nd np d p : WsSub a b -> node_rel nd np -> nrel [] [] d p -> nrel a b (nd :: d) (np :: p)
with node_rel : tnode -> tnode -> Prop :=
| nr_action p : node_rel (NAction p) (NAction p)
| nr_template n v a : node_rel (NTemplate n v a) (NTemplate n v a)
| nr_if p th th' el el' : nrel [] [] th th' -> nrel [] [] el el' -> node_rel (NIf p th el) (NIf p th' el')
| nr_range p b b' el el' : nrel [] [] b b' -> nrel [] [] el el' -> node_rel (NRange p b el) (NRange p b' el').

Definition def_rel (d p : bytes * list tnode) : Prop := fst d = fst p /\ nrel [] [] (snd d) (snd p).
Definition defs_rel (D P : list (bytes * list tnode)) : Prop := Forall2 def_rel D P.

Lemma Forall2_rev' {A B} (R : A -> B -> Prop) l l' : Forall2 R l l' -> Forall2 R (rev l) (rev l').
Proof.
  induction 1; cbn [rev]; [constructor|]. apply Forall2_app; [assumption|]. constructor; [assumption|constructor].
Qed.

Lemma lookup_rel name D P : Forall2 def_rel D P ->
  match lookup name D, lookup name P with
  | Some bd, Some bp => nrel [] [] bd bp
  | None, None => True
  | _, _ => False
  end.
Proof.
  induction 1 as [|[kd bd] [kp bp] D P [Hk Hb] _ IH]; cbn [lookup]; [exact I|].
  cbn [fst snd] in Hk, Hb. subst kp. destruct (beqb name kd); [exact Hb|exact IH].
Qed.

Lemma lookup_def_rel name D P : defs_rel D P ->
  match lookup_def D name, lookup_def P name with
  | Some bd, Some bp => nrel [] [] bd bp
  | None, None => True
  | _, _ => False
  end.
Proof. intros H. unfold lookup_def. apply lookup_rel, Forall2_rev', H. Qed.

(* ---- states: everything but the output equal ------------------------------------------------------- *)
Definition same (sd sp : xstate) : Prop := x_frames sd = x_frames sp /\ x_heap sd = x_heap sp.

Lemma same_cur sd sp : same sd sp -> cur sd = cur sp.
Proof. intros [H _]. unfold cur. rewrite H. reflexivity. Qed.
Lemma same_env sd sp dot : same sd sp -> env_of sd dot = env_of sp dot.
Proof. intros H. unfold env_of. rewrite (same_cur _ _ H). reflexivity. Qed.
Lemma same_heap sd sp : same sd sp -> x_heap sd = x_heap sp.
Proof. intros [_ H]. exact H. Qed.
Lemma same_set_heap sd sp h : same sd sp -> same (set_heap sd h) (set_heap sp h).
Proof. intros [H _]. split; [exact H|reflexivity]. Qed.
Lemma same_set_cur sd sp f : same sd sp -> same (set_cur sd f) (set_cur sp f).
Proof. intros [H1 H2]. split; cbn; [rewrite H1; reflexivity|exact H2]. Qed.
Lemma same_set_vars sd sp vs : same sd sp -> same (set_vars sd vs) (set_vars sp vs).
Proof. intros H. unfold set_vars. rewrite (same_cur _ _ H). apply same_set_cur, H. Qed.
Lemma same_emit sd sp a b : same sd sp -> same (emit sd a) (emit sp b).
Proof. intros H. exact H. Qed.

Lemma concat_bytes_app a b : concat_bytes (a ++ b) = concat_bytes a ++ concat_bytes b.
Proof. induction a as [|x a IH]; cbn [app concat_bytes]; [reflexivity|]. rewrite IH, app_assoc. reflexivity. Qed.
Lemma output_emit s t : output (emit s t) = output s ++ t.
Proof. unfold output. cbn [emit x_out rev]. rewrite concat_bytes_app. cbn [concat_bytes]. rewrite app_nil_r. reflexivity. Qed.
Lemma output_set_heap s h : output (set_heap s h) = output s.
Proof. reflexivity. Qed.
Lemma output_set_cur s f : output (set_cur s f) = output s.
Proof. reflexivity. Qed.
Lemma output_set_vars s vs : output (set_vars s vs) = output s.
Proof. reflexivity. Qed.

(* outputs with pending texts a (debug) and b (production) since the last point where they were compared *)
Definition orel (a b : bytes) (sd sp : xstate) : Prop :=
  exists od op, output sd = od ++ a /\ output sp = op ++ b /\ WsSub od op.

Lemma orel_done a b sd sp : orel a b sd sp -> WsSub a b -> orel [] [] sd sp.
Proof.
  intros [od [op [Hd [Hp H]]]] Hab. exists (od ++ a), (op ++ b). rewrite !app_nil_r.
  repeat split; try assumption. apply WsSub_app; assumption.
Qed.
Lemma orel_emit_d a b sd sp t : orel a b sd sp -> orel (a ++ t) b (emit sd t) sp.
Proof.
  intros [od [op [Hd [Hp H]]]]. exists od, op. rewrite output_emit, Hd, app_assoc. repeat split; assumption.
Qed.
Lemma orel_emit_p a b sd sp t : orel a b sd sp -> orel a (b ++ t) sd (emit sp t).
Proof.
  intros [od [op [Hd [Hp H]]]]. exists od, op. rewrite output_emit, Hp, app_assoc. repeat split; assumption.
Qed.
Lemma orel_emit_both sd sp t : orel [] [] sd sp -> orel [] [] (emit sd t) (emit sp t).
Proof.
  intros H. apply (orel_done t t); [|apply WsSub_refl].
  change (orel ([] ++ t) ([] ++ t) (emit sd t) (emit sp t)). apply orel_emit_d, orel_emit_p, H.
Qed.
Lemma orel_out a b sd sp sd' sp' :
  output sd' = output sd -> output sp' = output sp -> orel a b sd sp -> orel a b sd' sp'.
Proof. intros Ed Ep [od [op [Hd [Hp H]]]]. exists od, op. rewrite Ed, Ep. repeat split; assumption. Qed.
Lemma orel_final sd sp : orel [] [] sd sp -> WsSub (output sd) (output sp).
Proof. intros [od [op [Hd [Hp H]]]]. rewrite Hd, Hp, !app_nil_r. exact H. Qed.
Lemma orel_start sd sp : WsSub (output sd) (output sp) -> orel [] [] sd sp.
Proof. intros H. exists (output sd), (output sp). rewrite !app_nil_r. repeat split; [exact H]. Qed.

Definition prel (a b : bytes) (sd sp : xstate) : Prop := same sd sp /\ orel a b sd sp.

(* ---- one action ------------------------------------------------------------------------------------- *)
Definition freeze_name (p : tpipe) : option bytes :=
  match p with
  | ([], [[AIdent fz; AStr bn]]) => if beqb fz (B "__freeze") then Some bn else None
  | _ => None
  end.

Lemma action_cases defs f dot s p :
  exec_node defs (S f) dot s (NAction p) =
  match freeze_name p with
  | Some bn =>
    let c := cur s in
    Ok (set_cur s {| f_vars := f_vars c; f_globals := f_globals c;
                     f_bound := f_bound c ++ [(bn, pred (length (x_frames s)))]; f_depth := f_depth c |})
  | None =>
    do x <- eval_pipeline (env_of s dot) (x_heap s) p;
    let '(v, h1) := x in
    let s1 := set_heap s h1 in
    match fst p with
    | [] => do t <- print_text h1 v; Ok (emit s1 t)
    | _ => Ok (set_vars s1 (set_decl (f_vars (cur s1)) (fst p) v))
    end
  end.
Proof.
  destruct p as [decl cmds]. unfold freeze_name.
  destruct decl as [|d ds]; [|reflexivity].
  repeat (first [reflexivity
                |match goal with |- context [match ?x with _ => _ end] => is_var x; destruct x end]).
  cbn [exec_node]. destruct (beqb _ (B "__freeze")); reflexivity.
Qed.

Lemma neutral_exec defs f dot s : exec_node defs (S f) dot s (NAction neutral_pipe) = Ok (emit s []).
Proof. rewrite action_cases. cbn [freeze_name neutral_pipe]. rewrite neutral_eval. reflexivity. Qed.

Lemma action_rel D P f g dot sd sp p sd' sp' :
  prel [] [] sd sp ->
  exec_node D (S f) dot sd (NAction p) = Ok sd' -> exec_node P (S g) dot sp (NAction p) = Ok sp' ->
  prel [] [] sd' sp'.
Proof.
  intros [Hs Ho] Hd Hp. rewrite action_cases in Hd, Hp.
  rewrite (same_cur _ _ Hs), (same_env _ _ dot Hs), (same_heap _ _ Hs) in Hd.
  destruct (freeze_name p) as [bn|].
  - destruct Hs as [Hf Hh]. rewrite Hf in Hd. cbv zeta in Hd, Hp. inversion Hd; inversion Hp; subst. split.
    + apply same_set_cur. split; assumption.
    + eapply orel_out; [| |exact Ho]; reflexivity.
  - destruct (eval_pipeline (env_of sp dot) (x_heap sp) p) as [[v h1]| | |]; cbn [bind] in Hd, Hp; try discriminate.
    cbv zeta in Hd, Hp. rewrite (same_cur _ _ (same_set_heap _ _ h1 Hs)) in Hd.
    destruct (fst p).
    + destruct (print_text h1 v) as [t| | |]; cbn [bind] in Hd, Hp; try discriminate.
      inversion Hd; inversion Hp; subst. split.
      * apply same_emit, same_set_heap, Hs.
      * apply orel_emit_both. eapply orel_out; [| |exact Ho]; reflexivity.
    + inversion Hd; inversion Hp; subst. split.
      * apply same_set_vars, same_set_heap, Hs.
      * eapply orel_out; [| |exact Ho]; reflexivity.
Qed.

(* ---- range and template plans depend on the state only through frames and heap ----------------------- *)
Definition plan_rel (a b : rplan) : Prop :=
  match a, b with
  | RElse sd, RElse sp | RDone sd, RDone sp => same sd sp
  | RIter sd pd, RIter sp pp => same sd sp /\ pd = pp
  | RWhile sd vd, RWhile sp vp => same sd sp /\ vd = vp
  | _, _ => False
  end.
Definition plan_state (a : rplan) : xstate :=
  match a with RElse s | RDone s | RIter s _ | RWhile s _ => s end.

Lemma range_plan_out dot s p pl : range_plan dot s p = Ok pl -> x_out (plan_state pl) = x_out s.
Proof.
  destruct p as [decl cmds]. unfold range_plan. intros H.
  destruct (eval_pipeline _ _ _) as [[v h1]| | |]; cbn [bind] in H; try discriminate.
  cbv zeta in H.
  destruct v; try discriminate; try (inversion H; subst; reflexivity).
  - destruct b; inversion H; subst; reflexivity.
  - destruct b; inversion H; subst; reflexivity.
  - destruct (hget h1 l) as [[items|items order]|]; try discriminate.
    destruct (combine _ items); inversion H; subst; reflexivity.
  - destruct (hget h1 l) as [[items|items order]|]; try discriminate.
    destruct order.
    + destruct (map _ (sort_bytes (keys items))); inversion H; subst; reflexivity.
    + destruct (map _ (filter _ (b :: order))); inversion H; subst; reflexivity.
Qed.

Lemma range_plan_rel dot sd sp p pld plp :
  same sd sp -> range_plan dot sd p = Ok pld -> range_plan dot sp p = Ok plp -> plan_rel pld plp.
Proof.
  intros Hs Hd Hp. destruct p as [decl cmds]. unfold range_plan in Hd, Hp.
  rewrite (same_cur _ _ Hs) in Hd.
  set (vs0 := f_vars (cur sp) ++ map (fun x => (x, VInvalid)) decl) in *.
  assert (Hs0 : same (set_vars sd vs0) (set_vars sp vs0)) by (apply same_set_vars, Hs).
  rewrite (same_env _ _ dot Hs0), (same_heap _ _ Hs0) in Hd.
  destruct (eval_pipeline _ _ _) as [[v h1]| | |]; cbn [bind] in Hd, Hp; try discriminate.
  cbv zeta in Hd, Hp.
  assert (Hs1 : same (set_heap (set_vars sd vs0) h1) (set_heap (set_vars sp vs0) h1)) by (apply same_set_heap, Hs0).
  rewrite (same_cur _ _ Hs1) in Hd.
  set (vs2 := set_decl (f_vars (cur (set_heap (set_vars sp vs0) h1))) decl v) in *.
  assert (Hs2 : same (set_vars (set_heap (set_vars sd vs0) h1) vs2) (set_vars (set_heap (set_vars sp vs0) h1) vs2))
    by (apply same_set_vars, Hs1).
  destruct v; try discriminate; try (inversion Hd; inversion Hp; subst; exact Hs2).
  - destruct b; inversion Hd; inversion Hp; subst; [split; [exact Hs2|reflexivity]|exact Hs2].
  - destruct b; inversion Hd; inversion Hp; subst; [split; [exact Hs2|reflexivity]|exact Hs2].
  - destruct (hget h1 l) as [[items|items order]|]; try discriminate.
    destruct (combine _ items); inversion Hd; inversion Hp; subst; [exact Hs2|split; [exact Hs2|reflexivity]].
  - destruct (hget h1 l) as [[items|items order]|]; try discriminate.
    destruct order.
    + destruct (map _ (sort_bytes (keys items))); inversion Hd; inversion Hp; subst;
        [exact Hs2|split; [exact Hs2|reflexivity]].
    + destruct (map _ (filter _ (b :: order))); inversion Hd; inversion Hp; subst;
        [exact Hs2|split; [exact Hs2|reflexivity]].
Qed.

Lemma template_plan_rel D P dot sd sp name isv arg tpd tpp :
  defs_rel D P -> same sd sp ->
  template_plan D dot sd name isv arg = Ok tpd -> template_plan P dot sp name isv arg = Ok tpp ->
  match tpd, tpp with
  | None, None => True
  | Some (bd, nd, s3d), Some (bp, np, s3p) =>
    nd = np /\ nrel [] [] bd bp /\ same s3d s3p /\ x_out s3d = x_out sd /\ x_out s3p = x_out sp
  | _, _ => False
  end.
Proof.
  intros HD Hs Hd Hp. unfold template_plan in Hd, Hp.
  rewrite (same_cur _ _ Hs) in Hd.
  destruct (if isv then _ else _) as [[tname|]| | |]; cbn [bind] in Hd, Hp; try discriminate.
  2:{ inversion Hd; inversion Hp; subst. exact I. }
  pose proof (lookup_def_rel tname D P HD) as HL.
  destruct (lookup_def D tname) as [bd|], (lookup_def P tname) as [bp|]; try contradiction.
  2:{ inversion Hd; inversion Hp; subst. exact I. }
  rewrite (same_env _ _ dot Hs), (same_heap _ _ Hs) in Hd.
  destruct (match arg with Some p => eval_pipeline (env_of sp dot) (x_heap sp) p | None => Ok (VInvalid, x_heap sp) end)
    as [[newdot h1]| | |]; cbn [bind] in Hd, Hp; try discriminate.
  cbv zeta in Hd, Hp.
  assert (Hs1 : same (set_heap sd h1) (set_heap sp h1)) by (apply same_set_heap, Hs).
  rewrite (same_cur _ _ Hs1) in Hd.
  set (s1d := match arg with Some p => set_vars (set_heap sd h1) (set_decl (f_vars (cur (set_heap sp h1))) (fst p) newdot)
                        | None => set_heap sd h1 end) in *.
  set (s1p := match arg with Some p => set_vars (set_heap sp h1) (set_decl (f_vars (cur (set_heap sp h1))) (fst p) newdot)
                        | None => set_heap sp h1 end) in *.
  assert (Hs1' : same s1d s1p).
  { unfold s1d, s1p. destruct arg; [apply same_set_vars, Hs1|exact Hs1]. }
  assert (Eod : x_out s1d = x_out sd) by (unfold s1d; destruct arg; reflexivity).
  assert (Eop : x_out s1p = x_out sp) by (unfold s1p; destruct arg; reflexivity).
  rewrite (same_cur _ _ Hs1') in Hd. destruct Hs1' as [Hf Hh]. rewrite Hf, Hh in Hd.
  inversion Hd; inversion Hp; subst. cbn [x_out].
  repeat split; try assumption; try reflexivity.
Qed.

(* ---- the congruence ----------------------------------------------------------------------------------- *)
Section Congruence.
  Variables D P : list (bytes * list tnode).
  Hypothesis HD : defs_rel D P.

  Definition C_nodes f := forall g a b d p dot sd sp sd' sp',
    nrel a b d p -> prel a b sd sp ->
    exec_nodes D f dot sd d = Ok sd' -> exec_nodes P g dot sp p = Ok sp' -> prel [] [] sd' sp'.
  Definition C_node f := forall g nd np dot sd sp sd' sp',
    node_rel nd np -> prel [] [] sd sp ->
    exec_node D f dot sd nd = Ok sd' -> exec_node P g dot sp np = Ok sp' -> prel [] [] sd' sp'.
  Definition C_iter f := forall g decl bd bp pairs sd sp sd' sp',
    nrel [] [] bd bp -> prel [] [] sd sp ->
    exec_iter D f sd decl bd pairs = Ok sd' -> exec_iter P g sp decl bp pairs = Ok sp' -> prel [] [] sd' sp'.
  Definition C_while f := forall g dot p bd bp budget v sd sp sd' sp',
    nrel [] [] bd bp -> prel [] [] sd sp ->
    exec_while D f dot sd p bd budget v = Ok sd' -> exec_while P g dot sp p bp budget v = Ok sp' -> prel [] [] sd' sp'.

  Lemma bind_ok {A B} (r : res A) (k : A -> res B) b : bind r k = Ok b -> exists a, r = Ok a /\ k a = Ok b.
  Proof. destruct r; cbn [bind]; intros H; try discriminate. exists a. split; [reflexivity|exact H]. Qed.

  Lemma cong_nodes f : C_nodes f -> C_node f -> C_nodes (S f).
  Proof.
    intros IHns IHn g a b d p dot sd sp sd' sp' Hrel. revert g dot sd sp sd' sp'.
    induction Hrel as [a b Hab|a b s d p Hrel _|a b s d p _ IHp|a b d p Hrel _|a b nd np d p Hab Hn Hrel _];
      intros g dot sd sp sd' sp' [Hs Ho] Hd Hp.
    - destruct g as [|g]; [discriminate|]. cbn [exec_nodes] in Hd, Hp. inversion Hd; inversion Hp; subst.
      split; [exact Hs|apply (orel_done a b); assumption].
    - rewrite nodes_cons in Hd. destruct f as [|f]; [discriminate|]. cbn [exec_node bind] in Hd.
      apply (IHns g (a ++ s) b d p dot (emit sd s) sp); try assumption.
      split; [exact Hs|apply orel_emit_d, Ho].
    - destruct g as [|g]; [discriminate|]. rewrite nodes_cons in Hp. destruct g as [|g]; [discriminate|].
      cbn [exec_node bind] in Hp.
      assert (Hp' : exec_nodes P (S (S g)) dot (emit sp s) p = Ok sp').
      { rewrite (exec_nodes_mono P (S g) (S (S g))); [exact Hp|lia|rewrite Hp; apply fin_ok]. }
      apply (IHp (S (S g)) dot sd (emit sp s)); try assumption.
      split; [exact Hs|apply orel_emit_p, Ho].
    - rewrite nodes_cons in Hd. destruct f as [|f]; [discriminate|]. rewrite neutral_exec in Hd. cbn [bind] in Hd.
      apply (IHns g a b d p dot (emit sd []) sp); try assumption.
      split; [exact Hs|]. rewrite <- (app_nil_r a). apply orel_emit_d, Ho.
    - destruct g as [|g]; [discriminate|]. rewrite nodes_cons in Hd, Hp.
      apply bind_ok in Hd. destruct Hd as [s1d [Hd1 Hd2]]. apply bind_ok in Hp. destruct Hp as [s1p [Hp1 Hp2]].
      assert (H1 : prel [] [] s1d s1p).
      { apply (IHn g nd np dot sd sp); try assumption. split; [exact Hs|apply (orel_done a b); assumption]. }
      apply (IHns g [] [] d p dot s1d s1p); assumption.
  Qed.

  Lemma cong_iter f : C_nodes f -> C_iter f -> C_iter (S f).
  Proof.
    intros IHns IHi g decl bd bp pairs sd sp sd' sp' Hb Hrel Hd Hp.
    destruct g as [|g]; [discriminate|].
    destruct pairs as [|[k v] r].
    - cbn [exec_iter] in Hd, Hp. inversion Hd; inversion Hp; subst. exact Hrel.
    - rewrite iter_cons in Hd, Hp. cbv zeta in Hd, Hp.
      destruct Hrel as [Hs Ho]. rewrite (same_cur _ _ Hs) in Hd.
      apply bind_ok in Hd. destruct Hd as [s1d [Hd1 Hd2]]. apply bind_ok in Hp. destruct Hp as [s1p [Hp1 Hp2]].
      match type of Hp1 with exec_nodes _ _ _ (set_vars _ ?vs) _ = _ =>
        assert (H1 : prel [] [] s1d s1p);
        [apply (IHns g [] [] bd bp v (set_vars sd vs) (set_vars sp vs)); try assumption;
         split; [apply same_set_vars, Hs|eapply orel_out; [| |exact Ho]; reflexivity]|] end.
      apply (IHi g decl bd bp r s1d s1p); assumption.
  Qed.

  Lemma cong_while f : C_nodes f -> C_while f -> C_while (S f).
  Proof.
    intros IHns IHw g dot p bd bp budget v sd sp sd' sp' Hb Hrel Hd Hp.
    destruct g as [|g]; [discriminate|].
    rewrite while_step in Hd, Hp.
    apply bind_ok in Hd. destruct Hd as [s1d [Hd1 Hd2]]. apply bind_ok in Hp. destruct Hp as [s1p [Hp1 Hp2]].
    assert (H1 : prel [] [] s1d s1p) by (apply (IHns g [] [] bd bp v sd sp); assumption).
    destruct H1 as [Hs Ho].
    rewrite (same_env _ _ dot Hs), (same_heap _ _ Hs) in Hd2.
    destruct (eval_pipeline (env_of s1p dot) (x_heap s1p) p) as [[v' h1]| | |]; cbn [bind] in Hd2, Hp2; try discriminate.
    cbv zeta in Hd2, Hp2.
    destruct budget as [|bu]; [discriminate|].
    assert (H2 : prel [] [] (set_heap s1d h1) (set_heap s1p h1)).
    { split; [apply same_set_heap, Hs|eapply orel_out; [| |exact Ho]; reflexivity]. }
    destruct v' as [| | |[|]| | |[|]| | | | |]; try discriminate;
      try (inversion Hd2; inversion Hp2; subst; exact H2);
      eapply (IHw g dot p bd bp bu); eassumption.
  Qed.

  Lemma cong_node f : C_nodes f -> C_iter f -> C_while f -> C_node (S f).
  Proof.
    intros IHns IHi IHw g nd np dot sd sp sd' sp' Hn Hrel Hd Hp.
    destruct g as [|g]; [discriminate|].
    destruct Hn as [p|n v a|p th th' el el' Hth Hel|p b b' el el' Hb Hel].
    - apply (action_rel D P f g dot sd sp p); assumption.
    - rewrite node_template in Hd, Hp.
      apply bind_ok in Hd. destruct Hd as [tpd [Hd1 Hd2]]. apply bind_ok in Hp. destruct Hp as [tpp [Hp1 Hp2]].
      destruct Hrel as [Hs Ho].
      pose proof (template_plan_rel D P dot sd sp n v a tpd tpp HD Hs Hd1 Hp1) as HT.
      destruct tpd as [[[bd ndot] s3d]|], tpp as [[[bp npdot] s3p]|]; try contradiction.
      + destruct HT as [-> [Hb [Hs3 [Eod Eop]]]].
        apply bind_ok in Hd2. destruct Hd2 as [s4d [Hd2 Hd3]]. apply bind_ok in Hp2. destruct Hp2 as [s4p [Hp2 Hp3]].
        assert (H4 : prel [] [] s4d s4p).
        { apply (IHns g [] [] bd bp npdot s3d s3p); try assumption.
          split; [exact Hs3|]. eapply orel_out; [| |exact Ho]; unfold output; [rewrite Eod|rewrite Eop]; reflexivity. }
        destruct H4 as [[Hf Hh] Ho4]. inversion Hd3; inversion Hp3; subst. split.
        * split; cbn [x_frames x_heap]; [rewrite Hf; reflexivity|exact Hh].
        * eapply orel_out; [| |exact Ho4]; reflexivity.
      + inversion Hd2; inversion Hp2; subst. split; assumption.
    - rewrite node_if in Hd, Hp. destruct Hrel as [Hs Ho].
      rewrite (same_env _ _ dot Hs), (same_heap _ _ Hs) in Hd.
      destruct (eval_pipeline (env_of sp dot) (x_heap sp) p) as [[v h1]| | |]; cbn [bind] in Hd, Hp; try discriminate.
      cbv zeta in Hd, Hp.
      assert (Hs1 : same (set_heap sd h1) (set_heap sp h1)) by (apply same_set_heap, Hs).
      rewrite (same_cur _ _ Hs1) in Hd.
      destruct (truthy h1 v) as [t| | |]; cbn [bind] in Hd, Hp; try discriminate.
      match type of Hp with exec_nodes _ _ _ (set_vars _ ?vs) _ = _ =>
        apply (IHns g [] [] (if t then th else el) (if t then th' else el') dot
                 (set_vars (set_heap sd h1) vs) (set_vars (set_heap sp h1) vs)); try assumption end.
      + destruct t; assumption.
      + split; [apply same_set_vars, Hs1|eapply orel_out; [| |exact Ho]; reflexivity].
    - rewrite node_range in Hd, Hp. destruct Hrel as [Hs Ho].
      apply bind_ok in Hd. destruct Hd as [pld [Hd1 Hd2]]. apply bind_ok in Hp. destruct Hp as [plp [Hp1 Hp2]].
      pose proof (range_plan_rel dot sd sp p pld plp Hs Hd1 Hp1) as HR.
      pose proof (range_plan_out dot sd p pld Hd1) as Eod. pose proof (range_plan_out dot sp p plp Hp1) as Eop.
      assert (Hor : orel [] [] (plan_state pld) (plan_state plp)).
      { eapply orel_out; [| |exact Ho]; unfold output; [rewrite Eod|rewrite Eop]; reflexivity. }
      destruct pld as [s2d|s2d prd|s2d vd|s2d], plp as [s2p|s2p prp|s2p vp|s2p]; cbn [plan_rel] in HR; try contradiction;
        cbn [plan_state] in Hor.
      + apply (IHns g [] [] el el' dot s2d s2p); try assumption. split; assumption.
      + destruct HR as [Hs2 ->]. apply (IHi g (fst p) b b' prp s2d s2p); try assumption. split; assumption.
      + destruct HR as [Hs2 ->]. apply (IHw g dot p b b' while_cap vp s2d s2p); try assumption. split; assumption.
      + inversion Hd2; inversion Hp2; subst. split; assumption.
  Qed.

  Lemma cong_all f : C_nodes f /\ C_node f /\ C_iter f /\ C_while f.
  Proof.
    induction f as [|f [IHns [IHn [IHi IHw]]]].
    - unfold C_nodes, C_node, C_iter, C_while; split; [|split; [|split]]; intros; discriminate.
    - split; [|split; [|split]].
      + apply cong_nodes; assumption.
      + apply cong_node; assumption.
      + apply cong_iter; assumption.
      + apply cong_while; assumption.
  Qed.

  Theorem exec_congruence f g dot sd sp d p sd' sp' :
    nrel [] [] d p -> same sd sp -> WsSub (output sd) (output sp) ->
    exec_nodes D f dot sd d = Ok sd' -> exec_nodes P g dot sp p = Ok sp' ->
    same sd' sp' /\ WsSub (output sd') (output sp').
  Proof.
    intros Hrel Hs Ho Hd Hp.
    destruct (proj1 (cong_all f) g [] [] d p dot sd sp sd' sp' Hrel (conj Hs (orel_start _ _ Ho)) Hd Hp) as [Hs' Ho'].
    split; [exact Hs'|apply orel_final, Ho'].
  Qed.
End Congruence.

(* ================================================================================================== *)
(* Part D  the block-structure parser maps related token lists to related trees *)
(* ================================================================================================== *)
Lemma nrel_weaken a' b' d p : nrel a' b' d p -> forall a b, WsSub a b -> nrel (a ++ a') (b ++ b') d p.
Proof.
  induction 1 as [a' b' H|a' b' s d p _ IH|a' b' s d p _ IH|a' b' d p _ IH|a' b' nd np d p H Hn Hr _]; intros a b Hab.
  - apply nrel_nil, WsSub_app; assumption.
  - apply nrel_dtext. rewrite <- app_assoc. apply IH, Hab.
  - apply nrel_ptext. rewrite <- app_assoc. apply IH, Hab.
  - apply nrel_neutral, IH, Hab.
  - apply nrel_node; [apply WsSub_app; assumption|exact Hn|exact Hr].
Qed.

Lemma nrel_app a b d p : nrel a b d p -> forall d' p', nrel [] [] d' p' -> nrel a b (d ++ d') (p ++ p').
Proof.
  induction 1 as [a b H|a b s d p _ IH|a b s d p _ IH|a b d p _ IH|a b nd np d p H Hn Hr IH]; intros d' p' H'; cbn [app].
  - rewrite <- (app_nil_r a), <- (app_nil_r b). apply nrel_weaken; assumption.
  - apply nrel_dtext, IH, H'.
  - apply nrel_ptext, IH, H'.
  - apply nrel_neutral, IH, H'.
  - apply nrel_node; [exact H|exact Hn|apply IH, H'].
Qed.

Definition L_list f := forall g a b d p nd std restd np stp restp,
  trel a b d p ->
  parse_list f d = Some (nd, std, restd) -> parse_list g p = Some (np, stp, restp) ->
  nrel a b nd np /\ std = stp /\ trel [] [] restd restp.
Definition L_if f := forall g q d p nd restd np restp,
  trel [] [] d p ->
  parse_if f q d = Some (nd, restd) -> parse_if g q p = Some (np, restp) ->
  node_rel nd np /\ trel [] [] restd restp.

Lemma parse_list_text f s r :
  parse_list (S f) (TText s :: r) =
  match parse_list f r with Some (ns, st, rest) => Some (NText s :: ns, st, rest) | None => None end.
Proof. reflexivity. Qed.
Lemma parse_list_act f x l rt a r :
  parse_list (S f) (TAct x l rt a :: r) =
  match a with
  | AcEnd => Some ([], StopEnd, r)
  | AcElse => Some ([], StopElse, r)
  | AcElseIf p => Some ([], StopElseIf p, r)
  | AcDefine n => Some ([], StopDefine n, r)
  | AcPipe p =>
    match parse_list f r with Some (ns, st, rest) => Some (NAction p :: ns, st, rest) | None => None end
  | AcTemplate n v arg =>
    match parse_list f r with Some (ns, st, rest) => Some (NTemplate n v arg :: ns, st, rest) | None => None end
  | AcIf p =>
    match parse_if f p r with
    | Some (n, rest) =>
      match parse_list f rest with Some (ns, st, rest') => Some (n :: ns, st, rest') | None => None end
    | None => None
    end
  | AcRange p =>
    match parse_list f r with
    | Some (body, StopEnd, rest) =>
      match parse_list f rest with Some (ns, st, rest') => Some (NRange p body [] :: ns, st, rest') | None => None end
    | Some (body, StopElse, rest) =>
      match parse_list f rest with
      | Some (el, StopEnd, rest2) =>
        match parse_list f rest2 with Some (ns, st, rest') => Some (NRange p body el :: ns, st, rest') | None => None end
      | _ => None
      end
    | _ => None
    end
  end.
Proof. reflexivity. Qed.
Lemma parse_if_step f p ts :
  parse_if (S f) p ts =
  match parse_list f ts with
  | Some (th, StopEnd, rest) => Some (NIf p th [], rest)
  | Some (th, StopElse, rest) =>
    match parse_list f rest with
    | Some (el, StopEnd, rest2) => Some (NIf p th el, rest2)
    | _ => None
    end
  | Some (th, StopElseIf q, rest) =>
    match parse_if f q rest with
    | Some (n, rest2) => Some (NIf p th [n], rest2)
    | None => None
    end
  | _ => None
  end.
Proof. reflexivity. Qed.

Ltac inv H := inversion H; subst; clear H.

(* destructs the scrutinee [parse_list f x] / [parse_if f q x] of a hypothesis H : match ... end = Some _ *)
Tactic Notation "open_list" hyp(H) ident(ns) ident(st) ident(rest) ident(E) :=
  match type of H with
  | match parse_list ?f ?x with _ => _ end = Some _ =>
    destruct (parse_list f x) as [[[ns st] rest]|] eqn:E; [|discriminate H]
  end.
Tactic Notation "open_if" hyp(H) ident(n) ident(rest) ident(E) :=
  match type of H with
  | match parse_if ?f ?q ?x with _ => _ end = Some _ =>
    destruct (parse_if f q x) as [[n rest]|] eqn:E; [|discriminate H]
  end.

Lemma nrel_single nd np : node_rel nd np -> nrel [] [] [nd] [np].
Proof. intros H. apply nrel_node; [constructor|exact H|apply nrel_nil; constructor]. Qed.

Lemma L_list_step f : L_list f -> L_if f -> L_list (S f).
Proof.
  intros IHl IHi g a b d p nd std restd np stp restp Hrel. revert g nd std restd np stp restp.
  induction Hrel as [a b Hab|a b s d p Hrel _|a b s d p _ IHp|a b x l r d p Hrel _|a b x l r x' l' r' ac d p Hab Hrel _];
    intros g nd std restd np stp restp Hd Hp.
  - destruct g as [|g]; [discriminate|]. cbn [parse_list] in Hd, Hp. inv Hd. inv Hp.
    split; [apply nrel_nil, Hab|split; [reflexivity|apply trel_nil; constructor]].
  - rewrite parse_list_text in Hd. open_list Hd ns st rest E. inv Hd.
    destruct (IHl g (a ++ s) b d p ns std restd np stp restp Hrel E Hp) as [H1 [H2 H3]].
    split; [apply nrel_dtext, H1|split; assumption].
  - destruct g as [|g]; [discriminate|]. rewrite parse_list_text in Hp. open_list Hp ns st rest E. inv Hp.
    destruct (IHp g nd std restd ns stp restp Hd E) as [H1 [H2 H3]].
    split; [apply nrel_ptext, H1|split; assumption].
  - rewrite parse_list_act in Hd. unfold neutral_act in Hd. open_list Hd ns st rest E. inv Hd.
    destruct (IHl g a b d p ns std restd np stp restp Hrel E Hp) as [H1 [H2 H3]].
    split; [apply nrel_neutral, H1|split; assumption].
  - destruct g as [|g]; [discriminate|]. rewrite parse_list_act in Hd, Hp.
    destruct ac as [q|q|q| | |q|n v arg|n].
    + (* pipeline *)
      open_list Hd nsd std' restd' Ed. inv Hd. open_list Hp nsp stp' restp' Ep. inv Hp.
      destruct (IHl g [] [] d p nsd std restd nsp stp restp Hrel Ed Ep) as [H1 [H2 H3]].
      split; [apply nrel_node; [exact Hab|constructor|exact H1]|split; assumption].
    + (* if *)
      open_if Hd n1 rest1 Ed. open_if Hp n2 rest2 Ep.
      destruct (IHi g q d p n1 rest1 n2 rest2 Hrel Ed Ep) as [Hn Hr].
      open_list Hd nsd std' restd' Ed2. inv Hd. open_list Hp nsp stp' restp' Ep2. inv Hp.
      destruct (IHl g [] [] rest1 rest2 nsd std restd nsp stp restp Hr Ed2 Ep2) as [H1 [H2 H3]].
      split; [apply nrel_node; [exact Hab|exact Hn|exact H1]|split; assumption].
    + inv Hd. inv Hp. split; [apply nrel_nil, Hab|split; [reflexivity|exact Hrel]].
    + inv Hd. inv Hp. split; [apply nrel_nil, Hab|split; [reflexivity|exact Hrel]].
    + inv Hd. inv Hp. split; [apply nrel_nil, Hab|split; [reflexivity|exact Hrel]].
    + (* range *)
      open_list Hd bd sbd rbd Ed. open_list Hp bp sbp rbp Ep.
      destruct (IHl g [] [] d p bd sbd rbd bp sbp rbp Hrel Ed Ep) as [Hb [Hst Hr]]. subst sbp.
      destruct sbd; try discriminate.
      * open_list Hd nsd std' restd' Ed2. inv Hd. open_list Hp nsp stp' restp' Ep2. inv Hp.
        destruct (IHl g [] [] rbd rbp nsd std restd nsp stp restp Hr Ed2 Ep2) as [H1 [H2 H3]].
        split; [apply nrel_node; [exact Hab|constructor; [exact Hb|apply nrel_nil; constructor]|exact H1]|split; assumption].
      * open_list Hd eld sed red Ed2. open_list Hp elp sep_ rep Ep2.
        destruct (IHl g [] [] rbd rbp eld sed red elp sep_ rep Hr Ed2 Ep2) as [He [Hst2 Hr2]]. subst sep_.
        destruct sed; try discriminate.
        open_list Hd nsd std' restd' Ed3. inv Hd. open_list Hp nsp stp' restp' Ep3. inv Hp.
        destruct (IHl g [] [] red rep nsd std restd nsp stp restp Hr2 Ed3 Ep3) as [H1 [H2 H3]].
        split; [apply nrel_node; [exact Hab|constructor; assumption|exact H1]|split; assumption].
    + (* template *)
      open_list Hd nsd std' restd' Ed. inv Hd. open_list Hp nsp stp' restp' Ep. inv Hp.
      destruct (IHl g [] [] d p nsd std restd nsp stp restp Hrel Ed Ep) as [H1 [H2 H3]].
      split; [apply nrel_node; [exact Hab|constructor|exact H1]|split; assumption].
    + inv Hd. inv Hp. split; [apply nrel_nil, Hab|split; [reflexivity|exact Hrel]].
Qed.

Lemma L_if_step f : L_list f -> L_if f -> L_if (S f).
Proof.
  intros IHl IHi g q d p nd restd np restp Hrel Hd Hp.
  destruct g as [|g]; [discriminate|]. rewrite parse_if_step in Hd, Hp.
  open_list Hd thd sd rd Ed. open_list Hp thp sp rp Ep.
  destruct (IHl g [] [] d p thd sd rd thp sp rp Hrel Ed Ep) as [Hth [Hst Hr]]. subst sp.
  destruct sd as [| | |q'|n]; try discriminate.
  - inv Hd. inv Hp. split; [constructor; [exact Hth|apply nrel_nil; constructor]|exact Hr].
  - open_list Hd eld sed red Ed2. open_list Hp elp sep_ rep Ep2.
    destruct (IHl g [] [] rd rp eld sed red elp sep_ rep Hr Ed2 Ep2) as [He [Hst2 Hr2]]. subst sep_.
    destruct sed; try discriminate. inv Hd. inv Hp. split; [constructor; assumption|exact Hr2].
  - open_if Hd n1 rest1 Ed2. open_if Hp n2 rest2 Ep2. inv Hd. inv Hp.
    destruct (IHi g q' rd rp n1 restd n2 restp Hr Ed2 Ep2) as [Hn Hr2].
    split; [constructor; [exact Hth|apply nrel_single, Hn]|exact Hr2].
Qed.

Lemma L_all f : L_list f /\ L_if f.
Proof.
  induction f as [|f [IHl IHi]].
  - split; intros g; intros; discriminate.
  - split; [apply L_list_step|apply L_if_step]; assumption.
Qed.

Record prog_rel (pd pp : program) : Prop := {
  pr_main : nrel [] [] (p_main pd) (p_main pp);
  pr_defs : defs_rel (p_defs pd) (p_defs pp);
}.

Lemma parse_top_rel f : forall g d p md mp dd dp pd pp,
  trel [] [] d p -> nrel [] [] md mp -> defs_rel dd dp ->
  parse_top f d md dd = Some pd -> parse_top g p mp dp = Some pp -> prog_rel pd pp.
Proof.
  induction f as [|f IH]; intros g d p md mp dd dp pd pp Hrel Hm Hdefs Hd Hp; [discriminate|].
  destruct g as [|g]; [discriminate|]. cbn [parse_top] in Hd, Hp.
  open_list Hd nsd sd rd Ed. open_list Hp nsp sp rp Ep.
  destruct (proj1 (L_all _) _ [] [] d p nsd sd rd nsp sp rp Hrel Ed Ep) as [Hns [Hst Hr]]. subst sp.
  destruct sd as [| | | |n]; try discriminate.
  - inv Hd. inv Hp. split; cbn [p_main p_defs]; [apply nrel_app; assumption|exact Hdefs].
  - open_list Hd bd sbd rbd Ed2. open_list Hp bp sbp rbp Ep2.
    destruct (proj1 (L_all _) _ [] [] rd rp bd sbd rbd bp sbp rbp Hr Ed2 Ep2) as [Hb [Hst2 Hr2]]. subst sbp.
    destruct sbd; try discriminate.
    apply (IH g rbd rbp (md ++ nsd) (mp ++ nsp) (dd ++ [(n, bd)]) (dp ++ [(n, bp)])); try assumption.
    + apply nrel_app; assumption.
    + apply Forall2_app; [exact Hdefs|]. constructor; [|constructor]. split; [reflexivity|exact Hb].
Qed.

Theorem parse_program_rel d p pd pp :
  sep_ins d p -> parse_program d = Some pd -> parse_program p = Some pp -> prog_rel pd pp.
Proof.
  intros H Hd Hp. unfold parse_program in Hd, Hp. cbv zeta in Hd, Hp.
  eapply parse_top_rel; [apply lexed_related, H|apply nrel_nil; constructor|constructor|exact Hd|exact Hp].
Qed.

(* both programs run on the same data: outputs differ by white space only *)
Theorem run_program_rel pd pp data od op :
  prog_rel pd pp -> run_program pd data = OOk od -> run_program pp data = OOk op -> WsSub od op.
Proof.
  intros [Hm Hdefs] Hd Hp. unfold run_program in Hd, Hp.
  destruct (init_state data) as [s0|]; [|discriminate].
  destruct (exec_nodes (p_defs pd) exec_fuel VInvalid s0 (p_main pd)) as [sd| | |] eqn:Ed; try discriminate.
  destruct (exec_nodes (p_defs pp) exec_fuel VInvalid s0 (p_main pp)) as [sp| | |] eqn:Ep; try discriminate.
  inv Hd. inv Hp.
  apply (exec_congruence _ _ Hdefs exec_fuel exec_fuel VInvalid s0 s0 _ _ sd sp Hm); try assumption.
  - split; reflexivity.
  - apply WsSub_refl.
Qed.

(* ================================================================================================== *)
(* Part E  debug-mode tokens = production tokens with separators inserted *)
(* ================================================================================================== *)
(* ---- domain: a code node with several statements emits something in production mode ------------------
   (otherwise debug mode alone would turn an empty mixin-call body into a block of separators) *)
Definition stmt_emits (s : jstmt) : bool :=
  match s with SExpr _ | SIf _ _ _ | SVar (_ :: _) => true | _ => false end.

Fixpoint dom_node (n : pnode) : bool :=
  let all := fix go (l : list pnode) : bool := match l with [] => true | x :: r => dom_node x && go r end in
  match n with
  | PCode stmts _ _ => Nat.leb (length stmts) 1 || existsb stmt_emits stmts
  | PTag _ _ _ _ b | PBlock b | PEach _ _ _ b | PWhile _ b | PMixinDef _ _ b | PMixinCall _ _ _ b => all b
  | PCond _ c a => all c && match a with Some a' => dom_node a' | None => true end
  | PCase _ ws => (fix go (l : list (option jexpr * list pnode)) : bool :=
                     match l with [] => true | w :: r => all (snd w) && go r end) ws
  | _ => true
  end.
Definition dom_C13 (nodes : list pnode) : bool := forallb dom_node nodes.

Lemma dom_all_forallb l :
  (fix go (l : list pnode) : bool := match l with [] => true | x :: r => dom_node x && go r end) l = forallb dom_node l.
Proof. induction l as [|x r IH]; [reflexivity|]. cbn [forallb]. rewrite <- IH. reflexivity. Qed.

Lemma dom_tag n i a ab b : dom_node (PTag n i a ab b) = forallb dom_node b.
Proof. cbn [dom_node]. apply dom_all_forallb. Qed.
Lemma dom_block b : dom_node (PBlock b) = forallb dom_node b.
Proof. cbn [dom_node]. apply dom_all_forallb. Qed.
Lemma dom_each v k o b : dom_node (PEach v k o b) = forallb dom_node b.
Proof. cbn [dom_node]. apply dom_all_forallb. Qed.
Lemma dom_while t b : dom_node (PWhile t b) = forallb dom_node b.
Proof. cbn [dom_node]. apply dom_all_forallb. Qed.
Lemma dom_mdef n ps b : dom_node (PMixinDef n ps b) = forallb dom_node b.
Proof. cbn [dom_node]. apply dom_all_forallb. Qed.
Lemma dom_mcall n a at_ b : dom_node (PMixinCall n a at_ b) = forallb dom_node b.
Proof. cbn [dom_node]. apply dom_all_forallb. Qed.
Lemma dom_cond t c a :
  dom_node (PCond t c a) = forallb dom_node c && match a with Some a' => dom_node a' | None => true end.
Proof. cbn [dom_node]. rewrite dom_all_forallb. reflexivity. Qed.
Lemma dom_case e ws : dom_node (PCase e ws) = forallb (fun w => forallb dom_node (snd w)) ws.
Proof.
  cbn [dom_node]. induction ws as [|w r IH]; [reflexivity|]. cbn [forallb]. rewrite <- IH, dom_all_forallb. reflexivity.
Qed.

(* ---- the relation on results -------------------------------------------------------------------------- *)
Definition sim (d p : list tok) : Prop := sep_ins d p /\ (d = [] <-> p = []).

Lemma sim_refl l : sim l l.
Proof. split; [apply sep_ins_refl|tauto]. Qed.
Lemma sim_app a b c d : sim a b -> sim c d -> sim (a ++ c) (b ++ d).
Proof.
  intros [H1 E1] [H2 E2]. split; [apply sep_ins_app; assumption|]. split; intros H; apply app_eq_nil in H; destruct H as [Ha Hc].
  - rewrite (proj1 E1 Ha), (proj1 E2 Hc). reflexivity.
  - rewrite (proj2 E1 Ha), (proj2 E2 Hc). reflexivity.
Qed.
Lemma sim_ne d p : sep_ins d p -> d <> [] -> p <> [] -> sim d p.
Proof. intros H Hd Hp. split; [exact H|]. split; intros E; contradiction. Qed.

Lemma si_pre l d p : sep_ins d p -> sep_ins (l ++ d) (l ++ p).
Proof. intros H. apply sep_ins_app; [apply sep_ins_refl|exact H]. Qed.
Lemma si_post l d p : sep_ins d p -> sep_ins (d ++ l) (p ++ l).
Proof. intros H. apply sep_ins_app; [exact H|apply sep_ins_refl]. Qed.
Lemma si_sep_end d p : sep_ins d p -> sep_ins (d ++ sep) p.
Proof.
  intros H. rewrite <- (app_nil_r p), <- (app_nil_r sep). apply sep_ins_app; [exact H|]. apply si_sep, si_nil.
Qed.
Lemma si_concat D P : Forall2 sep_ins D P -> sep_ins (concat D) (concat P).
Proof. induction 1; cbn [concat]; [constructor|apply sep_ins_app; assumption]. Qed.

Definition mix_rel (d p : bytes * list tok) : Prop := fst d = fst p /\ sep_ins (snd d) (snd p).
Record cs_rel (sd sp : cstate) : Prop := {
  cr_mix : Forall2 mix_rel (cs_mixins sd) (cs_mixins sp);
  cr_blk : Forall2 sep_ins (cs_blocks sd) (cs_blocks sp);
  cr_cnt : cs_counter sd = cs_counter sp;
}.

Lemma si_mixins D P : Forall2 mix_rel D P ->
  sep_ins (flat_map (fun m => TText nl :: snd m) D) (flat_map (fun m => TText nl :: snd m) P).
Proof.
  induction 1 as [|d p D P [_ H] _ IH]; cbn [flat_map]; [constructor|].
  cbn [app]. apply si_cons, sep_ins_app; assumption.
Qed.

Lemma lookup_mix name D P : Forall2 mix_rel D P ->
  match lookup name D, lookup name P with Some _, Some _ | None, None => True | _, _ => False end.
Proof.
  induction 1 as [|[kd bd] [kp bp] D P [Hk _] _ IH]; cbn [lookup]; [exact I|].
  cbn [fst] in Hk. subst kp. destruct (beqb name kd); [exact I|exact IH].
Qed.

Section Tokens.
  Variable funcs : list bytes.

  (* ---- code ------------------------------------------------------------------------------------------ *)
  Lemma cwrap_nonempty raw e ts : cwrap funcs raw e = Some ts -> ts <> [].
  Proof.
    intros H. destruct e; cbn [cwrap] in H;
      repeat match type of H with
             | match ?c with _ => _ end = _ => destruct c; try discriminate H
             end;
      inversion H; subst; discriminate.
  Qed.

  Lemma cstmt_nonempty raw s ts : stmt_emits s = true -> cstmt funcs raw s = Some ts -> ts <> [].
  Proof.
    destruct s as [e|ds|c t e|l|]; cbn [stmt_emits]; intros He H; try discriminate; cbn [cstmt] in H.
    - exact (cwrap_nonempty raw e ts H).
    - destruct ds as [|d r]; [discriminate|].
      destruct (cwrap funcs raw d) as [a|] eqn:Ea; [|discriminate].
      match type of H with match ?g with _ => _ end = _ => destruct g as [b|]; [|discriminate] end.
      inversion H; subst. pose proof (cwrap_nonempty _ _ _ Ea). destruct a; [contradiction|discriminate].
    - destruct (carg funcs true c) as [[ct [ca|]]|]; try discriminate.
      destruct (cstmt funcs raw t) as [tq|]; [|discriminate].
      destruct e as [es|].
      + destruct (cstmt funcs raw es) as [[|e0 et']|]; [| |discriminate].
        * inversion H; subst; discriminate.
        * destruct (beqb _ _); inversion H; subst; discriminate.
      + inversion H; subst; discriminate.
  Qed.

  (* the statement loop of JsExpr with the separator decision [m] made outside *)
  Definition code_go (raw m : bool) :=
    fix go (l : list jstmt) : option (list tok) :=
      match l with
      | [] => Some []
      | s :: r =>
        match cstmt funcs raw s, go r with
        | Some a, Some b => Some (a ++ (if m then sep else []) ++ b)
        | _, _ => None
        end
      end.

  Lemma ccode_go dbg raw stmts : ccode funcs dbg raw stmts = code_go raw (dbg && Nat.ltb 1 (length stmts)) stmts.
  Proof. reflexivity. Qed.

  Lemma code_go_rel raw m l : forall td tp,
    code_go raw m l = Some td -> code_go raw false l = Some tp ->
    sep_ins td tp /\ (td = [] -> tp = []) /\ (m = false -> td = tp).
  Proof.
    induction l as [|s r IH]; intros td tp Hd Hp; cbn [code_go] in Hd, Hp.
    - inversion Hd; inversion Hp; subst. split; [constructor|split; intros; reflexivity].
    - destruct (cstmt funcs raw s) as [a|]; [|discriminate].
      fold (code_go raw m) in Hd. fold (code_go raw false) in Hp.
      destruct (code_go raw m r) as [bd|]; [|discriminate]. destruct (code_go raw false r) as [bp|]; [|discriminate].
      destruct (IH bd bp eq_refl eq_refl) as [H1 [H2 H3]]. inversion Hd; inversion Hp; subst. cbn [app].
      split; [|split].
      + apply si_pre. destruct m; [apply si_sep|]; exact H1.
      + intros E. apply app_eq_nil in E. destruct E as [Ea E]. apply app_eq_nil in E. destruct E as [_ Eb].
        rewrite Ea, (H2 Eb). reflexivity.
      + intros ->. cbn [app]. rewrite (H3 eq_refl). reflexivity.
  Qed.

  Lemma code_go_nonempty raw l : forall tp,
    existsb stmt_emits l = true -> code_go raw false l = Some tp -> tp <> [].
  Proof.
    induction l as [|s r IH]; intros tp He Hp; [discriminate|]. cbn [code_go] in Hp. fold (code_go raw false) in Hp.
    destruct (cstmt funcs raw s) as [a|] eqn:Ea; [|discriminate].
    destruct (code_go raw false r) as [bp|] eqn:Eb; [|discriminate]. inversion Hp; subst. cbn [app].
    cbn [existsb] in He. apply orb_true_iff in He. destruct He as [He|He].
    - pose proof (cstmt_nonempty _ _ _ He Ea). destruct a; [contradiction|discriminate].
    - pose proof (IH bp He eq_refl). destruct a; [|discriminate]. destruct bp; [contradiction|discriminate].
  Qed.

  Lemma ccode_sim raw stmts td tp :
    Nat.leb (length stmts) 1 || existsb stmt_emits stmts = true ->
    ccode funcs true raw stmts = Some td -> ccode funcs false raw stmts = Some tp -> sim td tp.
  Proof.
    intros Hdom Hd Hp. rewrite ccode_go in Hd, Hp. cbn [andb] in Hd, Hp.
    destruct (code_go_rel raw _ stmts td tp Hd Hp) as [H1 [H2 H3]].
    split; [exact H1|]. split; [exact H2|]. intros E.
    apply orb_true_iff in Hdom. destruct Hdom as [Hl|He].
    - assert (Em : Nat.ltb 1 (length stmts) = false).
      { apply Nat.ltb_ge. apply Nat.leb_le in Hl. exact Hl. }
      rewrite (H3 Em). exact E.
    - exfalso. exact (code_go_nonempty raw stmts tp He Hp E).
  Qed.

  (* ---- node lists ------------------------------------------------------------------------------------- *)
  Definition cnodes_fx (dbg : bool) (f : nat) :=
    fix go (raw0 : bool) (st0 : cstate) (l : list pnode) {struct l} : option (list tok * bool * cstate) :=
      match l with
      | [] => Some ([], raw0, st0)
      | x0 :: r =>
        match cnode funcs dbg f raw0 st0 x0 with
        | Some (a, raw1, st1) =>
          match go raw1 st1 r with
          | Some (b, raw2, st2) => Some (a ++ b, raw2, st2)
          | None => None
          end
        | None => None
        end
      end.
  Lemma cnodes_fx_cons dbg f raw st x r :
    cnodes_fx dbg f raw st (x :: r) =
    match cnode funcs dbg f raw st x with
    | Some (a, raw1, st1) =>
      match cnodes_fx dbg f raw1 st1 r with
      | Some (b, raw2, st2) => Some (a ++ b, raw2, st2)
      | None => None
      end
    | None => None
    end.
  Proof. reflexivity. Qed.

  Definition T_node (f : nat) : Prop :=
    forall n raw sd sp td rd sd' tp rp sp',
      dom_node n = true -> cs_rel sd sp ->
      cnode funcs true f raw sd n = Some (td, rd, sd') -> cnode funcs false f raw sp n = Some (tp, rp, sp') ->
      sim td tp /\ rd = rp /\ cs_rel sd' sp'.
  Definition T_nodes (f : nat) : Prop :=
    forall l raw sd sp td rd sd' tp rp sp',
      forallb dom_node l = true -> cs_rel sd sp ->
      cnodes_fx true f raw sd l = Some (td, rd, sd') -> cnodes_fx false f raw sp l = Some (tp, rp, sp') ->
      sim td tp /\ rd = rp /\ cs_rel sd' sp'.

  Lemma T_nodes_of f : T_node f -> T_nodes f.
  Proof.
    intros Hn l. induction l as [|x r IH]; intros raw sd sp td rd sd' tp rp sp' Hdom Hcs Hd Hp.
    - inversion Hd; inversion Hp; subst. split; [apply sim_refl|split; [reflexivity|exact Hcs]].
    - rewrite cnodes_fx_cons in Hd, Hp. cbn [forallb] in Hdom. apply andb_true_iff in Hdom. destruct Hdom as [Hx Hr].
      destruct (cnode funcs true f raw sd x) as [[[ad r1d] s1d]|] eqn:Ead; [|discriminate].
      destruct (cnode funcs false f raw sp x) as [[[ap r1p] s1p]|] eqn:Eap; [|discriminate].
      destruct (Hn _ _ _ _ _ _ _ _ _ _ Hx Hcs Ead Eap) as [Ha [Er Hcs1]]. subst r1p.
      destruct (cnodes_fx true f r1d s1d r) as [[[bd r2d] s2d]|] eqn:Ebd; [|discriminate].
      destruct (cnodes_fx false f r1d s1p r) as [[[bp r2p] s2p]|] eqn:Ebp; [|discriminate].
      destruct (IH _ _ _ _ _ _ _ _ _ Hr Hcs1 Ebd Ebp) as [Hb [Er2 Hcs2]].
      inversion Hd; inversion Hp; subst. split; [apply sim_app; assumption|split; [reflexivity|exact Hcs2]].
  Qed.

  (* ---- case ------------------------------------------------------------------------------------------- *)
  Definition case_fx (dbg : bool) (f : nat) (et : bytes) (ea : targ) :=
    fix go (raw : bool) (st : cstate) (first : bool) (l : list (option jexpr * list pnode))
      : option (list tok * bool * cstate) :=
      match l with
      | [] => Some ([], raw, st)
      | (None, _) :: r => go raw st first r
      | (Some w, body) :: r =>
        match carg funcs true w with
        | Some (wt, Some wa) =>
          match cnodes_fx dbg f raw st body with
          | Some (bt, raw1, st1) =>
            match go raw1 st1 false r with
            | Some (rest, raw2, st2) =>
              let p := ([], [[AIdent (B "__op__eql"); ea; wa]]) in
              let head :=
                if first then TAct (B "{{- if __op__eql " ++ et ++ sp ++ wt ++ B " }}") true false (AcIf p)
                else TAct (B "{{- else if __op__eql " ++ et ++ sp ++ wt ++ B " }}") true false (AcElseIf p) in
              Some (head :: bt ++ rest, raw2, st2)
            | None => None
            end
          | None => None
          end
        | _ => None
        end
      end.

  Lemma case_rel f et ea : T_nodes f ->
    forall l raw sd sp first td rd sd' tp rp sp',
      forallb (fun w => forallb dom_node (snd w)) l = true -> cs_rel sd sp ->
      case_fx true f et ea raw sd first l = Some (td, rd, sd') ->
      case_fx false f et ea raw sp first l = Some (tp, rp, sp') ->
      sim td tp /\ rd = rp /\ cs_rel sd' sp'.
  Proof.
    intros Hns l. induction l as [|[[w|] body] r IH]; intros raw sd sp first td rd sd' tp rp sp' Hdom Hcs Hd Hp.
    - inversion Hd; inversion Hp; subst. split; [apply sim_refl|split; [reflexivity|exact Hcs]].
    - cbn [case_fx] in Hd, Hp. fold (case_fx true f et ea) in Hd. fold (case_fx false f et ea) in Hp.
      cbn [forallb snd] in Hdom. apply andb_true_iff in Hdom. destruct Hdom as [Hb Hr].
      destruct (carg funcs true w) as [[wt [wa|]]|]; try discriminate.
      destruct (cnodes_fx true f raw sd body) as [[[btd r1d] s1d]|] eqn:Ebd; [|discriminate].
      destruct (cnodes_fx false f raw sp body) as [[[btp r1p] s1p]|] eqn:Ebp; [|discriminate].
      destruct (Hns _ _ _ _ _ _ _ _ _ _ Hb Hcs Ebd Ebp) as [[Hbt _] [Er Hcs1]]. subst r1p.
      destruct (case_fx true f et ea r1d s1d false r) as [[[restd r2d] s2d]|] eqn:Erd; [|discriminate].
      destruct (case_fx false f et ea r1d s1p false r) as [[[restp r2p] s2p]|] eqn:Erp; [|discriminate].
      destruct (IH _ _ _ _ _ _ _ _ _ _ Hr Hcs1 Erd Erp) as [[Hrest _] [Er2 Hcs2]].
      inversion Hd; inversion Hp; subst. split; [|split; [reflexivity|exact Hcs2]].
      apply sim_ne; [|discriminate|discriminate]. apply si_cons, sep_ins_app; assumption.
    - cbn [case_fx] in Hd, Hp. fold (case_fx true f et ea) in Hd. fold (case_fx false f et ea) in Hp.
      cbn [forallb] in Hdom. apply andb_true_iff in Hdom. destruct Hdom as [_ Hr].
      exact (IH _ _ _ _ _ _ _ _ _ _ Hr Hcs Hd Hp).
  Qed.

  Lemma dflt_dom (whens : list (option jexpr * list pnode)) : forall (acc : option (list pnode)) body,
    forallb (fun w => forallb dom_node (snd w)) whens = true ->
    (match acc with Some b => forallb dom_node b = true | None => True end) ->
    fold_left (fun acc w => match fst w with None => Some (snd w) | Some _ => acc end) whens acc = Some body ->
    forallb dom_node body = true.
  Proof.
    induction whens as [|[w b] r IH]; intros acc body Hdom Hacc H; cbn [fold_left] in H.
    - subst acc. exact Hacc.
    - cbn [forallb snd] in Hdom. apply andb_true_iff in Hdom. destruct Hdom as [Hb Hr].
      apply (IH _ body Hr) in H; [exact H|]. cbn [fst snd]. destruct w; [exact Hacc|exact Hb].
  Qed.

  (* ---- every node kind ----------------------------------------------------------------------------------- *)

  Ltac si_step :=
    first [assumption | apply si_cons | apply si_post; assumption | apply si_pre | exact (sep_ins_refl _)].

  Lemma T_node_all fuel : T_node fuel.
  Proof.
    induction fuel as [|f IHf]; intros n raw sd sp td rd sd' tp rp sp' Hdom Hcs Hd Hp; [discriminate|].
    pose proof (T_nodes_of f IHf) as Hns.
    destruct n; cbn [cnode] in Hd, Hp; fold (cnodes_fx true f) in Hd; fold (cnodes_fx false f) in Hp.
    - (* Tag *)
      rewrite dom_tag in Hdom.
      destruct (has_delim name); [discriminate|].
      destruct (cnodes_fx true f raw sd body) as [[[btd r1d] s1d]|] eqn:Ebd; [|discriminate].
      destruct (cnodes_fx false f raw sp body) as [[[btp r1p] s1p]|] eqn:Ebp; [|discriminate].
      destruct (cattrs funcs attrs ablocks) as [at_|]; [|discriminate].
      destruct (Hns _ _ _ _ _ _ _ _ _ _ Hdom Hcs Ebd Ebp) as [[Hbt _] [Er Hcs1]]. subst r1p.
      rewrite !andb_false_r in Hp. rewrite !andb_true_r in Hd. cbn [negb andb] in Hd, Hp.
      rewrite !andb_false_r in Hd. rewrite app_nil_r in Hp.
      inversion Hd; inversion Hp; subst. split; [|split; [reflexivity|exact Hcs1]].
      apply sim_ne.
      + set (open := TText (B "<" ++ name) :: at_ ++ [tx ">"]).
        set (close := [TText (B "</" ++ name ++ B ">")]).
        assert (Hcore : sep_ins
                  (if is_void name then open
                   else if negb (forallb node_inline body) then open ++ sep ++ btd ++ sep ++ close
                        else open ++ btd ++ close)
                  (if is_void name then open
                   else if beqb name (B "script") && existsb (Ascii.eqb (ascii_of_N 10)) (show_toks btp)
                        then open ++ [TText nl] ++ btp ++ [TText nl] ++ close
                        else open ++ btp ++ close)).
        { destruct (is_void name); [apply sep_ins_refl|].
          assert (H1 : sep_ins (btd ++ close) (btp ++ close)) by (apply si_post, Hbt).
          assert (H2 : sep_ins (btd ++ sep ++ close) (btp ++ close)).
          { apply sep_ins_app; [exact Hbt|]. apply si_sep, sep_ins_refl. }
          destruct (negb (forallb node_inline body)), (beqb name (B "script") && _); apply si_pre.
          - apply si_sep. cbn [app]. apply si_pnl.
            apply sep_ins_app; [exact Hbt|]. apply si_sep. cbn [app]. apply si_pnl, sep_ins_refl.
          - apply si_sep. exact H2.
          - cbn [app]. apply si_pnl. apply sep_ins_app; [exact Hbt|]. cbn [app]. apply si_pnl, sep_ins_refl.
          - exact H1. }
        destruct (negb inline); [apply si_sep_end|rewrite app_nil_r]; exact Hcore.
      + destruct (is_void name); [|destruct (negb (forallb node_inline body))]; (intros E; cbn [app] in E; discriminate E).
      + repeat match goal with |- context [if ?c then _ else _] => destruct c end;
          (intros E; cbn [app] in E; discriminate E).
    - (* Text *)
      destruct (ctext s) as [t|]; [|discriminate]. inversion Hd; inversion Hp; subst.
      split; [apply sim_refl|split; [reflexivity|exact Hcs]].
    - (* Code *)
      cbn [dom_node] in Hdom.
      destruct (ccode funcs true (negb must_escape) stmts) as [cd|] eqn:Ecd; [|discriminate].
      destruct (ccode funcs false (negb must_escape) stmts) as [cp|] eqn:Ecp; [|discriminate].
      inversion Hd; inversion Hp; subst.
      split; [exact (ccode_sim _ _ _ _ Hdom Ecd Ecp)|split; [reflexivity|exact Hcs]].
    - (* Conditional *)
      rewrite dom_cond in Hdom. apply andb_true_iff in Hdom. destruct Hdom as [Hdc Hda].
      destruct (carg funcs true test) as [[tq [ta|]]|]; try discriminate.
      destruct (cnodes_fx true f raw sd cons) as [[[ctd r1d] s1d]|] eqn:Ecd; [|discriminate].
      destruct (cnodes_fx false f raw sp cons) as [[[ctp r1p] s1p]|] eqn:Ecp; [|discriminate].
      destruct (Hns _ _ _ _ _ _ _ _ _ _ Hdc Hcs Ecd Ecp) as [[Hct _] [Er Hcs1]]. subst r1p.
      destruct alt as [a|].
      + destruct (cnode funcs true f r1d s1d a) as [[[atd r2d] s2d]|] eqn:Ead; [|discriminate].
        destruct (cnode funcs false f r1d s1p a) as [[[atp r2p] s2p]|] eqn:Eap; [|discriminate].
        destruct (IHf _ _ _ _ _ _ _ _ _ _ Hda Hcs1 Ead Eap) as [[Hat _] [Er2 Hcs2]]. subst r2p.
        inversion Hd; inversion Hp; subst. split; [|split; [reflexivity|exact Hcs2]].
        apply sim_ne; [|discriminate|discriminate].
        apply si_cons, sep_ins_app; [exact Hct|]. apply si_cons, si_post, Hat.
      + inversion Hd; inversion Hp; subst. split; [|split; [reflexivity|exact Hcs1]].
        apply sim_ne; [|discriminate|discriminate]. apply si_cons, si_post, Hct.
    - (* Case *)
      rewrite dom_case in Hdom.
      destruct (carg funcs true e) as [[et [ea|]]|]; try discriminate.
      destruct (negb _); [discriminate|].
      fold (case_fx true f et ea) in Hd. fold (case_fx false f et ea) in Hp.
      destruct (case_fx true f et ea raw sd true whens) as [[[t1d r1d] s1d]|] eqn:Ewd; [|discriminate].
      destruct (case_fx false f et ea raw sp true whens) as [[[t1p r1p] s1p]|] eqn:Ewp; [|discriminate].
      destruct (case_rel f et ea Hns _ _ _ _ _ _ _ _ _ _ _ Hdom Hcs Ewd Ewp) as [[Hw _] [Er Hcs1]]. subst r1p.
      destruct (fold_left _ whens None) as [body|] eqn:Edf.
      + pose proof (dflt_dom whens None body Hdom I Edf) as Hdb.
        destruct (cnodes_fx true f r1d s1d body) as [[[btd r2d] s2d]|] eqn:Ebd; [|discriminate].
        destruct (cnodes_fx false f r1d s1p body) as [[[btp r2p] s2p]|] eqn:Ebp; [|discriminate].
        destruct (Hns _ _ _ _ _ _ _ _ _ _ Hdb Hcs1 Ebd Ebp) as [[Hbt _] [Er2 Hcs2]]. subst r2p.
        inversion Hd; inversion Hp; subst. split; [|split; [reflexivity|exact Hcs2]].
        apply sim_ne.
        * apply sep_ins_app; [exact Hw|]. apply si_cons, si_post, Hbt.
        * intros E. apply app_eq_nil in E. destruct E as [_ E]. discriminate E.
        * intros E. apply app_eq_nil in E. destruct E as [_ E]. discriminate E.
      + inversion Hd; inversion Hp; subst. split; [|split; [reflexivity|exact Hcs1]].
        apply sim_ne.
        * apply si_post, Hw.
        * intros E. apply app_eq_nil in E. destruct E as [_ E]. discriminate E.
        * intros E. apply app_eq_nil in E. destruct E as [_ E]. discriminate E.
    - (* Each *)
      rewrite dom_each in Hdom.
      destruct (negb (is_ident v) || _); [discriminate|].
      destruct (carg funcs true obj) as [[ot [oa|]]|]; try discriminate.
      destruct (cnodes_fx true f raw sd body) as [[[btd r1d] s1d]|] eqn:Ebd; [|discriminate].
      destruct (cnodes_fx false f raw sp body) as [[[btp r1p] s1p]|] eqn:Ebp; [|discriminate].
      destruct (Hns _ _ _ _ _ _ _ _ _ _ Hdom Hcs Ebd Ebp) as [[Hbt _] [Er Hcs1]]. subst r1p.
      inversion Hd; inversion Hp; subst. split; [|split; [reflexivity|exact Hcs1]].
      apply sim_ne; [|discriminate|discriminate]. apply si_cons, si_post, Hbt.
    - (* While *)
      rewrite dom_while in Hdom.
      destruct (carg funcs true test) as [[tq [ta|]]|]; try discriminate.
      destruct (cnodes_fx true f raw sd body) as [[[btd r1d] s1d]|] eqn:Ebd; [|discriminate].
      destruct (cnodes_fx false f raw sp body) as [[[btp r1p] s1p]|] eqn:Ebp; [|discriminate].
      destruct (Hns _ _ _ _ _ _ _ _ _ _ Hdom Hcs Ebd Ebp) as [[Hbt _] [Er Hcs1]]. subst r1p.
      inversion Hd; inversion Hp; subst. split; [|split; [reflexivity|exact Hcs1]].
      apply sim_ne; [|discriminate|discriminate]. apply si_cons, si_post, Hbt.
    - (* Mixin definition *)
      rewrite dom_mdef in Hdom.
      destruct (negb (is_ident name)); [discriminate|].
      pose proof (lookup_mix name _ _ (cr_mix _ _ Hcs)) as HL.
      destruct (lookup name (cs_mixins sd)), (lookup name (cs_mixins sp)); try contradiction.
      + inversion Hd; inversion Hp; subst. split; [apply sim_refl|split; [reflexivity|exact Hcs]].
      + destruct (mixin_param_toks params) as [pt|]; [|discriminate].
        destruct (cnodes_fx true f raw sd body) as [[[btd r1d] s1d]|] eqn:Ebd; [|discriminate].
        destruct (cnodes_fx false f raw sp body) as [[[btp r1p] s1p]|] eqn:Ebp; [|discriminate].
        destruct (Hns _ _ _ _ _ _ _ _ _ _ Hdom Hcs Ebd Ebp) as [[Hbt _] [Er [Hm Hb Hc]]]. subst r1p.
        inversion Hd; inversion Hp; subst. split; [apply sim_refl|split; [reflexivity|]].
        split; cbn [cs_mixins cs_blocks cs_counter]; [|exact Hb|exact Hc].
        apply Forall2_app; [exact Hm|]. constructor; [|constructor]. split; [reflexivity|]. cbn [snd].
        cbn [app]. repeat si_step.
    - (* Mixin call *)
      rewrite dom_mcall in Hdom.
      destruct (negb (is_ident name)); [discriminate|].
      match type of Hp with match ?g with _ => _ end = _ => destruct g as [[att ata]|] end; [|discriminate].
      destruct (cnodes_fx true f raw sd body) as [[[btd r1d] s1d]|] eqn:Ebd; [|discriminate].
      destruct (cnodes_fx false f raw sp body) as [[[btp r1p] s1p]|] eqn:Ebp; [|discriminate].
      destruct (carg funcs true (JArr args)) as [[argt [arga|]]|]; try discriminate.
      destruct (Hns _ _ _ _ _ _ _ _ _ _ Hdom Hcs Ebd Ebp) as [[Hbt Hbe] [Er [Hm Hb Hc]]]. subst r1p.
      destruct btp as [|bp0 btp'].
      + rewrite (proj2 Hbe eq_refl) in Hd. inversion Hd; inversion Hp; subst.
        split; [apply sim_refl|split; [reflexivity|split; assumption]].
      + destruct btd as [|bd0 btd']; [pose proof (proj1 Hbe eq_refl) as E; discriminate E|].
        destruct (beqb (show_toks (bd0 :: btd')) []); [discriminate|].
        destruct (beqb (show_toks (bp0 :: btp')) []); [discriminate|].
        rewrite Hc in Hd. inversion Hd; inversion Hp; subst.
        split; [apply sim_refl|split; [reflexivity|]].
        split; cbn [cs_mixins cs_blocks cs_counter]; [exact Hm| |reflexivity].
        apply Forall2_app; [exact Hb|]. constructor; [|constructor].
        cbn [app]. repeat apply si_cons. exact (si_post _ _ _ Hbt).
    - (* Mixin block *)
      inversion Hd; inversion Hp; subst. split; [apply sim_refl|split; [reflexivity|exact Hcs]].
    - (* Doctype *)
      destruct (has_delim v); [discriminate|]. inversion Hd; inversion Hp; subst.
      split; [apply sim_refl|split; [reflexivity|exact Hcs]].
    - (* Block *)
      rewrite dom_block in Hdom. exact (Hns _ _ _ _ _ _ _ _ _ _ Hdom Hcs Hd Hp).
    - (* Comment *)
      inversion Hd; inversion Hp; subst. split; [apply sim_refl|split; [reflexivity|exact Hcs]].
  Qed.

  Theorem compile_tokens nodes td tp :
    dom_C13 nodes = true ->
    compile funcs true nodes = Some td -> compile funcs false nodes = Some tp -> sep_ins td tp.
  Proof.
    unfold compile, dom_C13. intros Hdom Hd Hp.
    destruct (cnode funcs true _ false cs0 (PBlock nodes)) as [[[md r1d] s1d]|] eqn:Ed; [|discriminate].
    destruct (cnode funcs false _ false cs0 (PBlock nodes)) as [[[mp r1p] s1p]|] eqn:Ep; [|discriminate].
    inversion Hd; inversion Hp; subst.
    assert (H0 : cs_rel cs0 cs0) by (split; cbn; constructor).
    rewrite <- dom_block in Hdom.
    destruct (T_node_all _ _ _ _ _ _ _ _ _ _ _ Hdom H0 Ed Ep) as [[Hm _] [_ [Hx Hb _]]].
    apply sep_ins_app; [exact Hm|]. apply sep_ins_app; [apply si_concat, Hb|apply si_mixins, Hx].
  Qed.
End Tokens.

(* ================================================================================================== *)
(* Part F  the chain compile -> lex -> parse -> execute; examples *)
(* ================================================================================================== *)
(* the model's render of a pug tree in one mode: compile, lex + parse, execute *)
Definition render (funcs : list bytes) (dbg : bool) (nodes : list pnode) (data : dval) : outcome :=
  match compile funcs dbg nodes with
  | Some ts => match parse_program ts with Some p => run_program p data | None => OUnmod end
  | None => OUnmod
  end.

Lemma model_out_render dbg c d : model_out dbg c d = render (c_funcs c) dbg (c_nodes c) d.
Proof.
  unfold model_out, model_program, model_toks, render.
  destruct (compile (c_funcs c) dbg (c_nodes c)) as [ts|]; [|reflexivity].
  destruct (parse_program ts); reflexivity.
Qed.

Theorem render_ws funcs nodes data od op :
  dom_C13 nodes = true ->
  render funcs true nodes data = OOk od -> render funcs false nodes data = OOk op -> WsSub od op.
Proof.
  unfold render. intros Hdom Hd Hp.
  destruct (compile funcs true nodes) as [td|] eqn:Ecd; [|discriminate].
  destruct (compile funcs false nodes) as [tp|] eqn:Ecp; [|discriminate].
  destruct (parse_program td) as [pd|] eqn:Epd; [|discriminate].
  destruct (parse_program tp) as [pp|] eqn:Epp; [|discriminate].
  eapply run_program_rel; [|exact Hd|exact Hp].
  eapply parse_program_rel; [|exact Epd|exact Epp].
  eapply compile_tokens; eassumption.
Qed.

Theorem main_ws c d od op :
  dom_C13 (c_nodes c) = true ->
  model_out true c d = OOk od -> model_out false c d = OOk op -> ws_subseq od op = true.
Proof.
  rewrite !model_out_render. intros Hdom Hd Hp. apply ws_subseq_complete. eapply render_ws; eassumption.
Qed.

(* ---- examples ---------------------------------------------------------------------------------------- *)
(* div
     |   lead
     p  x
     |  trail
     - var a = 1; var b = 2
     = a
     |  after
   |   end                                  (block-level tags, multi-statement code) *)
Definition ex_nodes : list pnode :=
  [PTag (B "div") false [] []
     [PText (B "  lead "); PTag (B "p") false [] [] [PText (B " x ")]; PText (B " trail  ");
      PCode [SVar [JVar (B "a") (Some (JNum 1))]; SVar [JVar (B "b") (Some (JNum 2))]] false false;
      PCode [SExpr (JId (B "a"))] true true; PText (B " after")];
   PText (B "  end")].
Definition ex_data : dval := DMap [].

Example ex_in_domain : dom_C13 ex_nodes = true.
Proof. reflexivity. Qed.
Example ex_prod : render [] false ex_nodes ex_data = OOk (B "<div>  lead <p> x </p> trail  1 after</div>  end").
Proof. vm_compute. reflexivity. Qed.
Example ex_debug : render [] true ex_nodes ex_data = OOk (B "<div>lead <p> x </p>trail  1 after</div>end").
Proof. vm_compute. reflexivity. Qed.
Example ex_tokens_differ : compile [] true ex_nodes <> compile [] false ex_nodes.
Proof. vm_compute. discriminate. Qed.
Example ex_related :
  ws_subseq (B "<div>lead <p> x </p>trail  1 after</div>end") (B "<div>  lead <p> x </p> trail  1 after</div>  end") = true.
Proof. vm_compute. reflexivity. Qed.
(* the relation is one-directional: production's output is not the debug output minus white space *)
Example ex_not_converse :
  ws_subseq (B "<div>  lead <p> x </p> trail  1 after</div>  end") (B "<div>lead <p> x </p>trail  1 after</div>end") = false.
Proof. vm_compute. reflexivity. Qed.

(* a multi-line script: production wraps the content in line feeds, debug mode (after repair F-C13-a) does not;
   a block-level child inside the script gets separators, whose own line feeds are not script content *)
Definition ex_script : list pnode :=
  [PTag (B "script") false [] [] [PTag (B "div") false [] [] [PText (B "x")]];
   PTag (B "script") false [] [] [PText (B ("var a;" ++ String (ascii_of_N 10) "a++;"))]].
Example ex_script_prod :
  render [] false ex_script ex_data =
  OOk (B ("<script><div>x</div></script><script>" ++ String (ascii_of_N 10) ("var a;" ++ String (ascii_of_N 10) ("a++;" ++ String (ascii_of_N 10) "</script>")))).
Proof. vm_compute. reflexivity. Qed.
Example ex_script_debug :
  render [] true ex_script ex_data =
  OOk (B ("<script><div>x</div></script><script>var a;" ++ String (ascii_of_N 10) "a++;</script>")).
Proof. vm_compute. reflexivity. Qed.

(* white space that is not one of the lexer's four bytes (form feed, no-break space) is kept in both modes *)
Example ex_other_space :
  render [] true [PText (B ("a" ++ String (ascii_of_N 12) "")); PTag (B "div") false [] [] []; PText (B (String (ascii_of_N 12) "b"))] ex_data
  = render [] false [PText (B ("a" ++ String (ascii_of_N 12) "")); PTag (B "div") false [] [] []; PText (B (String (ascii_of_N 12) "b"))] ex_data.
Proof. vm_compute. reflexivity. Qed.

(* the two readings the property statement gives, for the model's two renders *)
Corollary main_erase c d od op :
  dom_C13 (c_nodes c) = true ->
  model_out true c d = OOk od -> model_out false c d = OOk op -> erase_ws od = erase_ws op.
Proof. intros H1 H2 H3. apply ws_subseq_erase. eapply main_ws; eassumption. Qed.
Corollary main_no_new_byte c d od op :
  dom_C13 (c_nodes c) = true ->
  model_out true c d = OOk od -> model_out false c d = OOk op ->
  forall b, count_occ ascii_dec od b <= count_occ ascii_dec op b.
Proof. intros H1 H2 H3. apply ws_subseq_no_more_bytes. eapply main_ws; eassumption. Qed.

(* the neutral action: prints the empty string, changes nothing *)
Lemma neutral_step defs f dot s :
  exec_node defs (S f) dot s (NAction neutral_pipe) = Ok (emit s []) /\
  output (emit s []) = output s /\ x_frames (emit s []) = x_frames s /\ x_heap (emit s []) = x_heap s.
Proof.
  split; [apply neutral_exec|]. split; [rewrite output_emit; apply app_nil_r|split; reflexivity].
Qed.

(* outside dom_C13: a code line whose statements all compile to nothing, alone in the body of a mixin call.  Debug mode
   turns the body into a block of two separators (block_m_0), production passes no block, so the later block is numbered
   differently and the two token lists are NOT related by insertion — the reason for the domain predicate of
   compile_tokens.  The outputs are equal all the same: the property itself is not refuted by this tree. *)
Definition ex_off_domain : list pnode :=
  [PMixinDef (B "m") [] [PText (B "["); PMixinBlock; PText (B "]")];
   PMixinCall (B "m") [] [] [PCode [SBlock []; SBlock []] false false];
   PMixinCall (B "m") [] [] [PText (B "x")]].
Example ex_off_domain_outputs :
  dom_C13 ex_off_domain = false /\
  render [] true ex_off_domain ex_data = OOk (B "[][x]") /\ render [] false ex_off_domain ex_data = OOk (B "[][x]").
Proof. vm_compute. repeat split; reflexivity. Qed.
