(* The fuel statement of Proofs/ExecFuelPure.v for whole renders of the proved control fragment (Pug/Lower.v with the
   scalar expressions [goodS]): the executions the simulation of Proofs/C02SimProofs.v provides end with SOME fuel;
   on a tree of pure pipelines whose measure is within [exec_fuel] they therefore end, the same way, with the fuel
   [run_program] uses — the program-level theorems without the "or out of fuel" disjunct.
   The measure is a real restriction of the MODEL (the Go engine has no fuel): [w3_refuted] is a program of the
   fragment, three nested while loops deep, that S renders and on which [run_program] runs out of fuel. *)
From PV Require Import Base.Bytes Base.Escape Js.Ast Tmpl.Value Tmpl.IR Tmpl.Runtime Tmpl.Exec Pug.Ast Pug.Compile
  Pug.Lower Spec.Sem Proofs.ExecMono Proofs.C01EvalProofs Proofs.C02SimProofs Proofs.C02InstProofs Run.Judge_Core
  Proofs.ExecFuelProofs Proofs.ExecFuelPure.
Require Import Lia.

(* ---- the measure grows with the iteration bound -------------------------------------------------------------- *)
Lemma cost_mono L L' : L <= L' ->
  (forall n, cost_node L n <= cost_node L' n) /\ (forall ns, cost_nodes L ns <= cost_nodes L' ns).
Proof.
  intros HL.
  assert (Hn : forall n, cost_node L n <= cost_node L' n).
  { fix IH 1. intros n.
    assert (Hl : forall ns, cost_nodes L ns <= cost_nodes L' ns).
    { induction ns as [|x r IHr]; [cbn [cost_nodes]; lia|]. rewrite !cost_nodes_cons. pose proof (IH x). lia. }
    destruct n as [t|p|p th el|p body el|name isv arg]; try (cbn [cost_node]; lia).
    - rewrite !cost_node_if. pose proof (Hl th). pose proof (Hl el). lia.
    - rewrite !cost_node_range. pose proof (Hl body). pose proof (Hl el). lia. }
  split; [exact Hn|].
  induction ns as [|x r IHr]; [cbn [cost_nodes]; lia|]. rewrite !cost_nodes_cons. pose proof (Hn x). lia.
Qed.

(* ---- the size of the initial heap: the widest collection of the data ------------------------------------------- *)
Fixpoint dwidth (d : dval) : nat :=
  match d with
  | DArr l => Nat.max (length l) (list_max (map dwidth l))
  | DMap l => Nat.max (length l) (list_max (map (fun kx => dwidth (snd kx)) l))
  | _ => 0
  end.

Lemma hsize_app h o : hsize (h ++ [o]) = Nat.max (hsize h) (osize o).
Proof. induction h as [|x r IH]; cbn [app hsize]; [lia|rewrite IH; lia]. Qed.

Lemma insert_length {A} k (v : A) m : length (insert k v m) <= S (length m).
Proof.
  induction m as [|[k' v'] r IH]; cbn [insert length]; [lia|]. destruct (beqb k k'); cbn [length]; lia.
Qed.

(* the local loops of convert, named *)
Definition cv_list := fix go (l : list dval) (h : heap) : list val * heap :=
  match l with
  | [] => ([], h)
  | x :: r => let '(v, h1) := convert h x in let '(vs, h2) := go r h1 in (v :: vs, h2)
  end.
Definition cv_items := fix go (l : list (bytes * dval)) (h : heap) : list (bytes * val) * heap :=
  match l with
  | [] => ([], h)
  | (k, x) :: r => let '(v, h1) := convert h x in let '(vs, h2) := go r h1 in (insert k v vs, h2)
  end.
Lemma convert_arr_eq h l :
  convert h (DArr l) = let '(items, h1) := cv_list l h in let '(loc, h2) := alloc h1 (OArr items) in (VArr loc, h2).
Proof. reflexivity. Qed.
Lemma convert_map_eq h l :
  convert h (DMap l) = let '(items, h1) := cv_items l h in let '(loc, h2) := alloc h1 (OMap items []) in (VMap loc, h2).
Proof. reflexivity. Qed.

Lemma convert_hsize : forall d h, hsize (snd (convert h d)) <= Nat.max (hsize h) (dwidth d).
Proof.
  fix IH 1. intros d h. destruct d as [|b|z|s|l|l]; try (cbn [convert snd dwidth]; lia).
  - (* arrays *)
    rewrite convert_arr_eq. cbn [dwidth].
    assert (Hgo : forall l h, length (fst (cv_list l h)) = length l /\ hsize (snd (cv_list l h)) <= Nat.max (hsize h) (list_max (map dwidth l))).
    { clear l h. induction l as [|x r IHr]; intros h; [cbn; lia|].
      cbn [cv_list map list_max fold_right]. fold cv_list. fold (list_max (map dwidth r)).
      pose proof (IH x h) as Hx. destruct (convert h x) as [v h1]. cbn [snd] in Hx.
      specialize (IHr h1). destruct (cv_list r h1) as [vs h2]. cbn [fst snd length] in *. lia. }
    specialize (Hgo l h). destruct (cv_list l h) as [items h1]. cbn [fst snd] in Hgo. unfold alloc. cbn [snd].
    rewrite hsize_app. cbn [osize]. lia.
  - (* maps *)
    rewrite convert_map_eq. cbn [dwidth].
    assert (Hgo : forall l h, length (fst (cv_items l h)) <= length l /\ hsize (snd (cv_items l h)) <= Nat.max (hsize h) (list_max (map (fun kx => dwidth (snd kx)) l))).
    { clear l h. induction l as [|[k x] r IHr]; intros h; [cbn; lia|].
      cbn [cv_items map list_max fold_right snd]. fold cv_items. fold (list_max (map (fun kx => dwidth (snd kx)) r)).
      pose proof (IH x h) as Hx. destruct (convert h x) as [v h1]. cbn [snd] in Hx.
      specialize (IHr h1). destruct (cv_items r h1) as [vs h2]. cbn [fst snd length] in *.
      pose proof (insert_length k v vs). lia. }
    specialize (Hgo l h). destruct (cv_items l h) as [items h1]. cbn [fst snd] in Hgo. unfold alloc. cbn [snd].
    rewrite hsize_app. cbn [osize length]. lia.
Qed.

Lemma init_state_hsize d s : init_state d = Some s -> hsize (x_heap s) <= dwidth d.
Proof.
  unfold init_state. destruct d as [| | | | |l]; try discriminate.
  pose proof (convert_hsize (DMap l) []) as Hc. destruct (convert [] (DMap l)) as [v h1]. cbn [snd hsize] in Hc.
  destruct v; try discriminate. destruct (hget h1 l0) as [[items|items order]|]; try discriminate.
  unfold alloc. intros H. injection H as <-. cbn [x_heap]. rewrite hsize_app. cbn [osize length]. lia.
Qed.

(* ---- what the render needs ----------------------------------------------------------------------------------- *)
(* every pipeline pure, and the measure (iterations of one range action: while cap + 1, or the widest collection
   of the data if that is more) within the fuel of [run_program] *)
Definition fuel_ok (d : dval) (t : list tnode) : bool :=
  pure_nodes t && Nat.leb (cost_nodes (rounds (dwidth d)) t) exec_fuel.

Local Strategy opaque [while_cap exec_fuel expr_fuel].

Lemma fuel_ok_cost d s t :
  init_state d = Some s -> fuel_ok d t = true ->
  pure_nodes t = true /\ cost_nodes (rounds (hsize (x_heap s))) t <= exec_fuel.
Proof.
  intros Hi H. unfold fuel_ok in H. apply andb_prop in H. destruct H as [Hp Hc]. split; [exact Hp|].
  apply Nat.leb_le in Hc. pose proof (init_state_hsize d s Hi) as Hw.
  assert (Hr : rounds (hsize (x_heap s)) <= rounds (dwidth d)) by (unfold rounds; lia).
  pose proof (proj2 (cost_mono _ _ Hr) t). lia.
Qed.

(* with a fuel-ok tree, [run_program] says what any ending execution says *)
Theorem run_exact_ok t d s g s' :
  init_state d = Some s -> fuel_ok d t = true -> exec_nodes [] g VInvalid s t = Ok s' ->
  run_program {| p_main := t; p_defs := [] |} d = OOk (output s').
Proof.
  intros Hi Hf Hx. destruct (fuel_ok_cost d s t Hi Hf) as [Hp Hc].
  unfold run_program. rewrite Hi. cbn [p_main p_defs].
  rewrite (run_fuel_enough t d s g Hi Hp Hc) by (rewrite Hx; apply fin_ok). rewrite Hx. reflexivity.
Qed.
Theorem run_exact_panic t d s g :
  init_state d = Some s -> fuel_ok d t = true -> exec_nodes [] g VInvalid s t = Panic ->
  run_program {| p_main := t; p_defs := [] |} d = OPanic.
Proof.
  intros Hi Hf Hx. destruct (fuel_ok_cost d s t Hi Hf) as [Hp Hc].
  unfold run_program. rewrite Hi. cbn [p_main p_defs].
  rewrite (run_fuel_enough t d s g Hi Hp Hc) by (rewrite Hx; apply fin_panic). rewrite Hx. reflexivity.
Qed.

(* [exec_fuel] is as good as unbounded fuel: out of fuel means that no fuel at all lets the execution end *)
Theorem run_fuel_means_never t d s :
  init_state d = Some s -> fuel_ok d t = true ->
  run_program {| p_main := t; p_defs := [] |} d = OFuel ->
  forall g, exec_nodes [] g VInvalid s t = OutOfFuel.
Proof.
  intros Hi Hf Hr g. destruct (fuel_ok_cost d s t Hi Hf) as [Hp Hc].
  destruct (exec_nodes [] g VInvalid s t) as [s'| | |] eqn:Hx; [exfalso|exfalso|exfalso|reflexivity].
  - rewrite (run_exact_ok t d s g s' Hi Hf Hx) in Hr. discriminate Hr.
  - rewrite (run_exact_panic t d s g Hi Hf Hx) in Hr. discriminate Hr.
  - unfold run_program in Hr. rewrite Hi in Hr. cbn [p_main p_defs] in Hr.
    rewrite (run_fuel_enough t d s g Hi Hp Hc) in Hr by (rewrite Hx; unfold fin; discriminate).
    rewrite Hx in Hr. discriminate Hr.
Qed.

(* ---- the executions the simulation provides --------------------------------------------------------------------- *)
Local Strategy opaque [exec_nodes exec_node sem_nodes sem_node sem_fuel lower pnode_size].
Lemma program_each_ends funcs names nodes t d :
  lower_nodes funcs (goodS funcs names) nodes = Some t -> data_ok_arr names d = true ->
  exists s0, init_state d = Some s0 /\
    match sem_run nodes (sd_top d) with
    | SOut o [] => exists f s', exec_nodes [] f VInvalid s0 t = Ok s' /\ output s' = o
    | SError [] => exists f, exec_nodes [] f VInvalid s0 t = Panic
    | _ => True
    end.
Proof.
  intros Hl Hd. destruct d as [| | | | |l]; try discriminate Hd.
  cbn [data_ok_arr] in Hd. apply andb_prop in Hd. destruct Hd as [Hok _].
  exists (s_init_arr l). split; [exact (init_state_eq l)|].
  rewrite (sem_run_eq nodes l).
  pose proof (proj1 (sim_scalar funcs names (s_env (g_init_arr l)) sem_fuel) nodes [] None (g_init_arr l) (dead0 nodes)
                    (S (pnode_size (PBlock nodes))) t VInvalid (s_init_arr l)
                    (lower_nodes_list _ _ _ _ Hl) (R_init_arr names l (dead0 nodes) Hok eq_refl)) as Hsim.
  unfold sim_ok, sim_res in Hsim.
  assert (Hf0 : [] = s_flags (g_init_arr l)) by (unfold g_init_arr; destruct (sconv_env _ _); reflexivity).
  destruct (sem_nodes (s_env (g_init_arr l)) sem_fuel [] None (g_init_arr l) nodes) as [[g' m']|fl| |]; try exact I.
  - destruct (s_flags g') as [|k fl'] eqn:Hfl; [|exact I].
    destruct (Hsim Hf0) as (_ & f & s' & Hx & Rr). exists f, s'. split; [exact Hx|exact (R_out _ _ _ _ _ _ Rr)].
  - destruct fl as [|k fl']; [|exact I].
    destruct (Hsim Hf0) as (f & Hx). exists f. exact Hx.
Qed.

(* ---- the program-level theorems without the disjunct ------------------------------------------------------------- *)
Theorem program_each_exact funcs names nodes t d :
  lower_nodes funcs (goodS funcs names) nodes = Some t -> data_ok_arr names d = true -> fuel_ok d t = true ->
  match sem_run nodes (sd_top d) with
  | SOut o [] => run_program {| p_main := t; p_defs := [] |} d = OOk o
  | SError [] => run_program {| p_main := t; p_defs := [] |} d = OPanic
  | _ => True
  end.
Proof.
  intros Hl Hd Hf. destruct (program_each_ends funcs names nodes t d Hl Hd) as (s0 & Hi & H).
  destruct (sem_run nodes (sd_top d)) as [o fl|fl| |]; try exact I; destruct fl as [|k fl]; try exact I.
  - destruct H as (f & s' & Hx & <-). exact (run_exact_ok t d s0 f s' Hi Hf Hx).
  - destruct H as (f & Hx). exact (run_exact_panic t d s0 f Hi Hf Hx).
Qed.

Theorem program_scalar_exact funcs names nodes t d :
  lower_nodes funcs (goodS funcs names) nodes = Some t -> data_ok names d = true -> fuel_ok d t = true ->
  match sem_run nodes (sd_top d) with
  | SOut o [] => run_program {| p_main := t; p_defs := [] |} d = OOk o
  | SError [] => run_program {| p_main := t; p_defs := [] |} d = OPanic
  | _ => True
  end.
Proof. intros Hl Hd. exact (program_each_exact funcs names nodes t d Hl (data_ok_arr_of names d Hd)). Qed.

(* wherever S prescribes an output or the error, the model does not run out of fuel *)
Theorem program_each_no_fuel funcs names nodes t d :
  lower_nodes funcs (goodS funcs names) nodes = Some t -> data_ok_arr names d = true -> fuel_ok d t = true ->
  match sem_run nodes (sd_top d) with
  | SOut _ [] | SError [] => run_program {| p_main := t; p_defs := [] |} d <> OFuel
  | _ => True
  end.
Proof.
  intros Hl Hd Hf. pose proof (program_each_exact funcs names nodes t d Hl Hd Hf) as H.
  destruct (sem_run nodes (sd_top d)) as [o fl|fl| |]; try exact I; destruct fl as [|k fl]; try exact I;
    rewrite H; discriminate.
Qed.
