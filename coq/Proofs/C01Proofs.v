(* C01: lemmas relating the run-time helpers (Tmpl/Runtime.v, the model of runtime.go / tpl_funcs.go)
   to the JavaScript operators of the specification (Spec/Sem.v), and the operator table. *)
From PV Require Import Base.Bytes Base.Escape Js.Ast Tmpl.Value Tmpl.IR Tmpl.Runtime Tmpl.Exec Pug.Ast Pug.Compile
  Gen.OpsTable Spec.Sem.
Local Open Scope Z_scope.

(* ---- operator table: each core operator is lowered to the helper that implements it ---- *)
Definition core_binops : list (binop * bytes) :=
  [(BAdd, B "__op__add"); (BSub, B "__op__sub"); (BMul, B "__op__mul"); (BDiv, B "__op__slash"); (BMod, B "__op__mod");
   (BLt, B "__op__lt"); (BGt, B "__op__gt"); (BLe, B "__op__lte"); (BGe, B "__op__gte");
   (BEq, B "__op__eql"); (BSEq, B "__op__eql"); (BNe, B "__op__neq"); (BSNe, B "__op__neq");
   (BAnd, B "__op__and"); (BOr, B "__op__or")].

Lemma ops_table_core :
  forallb (fun p => beqb (op_name (binop_token (fst p))) (snd p)) core_binops = true /\
  op_name (unop_token UNot) = B "__op__not" /\ op_name (unop_token UNeg) = B "__op__sub".
Proof. vm_compute. repeat split. Qed.

(* ---- representation of JavaScript scalars by engine values ---------------------------------- *)
Inductive rep : val -> jv -> Prop :=
| rep_int z : rep (VInt z) (JN z)
| rep_num z : rep (VNum z) (JN z)
| rep_gostr s : rep (VGoStr s) (JS s)
| rep_str s : rep (VStr s) (JS s)
| rep_gobool b : rep (VGoBool b) (JB b)
| rep_bool b : rep (VBool b) (JB b)
| rep_nil : rep VNil JNul
| rep_undef : rep VInvalid JUndef.

Lemma in_range_num_ok z : in_range z = true -> num_ok z = true.
Proof. unfold in_range, num_ok, two53. intros H. apply Z.ltb_lt in H. apply Z.ltb_lt. lia. Qed.

Lemma in_range_num_text z : in_range z = true -> num_text z = Some (show_Z z).
Proof. unfold in_range, num_text, ten10. intros ->. reflexivity. Qed.

(* truthiness used by ! && || ?: and (after the repair) by if: JavaScript's ToBoolean on scalars *)
Lemma truthy_js h v j s : rep v j -> truthy h v = Ok (fst (to_boolean s j)).
Proof. intros R; destruct R; cbn; try reflexivity; destruct s0; reflexivity. Qed.

(* arithmetic helpers on two numbers = the JavaScript operator (integers in range) *)
Lemma arith_js op x y a b :
  rep x (JN a) -> rep y (JN b) -> in_range (op a b) = true -> arith op x y = Ok (VNum (op a b)).
Proof.
  intros Rx Ry Hr. apply in_range_num_ok in Hr.
  inversion Rx; subst; inversion Ry; subst; unfold arith, mknum; cbn; rewrite Hr; reflexivity.
Qed.

Lemma rt_add_num_js h x y a b :
  rep x (JN a) -> rep y (JN b) -> in_range (a + b) = true -> rt_add h x y = Ok (VNum (a + b)).
Proof.
  intros Rx Ry Hr. apply in_range_num_ok in Hr.
  inversion Rx; subst; inversion Ry; subst; unfold rt_add, mknum; cbn; rewrite Hr; reflexivity.
Qed.

Lemma rt_add_str_str_js h x y a b :
  rep x (JS a) -> rep y (JS b) -> rt_add h x y = Ok (VStr (a ++ b)).
Proof.
  intros Rx Ry. inversion Rx; subst; inversion Ry; subst; unfold rt_add, txt, to_text; cbn;
    destruct (depth_fuel h) eqn:E; try (unfold depth_fuel in E; discriminate); reflexivity.
Qed.

Lemma rt_add_str_num_js h x y a b :
  rep x (JS a) -> rep y (JN b) -> in_range b = true -> rt_add h x y = Ok (VStr (a ++ show_Z b)).
Proof.
  intros Rx Ry Hr. pose proof (in_range_num_text _ Hr) as Ht.
  inversion Rx; subst; inversion Ry; subst; unfold rt_add, txt, to_text, depth_fuel; cbn; rewrite ?Ht; reflexivity.
Qed.

Lemma rt_sub_js x y a b :
  rep x (JN a) -> rep y (JN b) -> in_range (a - b) = true -> rt_sub [x; y] = Ok (VNum (a - b)).
Proof. intros; unfold rt_sub; apply arith_js; assumption. Qed.

Lemma rt_neg_js x a : rep x (JN a) -> in_range (- a) = true -> rt_sub [x] = Ok (VNum (- a)).
Proof. intros R H; unfold rt_sub. replace (- a) with (0 - a) in * by lia. apply arith_js; [constructor|exact R|exact H]. Qed.

Lemma rt_mul_js x y a b :
  rep x (JN a) -> rep y (JN b) -> in_range (a * b) = true -> rt_mul x y = Ok (VNum (a * b)).
Proof. intros; unfold rt_mul; apply arith_js; assumption. Qed.

Lemma rt_quo_js x y a b :
  rep x (JN a) -> rep y (JN b) -> b <> 0 -> Z.rem a b = 0 -> in_range (Z.quot a b) = true ->
  rt_quo x y = Ok (VNum (Z.quot a b)).
Proof.
  intros Rx Ry Hb Hrem Hr. apply in_range_num_ok in Hr. apply Z.eqb_neq in Hb.
  inversion Rx; subst; inversion Ry; subst; unfold rt_quo, mknum; cbn; rewrite Hb, Hrem, Hr; reflexivity.
Qed.

Lemma rt_lss_num_js x y a b : rep x (JN a) -> rep y (JN b) -> rt_lss x y = Ok (Z.ltb a b).
Proof. intros Rx Ry; inversion Rx; subst; inversion Ry; subst; reflexivity. Qed.

Lemma rt_eql_num_js h x y a b : rep x (JN a) -> rep y (JN b) -> rt_eql h x y = Ok (Z.eqb a b).
Proof. intros Rx Ry; inversion Rx; subst; inversion Ry; subst; reflexivity. Qed.

Lemma rt_eql_str_js h x y a b : rep x (JS a) -> rep y (JS b) -> rt_eql h x y = Ok (beqb a b).
Proof. intros Rx Ry; inversion Rx; subst; inversion Ry; subst; reflexivity. Qed.

Lemma rt_eql_bool_js h x y a b : rep x (JB a) -> rep y (JB b) -> rt_eql h x y = Ok (Bool.eqb a b).
Proof. intros Rx Ry; inversion Rx; subst; inversion Ry; subst; reflexivity. Qed.

Lemma bytes_ltb_eq a b : bytes_ltb a b = bytes_lt a b.
Proof. reflexivity. Qed.

Lemma rt_lss_str_js x y a b : rep x (JS a) -> rep y (JS b) -> rt_lss x y = Ok (bytes_lt a b).
Proof. intros Rx Ry; inversion Rx; subst; inversion Ry; subst; unfold rt_lss; cbn [is_vnil andb kind_of]; rewrite bytes_ltb_eq; reflexivity. Qed.

(* && and || return the operand, not a boolean *)
Lemma rt_and_js h s x y jx jy :
  rep x jx -> rep y jy ->
  exists v, rt_and h x [y] = Ok v /\ rep v (if fst (to_boolean s jx) then jy else jx).
Proof.
  intros Rx Ry. cbn [rt_and]. rewrite (truthy_js h x jx s Rx). cbn.
  destruct (fst (to_boolean s jx)); cbn.
  - rewrite (truthy_js h y jy s Ry). cbn.
    exists (box_valid y); split; [destruct (fst (to_boolean s jy)); reflexivity|].
    destruct Ry; cbn; constructor.
  - exists (box_valid x); split; [reflexivity|]. destruct Rx; cbn; constructor.
Qed.

Lemma rt_or_js h s x y jx jy :
  rep x jx -> rep y jy ->
  exists v, rt_or h x [y] = Ok v /\ rep v (if fst (to_boolean s jx) then jx else jy).
Proof.
  intros Rx Ry. cbn [rt_or]. rewrite (truthy_js h x jx s Rx). cbn.
  destruct (fst (to_boolean s jx)); cbn.
  - exists (box_valid x); split; [reflexivity|]. destruct Rx; cbn; constructor.
  - rewrite (truthy_js h y jy s Ry). cbn.
    exists (box_valid y); split; [destruct (fst (to_boolean s jy)); reflexivity|].
    destruct Ry; cbn; constructor.
Qed.

(* printing: the text of an engine value is JavaScript's ToString of the scalar it represents
   (null / undefined print nothing in buffered code; see Spec.Sem.print_string) *)
Lemma text_js h v j s t s' :
  rep v j -> j <> JUndef -> print_string s j = SOk (t, s') ->
  (forall z, j = JN z -> in_range z = true) ->
  print_text h v = Ok t.
Proof.
  intros R Hu Hp Hz.
  destruct R; try congruence; unfold print_string, tostr in Hp; cbn in Hp; inversion Hp; subst;
    unfold print_text, to_text, depth_fuel; cbn;
    try (rewrite (in_range_num_text z (Hz z eq_refl))); try reflexivity;
    destruct b; reflexivity.
Qed.
