(* C08 proofs, Part 2e: renders whose data lead to objects shared with other renders and with
   the caller (Models/SchedOwn.v) *)
From PV Require Import Base.Bytes Models.Sched Models.SchedOwn Proofs.SchedProofs.
Require Import Lia.

Lemma ostep_reads_only : reads_only (ostep ODetach).
Proof.
  intros h r h' r' H. unfold ostep in H.
  destruct (o_pc r) as [todo own code|own code out|out].
  - destruct todo; inversion H; reflexivity.
  - destruct code as [|[k x|k] rest]; inversion H; reflexivity.
  - discriminate.
Qed.

(* the template alone, on its copies *)
Lemma orun_alone h refs k : forall code own out,
  oresult (snd (alone (ostep ODetach) (S (length code) + k) h (mkO refs (ORun own code out)))) =
  Some (oexec own code out).
Proof.
  induction code as [|op rest IH]; intros own out.
  - simpl. rewrite alone_stuck by reflexivity. reflexivity.
  - change (S (length (op :: rest)) + k) with (S (S (length rest) + k)).
    cbn [alone]. unfold ostep at 1. cbn [o_pc o_refs].
    destruct op as [j x|j]; rewrite IH; reflexivity.
Qed.

(* convertData alone: every referenced object is copied as the caller's heap has it *)
Lemma oconv_alone h refs code n : forall todo own,
  alone (ostep ODetach) (length todo + n) h (mkO refs (OConv todo own code)) =
  alone (ostep ODetach) n h (mkO refs (OConv [] (own ++ map (oget h) todo) code)).
Proof.
  induction todo as [|a todo IH]; intros own.
  - simpl. rewrite app_nil_r. reflexivity.
  - change (length (a :: todo) + n) with (S (length todo + n)).
    cbn [alone]. unfold ostep at 1. cbn [o_pc o_refs].
    rewrite IH. cbn [map]. rewrite <- app_assoc. reflexivity.
Qed.

Lemma orender_alone h refs code k :
  oresult (snd (alone (ostep ODetach) (length refs + (S (S (length code)) + k)) h (new_orender refs code))) =
  Some (ospec h refs code).
Proof.
  unfold new_orender. rewrite oconv_alone.
  change (S (S (length code)) + k) with (S (S (length code) + k)).
  cbn [alone]. unfold ostep at 1. cbn [o_pc o_refs app].
  rewrite orun_alone. reflexivity.
Qed.

(* any number of renders whose data lead to whatever objects of the caller's heap (the same
   objects or not), under ANY schedule that gives render i enough steps: render i prints what it
   would print alone on the values its data had at the call - its own pushes and nobody else's -
   and the caller's objects are what they were *)
Lemma own_engine_own_writes sched h l i refs code :
  nth_error l i = Some (new_orender refs code) ->
  S (length refs + length code) < count i sched ->
  option_map oresult (nth_error (rs (run (ostep ODetach) sched (mkSys h l))) i) =
    Some (Some (ospec h refs code))
  /\ sh (run (ostep ODetach) sched (mkSys h l)) = h.
Proof.
  intros Hi Hn. split.
  - rewrite (interleave_ro _ _ _ ostep_reads_only sched h l i _ Hi). cbn [option_map].
    replace (count i sched)
      with (length refs + (S (S (length code)) + (count i sched - (length refs + S (S (length code)))))) by lia.
    rewrite orender_alone. reflexivity.
  - apply (shared_unchanged_ro _ _ _ ostep_reads_only sched (mkSys h l)).
Qed.

(* two objects in the caller's heap; two renders whose data lead to object 0 (the second one
   behind another member of its data), both push and print *)
Definition ox_heap : oheap := [[1; 2]; [7]]%Z.
Definition ox_renders : list ostate :=
  [new_orender [0] [OPush 0 10%Z; OPrint 0];
   new_orender [1; 0] [OPush 1 20%Z; OPush 0 21%Z; OPrint 1; OPrint 0]].

Example own_engine_example :
  map oresult (rs (run (ostep ODetach) (round_robin 2 8) (mkSys ox_heap ox_renders))) =
  [Some [[1; 2; 10]]; Some [[1; 2; 20]; [7; 21]]]%Z.
Proof. vm_compute. reflexivity. Qed.

(* the object handed on as it is: already ONE RENDER AT A TIME is wrong from the second render on,
   and the caller's objects are changed *)
Example own_alias_sequential_is_wrong :
  let s := run (ostep OAlias) (repeat 0 8 ++ repeat 1 8) (mkSys ox_heap ox_renders) in
  map oresult (rs s) = [Some [[1; 2; 10]]; Some [[1; 2; 10; 20]; [7; 21]]]%Z /\
  sh s = [[1; 2; 10; 20]; [7; 21]]%Z.
Proof. vm_compute. split; reflexivity. Qed.

Lemma own_alias_refuted :
  exists sched h l i refs code,
    nth_error l i = Some (new_orender refs code) /\
    S (length refs + length code) < count i sched /\
    (option_map oresult (nth_error (rs (run (ostep OAlias) sched (mkSys h l))) i) <>
       Some (Some (ospec h refs code))
     \/ sh (run (ostep OAlias) sched (mkSys h l)) <> h).
Proof.
  exists (round_robin 2 8), ox_heap, ox_renders, 1, [1; 0], [OPush 1 20%Z; OPush 0 21%Z; OPrint 1; OPrint 0].
  split; [reflexivity|]. split; [vm_compute; lia|].
  left. vm_compute. discriminate.
Qed.

Lemma own_alias_changes_callers_objects :
  exists sched h l, sh (run (ostep OAlias) sched (mkSys h l)) <> h.
Proof. exists (repeat 0 8), ox_heap, ox_renders. vm_compute. discriminate. Qed.
