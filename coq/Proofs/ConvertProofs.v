(* C11 proofs: the model of Models/Convert.v prints, for every in-domain path, what the same path reaches in Go. *)
From PV Require Import Base.Bytes Base.Escape Models.Convert.
From Coq Require Import Permutation Sorting.Sorted.

(* ------------------------------------------------------------------ finite maps built by assignment *)

Lemma find_last_app {A} k (a b : list (bytes * A)) :
  find_last k (a ++ b) = match find_last k b with Some x => Some x | None => find_last k a end.
Proof.
  induction a as [|[k' v] a IH]; simpl.
  - destruct (find_last k b); reflexivity.
  - rewrite IH. destruct (find_last k b); [reflexivity|].
    destruct (find_last k a); reflexivity.
Qed.

Lemma find_last_map {A C} (f : A -> C) k (l : list (bytes * A)) :
  find_last k (map (fun kv => (fst kv, f (snd kv))) l) = option_map f (find_last k l).
Proof.
  induction l as [|[k' v] l IH]; simpl; [reflexivity|].
  rewrite IH. destruct (find_last k l); simpl; [reflexivity|].
  destruct (beqb k k'); reflexivity.
Qed.

Lemma find_last_none_iff {A} k (l : list (bytes * A)) :
  find_last k l = None <-> ~ In k (map fst l).
Proof.
  induction l as [|[k' v] l IH]; simpl.
  - tauto.
  - destruct (find_last k l) eqn:E.
    + split; [discriminate|]. intros H. exfalso. apply H. right.
      destruct (in_dec (list_eq_dec ascii_dec) k (map fst l)) as [i|n]; [exact i|].
      apply IH in n. discriminate.
    + destruct (beqb k k') eqn:Eb.
      * apply beqb_eq in Eb; subst. split; [discriminate|]. intros H; exfalso; apply H; left; reflexivity.
      * apply beqb_neq in Eb. split; [|reflexivity]. intros _ [H|H]; [congruence|].
        apply (proj1 IH eq_refl); exact H.
Qed.

Lemma lookup_assign_all k l : forall items,
  lookup k (assign_all items l) =
  match find_last k l with Some x => Some x | None => lookup k items end.
Proof.
  unfold assign_all.
  induction l as [|[k' v] l IH]; intros items; simpl; [reflexivity|].
  rewrite IH. destruct (find_last k l); [reflexivity|].
  destruct (beqb k k') eqn:E.
  - apply beqb_eq in E; subst. apply lookup_insert_same.
  - apply beqb_neq in E. apply lookup_insert_other. congruence.
Qed.

Lemma lookup_build k l : lookup k (build l) = find_last k l.
Proof. unfold build. rewrite lookup_assign_all. destruct (find_last k l); reflexivity. Qed.

Lemma NoDup_assign_all l : forall items, NoDup (keys items) -> NoDup (keys (assign_all items l)).
Proof.
  unfold assign_all. induction l as [|[k v] l IH]; intros items H; simpl; [exact H|].
  apply IH. apply NoDup_keys_insert. exact H.
Qed.

Lemma NoDup_build l : NoDup (keys (build l)).
Proof. apply NoDup_assign_all. constructor. Qed.

Lemma lookup_none_keys {A} k (m : list (bytes * A)) : lookup k m = None <-> ~ In k (keys m).
Proof.
  rewrite <- lookup_In_keys. split.
  - intros H [v Hv]; congruence.
  - intros H. destruct (lookup k m) eqn:E; [exfalso; apply H; eauto|reflexivity].
Qed.

(* ------------------------------------------------------------------ what convert produces, by the kind under the
   pointers and interfaces *)

Definition conv_member (m : member) : val :=
  match m with MField v => convert v | MMeth sg r => VFunc sg (convert r) end.
Definition conv_entries (l : list (bytes * member)) : list (bytes * val) :=
  map (fun kv => (fst kv, conv_member (snd kv))) l.

Lemma conv_fields fs :
  flat_map (fun f : bytes * bool * gv => match f with
                     | (n, true, v) => [(lower_first n, convert v)]
                     | (_, false, _) => []
                     end) fs = conv_entries (field_members fs).
Proof.
  unfold conv_entries, field_members.
  induction fs as [|[[n e] v] fs IH]; simpl; [reflexivity|].
  destruct e; simpl; rewrite IH; reflexivity.
Qed.

Lemma conv_meths ms :
  map (fun m : bytes * bytes * gv => match m with (n, sg, r) => (lower_first n, VFunc sg (convert r)) end) ms
  = conv_entries (meth_members ms).
Proof.
  unfold conv_entries, meth_members. rewrite map_map.
  apply map_ext. intros [[n sg] r]; reflexivity.
Qed.

Lemma conv_entries_app a b : conv_entries (a ++ b) = conv_entries a ++ conv_entries b.
Proof. apply map_app. Qed.

Lemma find_last_conv k l :
  find_last k (conv_entries l) = option_map conv_member (find_last k l).
Proof. apply find_last_map. Qed.

Definition tabular (g : gv) : bool :=
  match g with GStruct _ _ _ | GMap _ | GMapNil => true | _ => false end.
Definition simple (g : gv) : bool :=
  match g with
  | GNil | GStr _ | GInt _ | GFloat _ | GBool _ | GSliceNil | GSlice _ | GFunc _ _ | GChan => true
  | _ => false
  end.

Lemma strip_kind g : tabular (strip g) = true \/ simple (strip g) = true.
Proof. induction g; simpl; auto. Qed.

Lemma tabular_not_simple g : tabular g = true -> simple g = true -> False.
Proof. destruct g; simpl; intros; discriminate. Qed.

Lemma named_ok_cases g :
  match g with
  | GPtrNil => true
  | _ => match strip g with GStruct _ _ _ | GMap _ | GMapNil => true | _ => false end
  end = true -> g = GPtrNil \/ tabular (strip g) = true.
Proof.
  destruct g; simpl; auto; intros H; right;
    match goal with
    | |- tabular (strip ?x) = true => destruct (strip x); simpl in *; try discriminate; reflexivity
    | _ => try discriminate; try reflexivity
    end.
Qed.

Lemma conv_iface named g :
  convert (GIface named g) =
  match g with
  | GPtrNil => VNil
  | _ => if named then match convert g with VMap items => VMap items | _ => VOpaque end else convert g
  end.
Proof. reflexivity. Qed.

Lemma conv_simple g :
  opaque_free g = true -> simple (strip g) = true -> convert g = convert (strip g).
Proof.
  induction g; intros Ho Hs; try reflexivity.
  - (* GPtr *) simpl in *. rewrite (IHg Ho Hs).
    destruct (strip g); simpl in Hs; try discriminate; reflexivity.
  - (* GIface *)
    simpl in Ho. apply andb_true_iff in Ho. destruct Ho as [Hn Ho].
    rewrite conv_iface. simpl strip in *.
    destruct named; simpl in Hn.
    + destruct (named_ok_cases _ Hn) as [->|Ht]; [reflexivity|].
      exfalso; eapply tabular_not_simple; eauto.
    + rewrite <- (IHg Ho Hs). destruct g; reflexivity.
Qed.

Definition table_of (g : gv) (items : list (bytes * val)) : Prop :=
  convert g = VMap items /\ NoDup (keys items) /\
  forall k, lookup k items = option_map conv_member (find_last k (members g)).

Lemma members_ptr v :
  members (GPtr v) =
  match v with
  | GStruct fs vm pm => field_members fs ++ meth_members vm ++ meth_members pm
  | _ => members v
  end.
Proof. reflexivity. Qed.

Lemma conv_ptr v :
  convert (GPtr v) =
  match convert v with
  | VMap items =>
    VMap (assign_all items
            match v with
            | GStruct _ vm pm => conv_entries (meth_members vm) ++ conv_entries (meth_members pm)
            | _ => []
            end)
  | o => o
  end.
Proof.
  simpl. destruct (convert v); try reflexivity.
  destruct v; try reflexivity. rewrite !conv_meths. reflexivity.
Qed.

Lemma conv_table g :
  opaque_free g = true -> tabular (strip g) = true -> exists items, table_of g items.
Proof.
  unfold table_of.
  induction g; intros Ho Ht; simpl in Ht; try discriminate.
  - (* GMapNil *) exists []. split; [reflexivity|]. split; [constructor|reflexivity].
  - (* GMap *)
    eexists. split; [reflexivity|]. split; [apply NoDup_build|].
    intros k. rewrite lookup_build. simpl members.
    rewrite (find_last_map (fun v => MField v)), (find_last_map convert).
    destruct (find_last k l); reflexivity.
  - (* GStruct *)
    eexists. split; [simpl; rewrite conv_fields, conv_meths, <- conv_entries_app; reflexivity|].
    split; [apply NoDup_build|].
    intros k. rewrite lookup_build, find_last_conv. reflexivity.
  - (* GPtr *)
    simpl in Ho. destruct (IHg Ho Ht) as [items [Hc [Hn Hl]]].
    rewrite conv_ptr, Hc, members_ptr.
    eexists. split; [reflexivity|]. split; [apply NoDup_assign_all; exact Hn|].
    intros k. rewrite lookup_assign_all, Hl.
    destruct g; try reflexivity.
    simpl members. rewrite <- conv_entries_app, find_last_conv.
    rewrite !find_last_app.
    destruct (find_last k (meth_members pmeths)); [reflexivity|].
    destruct (find_last k (meth_members vmeths)); reflexivity.
  - (* GIface *)
    simpl in Ho. apply andb_true_iff in Ho. destruct Ho as [_ Ho].
    destruct (IHg Ho Ht) as [items [Hc [Hn Hl]]].
    exists items. split; [|split; [exact Hn|exact Hl]].
    rewrite conv_iface, Hc.
    destruct g; try (destruct named; reflexivity).
    simpl in Ht. discriminate.
Qed.

Lemma conv_not_func g :
  node_ok g = true -> forall sg r, convert g <> VFunc sg r.
Proof.
  unfold node_ok. intros H sg r. apply andb_true_iff in H. destruct H as [Ho Hf].
  destruct (strip_kind g) as [Ht|Hs].
  - destruct (conv_table g Ho Ht) as [items [Hc _]]. rewrite Hc. discriminate.
  - rewrite (conv_simple g Ho Hs). destruct (strip g); simpl in *; discriminate.
Qed.

Lemma members_map g l :
  strip g = GMap l -> members g = map (fun kv => (fst kv, MField (snd kv))) l.
Proof.
  induction g; simpl; intros H; try discriminate.
  - inversion H; reflexivity.
  - destruct g; simpl in *; try discriminate; auto.
  - auto.
Qed.

Lemma members_mapnil g : strip g = GMapNil -> members g = [].
Proof.
  induction g; simpl; intros H; try discriminate; auto.
  destruct g; simpl in *; try discriminate; auto.
Qed.

Lemma first_hit_none items cands :
  (forall c, In c cands -> lookup c items = None) -> first_hit items cands = None.
Proof.
  induction cands as [|c r IH]; simpl; intros H; [reflexivity|].
  rewrite (H c (or_introl eq_refl)). apply IH. intros; apply H; right; assumption.
Qed.

Lemma field_table g n items :
  table_of g items -> beqb n (B "__assign") = false -> fold_hit g n = false ->
  (forall v, go_member g n = Some (MField v) -> node_ok v = true) ->
  eval_field (Some (VMap items)) n =
  ROk (Some (match go_member g n with Some m => convert (member_value m) | None => VNil end)).
Proof.
  intros [Hc [Hn Hl]] Ha Hf Hok. unfold eval_field. rewrite Ha.
  unfold map_member. unfold fold_hit in Hf.
  destruct (go_member g n) as [m|] eqn:Em.
  - unfold fold_candidates. simpl first_hit. rewrite Hl. unfold go_member in Em. rewrite Em. simpl.
    destruct m as [v|sg r]; simpl; [|reflexivity].
    pose proof (conv_not_func v (Hok v eq_refl)) as Hnf.
    destruct (convert v); try reflexivity. exfalso; eapply Hnf; reflexivity.
  - cbn [negb is_some andb] in Hf. rewrite first_hit_none; [reflexivity|].
    intros c Hin. rewrite Hl.
    assert (Hc' : is_some (go_member g c) = false).
    { destruct (is_some (go_member g c)) eqn:E; [|reflexivity].
      assert (existsb (fun c0 => is_some (go_member g c0)) (fold_candidates n) = true)
        by (apply existsb_exists; exists c; split; assumption).
      congruence. }
    unfold go_member in Hc'. destruct (find_last c (members g)); [discriminate|reflexivity].
Qed.

Lemma nth_error_map' {A C} (f : A -> C) l i :
  nth_error (map f l) i = option_map f (nth_error l i).
Proof. revert l; induction i; intros [|x l]; simpl; auto. Qed.

(* ------------------------------------------------------------------ elements by an integer index *)

Lemma nth_z_none {A} (l : list A) i : (i < 0 \/ Z.of_nat (length l) <= i)%Z -> nth_z l i = None.
Proof.
  intros H. unfold nth_z, in_range.
  destruct (Z.leb_spec 0 i); destruct (Z.ltb_spec i (Z.of_nat (length l))); simpl; try reflexivity; lia.
Qed.

Lemma nth_z_some {A} (l : list A) i :
  (0 <= i < Z.of_nat (length l))%Z -> nth_z l i = nth_error l (Z.to_nat i) /\ nth_z l i <> None.
Proof.
  intros H. unfold nth_z, in_range.
  destruct (Z.leb_spec 0 i); destruct (Z.ltb_spec i (Z.of_nat (length l))); simpl; try lia.
  split; [reflexivity|]. apply nth_error_Some. lia.
Qed.

Lemma nth_z_nil {A} i : nth_z (@nil A) i = None.
Proof. apply nth_z_none. simpl. lia. Qed.

Lemma nth_z_map {A C} (f : A -> C) l i : nth_z (map f l) i = option_map f (nth_z l i).
Proof.
  unfold nth_z. rewrite map_length. destruct (in_range i (length l)); [apply nth_error_map'|reflexivity].
Qed.

Lemma nth_z_nat {A} (l : list A) (n : nat) : nth_z l (Z.of_nat n) = nth_error l n.
Proof.
  unfold nth_z, in_range.
  destruct (Z.leb_spec 0 (Z.of_nat n)); [|lia].
  destruct (Z.ltb_spec (Z.of_nat n) (Z.of_nat (length l))); simpl.
  - rewrite Nat2Z.id. reflexivity.
  - symmetry. apply nth_error_None. lia.
Qed.

Definition reach (g : gv) (s : step) : val :=
  match go_step g s with Some g' => convert g' | None => VNil end.

Definition step_name_ok (s : step) : bool :=
  match s with Field n => negb (beqb n (B "__assign")) | _ => true end.

Lemma step_sound g s :
  opaque_free g = true -> kind_ok g s = true -> step_fold_hit g s = false -> step_name_ok s = true ->
  (forall g', go_step g s = Some g' -> node_ok g' = true) ->
  eval_step (Some (convert g)) s = ROk (Some (reach g s)).
Proof.
  intros Ho Hk Hf Hn Hok. unfold reach.
  destruct (strip_kind g) as [Ht|Hs].
  - (* struct / map / nil map *)
    destruct (conv_table g Ho Ht) as [items Htab].
    pose proof Htab as [Hc [Hnd Hl]]. rewrite Hc.
    destruct s as [n|k|c i]; simpl in Hf, Hn.
    + (* Field *)
      apply negb_true_iff in Hn.
      assert (Hgs : go_step g (Field n) = option_map member_value (go_member g n)).
      { unfold go_step. destruct (strip g) eqn:Es; simpl in Ht; try discriminate; try reflexivity.
        unfold go_member. rewrite (members_mapnil g Es). reflexivity. }
      unfold eval_step. rewrite (field_table g n items Htab Hn Hf).
      * rewrite Hgs. destruct (go_member g n); reflexivity.
      * intros v Hv. apply Hok. rewrite Hgs, Hv. reflexivity.
    + (* Key *)
      unfold kind_ok in Hk. unfold go_step.
      destruct (strip g) eqn:Es; simpl in Ht; try discriminate.
      * (* nil map *) simpl. rewrite Hl, (members_mapnil g Es). reflexivity.
      * (* map *) simpl. rewrite Hl. unfold go_member. rewrite (members_map g l Es).
        rewrite (find_last_map (fun v => MField v)). destruct (find_last k l); reflexivity.
    + (* Idx *) unfold kind_ok in Hk. destruct (strip g); simpl in Ht; discriminate.
  - (* leaves, slices, nothing *)
    rewrite (conv_simple g Ho Hs).
    unfold kind_ok in Hk. unfold go_step.
    destruct s as [n|k|c i]; destruct (strip g) eqn:Es; simpl in Hs; try discriminate; simpl in *;
      try reflexivity.
    + (* Field on a string *) apply negb_true_iff in Hk. rewrite Hk. reflexivity.
    + (* Idx out of range on a string *) apply negb_true_iff in Hk. unfold nth_z. rewrite Hk. reflexivity.
    + (* Idx on a nil slice *) rewrite nth_z_nil. reflexivity.
    + (* Idx on a slice *) rewrite nth_z_map. destruct (nth_z l i); reflexivity.
Qed.

(* ------------------------------------------------------------------ paths below the first name *)

Lemma eval_nil p : eval_steps (Some VNil) p = ROk (Some VNil).
Proof. induction p as [|[n|k|c i] p IH]; simpl; auto. Qed.

Lemma end_text g :
  opaque_free g = true -> end_ok g = true -> text_of (convert g) = Some (leaf_text (leaf_of g)).
Proof.
  intros Ho He. unfold end_ok in He. unfold leaf_of.
  assert (Hs : simple (strip g) = true) by (destruct (strip g); simpl in *; try discriminate; reflexivity).
  rewrite (conv_simple g Ho Hs).
  destruct (strip g); simpl in *; try discriminate; try reflexivity.
  - rewrite He; reflexivity.
  - rewrite He; reflexivity.
  - destruct b; reflexivity.
Qed.

Lemma go_path_cons g s r :
  go_path g (s :: r) = match go_step g s with Some g' => go_path g' r | None => None end.
Proof. unfold go_path; simpl. destruct (go_step g s); reflexivity. Qed.

Lemma walk_sound p : forall g,
  node_ok g = true -> shape_walk g p = true -> fold_walk g p = true ->
  forallb step_name_ok p = true ->
  exists v, eval_steps (Some (convert g)) p = ROk (Some v) /\
            text_of v = Some (leaf_text (go_path g p)).
Proof.
  induction p as [|s r IH]; intros g Hn Hs Hf Hnm.
  - exists (convert g). split; [reflexivity|].
    unfold node_ok in Hn. apply andb_true_iff in Hn. destruct Hn as [Ho _].
    unfold go_path; simpl. apply end_text; assumption.
  - simpl in Hs, Hf, Hnm.
    apply andb_true_iff in Hs. destruct Hs as [Hk Hs].
    apply andb_true_iff in Hf. destruct Hf as [Hfh Hf]. apply negb_true_iff in Hfh.
    apply andb_true_iff in Hnm. destruct Hnm as [Hn1 Hnm].
    pose proof Hn as Hn'. unfold node_ok in Hn'. apply andb_true_iff in Hn'. destruct Hn' as [Ho _].
    assert (Hstep : eval_step (Some (convert g)) s = ROk (Some (reach g s))).
    { apply step_sound; try assumption.
      intros g' Hg'. rewrite Hg' in Hs. apply andb_true_iff in Hs. tauto. }
    simpl eval_steps. rewrite Hstep. simpl bind. rewrite go_path_cons. unfold reach.
    destruct (go_step g s) as [g'|] eqn:Eg.
    + apply andb_true_iff in Hs. destruct Hs as [Hn2 Hs]. apply IH; assumption.
    + exists VNil. split; [apply eval_nil|reflexivity].
Qed.

(* ------------------------------------------------------------------ the globals: sorted keys, scan from the end *)

Lemma bytes_ltb_trans : forall a b c,
  bytes_ltb a b = true -> bytes_ltb b c = true -> bytes_ltb a c = true.
Proof.
  induction a as [|x a IH]; intros [|y b] [|z c]; simpl; try discriminate; auto.
  destruct (N.ltb_spec (N_of_ascii x) (N_of_ascii y)), (N.eqb_spec (N_of_ascii x) (N_of_ascii y)),
           (N.ltb_spec (N_of_ascii y) (N_of_ascii z)), (N.eqb_spec (N_of_ascii y) (N_of_ascii z)),
           (N.ltb_spec (N_of_ascii x) (N_of_ascii z)), (N.eqb_spec (N_of_ascii x) (N_of_ascii z));
    try lia; try discriminate; auto.
  apply IH.
Qed.

Lemma bytes_ltb_asym : forall a b, bytes_ltb a b = true -> bytes_ltb b a = false.
Proof.
  induction a as [|x a IH]; intros [|y b]; simpl; try discriminate; auto.
  destruct (N.ltb_spec (N_of_ascii x) (N_of_ascii y)), (N.eqb_spec (N_of_ascii x) (N_of_ascii y)),
           (N.ltb_spec (N_of_ascii y) (N_of_ascii x)), (N.eqb_spec (N_of_ascii y) (N_of_ascii x));
    try lia; try discriminate; auto.
Qed.

Definition le_key (a b : bytes * val) : Prop := bytes_ltb (fst b) (fst a) = false.

Lemma insert_sorted_perm x l : Permutation (x :: l) (insert_sorted x l).
Proof.
  induction l as [|y r IH]; simpl; [apply Permutation_refl|].
  destruct (bytes_ltb (fst x) (fst y)); [apply Permutation_refl|].
  eapply perm_trans; [apply perm_swap|]. apply perm_skip. exact IH.
Qed.

Lemma sort_items_perm l : Permutation l (sort_items l).
Proof.
  induction l as [|x l IH]; simpl; [constructor|].
  eapply perm_trans; [apply perm_skip; exact IH|apply insert_sorted_perm].
Qed.

Lemma insert_sorted_sorted x l :
  StronglySorted le_key l -> StronglySorted le_key (insert_sorted x l).
Proof.
  induction l as [|y r IH]; simpl; intros H.
  - constructor; constructor.
  - inversion H as [|? ? Hr Hy]; subst.
    destruct (bytes_ltb (fst x) (fst y)) eqn:E.
    + constructor; [exact H|]. constructor.
      * unfold le_key. apply bytes_ltb_asym. exact E.
      * rewrite Forall_forall in *. intros z Hz. unfold le_key.
        destruct (bytes_ltb (fst z) (fst x)) eqn:Ez; [|reflexivity].
        pose proof (bytes_ltb_trans _ _ _ Ez E) as Hzy.
        pose proof (Hy z Hz) as Hyz. unfold le_key in Hyz. congruence.
    + constructor; [apply IH; exact Hr|].
      eapply Permutation_Forall; [apply insert_sorted_perm|].
      constructor; [exact E|exact Hy].
Qed.

Lemma sort_items_sorted l : StronglySorted le_key (sort_items l).
Proof.
  induction l as [|x l IH]; simpl; [constructor|]. apply insert_sorted_sorted. exact IH.
Qed.

Lemma lookup_In_nodup {A} k (v : A) l :
  NoDup (keys l) -> (lookup k l = Some v <-> In (k, v) l).
Proof.
  unfold keys. induction l as [|[k' v'] l IH]; simpl; intros Hn.
  - split; [discriminate|tauto].
  - inversion Hn as [|? ? Hni Hnd]; subst.
    destruct (beqb k k') eqn:E.
    + apply beqb_eq in E; subst k'. split.
      * intros H; inversion H; left; reflexivity.
      * intros [H|H]; [inversion H; reflexivity|].
        exfalso. apply Hni. change k with (fst (k, v)). apply in_map. exact H.
    + apply beqb_neq in E. rewrite (IH Hnd). split; [tauto|].
      intros [H|H]; [inversion H; congruence|exact H].
Qed.

Lemma lookup_perm {A} k (l l' : list (bytes * A)) :
  Permutation l l' -> NoDup (keys l) -> lookup k l = lookup k l'.
Proof.
  intros Hp Hn.
  assert (Hn' : NoDup (keys l')).
  { unfold keys in *. eapply Permutation_NoDup; [apply Permutation_map; exact Hp|exact Hn]. }
  destruct (lookup k l) as [v|] eqn:E.
  - apply (lookup_In_nodup k v l Hn) in E. symmetry. apply (lookup_In_nodup k v l' Hn').
    eapply Permutation_in; eassumption.
  - destruct (lookup k l') as [v|] eqn:E'; [|reflexivity].
    apply (lookup_In_nodup k v l' Hn') in E'.
    apply Permutation_sym in Hp. pose proof (Permutation_in _ Hp E') as Hin.
    apply (lookup_In_nodup k v l Hn) in Hin. congruence.
Qed.

Lemma lookup_app {A} k (a b : list (bytes * A)) :
  lookup k (a ++ b) = match lookup k a with Some v => Some v | None => lookup k b end.
Proof.
  induction a as [|[k' v] a IH]; simpl; [reflexivity|].
  destruct (beqb k k'); [reflexivity|exact IH].
Qed.

Definition matchn (n : bytes) (kv : bytes * val) : bool :=
  beqb n (lower_first (fst kv)) || beqb n (fst kv).

Fixpoint last_match (n : bytes) (l : list (bytes * val)) : option val :=
  match l with
  | [] => None
  | x :: r => match last_match n r with
              | Some v => Some v
              | None => if matchn n x then Some (snd x) else None
              end
  end.

Definition dup (kv : bytes * val) : list (bytes * val) :=
  [(fst kv, snd kv); (lower_first (fst kv), snd kv)].

Lemma lookup_rev_dup n l : lookup n (rev (flat_map dup l)) = last_match n l.
Proof.
  induction l as [|[k v] l IH]; [reflexivity|].
  change (flat_map dup ((k, v) :: l)) with ([(k, v); (lower_first k, v)] ++ flat_map dup l).
  rewrite rev_app_distr, lookup_app, IH.
  cbn [last_match]. destruct (last_match n l); [reflexivity|].
  unfold matchn; simpl. destruct (beqb n (lower_first k)); [reflexivity|].
  destruct (beqb n k); reflexivity.
Qed.

Lemma N_ascii_small n : (n < 256)%N -> N_of_ascii (ascii_of_N n) = n.
Proof. intros H. apply N_ascii_embedding. exact H. Qed.

Lemma lower_first_lt k n : lower_first k = n -> k <> n -> bytes_ltb k n = true.
Proof.
  destruct k as [|c r]; simpl; intros H Hne; [congruence|]. subst n. simpl.
  unfold to_lower in *. destruct (is_upper c) eqn:Eu; [|congruence].
  unfold is_upper in Eu. apply andb_true_iff in Eu. destruct Eu as [E1 E2].
  apply N.leb_le in E1. apply N.leb_le in E2.
  rewrite N_ascii_small by lia.
  destruct (N.ltb_spec (N_of_ascii c) (N_of_ascii c + 32)); [reflexivity|lia].
Qed.

Lemma last_match_none n l : (forall y, In y l -> matchn n y = false) -> last_match n l = None.
Proof.
  induction l as [|x r IH]; simpl; intros H; [reflexivity|].
  rewrite IH by (intros; apply H; right; assumption).
  rewrite (H x (or_introl eq_refl)). reflexivity.
Qed.

Lemma last_match_exact n v l :
  StronglySorted le_key l -> NoDup (keys l) -> lookup n l = Some v -> last_match n l = Some v.
Proof.
  unfold keys. induction l as [|[k w] r IH]; simpl; intros Hs Hn Hl; [discriminate|].
  inversion Hs as [|? ? Hsr Hall]; subst. inversion Hn as [|? ? Hni Hnd]; subst.
  destruct (beqb n k) eqn:E.
  - apply beqb_eq in E; subst k. inversion Hl; subst w.
    rewrite last_match_none.
    + unfold matchn; simpl. rewrite beqb_refl, orb_true_r. reflexivity.
    + intros [k' w'] Hy. unfold matchn; simpl.
      assert (Hk : k' <> n) by (intros ->; apply Hni; change n with (fst (n, w')); apply in_map; exact Hy).
      rewrite Forall_forall in Hall. pose proof (Hall _ Hy) as Hle. unfold le_key in Hle; simpl in Hle.
      destruct (beqb n (lower_first k')) eqn:E1.
      * apply beqb_eq in E1. symmetry in E1. rewrite (lower_first_lt k' n E1 Hk) in Hle. discriminate.
      * destruct (beqb n k') eqn:E2; [apply beqb_eq in E2; congruence|reflexivity].
  - rewrite (IH Hsr Hnd Hl). reflexivity.
Qed.

Lemma var_value_globals items n :
  beqb n (B "global") = false ->
  var_value (globals (VMap items)) n = last_match n (sort_items items).
Proof.
  intros Hg. unfold var_value.
  change (globals (VMap items)) with (flat_map dup (sort_items items) ++ [(B "global", VMap [])]).
  rewrite rev_app_distr.
  change (rev [(B "global", VMap [])]) with [(B "global", VMap [])].
  change ([(B "global", VMap [])] ++ rev (flat_map dup (sort_items items)))
    with ((B "global", VMap []) :: rev (flat_map dup (sort_items items))).
  cbn [lookup]. rewrite Hg. apply lookup_rev_dup.
Qed.

Lemma var_value_nomap v n :
  (forall items, v <> VMap items) -> beqb n (B "global") = false -> var_value (globals v) n = None.
Proof.
  intros Hv Hg. unfold var_value.
  destruct v; try (cbn [globals app rev lookup]; rewrite Hg; reflexivity). exfalso; eapply Hv; reflexivity.
Qed.

Lemma top_found d n items m :
  table_of d items -> beqb n (B "global") = false -> go_member d n = Some m ->
  var_value (globals (convert d)) n = Some (conv_member m).
Proof.
  intros [Hc [Hnd Hl]] Hg Hm. rewrite Hc, var_value_globals by exact Hg.
  apply last_match_exact.
  - apply sort_items_sorted.
  - unfold keys in *. eapply Permutation_NoDup; [apply Permutation_map; apply sort_items_perm|exact Hnd].
  - rewrite <- (lookup_perm n items (sort_items items) (sort_items_perm items) Hnd).
    rewrite Hl. unfold go_member in Hm. rewrite Hm. reflexivity.
Qed.

Lemma top_absent d n items :
  table_of d items -> beqb n (B "global") = false -> go_member d n = None -> top_fold_hit d n = false ->
  var_value (globals (convert d)) n = None.
Proof.
  intros [Hc [Hnd Hl]] Hg Hm Hf. rewrite Hc, var_value_globals by exact Hg.
  apply last_match_none. intros [k v] Hy.
  assert (Hin : In (k, v) items) by (eapply Permutation_in; [apply Permutation_sym; apply sort_items_perm|exact Hy]).
  apply (lookup_In_nodup k v items Hnd) in Hin. rewrite Hl in Hin.
  unfold top_fold_hit in Hf. rewrite Hm in Hf. cbn [negb is_some andb] in Hf.
  destruct (find_last k (members d)) as [m|] eqn:Ek; [|discriminate].
  assert (Hkin : In k (map fst (members d))).
  { destruct (in_dec (list_eq_dec ascii_dec) k (map fst (members d))) as [i|ni]; [exact i|].
    apply find_last_none_iff in ni. congruence. }
  apply in_map_iff in Hkin. destruct Hkin as [[k' m'] [Hk' Hin']]. simpl in Hk'; subst k'.
  unfold matchn; simpl.
  assert (H1 : beqb (lower_first k) n = false).
  { destruct (beqb (lower_first k) n) eqn:E; [|reflexivity].
    assert (existsb (fun km : bytes * member => beqb (lower_first (fst km)) n) (members d) = true)
      by (apply existsb_exists; exists (k, m'); split; [exact Hin'|exact E]).
    congruence. }
  assert (H1' : beqb n (lower_first k) = false).
  { destruct (beqb n (lower_first k)) eqn:E; [|reflexivity].
    apply beqb_eq in E. rewrite <- E, beqb_refl in H1. discriminate. }
  rewrite H1'. simpl.
  destruct (beqb n k) eqn:E; [|reflexivity].
  apply beqb_eq in E; subst k. unfold go_member in Hm. congruence.
Qed.

(* ------------------------------------------------------------------ the whole path *)

Lemma eval_undefined rest :
  eval_steps None rest = ROk (if forallb is_field rest then None else Some VNil).
Proof.
  induction rest as [|[n|k|c i] r IH]; simpl; auto; apply eval_nil.
Qed.

Lemma render_nil raw : render raw [] = [].
Proof. destruct raw; reflexivity. Qed.

Lemma names_steps p :
  forallb (fun s => match s with Field n => ascii_name n | _ => true end) p = true ->
  forallb step_name_ok p = true.
Proof.
  induction p as [|s r IH]; simpl; intros H; [reflexivity|].
  apply andb_true_iff in H. destruct H as [H1 H2]. rewrite (IH H2), andb_true_r.
  destruct s; simpl; auto. unfold ascii_name in H1.
  apply andb_true_iff in H1. tauto.
Qed.

Lemma undefined_case d n rest raw :
  var_value (globals (convert d)) n = None -> go_step d (Field n) = None ->
  raw_undefined d (Field n :: rest) raw = false ->
  run d (Field n :: rest) raw = ROk (render raw (leaf_text (go_path d (Field n :: rest)))).
Proof.
  intros Hv Hg Hr. unfold run. rewrite Hv, eval_undefined. simpl bind.
  rewrite go_path_cons, Hg. simpl leaf_text. rewrite render_nil.
  unfold raw_undefined in Hr. rewrite Hg in Hr. cbn [is_some negb andb] in Hr. rewrite andb_true_r in Hr.
  destruct (forallb is_field rest); simpl.
  - rewrite andb_true_r in Hr. subst raw. reflexivity.
  - rewrite render_nil. reflexivity.
Qed.

Theorem path_partial d p raw :
  names_ok d p = true -> shape_ok d p = true -> fold_free d p = true ->
  top_method d p = false -> raw_undefined d p raw = false ->
  run d p raw = ROk (render raw (leaf_text (go_path d p))).
Proof.
  intros Hnm Hsh Hff Htm Hru.
  unfold names_ok in Hnm. apply andb_true_iff in Hnm. destruct Hnm as [Hnm Hres].
  apply andb_true_iff in Hnm. destruct Hnm as [_ Hnames].
  destruct p as [|[n|k|c i] rest]; try discriminate.
  apply negb_true_iff in Hres.
  assert (Hg : beqb n (B "global") = false).
  { unfold reserved_top in Hres. cbn [mem existsb] in Hres. apply orb_false_iff in Hres. tauto. }
  pose proof (names_steps _ Hnames) as Hsn. cbn [forallb] in Hsn.
  apply andb_true_iff in Hsn. destruct Hsn as [_ Hsn].
  unfold shape_ok in Hsh. apply andb_true_iff in Hsh. destruct Hsh as [Hnd Hsh].
  unfold fold_free in Hff. apply andb_true_iff in Hff. destruct Hff as [Htf Hff]. apply negb_true_iff in Htf.
  pose proof Hnd as Hnd'. unfold node_ok in Hnd'. apply andb_true_iff in Hnd'. destruct Hnd' as [Ho _].
  destruct (strip_kind d) as [Ht|Hs].
  - destruct (conv_table d Ho Ht) as [items Htab].
    assert (Hgs : go_step d (Field n) = option_map member_value (go_member d n)).
    { unfold go_step. destruct (strip d) eqn:Es; simpl in Ht; try discriminate; try reflexivity.
      unfold go_member. rewrite (members_mapnil d Es). reflexivity. }
    destruct (go_member d n) as [m|] eqn:Em.
    + pose proof (top_found d n items m Htab Hg Em) as Hv.
      assert (Hfield : exists v, m = MField v).
      { destruct m as [v|sg r]; [eexists; reflexivity|]. exfalso.
        unfold top_method in Htm. rewrite Em in Htm.
        destruct (strip d) eqn:Es; simpl in Ht; try discriminate.
        - unfold go_member in Em. rewrite (members_mapnil d Es) in Em. discriminate.
        - unfold go_member in Em. rewrite (members_map d l Es) in Em.
          rewrite (find_last_map (fun v => MField v)) in Em. destruct (find_last n l); discriminate. }
      destruct Hfield as [v ->]. cbn [option_map member_value] in Hgs. cbn [conv_member] in Hv.
      rewrite Hgs in Hsh, Hff. apply andb_true_iff in Hsh. destruct Hsh as [Hnv Hsw].
      destruct (walk_sound rest v Hnv Hsw Hff Hsn) as [w [He Ht']].
      unfold run. rewrite Hv, He. simpl bind. unfold print_val. rewrite Ht'.
      rewrite go_path_cons, Hgs. reflexivity.
    + apply undefined_case; [|rewrite Hgs; reflexivity|exact Hru].
      eapply top_absent; eassumption.
  - apply undefined_case; [| |exact Hru].
    + apply var_value_nomap; [|exact Hg]. rewrite (conv_simple d Ho Hs).
      destruct (strip d); simpl in Hs; try discriminate; intros items; discriminate.
    + unfold go_step. destruct (strip d); simpl in Hs; try discriminate; reflexivity.
Qed.

Theorem path_sound d p raw :
  dom_C11 d p raw = true -> run d p raw = ROk (render raw (leaf_text (go_path d p))).
Proof.
  unfold dom_C11. intros H.
  apply andb_true_iff in H. destruct H as [H H5]. apply andb_true_iff in H. destruct H as [H H4].
  apply andb_true_iff in H. destruct H as [H H3]. apply andb_true_iff in H. destruct H as [H1 H2].
  apply negb_true_iff in H4. apply negb_true_iff in H5.
  apply path_partial; assumption.
Qed.

(* ------------------------------------------------------------------ methods, the first name, absent data *)

Lemma members_simple g : simple (strip g) = true -> members g = [].
Proof.
  induction g; simpl; intros H; try discriminate; auto.
  destruct g; simpl in *; try discriminate; auto.
Qed.

Lemma member_tabular g n m : go_member g n = Some m -> tabular (strip g) = true.
Proof.
  intros H. destruct (strip_kind g) as [Ht|Hs]; [exact Ht|].
  unfold go_member in H. rewrite (members_simple g Hs) in H. discriminate.
Qed.

(* a zero-argument method of the method set is called by its lower-camel name, on any value below the top level *)
Theorem methods_callable g n sg r :
  opaque_free g = true -> beqb n (B "__assign") = false ->
  go_member g n = Some (MMeth sg r) ->
  eval_step (Some (convert g)) (Field n) = ROk (Some (convert r)) /\ go_step g (Field n) = Some r.
Proof.
  intros Ho Ha Hm. pose proof (member_tabular g n _ Hm) as Ht.
  destruct (conv_table g Ho Ht) as [items [Hc [Hnd Hl]]]. split.
  - rewrite Hc. unfold eval_step, eval_field. rewrite Ha.
    unfold map_member, fold_candidates. cbn [first_hit]. rewrite Hl.
    unfold go_member in Hm. rewrite Hm. reflexivity.
  - unfold go_step. destruct (strip g) eqn:Es; simpl in Ht; try discriminate.
    + unfold go_member in Hm. rewrite (members_mapnil g Es) in Hm. discriminate.
    + unfold go_member in Hm. rewrite (members_map g l Es), (find_last_map (fun v => MField v)) in Hm.
      destruct (find_last n l); discriminate.
    + rewrite Hm. reflexivity.
Qed.

(* the first name of a path goes through the `$name` globals *)
Theorem toplevel_lookup d n :
  node_ok d = true -> beqb n (B "global") = false ->
  (forall v, go_member d n = Some (MField v) -> var_value (globals (convert d)) n = Some (convert v)) /\
  (go_member d n = None -> top_fold_hit d n = false -> var_value (globals (convert d)) n = None).
Proof.
  intros Hn Hg. unfold node_ok in Hn. apply andb_true_iff in Hn. destruct Hn as [Ho _]. split.
  - intros v Hm. destruct (conv_table d Ho (member_tabular d n _ Hm)) as [items Htab].
    apply (top_found d n items (MField v) Htab Hg Hm).
  - intros Hm Hf. destruct (strip_kind d) as [Ht|Hs].
    + destruct (conv_table d Ho Ht) as [items Htab]. eapply top_absent; eassumption.
    + apply var_value_nomap; [|exact Hg]. rewrite (conv_simple d Ho Hs).
      destruct (strip d); simpl in Hs; try discriminate; intros items; discriminate.
Qed.

Theorem absent_silent d p raw :
  dom_C11 d p raw = true -> go_path d p = None -> run d p raw = ROk [].
Proof. intros Hd Hp. rewrite (path_sound d p raw Hd), Hp. simpl. rewrite render_nil. reflexivity. Qed.

(* the four ways of being absent, one step each, and what follows them *)
Theorem absent_steps :
  (* through a nil pointer or a nil interface *)
  (forall s named, eval_step (Some (convert GPtrNil)) s = ROk (Some VNil) /\
                   eval_step (Some (convert (GIfaceNil named))) s = ROk (Some VNil) /\
                   eval_step (Some (convert (GIface named GPtrNil))) s = ROk (Some VNil)) /\
  (* a missing key *)
  (forall l k, find_last k l = None -> eval_step (Some (convert (GMap l))) (Key k) = ROk (Some VNil)) /\
  (* an index out of range: below 0 or at / above the length, written as a literal or computed; on a list, a nil
     list, a string *)
  (forall l c i, (i < 0 \/ Z.of_nat (length l) <= i)%Z ->
                 eval_step (Some (convert (GSlice l))) (Idx c i) = ROk (Some VNil) /\ go_step (GSlice l) (Idx c i) = None) /\
  (forall c i, eval_step (Some (convert GSliceNil)) (Idx c i) = ROk (Some VNil) /\ go_step GSliceNil (Idx c i) = None) /\
  (forall s c i, (i < 0 \/ Z.of_nat (length s) <= i)%Z ->
                 eval_step (Some (convert (GStr s))) (Idx c i) = ROk (Some VNil) /\ go_step (GStr s) (Idx c i) = None) /\
  (* a name that is no exported member (an unexported field in particular) and that folds onto none *)
  (forall g n, opaque_free g = true -> tabular (strip g) = true -> beqb n (B "__assign") = false ->
               go_member g n = None -> fold_hit g n = false ->
               eval_step (Some (convert g)) (Field n) = ROk (Some VNil)) /\
  (forall fs vm pm N v n, go_member (GStruct (fs ++ [(N, false, v)]) vm pm) n = go_member (GStruct fs vm pm) n) /\
  (* whatever follows prints nothing and is no error *)
  (forall p raw q, bind (eval_steps (Some VNil) p) (print_val raw q) = ROk []).
Proof.
  split; [|split; [|split; [|split; [|split; [|split; [|split]]]]]].
  - intros s named. split; [|split]; destruct s; reflexivity.
  - intros l k H. simpl. rewrite lookup_build, (find_last_map convert), H. reflexivity.
  - intros l c i H. split.
    + simpl. rewrite nth_z_map, (nth_z_none l i H). reflexivity.
    + simpl. apply nth_z_none. exact H.
  - intros c i. split; [simpl; rewrite nth_z_nil|]; reflexivity.
  - intros s c i H. split; [simpl; rewrite (nth_z_none s i H)|]; reflexivity.
  - intros g n Ho Ht Ha Hm Hf. destruct (conv_table g Ho Ht) as [items Htab].
    pose proof Htab as [Hc _]. rewrite Hc. unfold eval_step.
    rewrite (field_table g n items Htab Ha Hf); [rewrite Hm; reflexivity|].
    intros v Hv. congruence.
  - intros. unfold go_member. simpl. unfold field_members. rewrite flat_map_app. simpl.
    rewrite app_nil_r. reflexivity.
  - intros p raw q. rewrite eval_nil. simpl. rewrite render_nil. reflexivity.
Qed.

(* a bracket index on a list, held directly or behind pointers / interfaces (so: in a map, a struct field, a method
   result ...), for EVERY integer and both ways of writing it: the element when 0 <= i < length, Nil otherwise -
   and that is what the same index reaches in Go *)
Theorem index_any_integer g l c i :
  opaque_free g = true -> strip g = GSlice l ->
  eval_step (Some (convert g)) (Idx c i) = ROk (Some (match nth_z l i with Some x => convert x | None => VNil end)) /\
  go_step g (Idx c i) = nth_z l i /\
  ((i < 0 \/ Z.of_nat (length l) <= i)%Z -> nth_z l i = None) /\
  ((0 <= i < Z.of_nat (length l))%Z -> nth_z l i = nth_error l (Z.to_nat i) /\ nth_z l i <> None).
Proof.
  intros Ho Hs.
  assert (Hsim : simple (strip g) = true) by (rewrite Hs; reflexivity).
  split; [|split; [|split]].
  - rewrite (conv_simple g Ho Hsim), Hs. simpl. rewrite nth_z_map. destruct (nth_z l i); reflexivity.
  - unfold go_step. rewrite Hs. reflexivity.
  - apply nth_z_none.
  - apply nth_z_some.
Qed.

(* ... and on a nil list there is no element for any integer *)
Theorem index_nil_list g c i :
  opaque_free g = true -> strip g = GSliceNil ->
  eval_step (Some (convert g)) (Idx c i) = ROk (Some VNil) /\ go_step g (Idx c i) = None.
Proof.
  intros Ho Hs.
  assert (Hsim : simple (strip g) = true) by (rewrite Hs; reflexivity).
  split.
  - rewrite (conv_simple g Ho Hsim), Hs. simpl. rewrite nth_z_nil. reflexivity.
  - unfold go_step. rewrite Hs. reflexivity.
Qed.

(* ------------------------------------------------------------------ the three listed findings: the full statement is
   false of the faithful model as soon as one of the forced hypotheses of [path_partial] is dropped *)

Definition stated (d : gv) (p : list step) (raw : bool) : Prop :=
  run d p raw = ROk (render raw (leaf_text (go_path d p))).

(* F-C11-a: an absent dotted name folds onto a present member (a.valid prints a.valID; foo prints key Foo) *)
Definition wit_a_data : gv := GMap [(B "a", GMap [(B "valID", GStr (B "x"))])].
Definition wit_a_path : list step := [Field (B "a"); Field (B "valid")].
Definition wit_a2_data : gv := GMap [(B "Foo", GStr (B "x"))].
Definition wit_a2_path : list step := [Field (B "foo")].

Theorem fold_refuted :
  exists d p raw,
    names_ok d p = true /\ shape_ok d p = true /\ top_method d p = false /\ raw_undefined d p raw = false /\
    fold_free d p = false /\ go_path d p = None /\ run d p raw = ROk (B "x") /\ ~ stated d p raw.
Proof.
  exists wit_a_data, wit_a_path, false. repeat split; try (vm_compute; reflexivity).
  unfold stated. vm_compute. discriminate.
Qed.

Theorem fold_top_refuted :
  exists d p raw,
    names_ok d p = true /\ shape_ok d p = true /\ top_method d p = false /\ raw_undefined d p raw = false /\
    fold_free d p = false /\ go_path d p = None /\ run d p raw = ROk (B "x") /\ ~ stated d p raw.
Proof.
  exists wit_a2_data, wit_a2_path, false. repeat split; try (vm_compute; reflexivity).
  unfold stated. vm_compute. discriminate.
Qed.

(* F-C11-b: a zero-argument method of the page data itself is not called *)
Definition wit_b_data : gv :=
  GPtr (GStruct [(B "Name", true, GStr (B "n"))] [(B "Label", B "func() string", GStr (B "L:n"))] []).
Definition wit_b_path : list step := [Field (B "label")].

Theorem toplevel_method_refuted :
  exists d p raw,
    names_ok d p = true /\ shape_ok d p = true /\ fold_free d p = true /\ raw_undefined d p raw = false /\
    top_method d p = true /\ go_path d p = Some (LStr (B "L:n")) /\
    run d p raw = ROk (B "<func() string Value>") /\ ~ stated d p raw.
Proof.
  exists wit_b_data, wit_b_path, true. repeat split; try (vm_compute; reflexivity).
  unfold stated. vm_compute. discriminate.
Qed.

(* F-C11-c: unescaped output of an undefined top-level name *)
Definition wit_c_data : gv := GMap [(B "a", GStr (B "v"))].
Definition wit_c_path : list step := [Field (B "missing")].

Theorem raw_undefined_refuted :
  exists d p raw,
    names_ok d p = true /\ shape_ok d p = true /\ fold_free d p = true /\ top_method d p = false /\
    raw_undefined d p raw = true /\ go_path d p = None /\
    run d p raw = ROk (B "ERR{{$missing}} <invalid reflect.Value>") /\ ~ stated d p raw.
Proof.
  exists wit_c_data, wit_c_path, true. repeat split; try (vm_compute; reflexivity).
  unfold stated. vm_compute. discriminate.
Qed.

(* ------------------------------------------------------------------ non-vacuity *)

Definition ex_kid : gv :=
  GStruct [(B "Name", true, GStr (B "<k>")); (B "hidden", false, GStr (B "h"))]
          [(B "Label", B "func() string", GStr (B "L:<k>"))] [(B "Total", B "func() int", GInt 5)].
Definition ex_data : gv :=
  GMap [(B "page", GIface false (GPtr (GStruct
           [(B "Title", true, GStr (B "t")); (B "Count", true, GInt (-12));
            (B "Kids", true, GSlice [GPtrNil; GPtr ex_kid]);
            (B "Lab", true, GIface true (GPtr ex_kid));
            (B "Attrs", true, GMap [(B "a-b", GBool true)])]
           [] [(B "First", B "func() *main.Kid", GPtr ex_kid)])));
        (B "n", GIfaceNil false)].

Example ex_dom_field : dom_C11 ex_data [Field (B "page"); Field (B "count")] false = true.
Proof. vm_compute. reflexivity. Qed.
Example ex_run_field : run ex_data [Field (B "page"); Field (B "count")] false = ROk (B "-12").
Proof. vm_compute. reflexivity. Qed.

Example ex_dom_deep :
  dom_C11 ex_data [Field (B "page"); Field (B "kids"); Idx false 1; Field (B "name")] false = true.
Proof. vm_compute. reflexivity. Qed.
Example ex_run_deep :
  run ex_data [Field (B "page"); Field (B "kids"); Idx false 1; Field (B "name")] false = ROk (B "&lt;k&gt;").
Proof. vm_compute. reflexivity. Qed.

Example ex_dom_method :
  dom_C11 ex_data [Field (B "page"); Field (B "first"); Field (B "total")] true = true.
Proof. vm_compute. reflexivity. Qed.
Example ex_run_method :
  run ex_data [Field (B "page"); Field (B "first"); Field (B "total")] true = ROk (B "5").
Proof. vm_compute. reflexivity. Qed.

Example ex_dom_iface_method :
  dom_C11 ex_data [Field (B "page"); Field (B "lab"); Field (B "label")] true = true.
Proof. vm_compute. reflexivity. Qed.
Example ex_run_iface_method :
  run ex_data [Field (B "page"); Field (B "lab"); Field (B "label")] true = ROk (B "L:<k>").
Proof. vm_compute. reflexivity. Qed.

Example ex_dom_key :
  dom_C11 ex_data [Field (B "page"); Field (B "attrs"); Key (B "a-b")] false = true.
Proof. vm_compute. reflexivity. Qed.
Example ex_run_key :
  run ex_data [Field (B "page"); Field (B "attrs"); Key (B "a-b")] false = ROk (B "true").
Proof. vm_compute. reflexivity. Qed.

(* the four kinds of absence, all in the domain, all silent *)
Example ex_dom_nilptr :
  dom_C11 ex_data [Field (B "page"); Field (B "kids"); Idx false 0; Field (B "name")] false = true.
Proof. vm_compute. reflexivity. Qed.
Example ex_dom_missing_key :
  dom_C11 ex_data [Field (B "page"); Field (B "attrs"); Key (B "zz"); Field (B "x")] true = true.
Proof. vm_compute. reflexivity. Qed.
Example ex_dom_range :
  dom_C11 ex_data [Field (B "page"); Field (B "kids"); Idx false 7] false = true.
Proof. vm_compute. reflexivity. Qed.
(* below zero, written as a literal and computed (`kids[kids.length - 3]`), far out on both sides, with a tail; on
   a string; the in-range computed index (`kids[kids.length - 1]`) reaches the element *)
Definition ex_range_paths : list (list step) :=
    [[Field (B "page"); Field (B "kids"); Idx false (-1)];
     [Field (B "page"); Field (B "kids"); Idx true (-1); Field (B "name")];
     [Field (B "page"); Field (B "kids"); Idx true 2];
     [Field (B "page"); Field (B "kids"); Idx false (-4000000000000); Field (B "name")];
     [Field (B "page"); Field (B "kids"); Idx true 4000000000000; Idx false 0];
     [Field (B "page"); Field (B "title"); Idx true (-1)];
     [Field (B "page"); Field (B "title"); Idx false 1];
     [Field (B "page"); Field (B "kids"); Idx true 1; Field (B "name")]].
Example ex_dom_range_both_sides : forallb (fun p => dom_C11 ex_data p false) ex_range_paths = true.
Proof. vm_compute. reflexivity. Qed.
Example ex_run_range_both_sides :
  map (fun p => run ex_data p false) ex_range_paths
  = [ROk []; ROk []; ROk []; ROk []; ROk []; ROk []; ROk []; ROk (B "&lt;k&gt;")].
Proof. vm_compute. reflexivity. Qed.
Example ex_dom_unexported :
  dom_C11 ex_data [Field (B "page"); Field (B "kids"); Idx false 1; Field (B "hidden")] false = true.
Proof. vm_compute. reflexivity. Qed.
Example ex_dom_undefined :
  dom_C11 ex_data [Field (B "missing"); Idx false 0; Field (B "x")] true = true.
Proof. vm_compute. reflexivity. Qed.
Example ex_absent_none :
  map (go_path ex_data)
    [[Field (B "page"); Field (B "kids"); Idx false 0; Field (B "name")];
     [Field (B "page"); Field (B "attrs"); Key (B "zz"); Field (B "x")];
     [Field (B "page"); Field (B "kids"); Idx false 7];
     [Field (B "page"); Field (B "kids"); Idx false 1; Field (B "hidden")];
     [Field (B "missing"); Idx false 0; Field (B "x")];
     [Field (B "n"); Field (B "x")]] = [None; None; None; None; None; None].
Proof. vm_compute. reflexivity. Qed.

(* ------------------------------------------------------------------ histories *)

Theorem history_sound h : dom_history h = true -> run_history h = spec_history h.
Proof.
  induction h as [| [[d p] raw] h IH]; intros Hd.
  - reflexivity.
  - simpl in Hd. apply andb_true_iff in Hd. destruct Hd as [H1 H2].
    simpl. rewrite (path_sound d p raw H1), (IH H2). reflexivity.
Qed.

(* the outcome of a render is that of the same render alone, whatever was rendered before and after it *)
Theorem history_independent h1 h2 d p raw :
  nth_error (run_history (h1 ++ (d, p, raw) :: h2)) (length h1) = Some (run d p raw).
Proof.
  induction h1 as [| x h1 IH]; simpl.
  - reflexivity.
  - exact IH.
Qed.

(* non-vacuity: two look-alike structs (the same field names, the values at exchanged positions) and one more with
   other names, each asked the same paths, in the domain; the same path prints a different leaf for each *)
Definition ex_alike1 : gv := GMap [(B "d", GIface false (GStruct [(B "Sku", true, GStr (B "s1")); (B "Price", true, GInt 42)] [] []))].
Definition ex_alike2 : gv := GMap [(B "d", GIface false (GStruct [(B "Price", true, GInt 7); (B "Sku", true, GStr (B "s2"))] [] []))].
Definition ex_alike3 : gv := GMap [(B "d", GIface false (GStruct [(B "Title", true, GStr (B "t")); (B "Qty", true, GInt 3)] [] []))].
Definition ex_history : list render_req :=
  [(ex_alike1, [Field (B "d"); Field (B "sku")], false); (ex_alike2, [Field (B "d"); Field (B "sku")], false);
   (ex_alike3, [Field (B "d"); Field (B "sku")], false); (ex_alike3, [Field (B "d"); Field (B "title")], false);
   (ex_alike1, [Field (B "d"); Field (B "price")], true); (ex_alike1, [Field (B "d"); Field (B "title")], false)].
Example ex_history_dom : dom_history ex_history = true.
Proof. vm_compute. reflexivity. Qed.
Example ex_history_run :
  run_history ex_history = [ROk (B "s1"); ROk (B "s2"); ROk []; ROk (B "t"); ROk (B "42"); ROk []].
Proof. vm_compute. reflexivity. Qed.

(* ------------------------------------------------------------------ members that collide after the lower-camel mapping:
   unexported fields are invisible wherever they are declared, and the declaration order of the fields is immaterial *)

Lemma field_members_exported fs : field_members (exported_fields fs) = field_members fs.
Proof.
  unfold field_members, exported_fields.
  induction fs as [|[[n e] v] fs IH]; simpl; [reflexivity|].
  destruct e; simpl; rewrite IH; reflexivity.
Qed.

Lemma conv_struct fs vm pm :
  convert (GStruct fs vm pm) = VMap (build (conv_entries (field_members fs) ++ conv_entries (meth_members vm))).
Proof. simpl. rewrite conv_fields, conv_meths. reflexivity. Qed.

Theorem unexported_invisible fs vm pm :
  convert (GStruct fs vm pm) = convert (GStruct (exported_fields fs) vm pm) /\
  convert (GPtr (GStruct fs vm pm)) = convert (GPtr (GStruct (exported_fields fs) vm pm)) /\
  members (GStruct fs vm pm) = members (GStruct (exported_fields fs) vm pm) /\
  members (GPtr (GStruct fs vm pm)) = members (GPtr (GStruct (exported_fields fs) vm pm)).
Proof.
  assert (Hc : convert (GStruct fs vm pm) = convert (GStruct (exported_fields fs) vm pm))
    by (rewrite !conv_struct, field_members_exported; reflexivity).
  split; [exact Hc|].
  split; [rewrite !conv_ptr, Hc; reflexivity|].
  split; simpl; rewrite field_members_exported; reflexivity.
Qed.

Lemma find_last_lookup_nodup {A} k (l : list (bytes * A)) :
  NoDup (keys l) -> find_last k l = lookup k l.
Proof.
  unfold keys. induction l as [|[k' v] l IH]; simpl; intros Hn; [reflexivity|].
  inversion Hn as [|? ? Hni Hnd]; subst. rewrite (IH Hnd).
  destruct (beqb k k') eqn:E.
  - apply beqb_eq in E; subst k'.
    destruct (lookup k l) eqn:El; [|reflexivity].
    exfalso. apply Hni. apply (lookup_In_keys k l). eauto.
  - destruct (lookup k l); reflexivity.
Qed.

Lemma find_last_fields_perm fs fs' k :
  Permutation fs fs' -> NoDup (keys (field_members fs)) ->
  find_last k (field_members fs) = find_last k (field_members fs').
Proof.
  intros Hp Hn.
  assert (Hp' : Permutation (field_members fs) (field_members fs'))
    by (unfold field_members; apply Permutation_flat_map; exact Hp).
  assert (Hn' : NoDup (keys (field_members fs')))
    by (unfold keys in *; eapply Permutation_NoDup; [apply Permutation_map; exact Hp'|exact Hn]).
  rewrite (find_last_lookup_nodup k _ Hn), (find_last_lookup_nodup k _ Hn').
  apply lookup_perm; assumption.
Qed.

Lemma first_hit_ext items items' cands :
  (forall k, lookup k items = lookup k items') -> first_hit items cands = first_hit items' cands.
Proof.
  intros H. induction cands as [|c r IH]; simpl; [reflexivity|]. rewrite H, IH. reflexivity.
Qed.

Lemma eval_field_ext items items' n :
  (forall k, lookup k items = lookup k items') ->
  eval_step (Some (VMap items)) (Field n) = eval_step (Some (VMap items')) (Field n).
Proof.
  intros H. simpl. unfold map_member. rewrite (first_hit_ext items items' _ H). reflexivity.
Qed.

Theorem declaration_order fs fs' vm pm :
  Permutation fs fs' -> NoDup (keys (field_members fs)) ->
  forall n,
    go_member (GStruct fs vm pm) n = go_member (GStruct fs' vm pm) n /\
    go_member (GPtr (GStruct fs vm pm)) n = go_member (GPtr (GStruct fs' vm pm)) n /\
    eval_step (Some (convert (GStruct fs vm pm))) (Field n) =
    eval_step (Some (convert (GStruct fs' vm pm))) (Field n) /\
    eval_step (Some (convert (GPtr (GStruct fs vm pm)))) (Field n) =
    eval_step (Some (convert (GPtr (GStruct fs' vm pm)))) (Field n).
Proof.
  intros Hp Hn n.
  assert (Hf : forall k, find_last k (field_members fs) = find_last k (field_members fs'))
    by (intros k; apply find_last_fields_perm; assumption).
  assert (Hl : forall k, lookup k (build (conv_entries (field_members fs) ++ conv_entries (meth_members vm)))
                       = lookup k (build (conv_entries (field_members fs') ++ conv_entries (meth_members vm)))).
  { intros k. rewrite !lookup_build, !find_last_app, !find_last_conv, (Hf k). reflexivity. }
  split; [unfold go_member; simpl members; rewrite !find_last_app, (Hf n); reflexivity|].
  split; [unfold go_member; simpl members; rewrite !find_last_app, (Hf n); reflexivity|].
  split.
  - rewrite !conv_struct. apply eval_field_ext. exact Hl.
  - rewrite !conv_ptr, !conv_struct. apply eval_field_ext.
    intros k. rewrite !lookup_assign_all, (Hl k). reflexivity.
Qed.

(* what the guard in Map.convert is for: were every field stored (an unreadable one as Nil), an unexported field
   declared after the exported field of the same lower-camel name would hide it *)
Definition wit_pair_eu : list (bytes * bool * gv) :=
  [(B "Title", true, GStr (B "Lamp")); (B "Price", true, GInt 12); (B "title", false, GStr (B "lamp")); (B "price", false, GInt 7)].
Definition wit_pair_ue : list (bytes * bool * gv) :=
  [(B "title", false, GStr (B "lamp")); (B "price", false, GInt 7); (B "Title", true, GStr (B "Lamp")); (B "Price", true, GInt 12)].

Theorem unguarded_refuted :
  exists fs fs' n v,
    Permutation fs fs' /\ NoDup (keys (field_members fs)) /\
    go_member (GStruct fs [] []) n = Some (MField v) /\ convert v <> VNil /\
    lookup n (table_unguarded fs) = Some VNil /\ lookup n (table_unguarded fs') = Some (convert v).
Proof.
  exists wit_pair_eu, wit_pair_ue, (B "title"), (GStr (B "Lamp")).
  split.
  { unfold wit_pair_eu, wit_pair_ue.
    apply Permutation_sym.
    eapply Permutation_trans; [apply (Permutation_app_comm [_; _] [_; _])|]. apply Permutation_refl. }
  split; [vm_compute; repeat constructor; simpl; intuition discriminate|].
  split; [vm_compute; reflexivity|].
  split; [discriminate|].
  split; vm_compute; reflexivity.
Qed.

(* non-vacuity: the same colliding members in both declaration orders, by value, behind a pointer, in a list; an
   unexported field next to its getter; an embedded type next to an outer field of its lower-camel name *)
Definition ex_clash_data : gv :=
  GMap [(B "page", GIface false (GStruct
    [(B "Product", true, GStruct wit_pair_eu [] []);
     (B "Rev", true, GPtr (GStruct wit_pair_ue [] []));
     (B "Products", true, GSlice [GPtr (GStruct wit_pair_eu [] [])]);
     (B "Account", true, GStruct [(B "holder", false, GStr (B "ann")); (B "Limit", true, GInt 500); (B "limit", false, GInt 1)]
                                 [(B "Holder", B "func() string", GStr (B "holder:ann"))] []);
     (B "Outer", true, GStruct [(B "Inner", true, GStruct [(B "Title", true, GStr (B "in"))] [] []);
                                (B "inner", false, GStr (B "hid")); (B "Title", true, GStr (B "out"))] [] [])] [] []))].

Definition ex_clash_paths : list (list step * bytes) :=
  [([Field (B "page"); Field (B "product"); Field (B "title")], B "Lamp");
   ([Field (B "page"); Field (B "product"); Field (B "price")], B "12");
   ([Field (B "page"); Field (B "rev"); Field (B "title")], B "Lamp");
   ([Field (B "page"); Field (B "rev"); Field (B "price")], B "12");
   ([Field (B "page"); Field (B "products"); Idx false 0; Field (B "title")], B "Lamp");
   ([Field (B "page"); Field (B "account"); Field (B "holder")], B "holder:ann");
   ([Field (B "page"); Field (B "account"); Field (B "limit")], B "500");
   ([Field (B "page"); Field (B "outer"); Field (B "inner"); Field (B "title")], B "in");
   ([Field (B "page"); Field (B "outer"); Field (B "title")], B "out");
   ([Field (B "page"); Field (B "product"); Field (B "Title")], []);
   ([Field (B "page"); Field (B "outer"); Field (B "inner"); Field (B "x")], [])].

Example ex_clash_dom : forallb (fun pt => dom_C11 ex_clash_data (fst pt) false) ex_clash_paths = true.
Proof. vm_compute. reflexivity. Qed.
Example ex_clash_run :
  forallb (fun pt => match run ex_clash_data (fst pt) false with ROk t => beqb t (snd pt) | _ => false end) ex_clash_paths = true.
Proof. vm_compute. reflexivity. Qed.
