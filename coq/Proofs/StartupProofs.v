(* C16: proofs about Models/Startup.v.  Everything is by induction over the
   whole event list (any number of processes, any completion order, any failing
   subset, probes and waiter steps anywhere). *)
From PV Require Import Base.Bytes Models.Startup.

(* ------------------------------------------------------------ histories *)

Lemma ostep_none l : fold_left ostep l None = None.
Proof. induction l as [|e l IH]; simpl; [reflexivity|exact IH]. Qed.

Lemma su_reach_app a b : su_reach (a ++ b) = fold_left ostep b (su_reach a).
Proof. unfold su_reach. apply fold_left_app. Qed.

Lemma su_reach_snoc evs e : su_reach (evs ++ [e]) = ostep (su_reach evs) e.
Proof. rewrite su_reach_app. reflexivity. Qed.

(* induction over all enabled histories *)
Lemma reach_ind (P : list event -> state -> Prop) :
  P [] su_init ->
  (forall evs s e s', su_reach evs = Some s -> P evs s ->
                      su_step s e = Some s' -> P (evs ++ [e]) s') ->
  forall evs s, su_reach evs = Some s -> P evs s.
Proof.
  intros H0 HS evs. induction evs as [|e evs IH] using rev_ind; intros s H.
  - unfold su_reach in H; simpl in H. inversion H; subst; exact H0.
  - rewrite su_reach_snoc in H.
    destruct (su_reach evs) as [s0|] eqn:E; simpl in H; [|discriminate].
    eapply HS; [exact E|apply IH; reflexivity|exact H].
Qed.

(* ------------------------------------------------------------ processes *)

Lemma all_ended_not_running ps p : all_ended ps = true -> pstatus p ps <> Some None.
Proof.
  induction ps as [|[q x] r IH]; simpl; intros H; [discriminate|].
  apply andb_true_iff in H; destruct H as [Hx Hr].
  destruct (N.eqb p q); [|apply IH; exact Hr].
  unfold has_ended in Hx; simpl in Hx.
  destruct x as [y|]; [intros E; inversion E|discriminate].
Qed.

Lemma all_ended_Forall ps : all_ended ps = true <-> Forall ended ps.
Proof.
  unfold all_ended. rewrite forallb_forall, Forall_forall.
  split; intros H x Hx; specialize (H x Hx); unfold has_ended, ended in *;
    destruct (snd x); congruence.
Qed.

Lemma all_ended_no_running ps p : all_ended ps = true -> ~ In (p, None) ps.
Proof.
  intros H Hin. apply all_ended_Forall in H. rewrite Forall_forall in H.
  apply (H _ Hin). reflexivity.
Qed.

Lemma first_failure_app l l' :
  first_failure (l ++ l') =
  match first_failure l with Some e => Some e | None => first_failure l' end.
Proof.
  induction l as [|r l IH]; simpl; [reflexivity|].
  destruct r; [exact IH|reflexivity].
Qed.

Lemma completions_app a b : completions (a ++ b) = completions a ++ completions b.
Proof.
  induction a as [|e a IH]; simpl; [reflexivity|].
  destruct e; simpl; rewrite IH; reflexivity.
Qed.

(* ------------------------------------------------------------ invariant *)

Definition inv (s : state) : Prop :=
  match waiter s with
  | Idle => finished s = false /\ delivered s = []
  | Waiting => finished s = true /\ delivered s = []
  | Sending e =>
    finished s = true /\ all_ended (procs s) = true /\
    first_failure (order s) = Some e /\ delivered s = []
  | Closed =>
    finished s = true /\ all_ended (procs s) = true /\
    delivered s = match first_failure (order s) with Some e => [e] | None => [] end
  end.

Lemma inv_step s e s' : inv s -> su_step s e = Some s' -> inv s'.
Proof.
  destruct s as [ps od fin w dl]. unfold inv, su_step; simpl.
  intros Hi Hs. destruct e as [p|p r| | |].
  - (* Add: only while not finished, hence waiter = Idle *)
    destruct fin; [discriminate|].
    destruct (pstatus p ps); [discriminate|].
    inversion Hs; subst; clear Hs; simpl.
    destruct w; simpl in *; intuition; discriminate.
  - (* End: some process is running, hence waiter is Idle or Waiting *)
    destruct (pstatus p ps) as [[y|]|] eqn:Ep; try discriminate.
    inversion Hs; subst; clear Hs; simpl.
    destruct w; simpl in *; try exact Hi.
    + destruct Hi as [_ [Ha _]]. exfalso; exact (all_ended_not_running _ _ Ha Ep).
    + destruct Hi as [_ [Ha _]]. exfalso; exact (all_ended_not_running _ _ Ha Ep).
  - (* Finish *)
    destruct fin; [discriminate|].
    inversion Hs; subst; clear Hs; simpl.
    destruct w; simpl in *; intuition; discriminate.
  - (* WaiterStep *)
    destruct w as [| |e0|]; try discriminate.
    + destruct (all_ended ps) eqn:Ea; [|discriminate].
      inversion Hs; subst; clear Hs; simpl.
      destruct Hi as [Hf Hd].
      destruct (first_failure od) as [e1|] eqn:Ef; simpl; rewrite ?Ef; auto.
    + inversion Hs; subst; clear Hs; simpl.
      destruct Hi as [Hf [Ha [He Hd]]]. rewrite He, Hd. auto.
  - (* Probe *)
    inversion Hs; subst; exact Hi.
Qed.

Lemma reach_inv evs s : su_reach evs = Some s -> inv s.
Proof.
  apply (reach_ind (fun _ s => inv s)).
  - unfold inv; simpl; auto.
  - intros evs0 s0 e s' _ Hi Hs. exact (inv_step _ _ _ Hi Hs).
Qed.

Lemma step_order s e s' :
  su_step s e = Some s' -> order s' = order s ++ completions [e].
Proof.
  destruct s as [ps od fin w dl]; unfold su_step; simpl; intros Hs.
  destruct e as [p|p r| | |]; simpl.
  - destruct fin; [discriminate|]. destruct (pstatus p ps); [discriminate|].
    inversion Hs; subst; simpl. rewrite app_nil_r; reflexivity.
  - destruct (pstatus p ps) as [[y|]|]; try discriminate.
    inversion Hs; subst; reflexivity.
  - destruct fin; [discriminate|]. inversion Hs; subst; simpl. rewrite app_nil_r; reflexivity.
  - destruct w; try discriminate.
    + destruct (all_ended ps); [|discriminate]. inversion Hs; subst; simpl.
      rewrite app_nil_r; reflexivity.
    + inversion Hs; subst; simpl. rewrite app_nil_r; reflexivity.
  - inversion Hs; subst; simpl. rewrite app_nil_r; reflexivity.
Qed.

(* errgroup's view is the completion order of the history *)
Lemma order_completions evs s : su_reach evs = Some s -> order s = completions evs.
Proof.
  apply (reach_ind (fun evs s => order s = completions evs)).
  - reflexivity.
  - intros evs0 s0 e s' _ Ho Hs.
    rewrite (step_order _ _ _ Hs), Ho, completions_app. reflexivity.
Qed.

Lemma probe_200 s : probe s = 200%N <-> waiter s = Closed.
Proof. unfold probe; destruct (waiter s); split; intros H; try discriminate; reflexivity. Qed.

Lemma probe_cases s : probe s = 200%N \/ probe s = 425%N.
Proof. unfold probe; destruct (waiter s); auto. Qed.

(* ------------------------------------------------------------ theorems *)

Theorem sound_200 evs s :
  su_reach evs = Some s -> probe s = 200%N ->
  finished s = true /\ Forall ended (procs s).
Proof.
  intros Hr Hp. apply probe_200 in Hp. pose proof (reach_inv _ _ Hr) as Hi.
  unfold inv in Hi; rewrite Hp in Hi. destruct Hi as [Hf [Ha _]].
  split; [exact Hf|apply all_ended_Forall; exact Ha].
Qed.

Theorem otherwise_425 evs s :
  su_reach evs = Some s ->
  (finished s = false \/ exists p, running s p) -> probe s = 425%N.
Proof.
  intros Hr Hc. destruct (probe_cases s) as [H2|H4]; [|exact H4].
  exfalso. destruct (sound_200 _ _ Hr H2) as [Hf Ha].
  destruct Hc as [Hn|[p Hp]]; [congruence|].
  unfold running in Hp. rewrite Forall_forall in Ha.
  apply (Ha _ Hp). reflexivity.
Qed.

(* Closed is absorbing: [done] is only ever closed *)
Lemma closed_step s e s' :
  su_step s e = Some s' -> waiter s = Closed -> finished s = true ->
  waiter s' = Closed /\ finished s' = true /\ delivered s' = delivered s.
Proof.
  destruct s as [ps od fin w dl]; unfold su_step; simpl; intros Hs Hw Hf; subst w fin.
  destruct e as [p|p r| | |]; try discriminate.
  - destruct (pstatus p ps) as [[y|]|]; try discriminate. inversion Hs; subst; auto.
  - inversion Hs; subst; auto.
Qed.

Lemma closed_fold l : forall s s',
  fold_left ostep l (Some s) = Some s' -> waiter s = Closed -> finished s = true ->
  waiter s' = Closed /\ delivered s' = delivered s.
Proof.
  induction l as [|e l IH]; simpl; intros s s' H Hw Hf.
  - inversion H; subst; auto.
  - destruct (su_step s e) as [s1|] eqn:E; [|rewrite ostep_none in H; discriminate].
    destruct (closed_step _ _ _ E Hw Hf) as [Hw1 [Hf1 Hd1]].
    destruct (IH _ _ H Hw1 Hf1) as [Hw' Hd']. split; [exact Hw'|congruence].
Qed.

Theorem monotone evs evs' s s' :
  su_reach evs = Some s -> probe s = 200%N ->
  su_reach (evs ++ evs') = Some s' ->
  probe s' = 200%N /\ delivered s' = delivered s.
Proof.
  intros Hr Hp Hr'. rewrite su_reach_app, Hr in Hr'.
  destruct (sound_200 _ _ Hr Hp) as [Hf _]. apply probe_200 in Hp.
  destruct (closed_fold _ _ _ Hr' Hp Hf) as [Hw Hd].
  split; [apply probe_200; exact Hw|exact Hd].
Qed.

(* liveness of the model: once every process has ended and Finish was called,
   the waiter step is enabled until Closed, nothing but probes and waiter
   steps can happen, and at most two waiter steps reach Closed.  (That the
   goroutine and the listener are in fact scheduled is not a theorem: the
   correspondence check observes it with a generous bound.) *)
Theorem live evs s :
  su_reach evs = Some s -> finished s = true -> all_ended (procs s) = true ->
  (probe s = 425%N -> exists s1, su_step s WaiterStep = Some s1) /\
  (forall e s1, su_step s e = Some s1 ->
     (e = WaiterStep \/ e = Probe) /\ finished s1 = true /\ all_ended (procs s1) = true) /\
  exists n s', n <= 2 /\ su_reach (evs ++ repeat WaiterStep n) = Some s' /\ probe s' = 200%N.
Proof.
  intros Hr Hf Ha. pose proof (reach_inv _ _ Hr) as Hi.
  split; [|split].
  - unfold probe, su_step. destruct (waiter s) eqn:W; intros Hp; try discriminate.
    + unfold inv in Hi; rewrite W in Hi. destruct Hi; congruence.
    + rewrite Ha. eauto.
    + eauto.
  - intros e s1 Hs. destruct s as [ps od fin w dl]; simpl in *; subst fin.
    unfold su_step in Hs; simpl in Hs. destruct e as [p|p r| | |]; try discriminate.
    + destruct (pstatus p ps) as [[y|]|] eqn:Ep; try discriminate.
      exfalso; exact (all_ended_not_running _ _ Ha Ep).
    + split; [left; reflexivity|].
      destruct w; try discriminate.
      * rewrite Ha in Hs. inversion Hs; subst; simpl; auto.
      * inversion Hs; subst; simpl; auto.
    + split; [right; reflexivity|]. inversion Hs; subst; simpl; auto.
  - destruct (waiter s) as [| |e0|] eqn:W.
    + unfold inv in Hi; rewrite W in Hi. destruct Hi; congruence.
    + destruct (first_failure (order s)) as [e1|] eqn:Ef.
      * exists 2. eexists. split; [lia|]. rewrite su_reach_app, Hr. simpl.
        rewrite W, Ha, Ef. simpl. split; reflexivity.
      * exists 1. eexists. split; [lia|]. rewrite su_reach_app, Hr. simpl.
        rewrite W, Ha, Ef. split; reflexivity.
    + exists 1. eexists. split; [lia|]. rewrite su_reach_app, Hr. simpl.
      rewrite W. split; reflexivity.
    + exists 0. exists s. split; [lia|]. rewrite app_nil_r.
      split; [exact Hr|apply probe_200; exact W].
Qed.

(* the first startup error (completion order) reaches the listener exactly once *)
Theorem first_error_once evs s :
  su_reach evs = Some s ->
  (delivered s = [] \/ exists e, first_error evs = Some e /\ delivered s = [e]) /\
  (probe s = 200%N ->
   delivered s = match first_error evs with Some e => [e] | None => [] end).
Proof.
  intros Hr. pose proof (reach_inv _ _ Hr) as Hi.
  pose proof (order_completions _ _ Hr) as Ho.
  unfold first_error; rewrite <- Ho. unfold inv in Hi.
  split.
  - destruct (waiter s) as [| |e0|].
    + left; apply Hi.
    + left; apply Hi.
    + left; apply Hi.
    + destruct Hi as [_ [_ Hd]].
      destruct (first_failure (order s)) as [e1|]; [right; exists e1; auto|left; exact Hd].
  - intros Hp. apply probe_200 in Hp. rewrite Hp in Hi. apply Hi.
Qed.

(* ------------------------------------------------------------ acceptor *)

(* never three waiter steps in a row: [ws_closure] lists every state the
   model can be in before the next visible event *)
Lemma ws_closure_complete s s1 s2 s3 :
  su_step s WaiterStep = Some s1 -> su_step s1 WaiterStep = Some s2 ->
  su_step s2 WaiterStep = Some s3 -> False.
Proof.
  unfold su_step. intros H1 H2 H3.
  destruct (waiter s) eqn:W; try discriminate.
  - destruct (all_ended (procs s)); [|discriminate].
    inversion H1; subst; clear H1; simpl in *.
    destruct (first_failure (order s)); [|discriminate].
    inversion H2; subst; clear H2; simpl in *. discriminate.
  - inversion H1; subst; clear H1; simpl in *. discriminate.
Qed.

Lemma ws_closure_reach s x :
  In x (ws_closure s) ->
  exists k, k <= 2 /\ fold_left ostep (repeat WaiterStep k) (Some s) = Some x.
Proof.
  unfold ws_closure.
  destruct (su_step s WaiterStep) as [s1|] eqn:E1;
    [destruct (su_step s1 WaiterStep) as [s2|] eqn:E2|]; simpl; intros H.
  - destruct H as [<-|[<-|[<-|[]]]].
    + exists 0; split; [lia|reflexivity].
    + exists 1; split; [lia|simpl; exact E1].
    + exists 2; split; [lia|cbn [repeat fold_left ostep]; rewrite E1; exact E2].
  - destruct H as [<-|[<-|[]]].
    + exists 0; split; [lia|reflexivity].
    + exists 1; split; [lia|simpl; exact E1].
  - destruct H as [<-|[]]. exists 0; split; [lia|reflexivity].
Qed.

Lemma quiescent_In s : In (quiescent s) (ws_closure s).
Proof.
  unfold quiescent, ws_closure.
  destruct (su_step s WaiterStep) as [s1|]; [|left; reflexivity].
  destruct (su_step s1 WaiterStep) as [s2|]; simpl; auto.
Qed.

Lemma find_status_In st l x : find_status st l = Some x -> In x l /\ probe x = st.
Proof.
  induction l as [|y l IH]; simpl; [discriminate|].
  destruct (N.eqb (probe y) st) eqn:E.
  - intros H; inversion H; subst. split; [left; reflexivity|apply N.eqb_eq; exact E].
  - intros H; destruct (IH H); auto.
Qed.

Lemma observe_ws k : forall s x evs r,
  fold_left ostep (repeat WaiterStep k) (Some s) = Some x ->
  observe x evs = Some r -> observe s (repeat WaiterStep k ++ evs) = Some r.
Proof.
  induction k as [|k IH]; intros s x evs r H Ho.
  - simpl in *. inversion H; subst; exact Ho.
  - cbn [repeat fold_left ostep] in H. cbn [repeat app observe].
    destruct (su_step s WaiterStep) as [s1|] eqn:E; [|rewrite ostep_none in H; discriminate].
    rewrite (IH _ _ _ _ H Ho). destruct r; reflexivity.
Qed.

Lemma observe_reach evs : forall s v sf,
  observe s evs = Some (v, sf) -> fold_left ostep evs (Some s) = Some sf.
Proof.
  induction evs as [|e evs IH]; simpl; intros s v sf H.
  - inversion H; subst; reflexivity.
  - destruct (su_step s e) as [s1|]; [|discriminate].
    destruct (observe s1 evs) as [[v1 sf1]|] eqn:E; [|discriminate].
    inversion H; subst. exact (IH _ _ _ E).
Qed.

(* every trace the acceptor accepts is the visible part of a run of the model *)
Lemma acceptor_sound_from tr : forall s sf,
  run_trace s tr = Accepted sf ->
  exists evs, observe s evs = Some (map vis_of tr, sf).
Proof.
  induction tr as [|o tr IH]; intros s sf H; cbn [run_trace] in H; cbn [map].
  - inversion H; subst. exists []. reflexivity.
  - destruct o as [p|p x| |st aw].
    + destruct (su_step s (Add p)) as [s1|] eqn:E; [|discriminate].
      destruct (IH _ _ H) as [evs He]. exists (Add p :: evs). cbn [observe vis_of]. rewrite E, He. reflexivity.
    + destruct (su_step s (End p x)) as [s1|] eqn:E; [|discriminate].
      destruct (IH _ _ H) as [evs He]. exists (End p x :: evs). cbn [observe vis_of]. rewrite E, He. reflexivity.
    + destruct (su_step s Finish) as [s1|] eqn:E; [|discriminate].
      destruct (IH _ _ H) as [evs He]. exists (Finish :: evs). cbn [observe vis_of]. rewrite E, He. reflexivity.
    + destruct (find_status st (if aw then [quiescent s] else ws_closure s)) as [s1|] eqn:E;
        [|discriminate].
      apply find_status_In in E. destruct E as [Hin Hp].
      assert (Hc : In s1 (ws_closure s)).
      { destruct aw; [|exact Hin]. destruct Hin as [<-|[]]. apply quiescent_In. }
      destruct (ws_closure_reach _ _ Hc) as [k [_ Hk]].
      destruct (IH _ _ H) as [evs He].
      exists (repeat WaiterStep k ++ Probe :: evs).
      eapply observe_ws; [exact Hk|]. cbn [observe vis_of su_step]. rewrite He, Hp. reflexivity.
Qed.

Theorem acceptor_sound tr sf :
  run_trace su_init tr = Accepted sf ->
  exists evs, su_reach evs = Some sf /\ observe su_init evs = Some (map vis_of tr, sf).
Proof.
  intros H. destruct (acceptor_sound_from _ _ _ H) as [evs He].
  exists evs. split; [exact (observe_reach _ _ _ _ He)|exact He].
Qed.

(* ------------------------------------- how a probe asks; what its client sees *)

Lemma serve_probe s r : serve s r = probe s.
Proof. unfold serve, ready_ops, probe. destruct (waiter s); reflexivity. Qed.

(* the answer is a function of the startup state only: whatever method, query,
   headers, body, protocol version and connection a probe uses, its client reads
   [probe s]; so the statements about [probe] hold for every way of asking *)
Theorem answer_of_state_only evs s r :
  su_reach evs = Some s ->
  serve s r = probe s /\
  (forall r', serve s r' = serve s r) /\
  (serve s r = 200%N -> finished s = true /\ Forall ended (procs s)) /\
  ((finished s = false \/ exists p, running s p) -> serve s r = 425%N).
Proof.
  intros H. split; [apply serve_probe|]. split; [|split].
  - intros r'. rewrite !serve_probe. reflexivity.
  - rewrite serve_probe. intros H2. exact (sound_200 evs s H H2).
  - rewrite serve_probe. intros H2. exact (otherwise_425 evs s H H2).
Qed.

(* a handler that writes the document before the status says 200 to every
   request it treats that way while a process is still running - and is
   indistinguishable from the real one for every other request *)
Theorem body_first_refuted (wants : request -> bool) r :
  wants r = true ->
  exists evs s, su_reach evs = Some s /\ finished s = false /\ (exists p, running s p) /\
                probe s = 425%N /\ client_status (body_first_ops wants s r) = 200%N.
Proof.
  intros W. exists [Add 1%N]. eexists. split; [vm_compute; reflexivity|].
  split; [reflexivity|]. split; [exists 1%N; left; reflexivity|]. split; [reflexivity|].
  unfold body_first_ops. rewrite W. reflexivity.
Qed.

Lemma body_first_unnoticed (wants : request -> bool) s r :
  wants r = false -> client_status (body_first_ops wants s r) = serve s r.
Proof. intros W. unfold body_first_ops. rewrite W. reflexivity. Qed.

Example nv_serve :
  let r := mkRequest (B "POST") (B "format=json") [(B "Accept", B "application/json")] (B "{}") true true in
  option_map (fun s => serve s r) (su_reach [Add 1%N; Finish; Probe]) = Some 425%N /\
  option_map (fun s => serve s r) (su_reach [Add 1%N; Finish; End 1%N ok; WaiterStep]) = Some 200%N.
Proof. vm_compute. split; reflexivity. Qed.

(* ------------------------------------------------------------ non-vacuity *)
(* three processes, the second to end fails with 7, the third with 9 *)
Definition nv_hist : list event :=
  [Add 1%N; Add 2%N; Probe; End 2%N ok; Add 3%N; Finish; Probe;
   End 3%N (failed 7%N); Probe; End 1%N (failed 9%N); Probe].

Example nv_before :
  option_map (fun s => (probe s, finished s, all_ended (procs s), waiter s, delivered s))
             (su_reach nv_hist) = Some (425%N, true, true, Waiting, []).
Proof. vm_compute. reflexivity. Qed.

Example nv_sending :
  option_map (fun s => (probe s, waiter s, delivered s))
             (su_reach (nv_hist ++ [WaiterStep; Probe])) = Some (425%N, Sending 7%N, []).
Proof. vm_compute. reflexivity. Qed.

Example nv_closed :
  option_map (fun s => (probe s, waiter s, delivered s))
             (su_reach (nv_hist ++ [WaiterStep; Probe; WaiterStep; Probe; Probe]))
  = Some (200%N, Closed, [7%N]).
Proof. vm_compute. reflexivity. Qed.

Example nv_first_error : first_error nv_hist = Some 7%N.
Proof. vm_compute. reflexivity. Qed.

(* all three succeed: one waiter step, nothing delivered *)
Example nv_all_ok :
  option_map (fun s => (probe s, delivered s))
    (su_reach [Add 1%N; Add 2%N; Add 3%N; Finish; End 3%N ok; End 1%N ok; Probe; End 2%N ok;
               WaiterStep]) = Some (200%N, []).
Proof. vm_compute. reflexivity. Qed.

(* the waiter is blocked while a process runs; Add after Finish, a second
   Finish and a second End are outside the model *)
Example nv_blocked :
  su_reach [Add 1%N; Add 2%N; Add 3%N; Finish; End 1%N (failed 5%N); End 3%N ok; WaiterStep] = None.
Proof. vm_compute. reflexivity. Qed.
Example nv_add_after_finish : su_reach [Add 1%N; Finish; Add 2%N] = None.
Proof. vm_compute. reflexivity. Qed.
Example nv_finish_twice : su_reach [Finish; Finish] = None.
Proof. vm_compute. reflexivity. Qed.
Example nv_end_twice : su_reach [Add 1%N; End 1%N ok; End 1%N ok] = None.
Proof. vm_compute. reflexivity. Qed.

(* no process at all: Finish alone leads to ready *)
Example nv_empty :
  option_map probe (su_reach [Probe; Finish; WaiterStep]) = Some 200%N.
Proof. vm_compute. reflexivity. Qed.

(* the acceptor on the visible part of nv_hist *)
Example nv_accept :
  match run_trace su_init
          [OAdd 1%N; OAdd 2%N; OProbe 425%N false; OEnd 2%N ok; OAdd 3%N; OFinish;
           OProbe 425%N false; OEnd 3%N (failed 7%N); OProbe 425%N false;
           OEnd 1%N (failed 9%N); OProbe 200%N true; OProbe 200%N false] with
  | Accepted s => delivered s
  | _ => [0%N]
  end = [7%N].
Proof. vm_compute. reflexivity. Qed.

Example nv_reject_early :
  run_trace su_init [OAdd 1%N; OAdd 2%N; OAdd 3%N; OFinish; OEnd 1%N ok; OProbe 200%N false]
  = Rejected.
Proof. vm_compute. reflexivity. Qed.
