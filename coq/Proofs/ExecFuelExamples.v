(* Non-vacuity and refutation witnesses for the fuel statement (Proofs/ExecFuelInst.v), computed by vm_compute.
   - [near_*]: two nested counting while loops with an if-nest 1240 deep inside: the measure is 6 below [exec_fuel];
     the theorem applies and gives the rendering without running the model.
   - [over_*]: the same program with the if-nest 1245 deep: the measure is 4 above [exec_fuel], S renders "x",
     and [run_program] really runs out of fuel (the loops run 10000 rounds each, the nest is entered in the last
     round of the inner loop) — the bound of the theorems is tight to a handful of units.
   - [w3_*]: three nested while loops (10000, 10000 and 3000 rounds), a small program: S renders "3000",
     [run_program] runs out of fuel.  The Go engine has no fuel: a defect of the MODEL's fuel, not of the code. *)
From PV Require Import Base.Bytes Base.Escape Js.Ast Tmpl.Value Tmpl.IR Tmpl.Runtime Tmpl.Exec Pug.Ast Pug.Compile
  Pug.Lower Spec.Sem Proofs.C01EvalProofs Proofs.C02InstProofs Run.Judge_Core
  Proofs.ExecFuelProofs Proofs.ExecFuelPure Proofs.ExecFuelInst Proofs.ExecFuelLower.
Local Open Scope Z_scope.

Definition f_inc (x : string) : pnode := PCode [SExpr (JUn UInc true (JId (B x)))] false false.
Definition f_var0 (x : string) : pnode := PCode [SVar [JVar (B x) (Some (JNum 0))]] false false.
Definition f_lt (x y : string) : jexpr := JBin BLt (JId (B x)) (JId (B y)).
Definition f_ltn (x : string) (n : Z) : jexpr := JBin BLt (JId (B x)) (JNum n).
Definition f_eq (x y : string) : jexpr := JBin BSEq (JId (B x)) (JId (B y)).
Fixpoint nest_if (k : nat) (c : jexpr) (body : list pnode) : list pnode :=
  match k with O => body | S k' => [PCond c (nest_if k' c body) None] end.

(* while i < n: i++; if i === n: while j < n: j++; if j === n: ... (k deep) ... x *)
Definition w2 (k : nat) : list pnode :=
  [f_var0 "i"; f_var0 "j";
   PWhile (f_lt "i" "n")
     [f_inc "i";
      PCond (f_eq "i" "n") [PWhile (f_lt "j" "n") (f_inc "j" :: nest_if k (f_eq "j" "n") [PText (B "x")])] None]].
Definition w_names : list bytes := [B "i"; B "j"; B "k"; B "n"].
Definition w_data : dval := DMap [(B "n", DInt 10000)].
Definition w2_tree (k : nat) : list tnode :=
  match lower_nodes ex_funcs (goodS ex_funcs w_names) (w2 k) with Some t => t | None => [] end.

Example near_bound_facts :
  lower_nodes ex_funcs (goodS ex_funcs w_names) (w2 1240) = Some (w2_tree 1240) /\
  data_ok w_names w_data = true /\
  fuel_ok w_data (w2_tree 1240) = true /\
  (cost_nodes (rounds (dwidth w_data)) (w2_tree 1240) + 6 = exec_fuel)%nat /\
  sem_run (w2 1240) (sd_top w_data) = SOut (B "x") [].
Proof. vm_compute. repeat split; reflexivity. Qed.

(* the theorem applies: the rendering of the model, without running it *)
Example near_bound_renders :
  run_program {| p_main := w2_tree 1240; p_defs := [] |} w_data = OOk (B "x").
Proof.
  destruct near_bound_facts as (Hl & Hd & Hf & _ & Hs).
  pose proof (program_scalar_exact ex_funcs w_names (w2 1240) (w2_tree 1240) w_data Hl Hd Hf) as H.
  rewrite Hs in H. exact H.
Qed.

Example near_bound :
  lower_nodes ex_funcs (goodS ex_funcs w_names) (w2 1240) = Some (w2_tree 1240) /\
  data_ok w_names w_data = true /\
  fuel_ok w_data (w2_tree 1240) = true /\
  (cost_nodes (rounds (dwidth w_data)) (w2_tree 1240) + 6 = exec_fuel)%nat /\
  sem_run (w2 1240) (sd_top w_data) = SOut (B "x") [] /\
  run_program {| p_main := w2_tree 1240; p_defs := [] |} w_data = OOk (B "x").
Proof.
  destruct near_bound_facts as (Hl & Hd & Hf & Hc & Hs).
  split; [exact Hl|]. split; [exact Hd|]. split; [exact Hf|]. split; [exact Hc|]. split; [exact Hs|exact near_bound_renders].
Qed.

(* five levels deeper: over the bound, and the model is out of fuel where S renders *)
Example over_bound_out_of_fuel :
  lower_nodes ex_funcs (goodS ex_funcs w_names) (w2 1245) = Some (w2_tree 1245) /\
  data_ok w_names w_data = true /\
  pure_nodes (w2_tree 1245) = true /\
  (cost_nodes (rounds (dwidth w_data)) (w2_tree 1245) = exec_fuel + 4)%nat /\
  sem_run (w2 1245) (sd_top w_data) = SOut (B "x") [] /\
  run_program {| p_main := w2_tree 1245; p_defs := [] |} w_data = OFuel.
Proof. vm_cast_no_check (conj (@eq_refl _ (Some (w2_tree 1245)))
         (conj (@eq_refl _ true) (conj (@eq_refl _ true) (conj (@eq_refl _ (exec_fuel + 4)%nat)
         (conj (@eq_refl _ (SOut (B "x") [])) (@eq_refl _ OFuel)))))). Qed.

(* three nested loops *)
Definition w3 (c : Z) : list pnode :=
  [f_var0 "i"; f_var0 "j"; f_var0 "k";
   PWhile (f_lt "i" "n")
     [f_inc "i";
      PCond (f_eq "i" "n")
        [PWhile (f_lt "j" "n")
           [f_inc "j"; PCond (f_eq "j" "n") [PWhile (f_ltn "k" c) [f_inc "k"]] None]] None];
   PCode [SExpr (JId (B "k"))] true true].
Definition w3_tree (c : Z) : list tnode :=
  match lower_nodes ex_funcs (goodS ex_funcs w_names) (w3 c) with Some t => t | None => [] end.

Example w3_out_of_fuel :
  lower_nodes ex_funcs (goodS ex_funcs w_names) (w3 3000) = Some (w3_tree 3000) /\
  data_ok w_names w_data = true /\
  pure_nodes (w3_tree 3000) = true /\
  length (w3_tree 3000) = 5%nat /\
  sem_run (w3 3000) (sd_top w_data) = SOut (B "3000") [] /\
  run_program {| p_main := w3_tree 3000; p_defs := [] |} w_data = OFuel.
Proof. vm_cast_no_check (conj (@eq_refl _ (Some (w3_tree 3000)))
         (conj (@eq_refl _ true) (conj (@eq_refl _ true) (conj (@eq_refl _ 5%nat)
         (conj (@eq_refl _ (SOut (B "3000") [])) (@eq_refl _ OFuel)))))). Qed.

(* without the bound on the measure the exact statement is false *)
Theorem exact_without_bound_refuted :
  exists funcs names nodes t d o,
    lower_nodes funcs (goodS funcs names) nodes = Some t /\ data_ok names d = true /\ pure_nodes t = true /\
    sem_run nodes (sd_top d) = SOut o [] /\
    run_program {| p_main := t; p_defs := [] |} d = OFuel.
Proof.
  exists ex_funcs, w_names, (w3 3000), (w3_tree 3000), w_data, (B "3000").
  destruct w3_out_of_fuel as (H1 & H2 & H3 & _ & H5 & H6).
  split; [exact H1|]. split; [exact H2|]. split; [exact H3|]. split; [exact H5|exact H6].
Qed.

(* each over a data array: the iterations of a range action are bounded by the widest collection of the data *)
Example e_fuel_ok :
  match lower_nodes ex_funcs (goodS ex_funcs e_names) e_nodes with
  | Some t => fuel_ok e_data t = true
  | None => False
  end.
Proof. vm_compute. reflexivity. Qed.
