(* C10 proofs: names of a tree, the loader machine's invariants over all schedules. *)
From PV Require Import Base.Bytes Models.Loader.

(* ================================================================ lists, maps, suffixes *)

Lemma lookup_app {A} k (a b : list (bytes * A)) :
  lookup k (a ++ b) = match lookup k a with Some v => Some v | None => lookup k b end.
Proof.
  induction a as [|[k' v] a IH]; simpl; [reflexivity|].
  destruct (beqb k k'); [reflexivity|exact IH].
Qed.

Lemma lookup_filter_key {A} (p : bytes -> bool) k (l : list (bytes * A)) :
  lookup k (filter (fun kv => p (fst kv)) l) = if p k then lookup k l else None.
Proof.
  induction l as [|[k' v] l IH]; simpl.
  - destruct (p k); reflexivity.
  - destruct (p k') eqn:Ep; simpl.
    + destruct (beqb k k') eqn:E.
      * apply beqb_eq in E; subst k'. rewrite Ep. reflexivity.
      * exact IH.
    + destruct (beqb k k') eqn:E.
      * apply beqb_eq in E; subst k'. rewrite Ep in *. rewrite IH. reflexivity.
      * exact IH.
Qed.

Lemma lookup_In {A} k (l : list (bytes * A)) v : lookup k l = Some v -> In (k, v) l.
Proof.
  induction l as [|[k' v'] l IH]; simpl; [discriminate|].
  destruct (beqb k k') eqn:E.
  - apply beqb_eq in E; subst. intros H; inversion H; subst. left; reflexivity.
  - intros H; right; apply IH; exact H.
Qed.

Lemma In_lookup_some {A} k (l : list (bytes * A)) v : In (k, v) l -> lookup k l <> None.
Proof.
  induction l as [|[k' v'] l IH]; simpl; [intros []|].
  intros [H|H].
  - inversion H; subst. rewrite beqb_refl. discriminate.
  - destruct (beqb k k'); [discriminate|apply IH; exact H].
Qed.

Lemma nodupb_NoDup l : nodupb l = true -> NoDup l.
Proof.
  induction l as [|x l IH]; simpl; intros H; [constructor|].
  apply andb_true_iff in H; destruct H as [H1 H2].
  constructor; [|apply IH; exact H2].
  apply negb_true_iff in H1. apply mem_false_In in H1. exact H1.
Qed.

Lemma NoDup_fst_unique {A B} (l : list (A * B)) a b b' :
  NoDup (map fst l) -> In (a, b) l -> In (a, b') l -> b = b'.
Proof.
  induction l as [|[x y] l IH]; simpl; intros Hnd H1 H2; [contradiction|].
  inversion Hnd as [|? ? Hni Hnd']; subst.
  destruct H1 as [H1|H1]; destruct H2 as [H2|H2].
  - congruence.
  - inversion H1; subst. exfalso; apply Hni. apply (in_map fst) in H2. exact H2.
  - inversion H2; subst. exfalso; apply Hni. apply (in_map fst) in H1. exact H1.
  - apply IH; assumption.
Qed.

Lemma NoDup_lookup_In {A} k (l : list (bytes * A)) v :
  NoDup (map fst l) -> In (k, v) l -> lookup k l = Some v.
Proof.
  intros Hnd Hin.
  destruct (lookup k l) as [v'|] eqn:E.
  - apply lookup_In in E. f_equal. eapply NoDup_fst_unique; eauto.
  - exfalso. eapply In_lookup_some; eauto.
Qed.

Lemma suffixb_spec p s : suffixb p s = true <-> exists r, s = r ++ p.
Proof.
  unfold suffixb. rewrite prefixb_spec. split.
  - intros [r H]. exists (rev r).
    rewrite <- (rev_involutive s), H, rev_app_distr, rev_involutive. reflexivity.
  - intros [r H]. exists (rev r). rewrite H, rev_app_distr. reflexivity.
Qed.

Lemma strip_app r : strip_suffix (r ++ ast_suffix) = r.
Proof.
  unfold strip_suffix. rewrite app_length.
  replace (length r + length ast_suffix - length ast_suffix) with (length r) by lia.
  rewrite firstn_app, firstn_all, Nat.sub_diag. simpl. apply app_nil_r.
Qed.

(* the model strips the joined path, the specification joins the stripped name *)
Lemma name_eq dir nm :
  has_suffix nm = true -> strip_suffix (pjoin dir nm) = pjoin dir (strip_suffix nm).
Proof.
  unfold has_suffix. intros H. apply suffixb_spec in H. destruct H as [r ->].
  rewrite strip_app. unfold pjoin. destruct (is_empty dir).
  - apply strip_app.
  - rewrite !app_assoc. apply strip_app.
Qed.

Lemma prefixb_nil s : prefixb [] s = true.
Proof. reflexivity. Qed.

Lemma prefixb_refl s : prefixb s s = true.
Proof. apply prefixb_spec. exists []. symmetry; apply app_nil_r. Qed.

Lemma skip_eq f n : negb (is_empty f) && negb (prefixb f n) = negb (prefixb f n).
Proof. destruct f; reflexivity. Qed.

(* ================================================================ induction on trees *)

Section NodeInd.
  Variable P : node -> Prop.
  Hypothesis HF : forall nm k, P (File nm k).
  Hypothesis HD : forall nm ch, Forall P ch -> P (Dir nm ch).
  Fixpoint node_ind2 (n : node) : P n :=
    match n with
    | File nm k => HF nm k
    | Dir nm ch =>
      HD nm ch ((fix go (l : list node) : Forall P l :=
                   match l with
                   | [] => Forall_nil P
                   | x :: t => Forall_cons x (node_ind2 x) (go t)
                   end) ch)
    end.
End NodeInd.

Lemma compile_node_dir d f dir nm ch res :
  compile_node d f dir (Dir nm ch) res =
  match compile_nodes d f (pjoin dir nm) ch [] with
  | COk tpls => COk (res ++ tpls)
  | CErr => CErr
  | CPanic => CPanic
  end.
Proof.
  simpl.
  assert (H : forall l r,
    (fix go (ns : list node) (res0 : tmap) {struct ns} : cres tmap :=
       match ns with
       | [] => COk res0
       | x :: t =>
         match compile_node d f (pjoin dir nm) x res0 with
         | COk r0 => go t r0
         | CErr => CErr
         | CPanic => CPanic
         end
       end) l r = compile_nodes d f (pjoin dir nm) l r).
  { induction l as [|x t IH]; intros r; simpl; [reflexivity|].
    destruct (compile_node d f (pjoin dir nm) x r); [apply IH|reflexivity|reflexivity]. }
  rewrite H. reflexivity.
Qed.

Lemma tnames_node_dir dir nm ch :
  tnames_node dir (Dir nm ch) = tnames_nodes (pjoin dir nm) ch.
Proof.
  simpl. induction ch as [|x t IH]; simpl; [reflexivity|]. rewrite IH. reflexivity.
Qed.

Lemma compile_node_file d f dir nm k res :
  compile_node d f dir (File nm k) res =
  if has_suffix nm then
    if prefixb f (pjoin dir (strip_suffix nm)) then
      match compile_file d k with
      | COk t => COk ((pjoin dir (strip_suffix nm), t) :: res)
      | CErr => CErr
      | CPanic => CPanic
      end
    else COk res
  else COk res.
Proof.
  simpl. destruct (has_suffix nm) eqn:E; [|reflexivity].
  rewrite skip_eq, (name_eq dir nm E).
  destruct (prefixb f (pjoin dir (strip_suffix nm))); reflexivity.
Qed.

Opaque compile_node tnames_node.

(* ================================================================ compileDir against the names of the tree *)

Section Compile.
  Variable d : bool.
  Variable f : bytes.

  (* --- every entry of the result comes from the accumulator or from a file of that name *)
  Definition sound_at (names : list (bytes * fkind)) (res out : tmap) : Prop :=
    forall x t, lookup x out = Some t ->
      lookup x res = Some t \/
      exists k, In (x, k) names /\ compile_file d k = COk t /\ prefixb f x = true.

  Lemma sound_node : forall n dir res out,
    compile_node d f dir n res = COk out -> sound_at (tnames_node dir n) res out.
  Proof.
    induction n as [nm k|nm ch IH] using node_ind2; intros dir res out H x t Hl.
    - rewrite compile_node_file in H. Transparent tnames_node. simpl. Opaque tnames_node.
      destruct (has_suffix nm) eqn:Es; [|inversion H; subst; left; exact Hl].
      destruct (prefixb f (pjoin dir (strip_suffix nm))) eqn:Ep; [|inversion H; subst; left; exact Hl].
      destruct (compile_file d k) as [t0| |] eqn:Ec; try discriminate.
      inversion H; subst out. simpl in Hl.
      destruct (beqb x (pjoin dir (strip_suffix nm))) eqn:Ex.
      + apply beqb_eq in Ex; subst x. inversion Hl; subst t0.
        right. exists k. split; [left; reflexivity|split; assumption].
      + left; exact Hl.
    - rewrite compile_node_dir in H. rewrite tnames_node_dir.
      destruct (compile_nodes d f (pjoin dir nm) ch []) as [tp| |] eqn:Ec; try discriminate.
      inversion H; subst out. rewrite lookup_app in Hl.
      destruct (lookup x res) eqn:Er; [left; exact Hl|].
      right.
      (* the children, from the empty accumulator *)
      assert (G : forall l r o, Forall (fun n => forall dir res out,
                    compile_node d f dir n res = COk out -> sound_at (tnames_node dir n) res out) l ->
                  compile_nodes d f (pjoin dir nm) l r = COk o ->
                  sound_at (tnames_nodes (pjoin dir nm) l) r o).
      { clear. induction l as [|y l IHl]; intros r o HF Hc; simpl in *.
        - inversion Hc; subst. intros x t Hx; left; exact Hx.
        - inversion HF as [|? ? Hy HFl]; subst.
          destruct (compile_node d f (pjoin dir nm) y r) as [r1| |] eqn:E1; try discriminate.
          intros x t Hx.
          destruct (IHl _ _ HFl Hc x t Hx) as [Hr|[k [Hi Hk]]].
          + destruct (Hy _ _ _ E1 x t Hr) as [Hr0|[k [Hi Hk]]]; [left; exact Hr0|].
            right; exists k; split; [apply in_or_app; left; exact Hi|exact Hk].
          + right; exists k; split; [apply in_or_app; right; exact Hi|exact Hk]. }
      destruct (G _ _ _ IH Ec x t Hl) as [Hn|Hk]; [discriminate|exact Hk].
  Qed.

  Lemma sound_nodes : forall ns dir res out,
    compile_nodes d f dir ns res = COk out -> sound_at (tnames_nodes dir ns) res out.
  Proof.
    induction ns as [|y l IHl]; intros dir r o Hc; simpl in *.
    - inversion Hc; subst. intros x t Hx; left; exact Hx.
    - destruct (compile_node d f dir y r) as [r1| |] eqn:E1; try discriminate.
      intros x t Hx.
      destruct (IHl _ _ _ Hc x t Hx) as [Hr|[k [Hi Hk]]].
      + destruct (sound_node _ _ _ _ E1 x t Hr) as [Hr0|[k [Hi Hk]]]; [left; exact Hr0|].
        right; exists k; split; [apply in_or_app; left; exact Hi|exact Hk].
      + right; exists k; split; [apply in_or_app; right; exact Hi|exact Hk].
  Qed.

  (* --- nothing is lost: the accumulator survives, every selected file has an entry *)
  Definition complete_at (names : list (bytes * fkind)) (res out : tmap) : Prop :=
    (forall x, lookup x res <> None -> lookup x out <> None) /\
    (forall x k, In (x, k) names -> prefixb f x = true -> lookup x out <> None).

  Lemma complete_step names1 names2 r r1 o :
    complete_at names1 r r1 -> complete_at names2 r1 o -> complete_at (names1 ++ names2) r o.
  Proof.
    intros [A1 A2] [B1 B2]. split.
    - intros x Hx. apply B1, A1, Hx.
    - intros x k Hi Hp. apply in_app_or in Hi. destruct Hi as [Hi|Hi].
      + apply B1. eapply A2; eauto.
      + eapply B2; eauto.
  Qed.

  Lemma complete_node : forall n dir res out,
    compile_node d f dir n res = COk out -> complete_at (tnames_node dir n) res out.
  Proof.
    induction n as [nm k|nm ch IH] using node_ind2; intros dir res out H.
    - rewrite compile_node_file in H. Transparent tnames_node. simpl. Opaque tnames_node.
      destruct (has_suffix nm) eqn:Es;
        [|inversion H; subst; split; [auto|intros x k0 []]].
      destruct (prefixb f (pjoin dir (strip_suffix nm))) eqn:Ep.
      + destruct (compile_file d k) as [t0| |] eqn:Ec; try discriminate.
        inversion H; subst out. split.
        * intros x Hx. simpl. destruct (beqb x (pjoin dir (strip_suffix nm))); [discriminate|exact Hx].
        * intros x k0 [Hi|[]] _. inversion Hi; subst. simpl. rewrite beqb_refl. discriminate.
      + inversion H; subst out. split; [auto|].
        intros x k0 [Hi|[]] Hp. inversion Hi; subst. congruence.
    - rewrite compile_node_dir in H. rewrite tnames_node_dir.
      destruct (compile_nodes d f (pjoin dir nm) ch []) as [tp| |] eqn:Ec; try discriminate.
      inversion H; subst out.
      assert (G : forall l r o, Forall (fun n => forall dir res out,
                    compile_node d f dir n res = COk out -> complete_at (tnames_node dir n) res out) l ->
                  compile_nodes d f (pjoin dir nm) l r = COk o ->
                  complete_at (tnames_nodes (pjoin dir nm) l) r o).
      { clear. induction l as [|y l IHl]; intros r o HF Hc; simpl in *.
        - inversion Hc; subst. split; [auto|intros x k []].
        - inversion HF as [|? ? Hy HFl]; subst.
          destruct (compile_node d f (pjoin dir nm) y r) as [r1| |] eqn:E1; try discriminate.
          eapply complete_step; [apply Hy; exact E1|apply IHl; assumption]. }
      destruct (G _ _ _ IH Ec) as [_ G2]. split.
      + intros x Hx. rewrite lookup_app. destruct (lookup x res); [discriminate|contradiction].
      + intros x k Hi Hp. rewrite lookup_app. destruct (lookup x res); [discriminate|].
        eapply G2; eauto.
  Qed.

  Lemma complete_nodes : forall ns dir res out,
    compile_nodes d f dir ns res = COk out -> complete_at (tnames_nodes dir ns) res out.
  Proof.
    induction ns as [|y l IHl]; intros dir r o Hc; simpl in *.
    - inversion Hc; subst. split; [auto|intros x k []].
    - destruct (compile_node d f dir y r) as [r1| |] eqn:E1; try discriminate.
      eapply complete_step; [apply complete_node; exact E1|apply IHl; exact Hc].
  Qed.

  (* --- the way a compile ends is decided by the selected files *)
  Definition selected_ok (names : list (bytes * fkind)) : Prop :=
    forall x k, In (x, k) names -> prefixb f x = true -> exists t, compile_file d k = COk t.

  Definition fails_with (names : list (bytes * fkind)) (c : cres tpl) : Prop :=
    exists x k, In (x, k) names /\ prefixb f x = true /\ compile_file d k = c.

  Definition status_at (names : list (bytes * fkind)) (r : cres tmap) : Prop :=
    match r with
    | COk _ => selected_ok names
    | CErr => fails_with names CErr
    | CPanic => fails_with names CPanic
    end.

  Lemma fails_app_l n1 n2 c : fails_with n1 c -> fails_with (n1 ++ n2) c.
  Proof. intros [x [k [Hi H]]]; exists x, k; split; [apply in_or_app; left; exact Hi|exact H]. Qed.

  Lemma fails_app_r n1 n2 c : fails_with n2 c -> fails_with (n1 ++ n2) c.
  Proof. intros [x [k [Hi H]]]; exists x, k; split; [apply in_or_app; right; exact Hi|exact H]. Qed.

  Lemma selected_app n1 n2 : selected_ok n1 -> selected_ok n2 -> selected_ok (n1 ++ n2).
  Proof. intros A B x k Hi Hp. apply in_app_or in Hi. destruct Hi; eauto. Qed.

  Lemma status_nodes_from_node : forall dir l,
    Forall (fun n => forall dir res, status_at (tnames_node dir n) (compile_node d f dir n res)) l ->
    forall r, status_at (tnames_nodes dir l) (compile_nodes d f dir l r).
  Proof.
    intros dir l HF. induction HF as [|y l Hy HFl IHl]; intros r; simpl.
    - intros x k [].
    - specialize (Hy dir r).
      destruct (compile_node d f dir y r) as [r1| |] eqn:E1; simpl in Hy.
      + specialize (IHl r1).
        destruct (compile_nodes d f dir l r1); simpl in *.
        * apply selected_app; assumption.
        * apply fails_app_r; assumption.
        * apply fails_app_r; assumption.
      + simpl. apply fails_app_l; assumption.
      + simpl. apply fails_app_l; assumption.
  Qed.

  Lemma status_node : forall n dir res, status_at (tnames_node dir n) (compile_node d f dir n res).
  Proof.
    induction n as [nm k|nm ch IH] using node_ind2; intros dir res.
    - rewrite compile_node_file. Transparent tnames_node. simpl. Opaque tnames_node.
      destruct (has_suffix nm) eqn:Es; [|intros x k0 []].
      destruct (prefixb f (pjoin dir (strip_suffix nm))) eqn:Ep.
      + destruct (compile_file d k) as [t0| |] eqn:Ec; simpl.
        * intros x k0 [Hi|[]] _. inversion Hi; subst. eauto.
        * exists (pjoin dir (strip_suffix nm)), k. split; [left; reflexivity|split; assumption].
        * exists (pjoin dir (strip_suffix nm)), k. split; [left; reflexivity|split; assumption].
      + intros x k0 [Hi|[]] Hp. inversion Hi; subst. congruence.
    - rewrite compile_node_dir, tnames_node_dir.
      pose proof (status_nodes_from_node (pjoin dir nm) ch IH []) as G.
      destruct (compile_nodes d f (pjoin dir nm) ch []); exact G.
  Qed.

  Lemma status_nodes : forall ns dir res, status_at (tnames_nodes dir ns) (compile_nodes d f dir ns res).
  Proof.
    intros ns dir res. apply status_nodes_from_node.
    apply Forall_forall. intros n _. apply status_node.
  Qed.

  Lemma selected_ok_compiles : forall ns dir res,
    selected_ok (tnames_nodes dir ns) -> exists out, compile_nodes d f dir ns res = COk out.
  Proof.
    intros ns dir res Hs. pose proof (status_nodes ns dir res) as G.
    destruct (compile_nodes d f dir ns res) as [o| |]; [eauto| |]; simpl in G;
      destruct G as [x [k [Hi [Hp Hc]]]]; destruct (Hs x k Hi Hp) as [t Ht]; congruence.
  Qed.
End Compile.

(* --- a filtered compile is the full compile restricted to the names the filter selects *)
Section Restrict.
  Variable d : bool.
  Variable f : bytes.

  Definition restr (rf rfull : tmap) : Prop :=
    forall x, lookup x rf = if prefixb f x then lookup x rfull else None.

  Definition restrict_at (cf cfull : cres tmap) : Prop :=
    match cfull with
    | COk ofull => exists of_, cf = COk of_ /\ restr of_ ofull
    | _ => True
    end.

  Lemma restrict_nodes_from_node : forall dir l,
    Forall (fun n => forall dir rf rfull, restr rf rfull ->
              restrict_at (compile_node d f dir n rf) (compile_node d [] dir n rfull)) l ->
    forall rf rfull, restr rf rfull ->
      restrict_at (compile_nodes d f dir l rf) (compile_nodes d [] dir l rfull).
  Proof.
    intros dir l HF. induction HF as [|y l Hy HFl IHl]; intros rf rfull HR; simpl.
    - exists rf. split; [reflexivity|exact HR].
    - specialize (Hy dir rf rfull HR).
      destruct (compile_node d [] dir y rfull) as [r1| |] eqn:E1; simpl in *; try exact I.
      destruct Hy as [o1 [-> HR1]].
      apply IHl. exact HR1.
  Qed.

  Lemma restrict_node : forall n dir rf rfull, restr rf rfull ->
    restrict_at (compile_node d f dir n rf) (compile_node d [] dir n rfull).
  Proof.
    induction n as [nm k|nm ch IH] using node_ind2; intros dir rf rfull HR.
    - rewrite !compile_node_file. destruct (has_suffix nm) eqn:Es; [|exists rf; split; [reflexivity|exact HR]].
      rewrite prefixb_nil.
      destruct (compile_file d k) as [t0| |] eqn:Ec; simpl; try exact I.
      destruct (prefixb f (pjoin dir (strip_suffix nm))) eqn:Ep.
      + eexists; split; [reflexivity|]. intros x. simpl.
        destruct (beqb x (pjoin dir (strip_suffix nm))) eqn:Ex.
        * apply beqb_eq in Ex; subst x. rewrite Ep. reflexivity.
        * apply HR.
      + exists rf; split; [reflexivity|]. intros x. simpl.
        destruct (beqb x (pjoin dir (strip_suffix nm))) eqn:Ex.
        * apply beqb_eq in Ex; subst x. rewrite Ep. rewrite HR, Ep. reflexivity.
        * apply HR.
    - rewrite !compile_node_dir.
      assert (R0 : restr [] []) by (intros x; simpl; destruct (prefixb f x); reflexivity).
      pose proof (restrict_nodes_from_node (pjoin dir nm) ch IH [] [] R0) as G.
      destruct (compile_nodes d [] (pjoin dir nm) ch []) as [tfull| |]; simpl in *; try exact I.
      destruct G as [tf [-> HRt]].
      eexists; split; [reflexivity|]. intros x. rewrite !lookup_app, HR, HRt.
      destruct (prefixb f x); [reflexivity|reflexivity].
  Qed.

  Lemma restrict_nodes : forall ns dir rf rfull, restr rf rfull ->
    restrict_at (compile_nodes d f dir ns rf) (compile_nodes d [] dir ns rfull).
  Proof.
    intros ns dir. apply restrict_nodes_from_node.
    apply Forall_forall. intros n _. apply restrict_node.
  Qed.
End Restrict.

(* ================================================================ compile_dir: the theorems about names *)

Lemma good_under_spec d f t :
  good_under d f t = true <-> (exists ns, t = Some ns) /\ selected_ok d f (tnames t).
Proof.
  unfold good_under, selected_ok. destruct t as [ns|].
  - rewrite forallb_forall. split.
    + intros H. split; [eauto|]. intros x k Hi Hp. specialize (H (x, k) Hi). simpl in H.
      rewrite Hp in H. destruct (compile_file d k); [eauto|discriminate|discriminate].
    + intros [_ H] [x k] Hi. simpl. destruct (prefixb f x) eqn:Ep; [|reflexivity].
      destruct (H x k Hi Ep) as [t ->]. reflexivity.
  - split; [discriminate|intros [[ns H] _]; discriminate].
Qed.

Lemma compile_dir_ok_iff d f t :
  (exists m, compile_dir d f t = COk m) <-> good_under d f t = true.
Proof.
  rewrite good_under_spec. destruct t as [ns|]; simpl.
  - split.
    + intros [m H]. split; [eauto|]. pose proof (status_nodes d f ns [] []) as G. rewrite H in G. exact G.
    + intros [_ H]. apply selected_ok_compiles. exact H.
  - split; [intros [m H]; discriminate|intros [[ns H] _]; discriminate].
Qed.

Lemma compile_dir_fail d f t :
  match compile_dir d f t with
  | COk _ => True
  | CErr => t = None \/ fails_with d f (tnames t) CErr
  | CPanic => fails_with d f (tnames t) CPanic
  end.
Proof.
  destruct t as [ns|]; simpl; [|left; reflexivity].
  pose proof (status_nodes d f ns [] []) as G.
  destruct (compile_nodes d f [] ns []); simpl in G; [exact I|right; exact G|exact G].
Qed.

(* the template set of a successful load, read name by name *)
Lemma names_exact d f t m :
  dom_fs t = true -> compile_dir d f t = COk m ->
  forall n, lookup n m = if prefixb f n then spec_find d t n else None.
Proof.
  intros Hdom Hc n. unfold dom_fs in Hdom. apply andb_true_iff in Hdom. destruct Hdom as [Hnd _].
  apply nodupb_NoDup in Hnd.
  destruct t as [ns|]; [|discriminate]. simpl in Hc.
  pose proof (sound_nodes d f ns [] [] m Hc) as HS.
  pose proof (complete_nodes d f ns [] [] m Hc) as [_ HC].
  pose proof (status_nodes d f ns [] []) as HT. rewrite Hc in HT. simpl in HT.
  destruct (prefixb f n) eqn:Ep.
  - unfold spec_find. simpl tnames.
    destruct (lookup n (tnames_nodes [] ns)) as [k|] eqn:El.
    + apply lookup_In in El.
      destruct (HT n k El Ep) as [t0 Ht0]. rewrite Ht0. simpl.
      destruct (lookup n m) as [t1|] eqn:Em.
      * destruct (HS n t1 Em) as [Hr|[k' [Hi [Hk _]]]]; [discriminate|].
        assert (k' = k) by (eapply NoDup_fst_unique; eauto). subst k'. congruence.
      * exfalso. eapply HC; eauto.
    + destruct (lookup n m) as [t1|] eqn:Em; [|reflexivity].
      destruct (HS n t1 Em) as [Hr|[k' [Hi _]]]; [discriminate|].
      exfalso. eapply In_lookup_some; eauto.
  - destruct (lookup n m) as [t1|] eqn:Em; [|reflexivity].
    destruct (HS n t1 Em) as [Hr|[k' [_ [_ Hp]]]]; [discriminate|congruence].
Qed.

Lemma restrict_dir d f t mfull :
  compile_dir d [] t = COk mfull ->
  exists mf, compile_dir d f t = COk mf /\
             forall x, lookup x mf = if prefixb f x then lookup x mfull else None.
Proof.
  destruct t as [ns|]; simpl; [|discriminate]. intros H.
  assert (R0 : restr f [] []) by (intros x; simpl; destruct (prefixb f x); reflexivity).
  pose proof (restrict_nodes d f ns [] [] [] R0) as G. rewrite H in G. exact G.
Qed.

Lemma merge_lookup f old mf x :
  lookup x (merge_old f old mf) =
  if prefixb f x then
    (if is_empty f then lookup x mf
     else match old with Some _ => lookup x mf | None => lookup x mf end)
  else match old with
       | Some o => match lookup x o with Some v => Some v | None => lookup x mf end
       | None => lookup x mf
       end.
Proof.
  unfold merge_old. destruct old as [o|].
  - destruct (is_empty f) eqn:Ee.
    + destruct f; [|discriminate]. reflexivity.
    + rewrite lookup_app, (lookup_filter_key (fun k => negb (prefixb f k))).
      destruct (prefixb f x); reflexivity.
  - destruct (prefixb f x), (is_empty f); reflexivity.
Qed.

Lemma merge_lookup_sel f old mf x :
  prefixb f x = true -> lookup x (merge_old f old mf) = lookup x mf.
Proof.
  intros H. rewrite merge_lookup, H. destruct (is_empty f), old; reflexivity.
Qed.

(* ================================================================ the machine *)

Lemma upd_same g i p : upd g i p i = p.
Proof. unfold upd. rewrite Nat.eqb_refl. reflexivity. Qed.

Lemma upd_other g i p j : j <> i -> upd g i p j = g j.
Proof. unfold upd. intros H. apply Nat.eqb_neq in H. rewrite H. reflexivity. Qed.

Lemma run_app debug ops s a b : run debug ops s (a ++ b) = run debug ops (run debug ops s a) b.
Proof. unfold run. apply fold_left_app. Qed.

(* ---- the compile step: nothing but the progress counter changes, or it is the step that ends the load *)

Definition same_core (a b : st) : Prop :=
  fs a = fs b /\ loaded a = loaded b /\ tpls a = tpls b /\ wlock a = wlock b /\ pcs a = pcs b.

Lemma same_core_refl s : same_core s s.
Proof. repeat split. Qed.

Lemma compile_ev_cases debug ops s i :
  (same_core (compile_ev debug ops s i) s /\
   (compile_ev debug ops s i = s \/
    (pcs s i = PLocked /\ prog s < load_calls debug (filter_of debug (ops i)) (fs s) /\
     compile_ev debug ops s i = set_prog s (S (prog s))))) \/
  (pcs s i = PLocked /\ step debug ops s i = Some (compile_ev debug ops s i)).
Proof.
  unfold compile_ev, step. destruct (pcs s i) eqn:Epc; try (left; split; [apply same_core_refl|left; reflexivity]).
  destruct (prog s <? load_calls debug (filter_of debug (ops i)) (fs s)) eqn:El.
  - left. split; [repeat split|]. right. apply Nat.ltb_lt in El. auto.
  - right. split; reflexivity.
Qed.

Lemma calls_upto_le d f names : calls_upto d f names <= length names.
Proof.
  induction names as [|[n k] r IH]; simpl; [lia|].
  destruct (prefixb f n); [|lia]. destruct (compile_file d k); lia.
Qed.

Lemma load_calls_le d f t : load_calls d f t <= length (tnames t).
Proof. apply calls_upto_le. Qed.

(* on a tree that compiles under the filter, the load calls FuncProvider once per selected file *)
Lemma calls_upto_good d f names :
  (forall x k, In (x, k) names -> prefixb f x = true -> exists t, compile_file d k = COk t) ->
  calls_upto d f names = length (filter (fun nk => prefixb f (fst nk)) names).
Proof.
  induction names as [|[n k] r IH]; intros H; simpl; [reflexivity|].
  destruct (prefixb f n) eqn:Ep.
  - destruct (H n k (or_introl eq_refl) Ep) as [t ->]. simpl. f_equal. apply IH.
    intros x k0 Hi. apply H. right; exact Hi.
  - apply IH. intros x k0 Hi. apply H. right; exact Hi.
Qed.

Section Machine.
  Variable debug : bool.
  Variable ops : nat -> op.

  (* the lock protects what it should; the engine is never marked loaded without templates
     unless a load is in progress *)
  Definition lock_inv (s : st) : Prop :=
    (forall i, pcs s i = PLocked <-> wlock s = Some i) /\
    (forall i, wlock s = Some i -> is_empty (filter_of debug (ops i)) = true -> loaded s = true) /\
    (loaded s = true -> tpls s <> None \/ wlock s <> None).

  Lemma inv_init t : lock_inv (init t).
  Proof.
    unfold init, lock_inv; simpl. split; [|split].
    - intros i; split; discriminate.
    - intros i; discriminate.
    - discriminate.
  Qed.

  Lemma inv_set_fs s t : lock_inv s -> lock_inv (set_fs s t).
  Proof. unfold lock_inv; simpl; auto. Qed.

  Lemma inv_set_pc s i p :
    lock_inv s -> pcs s i <> PLocked -> p <> PLocked -> lock_inv (set_pc s i p).
  Proof.
    intros [I1 [I2 I3]] Hi Hp. unfold lock_inv; simpl. split; [|split; assumption].
    intros j. destruct (Nat.eq_dec j i) as [->|Hn].
    - rewrite upd_same. split; [intros; contradiction|].
      intros H. apply I1 in H. contradiction.
    - rewrite upd_other by exact Hn. apply I1.
  Qed.

  Lemma free_not_locked s i : lock_inv s -> wlock s = None -> pcs s i <> PLocked.
  Proof. intros [I1 _] Hw H. apply I1 in H. congruence. Qed.

  Lemma inv_enter_load s i f :
    lock_inv s -> wlock s = None ->
    (is_empty (filter_of debug (ops i)) = true -> is_empty f = true) ->
    lock_inv (enter_load s i f).
  Proof.
    intros I Hw Hf. pose proof (free_not_locked s i I Hw) as Hi.
    unfold enter_load. destruct (loaded s && is_empty f).
    - apply inv_set_pc; [exact I|exact Hi|discriminate].
    - destruct I as [I1 [I2 I3]]. unfold lock_inv; simpl. split; [|split].
      + intros j. destruct (Nat.eq_dec j i) as [->|Hn].
        * rewrite upd_same. split; reflexivity.
        * rewrite upd_other by exact Hn. split.
          -- intros H. apply I1 in H. congruence.
          -- intros H. inversion H. congruence.
      + intros j Hj He. inversion Hj; subst j. rewrite (Hf He). apply orb_true_r.
      + intros _. right. discriminate.
  Qed.

  Lemma inv_finish_load s i :
    lock_inv s -> pcs s i = PLocked -> lock_inv (finish_load debug ops s i).
  Proof.
    intros [I1 [I2 I3]] Hi. pose proof (proj1 (I1 i) Hi) as Hw.
    assert (L : forall p, p <> PLocked ->
              forall j, upd (pcs s) i p j = PLocked <-> None = Some j).
    { intros p Hp j. destruct (Nat.eq_dec j i) as [->|Hn].
      - rewrite upd_same. split; [intros; contradiction|discriminate].
      - rewrite upd_other by exact Hn. split; [|discriminate].
        intros H. apply I1 in H. congruence. }
    unfold finish_load.
    destruct (compile_dir debug (filter_of debug (ops i)) (fs s)); unfold lock_inv; simpl.
    - split; [|split].
      + apply L. destruct (ops i); discriminate.
      + discriminate.
      + intros _. left. discriminate.
    - split; [apply L; discriminate|split; discriminate].
    - split; [apply L; discriminate|split; discriminate].
  Qed.

  Lemma inv_step s i s' : lock_inv s -> step debug ops s i = Some s' -> lock_inv s'.
  Proof.
    intros I. unfold step.
    destruct (pcs s i) eqn:Epc.
    - destruct (ops i) as [n|f] eqn:Eo.
      + destruct debug eqn:Ed.
        * unfold lock_free. destruct (wlock s) eqn:Ew; [discriminate|].
          intros H; inversion H; subst. apply inv_enter_load; try assumption.
          rewrite Eo, Ed. simpl. auto.
        * intros H; inversion H; subst. apply inv_set_pc; [exact I|congruence|].
          destruct (loaded s); discriminate.
      + unfold lock_free. destruct (wlock s) eqn:Ew; [discriminate|].
        intros H; inversion H; subst. apply inv_enter_load; try assumption.
        rewrite Eo. simpl. auto.
    - unfold lock_free. destruct (wlock s) eqn:Ew; [discriminate|].
      intros H; inversion H; subst. destruct (loaded s).
      + apply inv_set_pc; [exact I|congruence|discriminate].
      + apply inv_enter_load; try assumption. reflexivity.
    - intros H; inversion H; subst. apply inv_finish_load; assumption.
    - unfold lock_free. destruct (wlock s) eqn:Ew; [discriminate|].
      intros H; inversion H; subst. apply inv_set_pc; [exact I|congruence|discriminate].
    - discriminate.
  Qed.

  Lemma inv_apply s e : lock_inv s -> lock_inv (apply_ev debug ops s e).
  Proof.
    intros I. destruct e as [i|t|i]; simpl.
    - destruct (step debug ops s i) eqn:E; [eapply inv_step; eauto|exact I].
    - apply inv_set_fs; exact I.
    - destruct (compile_ev_cases debug ops s i) as [[_ [E|[_ [_ E]]]]|[_ E]].
      + rewrite E. exact I.
      + rewrite E. exact I.
      + eapply inv_step; eauto.
  Qed.

  Lemma inv_run evs : forall s, lock_inv s -> lock_inv (run debug ops s evs).
  Proof.
    induction evs as [|e evs IH]; intros s I; simpl; [exact I|].
    apply IH. apply inv_apply. exact I.
  Qed.

  Lemma inv_reach t evs : lock_inv (reach debug ops t evs).
  Proof. apply inv_run, inv_init. Qed.

  (* generic: an invariant of all events holds along every schedule *)
  Lemma run_invariant (P : st -> Prop) :
    (forall s e, P s -> P (apply_ev debug ops s e)) ->
    forall evs s, P s -> P (run debug ops s evs).
  Proof.
    intros H evs. induction evs as [|e evs IH]; intros s Hs; simpl; [exact Hs|].
    apply IH, H, Hs.
  Qed.

  (* ---- progress and termination *)

  Lemma step_enabled_free s i :
    lock_inv s -> wlock s = None -> (forall r, pcs s i <> PDone r) ->
    exists s', step debug ops s i = Some s'.
  Proof.
    intros I Hw Hd. unfold step, lock_free. rewrite Hw.
    destruct (pcs s i) eqn:Epc; try (eexists; reflexivity).
    - destruct (ops i); [destruct debug|]; eexists; reflexivity.
    - exfalso. eapply Hd; reflexivity.
  Qed.

  Lemma no_deadlock s i :
    lock_inv s -> (forall r, pcs s i <> PDone r) ->
    (exists s', step debug ops s i = Some s') \/
    (exists j s', wlock s = Some j /\ pcs s j = PLocked /\ step debug ops s j = Some s').
  Proof.
    intros I Hd. destruct (wlock s) as [j|] eqn:Ew.
    - right. exists j. destruct I as [I1 _]. pose proof (proj2 (I1 j) Ew) as Hj.
      eexists. split; [reflexivity|split; [exact Hj|]]. unfold step. rewrite Hj. reflexivity.
    - left. apply step_enabled_free; assumption.
  Qed.

  Lemma enter_load_pcs s i f :
    (pcs (enter_load s i f) i = PLocked \/ pcs (enter_load s i f) i = PDone RAgain) /\
    forall j, j <> i -> pcs (enter_load s i f) j = pcs s j.
  Proof.
    unfold enter_load. destruct (loaded s && is_empty f); simpl.
    - split; [right; apply upd_same|intros j Hj; apply upd_other; exact Hj].
    - split; [left; apply upd_same|intros j Hj; apply upd_other; exact Hj].
  Qed.

  Lemma finish_load_pcs s i :
    rank (pcs (finish_load debug ops s i) i) <= 1 /\
    forall j, j <> i -> pcs (finish_load debug ops s i) j = pcs s j.
  Proof.
    unfold finish_load.
    destruct (compile_dir debug (filter_of debug (ops i)) (fs s)); simpl; rewrite upd_same.
    - split; [destruct (ops i); simpl; lia|intros j Hj; apply upd_other; exact Hj].
    - split; [simpl; lia|intros j Hj; apply upd_other; exact Hj].
    - split; [simpl; lia|intros j Hj; apply upd_other; exact Hj].
  Qed.

  Lemma step_rank s i s' :
    step debug ops s i = Some s' ->
    rank (pcs s' i) < rank (pcs s i) /\ forall j, j <> i -> pcs s' j = pcs s j.
  Proof.
    unfold step. destruct (pcs s i) eqn:Epc.
    - assert (E : forall f, rank (pcs (enter_load s i f) i) < 4 /\
                            forall j, j <> i -> pcs (enter_load s i f) j = pcs s j).
      { intros f. destruct (enter_load_pcs s i f) as [[H|H] H2]; rewrite H; simpl; split; auto; lia. }
      destruct (ops i) as [n|f].
      + destruct debug.
        * destruct (lock_free s); [|discriminate]. intros H; inversion H; subst. apply E.
        * intros H; inversion H; subst. simpl. rewrite upd_same. split.
          -- destruct (loaded s); simpl; lia.
          -- intros j Hj; apply upd_other; exact Hj.
      + destruct (lock_free s); [|discriminate]. intros H; inversion H; subst. apply E.
    - destruct (lock_free s); [|discriminate]. intros H; inversion H; subst.
      destruct (loaded s).
      + simpl. rewrite upd_same. split; [simpl; lia|intros j Hj; apply upd_other; exact Hj].
      + destruct (enter_load_pcs s i []) as [[H1|H1] H2]; rewrite H1; simpl; split; auto; lia.
    - intros H; inversion H; subst. destruct (finish_load_pcs s i) as [H1 H2]. simpl. split; [lia|exact H2].
    - destruct (lock_free s); [|discriminate]. intros H; inversion H; subst.
      simpl. rewrite upd_same. split; [simpl; lia|intros j Hj; apply upd_other; exact Hj].
    - discriminate.
  Qed.

  (* ---- what a step can do to the template set *)
  Lemma step_tpls s i s' :
    step debug ops s i = Some s' ->
    tpls s' = tpls s \/
    (pcs s i = PLocked /\
     exists m, compile_dir debug (filter_of debug (ops i)) (fs s) = COk m /\
               tpls s' = Some (merge_old (filter_of debug (ops i)) (tpls s) m)).
  Proof.
    unfold step. destruct (pcs s i) eqn:Epc.
    - assert (E : forall f, tpls (enter_load s i f) = tpls s).
      { intros f. unfold enter_load. destruct (loaded s && is_empty f); reflexivity. }
      destruct (ops i) as [n|f].
      + destruct debug.
        * destruct (lock_free s); [|discriminate]. intros H; inversion H; subst. left; apply E.
        * intros H; inversion H; subst. left; reflexivity.
      + destruct (lock_free s); [|discriminate]. intros H; inversion H; subst. left; apply E.
    - destruct (lock_free s); [|discriminate]. intros H; inversion H; subst.
      left. destruct (loaded s) eqn:El; [reflexivity|]. unfold enter_load.
      destruct (loaded s && is_empty []); reflexivity.
    - intros H; inversion H; subst. unfold finish_load.
      destruct (compile_dir debug (filter_of debug (ops i)) (fs s)) as [m| |] eqn:Ec; simpl.
      + right. split; [reflexivity|]. exists m. split; reflexivity.
      + left; reflexivity.
      + left; reflexivity.
    - destruct (lock_free s); [|discriminate]. intros H; inversion H; subst. left; reflexivity.
    - discriminate.
  Qed.

  Lemma step_fs s i s' : step debug ops s i = Some s' -> fs s' = fs s.
  Proof.
    unfold step. destruct (pcs s i).
    - assert (E : forall f, fs (enter_load s i f) = fs s).
      { intros f. unfold enter_load. destruct (loaded s && is_empty f); reflexivity. }
      destruct (ops i); [destruct debug|].
      + destruct (lock_free s); [|discriminate]. intros H; inversion H; subst. apply E.
      + intros H; inversion H; subst. reflexivity.
      + destruct (lock_free s); [|discriminate]. intros H; inversion H; subst. apply E.
    - destruct (lock_free s); [|discriminate]. intros H; inversion H; subst.
      destruct (loaded s) eqn:El; [reflexivity|]. unfold enter_load. destruct (loaded s && is_empty []); reflexivity.
    - intros H; inversion H; subst. unfold finish_load.
      destruct (compile_dir debug (filter_of debug (ops i)) (fs s)); reflexivity.
    - destruct (lock_free s); [|discriminate]. intros H; inversion H; subst. reflexivity.
    - discriminate.
  Qed.

  (* ---- termination: a call takes at most four steps of its own plus one per file of its load *)

  Lemma step_prog_other s j s' i :
    lock_inv s -> step debug ops s j = Some s' -> pcs s i = PLocked -> i <> j -> prog s' = prog s.
  Proof.
    intros [I1 _] Hs Hi Hn. pose proof (proj1 (I1 i) Hi) as Hw.
    unfold step, lock_free in Hs. rewrite Hw in Hs.
    destruct (pcs s j) eqn:Epc; try discriminate.
    - destruct (ops j); [destruct debug|]; try discriminate. inversion Hs; subst. reflexivity.
    - apply I1 in Epc. congruence.
  Qed.

  Lemma step_rankN N s i s' :
    step debug ops s i = Some s' -> rankN N s' i < rankN N s i.
  Proof.
    unfold step, rankN. destruct (pcs s i) eqn:Epc.
    - assert (E : forall f, match pcs (enter_load s i f) i with
                            | PStart => N + 4 | PAfterCheck => N + 3
                            | PLocked => 2 + (N - prog (enter_load s i f)) | PAfterLoad => 1 | PDone _ => 0
                            end < N + 4).
      { intros f. unfold enter_load. destruct (loaded s && is_empty f); simpl; rewrite upd_same; lia. }
      destruct (ops i) as [n|f].
      + destruct debug.
        * destruct (lock_free s); [|discriminate]. intros H; inversion H; subst. apply E.
        * intros H; inversion H; subst. simpl. rewrite upd_same. destruct (loaded s); lia.
      + destruct (lock_free s); [|discriminate]. intros H; inversion H; subst. apply E.
    - destruct (lock_free s); [|discriminate]. intros H; inversion H; subst.
      destruct (loaded s) eqn:El.
      + simpl. rewrite upd_same. lia.
      + unfold enter_load. rewrite El. simpl. rewrite upd_same. lia.
    - intros H; inversion H; subst. destruct (finish_load_pcs s i) as [H1 _].
      destruct (pcs (finish_load debug ops s i) i); simpl in H1; lia.
    - destruct (lock_free s); [|discriminate]. intros H; inversion H; subst.
      simpl. rewrite upd_same. lia.
    - discriminate.
  Qed.

  Definition trees_le (N : nat) (evs : list ev) : Prop :=
    Forall (fun e => match e with EFs t => length (tnames t) <= N | _ => True end) evs.

  Lemma steps_boundedN N evs : forall s i,
    lock_inv s -> length (tnames (fs s)) <= N -> trees_le N evs ->
    eff_steps debug ops s evs i + rankN N (run debug ops s evs) i <= rankN N s i.
  Proof.
    induction evs as [|e evs IH]; intros s i I Hfs HT; simpl; [lia|].
    inversion HT as [|? ? He HT']; subst.
    assert (Other : forall j s', step debug ops s j = Some s' -> j <> i -> rankN N s' i = rankN N s i).
    { intros j s' Es Hn. destruct (step_rank _ _ _ Es) as [_ Hsame].
      unfold rankN. rewrite (Hsame i) by congruence.
      destruct (pcs s i) eqn:Epc; try reflexivity.
      rewrite (step_prog_other s j s' i I Es Epc); [reflexivity|congruence]. }
    destruct e as [j|t|j]; simpl.
    - destruct (step debug ops s j) as [s'|] eqn:Es.
      + assert (I' : lock_inv s') by (eapply inv_step; eauto).
        assert (Hfs' : length (tnames (fs s')) <= N) by (rewrite (step_fs _ _ _ Es); exact Hfs).
        specialize (IH s' i I' Hfs' HT').
        destruct (Nat.eqb j i) eqn:Eji.
        * apply Nat.eqb_eq in Eji; subst j. pose proof (step_rankN N _ _ _ Es). lia.
        * apply Nat.eqb_neq in Eji. rewrite <- (Other j s' Es Eji). lia.
      + specialize (IH s i I Hfs HT'). destruct (Nat.eqb j i); lia.
    - specialize (IH (set_fs s t) i (inv_set_fs s t I) He HT'). exact IH.
    - destruct (compile_ev_cases debug ops s j) as [[_ [E|[Hp [Hlt E]]]]|[Hp E]].
      + rewrite E. specialize (IH s i I Hfs HT').
        assert (pcs s j <> PLocked \/ pcs s j = PLocked) as [Hq|Hq]
          by (destruct (pcs s j); auto; left; discriminate).
        * destruct (Nat.eqb j i); [|lia]. destruct (pcs s j); try lia. contradiction.
        * (* the event did nothing although j is inside a load: impossible *)
          exfalso. unfold compile_ev in E. rewrite Hq in E.
          destruct (prog s <? load_calls debug (filter_of debug (ops j)) (fs s)).
          -- apply (f_equal prog) in E. simpl in E. lia.
          -- apply (f_equal (fun x => pcs x j)) in E. rewrite Hq in E.
             destruct (finish_load_pcs s j) as [H1 _]. rewrite E in H1. simpl in H1. lia.
      + rewrite E.
        assert (I' : lock_inv (set_prog s (S (prog s)))) by exact I.
        specialize (IH (set_prog s (S (prog s))) i I' Hfs HT').
        pose proof (load_calls_le debug (filter_of debug (ops j)) (fs s)) as Hle.
        destruct (Nat.eqb j i) eqn:Eji.
        * apply Nat.eqb_eq in Eji; subst j. rewrite Hp.
          assert (rankN N (set_prog s (S (prog s))) i < rankN N s i).
          { unfold rankN. simpl. rewrite Hp. lia. }
          lia.
        * apply Nat.eqb_neq in Eji.
          assert (rankN N (set_prog s (S (prog s))) i = rankN N s i).
          { unfold rankN. simpl. destruct (pcs s i) eqn:Epc; try reflexivity.
            exfalso. destruct I as [I1 _]. apply I1 in Epc. apply I1 in Hp. congruence. }
          lia.
      + assert (I' : lock_inv (compile_ev debug ops s j)) by (eapply inv_step; eauto).
        assert (Hfs' : length (tnames (fs (compile_ev debug ops s j))) <= N)
          by (rewrite (step_fs _ _ _ E); exact Hfs).
        specialize (IH _ i I' Hfs' HT').
        destruct (Nat.eqb j i) eqn:Eji.
        * apply Nat.eqb_eq in Eji; subst j. rewrite Hp. pose proof (step_rankN N _ _ _ E). lia.
        * apply Nat.eqb_neq in Eji. rewrite <- (Other j _ E Eji). lia.
  Qed.

  (* ---- a failed load: reported, flag back, lock free, templates untouched *)
  Lemma failed_load_step s i :
    pcs s i = PLocked ->
    forall r, (compile_dir debug (filter_of debug (ops i)) (fs s) = CErr /\ r = RLoadErr) \/
              (compile_dir debug (filter_of debug (ops i)) (fs s) = CPanic /\ r = RLoadPanic) ->
    exists s', step debug ops s i = Some s' /\
               pcs s' i = PDone r /\ loaded s' = false /\ wlock s' = None /\ tpls s' = tpls s /\
               fs s' = fs s /\ forall j, j <> i -> pcs s' j = pcs s j.
  Proof.
    intros Hi r H. unfold step. rewrite Hi. eexists. split; [reflexivity|].
    unfold finish_load. destruct H as [[-> ->]|[-> ->]]; simpl; rewrite upd_same;
      repeat split; intros j Hj; apply upd_other; exact Hj.
  Qed.

  Lemma step_locked s j : pcs s j = PLocked -> step debug ops s j = Some (finish_load debug ops s j).
  Proof. intros H. unfold step. rewrite H. reflexivity. Qed.

  Lemma step_start_load s j f :
    pcs s j = PStart -> ops j = OLoad f -> wlock s = None ->
    step debug ops s j = Some (enter_load s j f).
  Proof. intros H Ho Hw. unfold step, lock_free. rewrite H, Ho, Hw. reflexivity. Qed.

  Lemma enter_load_fresh s j f :
    loaded s && is_empty f = false ->
    enter_load s j f = mkst (fs s) (loaded s || is_empty f) (tpls s) (Some j) (upd (pcs s) j PLocked) 0.
  Proof. intros H. unfold enter_load. rewrite H. reflexivity. Qed.

  Lemma apply_step s j s' : step debug ops s j = Some s' -> apply_ev debug ops s (EStep j) = s'.
  Proof. intros H. simpl. rewrite H. reflexivity. Qed.

  (* ---- after any history: if the engine is not marked loaded and the lock is free, a full
          load of a tree that compiles succeeds *)
  Lemma load_recovers s j t' m :
    wlock s = None -> loaded s = false -> pcs s j = PStart -> ops j = OLoad [] ->
    compile_dir debug [] t' = COk m ->
    let s2 := run debug ops (set_fs s t') [EStep j; EStep j] in
    pcs s2 j = PDone RLoaded /\ tpls s2 = Some m /\ loaded s2 = true /\ wlock s2 = None.
  Proof.
    intros Hw Hl Hj Ho Hc. unfold run. cbn [fold_left].
    rewrite (apply_step (set_fs s t') j _ (step_start_load (set_fs s t') j [] Hj Ho Hw)).
    rewrite enter_load_fresh by (simpl; rewrite Hl; reflexivity).
    match goal with |- context [apply_ev debug ops ?x (EStep j)] => set (s1 := x) end.
    assert (H1 : pcs s1 j = PLocked) by (unfold s1; simpl; apply upd_same).
    rewrite (apply_step s1 j _ (step_locked s1 j H1)).
    unfold finish_load, s1. simpl. rewrite Ho. simpl. rewrite Hc. simpl. rewrite upd_same.
    unfold merge_old. destruct (tpls s); simpl; rewrite ?orb_true_r; repeat split; reflexivity.
  Qed.
End Machine.

(* ---- single steps, as equations *)
Section Steps.
  Variable debug : bool.
  Variable ops : nat -> op.

  Lemma step_start_render_prod s j n :
    debug = false -> pcs s j = PStart -> ops j = ORender n ->
    step debug ops s j = Some (set_pc s j (if loaded s then PAfterLoad else PAfterCheck)).
  Proof. intros -> H Ho. unfold step. rewrite H, Ho. reflexivity. Qed.

  Lemma step_start_render_debug s j n :
    debug = true -> pcs s j = PStart -> ops j = ORender n -> wlock s = None ->
    step debug ops s j = Some (enter_load s j n).
  Proof. intros -> H Ho Hw. unfold step, lock_free. rewrite H, Ho, Hw. reflexivity. Qed.

  Lemma step_aftercheck s j :
    pcs s j = PAfterCheck -> wlock s = None ->
    step debug ops s j = Some (if loaded s then set_pc s j PAfterLoad else enter_load s j []).
  Proof. intros H Hw. unfold step, lock_free. rewrite H, Hw. reflexivity. Qed.

  Lemma step_afterload_render s j n :
    pcs s j = PAfterLoad -> wlock s = None -> ops j = ORender n ->
    step debug ops s j = Some (set_pc s j (PDone (lookup_result n (tpls s)))).
  Proof. intros H Hw Ho. unfold step, lock_free. rewrite H, Hw, Ho. reflexivity. Qed.

  Lemma step_done_none s j r : pcs s j = PDone r -> step debug ops s j = None.
  Proof. intros H. unfold step. rewrite H. reflexivity. Qed.

  (* how a call can come to its end *)
  Lemma step_done_cases s i s' r :
    step debug ops s i = Some s' -> pcs s' i = PDone r ->
    (pcs s i = PAfterLoad /\ wlock s = None /\ tpls s' = tpls s /\
     r = match ops i with ORender n => lookup_result n (tpls s) | OLoad _ => RLoaded end)
    \/ (r = RAgain /\ wlock s = None /\ loaded s = true /\ tpls s' = tpls s /\ pcs s i = PStart /\
        is_empty (filter_of debug (ops i)) = true /\ (debug = true \/ exists f, ops i = OLoad f))
    \/ (pcs s i = PLocked /\
        ((r = RLoaded /\ (exists f, ops i = OLoad f) /\
          exists m, compile_dir debug (filter_of debug (ops i)) (fs s) = COk m)
         \/ (r = RLoadErr /\ compile_dir debug (filter_of debug (ops i)) (fs s) = CErr)
         \/ (r = RLoadPanic /\ compile_dir debug (filter_of debug (ops i)) (fs s) = CPanic))).
  Proof.
    unfold step. destruct (pcs s i) eqn:Epc.
    - (* PStart *)
      assert (E : forall f, wlock s = None -> pcs (enter_load s i f) i = PDone r ->
                  r = RAgain /\ loaded s = true /\ tpls (enter_load s i f) = tpls s /\ is_empty f = true).
      { intros f Hw. unfold enter_load. destruct (loaded s) eqn:El; simpl.
        - destruct (is_empty f) eqn:Ef; simpl; rewrite upd_same; intros H; [|discriminate].
          inversion H; subst. repeat split; reflexivity.
        - rewrite upd_same. discriminate. }
      destruct (ops i) as [n|f] eqn:Eo.
      + destruct debug eqn:Ed.
        * unfold lock_free. destruct (wlock s) eqn:Ew; [discriminate|].
          intros H Hd; inversion H; subst s'. destruct (E n eq_refl Hd) as [-> [Hl [Ht He]]].
          right; left. simpl. repeat split; auto.
        * intros H Hd; inversion H; subst s'. simpl in Hd. rewrite upd_same in Hd.
          destruct (loaded s); discriminate.
      + unfold lock_free. destruct (wlock s) eqn:Ew; [discriminate|].
        intros H Hd; inversion H; subst s'. destruct (E f eq_refl Hd) as [-> [Hl [Ht He]]].
        right; left. simpl. repeat split; eauto.
    - (* PAfterCheck *)
      unfold lock_free. destruct (wlock s) eqn:Ew; [discriminate|].
      intros H Hd; inversion H; subst s'. destruct (loaded s) eqn:El.
      + simpl in Hd. rewrite upd_same in Hd. discriminate.
      + unfold enter_load in Hd. rewrite El in Hd. simpl in Hd. rewrite upd_same in Hd. discriminate.
    - (* PLocked *)
      intros H Hd; inversion H; subst s'. right; right. split; [reflexivity|].
      unfold finish_load in Hd.
      destruct (compile_dir debug (filter_of debug (ops i)) (fs s)) as [m| |] eqn:Ec;
        simpl in Hd; rewrite upd_same in Hd.
      + destruct (ops i) eqn:Eo; [discriminate|]. inversion Hd; subst. left. eauto.
      + inversion Hd; subst. right; left; auto.
      + inversion Hd; subst. right; right; auto.
    - (* PAfterLoad *)
      unfold lock_free. destruct (wlock s) eqn:Ew; [discriminate|].
      intros H Hd; inversion H; subst s'. simpl in Hd. rewrite upd_same in Hd. inversion Hd; subst.
      left. repeat split; reflexivity.
    - discriminate.
  Qed.

  Lemma step_loaded_mono s i s' :
    lock_inv debug ops s -> (exists m, compile_dir debug (filter_of debug (ops i)) (fs s) = COk m) ->
    step debug ops s i = Some s' -> loaded s = true -> loaded s' = true.
  Proof.
    intros I [m Hc] Hs Hl. unfold step in Hs. destruct (pcs s i) eqn:Epc.
    - assert (E : forall f, loaded (enter_load s i f) = true).
      { intros f. unfold enter_load. destruct (loaded s && is_empty f); [exact Hl|simpl; rewrite Hl; reflexivity]. }
      destruct (ops i); [destruct debug|].
      + destruct (lock_free s); [|discriminate]. inversion Hs; subst. apply E.
      + inversion Hs; subst. exact Hl.
      + destruct (lock_free s); [|discriminate]. inversion Hs; subst. apply E.
    - destruct (lock_free s); [|discriminate]. inversion Hs; subst. rewrite Hl. exact Hl.
    - inversion Hs; subst. unfold finish_load. rewrite Hc. exact Hl.
    - destruct (lock_free s); [|discriminate]. inversion Hs; subst. exact Hl.
    - discriminate.
  Qed.

  (* a call whose load is a load of all templates arrives at "render:after-load" only with the flag set *)
  Lemma step_afterload_loaded s i s' :
    lock_inv debug ops s -> step debug ops s i = Some s' -> pcs s' i = PAfterLoad -> pcs s i <> PAfterLoad ->
    is_empty (filter_of debug (ops i)) = true ->
    loaded s' = true.
  Proof.
    intros I Hs Hp Hn Hf. unfold step in Hs. destruct (pcs s i) eqn:Epc.
    - assert (E : forall f, pcs (enter_load s i f) i <> PAfterLoad).
      { intros f. destruct (enter_load_pcs s i f) as [[H|H] _]; rewrite H; discriminate. }
      destruct (ops i); [destruct debug|].
      + destruct (lock_free s); [|discriminate]. inversion Hs; subst. exfalso; eapply E; eauto.
      + inversion Hs; subst. simpl in *. rewrite upd_same in Hp. destruct (loaded s); [reflexivity|discriminate].
      + destruct (lock_free s); [|discriminate]. inversion Hs; subst. exfalso; eapply E; eauto.
    - destruct (lock_free s); [|discriminate]. inversion Hs; subst. destruct (loaded s) eqn:El.
      + exact El.
      + exfalso. destruct (enter_load_pcs s i []) as [[H|H] _]; rewrite H in Hp; discriminate.
    - inversion Hs; subst. destruct I as [I1 [I2 _]]. pose proof (I2 i (proj1 (I1 i) Epc) Hf) as Hl.
      unfold finish_load in *. destruct (compile_dir debug (filter_of debug (ops i)) (fs s)); simpl in *.
      + exact Hl.
      + rewrite upd_same in Hp; discriminate.
      + rewrite upd_same in Hp; discriminate.
    - congruence.
    - discriminate.
  Qed.
End Steps.

Lemma pc_eq_afterload p : p = PAfterLoad \/ p <> PAfterLoad.
Proof. destruct p; [right|right|right|left|right]; congruence. Qed.

(* ================================================================ production mode *)

Section Prod.
  Variable ops : nat -> op.
  (* only full explicit loads: LoadTemplates("") *)
  Definition full_loads : Prop := forall i f, ops i = OLoad f -> f = [].
  Hypothesis Hfull : full_loads.

  Lemma filt_nil i : filter_of false (ops i) = [].
  Proof. destruct (ops i) as [n|f] eqn:E; simpl; [reflexivity|]. apply (Hfull i f E). Qed.

  Definition prod_inv (s : st) : Prop :=
    lock_inv false ops s /\ (tpls s <> None -> loaded s = true /\ wlock s = None).

  Lemma prod_init t : prod_inv (init t).
  Proof. split; [apply inv_init|]. simpl. intros H; contradiction. Qed.

  Lemma prod_step s i s' : prod_inv s -> step false ops s i = Some s' -> prod_inv s'.
  Proof.
    intros [I P] Hs. split; [eapply inv_step; eauto|].
    assert (E : wlock s = None -> forall j, tpls (enter_load s j []) <> None ->
                 loaded (enter_load s j []) = true /\ wlock (enter_load s j []) = None).
    { intros Hw j. unfold enter_load. destruct (loaded s) eqn:El; simpl.
      - intros H. split; [exact El|exact Hw].
      - intros H. apply P in H. destruct H; congruence. }
    unfold step in Hs. destruct (pcs s i) eqn:Epc.
    - destruct (ops i) as [n|f] eqn:Eo.
      + inversion Hs; subst. exact P.
      + rewrite (Hfull i f Eo) in *. unfold lock_free in Hs. destruct (wlock s) eqn:Ew; [discriminate|].
        inversion Hs; subst. apply E. reflexivity.
    - unfold lock_free in Hs. destruct (wlock s) eqn:Ew; [discriminate|].
      inversion Hs; subst. destruct (loaded s) eqn:El.
      + simpl. intros _. split; [exact El|exact Ew].
      + apply E. reflexivity.
    - inversion Hs; subst. destruct I as [I1 [I2 I3]].
      pose proof (proj1 (I1 i) Epc) as Hw.
      assert (Hl : loaded s = true) by (apply (I2 i Hw); rewrite filt_nil; reflexivity).
      unfold finish_load. destruct (compile_dir false (filter_of false (ops i)) (fs s)); simpl.
      + intros _. split; [exact Hl|reflexivity].
      + intros H. apply P in H. destruct H; congruence.
      + intros H. apply P in H. destruct H; congruence.
    - unfold lock_free in Hs. destruct (wlock s) eqn:Ew; [discriminate|]. inversion Hs; subst.
      simpl. rewrite Ew. exact P.
    - discriminate.
  Qed.

  Lemma prod_apply s e : prod_inv s -> prod_inv (apply_ev false ops s e).
  Proof.
    intros P. destruct e as [i|t|i]; simpl.
    - destruct (step false ops s i) eqn:E; [eapply prod_step; eauto|exact P].
    - destruct P as [I P]. split; [apply inv_set_fs; exact I|exact P].
    - destruct (compile_ev_cases false ops s i) as [[_ [E|[_ [_ E]]]]|[_ E]].
      + rewrite E. exact P.
      + rewrite E. exact P.
      + eapply prod_step; eauto.
  Qed.

  Lemma prod_run evs s : prod_inv s -> prod_inv (run false ops s evs).
  Proof. revert s. apply run_invariant. intros s e. apply prod_apply. Qed.

  Lemma prod_once_apply s e m :
    prod_inv s -> tpls s = Some m -> tpls (apply_ev false ops s e) = Some m.
  Proof.
    intros [I P] Ht.
    assert (G : forall i s', step false ops s i = Some s' -> tpls s' = Some m).
    { intros i s' Es. destruct (step_tpls _ _ _ _ _ Es) as [H|[Hp _]]; [congruence|].
      destruct I as [I1 _]. apply I1 in Hp.
      assert (Hn : tpls s <> None) by congruence. apply P in Hn. destruct Hn; congruence. }
    destruct e as [i|t|i]; simpl; [|exact Ht|].
    - destruct (step false ops s i) as [s'|] eqn:Es; [|exact Ht]. eapply G; eauto.
    - destruct (compile_ev_cases false ops s i) as [[[_ [_ [E _]]] _]|[_ E]]; [congruence|eapply G; eauto].
  Qed.

  (* load once: a template set, once in place, is never replaced, whatever happens to the files *)
  Lemma prod_once evs : forall s m,
    prod_inv s -> tpls s = Some m -> tpls (run false ops s evs) = Some m.
  Proof.
    induction evs as [|e evs IH]; intros s m P Ht; simpl; [exact Ht|].
    apply IH; [apply prod_apply; exact P|apply prod_once_apply; assumption].
  Qed.

  (* ... and it is the compile of the tree as it was at one moment of the history *)
  Lemma prod_snapshot t0 evs m :
    tpls (reach false ops t0 evs) = Some m ->
    exists evs1 evs2, evs = evs1 ++ evs2 /\
                      compile_dir false [] (fs (reach false ops t0 evs1)) = COk m.
  Proof.
    revert m. induction evs as [|e evs IH] using rev_ind; intros m Ht.
    - discriminate.
    - unfold reach in *. rewrite run_app in Ht. simpl in Ht.
      pose proof (prod_run evs (init t0) (prod_init t0)) as P.
      destruct (tpls (run false ops (init t0) evs)) as [m'|] eqn:Et.
      + rewrite (prod_once_apply _ e m' P Et) in Ht. inversion Ht; subst m'.
        destruct (IH m eq_refl) as [e1 [e2 [-> Hc]]].
        exists e1, (e2 ++ [e]). split; [rewrite app_assoc; reflexivity|exact Hc].
      + assert (G : forall i s', step false ops (run false ops (init t0) evs) i = Some s' ->
                      tpls s' = Some m ->
                      compile_dir false [] (fs (run false ops (init t0) evs)) = COk m).
        { intros i s' Es Hs'. destruct (step_tpls _ _ _ _ _ Es) as [H|[_ [m0 [Hc Hm]]]]; [congruence|].
          rewrite Et, filt_nil in Hm. simpl in Hm. rewrite Hs' in Hm. inversion Hm; subst m0.
          rewrite filt_nil in Hc. exact Hc. }
        destruct e as [i|t|i]; simpl in Ht; [|congruence|].
        * destruct (step false ops (run false ops (init t0) evs) i) as [s'|] eqn:Es; [|congruence].
          exists evs, [EStep i]. split; [reflexivity|eapply G; eauto].
        * destruct (compile_ev_cases false ops (run false ops (init t0) evs) i)
            as [[[_ [_ [E _]]] _]|[_ E]]; [congruence|].
          exists evs, [ECompile i]. split; [reflexivity|eapply G; eauto].
  Qed.

  (* every render that returned output read it from the one template set *)
  Definition renders_from_set (s : st) : Prop :=
    forall i n out, ops i = ORender n -> pcs s i = PDone (ROk out) ->
      exists m, tpls s = Some m /\ lookup n m = Some out.

  Lemma renders_apply s e :
    prod_inv s -> renders_from_set s -> renders_from_set (apply_ev false ops s e).
  Proof.
    intros P R.
    assert (G : forall j s', step false ops s j = Some s' -> renders_from_set s');
      [|destruct e as [j|t|j]; simpl; [destruct (step false ops s j) as [s'|] eqn:Es; [eapply G; eauto|exact R]|exact R|]].
    2:{ destruct (compile_ev_cases false ops s j) as [[[_ [_ [Et [_ Ep]]]] _]|[_ E]]; [|eapply G; eauto].
        intros i n out Ho Hp. rewrite Ep in Hp. rewrite Et. eapply R; eauto. }
    intros j s' Es.
    intros i n out Ho Hp.
    destruct (Nat.eq_dec i j) as [->|Hn].
    - destruct (step_done_cases _ _ _ _ _ _ Es Hp) as [[Hpc [Hw [Ht Hr]]]|[[Hr _]|[_ [[Hr _]|[[Hr _]|[Hr _]]]]]];
        try discriminate.
      rewrite Ho in Hr. unfold lookup_result in Hr. rewrite Ht.
      destruct (tpls s) as [m|]; [|discriminate].
      destruct (lookup n m) eqn:El; [|discriminate]. inversion Hr; subst. eauto.
    - destruct (step_rank _ _ _ _ _ Es) as [_ Hsame]. rewrite (Hsame i Hn) in Hp.
      destruct (R i n out Ho Hp) as [m [Ht Hl]]. exists m. split; [|exact Hl].
      pose proof (prod_once_apply s (EStep j) m P Ht) as H. simpl in H. rewrite Es in H. exact H.
  Qed.

  Lemma renders_reach t0 evs : renders_from_set (reach false ops t0 evs).
  Proof.
    unfold reach.
    assert (G : forall evs s, prod_inv s /\ renders_from_set s ->
                  prod_inv (run false ops s evs) /\ renders_from_set (run false ops s evs)).
    { apply (run_invariant false ops (fun s => prod_inv s /\ renders_from_set s)).
      intros s e [P R]. split; [apply prod_apply; exact P|apply renders_apply; assumption]. }
    apply G. split; [apply prod_init|]. intros i n out _ H. discriminate.
  Qed.

  (* ---- cold start: all trees of the history compile *)
  Definition good_ev (e : ev) : Prop :=
    match e with EFs t => good_under false [] t = true | EStep _ | ECompile _ => True end.

  Definition result_fits (s : st) (o : op) (r : result) : Prop :=
    match o with
    | ORender n => exists m, tpls s = Some m /\ r = lookup_result n (Some m)
    | OLoad _ => r = RLoaded \/ r = RAgain
    end.

  Definition cold_inv (s : st) : Prop :=
    prod_inv s /\ good_under false [] (fs s) = true /\
    (forall i, pcs s i = PAfterLoad -> loaded s = true) /\
    (forall i r, pcs s i = PDone r -> result_fits s (ops i) r).

  Lemma cold_step s j s' : cold_inv s -> step false ops s j = Some s' -> cold_inv s'.
  Proof.
    intros [P [G [C3 C4]]] Es.
      pose proof (prod_step _ _ _ P Es) as P'.
      pose proof (step_fs _ _ _ _ _ Es) as Hfs.
      destruct (step_rank _ _ _ _ _ Es) as [_ Hsame].
      assert (Hc : forall i, exists m, compile_dir false (filter_of false (ops i)) (fs s) = COk m).
      { intros i. rewrite filt_nil. apply compile_dir_ok_iff. exact G. }
      destruct P as [I P].
      assert (Hmono : loaded s = true -> loaded s' = true).
      { eapply step_loaded_mono; eauto. }
      split; [exact P'|]. split; [rewrite Hfs; exact G|]. split.
      + intros i Hp. destruct (Nat.eq_dec i j) as [->|Hn].
        * destruct (pc_eq_afterload (pcs s j)) as [Hq|Hq].
          -- apply Hmono. eapply C3; eauto.
          -- eapply step_afterload_loaded; eauto. rewrite filt_nil. reflexivity.
        * rewrite (Hsame i Hn) in Hp. apply Hmono. eapply C3; eauto.
      + intros i r Hp. destruct (Nat.eq_dec i j) as [->|Hn].
        * destruct (step_done_cases _ _ _ _ _ _ Es Hp)
            as [[Hpc [Hw [Ht Hr]]]|[[Hr [_ [_ [_ [_ [_ [Hd|[f Hf]]]]]]]]|[Hpc [[Hr [[f Hf] _]]|[[Hr Hce]|[Hr Hce]]]]]].
          -- unfold result_fits. destruct (ops j) as [n|f] eqn:Eo; [|left; exact Hr].
             destruct I as [_ [_ I3]]. destruct (I3 (C3 j Hpc)) as [Hne|Hne]; [|congruence].
             rewrite Ht. destruct (tpls s) as [m|]; [|congruence]. exists m. split; [reflexivity|exact Hr].
          -- discriminate.
          -- unfold result_fits. rewrite Hf. right; exact Hr.
          -- unfold result_fits. rewrite Hf. left; exact Hr.
          -- destruct (Hc j) as [m Hm]. congruence.
          -- destruct (Hc j) as [m Hm]. congruence.
        * rewrite (Hsame i Hn) in Hp. specialize (C4 i r Hp). unfold result_fits in *.
          destruct (ops i) as [n|f]; [|exact C4].
          destruct C4 as [m [Ht Hr]]. exists m. split; [|exact Hr].
          pose proof (prod_once_apply s (EStep j) m (conj I P) Ht) as H. simpl in H. rewrite Es in H. exact H.
  Qed.

  Lemma cold_apply s e : good_ev e -> cold_inv s -> cold_inv (apply_ev false ops s e).
  Proof.
    intros Hg C. destruct e as [j|t|j]; simpl.
    - destruct (step false ops s j) as [s'|] eqn:Es; [eapply cold_step; eauto|exact C].
    - destruct C as [P [G [C3 C4]]]. simpl in Hg. destruct P as [I P].
      split; [split; [apply inv_set_fs; exact I|exact P]|].
      split; [exact Hg|]. split; [exact C3|exact C4].
    - destruct (compile_ev_cases false ops s j) as [[_ [E|[_ [_ E]]]]|[_ E]].
      + rewrite E. exact C.
      + rewrite E. exact C.
      + eapply cold_step; eauto.
  Qed.

  Lemma cold_run evs : forall s, Forall good_ev evs -> cold_inv s -> cold_inv (run false ops s evs).
  Proof.
    induction evs as [|e evs IH]; intros s HF C; simpl; [exact C|].
    inversion HF; subst. apply IH; [assumption|apply cold_apply; assumption].
  Qed.

  Lemma cold_init t0 : good_under false [] t0 = true -> cold_inv (init t0).
  Proof.
    intros G. split; [apply prod_init|]. split; [exact G|]. split; simpl; intros; discriminate.
  Qed.
End Prod.

(* ================================================================ fixed file tree *)

Definition is_step_ev (e : ev) : Prop := match e with EStep _ | ECompile _ => True | EFs _ => False end.
Definition no_edits (evs : list ev) : Prop := Forall is_step_ev evs.

Lemma no_edits_fs debug ops evs : forall s, no_edits evs -> fs (run debug ops s evs) = fs s.
Proof.
  induction evs as [|e evs IH]; intros s H; simpl; [reflexivity|].
  inversion H as [|? ? He Hr]; subst. rewrite (IH _ Hr).
  destruct e as [i|t|i]; simpl in *; [|contradiction|].
  - destruct (step debug ops s i) eqn:E; [eapply step_fs; eauto|reflexivity].
  - destruct (compile_ev_cases debug ops s i) as [[[E _] _]|[_ E]]; [exact E|eapply step_fs; eauto].
Qed.

Lemma no_edits_app_l a b : no_edits (a ++ b) -> no_edits a.
Proof. unfold no_edits. rewrite Forall_app. tauto. Qed.

(* what Lookup answers on the template set of a successful full load *)
Lemma names_render debug t m n :
  dom_fs t = true -> compile_dir debug [] t = COk m ->
  lookup_result n (Some m) = spec_render debug t n.
Proof.
  intros Hd Hc. unfold lookup_result, spec_render.
  rewrite (names_exact debug [] t m Hd Hc n), prefixb_nil. reflexivity.
Qed.

Lemma spec_render_found debug t n out :
  dom_fs t = true ->
  (spec_render debug t n = ROk out <->
   exists k, In (n, k) (tnames t) /\ compile_file debug k = COk out).
Proof.
  intros Hd. unfold dom_fs in Hd. apply andb_true_iff in Hd. destruct Hd as [Hnd _].
  apply nodupb_NoDup in Hnd. unfold spec_render, spec_find. split.
  - destruct (lookup n (tnames t)) as [k|] eqn:El; [|discriminate].
    destruct (compile_file debug k) as [o| |] eqn:Ec; simpl; try discriminate.
    intros H; inversion H; subst. exists k. split; [apply lookup_In; exact El|exact Ec].
  - intros [k [Hi Hc]]. rewrite (NoDup_lookup_In n (tnames t) k Hnd Hi), Hc. reflexivity.
Qed.

Lemma spec_render_unknown debug t n :
  (forall k, ~ In (n, k) (tnames t)) -> spec_render debug t n = RNotFound.
Proof.
  intros H. unfold spec_render, spec_find.
  destruct (lookup n (tnames t)) as [k|] eqn:El; [|reflexivity].
  exfalso. eapply H. apply lookup_In. exact El.
Qed.

(* cold start on a fixed tree: every first render, in every interleaving, answers as the
   specification says; explicit loads succeed or are told "again" *)
Lemma cold_start_fixed ops t0 evs :
  full_loads ops -> dom_fs t0 = true -> good_under false [] t0 = true -> no_edits evs ->
  forall i r, pcs (reach false ops t0 evs) i = PDone r ->
    match ops i with
    | ORender n => r = spec_render false t0 n
    | OLoad _ => r = RLoaded \/ r = RAgain
    end.
Proof.
  intros Hf Hd Hg Hn i r Hp.
  assert (HF : Forall good_ev evs).
  { eapply Forall_impl; [|exact Hn]. intros [j|t|j]; simpl; tauto. }
  pose proof (cold_run ops Hf evs (init t0) HF (cold_init ops t0 Hg)) as [_ [_ [_ C4]]].
  specialize (C4 i r Hp). unfold result_fits in C4.
  destruct (ops i) as [n|f]; [|exact C4].
  destruct C4 as [m [Ht ->]].
  destruct (prod_snapshot ops Hf t0 evs m Ht) as [e1 [e2 [-> Hc]]].
  unfold reach in Hc. rewrite (no_edits_fs false ops e1 (init t0) (no_edits_app_l _ _ Hn)) in Hc.
  simpl in Hc. apply names_render; assumption.
Qed.

(* ================================================================ debug mode *)

Lemma merge_restr f old mf mfull x :
  (forall y, lookup y mf = if prefixb f y then lookup y mfull else None) ->
  lookup x (merge_old f old mf) =
  if prefixb f x then lookup x mfull
  else match old with Some o => lookup x o | None => None end.
Proof.
  intros HR. rewrite merge_lookup, !HR.
  destruct (prefixb f x) eqn:Ep.
  - destruct (is_empty f), old; reflexivity.
  - destruct old as [o|]; [|reflexivity]. destruct (lookup x o); reflexivity.
Qed.

Section Debug.
  Variable ops : nat -> op.
  Variable t0 : fstree.
  Variable mfull : tmap.
  Hypothesis Hc : compile_dir true [] t0 = COk mfull.
  Hypothesis Hne : forall i n, ops i = ORender n -> is_empty n = false.

  Definition dbg_inv (s : st) : Prop :=
    lock_inv true ops s /\ fs s = t0 /\
    (forall i, pcs s i <> PAfterCheck) /\
    (forall o x v, tpls s = Some o -> lookup x o = Some v -> lookup x mfull = Some v) /\
    (forall i n, ops i = ORender n -> pcs s i = PAfterLoad ->
       exists o, tpls s = Some o /\ lookup n o = lookup n mfull) /\
    (forall i n r, ops i = ORender n -> pcs s i = PDone r -> r = lookup_result n (Some mfull)).

  Lemma dbg_init : dbg_inv (init t0).
  Proof.
    split; [apply inv_init|]. split; [reflexivity|]. simpl.
    repeat split; intros; discriminate.
  Qed.

  Lemma dbg_step s j s' : dbg_inv s -> step true ops s j = Some s' -> dbg_inv s'.
  Proof.
    intros [I [Hfs [D0 [D2 [D3 D4]]]]] Hs.
    pose proof (inv_step _ _ _ _ _ I Hs) as I'.
    pose proof (step_fs _ _ _ _ _ Hs) as Hfs'.
    destruct (step_rank _ _ _ _ _ Hs) as [Hrk Hsame].
    split; [exact I'|]. split; [congruence|].
    (* D4 for the stepping thread, from the general case analysis *)
    assert (D4j : forall n r, ops j = ORender n -> pcs s' j = PDone r -> r = lookup_result n (Some mfull)).
    { intros n r Ho Hp.
      destruct (step_done_cases _ _ _ _ _ _ Hs Hp)
        as [[Hpc [Hw [Ht Hr]]]|[[Hr [_ [_ [_ [_ [He _]]]]]]|[Hpc [[Hr [[f Hf] _]]|[[Hr Hce]|[Hr Hce]]]]]].
      - rewrite Ho in Hr. destruct (D3 j n Ho Hpc) as [o [Hto Hlo]].
        rewrite Hr, Hto. unfold lookup_result. rewrite Hlo. reflexivity.
      - rewrite Ho in He. simpl in He. rewrite (Hne j n Ho) in He. discriminate.
      - congruence.
      - rewrite Hfs in Hce. destruct (restrict_dir true (filter_of true (ops j)) t0 mfull Hc) as [mf [Hm _]]. congruence.
      - rewrite Hfs in Hce. destruct (restrict_dir true (filter_of true (ops j)) t0 mfull Hc) as [mf [Hm _]]. congruence. }
    unfold step in Hs. destruct (pcs s j) eqn:Epc.
    - (* PStart: the CAS; templates untouched *)
      assert (E : forall f, s' = enter_load s j f ->
                (forall i, pcs s' i <> PAfterCheck) /\ tpls s' = tpls s /\ pcs s' j <> PAfterLoad).
      { intros f ->. destruct (enter_load_pcs s j f) as [Hj Ho]. split; [|split].
        - intros i. destruct (Nat.eq_dec i j) as [->|Hn]; [destruct Hj as [H|H]; rewrite H; discriminate|].
          rewrite (Ho i Hn). apply D0.
        - unfold enter_load. destruct (loaded s && is_empty f); reflexivity.
        - destruct Hj as [H|H]; rewrite H; discriminate. }
      assert (Hs' : exists f, s' = enter_load s j f).
      { destruct (ops j); destruct (lock_free s); try discriminate; inversion Hs; eauto. }
      destruct Hs' as [f Hf]. destruct (E f Hf) as [E0 [Et Ej]].
      split; [exact E0|]. split; [rewrite Et; exact D2|]. split.
      + intros i n Ho Hp. destruct (Nat.eq_dec i j) as [->|Hn]; [contradiction|].
        rewrite (Hsame i Hn) in Hp. rewrite Et. eapply D3; eauto.
      + intros i n r Ho Hp. destruct (Nat.eq_dec i j) as [->|Hn]; [eapply D4j; eauto|].
        rewrite (Hsame i Hn) in Hp. eapply D4; eauto.
    - exfalso. eapply D0; eauto.
    - (* PLocked: the compile and the replacement of the set *)
      inversion Hs; subst s'. clear Hs.
      destruct (restrict_dir true (filter_of true (ops j)) t0 mfull Hc) as [mf [Hm HR]].
      assert (Hpcs : forall i, i <> j -> pcs (finish_load true ops s j) i = pcs s i) by exact Hsame.
      assert (Ht : tpls (finish_load true ops s j) =
                   Some (merge_old (filter_of true (ops j)) (tpls s) mf)).
      { unfold finish_load. rewrite Hfs, Hm. reflexivity. }
      assert (Hpj : pcs (finish_load true ops s j) j =
                    match ops j with ORender _ => PAfterLoad | OLoad _ => PDone RLoaded end).
      { unfold finish_load. rewrite Hfs, Hm. simpl. apply upd_same. }
      split.
      { intros i. destruct (Nat.eq_dec i j) as [->|Hn].
        - rewrite Hpj. destruct (ops j); discriminate.
        - rewrite (Hpcs i Hn). apply D0. }
      split.
      { intros o x v Ho Hl. rewrite Ht in Ho. inversion Ho; subst o.
        rewrite (merge_restr _ _ _ mfull x HR) in Hl.
        destruct (prefixb (filter_of true (ops j)) x); [exact Hl|].
        destruct (tpls s) as [o|] eqn:Eo; [|discriminate]. eapply D2; eauto. }
      split.
      { intros i n Ho Hp. rewrite Ht. eexists. split; [reflexivity|].
        rewrite (merge_restr _ _ _ mfull n HR).
        destruct (Nat.eq_dec i j) as [->|Hn].
        - rewrite Ho. simpl. rewrite prefixb_refl. reflexivity.
        - rewrite (Hpcs i Hn) in Hp. destruct (D3 i n Ho Hp) as [o [Hto Hlo]].
          rewrite Hto. destruct (prefixb (filter_of true (ops j)) n); [reflexivity|exact Hlo]. }
      { intros i n r Ho Hp. destruct (Nat.eq_dec i j) as [->|Hn]; [eapply D4j; eauto|].
        rewrite (Hpcs i Hn) in Hp. eapply D4; eauto. }
    - (* PAfterLoad: the lookup *)
      destruct (lock_free s); [|discriminate]. inversion Hs; subst s'. simpl in *.
      split.
      { intros i. destruct (Nat.eq_dec i j) as [->|Hn]; [rewrite upd_same; discriminate|].
        rewrite upd_other by exact Hn. apply D0. }
      split; [exact D2|]. split.
      { intros i n Ho Hp. destruct (Nat.eq_dec i j) as [->|Hn]; [rewrite upd_same in Hp; discriminate|].
        rewrite upd_other in Hp by exact Hn. eapply D3; eauto. }
      { intros i n r Ho Hp. destruct (Nat.eq_dec i j) as [->|Hn]; [eapply D4j; eauto|].
        rewrite upd_other in Hp by exact Hn. eapply D4; eauto. }
    - discriminate.
  Qed.

  Lemma dbg_run evs : forall s, no_edits evs -> dbg_inv s -> dbg_inv (run true ops s evs).
  Proof.
    induction evs as [|e evs IH]; intros s Hn D; simpl; [exact D|].
    inversion Hn as [|? ? He Hr]; subst. apply IH; [exact Hr|].
    destruct e as [i|t|i]; simpl in *; [|contradiction|].
    - destruct (step true ops s i) eqn:E; [eapply dbg_step; eauto|exact D].
    - destruct (compile_ev_cases true ops s i) as [[_ [E|[_ [_ E]]]]|[_ E]].
      + rewrite E. exact D.
      + rewrite E. exact D.
      + eapply dbg_step; eauto.
  Qed.
End Debug.

(* concurrent debug renders of any templates, any explicit loads, every interleaving: no render hides
   another one's template *)
Lemma debug_no_hiding ops t0 evs :
  dom_fs t0 = true -> good_under true [] t0 = true ->
  (forall i n, ops i = ORender n -> is_empty n = false) -> no_edits evs ->
  forall i n r, ops i = ORender n -> pcs (reach true ops t0 evs) i = PDone r ->
    r = spec_render true t0 n.
Proof.
  intros Hd Hg Hne Hn i n r Ho Hp.
  apply compile_dir_ok_iff in Hg. destruct Hg as [mfull Hc].
  pose proof (dbg_run ops t0 mfull Hc Hne evs (init t0) Hn (dbg_init ops t0 mfull)) as [_ [_ [_ [_ [_ D4]]]]].
  rewrite (D4 i n r Ho Hp). apply names_render; assumption.
Qed.

(* a debug render that runs without interruption reflects the file as it is now, after any history *)
Lemma debug_fresh ops s i n :
  wlock s = None -> pcs s i = PStart -> ops i = ORender n -> is_empty n = false ->
  dom_fs (fs s) = true ->
  let s3 := run true ops s [EStep i; EStep i; EStep i] in
  match compile_dir true n (fs s) with
  | COk _ => pcs s3 i = PDone (spec_render true (fs s) n)
  | CErr => pcs s3 i = PDone RLoadErr /\ loaded s3 = false /\ wlock s3 = None /\ tpls s3 = tpls s
  | CPanic => pcs s3 i = PDone RLoadPanic /\ loaded s3 = false /\ wlock s3 = None /\ tpls s3 = tpls s
  end.
Proof.
  intros Hw Hp Ho He Hd. unfold run. cbn [fold_left].
  rewrite (apply_step true ops s i _ (step_start_render_debug true ops s i n eq_refl Hp Ho Hw)).
  rewrite enter_load_fresh by (rewrite He; apply andb_false_r).
  set (s1 := mkst (fs s) (loaded s || is_empty n) (tpls s) (Some i) (upd (pcs s) i PLocked) 0).
  assert (H1 : pcs s1 i = PLocked) by (unfold s1; simpl; apply upd_same).
  rewrite (apply_step true ops s1 i _ (step_locked true ops s1 i H1)).
  unfold finish_load. replace (fs s1) with (fs s) by reflexivity. rewrite Ho. simpl filter_of.
  destruct (compile_dir true n (fs s)) as [mn| |] eqn:Ec.
  - match goal with |- context [apply_ev true ops ?x (EStep i)] => set (s2 := x) end.
    assert (H2 : pcs s2 i = PAfterLoad) by (unfold s2; simpl; apply upd_same).
    rewrite (apply_step true ops s2 i _ (step_afterload_render true ops s2 i n H2 eq_refl Ho)).
    simpl. rewrite upd_same. f_equal. unfold lookup_result, spec_render.
    rewrite merge_lookup_sel by apply prefixb_refl.
    rewrite (names_exact true n (fs s) mn Hd Ec n), prefixb_refl. reflexivity.
  - match goal with |- context [apply_ev true ops ?x (EStep i)] => set (s2 := x) end.
    assert (H2 : pcs s2 i = PDone RLoadErr) by (unfold s2; simpl; apply upd_same).
    simpl apply_ev. rewrite (step_done_none true ops s2 i _ H2).
    repeat split; try reflexivity; exact H2.
  - match goal with |- context [apply_ev true ops ?x (EStep i)] => set (s2 := x) end.
    assert (H2 : pcs s2 i = PDone RLoadPanic) by (unfold s2; simpl; apply upd_same).
    simpl apply_ev. rewrite (step_done_none true ops s2 i _ H2).
    repeat split; try reflexivity; exact H2.
Qed.

(* production mode: after any history that left the engine not marked loaded (a failed load),
   the next render loads the repaired tree and answers from it *)
Lemma render_recovers ops s j n t' m :
  wlock s = None -> loaded s = false -> pcs s j = PStart -> ops j = ORender n ->
  compile_dir false [] t' = COk m ->
  let s4 := run false ops (set_fs s t') [EStep j; EStep j; EStep j; EStep j] in
  pcs s4 j = PDone (lookup_result n (Some m)) /\ tpls s4 = Some m /\ loaded s4 = true /\ wlock s4 = None.
Proof.
  intros Hw Hl Hp Ho Hc. unfold run. cbn [fold_left].
  set (s0 := set_fs s t').
  rewrite (apply_step false ops s0 j _ (step_start_render_prod false ops s0 j n eq_refl Hp Ho)).
  replace (loaded s0) with false by (symmetry; exact Hl).
  set (s1 := set_pc s0 j PAfterCheck).
  assert (H1 : pcs s1 j = PAfterCheck) by (unfold s1; simpl; apply upd_same).
  rewrite (apply_step false ops s1 j _ (step_aftercheck false ops s1 j H1 Hw)).
  replace (loaded s1) with false by (symmetry; exact Hl).
  rewrite enter_load_fresh by (simpl; rewrite Hl; reflexivity).
  set (s2 := mkst (fs s1) (loaded s1 || is_empty []) (tpls s1) (Some j) (upd (pcs s1) j PLocked) 0).
  assert (H2 : pcs s2 j = PLocked) by (unfold s2; simpl; apply upd_same).
  rewrite (apply_step false ops s2 j _ (step_locked false ops s2 j H2)).
  unfold finish_load. replace (fs s2) with t' by reflexivity. rewrite Ho. simpl filter_of. rewrite Hc.
  match goal with |- context [apply_ev false ops ?x (EStep j)] => set (s3 := x) end.
  assert (H3 : pcs s3 j = PAfterLoad) by (unfold s3; simpl; apply upd_same).
  rewrite (apply_step false ops s3 j _ (step_afterload_render false ops s3 j n H3 eq_refl Ho)).
  simpl. rewrite upd_same.
  assert (Hm : merge_old [] (tpls s) m = m) by (unfold merge_old; destruct (tpls s); reflexivity).
  rewrite Hm. rewrite ?orb_true_r. repeat split; reflexivity.
Qed.

(* ================================================================ production mode, any explicit loads *)

(* ---- fixed tree that compiles: first renders, loads of all templates and FILTERED loads in any
        interleaving; every render answers from the full set *)
Section ProdAny.
  Variable ops : nat -> op.
  Variable t0 : fstree.
  Variable mfull : tmap.
  Hypothesis Hc : compile_dir false [] t0 = COk mfull.

  Definition full_holder (s : st) : Prop :=
    exists i, wlock s = Some i /\ is_empty (filter_of false (ops i)) = true.

  Definition full_set (s : st) : Prop :=
    exists o, tpls s = Some o /\ forall x, lookup x o = lookup x mfull.

  Definition fits_any (o : op) (r : result) : Prop :=
    match o with
    | ORender n => r = lookup_result n (Some mfull)
    | OLoad f => r = RLoaded \/ (r = RAgain /\ is_empty f = true)
    end.

  Definition pa_inv (s : st) : Prop :=
    lock_inv false ops s /\ fs s = t0 /\
    (forall i, pcs s i = PAfterCheck -> exists n, ops i = ORender n) /\
    (forall o x v, tpls s = Some o -> lookup x o = Some v -> lookup x mfull = Some v) /\
    (loaded s = true -> full_holder s \/ full_set s) /\
    (forall i, pcs s i = PAfterLoad -> loaded s = true) /\
    (forall i r, pcs s i = PDone r -> fits_any (ops i) r).

  Lemma pa_init : pa_inv (init t0).
  Proof.
    split; [apply inv_init|]. split; [reflexivity|]. simpl.
    repeat split; intros; discriminate.
  Qed.

  Lemma pa_step s j s' : pa_inv s -> step false ops s j = Some s' -> pa_inv s'.
  Proof.
    intros [I [Hfs [A0 [A2 [A4 [A5 A6]]]]]] Hs.
    pose proof (inv_step _ _ _ _ _ I Hs) as I'.
    pose proof (step_fs _ _ _ _ _ Hs) as Hfs'.
    destruct (step_rank _ _ _ _ _ Hs) as [Hrk Hsame].
    split; [exact I'|]. split; [congruence|].
    (* what the stepping call returns *)
    assert (A6j : forall r, pcs s' j = PDone r -> fits_any (ops j) r).
    { intros r Hp.
      destruct (step_done_cases _ _ _ _ _ _ Hs Hp)
        as [[Hpc [Hw [Ht Hr]]]|[[Hr [_ [_ [_ [_ [He [Hd|[f Hf]]]]]]]]|[Hpc [[Hr [[f Hf] _]]|[[Hr Hce]|[Hr Hce]]]]]].
      - unfold fits_any. destruct (ops j) as [n|f] eqn:Eo; [|left; exact Hr].
        destruct (A4 (A5 j Hpc)) as [[i [Hi _]]|[o [Hto Hlo]]]; [congruence|].
        rewrite Hr, Hto. unfold lookup_result. rewrite Hlo. reflexivity.
      - discriminate.
      - unfold fits_any. rewrite Hf in *. simpl in He. right. split; assumption.
      - unfold fits_any. rewrite Hf. left; exact Hr.
      - rewrite Hfs in Hce. destruct (restrict_dir false (filter_of false (ops j)) t0 mfull Hc) as [mf [Hm _]]. congruence.
      - rewrite Hfs in Hce. destruct (restrict_dir false (filter_of false (ops j)) t0 mfull Hc) as [mf [Hm _]]. congruence. }
    assert (A6' : forall i r, pcs s' i = PDone r -> fits_any (ops i) r).
    { intros i r Hp. destruct (Nat.eq_dec i j) as [->|Hn]; [apply A6j; exact Hp|].
      rewrite (Hsame i Hn) in Hp. eapply A6; eauto. }
    unfold step in Hs. destruct (pcs s j) eqn:Epc.
    - (* PStart *)
      destruct (ops j) as [n|f] eqn:Eo.
      + (* render: the flag test *)
        inversion Hs; subst s'. simpl in *. split.
        { intros i Hp. destruct (Nat.eq_dec i j) as [->|Hn]; [eauto|].
          rewrite upd_other in Hp by exact Hn. apply A0; exact Hp. }
        split; [exact A2|]. split; [exact A4|]. split; [|exact A6'].
        intros i Hp. destruct (Nat.eq_dec i j) as [->|Hn].
        * rewrite upd_same in Hp. destruct (loaded s); [reflexivity|discriminate].
        * rewrite upd_other in Hp by exact Hn. apply A5 with i; exact Hp.
      + (* explicit load: the CAS (only for a load of all templates) *)
        unfold lock_free in Hs. destruct (wlock s) eqn:Ew; [discriminate|].
        inversion Hs; subst s'. clear Hs.
        destruct (enter_load_pcs s j f) as [Hj Ho].
        assert (Hnot : forall p, p = PAfterCheck \/ p = PAfterLoad -> pcs (enter_load s j f) j <> p).
        { intros p [->| ->]; destruct Hj as [H|H]; rewrite H; discriminate. }
        split.
        { intros i Hp. destruct (Nat.eq_dec i j) as [->|Hn]; [exfalso; apply (Hnot PAfterCheck); [left; reflexivity|exact Hp]|].
          rewrite (Ho i Hn) in Hp. apply A0; exact Hp. }
        unfold enter_load in *. destruct (loaded s && is_empty f) eqn:Ela; simpl in *.
        * split; [exact A2|]. split; [exact A4|]. split; [|exact A6'].
          intros i Hp. destruct (Nat.eq_dec i j) as [->|Hn]; [rewrite upd_same in Hp; discriminate|].
          rewrite upd_other in Hp by exact Hn. apply A5 with i; exact Hp.
        * split; [exact A2|]. split.
          { intros Hl. destruct (is_empty f) eqn:Ef.
            - left. exists j. split; [reflexivity|]. rewrite Eo. exact Ef.
            - rewrite orb_false_r in Hl. destruct (A4 Hl) as [[i [Hi _]]|Hset]; [congruence|].
              right. exact Hset. }
          split; [|exact A6'].
          intros i Hp. destruct (Nat.eq_dec i j) as [->|Hn]; [rewrite upd_same in Hp; discriminate|].
          rewrite upd_other in Hp by exact Hn. rewrite (A5 i Hp). reflexivity.
    - (* PAfterCheck: the re-check under the lock *)
      unfold lock_free in Hs. destruct (wlock s) eqn:Ew; [discriminate|].
      inversion Hs; subst s'. clear Hs.
      destruct (A0 j Epc) as [n Eo].
      destruct (loaded s) eqn:El; simpl in *.
      + split.
        { intros i Hp. destruct (Nat.eq_dec i j) as [->|Hn]; [rewrite upd_same in Hp; discriminate|].
          rewrite upd_other in Hp by exact Hn. apply A0; exact Hp. }
        split; [exact A2|]. split; [intros _; apply A4; reflexivity|]. split; [intros; exact El|exact A6'].
      + unfold enter_load in *. rewrite El in *. simpl in *. split.
        { intros i Hp. destruct (Nat.eq_dec i j) as [->|Hn]; [rewrite upd_same in Hp; discriminate|].
          rewrite upd_other in Hp by exact Hn. apply A0; exact Hp. }
        split; [exact A2|]. split.
        { intros _. left. exists j. split; [reflexivity|]. rewrite Eo. reflexivity. }
        split; [intros; reflexivity|exact A6'].
    - (* PLocked: the compile and the replacement of the set *)
      inversion Hs; subst s'. clear Hs.
      destruct (restrict_dir false (filter_of false (ops j)) t0 mfull Hc) as [mf [Hm HR]].
      assert (Ht : tpls (finish_load false ops s j) =
                   Some (merge_old (filter_of false (ops j)) (tpls s) mf)).
      { unfold finish_load. rewrite Hfs, Hm. reflexivity. }
      assert (Hl : loaded (finish_load false ops s j) = loaded s).
      { unfold finish_load. rewrite Hfs, Hm. reflexivity. }
      assert (Hpj : pcs (finish_load false ops s j) j =
                    match ops j with ORender _ => PAfterLoad | OLoad _ => PDone RLoaded end).
      { unfold finish_load. rewrite Hfs, Hm. simpl. apply upd_same. }
      destruct I as [I1 [I2 _]]. pose proof (proj1 (I1 j) Epc) as Hwj.
      split.
      { intros i Hp. destruct (Nat.eq_dec i j) as [->|Hn].
        - rewrite Hpj in Hp. destruct (ops j); discriminate.
        - rewrite (Hsame i Hn) in Hp. apply A0; exact Hp. }
      split.
      { intros o x v Ho Hlk. rewrite Ht in Ho. inversion Ho; subst o.
        rewrite (merge_restr _ _ _ mfull x HR) in Hlk.
        destruct (prefixb (filter_of false (ops j)) x); [exact Hlk|].
        destruct (tpls s) as [o|] eqn:Eo; [|discriminate]. eapply A2; eauto. }
      split.
      { rewrite Hl. intros Hls. right. unfold full_set. rewrite Ht. eexists. split; [reflexivity|].
        intros x. rewrite (merge_restr _ _ _ mfull x HR).
        destruct (A4 Hls) as [[i [Hi He]]|[o [Hto Hlo]]].
        - assert (i = j) by congruence. subst i.
          destruct (filter_of false (ops j)); [reflexivity|discriminate].
        - rewrite Hto. destruct (prefixb (filter_of false (ops j)) x); [reflexivity|apply Hlo]. }
      split; [|exact A6'].
      intros i Hp. rewrite Hl. destruct (Nat.eq_dec i j) as [->|Hn].
      + apply (I2 j Hwj). rewrite Hpj in Hp. destruct (ops j); [reflexivity|discriminate].
      + rewrite (Hsame i Hn) in Hp. apply A5 with i; exact Hp.
    - (* PAfterLoad: the lookup *)
      destruct (lock_free s); [|discriminate]. inversion Hs; subst s'. simpl in *.
      split.
      { intros i Hp. destruct (Nat.eq_dec i j) as [->|Hn]; [rewrite upd_same in Hp; discriminate|].
        rewrite upd_other in Hp by exact Hn. apply A0; exact Hp. }
      split; [exact A2|]. split; [exact A4|]. split; [|exact A6'].
      intros i Hp. destruct (Nat.eq_dec i j) as [->|Hn]; [rewrite upd_same in Hp; discriminate|].
      rewrite upd_other in Hp by exact Hn. apply A5 with i; exact Hp.
    - discriminate.
  Qed.

  Lemma pa_run evs : forall s, no_edits evs -> pa_inv s -> pa_inv (run false ops s evs).
  Proof.
    induction evs as [|e evs IH]; intros s Hn D; simpl; [exact D|].
    inversion Hn as [|? ? He Hr]; subst. apply IH; [exact Hr|].
    destruct e as [i|t|i]; simpl in *; [|contradiction|].
    - destruct (step false ops s i) eqn:E; [eapply pa_step; eauto|exact D].
    - destruct (compile_ev_cases false ops s i) as [[_ [E|[_ [_ E]]]]|[_ E]].
      + rewrite E. exact D.
      + rewrite E. exact D.
      + eapply pa_step; eauto.
  Qed.
End ProdAny.

(* cold start on a fixed tree that compiles, ANY explicit loads (filtered ones included), every
   interleaving: every render answers as the specification says; an explicit load succeeds, or, if it
   is a load of all templates, is told "again" *)
Lemma cold_start_fixed_any ops t0 evs :
  dom_fs t0 = true -> good_under false [] t0 = true -> no_edits evs ->
  forall i r, pcs (reach false ops t0 evs) i = PDone r ->
    match ops i with
    | ORender n => r = spec_render false t0 n
    | OLoad f => r = RLoaded \/ (r = RAgain /\ is_empty f = true)
    end.
Proof.
  intros Hd Hg Hn i r Hp.
  apply compile_dir_ok_iff in Hg. destruct Hg as [mfull Hc].
  pose proof (pa_run ops t0 mfull Hc evs (init t0) Hn (pa_init ops t0 mfull)) as [_ [_ [_ [_ [_ [_ A6]]]]]].
  specialize (A6 i r Hp). unfold fits_any in A6.
  destruct (ops i) as [n|f]; [|exact A6]. rewrite A6. apply names_render; assumption.
Qed.

(* ---- the flag is set only by a call that loads all templates *)
Section FlagOwner.
  Variable ops : nat -> op.

  Definition loads_all (o : op) : Prop :=
    match o with ORender _ => True | OLoad f => is_empty f = true end.

  Definition flag_inv (s : st) : Prop :=
    (forall i, pcs s i = PAfterCheck -> exists n, ops i = ORender n) /\
    (loaded s = true -> exists i, pcs s i <> PStart /\ loads_all (ops i)).

  Lemma flag_step s j s' : flag_inv s -> step false ops s j = Some s' -> flag_inv s'.
  Proof.
    intros [F0 F1] Hs. unfold flag_inv.
    destruct (step_rank _ _ _ _ _ Hs) as [Hrk Hsame].
    assert (Keep : forall i, pcs s i <> PStart -> pcs s' i <> PStart).
    { intros i Hi. destruct (Nat.eq_dec i j) as [->|Hn].
      - intros H. rewrite H in Hrk. simpl in Hrk. destruct (pcs s j); simpl in Hrk; lia.
      - rewrite (Hsame i Hn). exact Hi. }
    assert (Old : loaded s = true -> exists i, pcs s' i <> PStart /\ loads_all (ops i)).
    { intros Hl. destruct (F1 Hl) as [i [Hi Ha]]. exists i. split; [apply Keep; exact Hi|exact Ha]. }
    assert (Me : loads_all (ops j) -> exists i, pcs s' i <> PStart /\ loads_all (ops i)).
    { intros Ha. exists j. split; [|exact Ha]. intros H. rewrite H in Hrk. simpl in Hrk.
      destruct (pcs s j); simpl in Hrk; lia. }
    unfold step in Hs. destruct (pcs s j) eqn:Epc.
    - destruct (ops j) as [n|f] eqn:Eo.
      + inversion Hs; subst s'. simpl in *. split; [|exact Old].
        intros i Hp. destruct (Nat.eq_dec i j) as [->|Hn]; [eauto|].
        rewrite upd_other in Hp by exact Hn. apply F0; exact Hp.
      + destruct (lock_free s); [|discriminate]. inversion Hs; subst s'.
        destruct (enter_load_pcs s j f) as [Hj Ho]. split.
        * intros i Hp. destruct (Nat.eq_dec i j) as [->|Hn].
          -- destruct Hj as [H|H]; rewrite H in Hp; discriminate.
          -- rewrite (Ho i Hn) in Hp. apply F0; exact Hp.
        * unfold enter_load in *. destruct (loaded s && is_empty f) eqn:E; simpl in *; [exact Old|].
          intros Hl. destruct (is_empty f) eqn:Ef.
          -- apply Me. reflexivity.
          -- rewrite orb_false_r in Hl. apply Old; exact Hl.
    - destruct (lock_free s); [|discriminate]. inversion Hs; subst s'.
      destruct (F0 j Epc) as [n Eo]. destruct (loaded s) eqn:El; simpl in *.
      + split; [|intros _; apply Old; reflexivity].
        intros i Hp. destruct (Nat.eq_dec i j) as [->|Hn]; [rewrite upd_same in Hp; discriminate|].
        rewrite upd_other in Hp by exact Hn. apply F0; exact Hp.
      + unfold enter_load in *. rewrite El in *. simpl in *. split.
        * intros i Hp. destruct (Nat.eq_dec i j) as [->|Hn]; [rewrite upd_same in Hp; discriminate|].
          rewrite upd_other in Hp by exact Hn. apply F0; exact Hp.
        * intros _. apply Me. rewrite Eo. exact I.
    - inversion Hs; subst s'. split.
      + intros i Hp. destruct (Nat.eq_dec i j) as [->|Hn].
        * destruct (finish_load_pcs false ops s j) as [H1 _]. rewrite Hp in H1. simpl in H1. lia.
        * rewrite (Hsame i Hn) in Hp. apply F0; exact Hp.
      + intros Hl. apply Old. unfold finish_load in Hl.
        destruct (compile_dir false (filter_of false (ops j)) (fs s)); simpl in Hl; [exact Hl|discriminate|discriminate].
    - destruct (lock_free s); [|discriminate]. inversion Hs; subst s'. simpl in *. split; [|exact Old].
      intros i Hp. destruct (Nat.eq_dec i j) as [->|Hn]; [rewrite upd_same in Hp; discriminate|].
      rewrite upd_other in Hp by exact Hn. apply F0; exact Hp.
    - discriminate.
  Qed.

  Lemma flag_reach t0 evs : flag_inv (reach false ops t0 evs).
  Proof.
    unfold reach. apply (run_invariant false ops flag_inv).
    - intros s e F. destruct e as [i|t|i]; simpl.
      + destruct (step false ops s i) eqn:E; [eapply flag_step; eauto|exact F].
      + exact F.
      + destruct (compile_ev_cases false ops s i) as [[_ [E|[_ [_ E]]]]|[_ E]].
        * rewrite E. exact F.
        * rewrite E. exact F.
        * eapply flag_step; eauto.
    - split; simpl; intros; discriminate.
  Qed.
End FlagOwner.

(* after ANY history in which only filtered explicit loads have been started (any number, any
   interleaving, succeeding or failing, any file edits), the engine is not marked loaded ... *)
Lemma only_filtered_not_loaded ops t0 evs :
  let s := reach false ops t0 evs in
  (forall i, pcs s i <> PStart -> exists f, ops i = OLoad f /\ is_empty f = false) ->
  loaded s = false.
Proof.
  simpl. intros H. destruct (flag_reach ops t0 evs) as [_ F1].
  destruct (loaded (reach false ops t0 evs)) eqn:El; [|reflexivity].
  destruct (F1 eq_refl) as [i [Hi Ha]]. destruct (H i Hi) as [f [Ho He]].
  rewrite Ho in Ha. simpl in Ha. congruence.
Qed.

(* ... so the first render, or the first load of all templates, loads everything from the tree as it
   is then, and exactly that is renderable: the filtered loads before it change nothing about it *)
Lemma filtered_first_harmless ops t0 evs j t' m :
  let s := reach false ops t0 evs in
  (forall i, pcs s i <> PStart -> exists f, ops i = OLoad f /\ is_empty f = false) ->
  wlock s = None -> pcs s j = PStart -> compile_dir false [] t' = COk m ->
  (forall n, ops j = ORender n ->
     let s4 := run false ops (set_fs s t') [EStep j; EStep j; EStep j; EStep j] in
     pcs s4 j = PDone (lookup_result n (Some m)) /\ tpls s4 = Some m /\ loaded s4 = true /\ wlock s4 = None) /\
  (ops j = OLoad [] ->
     let s2 := run false ops (set_fs s t') [EStep j; EStep j] in
     pcs s2 j = PDone RLoaded /\ tpls s2 = Some m /\ loaded s2 = true /\ wlock s2 = None).
Proof.
  simpl. intros H Hw Hp Hc.
  pose proof (only_filtered_not_loaded ops t0 evs H) as Hl. simpl in Hl.
  split.
  - intros n Ho. eapply render_recovers; eauto.
  - intros Ho. eapply load_recovers; eauto.
Qed.

(* a load of all templates - explicit or by a first render, at any moment of any history, whatever filtered
   or other loads put in place before - leaves exactly the compile of the tree it saw *)
Lemma full_load_exact debug ops s i m :
  pcs s i = PLocked -> is_empty (filter_of debug (ops i)) = true ->
  compile_dir debug [] (fs s) = COk m ->
  step debug ops s i = Some (finish_load debug ops s i) /\
  tpls (finish_load debug ops s i) = Some m /\
  (dom_fs (fs s) = true -> forall n, lookup_result n (tpls (finish_load debug ops s i)) = spec_render debug (fs s) n).
Proof.
  intros Hp He Hc. split; [apply step_locked; exact Hp|].
  assert (Ht : tpls (finish_load debug ops s i) = Some m).
  { unfold finish_load. destruct (filter_of debug (ops i)); [|discriminate].
    rewrite Hc. simpl. unfold merge_old. destruct (tpls s); reflexivity. }
  split; [exact Ht|]. intros Hd n. rewrite Ht. apply names_render; assumption.
Qed.

(* ---- both modes, any calls, any schedule, any edits: what a render prints was, at some moment of the
        history, what the file of exactly that name compiles to - never another template's output *)
Definition trees_of (evs : list ev) : list fstree :=
  flat_map (fun e => match e with EFs t => [t] | _ => [] end) evs.

Section WasContent.
  Variable debug : bool.
  Variable ops : nat -> op.

  Definition seen_in (V : list fstree) (n : bytes) (out : tpl) : Prop :=
    exists t, In t V /\ spec_find debug t n = Some out.

  Definition wc_inv (V : list fstree) (s : st) : Prop :=
    In (fs s) V /\
    (forall o n out, tpls s = Some o -> lookup n o = Some out -> seen_in V n out) /\
    (forall i n out, ops i = ORender n -> pcs s i = PDone (ROk out) -> seen_in V n out).

  Lemma wc_mono V V' s : (forall t, In t V -> In t V') -> In (fs s) V' ->
    (forall o n out, tpls s = Some o -> lookup n o = Some out -> seen_in V n out) ->
    (forall i n out, ops i = ORender n -> pcs s i = PDone (ROk out) -> seen_in V n out) ->
    wc_inv V' s.
  Proof.
    intros Hsub Hin W1 W2. split; [exact Hin|]. split.
    - intros o n out Ht Hl. destruct (W1 o n out Ht Hl) as [t [Hi Hs]]. exists t. auto.
    - intros i n out Ho Hp. destruct (W2 i n out Ho Hp) as [t [Hi Hs]]. exists t. auto.
  Qed.

  Lemma wc_step V s j s' :
    dom_fs (fs s) = true -> wc_inv V s -> step debug ops s j = Some s' -> wc_inv V s'.
  Proof.
    intros Hd [W0 [W1 W2]] Hs.
    pose proof (step_fs _ _ _ _ _ Hs) as Hfs.
    destruct (step_rank _ _ _ _ _ Hs) as [_ Hsame].
    assert (W1' : forall o n out, tpls s' = Some o -> lookup n o = Some out -> seen_in V n out).
    { intros o n out Ht Hl.
      destruct (step_tpls _ _ _ _ _ Hs) as [E|[_ [m [Hc Hm]]]].
      - rewrite E in Ht. eapply W1; eauto.
      - rewrite Hm in Ht. inversion Ht; subst o. rewrite merge_lookup in Hl.
        pose proof (names_exact debug (filter_of debug (ops j)) (fs s) m Hd Hc n) as Hx.
        destruct (prefixb (filter_of debug (ops j)) n) eqn:Ep.
        + assert (Hlm : lookup n m = Some out).
          { destruct (is_empty (filter_of debug (ops j))); [exact Hl|]. destruct (tpls s); exact Hl. }
          rewrite Hx in Hlm. exists (fs s). split; assumption.
        + destruct (tpls s) as [o|] eqn:Eo.
          * destruct (lookup n o) as [v|] eqn:Elo.
            -- inversion Hl; subst v. eapply W1; eauto.
            -- rewrite Hx in Hl. discriminate.
          * rewrite Hx in Hl. discriminate. }
    split; [rewrite Hfs; exact W0|]. split; [exact W1'|].
    intros i n out Ho Hp. destruct (Nat.eq_dec i j) as [->|Hn].
    - destruct (step_done_cases _ _ _ _ _ _ Hs Hp) as [[Hpc [Hw [Ht Hr]]]|[[Hr _]|[_ [[Hr _]|[[Hr _]|[Hr _]]]]]];
        try discriminate.
      rewrite Ho in Hr. unfold lookup_result in Hr.
      destruct (tpls s) as [o|] eqn:Eo; [|discriminate].
      destruct (lookup n o) as [v|] eqn:El; [|discriminate]. inversion Hr; subst v.
      eapply W1; eauto.
    - rewrite (Hsame i Hn) in Hp. eapply W2; eauto.
  Qed.

  Lemma wc_run evs : forall V s,
    (forall t, In t (V ++ trees_of evs) -> dom_fs t = true) ->
    wc_inv V s -> wc_inv (V ++ trees_of evs) (run debug ops s evs).
  Proof.
    induction evs as [|e evs IH]; intros V s Hd W; simpl.
    - rewrite app_nil_r. exact W.
    - destruct e as [i|t|i]; simpl.
      + apply IH; [exact Hd|].
        destruct (step debug ops s i) eqn:E; [|exact W].
        eapply wc_step; eauto. apply Hd. apply in_or_app. left. destruct W as [W0 _]. exact W0.
      + replace (V ++ t :: trees_of evs) with ((V ++ [t]) ++ trees_of evs)
          by (rewrite <- app_assoc; reflexivity).
        apply IH; [intros x Hx; apply Hd; rewrite <- app_assoc in Hx; exact Hx|].
        destruct W as [W0 [W1 W2]].
        apply (wc_mono V); [intros x Hx; apply in_or_app; left; exact Hx| | |].
        * simpl. apply in_or_app. right. left. reflexivity.
        * exact W1.
        * exact W2.
      + apply IH; [exact Hd|].
        destruct (compile_ev_cases debug ops s i) as [[[E0 [_ [E2 [_ E4]]]] _]|[_ E]].
        * destruct W as [W0 [W1 W2]]. split; [rewrite E0; exact W0|]. split.
          -- intros o n out Ht. rewrite E2 in Ht. eapply W1; eauto.
          -- intros j n out Ho Hp. rewrite E4 in Hp. eapply W2; eauto.
        * eapply wc_step; eauto. apply Hd. apply in_or_app. left. destruct W as [W0 _]. exact W0.
  Qed.
End WasContent.

Lemma rendered_was_content debug ops t0 evs :
  (forall t, In t (t0 :: trees_of evs) -> dom_fs t = true) ->
  forall i n out, ops i = ORender n -> pcs (reach debug ops t0 evs) i = PDone (ROk out) ->
    exists t, In t (t0 :: trees_of evs) /\ spec_find debug t n = Some out.
Proof.
  intros Hd i n out Ho Hp.
  assert (W : wc_inv debug ops [t0] (init t0)).
  { split; [left; reflexivity|]. split; simpl; intros; discriminate. }
  destruct (wc_run debug ops evs [t0] (init t0) Hd W) as [_ [_ W2]].
  exact (W2 i n out Ho Hp).
Qed.

(* ================================================================ combined statements for Props/C10.v *)

Definition ops_of (l : list op) : nat -> op := fun i => nth i l (OLoad []).

Lemma lock_reach debug ops t0 evs :
  let s := reach debug ops t0 evs in
  (forall i, pcs s i = PLocked <-> wlock s = Some i) /\
  (forall i j, pcs s i = PLocked -> pcs s j = PLocked -> i = j) /\
  (wlock s = None -> loaded s = true -> tpls s <> None).
Proof.
  simpl. destruct (inv_reach debug ops t0 evs) as [I1 [I2 I3]]. split; [exact I1|]. split.
  - intros i j Hi Hj. apply I1 in Hi. apply I1 in Hj. congruence.
  - intros Hw Hl. destruct (I3 Hl) as [H|H]; [exact H|contradiction].
Qed.

Lemma no_deadlock_reach debug ops t0 evs i :
  let s := reach debug ops t0 evs in
  (forall r, pcs s i <> PDone r) ->
  (exists s', step debug ops s i = Some s') \/
  (exists j s', wlock s = Some j /\ pcs s j = PLocked /\ step debug ops s j = Some s').
Proof. simpl. apply no_deadlock, inv_reach. Qed.

Lemma steps_bounded_reach debug ops t0 evs i N :
  length (tnames t0) <= N -> trees_le N evs ->
  eff_steps debug ops (init t0) evs i <= N + 4.
Proof.
  intros H0 HT.
  pose proof (steps_boundedN debug ops N evs (init t0) i (inv_init debug ops t0) H0 HT) as H.
  unfold rankN at 2 in H. simpl in H. lia.
Qed.

(* ---- while a load is in progress (at "load:locked" or at any file of the compile) every other call
        waits; only the flag test of a production render can still be passed, and that render then
        waits: at the lookup if the flag was set (a load of all templates is in progress or done), for
        the lock if it was not (a filtered load on an engine that has not loaded yet) *)
Lemma waits_for_load debug ops t0 evs j i :
  let s := reach debug ops t0 evs in
  pcs s j = PLocked -> i <> j ->
  step debug ops s i = None \/
  (debug = false /\ pcs s i = PStart /\ (exists n, ops i = ORender n) /\
   let p := if loaded s then PAfterLoad else PAfterCheck in
   step debug ops s i = Some (set_pc s i p) /\
   step debug ops (set_pc s i p) i = None /\
   (is_empty (filter_of debug (ops j)) = true -> p = PAfterLoad)).
Proof.
  simpl. intros Hj Hn. destruct (inv_reach debug ops t0 evs) as [I1 [I2 _]].
  set (s := reach debug ops t0 evs) in *.
  pose proof (proj1 (I1 j) Hj) as Hw. pose proof (I2 j Hw) as Hl.
  unfold step at 1. unfold lock_free. rewrite Hw.
  destruct (pcs s i) eqn:Epc; try (left; reflexivity).
  - destruct (ops i) as [n|f] eqn:Eo; [|left; reflexivity].
    destruct debug; [left; reflexivity|]. right.
    split; [reflexivity|]. split; [reflexivity|]. split; [eauto|]. split; [|split].
    + unfold step. rewrite Epc, Eo. reflexivity.
    + unfold step, lock_free. simpl. rewrite upd_same. fold s. rewrite Hw.
      destruct (loaded s); reflexivity.
    + intros He. rewrite (Hl He). reflexivity.
  - exfalso. apply I1 in Epc. congruence.
Qed.

(* ---- the compile steps refine the yield-point machine: every schedule reaches the state (but for the
        progress counter) of the schedule in which each compile step is dropped, or, when it is the one
        that ends the load, replaced by the plain step *)
Fixpoint erase (debug : bool) (ops : nat -> op) (s : st) (evs : list ev) : list ev :=
  match evs with
  | [] => []
  | e :: r =>
    match e with
    | ECompile i =>
      match pcs s i with
      | PLocked => if prog s <? load_calls debug (filter_of debug (ops i)) (fs s) then [] else [EStep i]
      | _ => []
      end
    | _ => [e]
    end ++ erase debug ops (apply_ev debug ops s e) r
  end.

Definition no_compile_ev (e : ev) : Prop := match e with ECompile _ => False | _ => True end.

Lemma step_core debug ops s1 s2 i :
  same_core s1 s2 ->
  match step debug ops s1 i, step debug ops s2 i with
  | Some a, Some b => same_core a b
  | None, None => True
  | _, _ => False
  end.
Proof.
  destruct s1 as [f1 l1 t1 w1 p1 k1], s2 as [f2 l2 t2 w2 p2 k2]. unfold same_core. simpl.
  intros [-> [-> [-> [-> ->]]]].
  unfold step, lock_free, enter_load, finish_load, set_pc. simpl.
  destruct (p2 i); try exact I.
  - destruct (ops i); [destruct debug|]; destruct w2; try exact I;
      try (destruct (l2 && is_empty _)); simpl; repeat split.
  - destruct w2; [exact I|]. destruct l2; simpl; repeat split.
  - destruct (compile_dir debug (filter_of debug (ops i)) f2); simpl; repeat split.
  - destruct w2; [exact I|]. simpl; repeat split.
Qed.

Lemma compile_erase debug ops evs : forall s1 s2,
  same_core s1 s2 ->
  Forall no_compile_ev (erase debug ops s2 evs) /\
  same_core (run debug ops s1 (erase debug ops s2 evs)) (run debug ops s2 evs).
Proof.
  induction evs as [|e evs IH]; intros s1 s2 HC; simpl; [split; [constructor|exact HC]|].
  destruct e as [i|t|i].
  - (* a plain step: kept *)
    simpl. pose proof (step_core debug ops s1 s2 i HC) as G.
    destruct (step debug ops s1 i) as [a|], (step debug ops s2 i) as [b|]; try contradiction.
    + destruct (IH a b G) as [F S]. split; [constructor; [exact I|exact F]|exact S].
    + destruct (IH s1 s2 HC) as [F S]. split; [constructor; [exact I|exact F]|exact S].
  - simpl. assert (G : same_core (set_fs s1 t) (set_fs s2 t)).
    { destruct HC as [_ [H1 [H2 [H3 H4]]]]. repeat split; assumption. }
    destruct (IH _ _ G) as [F S]. split; [constructor; [exact I|exact F]|exact S].
  - simpl apply_ev. unfold compile_ev.
    destruct (pcs s2 i) eqn:Epc; try (simpl; apply IH; exact HC).
    destruct (prog s2 <? load_calls debug (filter_of debug (ops i)) (fs s2)).
    + simpl. apply IH. destruct HC as [H0 [H1 [H2 [H3 H4]]]]. repeat split; assumption.
    + pose proof (step_core debug ops s1 s2 i HC) as G.
      assert (E2 : step debug ops s2 i = Some (finish_load debug ops s2 i)) by (unfold step; rewrite Epc; reflexivity).
      assert (E1 : step debug ops s1 i = Some (finish_load debug ops s1 i)).
      { destruct HC as [_ [_ [_ [_ Hp]]]]. unfold step. rewrite Hp, Epc. reflexivity. }
      rewrite E1, E2 in G.
      destruct (IH _ _ G) as [F S]. simpl. rewrite E1. split; [constructor; [exact I|exact F]|exact S].
Qed.

Lemma compile_erase_reach debug ops t0 evs :
  let evs' := erase debug ops (init t0) evs in
  Forall no_compile_ev evs' /\ same_core (reach debug ops t0 evs') (reach debug ops t0 evs).
Proof. simpl. apply compile_erase. apply same_core_refl. Qed.

(* a compile step by itself: nothing changes but the counter, until the last file; on a tree that compiles
   under the filter the load makes one step per selected template file *)
Lemma compile_step_alone debug ops s i :
  pcs s i = PLocked ->
  let s' := apply_ev debug ops s (ECompile i) in
  (prog s < load_calls debug (filter_of debug (ops i)) (fs s) ->
     same_core s' s /\ prog s' = S (prog s)) /\
  (load_calls debug (filter_of debug (ops i)) (fs s) <= prog s ->
     s' = finish_load debug ops s i).
Proof.
  intros Hp. simpl. unfold compile_ev. rewrite Hp. split; intros H.
  - apply Nat.ltb_lt in H. rewrite H. split; [repeat split|reflexivity].
  - apply Nat.ltb_ge in H. rewrite H. reflexivity.
Qed.

Lemma load_calls_good debug f t :
  good_under debug f t = true ->
  load_calls debug f t = length (filter (fun nk => prefixb f (fst nk)) (tnames t)).
Proof.
  intros H. apply good_under_spec in H. destruct H as [_ H]. apply calls_upto_good. exact H.
Qed.

Lemma prod_once_reach ops t0 evs :
  full_loads ops ->
  let s := reach false ops t0 evs in
  (forall m, tpls s = Some m ->
     (exists evs1 evs2, evs = evs1 ++ evs2 /\
                        compile_dir false [] (fs (reach false ops t0 evs1)) = COk m) /\
     (forall more, tpls (run false ops s more) = Some m)) /\
  (forall i n out, ops i = ORender n -> pcs s i = PDone (ROk out) ->
     exists m, tpls s = Some m /\ lookup n m = Some out).
Proof.
  intros Hf. simpl. split.
  - intros m Ht. split; [apply prod_snapshot; assumption|].
    intros more. apply prod_once; [exact Hf|apply prod_run; [exact Hf|apply prod_init]|exact Ht].
  - apply renders_reach. exact Hf.
Qed.

Lemma cold_start_good_histories ops t0 evs :
  full_loads ops -> good_under false [] t0 = true -> Forall (good_ev) evs ->
  let s := reach false ops t0 evs in
  forall i r, pcs s i = PDone r ->
    match ops i with
    | ORender n => exists m, tpls s = Some m /\ r = lookup_result n (Some m)
    | OLoad _ => r = RLoaded \/ r = RAgain
    end.
Proof.
  intros Hf Hg HF. simpl. intros i r Hp.
  pose proof (cold_run ops Hf evs (init t0) HF (cold_init ops t0 Hg)) as [_ [_ [_ C4]]].
  exact (C4 i r Hp).
Qed.

Lemma failed_load_recoverable debug ops t0 evs i r :
  let s := reach debug ops t0 evs in
  pcs s i = PLocked ->
  (compile_dir debug (filter_of debug (ops i)) (fs s) = CErr /\ r = RLoadErr) \/
  (compile_dir debug (filter_of debug (ops i)) (fs s) = CPanic /\ r = RLoadPanic) ->
  exists s', step debug ops s i = Some s' /\
    pcs s' i = PDone r /\ loaded s' = false /\ wlock s' = None /\ tpls s' = tpls s /\
    (* an explicit load of a tree that compiles succeeds right away *)
    (forall j t' m, pcs s' j = PStart -> ops j = OLoad [] -> compile_dir debug [] t' = COk m ->
       let s2 := run debug ops (set_fs s' t') [EStep j; EStep j] in
       pcs s2 j = PDone RLoaded /\ tpls s2 = Some m /\ loaded s2 = true /\ wlock s2 = None) /\
    (* and so does the next render in production mode *)
    (debug = false -> forall j n t' m, pcs s' j = PStart -> ops j = ORender n ->
       compile_dir false [] t' = COk m ->
       let s4 := run false ops (set_fs s' t') [EStep j; EStep j; EStep j; EStep j] in
       pcs s4 j = PDone (lookup_result n (Some m)) /\ tpls s4 = Some m).
Proof.
  simpl. intros Hp Hc.
  destruct (failed_load_step debug ops _ i Hp r Hc) as [s' [Hs [Hd [Hl [Hw [Ht _]]]]]].
  exists s'. repeat split; try assumption.
  - eapply load_recovers; eauto.
  - eapply load_recovers; eauto.
  - eapply load_recovers; eauto.
  - eapply load_recovers; eauto.
  - subst debug. eapply render_recovers; eauto.
  - subst debug. eapply render_recovers; eauto.
Qed.

(* at any moment of any history: lock free and no template set in place -> a full load of a tree
   that compiles succeeds (the engine is never left "loaded" without templates) *)
Lemma recover_any_time debug ops t0 evs j t' m :
  let s := reach debug ops t0 evs in
  wlock s = None -> tpls s = None -> pcs s j = PStart -> ops j = OLoad [] ->
  compile_dir debug [] t' = COk m ->
  let s2 := run debug ops (set_fs s t') [EStep j; EStep j] in
  pcs s2 j = PDone RLoaded /\ tpls s2 = Some m /\ loaded s2 = true /\ wlock s2 = None.
Proof.
  simpl. intros Hw Ht Hp Ho Hc.
  destruct (inv_reach debug ops t0 evs) as [_ [_ I3]].
  assert (Hl : loaded (reach debug ops t0 evs) = false).
  { destruct (loaded (reach debug ops t0 evs)) eqn:E; [|reflexivity].
    destruct (I3 eq_refl) as [H|H]; congruence. }
  eapply load_recovers; eauto.
Qed.

(* ================================================================ non-vacuity *)

Definition ex_tree : fstree := Some
  [ File (B "a.ast.json") (KTpl (B "A"));
    File (B "ab.ast.json") (KTpl (B "AB"));
    Dir (B "a") [ File (B "b.ast.json") (KTpl (B "A/B")); File (B ".keep") KBrokenJson ];
    Dir (B "a.partial") [ File (B "x.ast.json") (KTpl (B "PX")) ];
    File (B "README") KBrokenJson;
    File (B "a.ast.json.bak") KBrokenJson;
    Dir (B "d.ast.json") [ File (B "e.ast.json") (KTpl (B "DE")) ];
    Dir (B "empty") [] ].

Example ex_dom : dom_fs ex_tree = true.
Proof. vm_compute. reflexivity. Qed.

Example ex_names :
  map fst (tnames ex_tree) = [B "a"; B "ab"; B "a/b"; B "a.partial/x"; B "d.ast.json/e"].
Proof. vm_compute. reflexivity. Qed.

Example ex_good : good_under false [] ex_tree = true /\ good_under true [] ex_tree = true.
Proof. vm_compute. split; reflexivity. Qed.

Example ex_lookups :
  map (spec_render false ex_tree) [B "a"; B "ab"; B "a/b"; B "a.partial/x"; B "a/"; B "README"; B "a.ast.json.bak"; B "a.partial"; B ""]
  = [ROk (B "A"); ROk (B "AB"); ROk (B "A/B"); ROk (B "PX"); RNotFound; RNotFound; RNotFound; RNotFound; RNotFound].
Proof. vm_compute. reflexivity. Qed.

Example ex_filtered :
  match compile_dir true (B "a") ex_tree with
  | COk m => map (fun n => lookup n m) [B "a"; B "ab"; B "a/b"; B "a.partial/x"; B "d.ast.json/e"]
             = [Some (B "A"); Some (B "AB"); Some (B "A/B"); Some (B "PX"); None]
  | _ => False
  end.
Proof. vm_compute. reflexivity. Qed.

Definition results (s : st) (k : nat) : list pc := map (pcs s) (seq 0 k).

(* the interleaving that used to fail (F-C10-a): both first renders pass the flag test before either loads *)
Example ex_cold_start :
  results (reach false (ops_of [ORender (B "a"); ORender (B "ab")]) ex_tree
                 [EStep 0; EStep 1; EStep 0; EStep 0; EStep 0; EStep 1; EStep 1]) 2
  = [PDone (ROk (B "A")); PDone (ROk (B "AB"))].
Proof. vm_compute. reflexivity. Qed.

(* the interleaving that used to hide a template (F-C10-b): both debug renders load before either looks up *)
Example ex_debug_no_hiding :
  results (reach true (ops_of [ORender (B "a/b"); ORender (B "d.ast.json/e")]) ex_tree
                 [EStep 0; EStep 0; EStep 1; EStep 1; EStep 0; EStep 1]) 2
  = [PDone (ROk (B "A/B")); PDone (ROk (B "DE"))].
Proof. vm_compute. reflexivity. Qed.

Definition ex_bad_tree (k : fkind) : fstree := Some
  [ File (B "a.ast.json") (KTpl (B "A")); File (B "x.ast.json") k ].

(* a load that panics (F-C10-c), the repair, the next load and render *)
Example ex_panic_then_repair :
  results (reach false (ops_of [OLoad []; OLoad []; ORender (B "x")]) (ex_bad_tree KBadJs)
                 [EStep 0; EStep 0; EFs (ex_bad_tree (KTpl (B "X2")));
                  EStep 1; EStep 1; EStep 2; EStep 2]) 3
  = [PDone RLoadPanic; PDone RLoaded; PDone (ROk (B "X2"))].
Proof. vm_compute. reflexivity. Qed.

Example ex_error_then_repair_debug :
  results (reach true (ops_of [ORender (B "x"); ORender (B "x"); ORender (B "a")]) (ex_bad_tree KBrokenJson)
                 [EStep 0; EStep 0; EFs (ex_bad_tree (KTpl (B "X2")));
                  EStep 1; EStep 1; EStep 1; EStep 2; EStep 2; EStep 2]) 3
  = [PDone RLoadErr; PDone (ROk (B "X2")); PDone (ROk (B "A"))].
Proof. vm_compute. reflexivity. Qed.

(* production mode does not pick up a later edit; debug mode does *)
Example ex_once_vs_fresh :
  let evs := [EStep 0; EStep 0; EStep 0; EStep 0; EFs (ex_bad_tree (KTpl (B "NEW")));
              EStep 1; EStep 1; EStep 1; EStep 1] in
  let ops := ops_of [ORender (B "x"); ORender (B "x")] in
  results (reach false ops (ex_bad_tree (KTpl (B "OLD"))) evs) 2 = [PDone (ROk (B "OLD")); PDone (ROk (B "OLD"))] /\
  results (reach true ops (ex_bad_tree (KTpl (B "OLD"))) evs) 2 = [PDone (ROk (B "OLD")); PDone (ROk (B "NEW"))].
Proof. vm_compute. split; reflexivity. Qed.

(* a render that arrives while the one load is compiling its third file passes the flag test, waits at
   the lookup (its step is refused, twice), and answers from the finished set; the load of ex_tree makes
   five FuncProvider calls *)
Example ex_render_during_load :
  let ops := ops_of [OLoad []; ORender (B "ab")] in
  let evs := [EStep 0; ECompile 0; ECompile 0; ECompile 0; EStep 1; EStep 1; ECompile 0; EStep 1;
              ECompile 0; ECompile 0; EStep 1] in
  load_calls false [] ex_tree = 5 /\
  prog (reach false ops ex_tree [EStep 0; ECompile 0; ECompile 0; ECompile 0]) = 3 /\
  results (reach false ops ex_tree [EStep 0; ECompile 0; ECompile 0; ECompile 0; EStep 1; EStep 1; ECompile 0; EStep 1]) 2
    = [PLocked; PAfterLoad] /\
  results (reach false ops ex_tree evs) 2 = [PDone RLoaded; PDone (ROk (B "AB"))] /\
  erase false ops (init ex_tree) evs = [EStep 0; EStep 1; EStep 1; EStep 1; EStep 0; EStep 1].
Proof. vm_compute. repeat split; reflexivity. Qed.

(* a load that fails at its second file: two FuncProvider calls, then the failure *)
Example ex_failing_load_calls :
  load_calls false [] (ex_bad_tree KBadJs) = 2 /\
  results (reach false (ops_of [OLoad []]) (ex_bad_tree KBadJs) [EStep 0; ECompile 0; ECompile 0; ECompile 0]) 1
    = [PDone RLoadPanic].
Proof. vm_compute. split; reflexivity. Qed.

Example ex_full_loads : full_loads (ops_of [ORender (B "a"); OLoad []; ORender (B "b")]).
Proof.
  intros i f. unfold ops_of.
  destruct i as [|[|[|[|i]]]]; simpl; intros H; try discriminate; inversion H; reflexivity.
Qed.

(* ================================================================ what is false of the faithful model *)

(* debug mode: Render("") is a full load; the second one is refused *)
Lemma debug_empty_name_refuted :
  exists ops t0 evs i n r,
    dom_fs t0 = true /\ good_under true [] t0 = true /\ no_edits evs /\
    ops i = ORender n /\ pcs (reach true ops t0 evs) i = PDone r /\ r <> spec_render true t0 n.
Proof.
  exists (ops_of [ORender []; ORender []]), ex_tree,
         [EStep 0; EStep 0; EStep 0; EStep 1; EStep 1; EStep 1], 1, [], RAgain.
  split; [vm_compute; reflexivity|]. split; [vm_compute; reflexivity|].
  split; [repeat constructor|]. split; [reflexivity|]. split; [vm_compute; reflexivity|].
  vm_compute. discriminate.
Qed.

(* the machine before repair dd313c0 (every load does the CAS): an explicit FILTERED load as the first load
   of a production engine marks it loaded with a partial set, and a template outside the filter stays
   "not found" - on the same schedule the repaired machine answers as the specification says *)
Lemma filtered_first_unrepaired_refuted :
  exists ops t0 evs i n r,
    dom_fs t0 = true /\ good_under false [] t0 = true /\ no_edits evs /\
    ops i = ORender n /\ pcs (reach_u false ops t0 evs) i = PDone r /\ r <> spec_render false t0 n /\
    pcs (reach false ops t0 evs) i = PDone (spec_render false t0 n).
Proof.
  exists (ops_of [OLoad (B "ab"); ORender (B "a")]), ex_tree,
         [EStep 0; EStep 0; EStep 1; EStep 1; EStep 1; EStep 1], 1, (B "a"), RNotFound.
  split; [vm_compute; reflexivity|]. split; [vm_compute; reflexivity|].
  split; [repeat constructor|]. split; [reflexivity|]. split; [vm_compute; reflexivity|].
  split; [vm_compute; discriminate|vm_compute; reflexivity].
Qed.

(* production mode with an explicit filtered load AFTER the load of all templates: the set in place is
   replaced under the filter (that is what the call is for), so "never replaced" needs full_loads *)
Lemma prod_once_filtered_refuted :
  exists ops t0 evs more m,
    tpls (reach false ops t0 evs) = Some m /\
    tpls (run false ops (reach false ops t0 evs) more) <> Some m /\
    results (run false ops (reach false ops t0 evs) more) 3
    = [PDone (ROk (B "OLD")); PDone RLoaded; PDone (ROk (B "NEW"))].
Proof.
  exists (ops_of [ORender (B "x"); OLoad (B "x"); ORender (B "x")]), (ex_bad_tree (KTpl (B "OLD"))),
         [EStep 0; EStep 0; EStep 0; EStep 0],
         [EFs (ex_bad_tree (KTpl (B "NEW"))); EStep 1; EStep 1; EStep 2; EStep 2],
         [(B "x", B "OLD"); (B "a", B "A")].
  split; [vm_compute; reflexivity|]. split; [vm_compute; discriminate|vm_compute; reflexivity].
Qed.

(* production mode, tree that does not compile: a render that passes the flag test while another
   call's load is in progress waits for it and then answers "not found" although the file exists *)
Lemma cold_start_bad_tree_refuted :
  exists ops t0 evs i n r,
    full_loads ops /\ dom_fs t0 = true /\ no_edits evs /\
    ops i = ORender n /\ pcs (reach false ops t0 evs) i = PDone r /\
    spec_render false t0 n = ROk (B "A") /\ r = RNotFound.
Proof.
  exists (ops_of [ORender (B "a"); ORender (B "a")]), (ex_bad_tree KBrokenJson),
         [EStep 0; EStep 0; EStep 1; EStep 0; EStep 1], 1, (B "a"), RNotFound.
  split.
  { intros i f. unfold ops_of. destruct i as [|[|[|i]]]; simpl; intros H; try discriminate; inversion H; reflexivity. }
  split; [vm_compute; reflexivity|]. split; [repeat constructor|]. split; [reflexivity|].
  split; [vm_compute; reflexivity|]. split; [vm_compute; reflexivity|reflexivity].
Qed.
