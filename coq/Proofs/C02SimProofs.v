(* C02 — program-level simulation for the control fragment without each: the tree-level lowering (Pug/Lower.v) of
   text, tags, buffered code, var / assignment / ++, if / else-if / else and while, executed by the executor model,
   prints what the independent pug semantics S prescribes, keeps the variables related, and raises the execution
   error exactly when S prescribes the while-bound error.  Expressions enter through three hypotheses (evaluation,
   printing, flag monotonicity) that Proofs/C01EvalProofs.v discharges for the scalar fragment. *)
From PV Require Import Base.Bytes Base.Escape Js.Ast Tmpl.Value Tmpl.IR Tmpl.Runtime Tmpl.Exec Pug.Ast Pug.Compile
  Pug.Lower Spec.Sem Proofs.ExecMono Proofs.C01Proofs Proofs.C02Proofs Proofs.C03Proofs.
Local Strategy opaque [eval_cmd truthy while_cap while_limit sem_expr].

(* ---- output -------------------------------------------------------------------------------------------- *)
Lemma concat_bytes_app a b : concat_bytes (a ++ b) = concat_bytes a ++ concat_bytes b.
Proof. induction a as [|x a IH]; simpl; [reflexivity|rewrite IH, app_assoc; reflexivity]. Qed.

Lemma output_emit s b : output (emit s b) = output s ++ b.
Proof. unfold output, emit; cbn [x_out rev]. rewrite concat_bytes_app. simpl. rewrite app_nil_r. reflexivity. Qed.
Lemma soutput_put s b : soutput (put s b) = soutput s ++ b.
Proof. unfold soutput, put; cbn [s_out rev]. rewrite concat_bytes_app. simpl. rewrite app_nil_r. reflexivity. Qed.

(* ---- composing executions (fuel monotonicity, Proofs/ExecMono.v) ---------------------------------------- *)
Lemma exec_app_ok defs dot t1 : forall f1 s s1 f2 t2 r2,
  exec_nodes defs f1 dot s t1 = Ok s1 -> exec_nodes defs f2 dot s1 t2 = r2 -> fin r2 ->
  exec_nodes defs (f1 + f2) dot s (t1 ++ t2) = r2.
Proof.
  induction t1 as [|n r IH]; intros f1 s s1 f2 t2 r2 H1 H2 Hf.
  - destruct f1; [discriminate|]. injection H1 as Hs. rewrite <- Hs in H2. cbn [app].
    rewrite <- H2. apply exec_nodes_mono; [lia|rewrite H2; exact Hf].
  - destruct f1 as [|f1]; [discriminate|]. rewrite nodes_cons in H1.
    destruct (exec_node defs f1 dot s n) as [sa| | |] eqn:E; cbn [bind] in H1; try discriminate.
    cbn [app plus]. rewrite nodes_cons.
    rewrite (exec_node_mono defs f1 (f1 + f2)); [|lia|rewrite E; apply fin_ok].
    rewrite E. cbn [bind]. exact (IH f1 sa s1 f2 t2 r2 H1 H2 Hf).
Qed.

Lemma exec_app_panic defs dot t1 : forall f1 s t2 k,
  exec_nodes defs f1 dot s t1 = Panic -> exec_nodes defs (f1 + k) dot s (t1 ++ t2) = Panic.
Proof.
  induction t1 as [|n r IH]; intros f1 s t2 k H1.
  - destruct f1; discriminate.
  - destruct f1 as [|f1]; [discriminate|]. rewrite nodes_cons in H1. cbn [app plus]. rewrite nodes_cons.
    destruct (exec_node defs f1 dot s n) as [sa| | |] eqn:E; cbn [bind] in H1; try discriminate.
    + rewrite (exec_node_mono defs f1 (f1 + k)); [|lia|rewrite E; apply fin_ok]. rewrite E. cbn [bind].
      exact (IH f1 sa t2 k H1).
    + rewrite (exec_node_mono defs f1 (f1 + k)); [|lia|rewrite E; apply fin_panic]. rewrite E. reflexivity.
Qed.

Lemma exec_single defs dot f s n r :
  exec_node defs f dot s n = r -> fin r -> exec_nodes defs (S (S f)) dot s [n] = r.
Proof.
  intros H Hf. rewrite nodes_cons.
  rewrite (exec_node_mono defs f (S f)); [|lia|rewrite H; exact Hf]. rewrite H.
  destruct r; reflexivity.
Qed.

Lemma flags_split {A} (l1 l2 x : list A) : l2 ++ l1 ++ x = x -> l1 = [] /\ l2 = [].
Proof.
  intros H. rewrite app_assoc in H. change x with ([] ++ x) in H at 2. apply app_inv_tail in H.
  apply app_eq_nil in H. tauto.
Qed.

(* ---- environments --------------------------------------------------------------------------------------- *)
Lemma env_get_set_same env x j : env_get (env_set env x j) x = j.
Proof. unfold env_get, env_set. rewrite lookup_insert_same. reflexivity. Qed.
Lemma env_get_set_other env x y j : x <> y -> env_get (env_set env x j) y = env_get env y.
Proof. intros H. unfold env_get, env_set. rewrite (lookup_insert_other x y j env H). reflexivity. Qed.

Section Sim.
  Variable funcs : list bytes.
  Variable goodb : jexpr -> bool.
  Variable names : list bytes.                   (* the variables the program may mention *)
  Variable globals : list (bytes * jv).
  (* how engine values stand for JavaScript values, and which JavaScript values the domain admits *)
  Variable vr : val -> jv -> Prop.
  Variable okj : jv -> Prop.
  Hypothesis vr_truthy : forall h g v j, vr v j -> truthy h v = Ok (fst (to_boolean g j)) /\ snd (to_boolean g j) = g.
  Hypothesis vr_bool : forall v b, vr v (JB b) -> v = VBool b \/ v = VGoBool b.
  Hypothesis vr_num : forall v z, vr v (JN z) -> v = VInt z \/ v = VNum z.
  Hypothesis vr_num_intro : forall z, vr (VNum z) (JN z).
  Hypothesis okj_num : forall z, in_range z = true -> okj (JN z).

  Definition env_vr (vs : vars) (env : list (bytes * jv)) : Prop :=
    forall x, In x names -> vr (var_val vs x) (env_get env x).
  Definition env_ok (env : list (bytes * jv)) : Prop := forall x, In x names -> okj (env_get env x).

  Record R (s : xstate) (g : sstate) : Prop := {
    R_live : live s;
    R_env : env_vr (f_vars (cur s)) (s_env g);
    R_rng : env_ok (s_env g);
    R_out : output s = soutput g;
  }.

  Lemma env_vr_set vs env x v j : env_vr vs env -> vr v j -> env_vr (var_set vs x v) (env_set env x j).
  Proof.
    intros He Hr y Hy. destruct (list_eq_dec ascii_dec x y) as [->|Hn].
    - rewrite var_val_set_same, env_get_set_same. exact Hr.
    - rewrite (var_val_set_other _ _ _ _ Hn), (env_get_set_other _ _ _ _ Hn). exact (He y Hy).
  Qed.
  Lemma env_ok_set env x j : env_ok env -> okj j -> env_ok (env_set env x j).
  Proof.
    intros He Hj y Hy. destruct (list_eq_dec ascii_dec x y) as [->|Hn].
    - rewrite env_get_set_same. exact Hj.
    - rewrite (env_get_set_other _ _ _ _ Hn). exact (He y Hy).
  Qed.

  Lemma cur_set_vars s vs : f_vars (cur (set_vars s vs)) = vs.
  Proof. unfold set_vars. rewrite cur_set_cur. reflexivity. Qed.

  Lemma R_after_test s g p v h1 : fst p = [] -> R s g -> R (after_test s p v h1) g.
  Proof.
    intros Hp [Hl He Hk Ho]. unfold after_test. rewrite Hp. cbn [set_decl fold_left]. split.
    - apply set_vars_live.
    - rewrite cur_set_vars. exact He.
    - exact Hk.
    - exact Ho.
  Qed.

  Lemma R_env_out s g g' : R s g -> s_env g' = s_env g -> s_out g' = s_out g -> R s g'.
  Proof.
    intros [Hl He Hk Ho] E1 E2. split; [exact Hl|rewrite E1; exact He|rewrite E1; exact Hk|unfold soutput; rewrite E2; exact Ho].
  Qed.

  Lemma R_emit_put s g b : R s g -> R (emit s b) (put g b).
  Proof.
    intros [Hl He Hk Ho]. split; [exact Hl|exact He|exact Hk|rewrite output_emit, soutput_put, Ho; reflexivity].
  Qed.

  Lemma R_assign s g x v j h1 :
    R s g -> vr v j -> okj j ->
    R (set_vars (set_heap s h1) (set_decl (f_vars (cur (set_heap s h1))) [x] v)) (with_env g (env_set (s_env g) x j)).
  Proof.
    intros [Hl He Hk Ho] Hr Hj. split.
    - apply set_vars_live.
    - rewrite cur_set_vars. cbn [set_decl fold_left with_env s_env]. apply env_vr_set; assumption.
    - cbn [with_env s_env]. apply env_ok_set; assumption.
    - exact Ho.
  Qed.

  (* ---- unfolding equations of S (Spec/Sem.v), one per construct of the fragment -------------------------- *)
  Definition sem_while (f : nat) (blk : option closure) (test : jexpr) (body : list pnode) :=
    fix loop (budget : nat) (fuel2 : nat) (s : sstate) (m : list (bytes * mixin)) {struct fuel2}
      : sres (sstate * list (bytes * mixin)) :=
      match fuel2 with
      | O => SFuel
      | S f2 =>
        sdo a <- sem_expr efuel s test; let '(v, s1) := a in
        match v with
        | JB false => SOk (s1, m)
        | JB true =>
          match budget with
          | O =>
            sdo r <- sem_nodes globals f m blk s1 body; let '(s2, _) := r in
            sdo t <- sem_expr efuel s2 test; SErr (s_flags (snd t))
          | S b =>
            sdo r <- sem_nodes globals f m blk s1 body; let '(s2, m2) := r in loop b f2 s2 m2
          end
        | _ => SOff
        end
      end.

  Lemma sem_nodes_nil f m blk s : sem_nodes globals (S f) m blk s [] = SOk (s, m).
  Proof. reflexivity. Qed.
  Lemma sem_nodes_cons f m blk s n r :
    sem_nodes globals (S f) m blk s (n :: r) =
    (sdo a <- sem_node globals f m blk s n; let '(s1, m1) := a in sem_nodes globals f m1 blk s1 r).
  Proof. reflexivity. Qed.
  Lemma sem_text f m blk s t : sem_node globals (S f) m blk s (PText t) = SOk (put s t, m).
  Proof. reflexivity. Qed.
  Lemma sem_comment f m blk s : sem_node globals (S f) m blk s PComment = SOk (s, m).
  Proof. reflexivity. Qed.
  Lemma sem_block f m blk s l : sem_node globals (S f) m blk s (PBlock l) = sem_nodes globals f m blk s l.
  Proof. reflexivity. Qed.
  Lemma sem_cond f m blk s test cons_ alt :
    sem_node globals (S f) m blk s (PCond test cons_ alt) =
    (sdo a <- sem_expr efuel s test; let '(v, s1) := a in
     let '(b, s2) := to_boolean s1 v in
     if b then sem_nodes globals f m blk s2 cons_
     else match alt with Some a' => sem_node globals f m blk s2 a' | None => SOk (s2, m) end).
  Proof. reflexivity. Qed.
  Lemma sem_while_eq f m blk s test body :
    sem_node globals (S f) m blk s (PWhile test body) = sem_while f blk test body while_limit f s m.
  Proof. reflexivity. Qed.
  Lemma sem_tag f m blk s name inl body :
    sem_node globals (S f) m blk s (PTag name inl [] [] body) =
    (let s2 := put s (B "<" ++ name ++ [] ++ B ">") in
     if mem name void_tags then SOk (s2, m)
     else sdo b <- sem_nodes globals f m blk s2 body; let '(s3, m3) := b in SOk (put s3 (B "</" ++ name ++ B ">"), m3)).
  Proof. reflexivity. Qed.
  Lemma sem_code_print f m blk s e esc inl :
    printable e = true ->
    sem_node globals (S (S f)) m blk s (PCode [SExpr e] esc inl) =
    (sdo s1 <- (sdo a <- sem_expr efuel s e; let '(v, s1) := a in
                sdo p <- print_string s1 v; let '(t, s2) := p in SOk (put s2 (if esc then escape t else t)));
     SOk (s1, m)).
  Proof. intros Hp. destruct e; try discriminate Hp; reflexivity. Qed.
  Lemma sem_code_assign f m blk s x r inl :
    sem_node globals (S (S f)) m blk s (PCode [SExpr (JAssign None (JId x) r)] false inl) =
    (sdo s1 <- (sdo a <- sem_expr efuel s r; let '(v, s1) := a in SOk (with_env s1 (env_set (s_env s1) x v)));
     SOk (s1, m)).
  Proof. reflexivity. Qed.
  Lemma sem_code_inc f m blk s x post inl :
    sem_node globals (S (S f)) m blk s (PCode [SExpr (JUn UInc post (JId x))] false inl) =
    (sdo s1 <- (match env_get (s_env s) x with
                | JN z => sdo v <- num (z + 1); SOk (with_env s (env_set (s_env s) x v))
                | _ => SOff
                end);
     SOk (s1, m)).
  Proof. reflexivity. Qed.
  Lemma sem_code_var f m blk s x i inl :
    sem_node globals (S (S f)) m blk s (PCode [SVar [JVar x (Some i)]] false inl) =
    (sdo s1 <- (sdo a <- sem_expr efuel s i; let '(v, s1) := a in SOk (with_env s1 (env_set (s_env s1) x v)));
     SOk (s1, m)).
  Proof. reflexivity. Qed.

  (* ---- the executor on the actions of the fragment ----------------------------------------------------- *)
  Local Strategy transparent [eval_cmd].
  Lemma inc_eval E h x z v :
    var_val (e_vars E) x = v -> v = VInt z \/ v = VNum z -> in_range (z + 1) = true ->
    eval_pipeline E h ([x], [[AIdent (B "__op__inc"); AVar x []]]) = Ok (VNum (z + 1), h).
  Proof.
    intros Ev Hr Hz. apply in_range_num_ok in Hz.
    unfold eval_pipeline, expr_fuel. cbn [snd].
    change 400 with (S (S (S (S (S 395))))).
    cbn [eval_cmds eval_cmd call_ident eval_args eval_operand bind beqb]. rewrite Ev.
    destruct Hr as [Hv|Hv]; rewrite Hv; cbn; unfold rt_incdec, kind_of, mknum; cbn; rewrite Hz; reflexivity.
  Qed.

  Local Strategy opaque [eval_cmd eval_cmds eval_pipeline].
  Lemma decl_action defs f dot s x a v :
    eval_pipeline (env_of s dot) (x_heap s) ([x], [[a]]) = Ok (v, x_heap s) ->
    exec_node defs (S f) dot s (NAction ([x], [[a]])) =
    Ok (set_vars (set_heap s (x_heap s)) (set_decl (f_vars (cur (set_heap s (x_heap s)))) [x] v)).
  Proof. intros He. cbn [exec_node]. rewrite He. reflexivity. Qed.

  Lemma print_string_flags g v t g2 : print_string g v = SOk (t, g2) -> exists l, s_flags g2 = l ++ s_flags g.
  Proof.
    unfold print_string, tostr. destruct v; intros H;
      try (inversion H; subst; exists []; reflexivity);
      destruct (to_string _ _ _); inversion H; subst; cbn [is_ref];
      first [exists []; reflexivity | exists [fl_print_ref]; reflexivity].
  Qed.

  Lemma print_string_noerr g v fl : print_string g v <> SErr fl.
  Proof. unfold print_string, tostr. destruct v; try discriminate; destruct (to_string _ _ _); discriminate. Qed.

  (* ---- what is assumed about expressions (discharged for the scalar fragment in Proofs/C01EvalProofs.v) -- *)
  Definition lx := lexpr funcs goodb.
  Hypothesis H_eval : forall e, goodb e = true ->
    forall E h g j g', env_vr (e_vars E) (s_env g) -> env_ok (s_env g) ->
      sem_expr efuel g e = SOk (j, g') -> s_flags g' = s_flags g ->
      exists a v, lx e = Some a /\ (forall d, eval_pipeline E h (d, [[a]]) = Ok (v, h)) /\ vr v j /\ okj j /\
                  s_env g' = s_env g /\ s_out g' = s_out g.
  Hypothesis H_mono : forall e, goodb e = true ->
    forall g j g', sem_expr efuel g e = SOk (j, g') -> exists l, s_flags g' = l ++ s_flags g.
  Hypothesis H_noerr : forall e, goodb e = true -> forall g fl, sem_expr efuel g e <> SErr fl.
  Hypothesis H_print : forall e esc, goodb e = true -> printable e = true ->
    forall defs f dot s g g1 j t g2, R s g ->
      sem_expr efuel g e = SOk (j, g1) -> print_string g1 j = SOk (t, g2) -> s_flags g2 = s_flags g ->
      exists a, lx e = Some a /\
                exec_node defs (S f) dot s (NAction ([], [a] :: esc_cmds (negb esc))) = Ok (emit s (if esc then escape t else t)) /\
                s_env g2 = s_env g /\ s_out g2 = s_out g.

  Let lw := lower funcs goodb.

  (* ---- inversion of the lowering ------------------------------------------------------------------------- *)
  Inductive code_shape (stmts : list jstmt) (esc : bool) (t : list tnode) : Prop :=
  | CS_assign x r a : stmts = [SExpr (JAssign None (JId x) r)] -> esc = false -> lx r = Some a ->
                      t = [NAction ([x], [[a]])] -> code_shape stmts esc t
  | CS_inc x post : stmts = [SExpr (JUn UInc post (JId x))] -> esc = false ->
                    t = [NAction ([x], [[AIdent (B "__op__inc"); AVar x []]])] -> code_shape stmts esc t
  | CS_var x i a : stmts = [SVar [JVar x (Some i)]] -> esc = false -> lx i = Some a ->
                   t = [NAction ([x], [[a]])] -> code_shape stmts esc t
  | CS_print e a : stmts = [SExpr e] -> printable e = true -> lx e = Some a ->
                   t = [NAction ([], [a] :: esc_cmds (negb esc))] -> code_shape stmts esc t.

  Lemma lower_code_inv fl stmts esc inl t :
    lw (S fl) (PCode stmts esc inl) = Some t -> code_shape stmts esc t.
  Proof.
    unfold lw. cbn [lower]. fold lx. intros H.
    destruct stmts as [|s1 [|s2 rest]]; try discriminate H.
    destruct s1 as [e|ds|c t0 e0|l|]; try discriminate H.
    - (* an expression statement *)
      destruct (printable e) eqn:Hp.
      + (* the generic buffered form *)
        assert (G : (if printable e then match lx e with Some a => Some [NAction ([], [a] :: esc_cmds (negb esc))] | None => None end
                     else None) = Some t).
        { destruct e; try discriminate Hp; exact H. }
        rewrite Hp in G. destruct (lx e) as [a|] eqn:L; [|discriminate G]. injection G as <-.
        eapply CS_print; [reflexivity|exact Hp|exact L|reflexivity].
      + destruct e; try discriminate Hp; try (destruct esc; discriminate H).
        * (* unary: only ++ on an identifier *)
          destruct op; try (destruct esc; discriminate H).
          destruct e; try (destruct esc; discriminate H).
          destruct esc; [discriminate H|].
          destruct (negb (is_ident x) || known funcs x); [discriminate H|]. injection H as <-.
          eapply CS_inc; reflexivity.
        * (* assignment: only a plain one to an identifier *)
          destruct op; try (destruct esc; discriminate H).
          destruct e1; try (destruct esc; discriminate H).
          destruct esc; [discriminate H|].
          destruct (negb (is_ident x) || known funcs x); [discriminate H|].
          destruct (lx e2) as [a|] eqn:L; [|discriminate H]. injection H as <-.
          eapply CS_assign; [reflexivity|reflexivity|exact L|reflexivity].
    - (* var *)
      destruct ds as [|d1 [|d2 dr]]; try (destruct esc; discriminate H); try (destruct d1; try discriminate H; destruct init; discriminate H).
      destruct d1; try (destruct esc; discriminate H).
      destruct init as [i|]; try (destruct esc; discriminate H).
      destruct esc; [discriminate H|].
      destruct (negb (is_ident x)); [discriminate H|].
      destruct (lx i) as [a|] eqn:L; [|discriminate H]. injection H as <-.
      eapply CS_var; [reflexivity|reflexivity|exact L|reflexivity].
    - (* several statements: not in the fragment *)
      exfalso.
      repeat match type of H with (match ?x with _ => _ end) = Some _ => destruct x; try discriminate H end.
  Qed.

  Lemma lower_list_cons f n r t :
    lower_list f (n :: r) = Some t -> exists a b, f n = Some a /\ lower_list f r = Some b /\ t = a ++ b.
  Proof.
    cbn [lower_list]. destruct (f n) as [a|]; [|discriminate]. destruct (lower_list f r) as [b|]; [|discriminate].
    intros H; inversion H; subst. eauto.
  Qed.

  (* ---- S only ever adds flags (on the fragment) --------------------------------------------------------- *)
  Definition grows (g : sstate) (r : sres (sstate * list (bytes * mixin))) : Prop :=
    match r with
    | SOk (g', _) => exists l, s_flags g' = l ++ s_flags g
    | SErr fl => exists l, fl = l ++ s_flags g
    | _ => True
    end.

  Lemma grows_refl g m : grows g (SOk (g, m)).
  Proof. exists []. reflexivity. Qed.
  Lemma grows_trans g g1 r : (exists l, s_flags g1 = l ++ s_flags g) -> grows g1 r -> grows g r.
  Proof.
    intros [l1 H1] H. destruct r as [[g' m']|fl| |]; cbn in *; try exact I;
      destruct H as [l2 H2]; exists (l2 ++ l1); rewrite H2, H1, app_assoc; reflexivity.
  Qed.
  Lemma grows_bind g r k :
    grows g r -> (forall g1 m1, r = SOk (g1, m1) -> grows g1 (k (g1, m1))) -> grows g (sbind r k).
  Proof.
    intros H1 H2. destruct r as [[g1 m1]|fl| |]; cbn [sbind]; try exact I.
    - exact (grows_trans g g1 _ H1 (H2 g1 m1 eq_refl)).
    - exact H1.
  Qed.

  Lemma good_lx e a : lx e = Some a -> goodb e = true.
  Proof. unfold lx, lexpr. destruct (goodb e); [reflexivity|discriminate]. Qed.

  Lemma expr_grows g e a : lx e = Some a ->
    match sem_expr efuel g e with
    | SOk (_, g') => exists l, s_flags g' = l ++ s_flags g
    | SErr _ => False
    | _ => True
    end.
  Proof.
    intros Hl. destruct (sem_expr efuel g e) as [[j g']|fl| |] eqn:E; try exact I.
    - exact (H_mono e (good_lx e a Hl) g j g' E).
    - exact (H_noerr e (good_lx e a Hl) g fl E).
  Qed.

  Lemma to_boolean_flags g v b g2 : to_boolean g v = (b, g2) -> exists l, s_flags g2 = l ++ s_flags g.
  Proof.
    unfold to_boolean. destruct v; intros H; try (inversion H; subst; exists []; reflexivity).
    - destruct (jget (s_heap g) l) as [[[|x r]|]|]; inversion H; subst;
        first [exists []; reflexivity | exists [fl_empty_truthy]; reflexivity].
    - destruct (jget (s_heap g) l) as [[|[|x r]]|]; inversion H; subst;
        first [exists []; reflexivity | exists [fl_empty_truthy]; reflexivity].
  Qed.

  Definition G_nodes (fs : nat) : Prop := forall ns m blk g fl t,
    lower_list (lw fl) ns = Some t -> grows g (sem_nodes globals fs m blk g ns).
  Definition G_node (fs : nat) : Prop := forall n m blk g fl t,
    lw fl n = Some t -> grows g (sem_node globals fs m blk g n).

  Lemma while_grows f blk test body a fl tb :
    G_nodes f -> lx test = Some a -> lower_list (lw fl) body = Some tb ->
    forall fuel2 budget g m, grows g (sem_while f blk test body budget fuel2 g m).
  Proof.
    intros IH Ht Hb. induction fuel2 as [|f2 IHf]; intros budget g m; [exact I|].
    cbn [sem_while]. pose proof (expr_grows g test a Ht) as Hg.
    destruct (sem_expr efuel g test) as [[v g1]|fl0| |]; cbn [sbind]; try exact I; try contradiction.
    destruct v as [| |[|]| | | |]; try exact I.
    - destruct budget as [|b].
      + apply (grows_trans g g1 _ Hg). apply grows_bind; [exact (IH body m blk g1 fl tb Hb)|].
        intros g2 m2 E2. pose proof (expr_grows g2 test a Ht) as Hg2.
        destruct (sem_expr efuel g2 test) as [[v2 g3]|fl0| |]; cbn [sbind]; try exact I; try contradiction.
        cbn [snd]. exact Hg2.
      + apply (grows_trans g g1 _ Hg). apply grows_bind; [exact (IH body m blk g1 fl tb Hb)|].
        intros g2 m2 E2. apply IHf.
    - cbn. exact Hg.
  Qed.

  Lemma code_grows f0 m blk g stmts esc inl t :
    code_shape stmts esc t -> grows g (sem_node globals (S f0) m blk g (PCode stmts esc inl)).
  Proof.
    intros Hs. destruct f0 as [|f]; [destruct Hs; subst; exact I|]. revert Hs.
    intros [x r a -> -> La _|x post -> -> _|x i a -> -> La _|e a -> Hp La _].
    - rewrite sem_code_assign. pose proof (expr_grows g r a La) as Hg.
      destruct (sem_expr efuel g r) as [[v g1]|fl0| |]; cbn [sbind]; try exact I; try contradiction. exact Hg.
    - rewrite sem_code_inc. destruct (env_get (s_env g) x); cbn [sbind]; try exact I.
      unfold num. destruct (in_range (z + 1)); cbn [sbind]; [exists []; reflexivity|exact I].
    - rewrite sem_code_var. pose proof (expr_grows g i a La) as Hg.
      destruct (sem_expr efuel g i) as [[v g1]|fl0| |]; cbn [sbind]; try exact I; try contradiction. exact Hg.
    - rewrite (sem_code_print f m blk g e esc inl Hp). pose proof (expr_grows g e a La) as Hg.
      destruct (sem_expr efuel g e) as [[v g1]|fl0| |]; cbn [sbind]; try exact I; try contradiction.
      destruct (print_string g1 v) as [[tx g2]|fl1| |] eqn:Ep; cbn [sbind]; try exact I;
        try (exfalso; exact (print_string_noerr g1 v fl1 Ep)).
      destruct (print_string_flags g1 v tx g2 Ep) as [l2 H2]. destruct Hg as [l1 H1].
      exists (l2 ++ l1). cbn. rewrite H2, H1, app_assoc. reflexivity.
  Qed.

  Lemma grows_all fs : G_nodes fs /\ G_node fs.
  Proof.
    induction fs as [|fs [IHns IHn]]; [split; intro; intros; exact I|]. split.
    - intros ns m blk g fl t Hl. destruct ns as [|n r]; [apply grows_refl|].
      rewrite sem_nodes_cons. destruct (lower_list_cons _ _ _ _ Hl) as [ta [tb [Ha [Hb _]]]].
      apply grows_bind; [exact (IHn n m blk g fl ta Ha)|].
      intros g1 m1 _. exact (IHns r m1 blk g1 fl tb Hb).
    - intros n m blk g fl t Hl. destruct fl as [|fl]; [discriminate|].
      destruct n as [name inl attrs ablocks body|txt|stmts esc inl|test cons_ alt|e whens|v k obj body|test body
                     |name params body|name args attrs body| |v|l|]; try discriminate Hl.
      + (* tag *)
        unfold lw in Hl. cbn [lower] in Hl.
        destruct attrs; [|discriminate]. destruct ablocks; [|discriminate].
        destruct (has_delim name); [discriminate|].
        destruct (lower_list (lower funcs goodb fl) body) as [b|] eqn:Eb; [|discriminate].
        rewrite sem_tag. cbv zeta. destruct (mem name void_tags); [exists []; reflexivity|].
        apply grows_bind.
        * apply (grows_trans g (put g (B "<" ++ name ++ [] ++ B ">"))); [exists []; reflexivity|].
          exact (IHns body m blk _ fl b Eb).
        * intros g3 m3 _. exists []. reflexivity.
      + (* text *) rewrite sem_text. exists []. reflexivity.
      + (* code *)
        apply (code_grows fs m blk g stmts esc inl t). exact (lower_code_inv fl stmts esc inl t Hl).
      + (* if *)
        unfold lw in Hl. cbn [lower] in Hl. fold lx in Hl.
        destruct (lx test) as [ta|] eqn:Lt; [|discriminate].
        destruct (lower_list (lower funcs goodb fl) cons_) as [th|] eqn:Ec; [|discriminate].
        rewrite sem_cond. pose proof (expr_grows g test ta Lt) as Hg.
        destruct (sem_expr efuel g test) as [[v g1]|fl0| |]; cbn [sbind]; try exact I; try contradiction.
        destruct (to_boolean g1 v) as [b g2] eqn:Eb. pose proof (to_boolean_flags g1 v b g2 Eb) as Hg2.
        apply (grows_trans g g1 _ Hg). apply (grows_trans g1 g2 _ Hg2).
        destruct b; [exact (IHns cons_ m blk g2 fl th Ec)|].
        destruct alt as [a'|]; [|apply grows_refl].
        destruct (lower funcs goodb fl a') as [el|] eqn:Ea; [|discriminate].
        exact (IHn a' m blk g2 fl el Ea).
      + (* while *)
        unfold lw in Hl. cbn [lower] in Hl. fold lx in Hl.
        destruct (lx test) as [ta|] eqn:Lt; [|discriminate].
        destruct (lower_list (lower funcs goodb fl) body) as [tb|] eqn:Ebd; [|discriminate].
        rewrite sem_while_eq. exact (while_grows fs blk test body ta fl tb IHns Lt Ebd fs while_limit g m).
      + rewrite sem_block. unfold lw in Hl. cbn [lower] in Hl. exact (IHns l m blk g fl t Hl).
      + rewrite sem_comment. apply grows_refl.
  Qed.
End Sim.
