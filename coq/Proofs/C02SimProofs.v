(* C02 — program-level simulation for the control fragment without each: the tree-level lowering (Pug/Lower.v) of
   text, tags, buffered code, var / assignment / ++, if / else-if / else and while, executed by the executor model,
   prints what the independent pug semantics S prescribes, keeps the variables related, and raises the execution
   error exactly when S prescribes the while-bound error.  Expressions enter through three hypotheses (evaluation,
   printing, flag monotonicity) that Proofs/C01EvalProofs.v discharges for the scalar fragment. *)
From PV Require Import Base.Bytes Base.Escape Js.Ast Tmpl.Value Tmpl.IR Tmpl.Runtime Tmpl.Exec Pug.Ast Pug.Compile
  Pug.Lower Spec.Sem Proofs.ExecMono Proofs.C01Proofs Proofs.C02Proofs Proofs.C03Proofs.
Lemma cap_is_limit : while_cap = while_limit.
Proof. reflexivity. Qed.
Local Strategy opaque [eval_cmd truthy while_cap while_limit sem_expr].

(* ---- output -------------------------------------------------------------------------------------------- *)
Lemma concat_bytes_app a b : concat_bytes (a ++ b) = concat_bytes a ++ concat_bytes b.
Proof. induction a as [|x a IH]; simpl; [reflexivity|rewrite IH, app_assoc; reflexivity]. Qed.

Lemma output_emit s b : output (emit s b) = output s ++ b.
Proof. unfold output, emit; cbn [x_out rev]. rewrite concat_bytes_app. simpl. rewrite app_nil_r. reflexivity. Qed.
Lemma soutput_put s b : soutput (put s b) = soutput s ++ b.
Proof. unfold soutput, put; cbn [s_out rev]. rewrite concat_bytes_app. simpl. rewrite app_nil_r. reflexivity. Qed.

(* ---- composing executions (fuel monotonicity, Proofs/ExecMono.v) ---------------------------------------- *)
Lemma exec_app_ok defs dot t1 : forall f1 s s1 f2 t2 r2,
  exec_nodes defs f1 dot s t1 = Ok s1 -> exec_nodes defs f2 dot s1 t2 = r2 -> fin r2 ->
  exec_nodes defs (f1 + f2) dot s (t1 ++ t2) = r2.
Proof.
  induction t1 as [|n r IH]; intros f1 s s1 f2 t2 r2 H1 H2 Hf.
  - destruct f1; [discriminate|]. injection H1 as Hs. rewrite <- Hs in H2. cbn [app].
    rewrite <- H2. apply exec_nodes_mono; [lia|rewrite H2; exact Hf].
  - destruct f1 as [|f1]; [discriminate|]. rewrite nodes_cons in H1.
    destruct (exec_node defs f1 dot s n) as [sa| | |] eqn:E; cbn [bind] in H1; try discriminate.
    cbn [app plus]. rewrite nodes_cons.
    rewrite (exec_node_mono defs f1 (f1 + f2)); [|lia|rewrite E; apply fin_ok].
    rewrite E. cbn [bind]. exact (IH f1 sa s1 f2 t2 r2 H1 H2 Hf).
Qed.

Lemma exec_app_panic defs dot t1 : forall f1 s t2 k,
  exec_nodes defs f1 dot s t1 = Panic -> exec_nodes defs (f1 + k) dot s (t1 ++ t2) = Panic.
Proof.
  induction t1 as [|n r IH]; intros f1 s t2 k H1.
  - destruct f1; discriminate.
  - destruct f1 as [|f1]; [discriminate|]. rewrite nodes_cons in H1. cbn [app plus]. rewrite nodes_cons.
    destruct (exec_node defs f1 dot s n) as [sa| | |] eqn:E; cbn [bind] in H1; try discriminate.
    + rewrite (exec_node_mono defs f1 (f1 + k)); [|lia|rewrite E; apply fin_ok]. rewrite E. cbn [bind].
      exact (IH f1 sa t2 k H1).
    + rewrite (exec_node_mono defs f1 (f1 + k)); [|lia|rewrite E; apply fin_panic]. rewrite E. reflexivity.
Qed.

Lemma exec_single defs dot f s n r :
  exec_node defs f dot s n = r -> fin r -> exec_nodes defs (S (S f)) dot s [n] = r.
Proof.
  intros H Hf. rewrite nodes_cons.
  rewrite (exec_node_mono defs f (S f)); [|lia|rewrite H; exact Hf]. rewrite H.
  destruct r; reflexivity.
Qed.

Lemma flags_split {A} (l1 l2 x : list A) : l2 ++ l1 ++ x = x -> l1 = [] /\ l2 = [].
Proof.
  intros H. rewrite app_assoc in H. change x with ([] ++ x) in H at 2. apply app_inv_tail in H.
  apply app_eq_nil in H. tauto.
Qed.

(* ---- environments --------------------------------------------------------------------------------------- *)
Lemma env_get_set_same env x j : env_get (env_set env x j) x = j.
Proof. unfold env_get, env_set. rewrite lookup_insert_same. reflexivity. Qed.
Lemma env_get_set_other env x y j : x <> y -> env_get (env_set env x j) y = env_get env y.
Proof. intros H. unfold env_get, env_set. rewrite (lookup_insert_other x y j env H). reflexivity. Qed.

Section Sim.
  Variable funcs : list bytes.
  Variable goodb : jexpr -> bool.
  Variable names : list bytes.                   (* the variables the program may mention *)
  Variable globals : list (bytes * jv).
  (* how engine values stand for JavaScript values, and which JavaScript values the domain admits *)
  Variable vr : val -> jv -> Prop.
  Variable okj : jv -> Prop.
  Hypothesis vr_truthy : forall h g v j, vr v j -> truthy h v = Ok (fst (to_boolean g j)) /\ snd (to_boolean g j) = g.
  Hypothesis vr_bool : forall v b, vr v (JB b) -> v = VBool b \/ v = VGoBool b.
  Hypothesis vr_num : forall v z, vr v (JN z) -> v = VInt z \/ v = VNum z.
  Hypothesis vr_num_intro : forall z, vr (VNum z) (JN z).
  Hypothesis okj_num : forall z, in_range z = true -> okj (JN z).

  Definition env_vr (vs : vars) (env : list (bytes * jv)) : Prop :=
    forall x, In x names -> vr (var_val vs x) (env_get env x).
  Definition env_ok (env : list (bytes * jv)) : Prop := forall x, In x names -> okj (env_get env x).

  Record R (s : xstate) (g : sstate) : Prop := {
    R_live : live s;
    R_env : env_vr (f_vars (cur s)) (s_env g);
    R_rng : env_ok (s_env g);
    R_out : output s = soutput g;
  }.

  Lemma env_vr_set vs env x v j : env_vr vs env -> vr v j -> env_vr (var_set vs x v) (env_set env x j).
  Proof.
    intros He Hr y Hy. destruct (list_eq_dec ascii_dec x y) as [->|Hn].
    - rewrite var_val_set_same, env_get_set_same. exact Hr.
    - rewrite (var_val_set_other _ _ _ _ Hn), (env_get_set_other _ _ _ _ Hn). exact (He y Hy).
  Qed.
  Lemma env_ok_set env x j : env_ok env -> okj j -> env_ok (env_set env x j).
  Proof.
    intros He Hj y Hy. destruct (list_eq_dec ascii_dec x y) as [->|Hn].
    - rewrite env_get_set_same. exact Hj.
    - rewrite (env_get_set_other _ _ _ _ Hn). exact (He y Hy).
  Qed.

  Lemma cur_set_vars s vs : f_vars (cur (set_vars s vs)) = vs.
  Proof. unfold set_vars. rewrite cur_set_cur. reflexivity. Qed.

  Lemma R_after_test s g p v h1 : fst p = [] -> R s g -> R (after_test s p v h1) g.
  Proof.
    intros Hp [Hl He Hk Ho]. unfold after_test. rewrite Hp. cbn [set_decl fold_left]. split.
    - apply set_vars_live.
    - rewrite cur_set_vars. exact He.
    - exact Hk.
    - exact Ho.
  Qed.

  Lemma R_env_out s g g' : R s g -> s_env g' = s_env g -> s_out g' = s_out g -> R s g'.
  Proof.
    intros [Hl He Hk Ho] E1 E2. split; [exact Hl|rewrite E1; exact He|rewrite E1; exact Hk|unfold soutput; rewrite E2; exact Ho].
  Qed.

  Lemma R_emit_put s g b : R s g -> R (emit s b) (put g b).
  Proof.
    intros [Hl He Hk Ho]. split; [exact Hl|exact He|exact Hk|rewrite output_emit, soutput_put, Ho; reflexivity].
  Qed.

  Lemma R_assign s g x v j h1 :
    R s g -> vr v j -> okj j ->
    R (set_vars (set_heap s h1) (set_decl (f_vars (cur (set_heap s h1))) [x] v)) (with_env g (env_set (s_env g) x j)).
  Proof.
    intros [Hl He Hk Ho] Hr Hj. split.
    - apply set_vars_live.
    - rewrite cur_set_vars. cbn [set_decl fold_left with_env s_env]. apply env_vr_set; assumption.
    - cbn [with_env s_env]. apply env_ok_set; assumption.
    - exact Ho.
  Qed.

  (* ---- unfolding equations of S (Spec/Sem.v), one per construct of the fragment -------------------------- *)
  Definition sem_while (f : nat) (blk : option closure) (test : jexpr) (body : list pnode) :=
    fix loop (budget : nat) (fuel2 : nat) (s : sstate) (m : list (bytes * mixin)) {struct fuel2}
      : sres (sstate * list (bytes * mixin)) :=
      match fuel2 with
      | O => SFuel
      | S f2 =>
        sdo a <- sem_expr efuel s test; let '(v, s1) := a in
        match v with
        | JB false => SOk (s1, m)
        | JB true =>
          match budget with
          | O =>
            sdo r <- sem_nodes globals f m blk s1 body; let '(s2, _) := r in
            sdo t <- sem_expr efuel s2 test; SErr (s_flags (snd t))
          | S b =>
            sdo r <- sem_nodes globals f m blk s1 body; let '(s2, m2) := r in loop b f2 s2 m2
          end
        | _ => SOff
        end
      end.

  Lemma sem_nodes_nil f m blk s : sem_nodes globals (S f) m blk s [] = SOk (s, m).
  Proof. reflexivity. Qed.
  Lemma sem_nodes_cons f m blk s n r :
    sem_nodes globals (S f) m blk s (n :: r) =
    (sdo a <- sem_node globals f m blk s n; let '(s1, m1) := a in sem_nodes globals f m1 blk s1 r).
  Proof. reflexivity. Qed.
  Lemma sem_text f m blk s t : sem_node globals (S f) m blk s (PText t) = SOk (put s t, m).
  Proof. reflexivity. Qed.
  Lemma sem_comment f m blk s : sem_node globals (S f) m blk s PComment = SOk (s, m).
  Proof. reflexivity. Qed.
  Lemma sem_block f m blk s l : sem_node globals (S f) m blk s (PBlock l) = sem_nodes globals f m blk s l.
  Proof. reflexivity. Qed.
  Lemma sem_cond f m blk s test cons_ alt :
    sem_node globals (S f) m blk s (PCond test cons_ alt) =
    (sdo a <- sem_expr efuel s test; let '(v, s1) := a in
     let '(b, s2) := to_boolean s1 v in
     if b then sem_nodes globals f m blk s2 cons_
     else match alt with Some a' => sem_node globals f m blk s2 a' | None => SOk (s2, m) end).
  Proof. reflexivity. Qed.
  Lemma sem_while_eq f m blk s test body :
    sem_node globals (S f) m blk s (PWhile test body) = sem_while f blk test body while_limit f s m.
  Proof. reflexivity. Qed.
  Lemma sem_tag f m blk s name inl body :
    sem_node globals (S f) m blk s (PTag name inl [] [] body) =
    (let s2 := put s (B "<" ++ name ++ [] ++ B ">") in
     if mem name void_tags then SOk (s2, m)
     else sdo b <- sem_nodes globals f m blk s2 body; let '(s3, m3) := b in SOk (put s3 (B "</" ++ name ++ B ">"), m3)).
  Proof. reflexivity. Qed.
  Lemma sem_code_print f m blk s e esc inl :
    printable e = true ->
    sem_node globals (S (S f)) m blk s (PCode [SExpr e] esc inl) =
    (sdo s1 <- (sdo a <- sem_expr efuel s e; let '(v, s1) := a in
                sdo p <- print_string s1 v; let '(t, s2) := p in SOk (put s2 (if esc then escape t else t)));
     SOk (s1, m)).
  Proof. intros Hp. destruct e; try discriminate Hp; reflexivity. Qed.
  Lemma sem_code_assign f m blk s x r inl :
    sem_node globals (S (S f)) m blk s (PCode [SExpr (JAssign None (JId x) r)] false inl) =
    (sdo s1 <- (sdo a <- sem_expr efuel s r; let '(v, s1) := a in SOk (with_env s1 (env_set (s_env s1) x v)));
     SOk (s1, m)).
  Proof. reflexivity. Qed.
  Lemma sem_code_inc f m blk s x post inl :
    sem_node globals (S (S f)) m blk s (PCode [SExpr (JUn UInc post (JId x))] false inl) =
    (sdo s1 <- (match env_get (s_env s) x with
                | JN z => sdo v <- num (z + 1); SOk (with_env s (env_set (s_env s) x v))
                | _ => SOff
                end);
     SOk (s1, m)).
  Proof. reflexivity. Qed.
  Lemma sem_code_var f m blk s x i inl :
    sem_node globals (S (S f)) m blk s (PCode [SVar [JVar x (Some i)]] false inl) =
    (sdo s1 <- (sdo a <- sem_expr efuel s i; let '(v, s1) := a in SOk (with_env s1 (env_set (s_env s1) x v)));
     SOk (s1, m)).
  Proof. reflexivity. Qed.

  (* ---- the executor on the actions of the fragment ----------------------------------------------------- *)
  Local Strategy transparent [eval_cmd].
  Lemma inc_eval E h x z v :
    var_val (e_vars E) x = v -> v = VInt z \/ v = VNum z -> in_range (z + 1) = true ->
    eval_pipeline E h ([x], [[AIdent (B "__op__inc"); AVar x []]]) = Ok (VNum (z + 1), h).
  Proof.
    intros Ev Hr Hz. apply in_range_num_ok in Hz.
    unfold eval_pipeline, expr_fuel. cbn [snd].
    change 400 with (S (S (S (S (S 395))))).
    cbn [eval_cmds eval_cmd call_ident eval_args eval_operand bind beqb]. rewrite Ev.
    destruct Hr as [Hv|Hv]; rewrite Hv; cbn; unfold rt_incdec, kind_of, mknum; cbn; rewrite Hz; reflexivity.
  Qed.

  Local Strategy opaque [eval_cmd eval_cmds eval_pipeline].
  Lemma decl_action defs f dot s x a v :
    eval_pipeline (env_of s dot) (x_heap s) ([x], [[a]]) = Ok (v, x_heap s) ->
    exec_node defs (S f) dot s (NAction ([x], [[a]])) =
    Ok (set_vars (set_heap s (x_heap s)) (set_decl (f_vars (cur (set_heap s (x_heap s)))) [x] v)).
  Proof. intros He. cbn [exec_node]. rewrite He. reflexivity. Qed.

  Lemma print_string_flags g v t g2 : print_string g v = SOk (t, g2) -> exists l, s_flags g2 = l ++ s_flags g.
  Proof.
    unfold print_string, tostr. destruct v; intros H;
      try (inversion H; subst; exists []; reflexivity);
      destruct (to_string _ _ _); inversion H; subst; cbn [is_ref];
      first [exists []; reflexivity | exists [fl_print_ref]; reflexivity].
  Qed.

  Lemma print_string_noerr g v fl : print_string g v <> SErr fl.
  Proof. unfold print_string, tostr. destruct v; try discriminate; destruct (to_string _ _ _); discriminate. Qed.

  (* ---- what is assumed about expressions (discharged for the scalar fragment in Proofs/C01EvalProofs.v) -- *)
  Definition lx := lexpr funcs goodb.
  Hypothesis H_eval : forall e, goodb e = true ->
    forall E h g j g', env_vr (e_vars E) (s_env g) -> env_ok (s_env g) ->
      sem_expr efuel g e = SOk (j, g') -> s_flags g' = s_flags g ->
      exists a v, lx e = Some a /\ (forall d, eval_pipeline E h (d, [[a]]) = Ok (v, h)) /\ vr v j /\ okj j /\
                  s_env g' = s_env g /\ s_out g' = s_out g.
  Hypothesis H_mono : forall e, goodb e = true ->
    forall g j g', sem_expr efuel g e = SOk (j, g') -> exists l, s_flags g' = l ++ s_flags g.
  Hypothesis H_noerr : forall e, goodb e = true -> forall g fl, sem_expr efuel g e <> SErr fl.
  Hypothesis H_id : forall x, goodb (JId x) = true -> In x names.
  Hypothesis H_print : forall e, goodb e = true -> printable e = true ->
    forall defs f dot s g g1 j t g2, R s g ->
      sem_expr efuel g e = SOk (j, g1) -> print_string g1 j = SOk (t, g2) -> s_flags g2 = s_flags g ->
      exists a, lx e = Some a /\
                exec_node defs (S f) dot s (NAction ([], [a] :: esc_cmds false)) = Ok (emit s (escape t)) /\
                s_env g2 = s_env g /\ s_out g2 = s_out g.

  Let lw := lower funcs goodb.

  (* ---- inversion of the lowering ------------------------------------------------------------------------- *)
  Inductive code_shape (stmts : list jstmt) (esc : bool) (t : list tnode) : Prop :=
  | CS_assign x r a : stmts = [SExpr (JAssign None (JId x) r)] -> esc = false -> lx r = Some a ->
                      t = [NAction ([x], [[a]])] -> code_shape stmts esc t
  | CS_inc x post : stmts = [SExpr (JUn UInc post (JId x))] -> esc = false -> goodb (JId x) = true ->
                    t = [NAction ([x], [[AIdent (B "__op__inc"); AVar x []]])] -> code_shape stmts esc t
  | CS_var x i a : stmts = [SVar [JVar x (Some i)]] -> esc = false -> lx i = Some a ->
                   t = [NAction ([x], [[a]])] -> code_shape stmts esc t
  | CS_print e a : stmts = [SExpr e] -> printable e = true -> esc = true -> lx e = Some a ->
                   t = [NAction ([], [a] :: esc_cmds (negb esc))] -> code_shape stmts esc t.

  Lemma lower_code_inv fl stmts esc inl t :
    lw (S fl) (PCode stmts esc inl) = Some t -> code_shape stmts esc t.
  Proof.
    unfold lw. cbn [lower]. fold lx. intros H.
    destruct stmts as [|s1 [|s2 rest]]; try discriminate H.
    destruct s1 as [e|ds|c t0 e0|l|]; try discriminate H.
    - (* an expression statement *)
      destruct (printable e) eqn:Hp.
      + (* the generic buffered form *)
        assert (G : (if printable e && esc then match lx e with Some a => Some [NAction ([], [a] :: esc_cmds (negb esc))] | None => None end
                     else None) = Some t).
        { destruct e; try discriminate Hp; exact H. }
        rewrite Hp in G. destruct esc; [|discriminate G]. cbn [andb] in G.
        destruct (lx e) as [a|] eqn:L; [|discriminate G]. injection G as <-.
        eapply CS_print; [reflexivity|exact Hp|reflexivity|exact L|reflexivity].
      + destruct e; try discriminate Hp; try (destruct esc; discriminate H).
        * (* unary: only ++ on an identifier *)
          destruct op; try (destruct esc; discriminate H).
          destruct e; try (destruct esc; discriminate H).
          destruct esc; [discriminate H|].
          destruct (goodb (JId x)) eqn:Gx;
            [|destruct (negb (is_ident x) || known funcs x); discriminate H].
          destruct (negb (is_ident x) || known funcs x); [discriminate H|]. cbn [negb orb] in H. injection H as <-.
          eapply CS_inc; [reflexivity|reflexivity|exact Gx|reflexivity].
        * (* assignment: only a plain one to an identifier *)
          destruct op; try (destruct esc; discriminate H).
          destruct e1; try (destruct esc; discriminate H).
          destruct esc; [discriminate H|].
          destruct (negb (is_ident x) || known funcs x); [discriminate H|].
          destruct (lx e2) as [a|] eqn:L; [|discriminate H]. injection H as <-.
          eapply CS_assign; [reflexivity|reflexivity|exact L|reflexivity].
    - (* var *)
      destruct ds as [|d1 [|d2 dr]]; try (destruct esc; discriminate H); try (destruct d1; try discriminate H; destruct init; discriminate H).
      destruct d1; try (destruct esc; discriminate H).
      destruct init as [i|]; try (destruct esc; discriminate H).
      destruct esc; [discriminate H|].
      destruct (negb (is_ident x)); [discriminate H|].
      destruct (lx i) as [a|] eqn:L; [|discriminate H]. injection H as <-.
      eapply CS_var; [reflexivity|reflexivity|exact L|reflexivity].
    - (* several statements: not in the fragment *)
      exfalso.
      repeat match type of H with (match ?x with _ => _ end) = Some _ => destruct x; try discriminate H end.
  Qed.

  Lemma lower_list_cons f n r t :
    lower_list f (n :: r) = Some t -> exists a b, f n = Some a /\ lower_list f r = Some b /\ t = a ++ b.
  Proof.
    cbn [lower_list]. destruct (f n) as [a|]; [|discriminate]. destruct (lower_list f r) as [b|]; [|discriminate].
    intros H; inversion H; subst. eauto.
  Qed.

  (* ---- S only ever adds flags (on the fragment) --------------------------------------------------------- *)
  Definition grows (g : sstate) (r : sres (sstate * list (bytes * mixin))) : Prop :=
    match r with
    | SOk (g', _) => exists l, s_flags g' = l ++ s_flags g
    | SErr fl => exists l, fl = l ++ s_flags g
    | _ => True
    end.

  Lemma grows_refl g m : grows g (SOk (g, m)).
  Proof. exists []. reflexivity. Qed.
  Lemma grows_trans g g1 r : (exists l, s_flags g1 = l ++ s_flags g) -> grows g1 r -> grows g r.
  Proof.
    intros [l1 H1] H. destruct r as [[g' m']|fl| |]; cbn in *; try exact I;
      destruct H as [l2 H2]; exists (l2 ++ l1); rewrite H2, H1, app_assoc; reflexivity.
  Qed.
  Lemma grows_bind g r k :
    grows g r -> (forall g1 m1, r = SOk (g1, m1) -> grows g1 (k (g1, m1))) -> grows g (sbind r k).
  Proof.
    intros H1 H2. destruct r as [[g1 m1]|fl| |]; cbn [sbind]; try exact I.
    - exact (grows_trans g g1 _ H1 (H2 g1 m1 eq_refl)).
    - exact H1.
  Qed.

  Lemma good_lx e a : lx e = Some a -> goodb e = true.
  Proof. unfold lx, lexpr. destruct (goodb e); [reflexivity|discriminate]. Qed.

  Lemma expr_grows g e a : lx e = Some a ->
    match sem_expr efuel g e with
    | SOk (_, g') => exists l, s_flags g' = l ++ s_flags g
    | SErr _ => False
    | _ => True
    end.
  Proof.
    intros Hl. destruct (sem_expr efuel g e) as [[j g']|fl| |] eqn:E; try exact I.
    - exact (H_mono e (good_lx e a Hl) g j g' E).
    - exact (H_noerr e (good_lx e a Hl) g fl E).
  Qed.

  Lemma to_boolean_flags g v b g2 : to_boolean g v = (b, g2) -> exists l, s_flags g2 = l ++ s_flags g.
  Proof.
    unfold to_boolean. destruct v; intros H; try (inversion H; subst; exists []; reflexivity).
    - destruct (jget (s_heap g) l) as [[[|x r]|]|]; inversion H; subst;
        first [exists []; reflexivity | exists [fl_empty_truthy]; reflexivity].
    - destruct (jget (s_heap g) l) as [[|[|x r]]|]; inversion H; subst;
        first [exists []; reflexivity | exists [fl_empty_truthy]; reflexivity].
  Qed.

  Definition G_nodes (fs : nat) : Prop := forall ns m blk g fl t,
    lower_list (lw fl) ns = Some t -> grows g (sem_nodes globals fs m blk g ns).
  Definition G_node (fs : nat) : Prop := forall n m blk g fl t,
    lw fl n = Some t -> grows g (sem_node globals fs m blk g n).

  Lemma while_grows f blk test body a fl tb :
    G_nodes f -> lx test = Some a -> lower_list (lw fl) body = Some tb ->
    forall fuel2 budget g m, grows g (sem_while f blk test body budget fuel2 g m).
  Proof.
    intros IH Ht Hb. induction fuel2 as [|f2 IHf]; intros budget g m; [exact I|].
    cbn [sem_while]. pose proof (expr_grows g test a Ht) as Hg.
    destruct (sem_expr efuel g test) as [[v g1]|fl0| |]; cbn [sbind]; try exact I; try contradiction.
    destruct v as [| |[|]| | | |]; try exact I.
    - destruct budget as [|b].
      + apply (grows_trans g g1 _ Hg). apply grows_bind; [exact (IH body m blk g1 fl tb Hb)|].
        intros g2 m2 E2. pose proof (expr_grows g2 test a Ht) as Hg2.
        destruct (sem_expr efuel g2 test) as [[v2 g3]|fl0| |]; cbn [sbind]; try exact I; try contradiction.
        cbn [snd]. exact Hg2.
      + apply (grows_trans g g1 _ Hg). apply grows_bind; [exact (IH body m blk g1 fl tb Hb)|].
        intros g2 m2 E2. apply IHf.
    - cbn. exact Hg.
  Qed.

  Lemma code_grows f0 m blk g stmts esc inl t :
    code_shape stmts esc t -> grows g (sem_node globals (S f0) m blk g (PCode stmts esc inl)).
  Proof.
    intros Hs. destruct f0 as [|f]; [destruct Hs; subst; exact I|]. revert Hs.
    intros [x r a -> -> La _|x post -> -> _ _|x i a -> -> La _|e a -> Hp -> La _].
    - rewrite sem_code_assign. pose proof (expr_grows g r a La) as Hg.
      destruct (sem_expr efuel g r) as [[v g1]|fl0| |]; cbn [sbind]; try exact I; try contradiction. exact Hg.
    - rewrite sem_code_inc. destruct (env_get (s_env g) x); cbn [sbind]; try exact I.
      unfold num. destruct (in_range (z + 1)); cbn [sbind]; [exists []; reflexivity|exact I].
    - rewrite sem_code_var. pose proof (expr_grows g i a La) as Hg.
      destruct (sem_expr efuel g i) as [[v g1]|fl0| |]; cbn [sbind]; try exact I; try contradiction. exact Hg.
    - rewrite (sem_code_print f m blk g e true inl Hp). pose proof (expr_grows g e a La) as Hg.
      destruct (sem_expr efuel g e) as [[v g1]|fl0| |]; cbn [sbind]; try exact I; try contradiction.
      destruct (print_string g1 v) as [[tx g2]|fl1| |] eqn:Ep; cbn [sbind]; try exact I;
        try (exfalso; exact (print_string_noerr g1 v fl1 Ep)).
      destruct (print_string_flags g1 v tx g2 Ep) as [l2 H2]. destruct Hg as [l1 H1].
      exists (l2 ++ l1). cbn. rewrite H2, H1, app_assoc. reflexivity.
  Qed.

  Lemma grows_all fs : G_nodes fs /\ G_node fs.
  Proof.
    induction fs as [|fs [IHns IHn]]; [split; intro; intros; exact I|]. split.
    - intros ns m blk g fl t Hl. destruct ns as [|n r]; [apply grows_refl|].
      rewrite sem_nodes_cons. destruct (lower_list_cons _ _ _ _ Hl) as [ta [tb [Ha [Hb _]]]].
      apply grows_bind; [exact (IHn n m blk g fl ta Ha)|].
      intros g1 m1 _. exact (IHns r m1 blk g1 fl tb Hb).
    - intros n m blk g fl t Hl. destruct fl as [|fl]; [discriminate|].
      destruct n as [name inl attrs ablocks body|txt|stmts esc inl|test cons_ alt|e whens|v k obj body|test body
                     |name params body|name args attrs body| |v|l|]; try discriminate Hl.
      + (* tag *)
        unfold lw in Hl. cbn [lower] in Hl.
        destruct attrs; [|discriminate]. destruct ablocks; [|discriminate].
        destruct (has_delim name); [discriminate|].
        destruct (lower_list (lower funcs goodb fl) body) as [b|] eqn:Eb; [|discriminate].
        rewrite sem_tag. cbv zeta. destruct (mem name void_tags); [exists []; reflexivity|].
        apply grows_bind.
        * apply (grows_trans g (put g (B "<" ++ name ++ [] ++ B ">"))); [exists []; reflexivity|].
          exact (IHns body m blk _ fl b Eb).
        * intros g3 m3 _. exists []. reflexivity.
      + (* text *) rewrite sem_text. exists []. reflexivity.
      + (* code *)
        apply (code_grows fs m blk g stmts esc inl t). exact (lower_code_inv fl stmts esc inl t Hl).
      + (* if *)
        unfold lw in Hl. cbn [lower] in Hl. fold lx in Hl.
        destruct (lx test) as [ta|] eqn:Lt; [|discriminate].
        destruct (lower_list (lower funcs goodb fl) cons_) as [th|] eqn:Ec; [|discriminate].
        rewrite sem_cond. pose proof (expr_grows g test ta Lt) as Hg.
        destruct (sem_expr efuel g test) as [[v g1]|fl0| |]; cbn [sbind]; try exact I; try contradiction.
        destruct (to_boolean g1 v) as [b g2] eqn:Eb. pose proof (to_boolean_flags g1 v b g2 Eb) as Hg2.
        apply (grows_trans g g1 _ Hg). apply (grows_trans g1 g2 _ Hg2).
        destruct b; [exact (IHns cons_ m blk g2 fl th Ec)|].
        destruct alt as [a'|]; [|apply grows_refl].
        destruct (lower funcs goodb fl a') as [el|] eqn:Ea; [|discriminate].
        exact (IHn a' m blk g2 fl el Ea).
      + (* while *)
        unfold lw in Hl. cbn [lower] in Hl. fold lx in Hl.
        destruct (lx test) as [ta|] eqn:Lt; [|discriminate].
        destruct (lower_list (lower funcs goodb fl) body) as [tb|] eqn:Ebd; [|discriminate].
        rewrite sem_while_eq. exact (while_grows fs blk test body ta fl tb IHns Lt Ebd fs while_limit g m).
      + rewrite sem_block. unfold lw in Hl. cbn [lower] in Hl. exact (IHns l m blk g fl t Hl).
      + rewrite sem_comment. apply grows_refl.
  Qed.

  (* ---- the simulation -------------------------------------------------------------------------------------- *)
  (* [M f]: an execution of the model with fuel f; [r]: what S says *)
  Definition sim_res (M : nat -> res xstate) (g : sstate) (m : list (bytes * mixin))
             (r : sres (sstate * list (bytes * mixin))) : Prop :=
    match r with
    | SOk (g', m') => s_flags g' = s_flags g -> m' = m /\ exists f s', M f = Ok s' /\ R s' g'
    | SErr fl => fl = s_flags g -> exists f, M f = Panic
    | _ => True
    end.
  Definition sim_ok (dot : val) (s : xstate) (t : list tnode) := sim_res (fun f => exec_nodes [] f dot s t).

  Lemma sim_seq dot s t1 t2 g m r1 k :
    grows g r1 -> sim_ok dot s t1 g m r1 ->
    (forall g1 m1, r1 = SOk (g1, m1) -> grows g1 (k (g1, m1))) ->
    (forall g1 s1, R s1 g1 -> sim_ok dot s1 t2 g1 m (k (g1, m))) ->
    sim_ok dot s (t1 ++ t2) g m (sbind r1 k).
  Proof.
    intros G1 S1 G2 S2. destruct r1 as [[g1 m1]|fl| |]; cbn [sbind]; try exact I.
    - specialize (G2 g1 m1 eq_refl). destruct G1 as [l1 E1].
      destruct (k (g1, m1)) as [[g' m']|fl| |] eqn:Ek; try exact I.
      + intros Hf. destruct G2 as [l2 E2]. rewrite E2, E1 in Hf. destruct (flags_split _ _ _ Hf) as [-> ->].
        cbn [app] in E1, E2. destruct (S1 E1) as [-> [f1 [s1 [X1 R1]]]].
        specialize (S2 g1 s1 R1). unfold sim_ok, sim_res in S2. rewrite Ek in S2.
        destruct (S2 E2) as [-> [f2 [s' [X2 R2]]]]. split; [reflexivity|].
        exists (f1 + f2), s'. split; [|exact R2].
        apply (exec_app_ok [] dot t1 f1 s s1 f2 t2 (Ok s') X1 X2). apply fin_ok.
      + intros Hf. destruct G2 as [l2 E2]. rewrite E2, E1 in Hf. destruct (flags_split _ _ _ Hf) as [-> ->].
        cbn [app] in E1, E2. destruct (S1 E1) as [-> [f1 [s1 [X1 R1]]]].
        specialize (S2 g1 s1 R1). unfold sim_ok, sim_res in S2. rewrite Ek in S2.
        destruct (S2 E2) as [f2 X2].
        exists (f1 + f2). apply (exec_app_ok [] dot t1 f1 s s1 f2 t2 Panic X1 X2). apply fin_panic.
    - intros Hf. destruct (S1 Hf) as [f1 X1]. exists (f1 + 0). apply exec_app_panic. exact X1.
  Qed.

  Lemma sim_single dot s n g m r :
    sim_res (fun f => exec_node [] f dot s n) g m r -> sim_ok dot s [n] g m r.
  Proof.
    unfold sim_ok, sim_res. destruct r as [[g' m']|fl| |]; try exact (fun _ => I).
    - intros H Hf. destruct (H Hf) as [-> [f [s' [X Rr]]]]. split; [reflexivity|].
      exists (S (S f)), s'. split; [|exact Rr]. apply exec_single; [exact X|apply fin_ok].
    - intros H Hf. destruct (H Hf) as [f X]. exists (S (S f)). apply exec_single; [exact X|apply fin_panic].
  Qed.

  Lemma eval_here dot s g e a j g1 :
    R s g -> lx e = Some a -> sem_expr efuel g e = SOk (j, g1) -> s_flags g1 = s_flags g ->
    exists v, (forall d, eval_pipeline (env_of s dot) (x_heap s) (d, [[a]]) = Ok (v, x_heap s)) /\ vr v j /\ okj j /\ R s g1.
  Proof.
    intros Rr La Es Ef.
    destruct (H_eval e (good_lx e a La) (env_of s dot) (x_heap s) g j g1 (R_env s g Rr) (R_rng s g Rr) Es Ef)
      as [a' [v [La' [Ev [Hv [Hj [E1 E2]]]]]]].
    rewrite La in La'. injection La' as <-.
    exists v. split; [exact Ev|split; [exact Hv|split; [exact Hj|exact (R_env_out s g g1 Rr E1 E2)]]].
  Qed.

  Lemma R_set_heap_same s g : R s g -> R (set_heap s (x_heap s)) g.
  Proof. rewrite set_heap_same. exact (fun H => H). Qed.

  Lemma code_sim f0 m blk g stmts esc inl t dot s :
    code_shape stmts esc t -> R s g ->
    sim_ok dot s t g m (sem_node globals (S f0) m blk g (PCode stmts esc inl)).
  Proof.
    intros Hs Rr. destruct f0 as [|f]; [destruct Hs; subst; exact I|]. revert Hs.
    intros [x r a -> -> La ->|x post -> -> Gx ->|x i a -> -> La ->|e a -> Hp -> La ->]; apply sim_single.
    - (* x = r *)
      rewrite sem_code_assign. pose proof (expr_grows g r a La) as Hg.
      destruct (sem_expr efuel g r) as [[j g1]|fl0| |] eqn:Es; cbn [sbind sim_res]; try exact I; try contradiction.
      cbn [with_env s_flags]. intros Hf.
      destruct (eval_here dot s g r a j g1 Rr La Es Hf) as [v [Ev [Hv [Hj R1]]]].
      split; [reflexivity|]. exists 1. eexists. split; [exact (decl_action [] 0 dot s x a v (Ev [x]))|].
      exact (R_assign s g1 x v j (x_heap s) R1 Hv Hj).
    - (* x++ *)
      rewrite sem_code_inc. destruct (env_get (s_env g) x) as [| | |z| | |] eqn:Ex; cbn [sbind sim_res]; try exact I.
      unfold num. destruct (in_range (z + 1)) eqn:Hz; cbn [sbind sim_res]; [|exact I].
      cbn [with_env s_flags]. intros _. split; [reflexivity|].
      pose proof (R_env s g Rr x (H_id x Gx)) as Hx. rewrite Ex in Hx.
      exists 1. eexists. split.
      + cbn [exec_node]. rewrite (inc_eval (env_of s dot) (x_heap s) x z _ eq_refl (vr_num _ z Hx) Hz). reflexivity.
      + exact (R_assign s g x (VNum (z + 1)) (JN (z + 1)) (x_heap s) Rr (vr_num_intro _) (okj_num _ Hz)).
    - (* var x = i *)
      rewrite sem_code_var. pose proof (expr_grows g i a La) as Hg.
      destruct (sem_expr efuel g i) as [[j g1]|fl0| |] eqn:Es; cbn [sbind sim_res]; try exact I; try contradiction.
      cbn [with_env s_flags]. intros Hf.
      destruct (eval_here dot s g i a j g1 Rr La Es Hf) as [v [Ev [Hv [Hj R1]]]].
      split; [reflexivity|]. exists 1. eexists. split; [exact (decl_action [] 0 dot s x a v (Ev [x]))|].
      exact (R_assign s g1 x v j (x_heap s) R1 Hv Hj).
    - (* = e / != e *)
      rewrite (sem_code_print f m blk g e true inl Hp). pose proof (expr_grows g e a La) as Hg.
      destruct (sem_expr efuel g e) as [[j g1]|fl0| |] eqn:Es; cbn [sbind sim_res]; try exact I; try contradiction.
      destruct (print_string g1 j) as [[tx g2]|fl1| |] eqn:Ep; cbn [sbind sim_res]; try exact I.
      + cbn [put s_flags]. intros Hf.
        destruct (H_print e (good_lx e a La) Hp [] 0 dot s g g1 j tx g2 Rr Es Ep Hf) as [a' [La' [X [E1 E2]]]].
        rewrite La in La'. injection La' as <-.
        split; [reflexivity|]. exists 1. eexists. split; [exact X|].
        apply R_emit_put. exact (R_env_out s g g2 Rr E1 E2).
      + exfalso. exact (print_string_noerr g1 j fl1 Ep).
  Qed.

  (* ---- while -------------------------------------------------------------------------------------------------- *)
  Definition after_true (f : nat) (blk : option closure) (test : jexpr) (body : list pnode)
             (b f2 : nat) (g1 : sstate) (m : list (bytes * mixin)) : sres (sstate * list (bytes * mixin)) :=
    match b with
    | O =>
      sdo r <- sem_nodes globals f m blk g1 body; let '(s2, _) := r in
      sdo t <- sem_expr efuel s2 test; SErr (s_flags (snd t))
    | S b' =>
      sdo r <- sem_nodes globals f m blk g1 body; let '(s2, m2) := r in sem_while f blk test body b' f2 s2 m2
    end.

  Lemma sem_while_step f blk test body b f2 g m :
    sem_while f blk test body b (S f2) g m =
    (sdo a <- sem_expr efuel g test; let '(v, g1) := a in
     match v with
     | JB false => SOk (g1, m)
     | JB true => after_true f blk test body b f2 g1 m
     | _ => SOff
     end).
  Proof. cbn [sem_while]. destruct (sem_expr efuel g test) as [[v g1]| | |]; [|reflexivity..].
         cbn [sbind]. destruct v as [| |[|]| | | |]; try reflexivity. all: try (destruct b; reflexivity). Qed.

  (* the state in which walkRange continues after evaluating a test without declarations *)
  Definition plan_state (s : xstate) (v : val) : xstate :=
    let s0 := set_vars s (f_vars (cur s) ++ map (fun x : bytes => (x, VInvalid)) []) in
    set_vars (set_heap s0 (x_heap s0)) (set_decl (f_vars (cur (set_heap s0 (x_heap s0)))) [] v).

  Lemma R_plan_state s g v : R s g -> R (plan_state s v) g.
  Proof.
    intros [Hl He Hk Ho]. unfold plan_state. cbn [map set_decl fold_left]. split.
    - apply set_vars_live.
    - rewrite cur_set_vars. unfold set_heap at 1. unfold cur at 1. cbn [x_frames]. fold (cur (set_vars s (f_vars (cur s) ++ []))).
      rewrite cur_set_vars, app_nil_r. exact He.
    - exact Hk.
    - exact Ho.
  Qed.

  Lemma range_plan_test dot s g test ta j g1 :
    R s g -> lx test = Some ta -> sem_expr efuel g test = SOk (j, g1) -> s_flags g1 = s_flags g ->
    exists v, vr v j /\ R (plan_state s v) g1 /\
      range_plan dot s (pipe1 ta) =
      match v with
      | VArr _ | VMap _ | VNil | VInvalid | VAttrs _ | VMod _ => range_plan dot s (pipe1 ta)
      | VBool b | VGoBool b => Ok (if b then RWhile (plan_state s v) v else RDone (plan_state s v))
      | _ => Panic
      end.
  Proof.
    intros Rr La Es Ef.
    set (s0 := set_vars s (f_vars (cur s) ++ map (fun x : bytes => (x, VInvalid)) [])).
    assert (R0 : R s0 g).
    { destruct Rr as [Hl He Hk Ho]. split; [apply set_vars_live| |exact Hk|exact Ho].
      unfold s0. rewrite cur_set_vars. cbn [map]. rewrite app_nil_r. exact He. }
    destruct (eval_here dot s0 g test ta j g1 R0 La Es Ef) as [v [Ev [Hv [Hj R1]]]].
    exists v. split; [exact Hv|]. split.
    - apply (R_env_out (plan_state s v) g g1); [apply R_plan_state; exact Rr| |].
      + destruct R1 as [_ _ _ _]. 
        (* the expression left S's environment and output alone *)
        destruct (H_eval test (good_lx test ta La) (env_of s0 dot) (x_heap s0) g j g1 (R_env s0 g R0) (R_rng s0 g R0) Es Ef)
          as [_ [_ [_ [_ [_ [_ [E1 _]]]]]]]. exact E1.
      + destruct (H_eval test (good_lx test ta La) (env_of s0 dot) (x_heap s0) g j g1 (R_env s0 g R0) (R_rng s0 g R0) Es Ef)
          as [_ [_ [_ [_ [_ [_ [_ E2]]]]]]]. exact E2.
    - unfold range_plan, pipe1. fold s0. rewrite (Ev []). cbn [bind].
      destruct v; reflexivity.
  Qed.

  Definition P_nodes (fs : nat) : Prop := forall ns m blk g fl t dot s,
    lower_list (lw fl) ns = Some t -> R s g -> sim_ok dot s t g m (sem_nodes globals fs m blk g ns).
  Definition P_node (fs : nat) : Prop := forall n m blk g fl t dot s,
    lw fl n = Some t -> R s g -> sim_ok dot s t g m (sem_node globals fs m blk g n).

  Definition is_true (v : val) : Prop := v = VBool true \/ v = VGoBool true.

  (* one more test in the executor's while loop, with the test's value related to S's *)
  Lemma while_test_eval dot s2 g2 test ta j g3 :
    R s2 g2 -> lx test = Some ta -> sem_expr efuel g2 test = SOk (j, g3) -> s_flags g3 = s_flags g2 ->
    exists v', eval_pipeline (env_of s2 dot) (x_heap s2) (pipe1 ta) = Ok (v', x_heap s2) /\ vr v' j /\ R s2 g3.
  Proof.
    intros R2 La Es Ef. destruct (eval_here dot s2 g2 test ta j g3 R2 La Es Ef) as [v' [Ev [Hv [_ R3]]]].
    exists v'. split; [exact (Ev [])|split; assumption].
  Qed.

  Lemma after_true_grows f blk test body ta tb fl :
    G_nodes f -> lx test = Some ta -> lower_list (lw fl) body = Some tb ->
    forall b f2 g1 m, grows g1 (after_true f blk test body b f2 g1 m).
  Proof.
    intros IHG La Lb b f2 g1 m. unfold after_true. destruct b as [|b'].
    - apply grows_bind; [exact (IHG body m blk g1 fl tb Lb)|]. intros g5 m5 _.
      pose proof (expr_grows g5 test ta La) as G5.
      destruct (sem_expr efuel g5 test) as [[j6 g6]|?| |]; cbn [sbind snd]; try exact I; try contradiction. exact G5.
    - apply grows_bind; [exact (IHG body m blk g1 fl tb Lb)|]. intros g5 m5 _.
      exact (while_grows f blk test body ta fl tb IHG La Lb f2 b' g5 m5).
  Qed.

  Lemma while_sim f blk test body ta tb fl :
    P_nodes f -> G_nodes f -> lx test = Some ta -> lower_list (lw fl) body = Some tb ->
    forall f2 b g1 m s1 v dot, R s1 g1 -> is_true v ->
      sim_res (fun fM => exec_while [] fM dot s1 (pipe1 ta) tb b v) g1 m (after_true f blk test body b f2 g1 m).
  Proof.
    intros IHP IHG La Lb. induction f2 as [|f2 IH2]; intros b g1 m s1 v dot R1 Hv.
    - (* no S fuel left for another test *)
      unfold after_true. pose proof (IHG body m blk g1 fl tb Lb) as Gb.
      pose proof (IHP body m blk g1 fl tb v s1 Lb R1) as Sb. unfold sim_ok in Sb.
      destruct (sem_nodes globals f m blk g1 body) as [[g2 m2]|flb| |] eqn:Eb; destruct b as [|b']; cbn [sbind sim_res]; try exact I.
      + (* budget used up: body, test, error *)
        pose proof (expr_grows g2 test ta La) as Gt.
        destruct (sem_expr efuel g2 test) as [[j g3]|fl0| |] eqn:Et; cbn [sbind sim_res snd]; try exact I; try contradiction.
        intros Hf. destruct Gb as [l1 E1]. destruct Gt as [l2 E2]. rewrite E2, E1 in Hf.
        destruct (flags_split _ _ _ Hf) as [-> ->]. cbn [app] in E1, E2.
        destruct (Sb E1) as [_ [fb [s2 [Xb R2]]]].
        destruct (while_test_eval dot s2 g2 test ta j g3 R2 La Et E2) as [v' [Ev _]].
        exists (S fb). rewrite while_step, Xb. cbn [bind]. rewrite Ev. reflexivity.
      + intros Hf. destruct (Sb Hf) as [fb Xb]. exists (S fb). rewrite while_step, Xb. reflexivity.
      + intros Hf. destruct (Sb Hf) as [fb Xb]. exists (S fb). rewrite while_step, Xb. reflexivity.
    - unfold after_true. pose proof (IHG body m blk g1 fl tb Lb) as Gb.
      pose proof (IHP body m blk g1 fl tb v s1 Lb R1) as Sb. unfold sim_ok in Sb.
      destruct (sem_nodes globals f m blk g1 body) as [[g2 m2]|flb| |] eqn:Eb; destruct b as [|b']; cbn [sbind sim_res]; try exact I.
      + pose proof (expr_grows g2 test ta La) as Gt.
        destruct (sem_expr efuel g2 test) as [[j g3]|fl0| |] eqn:Et; cbn [sbind sim_res snd]; try exact I; try contradiction.
        intros Hf. destruct Gb as [l1 E1]. destruct Gt as [l2 E2]. rewrite E2, E1 in Hf.
        destruct (flags_split _ _ _ Hf) as [-> ->]. cbn [app] in E1, E2.
        destruct (Sb E1) as [_ [fb [s2 [Xb R2]]]].
        destruct (while_test_eval dot s2 g2 test ta j g3 R2 La Et E2) as [v' [Ev _]].
        exists (S fb). rewrite while_step, Xb. cbn [bind]. rewrite Ev. reflexivity.
      + (* another round *)
        rewrite sem_while_step. pose proof (expr_grows g2 test ta La) as Gt.
        destruct (sem_expr efuel g2 test) as [[j g3]|fl0| |] eqn:Et; cbn [sbind]; try exact I; try contradiction.
        destruct Gb as [l1 E1]. destruct Gt as [l2 E2].
        destruct j as [| |[|]| | | |]; try exact I.
        * (* test true again *)
          pose proof (while_grows f blk test body ta fl tb IHG La Lb) as GW.
          assert (GA : grows g3 (after_true f blk test body b' f2 g3 m2)).
          { specialize (GW (S f2) b' g3 m2). rewrite sem_while_step in GW.
            destruct (sem_expr efuel g3 test) as [[j4 g4]|?| |] eqn:E4; unfold after_true. 
            - (* use monotonicity of the loop from g3 directly *)
              unfold after_true in *. clear GW.
              destruct b' as [|b''].
              + apply grows_bind; [exact (IHG body m2 blk g3 fl tb Lb)|]. intros g5 m5 _.
                pose proof (expr_grows g5 test ta La) as G5.
                destruct (sem_expr efuel g5 test) as [[j6 g6]|?| |]; cbn [sbind snd]; try exact I; try contradiction. exact G5.
              + apply grows_bind; [exact (IHG body m2 blk g3 fl tb Lb)|]. intros g5 m5 _.
                exact (while_grows f blk test body ta fl tb IHG La Lb f2 b'' g5 m5).
            - destruct b' as [|b''].
              + apply grows_bind; [exact (IHG body m2 blk g3 fl tb Lb)|]. intros g5 m5 _.
                pose proof (expr_grows g5 test ta La) as G5.
                destruct (sem_expr efuel g5 test) as [[j6 g6]|?| |]; cbn [sbind snd]; try exact I; try contradiction. exact G5.
              + apply grows_bind; [exact (IHG body m2 blk g3 fl tb Lb)|]. intros g5 m5 _.
                exact (while_grows f blk test body ta fl tb IHG La Lb f2 b'' g5 m5).
            - destruct b' as [|b''].
              + apply grows_bind; [exact (IHG body m2 blk g3 fl tb Lb)|]. intros g5 m5 _.
                pose proof (expr_grows g5 test ta La) as G5.
                destruct (sem_expr efuel g5 test) as [[j6 g6]|?| |]; cbn [sbind snd]; try exact I; try contradiction. exact G5.
              + apply grows_bind; [exact (IHG body m2 blk g3 fl tb Lb)|]. intros g5 m5 _.
                exact (while_grows f blk test body ta fl tb IHG La Lb f2 b'' g5 m5).
            - destruct b' as [|b''].
              + apply grows_bind; [exact (IHG body m2 blk g3 fl tb Lb)|]. intros g5 m5 _.
                pose proof (expr_grows g5 test ta La) as G5.
                destruct (sem_expr efuel g5 test) as [[j6 g6]|?| |]; cbn [sbind snd]; try exact I; try contradiction. exact G5.
              + apply grows_bind; [exact (IHG body m2 blk g3 fl tb Lb)|]. intros g5 m5 _.
                exact (while_grows f blk test body ta fl tb IHG La Lb f2 b'' g5 m5). }
          destruct (after_true f blk test body b' f2 g3 m2) as [[g' m']|fle| |] eqn:EA; cbn [sim_res]; try exact I.
          -- intros Hf. destruct GA as [l3 E3]. rewrite E3, E2, E1 in Hf.
             assert (HH : l3 = [] /\ l2 = [] /\ l1 = []).
             { rewrite !app_assoc in Hf. change (s_flags g1) with ([] ++ s_flags g1) in Hf at 2.
               apply app_inv_tail in Hf. apply app_eq_nil in Hf. destruct Hf as [Hf ->].
               apply app_eq_nil in Hf. destruct Hf as [-> ->]. repeat split. }
             destruct HH as [-> [-> ->]]. cbn [app] in E1, E2, E3.
             destruct (Sb E1) as [-> [fb [s2 [Xb R2]]]].
             destruct (while_test_eval dot s2 g2 test ta (JB true) g3 R2 La Et E2) as [v' [Ev [Hv' R3]]].
             pose proof (IH2 b' g3 m s2 v' dot R3) as SI. 
             assert (Tv : is_true v') by (destruct (vr_bool v' true Hv') as [->| ->]; [left|right]; reflexivity).
             specialize (SI Tv). rewrite EA in SI. cbn [sim_res] in SI. destruct (SI E3) as [-> [fw [s' [Xw R']]]].
             split; [reflexivity|]. exists (S (fb + fw)), s'. split; [|exact R'].
             rewrite while_step.
             rewrite (exec_nodes_mono [] fb (fb + fw)); [|lia|rewrite Xb; apply fin_ok]. rewrite Xb. cbn [bind].
             rewrite Ev. cbn [bind]. rewrite set_heap_same.
             rewrite (exec_while_mono [] fw (fb + fw)); [|lia|rewrite Xw; apply fin_ok].
             destruct Tv as [-> | ->]; exact Xw.
          -- intros Hf. destruct GA as [l3 E3]. rewrite E3, E2, E1 in Hf.
             assert (HH : l3 = [] /\ l2 = [] /\ l1 = []).
             { rewrite !app_assoc in Hf. change (s_flags g1) with ([] ++ s_flags g1) in Hf at 2.
               apply app_inv_tail in Hf. apply app_eq_nil in Hf. destruct Hf as [Hf ->].
               apply app_eq_nil in Hf. destruct Hf as [-> ->]. repeat split. }
             destruct HH as [-> [-> ->]]. cbn [app] in E1, E2, E3.
             destruct (Sb E1) as [-> [fb [s2 [Xb R2]]]].
             destruct (while_test_eval dot s2 g2 test ta (JB true) g3 R2 La Et E2) as [v' [Ev [Hv' R3]]].
             pose proof (IH2 b' g3 m s2 v' dot R3) as SI.
             assert (Tv : is_true v') by (destruct (vr_bool v' true Hv') as [->| ->]; [left|right]; reflexivity).
             specialize (SI Tv). rewrite EA in SI. cbn [sim_res] in SI. destruct (SI E3) as [fw Xw].
             exists (S (fb + fw)).
             rewrite while_step.
             rewrite (exec_nodes_mono [] fb (fb + fw)); [|lia|rewrite Xb; apply fin_ok]. rewrite Xb. cbn [bind].
             rewrite Ev. cbn [bind]. rewrite set_heap_same.
             rewrite (exec_while_mono [] fw (fb + fw)); [|lia|rewrite Xw; apply fin_panic].
             destruct Tv as [-> | ->]; exact Xw.
        * (* test false: the loop ends *)
          cbn [sim_res]. intros Hf. rewrite E2, E1 in Hf. destruct (flags_split _ _ _ Hf) as [-> ->]. cbn [app] in E1, E2.
          destruct (Sb E1) as [-> [fb [s2 [Xb R2]]]].
          destruct (while_test_eval dot s2 g2 test ta (JB false) g3 R2 La Et E2) as [v' [Ev [Hv' R3]]].
          split; [reflexivity|]. exists (S fb), (set_heap s2 (x_heap s2)). split.
          -- rewrite while_step, Xb. cbn [bind]. rewrite Ev. cbn [bind].
             destruct (vr_bool v' false Hv') as [-> | ->]; reflexivity.
          -- rewrite set_heap_same. exact R3.
      + intros Hf. destruct (Sb Hf) as [fb Xb]. exists (S fb). rewrite while_step, Xb. reflexivity.
      + intros Hf. destruct (Sb Hf) as [fb Xb]. exists (S fb). rewrite while_step, Xb. reflexivity.
  Qed.

  Hypothesis void_agree : forall name, is_void name = mem name void_tags.

  Lemma sim_all fs : P_nodes fs /\ P_node fs.
  Proof.
    induction fs as [|fs [IHns IHn]]; [split; intro; intros; exact I|].
    pose proof (proj1 (grows_all fs)) as Gns. pose proof (proj2 (grows_all fs)) as Gn. split.
    - (* node lists *)
      intros ns m blk g fl t dot s Hl Rr. destruct ns as [|n r].
      + cbn [lower_list] in Hl. injection Hl as <-. rewrite sem_nodes_nil. cbn [sim_ok sim_res]. intros _.
        split; [reflexivity|]. exists 1, s. split; [reflexivity|exact Rr].
      + rewrite sem_nodes_cons. destruct (lower_list_cons _ _ _ _ Hl) as [ta [tb [Ha [Hb ->]]]].
        apply sim_seq.
        * exact (Gn n m blk g fl ta Ha).
        * exact (IHn n m blk g fl ta dot s Ha Rr).
        * intros g1 m1 _. exact (Gns r m1 blk g1 fl tb Hb).
        * intros g1 s1 R1. exact (IHns r m blk g1 fl tb dot s1 Hb R1).
    - (* single nodes *)
      intros n m blk g fl t dot s Hl Rr. destruct fl as [|fl]; [discriminate|].
      destruct n as [name inl attrs ablocks body|txt|stmts esc inl|test cons_ alt|e whens|v k obj body|test body
                     |name params body|name args attrs body| |v|l|]; try discriminate Hl.
      + (* tag *)
        unfold lw in Hl. cbn [lower] in Hl.
        destruct attrs; [|discriminate]. destruct ablocks; [|discriminate].
        destruct (has_delim name); [discriminate|].
        destruct (lower_list (lower funcs goodb fl) body) as [b|] eqn:Eb; [|discriminate].
        rewrite sem_tag. cbv zeta. rewrite void_agree in Hl.
        replace (B "<" ++ name ++ [] ++ B ">") with ((B "<" ++ name) ++ B ">") by (cbn [app]; rewrite <- !app_assoc; reflexivity).
        assert (R2 : R (emit (emit s (B "<" ++ name)) (B ">")) (put g ((B "<" ++ name) ++ B ">"))).
        { pose proof (R_emit_put _ _ (B ">") (R_emit_put s g (B "<" ++ name) Rr)) as H.
          destruct H as [Hl' He' Hk' Ho']. split; [exact Hl'|exact He'|exact Hk'|].
          rewrite Ho', !soutput_put. rewrite <- !app_assoc. reflexivity. }
        destruct (mem name void_tags).
        * injection Hl as <-. cbn [sim_ok sim_res put s_flags]. intros _. split; [reflexivity|].
          exists 3. eexists. split; [reflexivity|exact R2].
        * destruct (beqb name (B "script")); [discriminate|]. injection Hl as <-.
          set (g0 := put g ((B "<" ++ name) ++ B ">")).
          assert (S0 : sim_ok dot s [NText (B "<" ++ name); NText (B ">")] g m (SOk (g0, m))).
          { cbn [sim_ok sim_res]. intros _. split; [reflexivity|]. exists 3. eexists. split; [reflexivity|exact R2]. }
          set (k := fun a : sstate * list (bytes * mixin) => let '(g1, m1) := a in
                    sdo b0 <- sem_nodes globals fs m1 blk g1 body; let '(s3, m3) := b0 in SOk (put s3 (B "</" ++ name ++ B ">"), m3)).
          refine (sim_seq dot s [NText (B "<" ++ name); NText (B ">")] (b ++ [NText (B "</" ++ name ++ B ">")]) g m
                          (SOk (g0, m)) k _ S0 _ _).
          -- exists []. reflexivity.
          -- intros g1 m1 E1. injection E1 as <- <-. unfold k. apply grows_bind; [exact (Gns body m blk g0 fl b Eb)|].
             intros g3 m3 _. exists []. reflexivity.
          -- intros g1 s1 R1. unfold k.
             set (k2 := fun a : sstate * list (bytes * mixin) => let '(s3, m3) := a in
                        SOk (put s3 (B "</" ++ name ++ B ">"), m3) : sres (sstate * list (bytes * mixin))).
             refine (sim_seq dot s1 b [NText (B "</" ++ name ++ B ">")] g1 m (sem_nodes globals fs m blk g1 body) k2 _ _ _ _).
             ++ exact (Gns body m blk g1 fl b Eb).
             ++ exact (IHns body m blk g1 fl b dot s1 Eb R1).
             ++ intros g3 m3 _. exists []. reflexivity.
             ++ intros g3 s3 R3. cbn [sim_ok sim_res put s_flags k2]. intros _. split; [reflexivity|].
                exists 2. eexists. split; [reflexivity|]. exact (R_emit_put s3 g3 _ R3).
      + (* text *)
        unfold lw in Hl. cbn [lower] in Hl. destruct (plain_text txt); [|discriminate]. injection Hl as <-.
        rewrite sem_text. cbn [sim_ok sim_res put s_flags]. intros _. split; [reflexivity|].
        exists 2. eexists. split; [reflexivity|]. exact (R_emit_put s g txt Rr).
      + (* code *)
        exact (code_sim fs m blk g stmts esc inl t dot s (lower_code_inv fl stmts esc inl t Hl) Rr).
      + (* if *)
        unfold lw in Hl. cbn [lower] in Hl. fold lx in Hl.
        destruct (lx test) as [ta|] eqn:Lt; [|discriminate].
        destruct (lower_list (lower funcs goodb fl) cons_) as [th|] eqn:Ec; [|discriminate].
        rewrite sem_cond. pose proof (expr_grows g test ta Lt) as Hg.
        destruct (sem_expr efuel g test) as [[j g1]|fl0| |] eqn:Es; cbn [sbind]; try exact I; try contradiction.
        destruct (to_boolean g1 j) as [bb g2] eqn:Eb2.
        pose proof (to_boolean_flags g1 j bb g2 Eb2) as Hg2.
        (* what S continues with, and the branch the model must take *)
        set (r2 := if bb then sem_nodes globals fs m blk g2 cons_
                   else match alt with Some a' => sem_node globals fs m blk g2 a' | None => SOk (g2, m) end).
        assert (G2 : grows g2 r2).
        { unfold r2. destruct bb; [exact (Gns cons_ m blk g2 fl th Ec)|].
          destruct alt as [a'|]; [|apply grows_refl].
          destruct (lower funcs goodb fl a') as [el|] eqn:Ea; [|discriminate]. exact (Gn a' m blk g2 fl el Ea). }
        assert (KEY : s_flags g2 = s_flags g ->
                      exists v, eval_pipeline (env_of s dot) (x_heap s) (pipe1 ta) = Ok (v, x_heap s) /\
                                truthy (x_heap s) v = Ok bb /\ g2 = g1 /\ R (after_test s (pipe1 ta) v (x_heap s)) g1).
        { intros Hf. destruct Hg as [l1 E1]. destruct Hg2 as [l2 E2]. rewrite E2, E1 in Hf.
          destruct (flags_split _ _ _ Hf) as [-> ->]. cbn [app] in E1, E2.
          destruct (eval_here dot s g test ta j g1 Rr Lt Es E1) as [v [Ev [Hv [_ R1]]]].
          destruct (vr_truthy (x_heap s) g1 v j Hv) as [T1 T2]. rewrite Eb2 in T1, T2. cbn [fst snd] in T1, T2.
          exists v. split; [exact (Ev [])|split; [exact T1|split; [exact T2|]]].
          apply R_after_test; [reflexivity|exact R1]. }
        assert (Ht : exists el, t = [NIf (pipe1 ta) th el] /\
                                match alt with Some a' => lower funcs goodb fl a' = Some el | None => el = [] end).
        { destruct alt as [a'|].
          - destruct (lower funcs goodb fl a') as [el|]; [|discriminate]. injection Hl as <-. exists el. split; reflexivity.
          - injection Hl as <-. exists []. split; reflexivity. }
        destruct Ht as [el [-> Hel]]. clear Hl.
        apply sim_single. fold r2. unfold sim_res.
        destruct r2 as [[g' m']|fle| |] eqn:Er2; try exact I.
        * intros Hf. destruct G2 as [l3 E3]. destruct Hg as [l1 E1]. destruct Hg2 as [l2 E2].
          assert (F2 : s_flags g2 = s_flags g /\ s_flags g' = s_flags g2).
          { rewrite E3, E2, E1 in Hf. rewrite !app_assoc in Hf. change (s_flags g) with ([] ++ s_flags g) in Hf at 2.
            apply app_inv_tail in Hf. apply app_eq_nil in Hf. destruct Hf as [Hf ->].
            apply app_eq_nil in Hf. destruct Hf as [-> ->]. cbn [app] in *. split; congruence. }
          destruct F2 as [F2 F3]. destruct (KEY F2) as [v [Ev [Tv [-> RA]]]].
          unfold r2 in Er2. destruct bb.
          -- pose proof (IHns cons_ m blk g1 fl th dot _ Ec RA) as SI. unfold sim_ok, sim_res in SI. rewrite Er2 in SI.
             destruct (SI F3) as [-> [f [s' [X R']]]]. split; [reflexivity|]. exists (S f), s'. split; [|exact R'].
             rewrite (if_step [] f dot s (pipe1 ta) th el v (x_heap s) true Ev Tv). exact X.
          -- destruct alt as [a'|].
             ++ pose proof (IHn a' m blk g1 fl el dot _ Hel RA) as SI. unfold sim_ok, sim_res in SI. rewrite Er2 in SI.
                destruct (SI F3) as [-> [f [s' [X R']]]]. split; [reflexivity|]. exists (S f), s'. split; [|exact R'].
                rewrite (if_step [] f dot s (pipe1 ta) th el v (x_heap s) false Ev Tv). exact X.
             ++ subst el. injection Er2 as <- <-. split; [reflexivity|].
                exists 2, (after_test s (pipe1 ta) v (x_heap s)). split; [|exact RA].
                rewrite (if_step [] 1 dot s (pipe1 ta) th [] v (x_heap s) false Ev Tv). reflexivity.
        * intros Hf. destruct G2 as [l3 E3]. destruct Hg as [l1 E1]. destruct Hg2 as [l2 E2].
          assert (F2 : s_flags g2 = s_flags g /\ fle = s_flags g2).
          { rewrite E3, E2, E1 in Hf. rewrite !app_assoc in Hf. change (s_flags g) with ([] ++ s_flags g) in Hf at 2.
            apply app_inv_tail in Hf. apply app_eq_nil in Hf. destruct Hf as [Hf ->].
            apply app_eq_nil in Hf. destruct Hf as [-> ->]. cbn [app] in *. split; congruence. }
          destruct F2 as [F2 F3]. destruct (KEY F2) as [v [Ev [Tv [-> RA]]]].
          unfold r2 in Er2. destruct bb.
          -- pose proof (IHns cons_ m blk g1 fl th dot _ Ec RA) as SI. unfold sim_ok, sim_res in SI. rewrite Er2 in SI.
             destruct (SI F3) as [f X]. exists (S f).
             rewrite (if_step [] f dot s (pipe1 ta) th el v (x_heap s) true Ev Tv). exact X.
          -- destruct alt as [a'|]; [|discriminate Er2].
             pose proof (IHn a' m blk g1 fl el dot _ Hel RA) as SI. unfold sim_ok, sim_res in SI. rewrite Er2 in SI.
             destruct (SI F3) as [f X]. exists (S f).
             rewrite (if_step [] f dot s (pipe1 ta) th el v (x_heap s) false Ev Tv). exact X.
      + (* while *)
        unfold lw in Hl. cbn [lower] in Hl. fold lx in Hl.
        destruct (lx test) as [ta|] eqn:Lt; [|discriminate].
        destruct (lower_list (lower funcs goodb fl) body) as [tb|] eqn:Ebd; [|discriminate]. injection Hl as <-.
        rewrite sem_while_eq. apply sim_single. destruct fs as [|fs']; [exact I|].
        rewrite sem_while_step. pose proof (expr_grows g test ta Lt) as Hg.
        destruct (sem_expr efuel g test) as [[j g1]|fl0| |] eqn:Es; cbn [sbind]; try exact I; try contradiction.
        destruct j as [| |[|]| | | |]; try exact I.
        * (* the loop is entered *)
          pose proof (while_sim (S fs') blk test body ta tb fl IHns Gns Lt Ebd fs' while_limit g1 m) as WS.
          pose proof (after_true_grows (S fs') blk test body ta tb fl Gns Lt Ebd while_limit fs' g1 m) as GA.
          destruct (after_true (S fs') blk test body while_limit fs' g1 m) as [[g' m']|fle| |] eqn:EA; cbn [sim_res]; try exact I.
          -- intros Hf. destruct GA as [l3 E3]. destruct Hg as [l1 E1]. rewrite E3, E1 in Hf.
             destruct (flags_split _ _ _ Hf) as [-> ->]. cbn [app] in E1, E3.
             destruct (range_plan_test dot s g test ta (JB true) g1 Rr Lt Es E1) as [v [Hv [R1 Ep]]].
             assert (Tv : is_true v) by (destruct (vr_bool v true Hv) as [->| ->]; [left|right]; reflexivity).
             specialize (WS (plan_state s v) v dot R1 Tv). cbn [sim_res] in WS.
             destruct (WS E3) as [-> [fw [s' [Xw R']]]]. split; [reflexivity|]. exists (S fw), s'. split; [|exact R'].
             rewrite node_range, Ep. rewrite cap_is_limit.
             destruct Tv as [-> | ->]; exact Xw.
          -- intros Hf. destruct GA as [l3 E3]. destruct Hg as [l1 E1]. rewrite E3, E1 in Hf.
             destruct (flags_split _ _ _ Hf) as [-> ->]. cbn [app] in E1, E3.
             destruct (range_plan_test dot s g test ta (JB true) g1 Rr Lt Es E1) as [v [Hv [R1 Ep]]].
             assert (Tv : is_true v) by (destruct (vr_bool v true Hv) as [->| ->]; [left|right]; reflexivity).
             specialize (WS (plan_state s v) v dot R1 Tv). cbn [sim_res] in WS.
             destruct (WS E3) as [fw Xw]. exists (S fw).
             rewrite node_range, Ep. rewrite cap_is_limit.
             destruct Tv as [-> | ->]; exact Xw.
        * (* false on entry *)
          cbn [sim_res]. intros Hf. destruct (range_plan_test dot s g test ta (JB false) g1 Rr Lt Es Hf) as [v [Hv [R1 Ep]]].
          split; [reflexivity|]. exists 1, (plan_state s v). split; [|exact R1].
          rewrite node_range, Ep. destruct (vr_bool v false Hv) as [-> | ->]; reflexivity.
      + (* block *)
        rewrite sem_block. unfold lw in Hl. cbn [lower] in Hl. exact (IHns l m blk g fl t dot s Hl Rr).
      + (* comment *)
        unfold lw in Hl. cbn [lower] in Hl. injection Hl as <-. rewrite sem_comment. cbn [sim_ok sim_res]. intros _.
        split; [reflexivity|]. exists 1, s. split; [reflexivity|exact Rr].
  Qed.
End Sim.
