(* C02 — program-level simulation for the control fragment: the tree-level lowering (Pug/Lower.v) of text, tags,
   buffered code (escaped expressions; string / number / boolean literals), var / assignment / ++, if / else-if / else,
   case / when / default, while, and each (with and without key) over a variable that holds an array of scalars,
   executed by the executor model, prints what the independent pug semantics S prescribes, keeps the live variables
   related, and raises the execution error exactly when S prescribes the while-bound error.
   Scoping: the engine never pops a variable, pug scopes the variables of an each to the loop; the relation [R D] says
   nothing about the dead names [D] (each-variables outside their loop, the engine's `global`) and the lowering admits no
   mention of a dead name.  Heaps: the fragment never writes one; a collection is related through the two heaps as they are.
   Expressions enter through hypotheses (evaluation, printing, ===, flag monotonicity, purity) that Proofs/C02InstProofs.v
   discharges for the scalar fragment of Proofs/C01EvalProofs.v. *)
From PV Require Proofs.C01EvalProofs.
From PV Require Import Base.Bytes Base.Escape Js.Ast Tmpl.Value Tmpl.IR Tmpl.Runtime Tmpl.Exec Pug.Ast Pug.Compile
  Pug.Lower Spec.Sem Proofs.ExecMono Proofs.C01Proofs Proofs.C02Proofs Proofs.C03Proofs.
Lemma cap_is_limit : while_cap = while_limit.
Proof. reflexivity. Qed.
Local Strategy opaque [eval_cmd truthy while_cap while_limit sem_expr].

(* ---- output -------------------------------------------------------------------------------------------- *)
Lemma concat_bytes_app a b : concat_bytes (a ++ b) = concat_bytes a ++ concat_bytes b.
Proof. induction a as [|x a IH]; simpl; [reflexivity|rewrite IH, app_assoc; reflexivity]. Qed.

Lemma output_emit s b : output (emit s b) = output s ++ b.
Proof. unfold output, emit; cbn [x_out rev]. rewrite concat_bytes_app. simpl. rewrite app_nil_r. reflexivity. Qed.
Lemma soutput_put s b : soutput (put s b) = soutput s ++ b.
Proof. unfold soutput, put; cbn [s_out rev]. rewrite concat_bytes_app. simpl. rewrite app_nil_r. reflexivity. Qed.

(* ---- composing executions (fuel monotonicity, Proofs/ExecMono.v) ---------------------------------------- *)
Lemma exec_app_ok defs dot t1 : forall f1 s s1 f2 t2 r2,
  exec_nodes defs f1 dot s t1 = Ok s1 -> exec_nodes defs f2 dot s1 t2 = r2 -> fin r2 ->
  exec_nodes defs (f1 + f2) dot s (t1 ++ t2) = r2.
Proof.
  induction t1 as [|n r IH]; intros f1 s s1 f2 t2 r2 H1 H2 Hf.
  - destruct f1; [discriminate|]. injection H1 as Hs. rewrite <- Hs in H2. cbn [app].
    rewrite <- H2. apply exec_nodes_mono; [lia|rewrite H2; exact Hf].
  - destruct f1 as [|f1]; [discriminate|]. rewrite nodes_cons in H1.
    destruct (exec_node defs f1 dot s n) as [sa| | |] eqn:E; cbn [bind] in H1; try discriminate.
    cbn [app plus]. rewrite nodes_cons.
    rewrite (exec_node_mono defs f1 (f1 + f2)); [|lia|rewrite E; apply fin_ok].
    rewrite E. cbn [bind]. exact (IH f1 sa s1 f2 t2 r2 H1 H2 Hf).
Qed.

Lemma exec_app_panic defs dot t1 : forall f1 s t2 k,
  exec_nodes defs f1 dot s t1 = Panic -> exec_nodes defs (f1 + k) dot s (t1 ++ t2) = Panic.
Proof.
  induction t1 as [|n r IH]; intros f1 s t2 k H1.
  - destruct f1; discriminate.
  - destruct f1 as [|f1]; [discriminate|]. rewrite nodes_cons in H1. cbn [app plus]. rewrite nodes_cons.
    destruct (exec_node defs f1 dot s n) as [sa| | |] eqn:E; cbn [bind] in H1; try discriminate.
    + rewrite (exec_node_mono defs f1 (f1 + k)); [|lia|rewrite E; apply fin_ok]. rewrite E. cbn [bind].
      exact (IH f1 sa t2 k H1).
    + rewrite (exec_node_mono defs f1 (f1 + k)); [|lia|rewrite E; apply fin_panic]. rewrite E. reflexivity.
Qed.

Lemma exec_single defs dot f s n r :
  exec_node defs f dot s n = r -> fin r -> exec_nodes defs (S (S f)) dot s [n] = r.
Proof.
  intros H Hf. rewrite nodes_cons.
  rewrite (exec_node_mono defs f (S f)); [|lia|rewrite H; exact Hf]. rewrite H.
  destruct r; reflexivity.
Qed.

Lemma flags_split {A} (l1 l2 x : list A) : l2 ++ l1 ++ x = x -> l1 = [] /\ l2 = [].
Proof.
  intros H. rewrite app_assoc in H. change x with ([] ++ x) in H at 2. apply app_inv_tail in H.
  apply app_eq_nil in H. tauto.
Qed.

(* ---- environments --------------------------------------------------------------------------------------- *)
Lemma env_get_set_same env x j : env_get (env_set env x j) x = j.
Proof. unfold env_get, env_set. rewrite lookup_insert_same. reflexivity. Qed.
Lemma env_get_set_other env x y j : x <> y -> env_get (env_set env x j) y = env_get env y.
Proof. intros H. unfold env_get, env_set. rewrite (lookup_insert_other x y j env H). reflexivity. Qed.

Section Sim.
  Variable funcs : list bytes.
  Variable goodb : jexpr -> bool.
  Variable names : list bytes.                   (* the scalar variables: what expressions may mention *)
  Variable globals : list (bytes * jv).
  (* how engine values stand for JavaScript values, and which JavaScript values the domain admits *)
  Variable vr : val -> jv -> Prop.
  Variable okj : jv -> Prop.
  Hypothesis vr_truthy : forall h g v j, vr v j -> truthy h v = Ok (fst (to_boolean g j)) /\ snd (to_boolean g j) = g.
  Hypothesis vr_bool : forall v b, vr v (JB b) -> v = VBool b \/ v = VGoBool b.
  Hypothesis vr_num : forall v z, vr v (JN z) -> v = VInt z \/ v = VNum z.
  Hypothesis vr_num_intro : forall z, vr (VNum z) (JN z).
  Hypothesis vr_int_intro : forall z, vr (VInt z) (JN z).
  Hypothesis vr_noref : forall v j, vr v j -> is_ref j = false.
  Hypothesis vr_nullish : forall v j, vr v j -> j = JUndef \/ j = JNul -> v = VNil \/ v = VInvalid.
  Hypothesis vr_gostr_intro : forall t, vr (VGoStr t) (JS t).
  Hypothesis okj_num : forall z, in_range z = true -> okj (JN z).
  Hypothesis okj_str : forall t, okj (JS t).

  (* a collection: an array of related scalars, or a data map (a Go map: iterated in sorted key order) whose members
     in that order are S's properties in their order, at some location of either heap (the fragment never writes a heap) *)
  Definition coll_arr (h : heap) (jh : jheap) (v : val) (j : jv) : Prop :=
    exists l l' items jitems,
      v = VArr l /\ j = JA l' /\ hget h l = Some (OArr items) /\ jget jh l' = Some (JArrO jitems) /\
      Forall2 (fun a b => vr a b /\ okj b) items jitems /\ in_range (Z.of_nat (length jitems)) = true.
  Definition coll_map (h : heap) (jh : jheap) (v : val) (j : jv) : Prop :=
    exists l l' items props,
      v = VMap l /\ j = JO l' /\ hget h l = Some (OMap items []) /\ jget jh l' = Some (JObjO props) /\
      Forall2 (fun k p => k = fst p /\ vr (member_lookup items k) (snd p) /\ okj (snd p)) (sort_bytes (keys items)) props.
  Definition coll (h : heap) (jh : jheap) (v : val) (j : jv) : Prop := coll_arr h jh v j \/ coll_map h jh v j.
  Definition wr (h : heap) (jh : jheap) (v : val) (j : jv) : Prop := vr v j \/ coll h jh v j.

  (* [D]: the dead names — what the engine holds there is not related to S (a finished each leaves its variables set,
     pug drops them; the engine's `global`); the lowering admits no mention of a dead name *)
  Record R (D : list bytes) (s : xstate) (g : sstate) : Prop := {
    R_live : live s;
    R_env : forall x, mem x D = false -> In x names -> vr (var_val (f_vars (cur s)) x) (env_get (s_env g) x);
    R_rng : forall x, mem x D = false -> In x names -> okj (env_get (s_env g) x);
    R_all : forall x, mem x D = false -> wr (x_heap s) (s_heap g) (var_val (f_vars (cur s)) x) (env_get (s_env g) x);
    R_out : output s = soutput g;
    R_grown : s_grown g = [];          (* no object of S was grown from {} (the fragment has no member assignment) *)
  }.

  Lemma cur_set_vars s vs : f_vars (cur (set_vars s vs)) = vs.
  Proof. unfold set_vars. rewrite cur_set_cur. reflexivity. Qed.
  Lemma cur_set_heap s h : cur (set_heap s h) = cur s.
  Proof. reflexivity. Qed.
  Lemma heap_set_vars s vs : x_heap (set_vars s vs) = x_heap s.
  Proof. reflexivity. Qed.
  Lemma output_set_vars s vs : output (set_vars s vs) = output s.
  Proof. reflexivity. Qed.

  (* every step of the fragment: heaps and output as given, each live name either untouched on both sides or set to
     related scalars *)
  Lemma R_update D s g s' g' :
    R D s g -> live s' -> x_heap s' = x_heap s -> s_heap g' = s_heap g -> s_grown g' = s_grown g ->
    output s' = soutput g' ->
    (forall x, mem x D = false ->
       (var_val (f_vars (cur s')) x = var_val (f_vars (cur s)) x /\ env_get (s_env g') x = env_get (s_env g) x) \/
       (vr (var_val (f_vars (cur s')) x) (env_get (s_env g') x) /\ okj (env_get (s_env g') x))) ->
    R D s' g'.
  Proof.
    intros [Hl He Hk Ha Ho Hgr] Hl' Hh Hj Hg' Ho' Hx. split.
    - exact Hl'.
    - intros x Hd Hn. destruct (Hx x Hd) as [[-> ->]|[H _]]; [exact (He x Hd Hn)|exact H].
    - intros x Hd Hn. destruct (Hx x Hd) as [[_ ->]|[_ H]]; [exact (Hk x Hd Hn)|exact H].
    - intros x Hd. rewrite Hh, Hj. destruct (Hx x Hd) as [[-> ->]|[H _]]; [exact (Ha x Hd)|left; exact H].
    - exact Ho'.
    - rewrite Hg'. exact Hgr.
  Qed.

  Lemma R_weaken D D' s g : (forall x, mem x D' = false -> mem x D = false) -> R D s g -> R D' s g.
  Proof.
    intros Hs [Hl He Hk Ha Ho Hgr]. split; [exact Hl| | | |exact Ho|exact Hgr].
    - intros x Hd. exact (He x (Hs x Hd)).
    - intros x Hd. exact (Hk x (Hs x Hd)).
    - intros x Hd. exact (Ha x (Hs x Hd)).
  Qed.

  Lemma R_after_test D s g p v : fst p = [] -> R D s g -> R D (after_test s p v (x_heap s)) g.
  Proof.
    intros Hp Rr. unfold after_test. rewrite Hp. cbn [set_decl fold_left].
    apply (R_update D s g); [exact Rr|apply set_vars_live|reflexivity|reflexivity|reflexivity|exact (R_out D s g Rr)|].
    intros x _. left. rewrite cur_set_vars. split; reflexivity.
  Qed.

  Lemma R_emit_put D s g b : R D s g -> R D (emit s b) (put g b).
  Proof.
    intros Rr. apply (R_update D s g); [exact Rr|exact (R_live D s g Rr)|reflexivity|reflexivity|reflexivity| |].
    - rewrite output_emit, soutput_put, (R_out D s g Rr). reflexivity.
    - intros x _. left. split; reflexivity.
  Qed.

  Lemma R_assign D s g x v j :
    R D s g -> vr v j -> okj j ->
    R D (set_vars (set_heap s (x_heap s)) (set_decl (f_vars (cur (set_heap s (x_heap s)))) [x] v))
        (with_env g (env_set (s_env g) x j)).
  Proof.
    intros Rr Hv Hj.
    apply (R_update D s g); [exact Rr|apply set_vars_live|reflexivity|reflexivity|reflexivity|exact (R_out D s g Rr)|].
    intros y _. rewrite cur_set_vars. cbn [set_decl fold_left with_env s_env]. rewrite cur_set_heap.
    destruct (list_eq_dec ascii_dec x y) as [->|Hn].
    - right. rewrite var_val_set_same, env_get_set_same. split; assumption.
    - left. rewrite (var_val_set_other _ _ _ _ Hn), (env_get_set_other _ _ _ _ Hn). split; reflexivity.
  Qed.

  (* ---- unfolding equations of S (Spec/Sem.v), one per construct of the fragment -------------------------- *)
  Definition sem_while (f : nat) (blk : option closure) (test : jexpr) (body : list pnode) :=
    fix loop (budget : nat) (fuel2 : nat) (s : sstate) (m : list (bytes * mixin)) {struct fuel2}
      : sres (sstate * list (bytes * mixin)) :=
      match fuel2 with
      | O => SFuel
      | S f2 =>
        sdo a <- sem_expr efuel s test; let '(v, s1) := a in
        match v with
        | JB false => SOk (s1, m)
        | JB true =>
          match budget with
          | O =>
            sdo r <- sem_nodes globals f m blk s1 body; let '(s2, _) := r in
            sdo t <- sem_expr efuel s2 test; SErr (s_flags (snd t))
          | S b =>
            sdo r <- sem_nodes globals f m blk s1 body; let '(s2, m2) := r in loop b f2 s2 m2
          end
        | _ => SOff
        end
      end.

  Lemma sem_nodes_nil f m blk s : sem_nodes globals (S f) m blk s [] = SOk (s, m).
  Proof. reflexivity. Qed.
  Lemma sem_nodes_cons f m blk s n r :
    sem_nodes globals (S f) m blk s (n :: r) =
    (sdo a <- sem_node globals f m blk s n; let '(s1, m1) := a in sem_nodes globals f m1 blk s1 r).
  Proof. reflexivity. Qed.
  Lemma sem_text f m blk s t : sem_node globals (S f) m blk s (PText t) = SOk (put s t, m).
  Proof. reflexivity. Qed.
  Lemma sem_comment f m blk s : sem_node globals (S f) m blk s PComment = SOk (s, m).
  Proof. reflexivity. Qed.
  Lemma sem_block f m blk s l : sem_node globals (S f) m blk s (PBlock l) = sem_nodes globals f m blk s l.
  Proof. reflexivity. Qed.
  Lemma sem_cond f m blk s test cons_ alt :
    sem_node globals (S f) m blk s (PCond test cons_ alt) =
    (sdo a <- sem_expr efuel s test; let '(v, s1) := a in
     let '(b, s2) := to_boolean s1 v in
     if b then sem_nodes globals f m blk s2 cons_
     else match alt with Some a' => sem_node globals f m blk s2 a' | None => SOk (s2, m) end).
  Proof. reflexivity. Qed.
  Lemma sem_while_eq f m blk s test body :
    sem_node globals (S f) m blk s (PWhile test body) = sem_while f blk test body while_limit f s m.
  Proof. reflexivity. Qed.
  Lemma sem_tag f m blk s name inl body :
    sem_node globals (S f) m blk s (PTag name inl [] [] body) =
    (let s2 := put s (B "<" ++ name ++ [] ++ B ">") in
     if mem name void_tags then SOk (s2, m)
     else sdo b <- sem_nodes globals f m blk s2 body; let '(s3, m3) := b in SOk (put s3 (B "</" ++ name ++ B ">"), m3)).
  Proof. reflexivity. Qed.
  Definition sem_buffered (s : sstate) (e : jexpr) (esc : bool) (m : list (bytes * mixin)) :=
    (sdo s1 <- (sdo a <- sem_expr efuel s e; let '(v, s1) := a in
                sdo p <- print_string s1 v; let '(t, s2) := p in SOk (put s2 (if esc then escape t else t)));
     SOk (s1, m)).
  Lemma sem_code_print f m blk s e esc inl :
    printable e = true ->
    sem_node globals (S (S f)) m blk s (PCode [SExpr e] esc inl) =
    (sdo s1 <- (sdo a <- sem_expr efuel s e; let '(v, s1) := a in
                sdo p <- print_string s1 v; let '(t, s2) := p in SOk (put s2 (if esc then escape t else t)));
     SOk (s1, m)).
  Proof. intros Hp. destruct e; try discriminate Hp; reflexivity. Qed.
  Lemma sem_code_str f m blk s t esc inl :
    sem_node globals (S (S f)) m blk s (PCode [SExpr (JStr t)] esc inl) = sem_buffered s (JStr t) esc m.
  Proof. reflexivity. Qed.
  Lemma sem_code_num f m blk s z esc inl :
    sem_node globals (S (S f)) m blk s (PCode [SExpr (JNum z)] esc inl) = sem_buffered s (JNum z) esc m.
  Proof. reflexivity. Qed.
  Lemma sem_code_null f m blk s esc inl :
    sem_node globals (S (S f)) m blk s (PCode [SExpr JNull] esc inl) = sem_buffered s JNull esc m.
  Proof. reflexivity. Qed.
  Lemma sem_doctype f m blk s v :
    sem_node globals (S f) m blk s (PDoctype v) = SOk (put s (B "<!DOCTYPE " ++ v ++ B ">" ++ [ascii_of_N 10]), m).
  Proof. reflexivity. Qed.
  Lemma sem_code_bool f m blk s b esc inl :
    sem_node globals (S (S f)) m blk s (PCode [SExpr (JBool b)] esc inl) = sem_buffered s (JBool b) esc m.
  Proof. reflexivity. Qed.
  Lemma sem_code_assign f m blk s x r inl :
    sem_node globals (S (S f)) m blk s (PCode [SExpr (JAssign None (JId x) r)] false inl) =
    (sdo s1 <- (sdo a <- sem_expr efuel s r; let '(v, s1) := a in SOk (with_env s1 (env_set (s_env s1) x v)));
     SOk (s1, m)).
  Proof. reflexivity. Qed.
  Lemma sem_code_inc f m blk s x post inl :
    sem_node globals (S (S f)) m blk s (PCode [SExpr (JUn UInc post (JId x))] false inl) =
    (sdo s1 <- (match env_get (s_env s) x with
                | JN z => sdo v <- num (z + 1); SOk (with_env s (env_set (s_env s) x v))
                | _ => SOff
                end);
     SOk (s1, m)).
  Proof. reflexivity. Qed.
  Lemma sem_code_var f m blk s x i inl :
    sem_node globals (S (S f)) m blk s (PCode [SVar [JVar x (Some i)]] false inl) =
    (sdo s1 <- (sdo a <- sem_expr efuel s i; let '(v, s1) := a in SOk (with_env s1 (env_set (s_env s1) x v)));
     SOk (s1, m)).
  Proof. reflexivity. Qed.

  (* ---- the executor on the actions of the fragment ----------------------------------------------------- *)
  Local Strategy transparent [eval_cmd].
  Lemma inc_eval E h x z v :
    var_val (e_vars E) x = v -> v = VInt z \/ v = VNum z -> in_range (z + 1) = true ->
    eval_pipeline E h ([x], [[AIdent (B "__op__inc"); AVar x []]]) = Ok (VNum (z + 1), h).
  Proof.
    intros Ev Hr Hz. apply in_range_num_ok in Hz.
    unfold eval_pipeline, expr_fuel. cbn [snd].
    change 400 with (S (S (S (S (S 395))))).
    cbn [eval_cmds eval_cmd call_ident eval_args eval_operand bind beqb]. rewrite Ev.
    destruct Hr as [Hv|Hv]; rewrite Hv; cbn; unfold rt_incdec, kind_of, mknum; cbn; rewrite Hz; reflexivity.
  Qed.
  (* `null` prints nothing *)
  Lemma null_action defs f dot s : exec_node defs (S f) dot s (NAction ([], [[AIdent (B "null")]])) = Ok (emit s []).
  Proof.
    cbn [exec_node]. unfold eval_pipeline, expr_fuel. cbn [snd]. change 400 with (S (S (S 397))).
    cbn [eval_cmds eval_cmd call_ident bind]. rewrite beqb_refl. cbn [bind print_text of_opt].
    rewrite set_heap_same. reflexivity.
  Qed.
  (* `$c` as a whole pipeline *)
  Lemma avar_eval E h d c : eval_pipeline E h (d, [[AVar c []]]) = Ok (var_val (e_vars E) c, h).
  Proof.
    unfold eval_pipeline, expr_fuel. cbn [snd]. change 400 with (S (S 398)).
    cbn [eval_cmds eval_cmd bind valid]. reflexivity.
  Qed.

  Local Strategy opaque [eval_cmd eval_cmds eval_pipeline].
  Lemma decl_action defs f dot s x a v :
    eval_pipeline (env_of s dot) (x_heap s) ([x], [[a]]) = Ok (v, x_heap s) ->
    exec_node defs (S f) dot s (NAction ([x], [[a]])) =
    Ok (set_vars (set_heap s (x_heap s)) (set_decl (f_vars (cur (set_heap s (x_heap s)))) [x] v)).
  Proof. intros He. cbn [exec_node]. rewrite He. reflexivity. Qed.

  Lemma print_string_flags g v t g2 : print_string g v = SOk (t, g2) -> exists l, s_flags g2 = l ++ s_flags g.
  Proof.
    unfold print_string, tostr. destruct v; intros H;
      try (inversion H; subst; exists []; reflexivity);
      destruct (to_string _ _ _); inversion H; subst; cbn [is_ref];
      first [exists []; reflexivity | exists [fl_print_ref]; reflexivity].
  Qed.

  Lemma print_string_noerr g v fl : print_string g v <> SErr fl.
  Proof. unfold print_string, tostr. destruct v; try discriminate; destruct (to_string _ _ _); discriminate. Qed.

  Lemma cons_not_self {A} (x : A) l : x :: l <> l.
  Proof. intros H. apply (f_equal (@length A)) in H. cbn in H. lia. Qed.

  Lemma print_string_same g v t g2 : print_string g v = SOk (t, g2) -> s_flags g2 = s_flags g -> g2 = g.
  Proof.
    unfold print_string, tostr. destruct v; intros H Hf;
      try (inversion H; subst; reflexivity);
      destruct (to_string _ _ _); inversion H; subst; cbn [is_ref] in *; try reflexivity;
      exfalso; exact (cons_not_self _ _ Hf).
  Qed.

  (* ---- what is assumed about expressions (discharged for the scalar fragment in Proofs/C01EvalProofs.v) -- *)
  Definition lx := lexpr funcs goodb.
  Definition lxd := lexprd funcs goodb.
  (* the variables an expression mentions hold related scalars *)
  Definition on_vars (e : jexpr) (vs : vars) (env : list (bytes * jv)) : Prop :=
    forall x, In x (evars e) -> vr (var_val vs x) (env_get env x) /\ okj (env_get env x).

  Hypothesis H_eval : forall e, goodb e = true ->
    forall E h g j g', on_vars e (e_vars E) (s_env g) ->
      sem_expr efuel g e = SOk (j, g') -> s_flags g' = s_flags g ->
      exists a v, lx e = Some a /\ (forall d, eval_pipeline E h (d, [[a]]) = Ok (v, h)) /\ vr v j /\ okj j.
  Hypothesis H_same : forall e, goodb e = true ->
    forall g j g', sem_expr efuel g e = SOk (j, g') -> s_flags g' = s_flags g -> g' = g.
  Hypothesis H_mono : forall e, goodb e = true ->
    forall g j g', sem_expr efuel g e = SOk (j, g') -> exists l, s_flags g' = l ++ s_flags g.
  Hypothesis H_noerr : forall e, goodb e = true -> forall g fl, sem_expr efuel g e <> SErr fl.
  Hypothesis H_fv : forall e, goodb e = true -> forall x, In x (evars e) -> In x names.
  Hypothesis H_print : forall e, goodb e = true -> printable e = true ->
    forall defs f dot s g j t, on_vars e (f_vars (cur s)) (s_env g) ->
      sem_expr efuel g e = SOk (j, g) -> print_string g j = SOk (t, g) ->
      exists a, lx e = Some a /\
                exec_node defs (S f) dot s (NAction ([], [a] :: esc_cmds false)) = Ok (emit s (escape t)).
  (* the test of a when: `__op__eql e w` decides as === does *)
  Hypothesis H_case : forall e w, goodb (JBin BSEq e w) = true ->
    forall E h g v wv, on_vars e (e_vars E) (s_env g) -> on_vars w (e_vars E) (s_env g) ->
      sem_expr efuel g e = SOk (v, g) -> sem_expr efuel g w = SOk (wv, g) ->
      forall ea wa, lx e = Some ea -> lx w = Some wa ->
      forall b, jv_strict_eq v wv = Some b ->
      exists vb, eval_pipeline E h (eql_pipe ea wa) = Ok (vb, h) /\ truthy h vb = Ok b.

  Lemma good_lx e a : lx e = Some a -> goodb e = true.
  Proof. unfold lx, lexpr. destruct (goodb e); [reflexivity|discriminate]. Qed.
  Lemma lxd_inv D e a : lxd D e = Some a -> alive D e = true /\ lx e = Some a.
  Proof. unfold lxd, lexprd. destruct (alive D e); [intros H; split; [reflexivity|exact H]|discriminate]. Qed.

  Lemma R_on_vars D s g e : R D s g -> goodb e = true -> alive D e = true -> on_vars e (f_vars (cur s)) (s_env g).
  Proof.
    intros Rr Hg Ha x Hx. unfold alive in Ha. rewrite forallb_forall in Ha. specialize (Ha x Hx).
    apply negb_true_iff in Ha. pose proof (H_fv e Hg x Hx) as Hn.
    split; [exact (R_env D s g Rr x Ha Hn)|exact (R_rng D s g Rr x Ha Hn)].
  Qed.

  Let lw := lower funcs goodb.

  (* ---- S on each and case: the local loops of Spec/Sem.v named ------------------------------------------------ *)
  Definition each_env (v : bytes) (k : option bytes) (env : list (bytes * jv)) (kv vv : jv) : list (bytes * jv) :=
    let e1 := env_set env v vv in match k with Some k' => env_set e1 k' kv | None => e1 end.
  Definition sem_iter (f : nat) (blk : option closure) (v : bytes) (k : option bytes) (body : list pnode) :=
    fix go (fuel2 : nat) (s : sstate) (m : list (bytes * mixin)) (pairs : list (jv * jv)) {struct pairs}
      : sres (sstate * list (bytes * mixin)) :=
      match pairs with
      | [] => SOk (s, m)
      | (kv, vv) :: r =>
        sdo b <- sem_nodes globals f m blk (with_env s (each_env v k (s_env s) kv vv)) body; let '(s2, m2) := b in
        go fuel2 s2 m2 r
      end.
  Definition each_restore (v : bytes) (k : option bytes) (saved_v saved_k : option jv) (s : sstate) : sstate :=
    let e1 := match saved_v with
              | Some x => env_set (s_env s) v x
              | None => filter (fun p => negb (beqb (fst p) v)) (s_env s) end in
    let e2 := match k with
              | Some k' => match saved_k with
                           | Some x => env_set e1 k' x
                           | None => filter (fun p => negb (beqb (fst p) k')) e1 end
              | None => e1 end in
    with_env s e2.
  Definition jindexed (items : list jv) : list (jv * jv) :=
    combine (map (fun i => JN (Z.of_nat i)) (seq 0 (length items))) items.
  Definition each_tail (f : nat) (blk : option closure) (v : bytes) (k : option bytes) (body : list pnode)
             (saved_v saved_k : option jv) (m : list (bytes * mixin)) (c : jv) (s1 : sstate)
    : sres (sstate * list (bytes * mixin)) :=
    match c with
    | JA l =>
      match jget (s_heap s1) l with
      | Some (JArrO items) =>
        sdo r <- sem_iter f blk v k body O s1 m (jindexed items);
        let '(s2, m2) := r in SOk (each_restore v k saved_v saved_k s2, m2)
      | _ => SOff
      end
    | JO l =>
      match jget (s_heap s1) l with
      | Some (JObjO props) =>
        let s1' := if existsb (Nat.eqb l) (s_grown s1) then flag s1 fl_obj_grown else s1 in
        sdo r <- sem_iter f blk v k body O s1' m (map (fun p => (JS (fst p), snd p)) props);
        let '(s2, m2) := r in SOk (each_restore v k saved_v saved_k s2, m2)
      | _ => SOff
      end
    | JUndef | JNul => SOk (s1, m)
    | _ => SOff
    end.
  Lemma sem_each_eq f m blk s v k obj body :
    sem_node globals (S f) m blk s (PEach v k obj body) =
    (sdo a <- sem_expr efuel s obj; let '(c, s0) := a in
     let saved_v := lookup v (s_env s0) in
     let saved_k := match k with Some k' => lookup k' (s_env s0) | None => None end in
     let s1 := match saved_v, saved_k with None, None => s0 | _, _ => flag s0 fl_loop_shadow end in
     each_tail f blk v k body saved_v saved_k m c s1).
  Proof. reflexivity. Qed.

  Definition case_go (v : jv) :=
    fix go (s : sstate) (l : list (option jexpr * list pnode)) {struct l} : sres (option (list pnode) * sstate) :=
      match l with
      | [] => SOk (None, s)
      | (None, _) :: r => go s r
      | (Some w, body) :: r =>
        sdo b <- sem_expr efuel s w; let '(wv, s1) := b in
        match jv_strict_eq v wv with
        | Some true => SOk (Some body, s1)
        | Some false => go s1 r
        | None => SOff
        end
      end.
  Definition case_run (f : nat) (m : list (bytes * mixin)) (blk : option closure)
             (whens : list (option jexpr * list pnode)) (hit : option (list pnode)) (s2 : sstate) :=
    match hit with
    | Some body => sem_nodes globals f m blk s2 body
    | None => match case_default whens with Some body => sem_nodes globals f m blk s2 body | None => SOk (s2, m) end
    end.
  Lemma sem_case_eq f m blk s e whens :
    sem_node globals (S f) m blk s (PCase e whens) =
    (sdo a <- sem_expr efuel s e; let '(v, s1) := a in
     sdo c <- case_go v s1 whens; let '(hit, s2) := c in case_run f m blk whens hit s2).
  Proof. reflexivity. Qed.

  Lemma sem_id_eq s x : sem_expr efuel s (JId x) = SOk (env_get (s_env s) x, s).
  Proof. reflexivity. Qed.
  Lemma sem_str_eq s t : sem_expr efuel s (JStr t) = SOk (JS t, s).
  Proof. reflexivity. Qed.
  Lemma sem_num_eq s z : sem_expr efuel s (JNum z) = (sdo v <- num z; SOk (v, s)).
  Proof. reflexivity. Qed.
  Lemma sem_bool_eq s b : sem_expr efuel s (JBool b) = SOk (JB b, s).
  Proof. reflexivity. Qed.
  Lemma sem_null_eq s : sem_expr efuel s JNull = SOk (JNul, s).
  Proof. reflexivity. Qed.

  (* ---- inversion of the lowering ------------------------------------------------------------------------- *)
  Inductive code_shape (D : list bytes) (stmts : list jstmt) (esc : bool) (t : list tnode) : Prop :=
  | CS_assign x r a : stmts = [SExpr (JAssign None (JId x) r)] -> esc = false -> lxd D r = Some a ->
                      t = [NAction ([x], [[a]])] -> code_shape D stmts esc t
  | CS_inc x post : stmts = [SExpr (JUn UInc post (JId x))] -> esc = false -> goodb (JId x) = true -> mem x D = false ->
                    t = [NAction ([x], [[AIdent (B "__op__inc"); AVar x []]])] -> code_shape D stmts esc t
  | CS_var x i a : stmts = [SVar [JVar x (Some i)]] -> esc = false -> lxd D i = Some a ->
                   t = [NAction ([x], [[a]])] -> code_shape D stmts esc t
  | CS_print e a : stmts = [SExpr e] -> printable e = true -> esc = true -> lxd D e = Some a ->
                   t = [NAction ([], [a] :: esc_cmds (negb esc))] -> code_shape D stmts esc t
  | CS_str s : stmts = [SExpr (JStr s)] -> esc = true \/ escape s = s -> t = [NText (escape s)] -> code_shape D stmts esc t
  | CS_num z : stmts = [SExpr (JNum z)] -> t = [NText (show_Z z)] -> code_shape D stmts esc t
  | CS_bool b : stmts = [SExpr (JBool b)] -> t = [NText (if b then B "true" else B "false")] -> code_shape D stmts esc t
  | CS_null : stmts = [SExpr JNull] -> t = [NAction ([], [[AIdent (B "null")]])] -> code_shape D stmts esc t.

  Lemma lower_code_inv D stmts esc t : lower_code funcs goodb D stmts esc = Some t -> code_shape D stmts esc t.
  Proof.
    unfold lower_code. fold lxd. intros H.
    destruct stmts as [|s1 [|s2 rest]]; try discriminate H.
    destruct s1 as [e|ds|c t0 e0|l|]; try discriminate H.
    - (* an expression statement *)
      destruct (printable e) eqn:Hp.
      + (* the generic buffered form *)
        assert (G : (if printable e && esc then match lxd D e with Some a => Some [NAction ([], [a] :: esc_cmds (negb esc))] | None => None end
                     else None) = Some t).
        { destruct e; try discriminate Hp; exact H. }
        rewrite Hp in G. destruct esc; [|discriminate G]. cbn [andb] in G.
        destruct (lxd D e) as [a|] eqn:L; [|discriminate G]. injection G as <-.
        eapply CS_print; [reflexivity|exact Hp|reflexivity|exact L|reflexivity].
      + destruct e; try discriminate Hp; try (cbn [printable andb] in H; discriminate H).
        * (* a number *) injection H as <-. eapply CS_num; reflexivity.
        * (* a string *)
          destruct (plain_text (escape s)); [|discriminate H]. cbn [andb] in H.
          destruct esc; cbn [orb] in H.
          -- injection H as <-. eapply CS_str; [reflexivity|left; reflexivity|reflexivity].
          -- destruct (beqb (escape s) s) eqn:E; [|discriminate H]. injection H as <-. apply beqb_eq in E.
             eapply CS_str; [reflexivity|right; exact E|reflexivity].
        * (* a boolean *) injection H as <-. eapply CS_bool; reflexivity.
        * (* null *) injection H as <-. eapply CS_null; reflexivity.
        * (* unary: only ++ on an identifier *)
          destruct op; try (cbn [printable andb] in H; discriminate H).
          destruct e; try (cbn [printable andb] in H; discriminate H).
          destruct (esc || negb (is_ident x) || known funcs x || negb (goodb (JId x)) || mem x D) eqn:C; [discriminate H|].
          injection H as <-.
          apply orb_false_iff in C. destruct C as [C Cd]. apply orb_false_iff in C. destruct C as [C Cg].
          apply orb_false_iff in C. destruct C as [C _]. apply orb_false_iff in C. destruct C as [Ce _].
          apply negb_false_iff in Cg.
          eapply CS_inc; [reflexivity|exact Ce|exact Cg|exact Cd|reflexivity].
        * (* assignment: only a plain one to an identifier *)
          destruct op; try (cbn [printable andb] in H; discriminate H).
          destruct e1; try (cbn [printable andb] in H; discriminate H).
          destruct (esc || negb (is_ident x) || known funcs x) eqn:C; [discriminate H|].
          apply orb_false_iff in C. destruct C as [C _]. apply orb_false_iff in C. destruct C as [Ce _].
          destruct (lxd D e2) as [a|] eqn:L; [|discriminate H]. injection H as <-.
          eapply CS_assign; [reflexivity|exact Ce|exact L|reflexivity].
    - (* var *)
      destruct ds as [|d1 [|d2 dr]]; try discriminate H; try (destruct d1; try discriminate H; destruct init; discriminate H).
      destruct d1; try discriminate H.
      destruct init as [i|]; try discriminate H.
      destruct (esc || negb (is_ident x)) eqn:C; [discriminate H|].
      apply orb_false_iff in C. destruct C as [Ce _].
      destruct (lxd D i) as [a|] eqn:L; [|discriminate H]. injection H as <-.
      eapply CS_var; [reflexivity|exact Ce|exact L|reflexivity].
    - (* several statements: not in the fragment *)
      exfalso.
      repeat match type of H with (match ?x with _ => _ end) = Some _ => destruct x; try discriminate H end.
  Qed.

  Lemma lower_list_cons f n r t :
    lower_list f (n :: r) = Some t -> exists a b, f n = Some a /\ lower_list f r = Some b /\ t = a ++ b.
  Proof.
    cbn [lower_list]. destruct (f n) as [a|]; [|discriminate]. destruct (lower_list f r) as [b|]; [|discriminate].
    intros H; inversion H; subst. eauto.
  Qed.

  Lemma lower_each_inv D fl v k obj body t :
    lw D (S fl) (PEach v k obj body) = Some t ->
    exists c tb, obj = JId c /\ mem c D = false /\ mem v D = true /\
                 (forall k', k = Some k' -> mem k' D = true /\ k' <> v) /\
                 lower_list (lw (undead (v :: opt_list k) D) fl) body = Some tb /\
                 t = [NRange (opt_list k ++ [v], [[AVar c []]]) tb []].
  Proof.
    unfold lw. cbn [lower]. destruct obj; try discriminate. 
    match goal with |- (if ?c then _ else _) = _ -> _ => destruct c eqn:C end; [discriminate|].
    destruct (lower_list (lower funcs goodb (undead (v :: opt_list k) D) fl) body) as [tb|] eqn:Eb; [|discriminate].
    intros H. injection H as <-.
    apply orb_false_iff in C. destruct C as [C Cvk]. apply orb_false_iff in C. destruct C as [C Ckd].
    apply orb_false_iff in C. destruct C as [C Cvd]. apply orb_false_iff in C. destruct C as [C Ccd].
    apply negb_false_iff in Cvd. apply negb_false_iff in Ckd.
    exists x, tb. split; [reflexivity|]. split; [exact Ccd|]. split; [exact Cvd|]. split; [|split; reflexivity].
    intros k' ->. cbn [opt_list forallb mem existsb] in Ckd, Cvk. rewrite andb_true_r in Ckd. rewrite orb_false_r in Cvk.
    split; [exact Ckd|]. intros ->. rewrite beqb_refl in Cvk. discriminate Cvk.
  Qed.

  Lemma lower_case_inv D fl e whens t :
    lw D (S fl) (PCase e whens) = Some t ->
    exists ea el, lxd D e = Some ea /\
                  match case_default whens with Some b => lower_list (lw D fl) b = Some el | None => el = [] end /\
                  lower_whens funcs goodb (lower_list (lw D fl)) D e ea el whens = Some t.
  Proof.
    unfold lw. cbn [lower]. fold lxd. destruct (has_when whens); [|discriminate]. cbn [negb].
    destruct (lxd D e) as [ea|]; [|discriminate].
    destruct (case_default whens) as [b|].
    - destruct (lower_list (lower funcs goodb D fl) b) as [el|] eqn:Eb; [|discriminate].
      intros H. exists ea, el. split; [reflexivity|]. split; [reflexivity|exact H].
    - intros H. exists ea, []. split; [reflexivity|]. split; [reflexivity|exact H].
  Qed.

  (* ---- S only ever adds flags (on the fragment) --------------------------------------------------------- *)
  Definition grows (g : sstate) (r : sres (sstate * list (bytes * mixin))) : Prop :=
    match r with
    | SOk (g', _) => exists l, s_flags g' = l ++ s_flags g
    | SErr fl => exists l, fl = l ++ s_flags g
    | _ => True
    end.

  Lemma grows_refl g m : grows g (SOk (g, m)).
  Proof. exists []. reflexivity. Qed.
  Lemma grows_trans g g1 r : (exists l, s_flags g1 = l ++ s_flags g) -> grows g1 r -> grows g r.
  Proof.
    intros [l1 H1] H. destruct r as [[g' m']|fl| |]; cbn in *; try exact I;
      destruct H as [l2 H2]; exists (l2 ++ l1); rewrite H2, H1, app_assoc; reflexivity.
  Qed.
  Lemma grows_same g g1 r : s_flags g1 = s_flags g -> grows g1 r -> grows g r.
  Proof. intros H. apply grows_trans. exists []. exact H. Qed.
  Lemma grows_bind g r k :
    grows g r -> (forall g1 m1, r = SOk (g1, m1) -> grows g1 (k (g1, m1))) -> grows g (sbind r k).
  Proof.
    intros H1 H2. destruct r as [[g1 m1]|fl| |]; cbn [sbind]; try exact I.
    - exact (grows_trans g g1 _ H1 (H2 g1 m1 eq_refl)).
    - exact H1.
  Qed.

  Lemma expr_grows g e a : lx e = Some a ->
    match sem_expr efuel g e with
    | SOk (_, g') => exists l, s_flags g' = l ++ s_flags g
    | SErr _ => False
    | _ => True
    end.
  Proof.
    intros Hl. destruct (sem_expr efuel g e) as [[j g']|fl| |] eqn:E; try exact I.
    - exact (H_mono e (good_lx e a Hl) g j g' E).
    - exact (H_noerr e (good_lx e a Hl) g fl E).
  Qed.
  Lemma exprd_grows D g e a : lxd D e = Some a ->
    match sem_expr efuel g e with
    | SOk (_, g') => exists l, s_flags g' = l ++ s_flags g
    | SErr _ => False
    | _ => True
    end.
  Proof. intros Hl. exact (expr_grows g e a (proj2 (lxd_inv D e a Hl))). Qed.

  Lemma to_boolean_flags g v b g2 : to_boolean g v = (b, g2) -> exists l, s_flags g2 = l ++ s_flags g.
  Proof.
    unfold to_boolean. destruct v; intros H; try (inversion H; subst; exists []; reflexivity).
    - destruct (jget (s_heap g) l) as [[[|x r]|]|]; inversion H; subst;
        first [exists []; reflexivity | exists [fl_empty_truthy]; reflexivity].
    - destruct (jget (s_heap g) l) as [[|[|x r]]|]; inversion H; subst;
        first [exists []; reflexivity | exists [fl_empty_truthy]; reflexivity].
  Qed.

  Definition G_nodes (fs : nat) : Prop := forall ns m blk g D fl t,
    lower_list (lw D fl) ns = Some t -> grows g (sem_nodes globals fs m blk g ns).
  Definition G_node (fs : nat) : Prop := forall n m blk g D fl t,
    lw D fl n = Some t -> grows g (sem_node globals fs m blk g n).

  Lemma while_grows f blk test body a D fl tb :
    G_nodes f -> lx test = Some a -> lower_list (lw D fl) body = Some tb ->
    forall fuel2 budget g m, grows g (sem_while f blk test body budget fuel2 g m).
  Proof.
    intros IH Ht Hb. induction fuel2 as [|f2 IHf]; intros budget g m; [exact I|].
    cbn [sem_while]. pose proof (expr_grows g test a Ht) as Hg.
    destruct (sem_expr efuel g test) as [[v g1]|fl0| |]; cbn [sbind]; try exact I; try contradiction.
    destruct v as [| |[|]| | | |]; try exact I.
    - destruct budget as [|b].
      + apply (grows_trans g g1 _ Hg). apply grows_bind; [exact (IH body m blk g1 D fl tb Hb)|].
        intros g2 m2 E2. pose proof (expr_grows g2 test a Ht) as Hg2.
        destruct (sem_expr efuel g2 test) as [[v2 g3]|fl0| |]; cbn [sbind]; try exact I; try contradiction.
        cbn [snd]. exact Hg2.
      + apply (grows_trans g g1 _ Hg). apply grows_bind; [exact (IH body m blk g1 D fl tb Hb)|].
        intros g2 m2 E2. apply IHf.
    - cbn. exact Hg.
  Qed.

  Lemma buffered_grows g e esc m :
    match sem_expr efuel g e with
    | SOk (_, g') => exists l, s_flags g' = l ++ s_flags g
    | SErr _ => False
    | _ => True
    end -> grows g (sem_buffered g e esc m).
  Proof.
    intros Hg. unfold sem_buffered.
    destruct (sem_expr efuel g e) as [[v g1]|fl0| |]; cbn [sbind]; try exact I; try contradiction.
    destruct (print_string g1 v) as [[tx g2]|fl1| |] eqn:Ep; cbn [sbind]; try exact I;
      try (exfalso; exact (print_string_noerr g1 v fl1 Ep)).
    destruct (print_string_flags g1 v tx g2 Ep) as [l2 H2]. destruct Hg as [l1 H1].
    exists (l2 ++ l1). cbn. rewrite H2, H1, app_assoc. reflexivity.
  Qed.

  Lemma code_grows f0 m blk g D stmts esc inl t :
    code_shape D stmts esc t -> grows g (sem_node globals (S f0) m blk g (PCode stmts esc inl)).
  Proof.
    intros Hs. destruct f0 as [|f]; [destruct Hs; subst; exact I|]. revert Hs.
    intros [x r a -> -> La _|x post -> -> _ _ _|x i a -> -> La _|e a -> Hp -> La _|s -> _ _|z -> _|b -> _| -> _].
    - rewrite sem_code_assign. pose proof (exprd_grows D g r a La) as Hg.
      destruct (sem_expr efuel g r) as [[v g1]|fl0| |]; cbn [sbind]; try exact I; try contradiction. exact Hg.
    - rewrite sem_code_inc. destruct (env_get (s_env g) x); cbn [sbind]; try exact I.
      unfold num. destruct (in_range (z + 1)); cbn [sbind]; [exists []; reflexivity|exact I].
    - rewrite sem_code_var. pose proof (exprd_grows D g i a La) as Hg.
      destruct (sem_expr efuel g i) as [[v g1]|fl0| |]; cbn [sbind]; try exact I; try contradiction. exact Hg.
    - rewrite (sem_code_print f m blk g e true inl Hp). fold (sem_buffered g e true m). apply buffered_grows. exact (exprd_grows D g e a La).
    - rewrite sem_code_str. apply buffered_grows. rewrite sem_str_eq. exists []. reflexivity.
    - rewrite sem_code_num. apply buffered_grows. rewrite sem_num_eq. unfold num.
      destruct (in_range z); cbn [sbind]; [exists []; reflexivity|exact I].
    - rewrite sem_code_bool. apply buffered_grows. rewrite sem_bool_eq. exists []. reflexivity.
    - rewrite sem_code_null. apply buffered_grows. rewrite sem_null_eq. exists []. reflexivity.
  Qed.

  (* each *)
  Lemma iter_grows f blk v k body D fl tb :
    G_nodes f -> lower_list (lw D fl) body = Some tb ->
    forall pairs g m, grows g (sem_iter f blk v k body O g m pairs).
  Proof.
    intros IH Hb. induction pairs as [|[kv vv] r IHr]; intros g m; [apply grows_refl|].
    cbn [sem_iter]. apply grows_bind.
    - apply (grows_same g (with_env g (each_env v k (s_env g) kv vv))); [reflexivity|].
      exact (IH body m blk _ D fl tb Hb).
    - intros g1 m1 _. apply IHr.
  Qed.

  Lemma each_tail_grows f blk v k body D fl tb sv sk m c g :
    G_nodes f -> lower_list (lw D fl) body = Some tb -> grows g (each_tail f blk v k body sv sk m c g).
  Proof.
    intros IH Hb. unfold each_tail. destruct c; try exact I; try apply grows_refl.
    - destruct (jget (s_heap g) l) as [[items|props]|]; try exact I.
      apply grows_bind; [exact (iter_grows f blk v k body D fl tb IH Hb _ g m)|].
      intros g1 m1 _. exists []. reflexivity.
    - destruct (jget (s_heap g) l) as [[items|props]|]; try exact I. cbv zeta.
      apply (grows_trans g (if existsb (Nat.eqb l) (s_grown g) then flag g fl_obj_grown else g)).
      + destruct (existsb (Nat.eqb l) (s_grown g)); [exists [fl_obj_grown]|exists []]; reflexivity.
      + apply grows_bind; [exact (iter_grows f blk v k body D fl tb IH Hb _ _ m)|].
        intros g1 m1 _. exists []. reflexivity.
  Qed.

  Lemma each_grows f blk v k c body D fl tb m g :
    G_nodes f -> lower_list (lw D fl) body = Some tb ->
    grows g (sem_node globals (S f) m blk g (PEach v k (JId c) body)).
  Proof.
    intros IH Hb. rewrite sem_each_eq, sem_id_eq. cbn [sbind]. cbv zeta.
    match goal with |- grows g (each_tail _ _ _ _ _ _ _ _ _ ?s1) => apply (grows_trans g s1) end.
    - destruct (lookup v (s_env g)); [exists [fl_loop_shadow]; reflexivity|].
      destruct (match k with Some k' => lookup k' (s_env g) | None => None end);
        [exists [fl_loop_shadow]|exists []]; reflexivity.
    - exact (each_tail_grows f blk v k body D fl tb _ _ m _ _ IH Hb).
  Qed.

  (* case: the tests only add flags; the body that is hit is one the lowering accepted *)
  Lemma case_go_grows lowers D e ea el v : forall l t g,
    lower_whens funcs goodb lowers D e ea el l = Some t ->
    match case_go v g l with
    | SOk (hit, g') => (exists l0, s_flags g' = l0 ++ s_flags g) /\
                       match hit with Some body => exists b, lowers body = Some b | None => True end
    | SErr _ => False
    | _ => True
    end.
  Proof.
    induction l as [|[[w|] body] r IH]; intros t g Hl.
    - cbn [case_go]. split; [exists []; reflexivity|exact I].
    - cbn [lower_whens] in Hl. fold lxd in Hl. destruct (goodb (JBin BSEq e w)); [|discriminate].
      destruct (lxd D w) as [wa|] eqn:Lw; [|discriminate].
      destruct (lowers body) as [b|] eqn:Lb; [|discriminate].
      destruct (lower_whens funcs goodb lowers D e ea el r) as [rest|] eqn:Lr; [|discriminate].
      cbn [case_go]. pose proof (exprd_grows D g w wa Lw) as Hg.
      destruct (sem_expr efuel g w) as [[wv g1]|fl0| |]; cbn [sbind]; try exact I; try contradiction.
      destruct (jv_strict_eq v wv) as [[|]|]; try exact I.
      + split; [exact Hg|exists b; exact Lb].
      + specialize (IH rest g1 eq_refl). destruct (case_go v g1 r) as [[hit g']|fl0| |]; try exact I; try contradiction.
        destruct IH as [[l2 H2] Hh]. destruct Hg as [l1 H1]. split; [|exact Hh].
        exists (l2 ++ l1). rewrite H2, H1, app_assoc. reflexivity.
    - cbn [lower_whens] in Hl. cbn [case_go]. exact (IH t g Hl).
  Qed.

  Lemma case_run_grows f m blk whens D fl el hit g :
    G_nodes f ->
    match case_default whens with Some b => lower_list (lw D fl) b = Some el | None => el = [] end ->
    match hit with Some body => exists b, lower_list (lw D fl) body = Some b | None => True end ->
    grows g (case_run f m blk whens hit g).
  Proof.
    intros IH Hd Hh. unfold case_run. destruct hit as [body|].
    - destruct Hh as [b Hb]. exact (IH body m blk g D fl b Hb).
    - destruct (case_default whens) as [body|]; [exact (IH body m blk g D fl el Hd)|apply grows_refl].
  Qed.

  Lemma case_grows f m blk g D fl e whens t :
    G_nodes f -> lw D (S fl) (PCase e whens) = Some t -> grows g (sem_node globals (S f) m blk g (PCase e whens)).
  Proof.
    intros IH Hl. destruct (lower_case_inv D fl e whens t Hl) as [ea [el [Le [Hd Hw]]]].
    rewrite sem_case_eq. pose proof (exprd_grows D g e ea Le) as Hg.
    destruct (sem_expr efuel g e) as [[v g1]|fl0| |]; cbn [sbind]; try exact I; try contradiction.
    pose proof (case_go_grows _ D e ea el v whens t g1 Hw) as Hc.
    destruct (case_go v g1 whens) as [[hit g2]|fl0| |]; cbn [sbind]; try exact I; try contradiction.
    destruct Hc as [Hg2 Hh]. apply (grows_trans g g1 _ Hg). apply (grows_trans g1 g2 _ Hg2).
    exact (case_run_grows f m blk whens D fl el hit g2 IH Hd Hh).
  Qed.

  Lemma grows_all fs : G_nodes fs /\ G_node fs.
  Proof.
    induction fs as [|fs [IHns IHn]]; [split; intro; intros; exact I|]. split.
    - intros ns m blk g D fl t Hl. destruct ns as [|n r]; [apply grows_refl|].
      rewrite sem_nodes_cons. destruct (lower_list_cons _ _ _ _ Hl) as [ta [tb [Ha [Hb _]]]].
      apply grows_bind; [exact (IHn n m blk g D fl ta Ha)|].
      intros g1 m1 _. exact (IHns r m1 blk g1 D fl tb Hb).
    - intros n m blk g D fl t Hl. destruct fl as [|fl]; [discriminate|].
      destruct n as [name inl attrs ablocks body|txt|stmts esc inl|test cons_ alt|e whens|v k obj body|test body
                     |name params body|name args attrs body| |dv|l|]; try discriminate Hl.
      + (* tag *)
        unfold lw in Hl. cbn [lower] in Hl.
        destruct attrs; [|discriminate]. destruct ablocks; [|discriminate].
        destruct (has_delim name); [discriminate|].
        destruct (lower_list (lower funcs goodb D fl) body) as [b|] eqn:Eb; [|discriminate].
        rewrite sem_tag. cbv zeta. destruct (mem name void_tags); [exists []; reflexivity|].
        apply grows_bind.
        * apply (grows_trans g (put g (B "<" ++ name ++ [] ++ B ">"))); [exists []; reflexivity|].
          exact (IHns body m blk _ D fl b Eb).
        * intros g3 m3 _. exists []. reflexivity.
      + (* text *) rewrite sem_text. exists []. reflexivity.
      + (* code *)
        apply (code_grows fs m blk g D stmts esc inl t). unfold lw in Hl. cbn [lower] in Hl.
        exact (lower_code_inv D stmts esc t Hl).
      + (* if *)
        unfold lw in Hl. cbn [lower] in Hl. fold lxd in Hl.
        destruct (lxd D test) as [ta|] eqn:Lt; [|discriminate].
        destruct (lower_list (lower funcs goodb D fl) cons_) as [th|] eqn:Ec; [|discriminate].
        rewrite sem_cond. pose proof (exprd_grows D g test ta Lt) as Hg.
        destruct (sem_expr efuel g test) as [[v g1]|fl0| |]; cbn [sbind]; try exact I; try contradiction.
        destruct (to_boolean g1 v) as [b g2] eqn:Eb. pose proof (to_boolean_flags g1 v b g2 Eb) as Hg2.
        apply (grows_trans g g1 _ Hg). apply (grows_trans g1 g2 _ Hg2).
        destruct b; [exact (IHns cons_ m blk g2 D fl th Ec)|].
        destruct alt as [a'|]; [|apply grows_refl].
        destruct (lower funcs goodb D fl a') as [el|] eqn:Ea; [|discriminate].
        exact (IHn a' m blk g2 D fl el Ea).
      + (* case *) exact (case_grows fs m blk g D fl e whens t IHns Hl).
      + (* each *)
        destruct (lower_each_inv D fl v k obj body t Hl) as [c [tb [-> [_ [_ [_ [Hb _]]]]]]].
        exact (each_grows fs blk v k c body _ fl tb m g IHns Hb).
      + (* while *)
        unfold lw in Hl. cbn [lower] in Hl. fold lxd in Hl.
        destruct (lxd D test) as [ta|] eqn:Lt; [|discriminate].
        destruct (lower_list (lower funcs goodb D fl) body) as [tb|] eqn:Ebd; [|discriminate].
        rewrite sem_while_eq.
        exact (while_grows fs blk test body ta D fl tb IHns (proj2 (lxd_inv D test ta Lt)) Ebd fs while_limit g m).
      + (* doctype *) rewrite sem_doctype. exists []. reflexivity.
      + rewrite sem_block. unfold lw in Hl. cbn [lower] in Hl. exact (IHns l m blk g D fl t Hl).
      + rewrite sem_comment. apply grows_refl.
  Qed.

  (* ---- the simulation -------------------------------------------------------------------------------------- *)
  (* [M f]: an execution of the model with fuel f; [r]: what S says *)
  Definition sim_res (D : list bytes) (M : nat -> res xstate) (g : sstate) (m : list (bytes * mixin))
             (r : sres (sstate * list (bytes * mixin))) : Prop :=
    match r with
    | SOk (g', m') => s_flags g' = s_flags g -> m' = m /\ exists f s', M f = Ok s' /\ R D s' g'
    | SErr fl => fl = s_flags g -> exists f, M f = Panic
    | _ => True
    end.
  Definition sim_ok (D : list bytes) (dot : val) (s : xstate) (t : list tnode) :=
    sim_res D (fun f => exec_nodes [] f dot s t).

  (* S moves on (an expression, a flag) before the part that is simulated *)
  Lemma sim_pre D M g g1 m r :
    (exists l, s_flags g1 = l ++ s_flags g) -> grows g1 r ->
    (s_flags g1 = s_flags g -> sim_res D M g1 m r) -> sim_res D M g m r.
  Proof.
    intros [l1 E1] G H. destruct r as [[g' m']|fl| |]; try exact I.
    - intros Hf. destruct G as [l2 E2]. rewrite E2, E1 in Hf. destruct (flags_split _ _ _ Hf) as [-> ->].
      cbn [app] in E1, E2. exact (H E1 E2).
    - intros Hf. destruct G as [l2 E2]. rewrite E2, E1 in Hf. destruct (flags_split _ _ _ Hf) as [-> ->].
      cbn [app] in E1, E2. exact (H E1 E2).
  Qed.
  (* a raised flag: nothing to show *)
  Lemma sim_flagged D M g k m r : grows (flag g k) r -> sim_res D M g m r.
  Proof.
    intros G. apply (sim_pre D M g (flag g k) m r); [exists [k]; reflexivity|exact G|].
    intros Hf. exfalso. exact (cons_not_self _ _ Hf).
  Qed.

  (* two parts in sequence: [M] runs [M1] and then [M2] from the state that left *)
  Lemma sim_bind D1 D2 (M1 : nat -> res xstate) (M2 : xstate -> nat -> res xstate) (M : nat -> res xstate) g m r1 k :
    grows g r1 -> sim_res D1 M1 g m r1 ->
    (forall g1 m1, r1 = SOk (g1, m1) -> grows g1 (k (g1, m1))) ->
    (forall g1 s1, R D1 s1 g1 -> sim_res D2 (M2 s1) g1 m (k (g1, m))) ->
    (forall f1 s1 f2 r, M1 f1 = Ok s1 -> M2 s1 f2 = r -> fin r -> exists f, M f = r) ->
    (forall f1, M1 f1 = Panic -> exists f, M f = Panic) ->
    sim_res D2 M g m (sbind r1 k).
  Proof.
    intros G1 S1 G2 S2 Cok Cpanic. destruct r1 as [[g1 m1]|fl| |]; cbn [sbind]; try exact I.
    - specialize (G2 g1 m1 eq_refl). destruct G1 as [l1 E1].
      destruct (k (g1, m1)) as [[g' m']|fl| |] eqn:Ek; try exact I.
      + intros Hf. destruct G2 as [l2 E2]. rewrite E2, E1 in Hf. destruct (flags_split _ _ _ Hf) as [-> ->].
        cbn [app] in E1, E2. destruct (S1 E1) as [-> [f1 [s1 [X1 R1]]]].
        specialize (S2 g1 s1 R1). unfold sim_res in S2. rewrite Ek in S2.
        destruct (S2 E2) as [-> [f2 [s' [X2 R2]]]]. split; [reflexivity|].
        destruct (Cok f1 s1 f2 (Ok s') X1 X2 (fin_ok _)) as [f X]. exists f, s'. split; [exact X|exact R2].
      + intros Hf. destruct G2 as [l2 E2]. rewrite E2, E1 in Hf. destruct (flags_split _ _ _ Hf) as [-> ->].
        cbn [app] in E1, E2. destruct (S1 E1) as [-> [f1 [s1 [X1 R1]]]].
        specialize (S2 g1 s1 R1). unfold sim_res in S2. rewrite Ek in S2.
        destruct (S2 E2) as [f2 X2]. exact (Cok f1 s1 f2 Panic X1 X2 fin_panic).
    - intros Hf. destruct (S1 Hf) as [f1 X1]. exact (Cpanic f1 X1).
  Qed.

  Lemma sim_seq D dot s t1 t2 g m r1 k :
    grows g r1 -> sim_ok D dot s t1 g m r1 ->
    (forall g1 m1, r1 = SOk (g1, m1) -> grows g1 (k (g1, m1))) ->
    (forall g1 s1, R D s1 g1 -> sim_ok D dot s1 t2 g1 m (k (g1, m))) ->
    sim_ok D dot s (t1 ++ t2) g m (sbind r1 k).
  Proof.
    intros G1 S1 G2 S2. unfold sim_ok.
    apply (sim_bind D D (fun f => exec_nodes [] f dot s t1) (fun s1 f => exec_nodes [] f dot s1 t2)); try assumption.
    - intros f1 s1 f2 r X1 X2 Hf. exists (f1 + f2). exact (exec_app_ok [] dot t1 f1 s s1 f2 t2 r X1 X2 Hf).
    - intros f1 X1. exists (f1 + 0). apply exec_app_panic. exact X1.
  Qed.

  Lemma sim_single D dot s n g m r :
    sim_res D (fun f => exec_node [] f dot s n) g m r -> sim_ok D dot s [n] g m r.
  Proof.
    unfold sim_ok, sim_res. destruct r as [[g' m']|fl| |]; try exact (fun _ => I).
    - intros H Hf. destruct (H Hf) as [-> [f [s' [X Rr]]]]. split; [reflexivity|].
      exists (S (S f)), s'. split; [|exact Rr]. apply exec_single; [exact X|apply fin_ok].
    - intros H Hf. destruct (H Hf) as [f X]. exists (S (S f)). apply exec_single; [exact X|apply fin_panic].
  Qed.

  (* the result of S re-packaged without touching flags or mixins *)
  Lemma sim_map D M g m r (F : sstate -> sstate) :
    (forall g', s_flags (F g') = s_flags g') -> (forall s' g', R D s' g' -> R D s' (F g')) ->
    sim_res D M g m r -> sim_res D M g m (sdo x <- r; let '(s2, m2) := x in SOk (F s2, m2)).
  Proof.
    intros Hfl HR H. destruct r as [[g' m']|fl| |]; cbn [sbind]; try exact I; [|exact H].
    cbn [sim_res] in *. rewrite Hfl. intros Hf. destruct (H Hf) as [-> [f [s' [X Rr]]]].
    split; [reflexivity|]. exists f, s'. split; [exact X|exact (HR s' g' Rr)].
  Qed.

  Lemma eval_here D dot s g e a j g1 :
    R D s g -> lxd D e = Some a -> sem_expr efuel g e = SOk (j, g1) -> s_flags g1 = s_flags g ->
    g1 = g /\
    exists v, (forall d, eval_pipeline (env_of s dot) (x_heap s) (d, [[a]]) = Ok (v, x_heap s)) /\ vr v j /\ okj j.
  Proof.
    intros Rr La Es Ef. destruct (lxd_inv D e a La) as [Al Lx]. pose proof (good_lx e a Lx) as Hg.
    split; [exact (H_same e Hg g j g1 Es Ef)|].
    destruct (H_eval e Hg (env_of s dot) (x_heap s) g j g1 (R_on_vars D s g e Rr Hg Al) Es Ef)
      as [a' [v [La' [Ev [Hv Hj]]]]].
    rewrite Lx in La'. injection La' as <-.
    exists v. split; [exact Ev|split; [exact Hv|exact Hj]].
  Qed.

  Lemma text_sim D dot s g m t : R D s g -> sim_ok D dot s [NText t] g m (SOk (put g t, m)).
  Proof.
    intros Rr. cbn [sim_ok sim_res put s_flags]. intros _. split; [reflexivity|].
    exists 2. eexists. split; [reflexivity|]. exact (R_emit_put D s g t Rr).
  Qed.

  Lemma to_string_js h s : to_string (S (S (length h))) h (JS s) = Some s.
  Proof. reflexivity. Qed.
  Lemma to_string_jn h z : to_string (S (S (length h))) h (JN z) = Some (show_Z z).
  Proof. reflexivity. Qed.
  Lemma to_string_jb h b : to_string (S (S (length h))) h (JB b) = Some (if b then B "true" else B "false").
  Proof. reflexivity. Qed.

  Lemma code_sim f0 m blk g D stmts esc inl t dot s :
    code_shape D stmts esc t -> R D s g ->
    sim_ok D dot s t g m (sem_node globals (S f0) m blk g (PCode stmts esc inl)).
  Proof.
    intros Hs Rr. destruct f0 as [|f]; [destruct Hs; subst; exact I|]. revert Hs.
    intros [x r a -> -> La ->|x post -> -> Gx Dx ->|x i a -> -> La ->|e a -> Hp -> La ->|sx -> He ->|z -> ->|b -> ->| -> ->].
    - (* x = r *)
      apply sim_single. rewrite sem_code_assign. pose proof (exprd_grows D g r a La) as Hg.
      destruct (sem_expr efuel g r) as [[j g1]|fl0| |] eqn:Es; cbn [sbind sim_res]; try exact I; try contradiction.
      cbn [with_env s_flags]. intros Hf.
      destruct (eval_here D dot s g r a j g1 Rr La Es Hf) as [-> [v [Ev [Hv Hj]]]].
      split; [reflexivity|]. exists 1. eexists. split; [exact (decl_action [] 0 dot s x a v (Ev [x]))|].
      exact (R_assign D s g x v j Rr Hv Hj).
    - (* x++ *)
      apply sim_single.
      rewrite sem_code_inc. destruct (env_get (s_env g) x) as [| | |z| | |] eqn:Ex; cbn [sbind sim_res]; try exact I.
      unfold num. destruct (in_range (z + 1)) eqn:Hz; cbn [sbind sim_res]; [|exact I].
      cbn [with_env s_flags]. intros _. split; [reflexivity|].
      pose proof (R_env D s g Rr x Dx (H_fv (JId x) Gx x (or_introl eq_refl))) as Hx. rewrite Ex in Hx.
      exists 1. eexists. split.
      + cbn [exec_node]. rewrite (inc_eval (env_of s dot) (x_heap s) x z _ eq_refl (vr_num _ z Hx) Hz). reflexivity.
      + exact (R_assign D s g x (VNum (z + 1)) (JN (z + 1)) Rr (vr_num_intro _) (okj_num _ Hz)).
    - (* var x = i *)
      apply sim_single. rewrite sem_code_var. pose proof (exprd_grows D g i a La) as Hg.
      destruct (sem_expr efuel g i) as [[j g1]|fl0| |] eqn:Es; cbn [sbind sim_res]; try exact I; try contradiction.
      cbn [with_env s_flags]. intros Hf.
      destruct (eval_here D dot s g i a j g1 Rr La Es Hf) as [-> [v [Ev [Hv Hj]]]].
      split; [reflexivity|]. exists 1. eexists. split; [exact (decl_action [] 0 dot s x a v (Ev [x]))|].
      exact (R_assign D s g x v j Rr Hv Hj).
    - (* = e *)
      apply sim_single. rewrite (sem_code_print f m blk g e true inl Hp).
      pose proof (exprd_grows D g e a La) as Hg.
      destruct (sem_expr efuel g e) as [[j g1]|fl0| |] eqn:Es; cbn [sbind sim_res]; try exact I; try contradiction.
      destruct (print_string g1 j) as [[tx g2]|fl1| |] eqn:Ep; cbn [sbind sim_res]; try exact I.
      + cbn [put s_flags]. intros Hf.
        destruct Hg as [l1 E1]. destruct (print_string_flags g1 j tx g2 Ep) as [l2 E2].
        rewrite E2, E1 in Hf. destruct (flags_split _ _ _ Hf) as [-> ->]. cbn [app] in E1, E2.
        destruct (lxd_inv D e a La) as [Al Lx]. pose proof (good_lx e a Lx) as Ge.
        pose proof (H_same e Ge g j g1 Es E1) as ->. pose proof (print_string_same g j tx g2 Ep E2) as ->.
        destruct (H_print e Ge Hp [] 0 dot s g j tx (R_on_vars D s g e Rr Ge Al) Es Ep) as [a' [La' X]].
        rewrite Lx in La'. injection La' as <-.
        split; [reflexivity|]. exists 1. eexists. split; [exact X|].
        apply R_emit_put. exact Rr.
      + exfalso. exact (print_string_noerr g1 j fl1 Ep).
    - (* = "literal" *)
      rewrite sem_code_str. unfold sem_buffered. rewrite sem_str_eq. cbn [sbind print_string]. unfold tostr.
      rewrite to_string_js. cbn [is_ref sbind].
      replace (if esc then escape sx else sx) with (escape sx) by (destruct He as [-> | ->]; [reflexivity|destruct esc; reflexivity]).
      exact (text_sim D dot s g m (escape sx) Rr).
    - (* = 12 *)
      rewrite sem_code_num. unfold sem_buffered. rewrite sem_num_eq. unfold num.
      destruct (in_range z); cbn [sbind]; [|exact I]. cbn [print_string]. unfold tostr.
      rewrite to_string_jn. cbn [is_ref sbind].
      replace (if esc then escape (show_Z z) else show_Z z) with (show_Z z)
        by (destruct esc; [symmetry; apply PV.Proofs.C01EvalProofs.show_Z_escape|reflexivity]).
      exact (text_sim D dot s g m (show_Z z) Rr).
    - (* = true *)
      rewrite sem_code_bool. unfold sem_buffered. rewrite sem_bool_eq. cbn [sbind print_string]. unfold tostr.
      rewrite to_string_jb. cbn [is_ref sbind].
      replace (if esc then escape (if b then B "true" else B "false") else (if b then B "true" else B "false"))
        with (if b then B "true" else B "false") by (destruct esc, b; reflexivity).
      exact (text_sim D dot s g m _ Rr).
    - (* = null *)
      rewrite sem_code_null. unfold sem_buffered. rewrite sem_null_eq. cbn [sbind print_string].
      replace (if esc then escape [] else []) with (@nil ascii) by (destruct esc; reflexivity).
      apply sim_single. cbn [sim_res put s_flags]. intros _. split; [reflexivity|].
      exists 1. eexists. split; [exact (null_action [] 0 dot s)|]. exact (R_emit_put D s g [] Rr).
  Qed.

  (* ---- while -------------------------------------------------------------------------------------------------- *)
  Definition after_true (f : nat) (blk : option closure) (test : jexpr) (body : list pnode)
             (b f2 : nat) (g1 : sstate) (m : list (bytes * mixin)) : sres (sstate * list (bytes * mixin)) :=
    match b with
    | O =>
      sdo r <- sem_nodes globals f m blk g1 body; let '(s2, _) := r in
      sdo t <- sem_expr efuel s2 test; SErr (s_flags (snd t))
    | S b' =>
      sdo r <- sem_nodes globals f m blk g1 body; let '(s2, m2) := r in sem_while f blk test body b' f2 s2 m2
    end.

  Lemma sem_while_step f blk test body b f2 g m :
    sem_while f blk test body b (S f2) g m =
    (sdo a <- sem_expr efuel g test; let '(v, g1) := a in
     match v with
     | JB false => SOk (g1, m)
     | JB true => after_true f blk test body b f2 g1 m
     | _ => SOff
     end).
  Proof. cbn [sem_while]. destruct (sem_expr efuel g test) as [[v g1]| | |]; [|reflexivity..].
         cbn [sbind]. destruct v as [| |[|]| | | |]; try reflexivity. all: try (destruct b; reflexivity). Qed.

  (* the state in which walkRange continues after evaluating a test without declarations *)
  Definition plan_state (s : xstate) (v : val) : xstate :=
    let s0 := set_vars s (f_vars (cur s) ++ map (fun x : bytes => (x, VInvalid)) []) in
    set_vars (set_heap s0 (x_heap s0)) (set_decl (f_vars (cur (set_heap s0 (x_heap s0)))) [] v).

  Lemma R_plan_state D s g v : R D s g -> R D (plan_state s v) g.
  Proof.
    intros Rr. unfold plan_state. cbn [map set_decl fold_left].
    apply (R_update D s g); [exact Rr|apply set_vars_live|reflexivity|reflexivity|reflexivity|exact (R_out D s g Rr)|].
    intros x _. left. rewrite cur_set_vars, cur_set_heap, cur_set_vars, app_nil_r. split; reflexivity.
  Qed.

  Lemma range_plan_test D dot s g test ta j g1 :
    R D s g -> lxd D test = Some ta -> sem_expr efuel g test = SOk (j, g1) -> s_flags g1 = s_flags g ->
    g1 = g /\
    exists v, vr v j /\ R D (plan_state s v) g /\
      range_plan dot s (pipe1 ta) =
      match v with
      | VArr _ | VMap _ | VNil | VInvalid | VAttrs _ | VMod _ => range_plan dot s (pipe1 ta)
      | VBool b | VGoBool b => Ok (if b then RWhile (plan_state s v) v else RDone (plan_state s v))
      | _ => Panic
      end.
  Proof.
    intros Rr La Es Ef.
    set (s0 := set_vars s (f_vars (cur s) ++ map (fun x : bytes => (x, VInvalid)) [])).
    assert (R0 : R D s0 g).
    { apply (R_update D s g); [exact Rr|apply set_vars_live|reflexivity|reflexivity|reflexivity|exact (R_out D s g Rr)|].
      intros x _. left. unfold s0. rewrite cur_set_vars. cbn [map]. rewrite app_nil_r. split; reflexivity. }
    destruct (eval_here D dot s0 g test ta j g1 R0 La Es Ef) as [-> [v [Ev [Hv Hj]]]].
    split; [reflexivity|]. exists v. split; [exact Hv|]. split; [apply R_plan_state; exact Rr|].
    unfold range_plan, pipe1. fold s0. rewrite (Ev []). cbn [bind].
    destruct v; reflexivity.
  Qed.

  Definition P_nodes (fs : nat) : Prop := forall ns m blk g D fl t dot s,
    lower_list (lw D fl) ns = Some t -> R D s g -> sim_ok D dot s t g m (sem_nodes globals fs m blk g ns).
  Definition P_node (fs : nat) : Prop := forall n m blk g D fl t dot s,
    lw D fl n = Some t -> R D s g -> sim_ok D dot s t g m (sem_node globals fs m blk g n).

  Definition is_true (v : val) : Prop := v = VBool true \/ v = VGoBool true.

  (* one more test in the executor's while loop, with the test's value related to S's *)
  Lemma while_test_eval D dot s2 g2 test ta j g3 :
    R D s2 g2 -> lxd D test = Some ta -> sem_expr efuel g2 test = SOk (j, g3) -> s_flags g3 = s_flags g2 ->
    exists v', eval_pipeline (env_of s2 dot) (x_heap s2) (pipe1 ta) = Ok (v', x_heap s2) /\ vr v' j /\ R D s2 g3.
  Proof.
    intros R2 La Es Ef. destruct (eval_here D dot s2 g2 test ta j g3 R2 La Es Ef) as [-> [v' [Ev [Hv _]]]].
    exists v'. split; [exact (Ev [])|split; assumption].
  Qed.

  Lemma after_true_grows f blk test body ta tb D fl :
    G_nodes f -> lxd D test = Some ta -> lower_list (lw D fl) body = Some tb ->
    forall b f2 g1 m, grows g1 (after_true f blk test body b f2 g1 m).
  Proof.
    intros IHG La Lb b f2 g1 m. unfold after_true. destruct b as [|b'].
    - apply grows_bind; [exact (IHG body m blk g1 D fl tb Lb)|]. intros g5 m5 _.
      pose proof (exprd_grows D g5 test ta La) as G5.
      destruct (sem_expr efuel g5 test) as [[j6 g6]|?| |]; cbn [sbind snd]; try exact I; try contradiction. exact G5.
    - apply grows_bind; [exact (IHG body m blk g1 D fl tb Lb)|]. intros g5 m5 _.
      exact (while_grows f blk test body ta D fl tb IHG (proj2 (lxd_inv D test ta La)) Lb f2 b' g5 m5).
  Qed.

  Lemma while_sim f blk test body ta tb D fl :
    P_nodes f -> G_nodes f -> lxd D test = Some ta -> lower_list (lw D fl) body = Some tb ->
    forall f2 b g1 m s1 v dot, R D s1 g1 -> is_true v ->
      sim_res D (fun fM => exec_while [] fM dot s1 (pipe1 ta) tb b v) g1 m (after_true f blk test body b f2 g1 m).
  Proof.
    intros IHP IHG La Lb. induction f2 as [|f2 IH2]; intros b g1 m s1 v dot R1 Hv.
    - (* no S fuel left for another test *)
      unfold after_true. pose proof (IHG body m blk g1 D fl tb Lb) as Gb.
      pose proof (IHP body m blk g1 D fl tb v s1 Lb R1) as Sb. unfold sim_ok in Sb.
      destruct (sem_nodes globals f m blk g1 body) as [[g2 m2]|flb| |] eqn:Eb; destruct b as [|b']; cbn [sbind sim_res]; try exact I.
      + (* budget used up: body, test, error *)
        pose proof (exprd_grows D g2 test ta La) as Gt.
        destruct (sem_expr efuel g2 test) as [[j g3]|fl0| |] eqn:Et; cbn [sbind sim_res snd]; try exact I; try contradiction.
        intros Hf. destruct Gb as [l1 E1]. destruct Gt as [l2 E2]. rewrite E2, E1 in Hf.
        destruct (flags_split _ _ _ Hf) as [-> ->]. cbn [app] in E1, E2.
        destruct (Sb E1) as [_ [fb [s2 [Xb R2]]]].
        destruct (while_test_eval D dot s2 g2 test ta j g3 R2 La Et E2) as [v' [Ev _]].
        exists (S fb). rewrite while_step, Xb. cbn [bind]. rewrite Ev. reflexivity.
      + intros Hf. destruct (Sb Hf) as [fb Xb]. exists (S fb). rewrite while_step, Xb. reflexivity.
      + intros Hf. destruct (Sb Hf) as [fb Xb]. exists (S fb). rewrite while_step, Xb. reflexivity.
    - unfold after_true. pose proof (IHG body m blk g1 D fl tb Lb) as Gb.
      pose proof (IHP body m blk g1 D fl tb v s1 Lb R1) as Sb. unfold sim_ok in Sb.
      destruct (sem_nodes globals f m blk g1 body) as [[g2 m2]|flb| |] eqn:Eb; destruct b as [|b']; cbn [sbind sim_res]; try exact I.
      + pose proof (exprd_grows D g2 test ta La) as Gt.
        destruct (sem_expr efuel g2 test) as [[j g3]|fl0| |] eqn:Et; cbn [sbind sim_res snd]; try exact I; try contradiction.
        intros Hf. destruct Gb as [l1 E1]. destruct Gt as [l2 E2]. rewrite E2, E1 in Hf.
        destruct (flags_split _ _ _ Hf) as [-> ->]. cbn [app] in E1, E2.
        destruct (Sb E1) as [_ [fb [s2 [Xb R2]]]].
        destruct (while_test_eval D dot s2 g2 test ta j g3 R2 La Et E2) as [v' [Ev _]].
        exists (S fb). rewrite while_step, Xb. cbn [bind]. rewrite Ev. reflexivity.
      + (* another round *)
        rewrite sem_while_step. pose proof (exprd_grows D g2 test ta La) as Gt.
        destruct (sem_expr efuel g2 test) as [[j g3]|fl0| |] eqn:Et; cbn [sbind]; try exact I; try contradiction.
        destruct Gb as [l1 E1]. destruct Gt as [l2 E2].
        destruct j as [| |[|]| | | |]; try exact I.
        * (* test true again *)
          pose proof (after_true_grows f blk test body ta tb D fl IHG La Lb b' f2 g3 m2) as GA.
          destruct (after_true f blk test body b' f2 g3 m2) as [[g' m']|fle| |] eqn:EA; cbn [sim_res]; try exact I.
          -- intros Hf. destruct GA as [l3 E3]. rewrite E3, E2, E1 in Hf.
             assert (HH : l3 = [] /\ l2 = [] /\ l1 = []).
             { rewrite !app_assoc in Hf. change (s_flags g1) with ([] ++ s_flags g1) in Hf at 2.
               apply app_inv_tail in Hf. apply app_eq_nil in Hf. destruct Hf as [Hf ->].
               apply app_eq_nil in Hf. destruct Hf as [-> ->]. repeat split. }
             destruct HH as [-> [-> ->]]. cbn [app] in E1, E2, E3.
             destruct (Sb E1) as [-> [fb [s2 [Xb R2]]]].
             destruct (while_test_eval D dot s2 g2 test ta (JB true) g3 R2 La Et E2) as [v' [Ev [Hv' R3]]].
             pose proof (IH2 b' g3 m s2 v' dot R3) as SI.
             assert (Tv : is_true v') by (destruct (vr_bool v' true Hv') as [->| ->]; [left|right]; reflexivity).
             specialize (SI Tv). rewrite EA in SI. cbn [sim_res] in SI. destruct (SI E3) as [-> [fw [s' [Xw R']]]].
             split; [reflexivity|]. exists (S (fb + fw)), s'. split; [|exact R'].
             rewrite while_step.
             rewrite (exec_nodes_mono [] fb (fb + fw)); [|lia|rewrite Xb; apply fin_ok]. rewrite Xb. cbn [bind].
             rewrite Ev. cbn [bind]. rewrite set_heap_same.
             rewrite (exec_while_mono [] fw (fb + fw)); [|lia|rewrite Xw; apply fin_ok].
             destruct Tv as [-> | ->]; exact Xw.
          -- intros Hf. destruct GA as [l3 E3]. rewrite E3, E2, E1 in Hf.
             assert (HH : l3 = [] /\ l2 = [] /\ l1 = []).
             { rewrite !app_assoc in Hf. change (s_flags g1) with ([] ++ s_flags g1) in Hf at 2.
               apply app_inv_tail in Hf. apply app_eq_nil in Hf. destruct Hf as [Hf ->].
               apply app_eq_nil in Hf. destruct Hf as [-> ->]. repeat split. }
             destruct HH as [-> [-> ->]]. cbn [app] in E1, E2, E3.
             destruct (Sb E1) as [-> [fb [s2 [Xb R2]]]].
             destruct (while_test_eval D dot s2 g2 test ta (JB true) g3 R2 La Et E2) as [v' [Ev [Hv' R3]]].
             pose proof (IH2 b' g3 m s2 v' dot R3) as SI.
             assert (Tv : is_true v') by (destruct (vr_bool v' true Hv') as [->| ->]; [left|right]; reflexivity).
             specialize (SI Tv). rewrite EA in SI. cbn [sim_res] in SI. destruct (SI E3) as [fw Xw].
             exists (S (fb + fw)).
             rewrite while_step.
             rewrite (exec_nodes_mono [] fb (fb + fw)); [|lia|rewrite Xb; apply fin_ok]. rewrite Xb. cbn [bind].
             rewrite Ev. cbn [bind]. rewrite set_heap_same.
             rewrite (exec_while_mono [] fw (fb + fw)); [|lia|rewrite Xw; apply fin_panic].
             destruct Tv as [-> | ->]; exact Xw.
        * (* test false: the loop ends *)
          cbn [sim_res]. intros Hf. rewrite E2, E1 in Hf. destruct (flags_split _ _ _ Hf) as [-> ->]. cbn [app] in E1, E2.
          destruct (Sb E1) as [-> [fb [s2 [Xb R2]]]].
          destruct (while_test_eval D dot s2 g2 test ta (JB false) g3 R2 La Et E2) as [v' [Ev [Hv' R3]]].
          split; [reflexivity|]. exists (S fb), (set_heap s2 (x_heap s2)). split.
          -- rewrite while_step, Xb. cbn [bind]. rewrite Ev. cbn [bind].
             destruct (vr_bool v' false Hv') as [-> | ->]; reflexivity.
          -- rewrite set_heap_same. exact R3.
      + intros Hf. destruct (Sb Hf) as [fb Xb]. exists (S fb). rewrite while_step, Xb. reflexivity.
      + intros Hf. destruct (Sb Hf) as [fb Xb]. exists (S fb). rewrite while_step, Xb. reflexivity.
  Qed.

  (* ---- each --------------------------------------------------------------------------------------------------- *)
  (* the general form of [R_update]: the dead set may change with the step *)
  Lemma R_update2 D D' s g s' g' :
    R D s g -> live s' -> x_heap s' = x_heap s -> s_heap g' = s_heap g -> s_grown g' = s_grown g ->
    output s' = soutput g' ->
    (forall x, mem x D' = false ->
       (mem x D = false /\ var_val (f_vars (cur s')) x = var_val (f_vars (cur s)) x /\
        env_get (s_env g') x = env_get (s_env g) x) \/
       (vr (var_val (f_vars (cur s')) x) (env_get (s_env g') x) /\ okj (env_get (s_env g') x))) ->
    R D' s' g'.
  Proof.
    intros [Hl He Hk Ha Ho Hgr] Hl' Hh Hj Hg' Ho' Hx. split; [| | | | |rewrite Hg'; exact Hgr].
    - exact Hl'.
    - intros x Hd Hn. destruct (Hx x Hd) as [[Hd0 [-> ->]]|[H _]]; [exact (He x Hd0 Hn)|exact H].
    - intros x Hd Hn. destruct (Hx x Hd) as [[Hd0 [_ ->]]|[_ H]]; [exact (Hk x Hd0 Hn)|exact H].
    - intros x Hd. rewrite Hh, Hj. destruct (Hx x Hd) as [[Hd0 [-> ->]]|[H _]]; [exact (Ha x Hd0)|left; exact H].
    - exact Ho'.
  Qed.

  Lemma var_val_app_new vs x v y : x <> y -> var_val (vs ++ [(x, v)]) y = var_val vs y.
  Proof.
    intros Hn. unfold var_val. rewrite var_get_app_new.
    destruct (beqb x y) eqn:E; [apply beqb_eq in E; contradiction|reflexivity].
  Qed.
  Lemma var_val_app_decl decl : forall vs c, ~ In c decl ->
    var_val (vs ++ map (fun x : bytes => (x, VInvalid)) decl) c = var_val vs c.
  Proof.
    induction decl as [|x r IH]; intros vs c Hc; cbn [map]; [rewrite app_nil_r; reflexivity|].
    change (vs ++ (x, VInvalid) :: map (fun x0 : bytes => (x0, VInvalid)) r)
      with (vs ++ [(x, VInvalid)] ++ map (fun x0 : bytes => (x0, VInvalid)) r).
    rewrite app_assoc. rewrite IH by (intros H; apply Hc; right; exact H).
    apply var_val_app_new. intros ->. apply Hc. left; reflexivity.
  Qed.
  Lemma var_val_set_decl decl v : forall vs c, ~ In c decl -> var_val (set_decl vs decl v) c = var_val vs c.
  Proof.
    unfold set_decl. induction decl as [|x r IH]; intros vs c Hc; cbn [fold_left]; [reflexivity|].
    rewrite IH by (intros H; apply Hc; right; exact H).
    apply var_val_set_other. intros ->. apply Hc. left; reflexivity.
  Qed.

  (* the state in which walkRange starts iterating: the declared variables pushed, then set to the collection *)
  Definition each_state (s : xstate) (decl : list bytes) (cv : val) : xstate :=
    let s0 := set_vars s (f_vars (cur s) ++ map (fun x : bytes => (x, VInvalid)) decl) in
    let s1 := set_heap s0 (x_heap s) in
    set_vars s1 (set_decl (f_vars (cur s1)) decl cv).

  Lemma R_each_state D s g decl cv :
    (forall x, In x decl -> mem x D = true) -> R D s g -> R D (each_state s decl cv) g.
  Proof.
    intros Hd Rr. unfold each_state.
    apply (R_update D s g); [exact Rr|apply set_vars_live|reflexivity|reflexivity|reflexivity|exact (R_out D s g Rr)|].
    intros x Hx. left. assert (Hn : ~ In x decl) by (intros H; rewrite (Hd x H) in Hx; discriminate Hx).
    rewrite cur_set_vars, cur_set_heap, cur_set_vars.
    rewrite (var_val_set_decl decl cv _ x Hn), (var_val_app_decl decl _ x Hn). split; reflexivity.
  Qed.

  Lemma range_plan_each dot s decl c :
    ~ In c decl ->
    range_plan dot s (decl, [[AVar c []]]) =
    (let v := var_val (f_vars (cur s)) c in
     let s2 := each_state s decl v in
     let h1 := x_heap s in
     let iter_list (pairs : list (val * val)) : rplan :=
       match pairs with [] => RElse s2 | _ => RIter s2 pairs end in
     match v with
     | VArr l =>
       match hget h1 l with
       | Some (OArr items) =>
         Ok (iter_list (combine (map (fun i => VInt (Z.of_nat i)) (seq 0 (length items))) items))
       | _ => Unmod
       end
     | VMap l =>
       match hget h1 l with
       | Some (OMap items order) =>
         match order with
         | [] => Ok (iter_list (map (fun k => (VGoStr k, member_lookup items k)) (sort_bytes (keys items))))
         | _ =>
           Ok (match map (fun k => (VGoStr k, member_lookup items k)) (filter (fun k => mem k (keys items)) order) with
               | [] => RDone s2
               | pairs => RIter s2 pairs
               end)
         end
       | _ => Unmod
       end
     | VNil | VInvalid => Ok (RElse s2)
     | VBool b | VGoBool b => Ok (if b then RWhile s2 v else RDone s2)
     | VAttrs _ | VMod _ => Unmod
     | _ => Panic
     end).
  Proof.
    intros Hc. unfold range_plan. rewrite avar_eval. cbn [bind].
    change (e_vars (env_of (set_vars s (f_vars (cur s) ++ map (fun x : bytes => (x, VInvalid)) decl)) dot))
      with (f_vars (cur (set_vars s (f_vars (cur s) ++ map (fun x : bytes => (x, VInvalid)) decl)))).
    rewrite cur_set_vars, (var_val_app_decl decl _ c Hc). reflexivity.
  Qed.

  (* the (key, element) pairs of the two sides *)
  Definition prel (p : val * val) (q : jv * jv) : Prop :=
    vr (fst p) (fst q) /\ okj (fst q) /\ vr (snd p) (snd q) /\ okj (snd q).

  Lemma in_range_le a b : (0 <= a <= b)%Z -> in_range b = true -> in_range a = true.
  Proof. unfold in_range. intros H Hb. apply Z.ltb_lt in Hb. apply Z.ltb_lt. lia. Qed.

  Lemma indexed_rel_from items jitems :
    Forall2 (fun a b => vr a b /\ okj b) items jitems ->
    forall a, in_range (Z.of_nat (a + length jitems)) = true ->
    Forall2 prel (combine (map (fun i => VInt (Z.of_nat i)) (seq a (length items))) items)
                 (combine (map (fun i => JN (Z.of_nat i)) (seq a (length jitems))) jitems).
  Proof.
    induction 1 as [|x y items jitems [Hxy Hy] HF IH]; intros a Hr; [constructor|].
    cbn [length seq map combine]. constructor.
    - split; [apply vr_int_intro|]. split; [|split; assumption].
      apply okj_num. apply (in_range_le _ _ (conj (Nat2Z.is_nonneg a) (inj_le _ _ (Nat.le_add_r a _))) Hr).
    - apply IH. cbn [length] in Hr. rewrite Nat.add_succ_r in Hr. exact Hr.
  Qed.
  Lemma indexed_rel items jitems :
    Forall2 (fun a b => vr a b /\ okj b) items jitems -> in_range (Z.of_nat (length jitems)) = true ->
    Forall2 prel (indexed items) (jindexed jitems).
  Proof. intros HF Hr. exact (indexed_rel_from items jitems HF 0 Hr). Qed.

  Lemma map_pairs_rel items ks props :
    Forall2 (fun k p => k = fst p /\ vr (member_lookup items k) (snd p) /\ okj (snd p)) ks props ->
    Forall2 prel (map (fun k => (VGoStr k, member_lookup items k)) ks) (map (fun p : bytes * jv => (JS (fst p), snd p)) props).
  Proof.
    induction 1 as [|k0 p0 ks props [Hk [Hv Ho]] HF IH]; [constructor|]. cbn [map]. constructor; [|exact IH].
    unfold prel. cbn [fst snd]. subst k0. split; [apply vr_gostr_intro|]. split; [apply okj_str|]. split; assumption.
  Qed.

  (* entering an iteration: the loop variables come alive, bound to related scalars *)
  Lemma R_bind D D' s g v k kx vx kv vv :
    R D s g ->
    (forall x, mem x D' = false -> mem x D = false \/ x = v \/ Some x = k) ->
    (forall k', k = Some k' -> k' <> v) ->
    vr kx kv -> okj kv -> vr vx vv -> okj vv ->
    R D' (set_vars s (bind_loop (f_vars (cur s)) (opt_list k ++ [v]) kx vx))
         (with_env g (each_env v k (s_env g) kv vv)).
  Proof.
    intros Rr HD Hkv Hk Hko Hv Hvo.
    apply (R_update2 D D' s g); [exact Rr|apply set_vars_live|reflexivity|reflexivity|reflexivity|exact (R_out D s g Rr)|].
    intros x Hx. rewrite cur_set_vars. cbn [with_env s_env]. unfold each_env.
    destruct k as [k'|]; cbn [opt_list app bind_loop].
    - pose proof (Hkv k' eq_refl) as Hne.
      destruct (list_eq_dec ascii_dec v x) as [->|Hnv].
      + right. rewrite var_val_set_same. rewrite (env_get_set_other _ _ _ _ Hne), env_get_set_same. split; assumption.
      + destruct (list_eq_dec ascii_dec k' x) as [->|Hnk].
        * right. rewrite (var_val_set_other _ _ _ _ Hnv), var_val_set_same, env_get_set_same. split; assumption.
        * left. destruct (HD x Hx) as [Hd|[->|E]]; [|contradiction|injection E as ->; contradiction].
          split; [exact Hd|].
          rewrite (var_val_set_other _ _ _ _ Hnv), (var_val_set_other _ _ _ _ Hnk),
                  (env_get_set_other _ _ _ _ Hnk), (env_get_set_other _ _ _ _ Hnv). split; reflexivity.
    - destruct (list_eq_dec ascii_dec v x) as [->|Hnv].
      + right. rewrite var_val_set_same, env_get_set_same. split; assumption.
      + left. destruct (HD x Hx) as [Hd|[->|E]]; [|contradiction|discriminate E].
        split; [exact Hd|]. rewrite (var_val_set_other _ _ _ _ Hnv), (env_get_set_other _ _ _ _ Hnv). split; reflexivity.
  Qed.

  (* leaving the loop: pug drops the loop variables *)
  Lemma env_get_drop env v x : x <> v -> env_get (filter (fun p : bytes * jv => negb (beqb (fst p) v)) env) x = env_get env x.
  Proof.
    intros Hn. unfold env_get. induction env as [|[k0 j0] r IH]; [reflexivity|].
    cbn [filter fst]. destruct (beqb k0 v) eqn:E; cbn [negb lookup].
    - apply beqb_eq in E. subst k0. destruct (beqb x v) eqn:E2; [apply beqb_eq in E2; contradiction|]. exact IH.
    - destruct (beqb x k0); [reflexivity|exact IH].
  Qed.

  Lemma R_restore D s g v k :
    mem v D = true -> (forall k', k = Some k' -> mem k' D = true) ->
    R D s g -> R D s (each_restore v k None None g).
  Proof.
    intros Hv Hk Rr.
    apply (R_update D s g); [exact Rr|exact (R_live D s g Rr)|reflexivity|reflexivity|reflexivity|exact (R_out D s g Rr)|].
    intros x Hx. left. split; [reflexivity|].
    assert (Hnv : x <> v) by (intros ->; rewrite Hv in Hx; discriminate Hx).
    unfold each_restore. cbn [with_env s_env]. destruct k as [k'|].
    - assert (Hnk : x <> k') by (intros ->; rewrite (Hk k' eq_refl) in Hx; discriminate Hx).
      rewrite (env_get_drop _ k' x Hnk). exact (env_get_drop _ v x Hnv).
    - exact (env_get_drop _ v x Hnv).
  Qed.

  Lemma sim_res_flags D M g1 g m r : s_flags g1 = s_flags g -> sim_res D M g1 m r -> sim_res D M g m r.
  Proof. intros E. unfold sim_res. rewrite E. exact (fun H => H). Qed.
  Lemma sim_res_run D (M1 M2 : nat -> res xstate) g m r :
    (forall f r0, M1 f = r0 -> fin r0 -> exists f', M2 f' = r0) -> sim_res D M1 g m r -> sim_res D M2 g m r.
  Proof.
    intros HM. unfold sim_res. destruct r as [[g' m']|fl| |]; try exact (fun H => H).
    - intros H Hf. destruct (H Hf) as [-> [f [s' [X Rr]]]]. split; [reflexivity|].
      destruct (HM f (Ok s') X (fin_ok _)) as [f' X']. exists f', s'. split; assumption.
    - intros H Hf. destruct (H Hf) as [f X]. exact (HM f Panic X fin_panic).
  Qed.

  Lemma iter_sim f blk v k body tb D D' fl :
    P_nodes f -> G_nodes f -> lower_list (lw D' fl) body = Some tb ->
    (forall x, mem x D' = false -> mem x D = false \/ x = v \/ Some x = k) ->
    (forall x, mem x D = false -> mem x D' = false) ->
    (forall k', k = Some k' -> k' <> v) ->
    forall pairs jpairs, Forall2 prel pairs jpairs -> forall s g m, R D s g ->
      sim_res D (fun fM => exec_iter [] fM s (opt_list k ++ [v]) tb pairs) g m (sem_iter f blk v k body O g m jpairs).
  Proof.
    intros IHP IHG Lb HD HD' Hkv. induction 1 as [|[kx vx] [kv vv] pairs jpairs Hp HF IH]; intros s g m Rr.
    - cbn [sem_iter sim_res]. intros _. split; [reflexivity|]. exists 1, s. split; [reflexivity|exact Rr].
    - cbn [sem_iter]. destruct Hp as [Hk [Hko [Hv Hvo]]]. cbn [fst snd] in Hk, Hko, Hv, Hvo.
      set (decl := opt_list k ++ [v]).
      set (s_in := set_vars s (bind_loop (f_vars (cur s)) decl kx vx)).
      set (g_in := with_env g (each_env v k (s_env g) kv vv)).
      assert (Rin : R D' s_in g_in) by exact (R_bind D D' s g v k kx vx kv vv Rr HD Hkv Hk Hko Hv Hvo).
      apply (sim_bind D' D (fun fM => exec_nodes [] fM vx s_in tb) (fun s1 fM => exec_iter [] fM s1 decl tb pairs)).
      + apply (grows_same g g_in); [reflexivity|]. exact (IHG body m blk g_in D' fl tb Lb).
      + apply (sim_res_flags D' _ g_in g); [reflexivity|]. exact (IHP body m blk g_in D' fl tb vx s_in Lb Rin).
      + intros g1 m1 _. exact (iter_grows f blk v k body D' fl tb IHG Lb jpairs g1 m1).
      + intros g1 s1 R1. exact (IH s1 g1 m (R_weaken D' D s1 g1 HD' R1)).
      + intros f1 s1 f2 r X1 X2 Hf. exists (S (f1 + f2)). rewrite iter_cons. cbv zeta.
        change (set_vars s match decl with
                           | [a; b] => var_set (var_set (f_vars (cur s)) a kx) b vx
                           | [a0] => var_set (f_vars (cur s)) a0 vx
                           | _ => f_vars (cur s)
                           end) with s_in.
        rewrite (exec_nodes_mono [] f1 (f1 + f2)); [|lia|rewrite X1; apply fin_ok]. rewrite X1. cbn [bind].
        rewrite (exec_iter_mono [] f2 (f1 + f2)); [exact X2|lia|rewrite X2; exact Hf].
      + intros f1 X1. exists (S f1). rewrite iter_cons. cbv zeta.
        change (set_vars s match decl with
                           | [a; b] => var_set (var_set (f_vars (cur s)) a kx) b vx
                           | [a0] => var_set (f_vars (cur s)) a0 vx
                           | _ => f_vars (cur s)
                           end) with s_in.
        rewrite X1. reflexivity.
  Qed.

  Lemma undead_spec xs D x : mem x (undead xs D) = false <-> mem x D = false \/ mem x xs = true.
  Proof.
    unfold undead. split.
    - intros H. destruct (mem x D) eqn:Hd; [|left; reflexivity]. right.
      destruct (mem x xs) eqn:Hx; [reflexivity|]. exfalso. apply mem_false_In in H. apply H.
      apply filter_In. split; [apply mem_In; exact Hd|rewrite Hx; reflexivity].
    - intros H. apply mem_false_In. intros Hin. apply filter_In in Hin. destruct Hin as [Hin Hx].
      apply negb_true_iff in Hx. destruct H as [H|H]; [|congruence]. apply mem_In in Hin. congruence.
  Qed.

  Lemma each_sim f m blk g D fl v k c body tb dot s :
    P_nodes f -> G_nodes f ->
    mem c D = false -> mem v D = true -> (forall k', k = Some k' -> mem k' D = true /\ k' <> v) ->
    lower_list (lw (undead (v :: opt_list k) D) fl) body = Some tb -> R D s g ->
    sim_res D (fun fM => exec_node [] fM dot s (NRange (opt_list k ++ [v], [[AVar c []]]) tb [])) g m
            (sem_node globals (S f) m blk g (PEach v k (JId c) body)).
  Proof.
    intros IHP IHG Hc Hv Hk Lb Rr. rewrite sem_each_eq, sem_id_eq. cbn [sbind]. cbv zeta.
    set (D' := undead (v :: opt_list k) D) in *.
    destruct (lookup v (s_env g)) as [j0|] eqn:Sv.
    { apply (sim_flagged D _ g fl_loop_shadow). exact (each_tail_grows f blk v k body D' fl tb _ _ m _ _ IHG Lb). }
    destruct (match k with Some k' => lookup k' (s_env g) | None => None end) as [j0|] eqn:Sk.
    { apply (sim_flagged D _ g fl_loop_shadow). exact (each_tail_grows f blk v k body D' fl tb _ _ m _ _ IHG Lb). }
    set (decl := opt_list k ++ [v]).
    assert (Hdecl : forall x, In x decl -> mem x D = true).
    { intros x Hx. apply in_app_or in Hx. destruct Hx as [Hx|[<-|[]]]; [|exact Hv].
      destruct k as [k'|]; [|destruct Hx]. destruct Hx as [<-|[]]. exact (proj1 (Hk k' eq_refl)). }
    assert (Hcd : ~ In c decl) by (intros H; rewrite (Hdecl c H) in Hc; discriminate Hc).
    pose proof (R_all D s g Rr c Hc) as Hw.
    pose proof (range_plan_each dot s decl c Hcd) as Hplan. cbv zeta in Hplan.
    set (cv := var_val (f_vars (cur s)) c) in *. set (jc := env_get (s_env g) c) in *.
    pose proof (R_each_state D s g decl cv Hdecl Rr) as R2.
    destruct Hw as [Hvr|Hcoll].
    - (* the variable holds a scalar: nothing is iterated (or S is outside its domain) *)
      pose proof (vr_noref cv jc Hvr) as Hnr. unfold each_tail.
      assert (Hnull : jc = JUndef \/ jc = JNul ->
                      sim_res D (fun fM => exec_node [] fM dot s (NRange (decl, [[AVar c []]]) tb [])) g m (SOk (g, m))).
      { intros Hj. cbn [sim_res]. intros _. split; [reflexivity|]. exists 2, (each_state s decl cv). split; [|exact R2].
        rewrite node_range, Hplan. destruct (vr_nullish cv jc Hvr Hj) as [-> | ->]; reflexivity. }
      destruct jc; try exact I; try discriminate Hnr; apply Hnull; auto.
    - (* a collection: the pairs of the two sides are related, the plan iterates them *)
      assert (Hiter : forall pairs jpairs, Forall2 prel pairs jpairs ->
                range_plan dot s (decl, [[AVar c []]]) =
                  Ok (match pairs with [] => RElse (each_state s decl cv) | _ => RIter (each_state s decl cv) pairs end) ->
                sim_res D (fun fM => exec_node [] fM dot s (NRange (decl, [[AVar c []]]) tb [])) g m
                        (sdo r <- sem_iter f blk v k body O g m jpairs;
                         let '(s2, m2) := r in SOk (each_restore v k None None s2, m2))).
      { intros pairs jpairs Hrel Hpl.
        apply (sim_map D _ g m _ (each_restore v k None None)).
        + intros g'. reflexivity.
        + intros s' g' R'. apply R_restore; [exact Hv| |exact R']. intros k' E. exact (proj1 (Hk k' E)).
        + apply (sim_res_run D (fun fM => exec_iter [] fM (each_state s decl cv) decl tb pairs)).
          * intros f0 r0 X Hf. exists (S f0). rewrite node_range, Hpl. cbn [bind fst]. destruct pairs as [|p0 pr]; [|exact X].
            destruct f0; [exfalso; apply Hf; rewrite <- X; reflexivity|]. rewrite <- X. reflexivity.
          * apply (iter_sim f blk v k body tb D D' fl IHP IHG Lb); try assumption.
            -- intros x Hx. apply undead_spec in Hx. destruct Hx as [Hx|Hx]; [left; exact Hx|right].
               unfold mem in Hx. cbn [existsb] in Hx. apply orb_true_iff in Hx. destruct Hx as [Hx|Hx].
               ++ left. apply beqb_eq in Hx. exact Hx.
               ++ right. destruct k as [k'|]; cbn [opt_list existsb] in Hx; [|discriminate Hx].
                  rewrite orb_false_r in Hx. apply beqb_eq in Hx. subst. reflexivity.
            -- intros x Hx. apply undead_spec. left. exact Hx.
            -- intros k' E. exact (proj2 (Hk k' E)). }
      destruct Hcoll as [(l & l' & items & jitems & Ecv & Ejc & Hh & Hj & HF & Hr)
                        |(l & l' & items & props & Ecv & Ejc & Hh & Hj & HF)].
      + (* an array: index and element, in index order *)
        rewrite Ejc. unfold each_tail. rewrite Hj.
        apply (Hiter (indexed items) (jindexed jitems) (indexed_rel items jitems HF Hr)).
        rewrite Hplan, Ecv, Hh. unfold indexed. reflexivity.
      + (* a data map: key and member, in sorted key order *)
        rewrite Ejc. unfold each_tail. rewrite Hj. cbv zeta. rewrite (R_grown D s g Rr). cbn [existsb].
        apply (Hiter _ _ (map_pairs_rel items _ props HF)).
        rewrite Hplan, Ecv, Hh. reflexivity.
  Qed.

  (* ---- case --------------------------------------------------------------------------------------------------- *)
  Lemma case_rest_grows f m blk whens0 D fl e ea el v l t g :
    G_nodes f ->
    match case_default whens0 with Some b => lower_list (lw D fl) b = Some el | None => el = [] end ->
    lower_whens funcs goodb (lower_list (lw D fl)) D e ea el l = Some t ->
    grows g (sdo c <- case_go v g l; let '(hit, s2) := c in case_run f m blk whens0 hit s2).
  Proof.
    intros IHG Hd Hl. pose proof (case_go_grows _ D e ea el v l t g Hl) as Hc.
    destruct (case_go v g l) as [[hit g2]|fl0| |]; cbn [sbind]; try exact I; try contradiction.
    destruct Hc as [Hg2 Hh]. apply (grows_trans g g2 _ Hg2).
    exact (case_run_grows f m blk whens0 D fl el hit g2 IHG Hd Hh).
  Qed.

  Lemma whens_sim f m blk D fl e ea el whens0 dot v :
    P_nodes f -> G_nodes f -> lxd D e = Some ea ->
    match case_default whens0 with Some b => lower_list (lw D fl) b = Some el | None => el = [] end ->
    forall l t s g, lower_whens funcs goodb (lower_list (lw D fl)) D e ea el l = Some t ->
      R D s g -> sem_expr efuel g e = SOk (v, g) ->
      sim_ok D dot s t g m (sdo c <- case_go v g l; let '(hit, s2) := c in case_run f m blk whens0 hit s2).
  Proof.
    intros IHP IHG Le Hd. destruct (lxd_inv D e ea Le) as [Ale Lxe]. pose proof (good_lx e ea Lxe) as Ge.
    induction l as [|[[w|] body] r IH]; intros t s g Hl Rr Ee.
    - (* no when is left: the default *)
      cbn [lower_whens] in Hl. injection Hl as <-. cbn [case_go sbind]. unfold case_run.
      destruct (case_default whens0) as [bd|].
      + exact (IHP bd m blk g D fl el dot s Hd Rr).
      + subst el. cbn [sim_ok sim_res]. intros _. split; [reflexivity|]. exists 1, s. split; [reflexivity|exact Rr].
    - (* a when *)
      pose proof Hl as Hl0. cbn [lower_whens] in Hl. fold lxd in Hl.
      destruct (goodb (JBin BSEq e w)) eqn:Gw; [|discriminate].
      destruct (lxd D w) as [wa|] eqn:Lw; [|discriminate].
      destruct (lower_list (lw D fl) body) as [b|] eqn:Lb; [|discriminate].
      destruct (lower_whens funcs goodb (lower_list (lw D fl)) D e ea el r) as [rest|] eqn:Lr; [|discriminate].
      injection Hl as <-.
      pose proof (case_rest_grows f m blk whens0 D fl e ea el v _ _ g IHG Hd Hl0) as GA.
      cbn [case_go] in *. pose proof (exprd_grows D g w wa Lw) as Hg.
      destruct (sem_expr efuel g w) as [[wv g1]|fl0| |] eqn:Ew; cbn [sbind] in *; try exact I; try contradiction.
      apply (sim_pre D _ g g1 m _ Hg).
      { (* what follows the test only adds flags *)
        destruct (jv_strict_eq v wv) as [[|]|]; cbn [sbind]; try exact I.
        - exact (IHG body m blk g1 D fl b Lb).
        - exact (case_rest_grows f m blk whens0 D fl e ea el v r rest g1 IHG Hd Lr). }
      intros E1. destruct (lxd_inv D w wa Lw) as [Alw Lxw]. pose proof (good_lx w wa Lxw) as Gww.
      pose proof (H_same w Gww g wv g1 Ew E1) as ->.
      destruct (jv_strict_eq v wv) as [bb|] eqn:Eq; [|destruct (jv_strict_eq v wv) as [[|]|]; exact I].
      destruct (H_case e w Gw (env_of s dot) (x_heap s) g v wv (R_on_vars D s g e Rr Ge Ale) (R_on_vars D s g w Rr Gww Alw)
                       Ee Ew ea wa Lxe Lxw bb Eq) as [vb [Ev Tv]].
      pose proof (R_after_test D s g (eql_pipe ea wa) vb eq_refl Rr) as RA.
      apply sim_single. destruct bb; cbn [sbind].
      + (* the first when that is equal: its body *)
        unfold case_run.
        apply (sim_res_run D (fun fM => exec_nodes [] fM dot (after_test s (eql_pipe ea wa) vb (x_heap s)) b)).
        * intros f0 r0 X _. exists (S f0). rewrite (if_step [] f0 dot s _ b rest vb (x_heap s) true Ev Tv). exact X.
        * exact (IHP body m blk g D fl b dot _ Lb RA).
      + (* not equal: the next when *)
        apply (sim_res_run D (fun fM => exec_nodes [] fM dot (after_test s (eql_pipe ea wa) vb (x_heap s)) rest)).
        * intros f0 r0 X _. exists (S f0). rewrite (if_step [] f0 dot s _ b rest vb (x_heap s) false Ev Tv). exact X.
        * exact (IH rest _ g eq_refl RA Ee).
    - (* a default entry is skipped by the chain *)
      cbn [lower_whens] in Hl. cbn [case_go]. exact (IH t s g Hl Rr Ee).
  Qed.

  Lemma case_sim f m blk g D fl e whens t dot s :
    P_nodes f -> G_nodes f -> lw D (S fl) (PCase e whens) = Some t -> R D s g ->
    sim_ok D dot s t g m (sem_node globals (S f) m blk g (PCase e whens)).
  Proof.
    intros IHP IHG Hl Rr. destruct (lower_case_inv D fl e whens t Hl) as [ea [el [Le [Hd Hw]]]].
    rewrite sem_case_eq. pose proof (exprd_grows D g e ea Le) as Hg.
    destruct (sem_expr efuel g e) as [[v g1]|fl0| |] eqn:Ee; cbn [sbind]; try exact I; try contradiction.
    apply (sim_pre D _ g g1 m _ Hg).
    - exact (case_rest_grows f m blk whens D fl e ea el v whens t g1 IHG Hd Hw).
    - intros E1. destruct (lxd_inv D e ea Le) as [_ Lxe].
      pose proof (H_same e (good_lx e ea Lxe) g v g1 Ee E1) as E. subst g1.
      exact (whens_sim f m blk D fl e ea el whens dot v IHP IHG Le Hd whens t s g Hw Rr Ee).
  Qed.

  Hypothesis void_agree : forall name, is_void name = mem name void_tags.

  Lemma sim_all fs : P_nodes fs /\ P_node fs.
  Proof.
    induction fs as [|fs [IHns IHn]]; [split; intro; intros; exact I|].
    pose proof (proj1 (grows_all fs)) as Gns. pose proof (proj2 (grows_all fs)) as Gn. split.
    - (* node lists *)
      intros ns m blk g D fl t dot s Hl Rr. destruct ns as [|n r].
      + cbn [lower_list] in Hl. injection Hl as <-. rewrite sem_nodes_nil. cbn [sim_ok sim_res]. intros _.
        split; [reflexivity|]. exists 1, s. split; [reflexivity|exact Rr].
      + rewrite sem_nodes_cons. destruct (lower_list_cons _ _ _ _ Hl) as [ta [tb [Ha [Hb ->]]]].
        apply sim_seq.
        * exact (Gn n m blk g D fl ta Ha).
        * exact (IHn n m blk g D fl ta dot s Ha Rr).
        * intros g1 m1 _. exact (Gns r m1 blk g1 D fl tb Hb).
        * intros g1 s1 R1. exact (IHns r m blk g1 D fl tb dot s1 Hb R1).
    - (* single nodes *)
      intros n m blk g D fl t dot s Hl Rr. destruct fl as [|fl]; [discriminate|].
      destruct n as [name inl attrs ablocks body|txt|stmts esc inl|test cons_ alt|e whens|v k obj body|test body
                     |name params body|name args attrs body| |dv|l|]; try discriminate Hl.
      + (* tag *)
        unfold lw in Hl. cbn [lower] in Hl.
        destruct attrs; [|discriminate]. destruct ablocks; [|discriminate].
        destruct (has_delim name); [discriminate|].
        destruct (lower_list (lower funcs goodb D fl) body) as [b|] eqn:Eb; [|discriminate].
        rewrite sem_tag. cbv zeta. rewrite void_agree in Hl.
        replace (B "<" ++ name ++ [] ++ B ">") with ((B "<" ++ name) ++ B ">") by (cbn [app]; rewrite <- !app_assoc; reflexivity).
        assert (R2 : R D (emit (emit s (B "<" ++ name)) (B ">")) (put g ((B "<" ++ name) ++ B ">"))).
        { pose proof (R_emit_put D _ _ (B ">") (R_emit_put D s g (B "<" ++ name) Rr)) as H.
          apply (R_update D _ _ _ _ H); [exact (R_live _ _ _ H)|reflexivity|reflexivity|reflexivity| |].
          - rewrite (R_out _ _ _ H), !soutput_put. rewrite <- !app_assoc. reflexivity.
          - intros x _. left. split; reflexivity. }
        destruct (mem name void_tags).
        * injection Hl as <-. cbn [sim_ok sim_res put s_flags]. intros _. split; [reflexivity|].
          exists 3. eexists. split; [reflexivity|exact R2].
        * destruct (beqb name (B "script")); [discriminate|]. injection Hl as <-.
          set (g0 := put g ((B "<" ++ name) ++ B ">")).
          assert (S0 : sim_ok D dot s [NText (B "<" ++ name); NText (B ">")] g m (SOk (g0, m))).
          { cbn [sim_ok sim_res]. intros _. split; [reflexivity|]. exists 3. eexists. split; [reflexivity|exact R2]. }
          set (k := fun a : sstate * list (bytes * mixin) => let '(g1, m1) := a in
                    sdo b0 <- sem_nodes globals fs m1 blk g1 body; let '(s3, m3) := b0 in SOk (put s3 (B "</" ++ name ++ B ">"), m3)).
          refine (sim_seq D dot s [NText (B "<" ++ name); NText (B ">")] (b ++ [NText (B "</" ++ name ++ B ">")]) g m
                          (SOk (g0, m)) k _ S0 _ _).
          -- exists []. reflexivity.
          -- intros g1 m1 E1. injection E1 as <- <-. unfold k. apply grows_bind; [exact (Gns body m blk g0 D fl b Eb)|].
             intros g3 m3 _. exists []. reflexivity.
          -- intros g1 s1 R1. unfold k.
             set (k2 := fun a : sstate * list (bytes * mixin) => let '(s3, m3) := a in
                        SOk (put s3 (B "</" ++ name ++ B ">"), m3) : sres (sstate * list (bytes * mixin))).
             refine (sim_seq D dot s1 b [NText (B "</" ++ name ++ B ">")] g1 m (sem_nodes globals fs m blk g1 body) k2 _ _ _ _).
             ++ exact (Gns body m blk g1 D fl b Eb).
             ++ exact (IHns body m blk g1 D fl b dot s1 Eb R1).
             ++ intros g3 m3 _. exists []. reflexivity.
             ++ intros g3 s3 R3. exact (text_sim D dot s3 g3 m _ R3).
      + (* text *)
        unfold lw in Hl. cbn [lower] in Hl. destruct (plain_text txt); [|discriminate]. injection Hl as <-.
        rewrite sem_text. exact (text_sim D dot s g m txt Rr).
      + (* code *)
        unfold lw in Hl. cbn [lower] in Hl.
        exact (code_sim fs m blk g D stmts esc inl t dot s (lower_code_inv D stmts esc t Hl) Rr).
      + (* if *)
        unfold lw in Hl. cbn [lower] in Hl. fold lxd in Hl.
        destruct (lxd D test) as [ta|] eqn:Lt; [|discriminate].
        destruct (lower_list (lower funcs goodb D fl) cons_) as [th|] eqn:Ec; [|discriminate].
        assert (Ht : exists el, t = [NIf (pipe1 ta) th el] /\
                                match alt with Some a' => lower funcs goodb D fl a' = Some el | None => el = [] end).
        { destruct alt as [a'|].
          - destruct (lower funcs goodb D fl a') as [el|]; [|discriminate]. injection Hl as <-. exists el. split; reflexivity.
          - injection Hl as <-. exists []. split; reflexivity. }
        destruct Ht as [el [-> Hel]]. clear Hl.
        rewrite sem_cond. pose proof (exprd_grows D g test ta Lt) as Hg.
        destruct (sem_expr efuel g test) as [[j g1]|fl0| |] eqn:Es; cbn [sbind]; try exact I; try contradiction.
        destruct (to_boolean g1 j) as [bb g2] eqn:Eb2.
        pose proof (to_boolean_flags g1 j bb g2 Eb2) as Hg2.
        (* what S continues with, and the branch the model must take *)
        set (r2 := if bb then sem_nodes globals fs m blk g2 cons_
                   else match alt with Some a' => sem_node globals fs m blk g2 a' | None => SOk (g2, m) end).
        assert (G2 : grows g2 r2).
        { unfold r2. destruct bb; [exact (Gns cons_ m blk g2 D fl th Ec)|].
          destruct alt as [a'|]; [|apply grows_refl]. exact (Gn a' m blk g2 D fl el Hel). }
        apply (sim_pre D _ g g1 m r2 Hg); [exact (grows_trans g1 g2 r2 Hg2 G2)|]. intros E1.
        destruct (eval_here D dot s g test ta j g1 Rr Lt Es E1) as [-> [v [Ev [Hv _]]]].
        apply (sim_pre D _ g g2 m r2 Hg2 G2). intros E2.
        destruct (vr_truthy (x_heap s) g v j Hv) as [T1 T2]. rewrite Eb2 in T1, T2. cbn [fst snd] in T1, T2. subst g2.
        pose proof (R_after_test D s g (pipe1 ta) v eq_refl Rr) as RA.
        apply sim_single. unfold r2. destruct bb.
        * apply (sim_res_run D (fun fM => exec_nodes [] fM dot (after_test s (pipe1 ta) v (x_heap s)) th)).
          -- intros f0 r0 X _. exists (S f0). rewrite (if_step [] f0 dot s (pipe1 ta) th el v (x_heap s) true (Ev []) T1). exact X.
          -- exact (IHns cons_ m blk g D fl th dot _ Ec RA).
        * apply (sim_res_run D (fun fM => exec_nodes [] fM dot (after_test s (pipe1 ta) v (x_heap s)) el)).
          -- intros f0 r0 X _. exists (S f0). rewrite (if_step [] f0 dot s (pipe1 ta) th el v (x_heap s) false (Ev []) T1). exact X.
          -- destruct alt as [a'|].
             ++ exact (IHn a' m blk g D fl el dot _ Hel RA).
             ++ subst el. cbn [sim_res]. intros _. split; [reflexivity|]. exists 1. eexists. split; [reflexivity|exact RA].
      + (* case *) exact (case_sim fs m blk g D fl e whens t dot s IHns Gns Hl Rr).
      + (* each *)
        destruct (lower_each_inv D fl v k obj body t Hl) as [c [tb [-> [Hc [Hv [Hk [Hb ->]]]]]]].
        apply sim_single. exact (each_sim fs m blk g D fl v k c body tb dot s IHns Gns Hc Hv Hk Hb Rr).
      + (* while *)
        unfold lw in Hl. cbn [lower] in Hl. fold lxd in Hl.
        destruct (lxd D test) as [ta|] eqn:Lt; [|discriminate].
        destruct (lower_list (lower funcs goodb D fl) body) as [tb|] eqn:Ebd; [|discriminate]. injection Hl as <-.
        rewrite sem_while_eq. apply sim_single. destruct fs as [|fs']; [exact I|].
        rewrite sem_while_step. pose proof (exprd_grows D g test ta Lt) as Hg.
        destruct (sem_expr efuel g test) as [[j g1]|fl0| |] eqn:Es; cbn [sbind]; try exact I; try contradiction.
        destruct j as [| |[|]| | | |]; try exact I.
        * (* the loop is entered *)
          pose proof (after_true_grows (S fs') blk test body ta tb D fl Gns Lt Ebd while_limit fs' g1 m) as GA.
          apply (sim_pre D _ g g1 m _ Hg GA). intros E1.
          destruct (range_plan_test D dot s g test ta (JB true) g1 Rr Lt Es E1) as [-> [v [Hv [R1 Ep]]]].
          assert (Tv : is_true v) by (destruct (vr_bool v true Hv) as [->| ->]; [left|right]; reflexivity).
          apply (sim_res_run D (fun fM => exec_while [] fM dot (plan_state s v) (pipe1 ta) tb while_limit v)).
          -- intros f0 r0 X _. exists (S f0). rewrite node_range, Ep. rewrite cap_is_limit.
             destruct Tv as [-> | ->]; exact X.
          -- exact (while_sim (S fs') blk test body ta tb D fl IHns Gns Lt Ebd fs' while_limit g m (plan_state s v) v dot R1 Tv).
        * (* false on entry *)
          cbn [sim_res]. intros Hf. destruct (range_plan_test D dot s g test ta (JB false) g1 Rr Lt Es Hf) as [-> [v [Hv [R1 Ep]]]].
          split; [reflexivity|]. exists 1, (plan_state s v). split; [|exact R1].
          rewrite node_range, Ep. destruct (vr_bool v false Hv) as [-> | ->]; reflexivity.
      + (* doctype *)
        unfold lw in Hl. cbn [lower] in Hl. destruct (has_delim dv); [discriminate|]. injection Hl as <-.
        rewrite sem_doctype. exact (text_sim D dot s g m _ Rr).
      + (* block *)
        rewrite sem_block. unfold lw in Hl. cbn [lower] in Hl. exact (IHns l m blk g D fl t dot s Hl Rr).
      + (* comment *)
        unfold lw in Hl. cbn [lower] in Hl. injection Hl as <-. rewrite sem_comment. cbn [sim_ok sim_res]. intros _.
        split; [reflexivity|]. exists 1, s. split; [reflexivity|exact Rr].
  Qed.
End Sim.
