(* C06 -- the lexer seam: the byte-level lexer model (Tmpl/Lexer.v) run on the text of a token list gives
   exactly the token-level view of Tmpl/IR.v (merge_text, apply_trims), for EVERY well-formed token list.
   Part S1: the token-level view as one left-to-right pass ([tsegs]) and [tsegs = map seg_of_tok . lexed].
   Part S2: the lexer on a run of literal text.
   Part S3: the lexer inside an action: a two-state scanner ([arun]: outside / inside a "..." literal) that
            accepts what the compiler writes into actions; where it accepts, lex_act reads to the end.
   Part S4: well-formed tokens ([wf_tok], [wf_toks]) and the seam theorem for all well-formed token lists.
   (Proofs/C06SeamCompile.v shows that the compiler emits well-formed tokens only.) *)
From PV Require Import Base.Bytes Base.Escape Js.Ast Tmpl.IR Tmpl.Lexer Pug.Ast Pug.Compile Proofs.C06Proofs.

(* ================================================================================================== *)
(* Part S1  the token-level view in one pass                                                          *)
(* ================================================================================================== *)
(* [sk]: the action before carried a right trim marker; [p]: the text items read since then *)
Fixpoint tsegs (sk : bool) (p : bytes) (ts : list tok) : list seg :=
  match ts with
  | [] => emit_text (if sk then trim_left p else p) []
  | TText s :: r => tsegs sk (p ++ s) r
  | TAct txt lt rt _ :: r =>
    let p1 := if sk then trim_left p else p in
    emit_text (if lt then trim_right p1 else p1) (SAct lt (body_of txt lt rt) rt :: tsegs rt [] r)
  end.

Lemma merge_text_tt a b r : merge_text (TText a :: TText b :: r) = merge_text (TText (a ++ b) :: r).
Proof.
  cbn [merge_text]. destruct (merge_text r) as [|[c|txt l rt ac] r']; try reflexivity.
  rewrite app_assoc. reflexivity.
Qed.

Lemma trim_right_nil : trim_right [] = [].
Proof. reflexivity. Qed.

Lemma apply_trims_nil_head q r : apply_trims q (merge_text (TText [] :: r)) = apply_trims q (merge_text r).
Proof.
  cbn [merge_text]. destruct (merge_text r) as [|[c|txt l rt ac] r']; try reflexivity.
  - cbn [apply_trims]. destruct q; reflexivity.
  - cbn [apply_trims act_ltrim]. destruct q; destruct l; reflexivity.
Qed.

Lemma map_emit_tok s l :
  map seg_of_tok (match s with [] => l | _ :: _ => TText s :: l end) = emit_text s (map seg_of_tok l).
Proof. destruct s; reflexivity. Qed.

Lemma tsegs_trims ts : forall sk p,
  map seg_of_tok (apply_trims sk (merge_text (TText p :: ts))) = tsegs sk p ts.
Proof.
  induction ts as [|t r IH]; intros sk p.
  - cbn [merge_text apply_trims tsegs]. rewrite map_emit_tok. reflexivity.
  - destruct t as [s|txt lt rt a].
    + rewrite merge_text_tt. cbn [tsegs]. apply IH.
    + cbn [merge_text apply_trims act_ltrim tsegs]. rewrite map_emit_tok.
      cbn [apply_trims act_rtrim map seg_of_tok]. rewrite <- IH, apply_trims_nil_head. reflexivity.
Qed.

Lemma tsegs_lexed ts : map seg_of_tok (lexed ts) = tsegs false [] ts.
Proof. unfold lexed. rewrite <- tsegs_trims, apply_trims_nil_head. reflexivity. Qed.

(* ================================================================================================== *)
(* Part S2  the lexer on a run of literal text                                                        *)
(* ================================================================================================== *)
Definition hd_is (x : ascii) (s : bytes) : bool := match s with c :: _ => Ascii.eqb c x | [] => false end.
Definition last_is (x : ascii) (s : bytes) : bool := hd_is x (rev s).

Lemma last_is_cons x c d s : last_is x (c :: d :: s) = last_is x (d :: s).
Proof.
  unfold last_is. cbn [rev]. destruct (rev s) as [|e r]; reflexivity.
Qed.
Lemma last_is_tail x c s : last_is x (c :: s) = false -> last_is x s = false.
Proof. destruct s as [|d s]; [reflexivity|]. rewrite last_is_cons. auto. Qed.
Lemma last_is_app x a s : s <> [] -> last_is x (a ++ s) = last_is x s.
Proof.
  intros H. unfold last_is. rewrite rev_app_distr. destruct (rev s) as [|e r] eqn:E; [|reflexivity].
  apply (f_equal (@rev ascii)) in E. rewrite rev_involutive in E. contradiction.
Qed.
Lemma last_is_snoc x a c : last_is x (a ++ [c]) = Ascii.eqb c x.
Proof. unfold last_is. rewrite rev_app_distr. reflexivity. Qed.

(* a text item of the compiler: no left delimiter inside, no "{" at the end (it would form a delimiter
   with a "{" that follows) *)
Definition text_ok (s : bytes) : bool := negb (has_delim s) && negb (last_is "{" s).

(* the state of lex_text after a run of text *)
Fixpoint txt_state (skip : bool) (acc s : bytes) : bool * bytes :=
  match s with
  | [] => (skip, acc)
  | c :: r => if skip && is_space c then txt_state true acc r else txt_state false (c :: acc) r
  end.

Lemma has_delim_tail c s : has_delim (c :: s) = false -> has_delim s = false.
Proof. unfold has_delim. rewrite containsb_cons. intros H. apply orb_false_iff in H. tauto. Qed.

Lemma lex_text_run s : forall skip acc k,
  has_delim s = false -> last_is "{" s = false ->
  lex_text skip acc (s ++ k) = lex_text (fst (txt_state skip acc s)) (snd (txt_state skip acc s)) k.
Proof.
  induction s as [|c s IH]; intros skip acc k Hd Hl; [reflexivity|].
  destruct (Ascii.eqb_spec c "{") as [->|Hc].
  - destruct s as [|d s']; [discriminate Hl|].
    assert (Hdd : d <> "{"%char).
    { unfold has_delim in Hd. rewrite containsb_cons in Hd. apply orb_false_iff in Hd. destruct Hd as [Hp _].
      change (B "{{") with LBR in Hp. bsimp. destruct (Ascii.eqb_spec "{" d); [discriminate|congruence]. }
    assert (E : lex_text skip acc (("{"%char :: d :: s') ++ k) = lex_text false ("{"%char :: acc) ((d :: s') ++ k)).
    { apply Ascii.eqb_neq in Hdd. cbn [lex_text app]. bsimp. rewrite Hdd. reflexivity. }
    rewrite E. rewrite IH; [|exact (has_delim_tail _ _ Hd)|rewrite last_is_cons in Hl; exact Hl].
    assert (S : txt_state skip acc ("{"%char :: d :: s') = txt_state false ("{"%char :: acc) (d :: s')).
    { cbn [txt_state]. replace (is_space "{") with false by reflexivity. rewrite andb_false_r. reflexivity. }
    rewrite S. reflexivity.
  - assert (E : lex_text skip acc ((c :: s) ++ k) =
                if skip && is_space c then lex_text true acc (s ++ k) else lex_text false (c :: acc) (s ++ k)).
    { apply Ascii.eqb_neq in Hc. cbn [lex_text app]. rewrite Hc. reflexivity. }
    rewrite E. cbn [txt_state]. rewrite has_delim_cons in Hd by exact Hc. apply last_is_tail in Hl.
    destruct (skip && is_space c); apply IH; assumption.
Qed.

Lemma txt_state_app a : forall sk acc b,
  txt_state sk acc (a ++ b) = txt_state (fst (txt_state sk acc a)) (snd (txt_state sk acc a)) b.
Proof.
  induction a as [|c a IH]; intros sk acc b; [reflexivity|].
  cbn [app txt_state]. destruct (sk && is_space c); apply IH.
Qed.

Lemma txt_state_false p : forall acc, txt_state false acc p = (false, rev p ++ acc).
Proof.
  induction p as [|c p IH]; intros acc; [reflexivity|].
  cbn [txt_state andb rev]. rewrite IH, <- app_assoc. reflexivity.
Qed.

(* the text the lexer holds is the text read, left-trimmed when it follows a right trim marker *)
Lemma txt_state_text p sk : rev (snd (txt_state sk [] p)) = if sk then trim_left p else p.
Proof.
  destruct sk.
  - induction p as [|c p IH]; [reflexivity|].
    cbn [txt_state trim_left andb]. destruct (is_space c); [exact IH|].
    rewrite txt_state_false. cbn [snd]. rewrite rev_app_distr, rev_involutive. reflexivity.
  - rewrite txt_state_false. cbn [snd]. rewrite app_nil_r, rev_involutive. reflexivity.
Qed.

(* ================================================================================================== *)
(* Part S3  inside an action                                                                          *)
(* ================================================================================================== *)
Definition DQ : ascii := """"%char.
Definition BSL : ascii := "\"%char.

(* a byte the action-level lexer steps over outside a quoted string without leaving the action: not "}",
   no line end, no quote character of any kind *)
Definition achar (c : ascii) : bool :=
  negb (Ascii.eqb c "}") && negb (is_eol c) && negb (Ascii.eqb c DQ) && negb (Ascii.eqb c "'") && negb (Ascii.eqb c "`").

(* the scanner: [i] = inside a "..." literal; the state after [s], [None] when [s] is not accepted *)
Fixpoint arun (i : bool) (s : bytes) : option bool :=
  match s with
  | [] => Some i
  | c :: r =>
    if i then
      if Ascii.eqb c BSL then
        match r with
        | d :: r' => if Ascii.eqb d LF then None else arun true r'
        | [] => None
        end
      else if Ascii.eqb c DQ then arun false r
      else if Ascii.eqb c LF then None
      else arun true r
    else
      if Ascii.eqb c DQ then arun true r
      else if achar c then arun false r
      else None
  end.

Lemma arun_app_len n : forall a, length a <= n -> forall i j k b,
  arun i a = Some j -> arun j b = Some k -> arun i (a ++ b) = Some k.
Proof.
  induction n as [|n IH]; intros a Hn i j k b Ha Hb.
  - destruct a; [|simpl in Hn; lia]. cbn in Ha. inversion Ha; subst. exact Hb.
  - destruct a as [|c r]; [cbn in Ha; inversion Ha; subst; exact Hb|].
    simpl in Hn. cbn [app arun] in *. destruct i.
    + destruct (Ascii.eqb c BSL).
      * destruct r as [|d r']; [discriminate|]. cbn [app]. destruct (Ascii.eqb d LF); [discriminate|].
        simpl in Hn. apply (IH r' ltac:(lia) _ _ _ _ Ha Hb).
      * destruct (Ascii.eqb c DQ); [apply (IH r ltac:(lia) _ _ _ _ Ha Hb)|].
        destruct (Ascii.eqb c LF); [discriminate|apply (IH r ltac:(lia) _ _ _ _ Ha Hb)].
    + destruct (Ascii.eqb c DQ); [apply (IH r ltac:(lia) _ _ _ _ Ha Hb)|].
      destruct (achar c); [apply (IH r ltac:(lia) _ _ _ _ Ha Hb)|discriminate].
Qed.

Lemma arun_app a b i j k : arun i a = Some j -> arun j b = Some k -> arun i (a ++ b) = Some k.
Proof. apply (arun_app_len (length a)). lia. Qed.

(* bytes that are harmless in both states *)
Definition pchar (c : ascii) : bool :=
  achar c && negb (Ascii.eqb c BSL) && negb (Ascii.eqb c LF).
Lemma arun_pass x : forall i, forallb pchar x = true -> arun i x = Some i.
Proof.
  induction x as [|c x IH]; intros i H; [reflexivity|].
  cbn [forallb] in H. apply andb_true_iff in H. destruct H as [Hc Hx].
  unfold pchar in Hc. apply andb_true_iff in Hc. destruct Hc as [Hc Hlf]. apply andb_true_iff in Hc. destruct Hc as [Ha Hb].
  apply negb_true_iff in Hlf, Hb.
  assert (Hq : Ascii.eqb c DQ = false).
  { unfold achar in Ha. repeat (apply andb_true_iff in Ha; destruct Ha as [Ha ?]).
    match goal with H : negb (Ascii.eqb c DQ) = true |- _ => apply negb_true_iff in H; exact H end. }
  cbn [arun]. rewrite Hb, Hq, Hlf, Ha. destruct i; apply IH; exact Hx.
Qed.

Definition is_nil (s : bytes) : bool := match s with [] => true | _ => false end.
Definition insp_after (insp : bool) (b : bytes) : bool := match rev b with c :: _ => is_blank c | [] => insp end.

Lemma insp_after_cons i c s : insp_after i (c :: s) = insp_after (is_blank c) s.
Proof. unfold insp_after. cbn [rev]. destruct (rev s); reflexivity. Qed.

(* the test for the right delimiter and the comment marker never fires on such bytes *)
Lemma at_rdelim_hd c x : Ascii.eqb c "}" = false -> at_rdelim (c :: x) = false.
Proof. intros H. destruct x; cbn [at_rdelim]; [reflexivity|]. rewrite H. reflexivity. Qed.
Lemma at_comment_hd c x : Ascii.eqb c "/" = false -> at_comment (c :: x) = false.
Proof. intros H. destruct x; cbn [at_comment]; [reflexivity|]. rewrite H. reflexivity. Qed.
Lemma at_rtrim_1 a l : Ascii.eqb a " " = false -> at_rtrim (a :: l) = false.
Proof. intros H. destruct l as [|b [|c [|d l']]]; cbn [at_rtrim]; try reflexivity. rewrite H. reflexivity. Qed.
Lemma at_rtrim_2 a l : hd_is "-" l = false -> at_rtrim (a :: l) = false.
Proof.
  intros H. destruct l as [|b [|c [|d l']]]; cbn [at_rtrim]; try reflexivity.
  cbn [hd_is] in H. rewrite H, andb_false_r. reflexivity.
Qed.
Lemma at_rtrim_3 a b l : hd_is "}" l = false -> at_rtrim (a :: b :: l) = false.
Proof.
  intros H. destruct l as [|c [|d l']]; cbn [at_rtrim]; try reflexivity.
  cbn [hd_is] in H. rewrite H, andb_false_r. reflexivity.
Qed.

Lemma achar_parts c : achar c = true ->
  Ascii.eqb c "}" = false /\ is_eol c = false /\ Ascii.eqb c DQ = false /\ Ascii.eqb c "'" = false /\
  Ascii.eqb c "`" = false.
Proof.
  unfold achar. intros H. repeat (apply andb_true_iff in H; destruct H as [H ?]).
  repeat match goal with X : negb _ = true |- _ => apply negb_true_iff in X end. auto.
Qed.

(* the first byte of an accepted, non-empty action text is not "}" *)
Lemma arun_hd c s j : arun false (c :: s) = Some j -> Ascii.eqb c "}" = false.
Proof.
  cbn [arun]. destruct (Ascii.eqb_spec c DQ) as [->|_]; [reflexivity|].
  destruct (achar c) eqn:E; [|discriminate]. intros _. apply achar_parts in E. tauto.
Qed.

(* guard against reading " -}}" across the end of the body *)
Definition gd (rest s : bytes) : bool := negb (hd_is "}" rest) || negb (last_is "-" s).
Lemma gd_tail rest c s : gd rest (c :: s) = true -> gd rest s = true.
Proof.
  unfold gd. intros H. apply orb_true_iff in H. apply orb_true_iff. destruct H as [H|H]; [left; exact H|].
  right. apply negb_true_iff in H. apply negb_true_iff. exact (last_is_tail _ _ _ H).
Qed.

Lemma no_rtrim c s rest j :
  achar c = true -> arun false s = Some j -> hd_is "-" rest = false -> gd rest (c :: s) = true ->
  at_rtrim (c :: s ++ rest) = false.
Proof.
  intros Hc Hs Hr Hg.
  destruct (Ascii.eqb c " ") eqn:Ec; [|apply at_rtrim_1; exact Ec].
  destruct s as [|x1 s1]; [apply at_rtrim_2; exact Hr|].
  destruct (Ascii.eqb x1 "-") eqn:E1; [|apply at_rtrim_2; exact E1].
  destruct s1 as [|x2 s2].
  - cbn [app]. apply at_rtrim_3. unfold gd in Hg. rewrite last_is_cons in Hg. unfold last_is in Hg. cbn [rev app hd_is] in Hg.
    rewrite E1 in Hg. cbn [negb] in Hg. rewrite orb_false_r in Hg. apply negb_true_iff in Hg. exact Hg.
  - cbn [app]. apply at_rtrim_3. cbn [hd_is].
    apply Ascii.eqb_eq in E1. subst x1. cbn [arun] in Hs.
    replace (Ascii.eqb "-" DQ) with false in Hs by reflexivity. replace (achar "-") with true in Hs by reflexivity.
    exact (arun_hd _ _ _ Hs).
Qed.

(* the continuation in state [j] *)
Definition K (txt : bytes) (lt : bool) (j : bool) (st insp : bool) (acc s : bytes) : option (list seg) :=
  if j then lex_quote txt lt DQ acc s else lex_act txt lt st insp acc s.

Lemma rev_cons_app {A} (c : A) s acc : rev (c :: s) ++ acc = rev s ++ c :: acc.
Proof. cbn [rev]. rewrite <- app_assoc. reflexivity. Qed.

Lemma lex_arun txt lt rest : hd_is "-" rest = false ->
  forall n b, length b <= n -> forall i j st insp acc,
  arun i b = Some j -> (st = true -> hd_is "/" b = false) -> gd rest b = true ->
  K txt lt i st insp acc (b ++ rest) = K txt lt j (st && is_nil b) (insp_after insp b) (rev b ++ acc) rest.
Proof.
  intros Hr. induction n as [|n IH]; intros b Hn i j st insp acc Hb Hst Hg.
  { destruct b; [|simpl in Hn; lia]. cbn in Hb. inversion Hb; subst. cbn [app rev is_nil insp_after]. rewrite andb_true_r. reflexivity. }
  destruct b as [|c r].
  { cbn in Hb. inversion Hb; subst. cbn [app rev is_nil insp_after]. rewrite andb_true_r. reflexivity. }
  simpl in Hn. cbn [is_nil]. rewrite andb_false_r, insp_after_cons, rev_cons_app.
  pose proof (gd_tail _ _ _ Hg) as Hg1.
  destruct i; cbn [arun] in Hb; cbn [K app].
  - (* inside a quoted string *)
    cbn [lex_quote]. fold BSL.
    destruct (Ascii.eqb c BSL) eqn:Eb.
    + destruct r as [|d r']; [discriminate|]. cbn [app]. destruct (Ascii.eqb d LF) eqn:Ed; [discriminate|].
      simpl in Hn. pose proof (gd_tail _ _ _ Hg1) as Hg2.
      rewrite insp_after_cons, rev_cons_app.
      exact (IH r' ltac:(lia) true j false (is_blank d) (d :: c :: acc) Hb ltac:(discriminate) Hg2).
    + destruct (Ascii.eqb c LF) eqn:El.
      { destruct (Ascii.eqb c DQ) eqn:Eq; [|discriminate].
        apply Ascii.eqb_eq in Eq. rewrite Eq in El. discriminate El. }
      fold DQ. destruct (Ascii.eqb c DQ) eqn:Eq.
      * apply Ascii.eqb_eq in Eq. subst c.
        exact (IH r ltac:(lia) false j false (is_blank DQ) (DQ :: acc) Hb ltac:(discriminate) Hg1).
      * exact (IH r ltac:(lia) true j false (is_blank c) (c :: acc) Hb ltac:(discriminate) Hg1).
  - (* in the action *)
    assert (Hcm : st && at_comment (c :: r ++ rest) = false).
    { destruct st; [|reflexivity]. cbn [andb]. apply at_comment_hd. specialize (Hst eq_refl). exact Hst. }
    cbn [lex_act]. rewrite Hcm.
    destruct (Ascii.eqb c DQ) eqn:Eq.
    + apply Ascii.eqb_eq in Eq. subst c.
      rewrite at_rdelim_hd by reflexivity. rewrite at_rtrim_1 by reflexivity. rewrite andb_false_r.
      replace (is_eol DQ) with false by reflexivity. replace (is_blank DQ) with false by reflexivity.
      replace (Ascii.eqb DQ """" || Ascii.eqb DQ "'") with true by reflexivity.
      exact (IH r ltac:(lia) true j false false (DQ :: acc) Hb ltac:(discriminate) Hg1).
    + destruct (achar c) eqn:Ea; [|discriminate].
      destruct (achar_parts c Ea) as (E1 & E2 & E3 & E4 & E5).
      rewrite (at_rdelim_hd _ _ E1). rewrite (no_rtrim c r rest j Ea Hb Hr Hg), andb_false_r, E2.
      fold DQ. rewrite E3, E4, E5. cbn [orb].
      destruct (is_blank c) eqn:Ebl.
      * exact (IH r ltac:(lia) false j false true (c :: acc) Hb ltac:(discriminate) Hg1).
      * exact (IH r ltac:(lia) false j false false (c :: acc) Hb ltac:(discriminate) Hg1).
Qed.

(* ================================================================================================== *)
(* Part S4  well-formed tokens and the seam                                                           *)
(* ================================================================================================== *)
Definition aopen (lt : bool) : bytes := if lt then B "{{- " else B "{{".
Definition aclose (rt : bool) : bytes := if rt then B " -}}" else B "}}".

(* the body does not begin like a comment, nor (without left trim marker) like a left trim marker *)
Definition good_start (b : bytes) : bool :=
  match b with
  | c :: r => negb (Ascii.eqb c "/") &&
              (negb (Ascii.eqb c "-") || match r with d :: _ => negb (Ascii.eqb d " ") | [] => false end)
  | [] => true
  end.
(* before " -}}" no blank (the lexer would swallow the marker's blank with it), before "}}" no "-" *)
Definition end_ok (rt : bool) (b : bytes) : bool :=
  if rt then negb (insp_after false b) else negb (last_is "-" b).

(* an action as the compiler writes it: delimiters with the trim markers the token says, and a body in which
   every "}" , quote and line end lies inside a closed "..." literal *)
Definition wf_act (txt : bytes) (lt rt : bool) : Prop :=
  exists b, txt = aopen lt ++ b ++ aclose rt /\ arun false b = Some false /\ good_start b = true /\ end_ok rt b = true.
Definition wf_tok (t : tok) : Prop :=
  match t with
  | TText s => text_ok s = true
  | TAct txt lt rt _ => wf_act txt lt rt
  end.
Definition wf_toks (ts : list tok) : Prop := Forall wf_tok ts.

Lemma firstn_exact {A} (b c : list A) : firstn (length b) (b ++ c) = b.
Proof. induction b as [|x b IH]; [reflexivity|]. cbn [length app firstn]. rewrite IH. reflexivity. Qed.

Lemma body_of_wf lt rt b : body_of (aopen lt ++ b ++ aclose rt) lt rt = b.
Proof.
  unfold body_of.
  assert (E : skipn (if lt then 4 else 2) (aopen lt ++ b ++ aclose rt) = b ++ aclose rt) by (destruct lt; reflexivity).
  rewrite E. cbv zeta. rewrite app_length.
  assert (L : length b + length (aclose rt) - (if rt then 4 else 2) = length b) by (destruct rt; cbn [aclose B length list_ascii_of_string]; lia).
  rewrite L. apply firstn_exact.
Qed.

Lemma good_start_slash b : good_start b = true -> hd_is "/" b = false.
Proof.
  destruct b as [|c r]; [reflexivity|]. cbn [good_start hd_is]. intros H. apply andb_true_iff in H. destruct H as [H _].
  apply negb_true_iff in H. exact H.
Qed.

(* without left trim marker: the lexer does not take the beginning of the body for one *)
Lemma open_plain {T} b rt k (A : bytes -> T) (V : T) : good_start b = true ->
  match (b ++ aclose rt) ++ k with
  | m1 :: m2 :: r2 => if Ascii.eqb m1 "-" && Ascii.eqb m2 " " then A r2 else V
  | _ => V
  end = V.
Proof.
  intros H. destruct b as [|c [|d b']].
  - destruct rt; reflexivity.
  - cbn [good_start] in H. rewrite orb_false_r in H. apply andb_true_iff in H. destruct H as [_ H]. apply negb_true_iff in H.
    destruct rt; cbn [app aclose B list_ascii_of_string]; rewrite H; reflexivity.
  - cbn [good_start] in H. apply andb_true_iff in H. destruct H as [_ H]. cbn [app].
    apply orb_true_iff in H. destruct H as [H|H]; apply negb_true_iff in H; rewrite H; [reflexivity|].
    rewrite andb_false_r. reflexivity.
Qed.

Lemma act_body_lex txt lt rt b k :
  arun false b = Some false -> good_start b = true -> end_ok rt b = true ->
  lex_act txt lt true false [] ((b ++ aclose rt) ++ k) = oemit txt (ocons (SAct lt b rt) (lex_text rt [] k)).
Proof.
  intros Hb Hs He. rewrite <- app_assoc.
  assert (Hr : hd_is "-" (aclose rt ++ k) = false) by (destruct rt; reflexivity).
  assert (Hg : gd (aclose rt ++ k) b = true).
  { unfold gd. destruct rt; [reflexivity|]. cbn [end_ok] in He. rewrite He. apply orb_true_r. }
  pose proof (lex_arun txt lt (aclose rt ++ k) Hr (length b) b (le_n _) false false true false [] Hb
                       (fun _ => good_start_slash b Hs) Hg) as E.
  cbn [K] in E. rewrite E. rewrite app_nil_r.
  destruct rt; cbn [aclose B list_ascii_of_string app].
  - cbn [end_ok] in He. apply negb_true_iff in He. rewrite He.
    cbn [lex_act]. replace (at_comment (" "%char :: "-"%char :: "}"%char :: "}"%char :: k)) with false by reflexivity.
    rewrite andb_false_r. cbn [at_rdelim at_rtrim]. bsimp. rewrite rev_involutive. reflexivity.
  - cbn [lex_act]. replace (at_comment ("}"%char :: "}"%char :: k)) with false by reflexivity.
    rewrite andb_false_r. cbn [at_rdelim]. bsimp. rewrite rev_involutive. reflexivity.
Qed.

(* an action token under the lexer, whatever text is pending and whatever follows *)
Lemma act_lex lt rt b skip acc k :
  arun false b = Some false -> good_start b = true -> end_ok rt b = true ->
  lex_text skip acc ((aopen lt ++ b ++ aclose rt) ++ k) =
  oemit (if lt then trim_right (rev acc) else rev acc) (ocons (SAct lt b rt) (lex_text rt [] k)).
Proof.
  intros Hb Hs He. destruct lt.
  - change ((aopen true ++ b ++ aclose rt) ++ k)
      with ("{"%char :: "{"%char :: "-"%char :: " "%char :: (b ++ aclose rt) ++ k).
    cbn [lex_text]. bsimp. apply act_body_lex; assumption.
  - change ((aopen false ++ b ++ aclose rt) ++ k) with ("{"%char :: "{"%char :: (b ++ aclose rt) ++ k).
    cbn [lex_text]. bsimp. rewrite open_plain by exact Hs. apply act_body_lex; assumption.
Qed.

Lemma show_toks_cons t r : show_toks (t :: r) = tok_text t ++ show_toks r.
Proof. reflexivity. Qed.

(* the lexer in the state reached after the pending text [p], on the text of a well-formed token list *)
Lemma seam_gen ts : wf_toks ts -> forall sk p,
  lex_text (fst (txt_state sk [] p)) (snd (txt_state sk [] p)) (show_toks ts) = Some (tsegs sk p ts).
Proof.
  induction 1 as [|t r Ht Hr IH]; intros sk p.
  - cbn [show_toks flat_map tsegs]. destruct (txt_state sk [] p) as [s a] eqn:E. cbn [fst snd lex_text].
    pose proof (txt_state_text p sk) as T. rewrite E in T. cbn [snd] in T. rewrite T. reflexivity.
  - rewrite show_toks_cons. destruct t as [s|txt lt rt a]; cbn [tok_text tsegs wf_tok] in *.
    + unfold text_ok in Ht. apply andb_true_iff in Ht. destruct Ht as [H1 H2]. apply negb_true_iff in H1, H2.
      rewrite lex_text_run by assumption. rewrite <- txt_state_app. apply IH.
    + destruct Ht as (b & -> & Hb & Hs & He).
      rewrite act_lex by assumption. rewrite body_of_wf.
      specialize (IH rt []). cbn [txt_state fst snd] in IH. rewrite IH. rewrite txt_state_text.
      cbn [ocons oemit]. reflexivity.
Qed.

(* THE SEAM, for every well-formed token list *)
Theorem seam_wf ts : wf_toks ts -> segment (show_toks ts) = Some (map seg_of_tok (lexed ts)).
Proof.
  intros H. rewrite tsegs_lexed. exact (seam_gen ts H false []).
Qed.

Lemma wf_toks_app a b : wf_toks a -> wf_toks b -> wf_toks (a ++ b).
Proof. intros Ha Hb. apply Forall_app. split; assumption. Qed.
