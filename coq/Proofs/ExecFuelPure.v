(* Pipelines that cannot change the heap, and the fuel statement of Proofs/ExecFuelProofs.v for trees built from
   them: with the heap constant, what a range action can iterate over is bounded by the largest object of the
   initial heap.
   [pure_arg]: no field access, no method call, and no call of one of the four allocating / memoising builtins
   (__op__array, __op__map, __op__map_params, __and_attrs); everything else of the expression language. *)
From PV Require Import Base.Bytes Base.Escape Tmpl.Value Tmpl.IR Tmpl.Runtime Tmpl.Exec Proofs.ExecMono
  Proofs.ExecFuelProofs.
Require Import Lia.

Definition alloc_fns : list bytes := [B "__op__array"; B "__op__map"; B "__op__map_params"; B "__and_attrs"].
Definition safe_fn (f : bytes) : bool := negb (mem f alloc_fns).

Fixpoint pure_arg (a : targ) : bool :=
  match a with
  | ANum _ | ANumF _ | AStr _ | ABool _ | ADot | AField _ => true
  | AVar _ fs => match fs with [] => true | _ => false end
  | AIdent f => safe_fn f
  | APipe _ cmds => forallb (forallb pure_arg) cmds
  | AChain _ _ => false
  end.
Definition pure_cmd (c : list targ) : bool := forallb pure_arg c.
Definition pure_cmds (cs : list (list targ)) : bool := forallb pure_cmd cs.
Definition pure_pipe (p : tpipe) : bool := pure_cmds (snd p).

Lemma pure_arg_pipe d cmds : pure_arg (APipe d cmds) = pure_cmds cmds.
Proof. reflexivity. Qed.

(* ---- the builtins ------------------------------------------------------------------------------------------- *)
Lemma safe_fn_isf f : safe_fn f = true ->
  isf f "__op__array" = false /\ isf f "__op__map" = false /\ isf f "__op__map_params" = false /\
  isf f "__and_attrs" = false.
Proof.
  unfold safe_fn, mem, alloc_fns, isf. cbn [existsb]. intros H. apply negb_true_iff in H.
  repeat (apply orb_false_iff in H; destruct H as [? H]). repeat split; assumption.
Qed.

Ltac close_heap H :=
  repeat match type of H with
         | bind ?r _ = Ok _ => destruct r; cbn [bind] in H; try discriminate H
         | match ?x with _ => _ end = Ok _ => destruct x; try discriminate H
         end;
  inversion H; reflexivity.

Lemma apply_builtin_heap h f args v h' :
  safe_fn f = true -> apply_builtin h f args = Ok (v, h') -> h' = h.
Proof.
  intros Hs H. destruct (safe_fn_isf f Hs) as (Ha & Hm & Hp & Haa).
  unfold apply_builtin in H. cbv zeta in H.
  destruct args as [|x [|y [|z r]]]; cbv iota beta in H; rewrite ?Ha, ?Hm, ?Hp, ?Haa in H.
  all: repeat match type of H with
              | context [if isf ?g ?n then _ else _] => destruct (isf g n) eqn:?; cbv iota in H
              | context [if isf ?g ?n || isf ?g ?m then _ else _] =>
                destruct (isf g n); destruct (isf g m); cbn [orb] in H; cbv iota in H
              | context [if isf ?g ?n || isf ?g ?m || isf ?g ?k then _ else _] =>
                destruct (isf g n); destruct (isf g m); destruct (isf g k); cbn [orb] in H; cbv iota in H
              end.
  all: try discriminate H.
  all: close_heap H.
Qed.

(* ---- unfolding equations of the expression evaluator -------------------------------------------------------- *)
Section ArgsGo.
  Variables (f : nat) (E : env) (final : val) (fixed : list pty) (variadic : option pty).
  Fixpoint args_go (l : list targ) (i : nat) (h : heap) {struct l} : res (list val * heap) :=
    let ty (i : nat) : option pty := match nth_error fixed i with Some t => Some t | None => variadic end in
    match l with
    | [] =>
      if valid final then
        match ty i with
        | Some t => do v <- coerce_val t final; Ok ([v], h)
        | None => Panic
        end
      else Ok ([], h)
    | a :: r =>
      match ty i with
      | None => Panic
      | Some t =>
        do x <- (if is_lit a then do v <- coerce_lit t a; Ok (v, h)
                 else do y <- eval_operand f E h a; let '(v0, h1) := y in
                      do v <- coerce_val t v0; Ok (v, h1));
        let '(v, h1) := x in
        do rest <- args_go r (S i) h1; let '(vs, h2) := rest in Ok (v :: vs, h2)
      end
    end.
End ArgsGo.

Lemma eval_args_S f E h fixed variadic args final :
  eval_args (S f) E h (fixed, variadic) args final =
  (let n := length args + (if valid final then 1 else 0) in
   let arity_ok := match variadic with
                   | None => Nat.eqb n (length fixed)
                   | Some _ => Nat.leb (length fixed) n
                   end in
   if negb arity_ok then Panic else args_go f E final fixed variadic args 0 h).
Proof. reflexivity. Qed.

Lemma eval_cmds_S f E h cmds final :
  eval_cmds (S f) E h cmds final =
  match cmds with
  | [] => Ok (final, h)
  | c :: r => do x <- eval_cmd f E h c final; let '(v, h1) := x in eval_cmds f E h1 r v
  end.
Proof. reflexivity. Qed.

Lemma eval_cmd_S f E h args final :
  eval_cmd (S f) E h args final =
  (let not_a_function (rest : list targ) (v : val) : res (val * heap) :=
     match rest with [] => if valid final then Panic else Ok (v, h) | _ => Panic end in
   match args with
   | [] => Unmod
   | first :: rest =>
     match first with
     | AIdent fn => call_ident f E h fn rest final
     | APipe [] cmds => eval_cmds f E h cmds VInvalid
     | APipe _ _ => Unmod
     | AVar x [] => not_a_function rest (var_val (e_vars E) x)
     | AVar x fs => field_chain f E h (var_val (e_vars E) x) fs rest final
     | AChain a fs => do b <- eval_operand f E h a; let '(bv, h1) := b in field_chain f E h1 bv fs rest final
     | AField _ => Unmod
     | ANum z => not_a_function rest (VInt z)
     | AStr s => not_a_function rest (VGoStr s)
     | ABool b => not_a_function rest (VGoBool b)
     | ADot => not_a_function rest (e_dot E)
     | ANumF _ => Unmod
     end
   end).
Proof. reflexivity. Qed.

Lemma eval_operand_S f E h a :
  eval_operand (S f) E h a =
  match a with
  | AVar x [] => Ok (var_val (e_vars E) x, h)
  | AVar x fs => field_chain f E h (var_val (e_vars E) x) fs [] VInvalid
  | APipe [] cmds => eval_cmds f E h cmds VInvalid
  | APipe _ _ => Unmod
  | AIdent fn => call_ident f E h fn [] VInvalid
  | AChain b fs => do x <- eval_operand f E h b; let '(bv, h1) := x in field_chain f E h1 bv fs [] VInvalid
  | ADot => Ok (e_dot E, h)
  | ANum z => Ok (VInt z, h)
  | AStr s => Ok (VGoStr s, h)
  | ABool b => Ok (VGoBool b, h)
  | AField _ | ANumF _ => Unmod
  end.
Proof. reflexivity. Qed.

Lemma call_ident_S f E h fn args final :
  call_ident (S f) E h fn args final =
  (if beqb fn (B "null") then Ok (VNil, h)
   else if beqb fn (B "__freeze") then Unmod
   else match lookup fn builtin_sigs with
        | Some sg => do x <- eval_args f E h sg args final; let '(vs, h1) := x in apply_builtin h1 fn vs
        | None => Unmod
        end).
Proof. reflexivity. Qed.

(* ---- pure pipelines leave the heap as it is ------------------------------------------------------------------- *)
Definition Hc_cmds f := forall E h cmds final v h', pure_cmds cmds = true ->
  eval_cmds f E h cmds final = Ok (v, h') -> h' = h.
Definition Hc_cmd f := forall E h args final v h', pure_cmd args = true ->
  eval_cmd f E h args final = Ok (v, h') -> h' = h.
Definition Hc_opnd f := forall E h a v h', pure_arg a = true ->
  eval_operand f E h a = Ok (v, h') -> h' = h.
Definition Hc_args f := forall E h sg args final vs h', pure_cmd args = true ->
  eval_args f E h sg args final = Ok (vs, h') -> h' = h.
Definition Hc_call f := forall E h fn args final v h', safe_fn fn = true -> pure_cmd args = true ->
  call_ident f E h fn args final = Ok (v, h') -> h' = h.

Local Strategy opaque [apply_builtin coerce_val coerce_lit var_val].

Lemma args_go_heap f E final fixed variadic : Hc_opnd f ->
  forall l i h vs h', pure_cmd l = true -> args_go f E final fixed variadic l i h = Ok (vs, h') -> h' = h.
Proof.
  intros IH. induction l as [|a r IHl]; intros i h vs h' Hp H; cbn [args_go] in H.
  - destruct (valid final).
    + destruct (match nth_error fixed i with Some t => Some t | None => variadic end) as [t|]; [|discriminate H].
      destruct (coerce_val t final); cbn [bind] in H; try discriminate H. inversion H; reflexivity.
    + inversion H; reflexivity.
  - unfold pure_cmd in Hp. cbn [forallb] in Hp. apply andb_prop in Hp. destruct Hp as [Ha Hr].
    destruct (match nth_error fixed i with Some t => Some t | None => variadic end) as [t|]; [|discriminate H].
    destruct (is_lit a).
    + destruct (coerce_lit t a) as [v0| | |]; cbn [bind] in H; try discriminate H.
      destruct (args_go f E final fixed variadic r (S i) h) as [[vs0 h2]| | |] eqn:Er; cbn [bind] in H; try discriminate H.
      inversion H; subst. exact (IHl (S i) h vs0 h' Hr Er).
    + destruct (eval_operand f E h a) as [[v0 h1]| | |] eqn:Eo; cbn [bind] in H; try discriminate H.
      pose proof (IH E h a v0 h1 Ha Eo) as ->.
      destruct (coerce_val t v0) as [v1| | |]; cbn [bind] in H; try discriminate H.
      destruct (args_go f E final fixed variadic r (S i) h) as [[vs0 h2]| | |] eqn:Er; cbn [bind] in H; try discriminate H.
      inversion H; subst. exact (IHl (S i) h vs0 h' Hr Er).
Qed.

Lemma heap_const_all f : Hc_cmds f /\ Hc_cmd f /\ Hc_opnd f /\ Hc_args f /\ Hc_call f.
Proof.
  induction f as [|f (IHcs & IHc & IHo & IHa & IHk)].
  - unfold Hc_cmds, Hc_cmd, Hc_opnd, Hc_args, Hc_call; repeat split; intros; discriminate.
  - repeat split.
    + (* command lists *)
      intros E h cmds final v h' Hp H. rewrite eval_cmds_S in H. destruct cmds as [|c r].
      * inversion H; reflexivity.
      * unfold pure_cmds in Hp. cbn [forallb] in Hp. apply andb_prop in Hp. destruct Hp as [Hc Hr].
        destruct (eval_cmd f E h c final) as [[v1 h1]| | |] eqn:Ec; cbn [bind] in H; try discriminate H.
        pose proof (IHc E h c final v1 h1 Hc Ec) as ->. exact (IHcs E h r v1 v h' Hr H).
    + (* one command *)
      intros E h args final v h' Hp H. rewrite eval_cmd_S in H. cbv zeta in H.
      destruct args as [|first rest]; [discriminate H|].
      unfold pure_cmd in Hp. cbn [forallb] in Hp. apply andb_prop in Hp. destruct Hp as [Hf Hr].
      destruct first as [z|t|s0|b| |x fs|fs|fn|d cmds|a fs]; cbn [pure_arg] in Hf; try discriminate Hf; try discriminate H.
      * destruct rest; [destruct (valid final)|]; try discriminate H; inversion H; reflexivity.
      * destruct rest; [destruct (valid final)|]; try discriminate H; inversion H; reflexivity.
      * destruct rest; [destruct (valid final)|]; try discriminate H; inversion H; reflexivity.
      * destruct rest; [destruct (valid final)|]; try discriminate H; inversion H; reflexivity.
      * destruct fs; [|discriminate Hf].
        destruct rest; [destruct (valid final)|]; try discriminate H; inversion H; reflexivity.
      * exact (IHk E h fn rest final v h' Hf Hr H).
      * destruct d; [|discriminate H]. exact (IHcs E h cmds VInvalid v h' Hf H).
    + (* an operand *)
      intros E h a v h' Hp H. rewrite eval_operand_S in H.
      destruct a as [z|t|s0|b| |x fs|fs|fn|d cmds|a fs]; cbn [pure_arg] in Hp; try discriminate Hp; try discriminate H.
      * inversion H; reflexivity.
      * inversion H; reflexivity.
      * inversion H; reflexivity.
      * inversion H; reflexivity.
      * destruct fs; [|discriminate Hp]. inversion H; reflexivity.
      * exact (IHk E h fn [] VInvalid v h' Hp eq_refl H).
      * destruct d; [|discriminate H]. exact (IHcs E h cmds VInvalid v h' Hp H).
    + (* arguments *)
      intros E h [fixed variadic] args final vs h' Hp H. rewrite eval_args_S in H. cbv zeta in H.
      match type of H with (if ?c then _ else _) = _ => destruct c; [discriminate H|] end.
      exact (args_go_heap f E final fixed variadic IHo args 0 h vs h' Hp H).
    + (* a call *)
      intros E h fn args final v h' Hs Hp H. rewrite call_ident_S in H.
      destruct (beqb fn (B "null")); [inversion H; reflexivity|].
      destruct (beqb fn (B "__freeze")); [discriminate H|].
      destruct (lookup fn builtin_sigs) as [sg|]; [|discriminate H].
      destruct (eval_args f E h sg args final) as [[vs h1]| | |] eqn:Ea; cbn [bind] in H; try discriminate H.
      pose proof (IHa E h sg args final vs h1 Hp Ea) as ->.
      exact (apply_builtin_heap h fn vs v h' Hs H).
Qed.

Local Strategy opaque [eval_cmds eval_cmd expr_fuel].
Lemma pure_pipeline_heap E h p v h' : pure_pipe p = true -> eval_pipeline E h p = Ok (v, h') -> h' = h.
Proof.
  intros Hp H. unfold eval_pipeline in H. unfold pure_pipe in Hp.
  exact (proj1 (heap_const_all expr_fuel) E h (snd p) VInvalid v h' Hp H).
Qed.

(* ---- the size of the heap -------------------------------------------------------------------------------------- *)
Fixpoint hsize (h : heap) : nat :=
  match h with [] => 0 | o :: r => Nat.max (osize o) (hsize r) end.

Lemma hsize_get h : forall l o, hget h l = Some o -> osize o <= hsize h.
Proof.
  unfold hget. induction h as [|x r IH]; intros l o H; destruct l as [|l]; cbn [nth_error] in H; try discriminate H.
  - injection H as ->. cbn [hsize]. lia.
  - specialize (IH l o H). cbn [hsize]. lia.
Qed.

(* iterations of one range action: the while loop runs its body at most while_cap + 1 times *)
Definition rounds (n : nat) : nat := Nat.max (S while_cap) n.

Definition pure_nodes : list tnode -> bool := nodes_ok pure_pipe.

Local Strategy opaque [while_cap exec_fuel expr_fuel].

(* the executor needs at most [cost_nodes (rounds (hsize heap))] units of fuel on a tree of pure pipelines:
   whatever fuel g makes the execution end, every fuel f of at least that measure gives the same result *)
Theorem pure_fuel_enough g f dot s ns :
  pure_nodes ns = true -> cost_nodes (rounds (hsize (x_heap s))) ns <= f ->
  fin (exec_nodes [] g dot s ns) -> exec_nodes [] f dot s ns = exec_nodes [] g dot s ns.
Proof.
  intros Hp Hc Hf.
  apply (fuel_enough (rounds (hsize (x_heap s))) (fun h => h = x_heap s) pure_pipe).
  - unfold rounds. lia.
  - intros p E h v h' Hpp Hh He. rewrite (pure_pipeline_heap E h p v h' Hpp He). exact Hh.
  - intros h l o Hh Hg. subst h. pose proof (hsize_get _ l o Hg). unfold rounds. lia.
  - exact Hp.
  - reflexivity.
  - exact Hc.
  - exact Hf.
Qed.

Theorem pure_heap_const g dot s ns s' :
  pure_nodes ns = true -> exec_nodes [] g dot s ns = Ok s' -> x_heap s' = x_heap s.
Proof.
  intros Hp H.
  apply (heap_inv_kept (rounds (hsize (x_heap s))) (fun h => h = x_heap s) pure_pipe) with (g := g) (dot := dot) (s := s) (ns := ns).
  - unfold rounds. lia.
  - intros p E h v h' Hpp Hh He. rewrite (pure_pipeline_heap E h p v h' Hpp He). exact Hh.
  - intros h l o Hh Hg. subst h. pose proof (hsize_get _ l o Hg). unfold rounds. lia.
  - exact Hp.
  - reflexivity.
  - exact H.
Qed.

(* whole renders: [exec_fuel] is as good as any fuel *)
Theorem run_fuel_enough t d s g :
  init_state d = Some s -> pure_nodes t = true ->
  cost_nodes (rounds (hsize (x_heap s))) t <= exec_fuel ->
  fin (exec_nodes [] g VInvalid s t) ->
  exec_nodes [] exec_fuel VInvalid s t = exec_nodes [] g VInvalid s t.
Proof. intros _ Hp Hc Hf. exact (pure_fuel_enough g exec_fuel VInvalid s t Hp Hc Hf). Qed.

Theorem run_no_fuel t d s g :
  init_state d = Some s -> pure_nodes t = true ->
  cost_nodes (rounds (hsize (x_heap s))) t <= exec_fuel ->
  fin (exec_nodes [] g VInvalid s t) ->
  run_program {| p_main := t; p_defs := [] |} d <> OFuel.
Proof.
  intros Hi Hp Hc Hf. unfold run_program. rewrite Hi. cbn [p_main p_defs].
  rewrite (run_fuel_enough t d s g Hi Hp Hc Hf).
  destruct (exec_nodes [] g VInvalid s t); try discriminate. exfalso; apply Hf; reflexivity.
Qed.
