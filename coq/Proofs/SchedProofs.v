(* C08 proofs: interleaved renders = renders alone (Part 1), the concrete engines
   (Part 2), and the RWMutex gate around the template lookup (Part 3). *)
From PV Require Import Base.Bytes Models.Sched.

(* ------------------------------------------------------------------ lists *)

Lemma upd_length {A} i (x : A) l : length (upd i x l) = length l.
Proof.
  revert i; induction l as [|y r IH]; intros [|i]; simpl; try reflexivity.
  rewrite IH; reflexivity.
Qed.

Lemma nth_error_upd_same {A} i (x y : A) l :
  nth_error l i = Some y -> nth_error (upd i x l) i = Some x.
Proof.
  revert i; induction l as [|z r IH]; intros [|i]; simpl; intros H; try discriminate.
  - reflexivity.
  - apply IH; exact H.
Qed.

Lemma nth_error_upd_other {A} i j (x : A) l :
  i <> j -> nth_error (upd i x l) j = nth_error l j.
Proof.
  revert i j; induction l as [|z r IH]; intros [|i] [|j] Hn; simpl; try reflexivity.
  - congruence.
  - apply IH; congruence.
Qed.

Lemma upd_comm {A} i j (x y : A) l :
  i <> j -> upd i x (upd j y l) = upd j y (upd i x l).
Proof.
  revert i j; induction l as [|z r IH]; intros [|i] [|j] Hn; simpl; try reflexivity.
  - congruence.
  - rewrite IH by congruence; reflexivity.
Qed.

Lemma nth_error_ext_eq {A} (l1 l2 : list A) :
  (forall i, nth_error l1 i = nth_error l2 i) -> l1 = l2.
Proof.
  revert l2; induction l1 as [|a r IH]; intros [|b r2] H.
  - reflexivity.
  - specialize (H 0); discriminate.
  - specialize (H 0); discriminate.
  - pose proof (H 0) as H0; simpl in H0; inversion H0; subst.
    f_equal; apply IH; intros i; exact (H (S i)).
Qed.

(* ------------------------------------------------------------------ Part 1 *)

Section SchedProofs.
  Variables shared priv view : Type.
  Variable gstep : shared -> priv -> option (shared * priv).
  Variable vw : shared -> view.
  Hypothesis HP : view_preserved gstep vw.
  Hypothesis HD : view_determines gstep vw.

  Notation sys := (sys shared priv).

  Lemma run_cons j sched (s : sys) :
    run gstep (j :: sched) s = run gstep sched (sys_step gstep j s).
  Proof. reflexivity. Qed.

  Lemma run_app a b (s : sys) :
    run gstep (a ++ b) s = run gstep b (run gstep a s).
  Proof. unfold run; apply fold_left_app. Qed.

  Lemma step_view h1 h2 p :
    vw h1 = vw h2 ->
    match gstep h1 p, gstep h2 p with
    | None, None => True
    | Some (h1', p1), Some (h2', p2) => p1 = p2 /\ vw h1' = vw h2'
    | _, _ => False
    end.
  Proof.
    intros Hv. pose proof (HD h1 h2 p Hv) as H.
    destruct (gstep h1 p) as [[h1' p1]|] eqn:E1; destruct (gstep h2 p) as [[h2' p2]|] eqn:E2;
      simpl in H; try discriminate; [|exact I].
    inversion H; subst. split; [reflexivity|].
    rewrite (HP _ _ _ _ E1), (HP _ _ _ _ E2); exact Hv.
  Qed.

  Lemma finished_view h1 h2 p : vw h1 = vw h2 -> finished gstep h1 p = finished gstep h2 p.
  Proof.
    intros Hv; unfold finished. pose proof (step_view h1 h2 p Hv) as H.
    destruct (gstep h1 p) as [[? ?]|]; destruct (gstep h2 p) as [[? ?]|]; tauto.
  Qed.

  Lemma alone_view n : forall h1 h2 p,
    vw h1 = vw h2 -> snd (alone gstep n h1 p) = snd (alone gstep n h2 p).
  Proof.
    induction n as [|n IH]; intros h1 h2 p Hv; simpl; [reflexivity|].
    pose proof (step_view h1 h2 p Hv) as H.
    destruct (gstep h1 p) as [[h1' p1]|]; destruct (gstep h2 p) as [[h2' p2]|]; try tauto.
    destruct H as [-> Hv']. apply IH; exact Hv'.
  Qed.

  Lemma alone_fst_view n : forall h p, vw (fst (alone gstep n h p)) = vw h.
  Proof.
    induction n as [|n IH]; intros h p; simpl; [reflexivity|].
    destruct (gstep h p) as [[h' p']|] eqn:E; [|reflexivity].
    rewrite IH. exact (HP _ _ _ _ E).
  Qed.

  Lemma alone_stuck n h p : gstep h p = None -> alone gstep n h p = (h, p).
  Proof. intros E; destruct n; simpl; [reflexivity|rewrite E; reflexivity]. Qed.

  (* steps of one render compose *)
  Lemma alone_plus a : forall b h p,
    alone gstep (a + b) h p =
    alone gstep b (fst (alone gstep a h p)) (snd (alone gstep a h p)).
  Proof.
    induction a as [|a IH]; intros b h p; simpl; [reflexivity|].
    destruct (gstep h p) as [[h' p']|] eqn:E.
    - apply IH.
    - simpl. rewrite alone_stuck by exact E. reflexivity.
  Qed.

  Lemma sys_step_length i (s : sys) : length (rs (sys_step gstep i s)) = length (rs s).
  Proof.
    unfold sys_step. destruct (nth_error (rs s) i); [|reflexivity].
    destruct (gstep (sh s) p) as [[h' p']|]; [|reflexivity].
    simpl; apply upd_length.
  Qed.

  Lemma run_length sched : forall s : sys, length (rs (run gstep sched s)) = length (rs s).
  Proof.
    induction sched as [|j sched IH]; intros s; [reflexivity|].
    rewrite run_cons, IH. apply sys_step_length.
  Qed.

  Lemma sys_step_view i (s : sys) : vw (sh (sys_step gstep i s)) = vw (sh s).
  Proof.
    unfold sys_step. destruct (nth_error (rs s) i); [|reflexivity].
    destruct (gstep (sh s) p) as [[h' p']|] eqn:E; [|reflexivity].
    simpl. exact (HP _ _ _ _ E).
  Qed.

  (* the view of the shared state never changes, under any schedule *)
  Lemma shared_view_unchanged sched : forall s : sys, vw (sh (run gstep sched s)) = vw (sh s).
  Proof.
    induction sched as [|j sched IH]; intros s; [reflexivity|].
    rewrite run_cons, IH. apply sys_step_view.
  Qed.

  (* projection: under ANY schedule render i ends where it ends alone after as many own steps *)
  Lemma interleave sched : forall h l i p,
    nth_error l i = Some p ->
    nth_error (rs (run gstep sched (mkSys h l))) i =
    Some (snd (alone gstep (count i sched) h p)).
  Proof.
    induction sched as [|j sched IH]; intros h l i p Hi.
    - simpl. exact Hi.
    - rewrite run_cons. unfold sys_step; cbn [sh rs]. unfold count.
      destruct (nth_error l j) as [q|] eqn:Ej.
      + destruct (gstep h q) as [[h' q']|] eqn:Eg.
        * destruct (Nat.eq_dec j i) as [->|Hn].
          -- rewrite Hi in Ej; inversion Ej; subst q.
             rewrite count_occ_cons_eq by reflexivity.
             fold (count i sched).
             rewrite (IH h' (upd i q' l) i q') by (eapply nth_error_upd_same; exact Hi).
             simpl. rewrite Eg. reflexivity.
          -- rewrite count_occ_cons_neq by exact Hn. fold (count i sched).
             rewrite (IH h' (upd j q' l) i p) by (rewrite nth_error_upd_other by exact Hn; exact Hi).
             f_equal. apply alone_view. exact (HP _ _ _ _ Eg).
        * destruct (Nat.eq_dec j i) as [->|Hn].
          -- rewrite Hi in Ej; inversion Ej; subst q.
             rewrite count_occ_cons_eq by reflexivity.
             fold (count i sched). rewrite (IH h l i p Hi). simpl. rewrite Eg.
             rewrite alone_stuck by exact Eg. reflexivity.
          -- rewrite count_occ_cons_neq by exact Hn. apply IH; exact Hi.
      + assert (Hn : j <> i) by (intros ->; congruence).
        rewrite count_occ_cons_neq by exact Hn. apply IH; exact Hi.
  Qed.

  Lemma run_none sched (s : sys) i :
    nth_error (rs s) i = None -> nth_error (rs (run gstep sched s)) i = None.
  Proof.
    rewrite !nth_error_None, run_length. tauto.
  Qed.

  (* steps of different renders commute (up to what renders can see) *)
  Lemma step_commute i j (s : sys) :
    i <> j ->
    sys_equiv vw (sys_step gstep i (sys_step gstep j s)) (sys_step gstep j (sys_step gstep i s)).
  Proof.
    intros Hn. unfold sys_equiv. split.
    - rewrite !sys_step_view. reflexivity.
    - destruct s as [h l]. unfold sys_step at 2 4; simpl.
      destruct (nth_error l j) as [pj|] eqn:Ej; destruct (nth_error l i) as [pi|] eqn:Ei.
      + destruct (gstep h pj) as [[hj pj']|] eqn:Gj; destruct (gstep h pi) as [[hi pi']|] eqn:Gi;
          unfold sys_step; simpl.
        * rewrite nth_error_upd_other by congruence. rewrite Ei.
          rewrite nth_error_upd_other by congruence. rewrite Ej.
          pose proof (step_view hj h pi (HP _ _ _ _ Gj)) as Hi. rewrite Gi in Hi.
          pose proof (step_view hi h pj (HP _ _ _ _ Gi)) as Hj. rewrite Gj in Hj.
          destruct (gstep hj pi) as [[? ?]|]; [|tauto].
          destruct (gstep hi pj) as [[? ?]|]; [|tauto].
          destruct Hi as [-> _]; destruct Hj as [-> _]. simpl.
          apply upd_comm; exact Hn.
        * rewrite nth_error_upd_other by congruence. rewrite Ei, Ej.
          pose proof (step_view hj h pi (HP _ _ _ _ Gj)) as Hi. rewrite Gi in Hi.
          destruct (gstep hj pi) as [[? ?]|]; [tauto|]. rewrite Gj. reflexivity.
        * rewrite nth_error_upd_other by congruence. rewrite Ei, Ej.
          pose proof (step_view hi h pj (HP _ _ _ _ Gi)) as Hj. rewrite Gj in Hj.
          destruct (gstep hi pj) as [[? ?]|]; [tauto|]. rewrite Gi. reflexivity.
        * rewrite Ei, Ej, Gi, Gj. reflexivity.
      + destruct (gstep h pj) as [[hj pj']|] eqn:Gj; unfold sys_step; simpl.
        * rewrite nth_error_upd_other by congruence. rewrite Ei, Ej, Gj. reflexivity.
        * rewrite Ei, Ej, Gj. reflexivity.
      + destruct (gstep h pi) as [[hi pi']|] eqn:Gi; unfold sys_step; simpl.
        * rewrite nth_error_upd_other by congruence. rewrite Ei, Ej, Gi. reflexivity.
        * rewrite Ei, Ej, Gi. reflexivity.
      + unfold sys_step; simpl. rewrite Ei, Ej. reflexivity.
  Qed.

  (* once finished, further steps change nothing; two finished runs of one render coincide *)
  Lemma alone_finished_unique a : forall b h p,
    finished gstep h (snd (alone gstep a h p)) = true ->
    finished gstep h (snd (alone gstep b h p)) = true ->
    snd (alone gstep a h p) = snd (alone gstep b h p).
  Proof.
    induction a as [|a IH]; intros b h p Ha Hb.
    - simpl in *. unfold finished in Ha.
      destruct (gstep h p) as [[? ?]|] eqn:E; [discriminate|].
      rewrite alone_stuck by exact E. reflexivity.
    - simpl in *. destruct (gstep h p) as [[h' p']|] eqn:E.
      + destruct b as [|b]; simpl in Hb |- *.
        * unfold finished in Hb. rewrite E in Hb. discriminate.
        * rewrite E in Hb |- *.
          pose proof (HP _ _ _ _ E) as Hv.
          apply IH.
          -- rewrite (finished_view h' h _ Hv). exact Ha.
          -- rewrite (finished_view h' h _ Hv). exact Hb.
      + rewrite alone_stuck by exact E. reflexivity.
  Qed.

  Lemma complete_nth (s : sys) i p :
    complete gstep s = true -> nth_error (rs s) i = Some p -> finished gstep (sh s) p = true.
  Proof.
    unfold complete; intros Hc Hi. rewrite forallb_forall in Hc.
    apply Hc. eapply nth_error_In; exact Hi.
  Qed.

  (* if every Render has returned, each render is where it is when it runs alone to its end *)
  Lemma complete_is_alone sched (s : sys) i p :
    complete gstep (run gstep sched s) = true ->
    nth_error (rs s) i = Some p ->
    exists n, nth_error (rs (run gstep sched s)) i = Some (snd (alone gstep n (sh s) p))
              /\ finished gstep (sh s) (snd (alone gstep n (sh s) p)) = true.
  Proof.
    intros Hc Hi. exists (count i sched). destruct s as [h l]; simpl in *.
    pose proof (interleave sched h l i p Hi) as H. split; [exact H|].
    pose proof (complete_nth _ _ _ Hc H) as Hf.
    rewrite (finished_view _ h _ (shared_view_unchanged sched (mkSys h l))) in Hf. exact Hf.
  Qed.

  (* any two schedules under which every Render returns leave every render in the same state *)
  Lemma complete_agree sched1 sched2 (s : sys) :
    complete gstep (run gstep sched1 s) = true ->
    complete gstep (run gstep sched2 s) = true ->
    rs (run gstep sched1 s) = rs (run gstep sched2 s).
  Proof.
    intros H1 H2. apply nth_error_ext_eq. intros i.
    destruct (nth_error (rs s) i) as [p|] eqn:Ei.
    - destruct (complete_is_alone sched1 s i p H1 Ei) as [n1 [E1 F1]].
      destruct (complete_is_alone sched2 s i p H2 Ei) as [n2 [E2 F2]].
      rewrite E1, E2. f_equal. apply alone_finished_unique; assumption.
    - rewrite !run_none by exact Ei. reflexivity.
  Qed.

  (* counting in the sequential schedule *)
  Lemma count_seq_sched ns : forall k i,
    count i (seq_sched k ns) = if i <? k then 0 else nth (i - k) ns 0.
  Proof.
    unfold count.
    induction ns as [|n r IH]; intros k i; simpl.
    - destruct (i <? k); [reflexivity|]. destruct (i - k); reflexivity.
    - rewrite count_occ_app, IH.
      destruct (Nat.eq_dec i k) as [->|Hn].
      + rewrite count_occ_repeat_eq by reflexivity.
        replace (k <? S k) with true by (symmetry; apply Nat.ltb_lt; lia).
        rewrite Nat.ltb_irrefl, Nat.sub_diag. lia.
      + rewrite count_occ_repeat_neq by exact Hn. simpl.
        destruct (i <? k) eqn:E1.
        * apply Nat.ltb_lt in E1.
          replace (i <? S k) with true by (symmetry; apply Nat.ltb_lt; lia). reflexivity.
        * apply Nat.ltb_ge in E1.
          replace (i <? S k) with false by (symmetry; apply Nat.ltb_ge; lia).
          destruct (i - k) as [|d] eqn:Ed; [lia|].
          replace (i - S k) with d by lia. reflexivity.
  Qed.

  Definition steps_taken (sched : list nat) (k : nat) : list nat :=
    map (fun i => count i sched) (seq 0 k).

  (* the interleaved run equals the run ONE RENDER AT A TIME in which every render takes as
     many steps as it took in the interleaving *)
  Lemma equals_sequential sched (s : sys) :
    rs (run gstep sched s) =
    rs (run gstep (seq_sched 0 (steps_taken sched (length (rs s)))) s).
  Proof.
    apply nth_error_ext_eq. intros i.
    destruct (nth_error (rs s) i) as [p|] eqn:Ei.
    - destruct s as [h l]; simpl in *.
      rewrite (interleave sched h l i p Ei).
      rewrite (interleave _ h l i p Ei).
      rewrite count_seq_sched. simpl. rewrite Nat.sub_0_r.
      assert (Hlt : i < length l) by (apply nth_error_Some; congruence).
      unfold steps_taken.
      rewrite (nth_indep _ 0 (count 0 sched)) by (rewrite map_length, seq_length; exact Hlt).
      rewrite (map_nth (fun i => count i sched)).
      rewrite seq_nth by exact Hlt. reflexivity.
    - rewrite !run_none by exact Ei. reflexivity.
  Qed.
End SchedProofs.

(* ------------------------------------------------------------------ read-only steps *)

Section ReadOnly.
  Variables shared priv : Type.
  Variable gstep : shared -> priv -> option (shared * priv).
  Hypothesis HR : reads_only gstep.

  Lemma ro_preserved : view_preserved gstep (fun h : shared => h).
  Proof. intros h p h' p' E. exact (HR _ _ _ _ E). Qed.

  Lemma ro_determines : view_determines gstep (fun h : shared => h).
  Proof. intros h1 h2 p E. simpl in E. rewrite E. reflexivity. Qed.

  Lemma interleave_ro sched h l i p :
    nth_error l i = Some p ->
    nth_error (rs (run gstep sched (mkSys h l))) i =
    Some (snd (alone gstep (count i sched) h p)).
  Proof. apply (interleave _ _ _ gstep (fun h => h) ro_preserved ro_determines). Qed.

  Lemma shared_unchanged_ro sched (s : sys shared priv) : sh (run gstep sched s) = sh s.
  Proof. apply (shared_view_unchanged _ _ _ gstep (fun h => h) ro_preserved). Qed.

  Lemma complete_agree_ro sched1 sched2 (s : sys shared priv) :
    complete gstep (run gstep sched1 s) = true ->
    complete gstep (run gstep sched2 s) = true ->
    rs (run gstep sched1 s) = rs (run gstep sched2 s).
  Proof. apply (complete_agree _ _ _ gstep (fun h => h) ro_preserved ro_determines). Qed.
End ReadOnly.

(* ------------------------------------------------------------------ Part 2a: the small engine *)

(* production mode: no step of Render writes the engine *)
Lemma estep_production_reads_only : reads_only (estep false).
Proof.
  intros e r e' r' H. unfold estep in H.
  destruct (r_pc r) as [| |[|i rest]| |]; simpl in H; try discriminate;
    try (inversion H; reflexivity).
  destruct (lookup (r_name r) (e_templates e)); inversion H; reflexivity.
Qed.

(* hence: any number of production renders, any schedule, every render as alone *)
Lemma engine_production_interleave sched e l i r :
  nth_error l i = Some r ->
  nth_error (rs (run (estep false) sched (mkSys e l))) i =
  Some (snd (alone (estep false) (count i sched) e r))
  /\ sh (run (estep false) sched (mkSys e l)) = e.
Proof.
  intros Hi. split.
  - apply interleave_ro; [exact estep_production_reads_only|exact Hi].
  - apply (shared_unchanged_ro _ _ _ estep_production_reads_only sched (mkSys e l)).
Qed.

(* a concrete engine: loops, variable mutation, a function table *)
Definition ex_code_a : list instr :=
  [IText (B "<ul>"); IRepeat 3 [IAddData; IText (B "<li>"); IAcc; IText (B "</li>")]; IText (B "</ul>")].
Definition ex_code_b : list instr :=
  [IAdd 5; ICall (B "double"); IText (B "<p>"); IAcc; IText (B "/"); IData; IText (B "</p>")].
Definition ex_code_c : list instr := [IText (B "x"); ICall (B "nosuch"); IText (B "never")].
Definition ex_set : tset := [(B "a", ex_code_a); (B "b", ex_code_b); (B "c", ex_code_c)].
Definition ex_eng : eng := mkEng ex_set [(B "double", fun z => (2 * z)%Z)] ex_set 1.
Definition ex_renders : list rstate :=
  [new_render (B "a") 2; new_render (B "b") 7; new_render (B "a") 10; new_render (B "c") 0;
   new_render (B "missing") 1].

(* round robin and a lopsided schedule, both long enough *)
Fixpoint round_robin (k n : nat) : list nat :=
  match n with O => [] | S n' => seq 0 k ++ round_robin k n' end.
Definition ex_sched1 : list nat := round_robin 5 20.
Definition ex_sched2 : list nat := repeat 4 3 ++ repeat 2 30 ++ round_robin 4 20.

Example ex_engine_results :
  map eresult (rs (run (estep false) ex_sched1 (mkSys ex_eng ex_renders))) =
  [Some (Some (B "<ul><li>2</li><li>4</li><li>6</li></ul>"));
   Some (Some (B "<p>10/7</p>"));
   Some (Some (B "<ul><li>10</li><li>20</li><li>30</li></ul>"));
   Some None; Some None].
Proof. vm_compute. reflexivity. Qed.

Example ex_engine_complete :
  complete (estep false) (run (estep false) ex_sched1 (mkSys ex_eng ex_renders)) = true
  /\ complete (estep false) (run (estep false) ex_sched2 (mkSys ex_eng ex_renders)) = true.
Proof. split; vm_compute; reflexivity. Qed.

Example ex_engine_schedules_agree :
  map eresult (rs (run (estep false) ex_sched2 (mkSys ex_eng ex_renders))) =
  map eresult (rs (run (estep false) ex_sched1 (mkSys ex_eng ex_renders))).
Proof. vm_compute. reflexivity. Qed.

(* the hypothesis is needed: in debug mode a Render step REPLACES the shared template set
   (LoadTemplates(templateName)), and two renders of different templates hide each other *)
Lemma engine_debug_not_reads_only : ~ reads_only (estep true).
Proof.
  intros H.
  pose proof (H ex_eng (new_render (B "a") 0) _ _ eq_refl) as E.
  apply (f_equal e_loads) in E. vm_compute in E. discriminate.
Qed.

Example engine_debug_interference :
  let s := mkSys ex_eng [new_render (B "a") 2; new_render (B "b") 7] in
  (* alone, render 0 succeeds *)
  eresult (snd (alone (estep true) 20 ex_eng (new_render (B "a") 2)))
    = Some (Some (B "<ul><li>2</li><li>4</li><li>6</li></ul>"))
  (* interleaved: 0 reloads {a}, 1 reloads {b}, 0 looks "a" up in {b} *)
  /\ option_map eresult (nth_error (rs (run (estep true) [0; 1; 0] s)) 0) = Some (Some None).
Proof. split; vm_compute; reflexivity. Qed.

(* so the footprint hypotheses cannot be dropped from [interleave] *)
Lemma interleave_without_footprint_refuted :
  exists (sched : list nat) (h : eng) (l : list rstate) (i : nat) (p : rstate),
    nth_error l i = Some p /\
    nth_error (rs (run (estep true) sched (mkSys h l))) i <>
    Some (snd (alone (estep true) (count i sched) h p)).
Proof.
  exists [0; 1; 0], ex_eng, [new_render (B "a") 2; new_render (B "b") 7], 0, (new_render (B "a") 2).
  split; [reflexivity|].
  intros E. apply (f_equal (option_map r_pc)) in E. vm_compute in E. discriminate.
Qed.

(* ------------------------------------------------------------------ Part 2b: the replay machine *)

Lemma pstep_reads_only : reads_only pstep.
Proof.
  intros tab p tab' p' H. unfold pstep in H.
  destruct (p_st p); try discriminate.
  destruct (nth_error tab (p_job p)) as [[cs|k]|]; try (inversion H; reflexivity).
  destruct (nth_error cs (p_pos p)); inversion H; reflexivity.
Qed.

(* the fuel of [chunks] is enough: the chunks are the output *)
Lemma chunks_fuel_concat fuel : forall b, length b <= fuel -> concat (chunks_fuel fuel b) = b.
Proof.
  induction fuel as [|f IH]; intros b Hl.
  - destruct b; [reflexivity|simpl in Hl; lia].
  - destruct b as [|a b']; [reflexivity|].
    change (chunks_fuel (S f) (a :: b'))
      with (firstn chunk_len (a :: b') :: chunks_fuel f (skipn chunk_len (a :: b'))).
    rewrite concat_cons, IH.
    + apply firstn_skipn.
    + rewrite skipn_length. unfold chunk_len. lia.
Qed.

Lemma chunks_concat b : concat (chunks b) = b.
Proof. apply chunks_fuel_concat. apply le_n. Qed.

(* a replay render alone copies its job's chunks and then returns them *)
Lemma replay_alone_ok tab j cs :
  nth_error tab j = Some (inl cs) ->
  forall m k out, k + m = length cs ->
    snd (alone pstep (S m) tab (mkP j k out Running)) =
    mkP j (length cs) (out ++ concat (skipn k cs)) DoneOk.
Proof.
  intros Hj. induction m as [|m IH]; intros k out Hk.
  - simpl. unfold pstep; simpl. rewrite Hj.
    assert (E : nth_error cs k = None) by (apply nth_error_None; lia).
    rewrite E. simpl.
    rewrite skipn_all2 by lia. simpl. rewrite app_nil_r.
    replace k with (length cs) by lia. reflexivity.
  - assert (Hlt : k < length cs) by lia.
    destruct (nth_error cs k) as [c|] eqn:E; [|apply nth_error_None in E; lia].
    change (alone pstep (S (S m)) tab (mkP j k out Running))
      with (match pstep tab (mkP j k out Running) with
            | None => (tab, mkP j k out Running)
            | Some (h', p') => alone pstep (S m) h' p'
            end).
    unfold pstep at 1; simpl p_st; simpl p_job; simpl p_pos; simpl p_out.
    rewrite Hj, E.
    rewrite (IH (S k) (out ++ c)) by lia.
    f_equal. rewrite <- app_assoc. f_equal.
    clear -E. revert k E. induction cs as [|x r IHr]; intros [|k] E; simpl in *; try discriminate.
    + inversion E; reflexivity.
    + apply IHr; exact E.
Qed.

Lemma replay_alone_err tab j m k :
  (nth_error tab j = None /\ k = 0 \/ nth_error tab j = Some (inr k)) ->
  presult (snd (alone pstep (S m) tab (new_replay j))) = Some (inr k).
Proof.
  intros H. simpl. unfold pstep at 1; simpl.
  destruct H as [[H ->]|H]; rewrite H; rewrite alone_stuck by reflexivity; reflexivity.
Qed.

(* what the replay model predicts for a finished render is the job's sequential result *)
Lemma replay_result seq j n :
  finished pstep (mk_jobtab seq) (snd (alone pstep n (mk_jobtab seq) (new_replay j))) = true ->
  presult (snd (alone pstep n (mk_jobtab seq) (new_replay j))) = Some (nth j seq (inr 0)).
Proof.
  intros Hf. set (tab := mk_jobtab seq) in *.
  assert (Hn : nth_error tab j = option_map chunk_result (nth_error seq j)).
  { unfold tab, mk_jobtab. rewrite nth_error_map. reflexivity. }
  destruct (nth_error seq j) as [[b|k]|] eqn:Es; simpl in Hn.
  - (* ok job *)
    assert (Ha : snd (alone pstep (S (length (chunks b))) tab (new_replay j)) =
                 mkP j (length (chunks b)) ([] ++ concat (skipn 0 (chunks b))) DoneOk)
      by (apply (replay_alone_ok tab j (chunks b) Hn); lia).
    assert (Hf2 : finished pstep tab (snd (alone pstep (S (length (chunks b))) tab (new_replay j))) = true)
      by (rewrite Ha; reflexivity).
    rewrite (alone_finished_unique _ _ _ pstep (fun h => h)
               (ro_preserved _ _ _ pstep_reads_only) (ro_determines _ _ pstep)
               n (S (length (chunks b))) tab (new_replay j) Hf Hf2).
    rewrite Ha. erewrite nth_error_nth by exact Es.
    simpl. rewrite chunks_concat. reflexivity.
  - assert (Hf2 : finished pstep tab (snd (alone pstep 1 tab (new_replay j))) = true).
    { simpl. unfold pstep at 2; simpl. rewrite Hn. reflexivity. }
    rewrite (alone_finished_unique _ _ _ pstep (fun h => h)
               (ro_preserved _ _ _ pstep_reads_only) (ro_determines _ _ pstep)
               n 1 tab (new_replay j) Hf Hf2).
    rewrite (replay_alone_err tab j 0 k) by (right; exact Hn).
    erewrite nth_error_nth by exact Es. reflexivity.
  - assert (Hf2 : finished pstep tab (snd (alone pstep 1 tab (new_replay j))) = true).
    { simpl. unfold pstep at 2; simpl. rewrite Hn. reflexivity. }
    rewrite (alone_finished_unique _ _ _ pstep (fun h => h)
               (ro_preserved _ _ _ pstep_reads_only) (ro_determines _ _ pstep)
               n 1 tab (new_replay j) Hf Hf2).
    rewrite (replay_alone_err tab j 0 0) by (left; split; [exact Hn|reflexivity]).
    rewrite nth_overflow by (apply nth_error_None; exact Es). reflexivity.
Qed.

(* the model the judge runs: k replay renders under ANY schedule; whenever all have returned,
   render g's result is the sequential result of its job *)
Lemma replay_model_is_sequential seq calls sched g j :
  let s := mkSys (mk_jobtab seq) (map new_replay calls) in
  complete pstep (run pstep sched s) = true ->
  nth_error calls g = Some j ->
  option_map presult (nth_error (rs (run pstep sched s)) g) = Some (Some (nth j seq (inr 0))).
Proof.
  intros s Hc Hg.
  assert (Hi : nth_error (rs s) g = Some (new_replay j)).
  { unfold s; simpl. rewrite nth_error_map, Hg. reflexivity. }
  destruct (complete_is_alone _ _ _ pstep (fun h => h)
              (ro_preserved _ _ _ pstep_reads_only) (ro_determines _ _ pstep)
              sched s g (new_replay j) Hc Hi) as [n [E F]].
  rewrite E. simpl. f_equal. apply replay_result. exact F.
Qed.

(* ------------------------------------------------------------------ Part 3: the gate *)

Section GateProofs.
  Variable T : Type.
  Notation gset := (gset T).
  Notation thread := (thread T).
  Notation gsys := (gsys T).

  (* the state the shared set will be in once a holder has written all it still has to write *)
  Fixpoint endset (cur : gset) (todo : list gset) : gset :=
    match todo with
    | [] => cur
    | x :: r => endset x r
    end.

  Lemma endset_app cur inter final : endset cur (inter ++ [final]) = final.
  Proof. revert cur; induction inter as [|x r IH]; intros cur; simpl; [reflexivity|apply IH]. Qed.

  Definition holding (ph : rphase T) : Prop := ph = RLocked \/ exists v, ph = RRead v.

  Variable cs : list gset.   (* the committed sets *)

  Record inv (s : gsys) : Prop := mkInv {
    (* a reader between RLock and RUnlock is among the lock's holders *)
    inv_reader : forall i name ph, nth_error (gs_ts s) i = Some (TReader name ph) -> holding ph ->
                 exists hs, g_lock (gs_sh s) = LRead hs /\ In i hs;
    (* a loader between Lock and Unlock is THE holder, and will leave its final set behind *)
    inv_loader : forall j inter final after todo,
                 nth_error (gs_ts s) j = Some (TLoader inter final after (LHold todo)) ->
                 g_lock (gs_sh s) = LWrite j /\ endset (g_cur (gs_sh s)) todo = final;
    (* whenever no writer holds the lock the shared set is a committed one *)
    inv_cur : forall hs, g_lock (gs_sh s) = LRead hs -> In (g_cur (gs_sh s)) cs;
    (* every lookup so far saw a committed set *)
    inv_obs : forall i t name v, nth_error (gs_ts s) i = Some t -> observed t = Some (name, v) ->
              exists c, In c cs /\ v = lookup name c;
    inv_final : forall j inter final after ph,
                nth_error (gs_ts s) j = Some (TLoader inter final after ph) -> In final cs;
  }.

  Lemma inv_step i (s : gsys) : inv s -> inv (gsys_step true i s).
  Proof.
    intros [I1 I2 I3 I4 I5]. unfold gsys_step.
    destruct (nth_error (gs_ts s) i) as [t|] eqn:Ei; [|constructor; assumption].
    destruct s as [[cur lock] ts]; simpl in *.
    destruct t as [name ph|inter final after ph].
    - (* a reader *)
      destruct ph as [| |v|v]; simpl.
      + (* RLock *)
        destruct lock as [hs|w]; simpl; [|constructor; assumption].
        constructor; simpl.
        * intros k name' ph' Hk Hh. exists (i :: hs). split; [reflexivity|].
          destruct (Nat.eq_dec i k) as [->|Hn]; [left; reflexivity|].
          rewrite nth_error_upd_other in Hk by exact Hn.
          destruct (I1 k name' ph' Hk Hh) as [hs' [E Hin]]. inversion E; subst. right; exact Hin.
        * intros k inter final after todo Hk.
          destruct (Nat.eq_dec i k) as [->|Hn].
          -- erewrite nth_error_upd_same in Hk by exact Ei. discriminate.
          -- rewrite nth_error_upd_other in Hk by exact Hn.
             destruct (I2 k _ _ _ _ Hk) as [E _]. discriminate.
        * intros hs' _. apply (I3 hs). reflexivity.
        * intros k t name' v Hk Ho.
          destruct (Nat.eq_dec i k) as [->|Hn].
          -- erewrite nth_error_upd_same in Hk by exact Ei. inversion Hk; subst. discriminate.
          -- rewrite nth_error_upd_other in Hk by exact Hn. eapply I4; eassumption.
        * intros k inter final after ph Hk.
          destruct (Nat.eq_dec i k) as [->|Hn].
          -- erewrite nth_error_upd_same in Hk by exact Ei. discriminate.
          -- rewrite nth_error_upd_other in Hk by exact Hn. eapply I5; eassumption.
      + (* the lookup itself *)
        destruct (I1 i name RLocked Ei (or_introl eq_refl)) as [hs [El Hin]].
        pose proof (I3 hs El) as Hcur.
        constructor; simpl.
        * intros k name' ph' Hk Hh.
          destruct (Nat.eq_dec i k) as [->|Hn].
          -- exists hs. split; assumption.
          -- rewrite nth_error_upd_other in Hk by exact Hn. eapply I1; eassumption.
        * intros k inter final after todo Hk.
          destruct (Nat.eq_dec i k) as [->|Hn].
          -- erewrite nth_error_upd_same in Hk by exact Ei. discriminate.
          -- rewrite nth_error_upd_other in Hk by exact Hn. eapply I2; eassumption.
        * exact I3.
        * intros k t name' v Hk Ho.
          destruct (Nat.eq_dec i k) as [->|Hn].
          -- erewrite nth_error_upd_same in Hk by exact Ei. inversion Hk; subst.
             simpl in Ho. inversion Ho; subst.
             exists cur. split; [exact Hcur|reflexivity].
          -- rewrite nth_error_upd_other in Hk by exact Hn. eapply I4; eassumption.
        * intros k inter final after ph Hk.
          destruct (Nat.eq_dec i k) as [->|Hn].
          -- erewrite nth_error_upd_same in Hk by exact Ei. discriminate.
          -- rewrite nth_error_upd_other in Hk by exact Hn. eapply I5; eassumption.
      + (* RUnlock *)
        assert (Hobs : exists c, In c cs /\ v = lookup name c)
          by (apply (I4 i (TReader name (RRead v)) name v Ei); reflexivity).
        destruct lock as [hs|w]; simpl.
        * constructor; simpl.
          -- intros k name' ph' Hk Hh.
             destruct (Nat.eq_dec i k) as [->|Hn].
             ++ erewrite nth_error_upd_same in Hk by exact Ei. inversion Hk; subst.
                destruct Hh as [Hh|[? Hh]]; discriminate.
             ++ rewrite nth_error_upd_other in Hk by exact Hn.
                destruct (I1 k name' ph' Hk Hh) as [hs' [E Hin]]. inversion E; subst.
                exists (remove_nat i hs'). split; [reflexivity|].
                apply in_in_remove; [congruence|exact Hin].
          -- intros k inter final after todo Hk.
             destruct (Nat.eq_dec i k) as [->|Hn].
             ++ erewrite nth_error_upd_same in Hk by exact Ei. discriminate.
             ++ rewrite nth_error_upd_other in Hk by exact Hn.
                destruct (I2 k _ _ _ _ Hk) as [E _]. discriminate.
          -- intros hs' _. apply (I3 hs). reflexivity.
          -- intros k t name' v' Hk Ho.
             destruct (Nat.eq_dec i k) as [->|Hn].
             ++ erewrite nth_error_upd_same in Hk by exact Ei. inversion Hk; subst.
                simpl in Ho. inversion Ho; subst. exact Hobs.
             ++ rewrite nth_error_upd_other in Hk by exact Hn. eapply I4; eassumption.
          -- intros k inter final after ph Hk.
             destruct (Nat.eq_dec i k) as [->|Hn].
             ++ erewrite nth_error_upd_same in Hk by exact Ei. discriminate.
             ++ rewrite nth_error_upd_other in Hk by exact Hn. eapply I5; eassumption.
        * (* cannot happen: a reader holding while a writer holds *)
          destruct (I1 i name (RRead v) Ei (or_intror (ex_intro _ v eq_refl))) as [hs [E _]].
          discriminate.
      + constructor; assumption.
    - (* a loader *)
      destruct ph as [|todo|]; simpl.
      + (* Lock *)
        destruct lock as [[|h hs]|w]; simpl; try (constructor; assumption).
        constructor; simpl.
        * intros k name' ph' Hk Hh.
          destruct (Nat.eq_dec i k) as [->|Hn].
          -- erewrite nth_error_upd_same in Hk by exact Ei. discriminate.
          -- rewrite nth_error_upd_other in Hk by exact Hn.
             destruct (I1 k name' ph' Hk Hh) as [hs' [E Hin]]. inversion E; subst. destruct Hin.
        * intros k inter' final' after' todo Hk.
          destruct (Nat.eq_dec i k) as [->|Hn].
          -- erewrite nth_error_upd_same in Hk by exact Ei. inversion Hk; subst.
             split; [reflexivity|apply endset_app].
          -- rewrite nth_error_upd_other in Hk by exact Hn.
             destruct (I2 k _ _ _ _ Hk) as [E _]. discriminate.
        * intros hs' E. discriminate.
        * intros k t name' v Hk Ho.
          destruct (Nat.eq_dec i k) as [->|Hn].
          -- erewrite nth_error_upd_same in Hk by exact Ei. inversion Hk; subst. discriminate.
          -- rewrite nth_error_upd_other in Hk by exact Hn. eapply I4; eassumption.
        * intros k inter' final' after' ph Hk.
          destruct (Nat.eq_dec i k) as [->|Hn].
          -- erewrite nth_error_upd_same in Hk by exact Ei. inversion Hk; subst.
             eapply I5; exact Ei.
          -- rewrite nth_error_upd_other in Hk by exact Hn. eapply I5; eassumption.
      + destruct (I2 i inter final after todo Ei) as [El Hend].
        destruct todo as [|x todo]; simpl.
        * (* Unlock *)
          simpl in Hend. subst lock.
          constructor; simpl.
          -- intros k name' ph' Hk Hh.
             destruct (Nat.eq_dec i k) as [->|Hn].
             ++ erewrite nth_error_upd_same in Hk by exact Ei.
                destruct after; inversion Hk; subst.
                destruct Hh as [Hh|[? Hh]]; discriminate.
             ++ rewrite nth_error_upd_other in Hk by exact Hn.
                destruct (I1 k name' ph' Hk Hh) as [hs' [E _]]. discriminate.
          -- intros k inter' final' after' todo Hk.
             destruct (Nat.eq_dec i k) as [->|Hn].
             ++ erewrite nth_error_upd_same in Hk by exact Ei.
                destruct after; inversion Hk.
             ++ rewrite nth_error_upd_other in Hk by exact Hn.
                destruct (I2 k _ _ _ _ Hk) as [E _]. inversion E; congruence.
          -- intros hs' _. rewrite Hend. eapply I5; exact Ei.
          -- intros k t name' v Hk Ho.
             destruct (Nat.eq_dec i k) as [->|Hn].
             ++ erewrite nth_error_upd_same in Hk by exact Ei.
                destruct after; inversion Hk; subst; discriminate.
             ++ rewrite nth_error_upd_other in Hk by exact Hn. eapply I4; eassumption.
          -- intros k inter' final' after' ph Hk.
             destruct (Nat.eq_dec i k) as [->|Hn].
             ++ erewrite nth_error_upd_same in Hk by exact Ei.
                destruct after; inversion Hk; subst. eapply I5; exact Ei.
             ++ rewrite nth_error_upd_other in Hk by exact Hn. eapply I5; eassumption.
        * (* one write to the shared set *)
          subst lock. simpl in Hend.
          constructor; simpl.
          -- intros k name' ph' Hk Hh.
             destruct (Nat.eq_dec i k) as [->|Hn].
             ++ erewrite nth_error_upd_same in Hk by exact Ei. discriminate.
             ++ rewrite nth_error_upd_other in Hk by exact Hn.
                destruct (I1 k name' ph' Hk Hh) as [hs' [E _]]. discriminate.
          -- intros k inter' final' after' todo' Hk.
             destruct (Nat.eq_dec i k) as [->|Hn].
             ++ erewrite nth_error_upd_same in Hk by exact Ei. inversion Hk; subst.
                split; [reflexivity|first [exact Hend|reflexivity]].
             ++ rewrite nth_error_upd_other in Hk by exact Hn.
                destruct (I2 k _ _ _ _ Hk) as [E _]. inversion E; congruence.
          -- intros hs' E. discriminate.
          -- intros k t name' v Hk Ho.
             destruct (Nat.eq_dec i k) as [->|Hn].
             ++ erewrite nth_error_upd_same in Hk by exact Ei. inversion Hk; subst. discriminate.
             ++ rewrite nth_error_upd_other in Hk by exact Hn. eapply I4; eassumption.
          -- intros k inter' final' after' ph Hk.
             destruct (Nat.eq_dec i k) as [->|Hn].
             ++ erewrite nth_error_upd_same in Hk by exact Ei. inversion Hk; subst.
                eapply I5; exact Ei.
             ++ rewrite nth_error_upd_other in Hk by exact Hn. eapply I5; eassumption.
      + constructor; assumption.
  Qed.

  Lemma inv_run sched : forall s, inv s -> inv (grun true sched s).
  Proof.
    induction sched as [|i sched IH]; intros s H; [exact H|].
    apply (IH (gsys_step true i s)). apply inv_step; exact H.
  Qed.
End GateProofs.

Lemma finals_In {T} (ts : list (thread T)) j inter final after ph :
  nth_error ts j = Some (TLoader inter final after ph) -> In final (finals ts).
Proof.
  revert j; induction ts as [|t r IH]; intros [|j] H; simpl in H; try discriminate.
  - inversion H; subst. left; reflexivity.
  - destruct t; [|right]; eapply IH; exact H.
Qed.

Lemma inv_init {T} (init : gset T) (ts : list (thread T)) :
  Forall thread_initial ts -> inv T (init :: finals ts) (ginit init ts).
Proof.
  intros Hall.
  assert (Hi : forall i t, nth_error ts i = Some t -> thread_initial t).
  { intros i t H. rewrite Forall_forall in Hall. apply Hall. eapply nth_error_In; exact H. }
  constructor; simpl.
  - intros i name ph Hk Hh. apply Hi in Hk. destruct Hh as [->|[v ->]]; destruct Hk.
  - intros j inter final after todo Hk. apply Hi in Hk. destruct Hk.
  - intros hs _. left; reflexivity.
  - intros i t name v Hk Ho. apply Hi in Hk.
    destruct t as [n [| |?|?]|? ? ? [|?|]]; simpl in *; try discriminate; destruct Hk.
  - intros j inter final after ph Hk. right. eapply finals_In; exact Hk.
Qed.

(* atomicity of the lookup: under ANY schedule of any number of readers and loaders, what a
   Render's lookup returns is the entry of ONE committed set (the initial one or the final set
   of some LoadTemplates) -- never of a state in the middle of a load *)
Lemma gate_atomic {T} (init : gset T) ts sched i t name v :
  Forall thread_initial ts ->
  nth_error (gs_ts (grun true sched (ginit init ts))) i = Some t ->
  observed t = Some (name, v) ->
  exists c, In c (init :: finals ts) /\ v = lookup name c.
Proof.
  intros Hall Hi Ho.
  pose proof (inv_run T (init :: finals ts) sched _ (inv_init init ts Hall)) as H.
  eapply (inv_obs T _ _ H); eassumption.
Qed.

(* mutual exclusion: while a loader holds the lock nobody is between RLock and RUnlock,
   and no second loader holds it *)
Lemma gate_mutex {T} (init : gset T) ts sched j inter final after todo :
  Forall thread_initial ts ->
  let s := grun true sched (ginit init ts) in
  nth_error (gs_ts s) j = Some (TLoader inter final after (LHold todo)) ->
  (forall i name ph, nth_error (gs_ts s) i = Some (TReader name ph) ->
     ph = RIdle \/ exists v, ph = RDone v)
  /\ (forall k inter' final' after' todo',
        nth_error (gs_ts s) k = Some (TLoader inter' final' after' (LHold todo')) -> k = j).
Proof.
  intros Hall s Hj.
  pose proof (inv_run T (init :: finals ts) sched _ (inv_init init ts Hall)) as H.
  fold s in H. destruct (inv_loader T _ _ H _ _ _ _ _ Hj) as [El _].
  split.
  - intros i name ph Hi.
    destruct ph as [| |v|v]; [left; reflexivity| | |right; exists v; reflexivity].
    + destruct (inv_reader T _ _ H i name RLocked Hi (or_introl eq_refl)) as [hs [E _]]. congruence.
    + destruct (inv_reader T _ _ H i name (RRead v) Hi (or_intror (ex_intro _ v eq_refl))) as [hs [E _]].
      congruence.
  - intros k inter' final' after' todo' Hk.
    destruct (inv_loader T _ _ H _ _ _ _ _ Hk) as [E _]. congruence.
Qed.

(* non-vacuity: one loader that clears the set before filling it, one reader *)
Definition gx_old : gset nat := [(B "a", 1); (B "b", 1)].
Definition gx_new : gset nat := [(B "a", 2); (B "b", 2)].
Definition gx_threads : list (thread nat) :=
  [TLoader [[]; [(B "a", 2)]] gx_new None LIdle; TReader (B "a") RIdle].

(* with the mutex the reader blocks during the load and then sees the new set *)
Example gate_example_locked :
  map observed (gs_ts (grun true [0; 0; 1; 1; 0; 0; 0; 1; 1; 1] (ginit gx_old gx_threads)))
  = [None; Some (B "a", Some 2)].
Proof. vm_compute. reflexivity. Qed.

(* ... or the old one, when it gets the read lock first (the loader then waits) *)
Example gate_example_reader_first :
  map observed (gs_ts (grun true [1; 0; 0; 1; 1; 0; 0; 0; 0] (ginit gx_old gx_threads)))
  = [None; Some (B "a", Some 1)].
Proof. vm_compute. reflexivity. Qed.

(* without the mutex the same schedule shows a state that is neither old nor new: "not found" *)
Lemma gate_without_lock_refuted :
  exists sched i t name v,
    nth_error (gs_ts (grun false sched (ginit gx_old gx_threads))) i = Some t /\
    observed t = Some (name, v) /\
    ~ exists c, In c (gx_old :: finals gx_threads) /\ v = lookup name c.
Proof.
  exists [0; 0; 1; 1], 1, (TReader (B "a") (RRead None)), (B "a"), None.
  split; [vm_compute; reflexivity|]. split; [reflexivity|].
  intros [c [[<-|[<-|[]]] E]]; vm_compute in E; discriminate.
Qed.

(* debug mode through the gate: Render = LoadTemplates(name) then the lookup.  The lookup is
   atomic (it sees a committed set) but the set may be ANOTHER render's: "Template a not found"
   (this is C10's finding F-C10-b, shown here only to delimit C08's claim) *)
Example gate_debug_renders_hide_each_other :
  let ts := [TLoader [] [(B "a", 1)] (Some (B "a")) LIdle;
             TLoader [] [(B "b", 1)] (Some (B "b")) LIdle] in
  map observed (gs_ts (grun true [0; 0; 0; 1; 1; 1; 0; 0; 0; 1; 1; 1] (ginit [] ts)))
  = [Some (B "a", None); Some (B "b", Some 1)].
Proof. vm_compute. reflexivity. Qed.

(* ------------------------------------------------------------------ Part 2c: context-aware template functions *)

(* binding a function to the caller's context on every use writes nothing shared *)
Lemma cstep_reads_only : reads_only (cstep false).
Proof.
  intros h r h' r' H. unfold cstep in H.
  destruct (c_pc r) as [[|f rest]|f rb rest| |]; simpl in H; try discriminate.
  - inversion H; reflexivity.
  - destruct (lookup f (cs_funcs h)); inversion H; reflexivity.
  - destruct (lookup f (cs_funcs h)); inversion H; reflexivity.
Qed.

(* a render alone computes the spec of ITS context (and stays there) *)
Lemma ctx_alone h c k : forall code a,
  cresult (snd (alone (cstep false) (S (length code) + k) h (mkC c a (CRun code)))) =
  Some (cspec (cs_funcs h) c code a).
Proof.
  induction code as [|f rest IH]; intros a.
  - simpl. rewrite alone_stuck by reflexivity. reflexivity.
  - change (S (length (f :: rest)) + k) with (S (S (length rest) + k)).
    cbn [alone cspec]. unfold cstep at 1. cbn [c_pc c_ctx c_acc].
    destruct (lookup f (cs_funcs h)) as [g|] eqn:El.
    + apply IH.
    + rewrite alone_stuck by reflexivity. reflexivity.
Qed.

(* any number of renders, each with its own context, under ANY schedule that gives render i
   enough steps: render i returns what its own context determines, and the shared state is
   as it was *)
Lemma ctx_engine_own_context sched h l i c a code :
  nth_error l i = Some (mkC c a (CRun code)) ->
  length code < count i sched ->
  option_map cresult (nth_error (rs (run (cstep false) sched (mkSys h l))) i) =
    Some (Some (cspec (cs_funcs h) c code a))
  /\ sh (run (cstep false) sched (mkSys h l)) = h.
Proof.
  intros Hi Hn. split.
  - rewrite (interleave_ro _ _ _ cstep_reads_only sched h l i _ Hi). cbn [option_map].
    replace (count i sched) with (S (length code) + (count i sched - S (length code))) by lia.
    rewrite ctx_alone. reflexivity.
  - apply (shared_unchanged_ro _ _ _ cstep_reads_only sched (mkSys h l)).
Qed.

(* a concrete table: every function appends the digit of the context it is bound to *)
Definition cx_digit : provider := fun c a => (a * 10 + c)%Z.
Definition cx_funcs : list (bytes * provider) :=
  [(B "first", cx_digit); (B "who", cx_digit); (B "gate", cx_digit)].
Definition cx_shared : cshared := mkCS cx_funcs None [].
Definition cx_code : list bytes := [B "first"; B "who"; B "gate"; B "who"].
Definition cx_renders : list cstate := [new_crender 1 cx_code; new_crender 2 cx_code; new_crender 3 [B "who"; B "nosuch"]].

Example ctx_engine_example :
  map cresult (rs (run (cstep false) (round_robin 3 6) (mkSys cx_shared cx_renders))) =
  [Some (Some 1111%Z); Some (Some 2222%Z); Some None].
Proof. vm_compute. reflexivity. Qed.

(* the memoising variant, one render AFTER the other: nothing to see *)
Example ctx_memo_sequential_is_right :
  map cresult (rs (run (cstep true) (repeat 0 9 ++ repeat 1 9 ++ repeat 2 9) (mkSys cx_shared cx_renders))) =
  [Some (Some 1111%Z); Some (Some 2222%Z); Some None].
Proof. vm_compute. reflexivity. Qed.

(* the memoising variant, overlapping: render 0 is inside the provider of "who" (it owns the
   memo and missed), render 1 takes the memo over and runs up to its second who(), render 0
   stores ITS binding into the memo that is now render 1's, render 1 calls who() *)
Definition cx_sched : list nat := [0; 0; 0; 1; 1; 1; 1; 1; 1; 0; 1; 1; 0; 0; 0; 0; 0].

Example ctx_memo_interference :
  map cresult (rs (run (cstep true) cx_sched (mkSys cx_shared (firstn 2 cx_renders)))) =
  [Some (Some 1111%Z); Some (Some 2221%Z)].
Proof. vm_compute. reflexivity. Qed.

(* so the statement of [ctx_engine_own_context] is false for an engine that keeps bound
   functions in the shared template set *)
Lemma ctx_memo_refuted :
  exists sched h l i c a code,
    nth_error l i = Some (mkC c a (CRun code)) /\
    length code < count i sched /\
    option_map cresult (nth_error (rs (run (cstep true) sched (mkSys h l))) i) <>
      Some (Some (cspec (cs_funcs h) c code a)).
Proof.
  exists cx_sched, cx_shared, (firstn 2 cx_renders), 1, 2%Z, 0%Z, cx_code.
  split; [reflexivity|]. split; [vm_compute; lia|].
  vm_compute. discriminate.
Qed.

(* ------------------------------------------------------------------ Part 2d: struct data, members that are not there *)

(* deriving the members from the call's own value, by pure helpers, writes nothing shared *)
Lemma mstep_reads_only : reads_only (mstep MAsIs).
Proof.
  intros h r h' r' H. unfold mstep in H.
  destruct (m_pc r) as [[items|] code out|todo code out|f items code out|out].
  - destruct code as [|f rest]; [inversion H; reflexivity|].
    destruct (member_fast items f); inversion H; reflexivity.
  - destruct (m_data r); inversion H; reflexivity.
  - destruct todo; destruct (m_data r); inversion H; reflexivity.
  - inversion H; reflexivity.
  - discriminate.
Qed.

(* a converted value: every member read is the member of the call's own value *)
Lemma member_alone h d items k : forall code out,
  mresult (snd (alone (mstep MAsIs) (S (length code) + k) h (mkM d (MRun (Some items) code out)))) =
  Some (out ++ map (member items) code).
Proof.
  induction code as [|f rest IH]; intros out.
  - simpl. rewrite alone_stuck by reflexivity. simpl. rewrite app_nil_r. reflexivity.
  - change (S (length (f :: rest)) + k) with (S (S (length rest) + k)).
    cbn [alone]. unfold mstep at 1. cbn [m_pc m_data].
    destruct (member_fast items f) as [x|] eqn:Ef.
    + rewrite IH. cbn [map].
      assert (Em : member items f = Some x) by (unfold member; rewrite Ef; reflexivity).
      rewrite Em, <- app_assoc. reflexivity.
    + rewrite IH. cbn [map].
      assert (Em : member items f = member_slow items f (title f) (title (fold_ids f)))
        by (unfold member; rewrite Ef; reflexivity).
      rewrite Em, <- app_assoc. reflexivity.
Qed.

Lemma mrender_alone h d code k :
  mresult (snd (alone (mstep MAsIs) (S (S (length code)) + k) h (new_mrender d code))) =
  Some (mspec (ms_types h) d code).
Proof.
  change (S (S (length code)) + k) with (S (S (length code) + k)).
  unfold new_mrender. cbn [alone]. unfold mstep at 1. cbn [m_pc m_data].
  assert (E : (match d, MAsIs with
               | DStruct t vals, MTypeCache =>
                 match nlookup t (ms_cache h) with
                 | Some names => Some (h, mkM d (MRun (Some (combine names vals)) code []))
                 | None => Some (mkMS (ms_types h) ((t, []) :: ms_cache h) (ms_word h),
                                 mkM d (MFill (names_of h t) code []))
                 end
               | _, _ => Some (h, mkM d (MRun (Some (items_of (ms_types h) d)) code []))
               end) = Some (h, mkM d (MRun (Some (items_of (ms_types h) d)) code []))).
  { destruct d; reflexivity. }
  rewrite E. rewrite member_alone. reflexivity.
Qed.

(* any number of renders, each with its own data (struct or map), under ANY schedule that gives
   render i enough steps, whatever the others render and whether or not anybody has rendered a
   value of that type before: render i returns the members of ITS value, the shared state is as
   it was *)
Lemma member_engine_own_data sched h l i d code :
  nth_error l i = Some (new_mrender d code) ->
  S (length code) < count i sched ->
  option_map mresult (nth_error (rs (run (mstep MAsIs) sched (mkSys h l))) i) =
    Some (Some (mspec (ms_types h) d code))
  /\ sh (run (mstep MAsIs) sched (mkSys h l)) = h.
Proof.
  intros Hi Hn. split.
  - rewrite (interleave_ro _ _ _ mstep_reads_only sched h l i _ Hi). cbn [option_map].
    replace (count i sched) with (S (S (length code)) + (count i sched - S (S (length code)))) by lia.
    rewrite mrender_alone. reflexivity.
  - apply (shared_unchanged_ro _ _ _ mstep_reads_only sched (mkSys h l)).
Qed.

(* a concrete type table: a product with four fields *)
Definition mx_types : list (nat * list bytes) := [(7, [B "Name"; B "UserID"; B "Qty"; B "Last"])].
Definition mx_shared : mshared := mkMS mx_types [] [].
Definition mx_code : list bytes := [B "name"; B "badge"; B "userid"; B "last"].
Definition mx_renders : list mstate :=
  [new_mrender (DStruct 7 [1; 2; 3; 4]%Z) mx_code;
   new_mrender (DStruct 7 [5; 6; 7; 8]%Z) mx_code;
   new_mrender (DMapV [(B "First Name", 9%Z); (B "URL", 10%Z)]) [B "first name"; B "url"; B "zzz"]].

(* found as written / not there / found by folding userid to userID / found as written;
   found by title-casing / found by folding url to URL / not there *)
Example member_engine_example :
  map mresult (rs (run (mstep MAsIs) (round_robin 3 7) (mkSys mx_shared mx_renders))) =
  [Some [Some 1; None; Some 2; Some 4]%Z; Some [Some 5; None; Some 6; Some 8]%Z; Some [Some 9; Some 10; None]%Z].
Proof. vm_compute. reflexivity. Qed.

(* the per-type cache, one render AFTER the other: nothing to see, now or ever after *)
Example member_cache_sequential_is_right :
  map mresult (rs (run (mstep MTypeCache) (repeat 0 12 ++ repeat 1 12 ++ repeat 2 12) (mkSys mx_shared mx_renders))) =
  [Some [Some 1; None; Some 2; Some 4]%Z; Some [Some 5; None; Some 6; Some 8]%Z; Some [Some 9; Some 10; None]%Z].
Proof. vm_compute. reflexivity. Qed.

(* the per-type cache, two renders meeting the type for the first time together: render 0 has
   published the entry and written two of the four names when render 1 converts its value *)
Definition mx_sched_cache : list nat := [0; 0; 0] ++ repeat 1 8 ++ repeat 0 10.

Example member_cache_interference :
  map mresult (rs (run (mstep MTypeCache) mx_sched_cache (mkSys mx_shared (firstn 2 mx_renders)))) =
  [Some [Some 1; None; Some 2; Some 4]%Z; Some [Some 5; None; Some 6; None]%Z].
Proof. vm_compute. reflexivity. Qed.

Lemma member_type_cache_refuted :
  exists sched h l i d code,
    nth_error l i = Some (new_mrender d code) /\
    S (length code) < count i sched /\
    option_map mresult (nth_error (rs (run (mstep MTypeCache) sched (mkSys h l))) i) <>
      Some (Some (mspec (ms_types h) d code)).
Proof.
  exists mx_sched_cache, mx_shared, (firstn 2 mx_renders), 1, (DStruct 7 [5; 6; 7; 8]%Z), mx_code.
  split; [reflexivity|]. split; [vm_compute; lia|].
  vm_compute. discriminate.
Qed.

(* the shared caser, one render after the other: right *)
Example member_caser_sequential_is_right :
  map mresult (rs (run (mstep MSharedCaser) (repeat 0 12 ++ repeat 1 12 ++ repeat 2 12) (mkSys mx_shared mx_renders))) =
  [Some [Some 1; None; Some 2; Some 4]%Z; Some [Some 5; None; Some 6; Some 8]%Z; Some [Some 9; Some 10; None]%Z].
Proof. vm_compute. reflexivity. Qed.

(* the shared caser, overlapping: render 2 has handed "first name" to the caser when render 0
   hands it "badge"; render 2 reads back "Badge" *)
Definition mx_sched_caser : list nat := [2; 2; 0; 0; 0] ++ repeat 2 6 ++ repeat 0 6.

Example member_caser_interference :
  map mresult (rs (run (mstep MSharedCaser) mx_sched_caser (mkSys mx_shared mx_renders))) =
  [Some [Some 1; None; Some 2; Some 4]%Z; None; Some [None; Some 10; None]%Z].
Proof. vm_compute. reflexivity. Qed.

Lemma member_shared_caser_refuted :
  exists sched h l i d code,
    nth_error l i = Some (new_mrender d code) /\
    S (length code) < count i sched /\
    option_map mresult (nth_error (rs (run (mstep MSharedCaser) sched (mkSys h l))) i) <>
      Some (Some (mspec (ms_types h) d code)).
Proof.
  exists mx_sched_caser, mx_shared, mx_renders, 2,
         (DMapV [(B "First Name", 9%Z); (B "URL", 10%Z)]), [B "first name"; B "url"; B "zzz"].
  split; [reflexivity|]. split; [vm_compute; lia|].
  vm_compute. discriminate.
Qed.
