(* C12 proofs, second part: mutations of template objects against mutations of JSON trees, and the process
   (heap machine without a table of parsed texts) against value semantics, for every history. *)
From PV Require Import Base.Bytes Models.Json Models.JsonHist Proofs.JsonProofs.
From Coq Require Import Permutation Lia.

Local Open Scope list_scope.

(* ------------------------------------------------------------------ order: transitivity, heads of sorted lists *)

Lemma bytes_ltb_trans a : forall b c, bytes_ltb a b = true -> bytes_ltb b c = true -> bytes_ltb a c = true.
Proof.
  unfold bytes_ltb. intros b c H1 H2.
  destruct (bytes_cmp a b) eqn:E1; try discriminate.
  destruct (bytes_cmp b c) eqn:E2; try discriminate.
  clear H1 H2. revert b c E1 E2.
  induction a as [|x a IHa]; intros [|y b] [|z c] E1 E2; simpl in *; try discriminate; try reflexivity.
  destruct (N.compare (code x) (code y)) eqn:C1; try discriminate;
  destruct (N.compare (code y) (code z)) eqn:C2; try discriminate.
  - apply N.compare_eq in C1, C2. rewrite C1, C2, N.compare_refl.
    specialize (IHa b c E1 E2). destruct (bytes_cmp a c); try discriminate; reflexivity.
  - apply N.compare_eq in C1. rewrite C1, C2. reflexivity.
  - apply N.compare_eq in C2. rewrite <- C2, C1. reflexivity.
  - rewrite N.compare_lt_iff in C1, C2. assert (H : (code x < code z)%N) by lia.
    rewrite <- N.compare_lt_iff in H. rewrite H. reflexivity.
Qed.

Lemma bytes_ltb_asym a b : bytes_ltb a b = true -> bytes_ltb b a = true -> False.
Proof.
  intros H1 H2. assert (H := bytes_ltb_trans a b a H1 H2). rewrite bytes_ltb_irrefl in H. discriminate.
Qed.

Lemma sorted_head_lt a l : sorted_strict (a :: l) = true -> Forall (fun b => bytes_ltb a b = true) l.
Proof.
  revert a. induction l as [|b l IH]; intros a Hs; [constructor|].
  apply sorted_strict_cons in Hs. destruct Hs as [Hh Hs]. simpl in Hh.
  constructor; [exact Hh|].
  specialize (IH b Hs). rewrite Forall_forall in *. intros c Hc. eapply bytes_ltb_trans; [exact Hh|apply IH; exact Hc].
Qed.

(* two strictly sorted association lists with the same entries are the same list *)
Lemma sorted_perm_eq {A} (a : list (bytes * A)) : forall b,
  sorted_strict (keys a) = true -> sorted_strict (keys b) = true -> Permutation a b -> a = b.
Proof.
  induction a as [|[k v] a IH]; intros b Ha Hb Hp.
  - apply Permutation_nil in Hp. subst. reflexivity.
  - destruct b as [|[k2 v2] b]; [apply Permutation_sym, Permutation_nil in Hp; discriminate|].
    change (sorted_strict (k :: keys a) = true) in Ha. change (sorted_strict (k2 :: keys b) = true) in Hb.
    assert (La := sorted_head_lt _ _ Ha). assert (Lb := sorted_head_lt _ _ Hb).
    rewrite Forall_forall in La, Lb.
    assert (E : (k, v) = (k2, v2)).
    { assert (H1 : In (k, v) ((k2, v2) :: b)) by (eapply Permutation_in; [exact Hp|left; reflexivity]).
      assert (H2 : In (k2, v2) ((k, v) :: a)) by (eapply Permutation_in; [apply Permutation_sym; exact Hp|left; reflexivity]).
      destruct H1 as [H1|H1]; [symmetry; exact H1|].
      destruct H2 as [H2|H2]; [exact H2|].
      exfalso. apply (bytes_ltb_asym k k2).
      - apply La. unfold keys. apply (in_map fst) in H2. exact H2.
      - apply Lb. unfold keys. apply (in_map fst) in H1. exact H1. }
    injection E as <- <-. f_equal.
    apply sorted_strict_cons in Ha, Hb. apply IH; [tauto|tauto|].
    eapply Permutation_cons_inv. exact Hp.
Qed.

Lemma ins_kv_perm {A} k (v : A) l : Permutation (ins_kv k v l) ((k, v) :: l).
Proof.
  induction l as [|[k' v'] r IH]; simpl; [apply Permutation_refl|].
  destruct (bytes_leb k k'); [apply Permutation_refl|].
  eapply Permutation_trans; [apply perm_skip; exact IH|apply perm_swap].
Qed.

Lemma sort_kv_perm {A} (l : list (bytes * A)) : Permutation (sort_kv l) l.
Proof.
  induction l as [|[k v] r IH]; simpl; [constructor|].
  eapply Permutation_trans; [apply ins_kv_perm|apply perm_skip; exact IH].
Qed.

Lemma NoDup_keys_perm {A} (l l' : list (bytes * A)) : Permutation l l' -> NoDup (keys l) -> NoDup (keys l').
Proof. intros Hp. apply Permutation_NoDup. unfold keys. apply Permutation_map. exact Hp. Qed.

(* the sorted form depends on the entries only *)
Lemma sort_kv_of_perm {A} (l l' : list (bytes * A)) :
  NoDup (keys l) -> Permutation l l' -> sort_kv l = sort_kv l'.
Proof.
  intros Hnd Hp. apply sorted_perm_eq.
  - apply sort_kv_sorted. exact Hnd.
  - apply sort_kv_sorted. eapply NoDup_keys_perm; eassumption.
  - eapply Permutation_trans; [apply sort_kv_perm|].
    eapply Permutation_trans; [exact Hp|apply Permutation_sym, sort_kv_perm].
Qed.

Lemma NoDup_nodupb l : NoDup l -> nodupb l = true.
Proof.
  induction 1 as [|a r Hni Hnd IH]; simpl; [reflexivity|].
  rewrite IH, andb_true_r. apply negb_true_iff. apply mem_false_In. exact Hni.
Qed.

(* ------------------------------------------------------------------ upd_key, insert *)

Lemma keys_upd_key {A} k (f : A -> A) m : keys (upd_key k f m) = keys m.
Proof.
  unfold keys. induction m as [|[k' v] r IH]; simpl; [reflexivity|].
  destruct (beqb k k'); simpl; [reflexivity|]. rewrite IH. reflexivity.
Qed.

Lemma upd_key_ins_same {A} k (f : A -> A) v s :
  ~ In k (keys s) -> upd_key k f (ins_kv k v s) = ins_kv k (f v) s.
Proof.
  unfold keys. induction s as [|[k2 v2] s IH]; simpl; intros Hn.
  - rewrite beqb_refl. reflexivity.
  - destruct (bytes_leb k k2); simpl.
    + rewrite beqb_refl. reflexivity.
    + destruct (beqb k k2) eqn:E.
      * apply beqb_eq in E. subst. exfalso. apply Hn. left. reflexivity.
      * rewrite IH; [reflexivity|]. intros Hin. apply Hn. right. exact Hin.
Qed.

Lemma upd_key_ins_other {A} k k' (f : A -> A) v' s :
  k <> k' -> upd_key k f (ins_kv k' v' s) = ins_kv k' v' (upd_key k f s).
Proof.
  intros Hne. assert (Hb : beqb k k' = false) by (apply beqb_neq; exact Hne).
  induction s as [|[k2 v2] s IH]; simpl.
  - rewrite Hb. reflexivity.
  - destruct (bytes_leb k' k2) eqn:L; simpl.
    + rewrite Hb. destruct (beqb k k2); simpl; rewrite L; reflexivity.
    + destruct (beqb k k2); simpl; rewrite L; [reflexivity|]. rewrite IH. reflexivity.
Qed.

Lemma sort_upd {A} k (f : A -> A) (l : list (bytes * A)) :
  NoDup (keys l) -> sort_kv (upd_key k f l) = upd_key k f (sort_kv l).
Proof.
  induction l as [|[k' v'] r IH]; intros Hnd; [reflexivity|].
  unfold keys in Hnd. simpl in Hnd. inversion Hnd as [|? ? Hni Hnd']; subst.
  simpl. destruct (beqb k k') eqn:E.
  - apply beqb_eq in E. subst k'. simpl. rewrite upd_key_ins_same; [reflexivity|].
    rewrite keys_sort_kv. exact Hni.
  - simpl. rewrite (IH Hnd'). rewrite upd_key_ins_other; [reflexivity|]. apply beqb_neq. exact E.
Qed.

Lemma insert_in_upd {A} k (x : A) l : In k (keys l) -> insert k x l = upd_key k (fun _ => x) l.
Proof.
  unfold keys. induction l as [|[k' v'] r IH]; simpl; intros Hin; [contradiction|].
  destruct (beqb k k') eqn:E; [reflexivity|].
  rewrite IH; [reflexivity|]. destruct Hin as [->|Hin]; [rewrite beqb_refl in E; discriminate|exact Hin].
Qed.

(* Go map assignment against the sorted member list *)
Lemma sort_insert {A} k (x : A) (l : list (bytes * A)) :
  NoDup (keys l) -> sort_kv (insert k x (sort_kv l)) = sort_kv (insert k x l).
Proof.
  intros Hnd. destruct (in_dec (list_eq_dec ascii_dec) k (keys l)) as [Hin|Hni].
  - rewrite (insert_in_upd k x l Hin).
    rewrite insert_in_upd by (rewrite keys_sort_kv; exact Hin).
    rewrite (sort_upd k _ l Hnd).
    apply sort_kv_id. rewrite keys_upd_key. apply sort_kv_sorted. exact Hnd.
  - rewrite (insert_notin k x l Hni).
    rewrite insert_notin by (rewrite keys_sort_kv; exact Hni).
    apply sort_kv_of_perm.
    + unfold keys. rewrite map_app. simpl.
      assert (Hp : Permutation (k :: map fst (sort_kv l)) (map fst (sort_kv l) ++ [k])) by (apply Permutation_cons_append).
      eapply Permutation_NoDup; [exact Hp|]. constructor.
      * intros Hin. apply Hni. apply (keys_sort_kv l k). exact Hin.
      * apply sorted_strict_NoDup. apply (sort_kv_sorted l). exact Hnd.
    + apply Permutation_app_tail. apply sort_kv_perm.
Qed.

(* ------------------------------------------------------------------ the invariant: objects of the property's domain *)

(* goodb (Models/JsonHist.v): template objects whose keys are pairwise distinct, lower-case-initial, Unicode *)

(* JSON trees with strictly sorted, lower-case-initial, Unicode keys; text Unicode *)
Fixpoint jgoodb (j : jv) : bool :=
  match j with
  | JNull | JBool _ | JInt _ => true
  | JStr s => utf8_valid s
  | JArr l => forallb jgoodb l
  | JObj m => sorted_strict (map fst m)
              && forallb (fun kv => match kv with (k, v) => key_lower_initial k && utf8_valid k && jgoodb v end) m
  end.

Definition gentry (kv : bytes * obj) : Prop :=
  key_lower_initial (fst kv) = true /\ utf8_valid (fst kv) = true /\ goodb (snd kv) = true.
Definition jgentry (kv : bytes * jv) : Prop :=
  key_lower_initial (fst kv) = true /\ utf8_valid (fst kv) = true /\ jgoodb (snd kv) = true.

Lemma goodb_map m : goodb (OMap m) = true <-> NoDup (keys m) /\ Forall gentry m.
Proof.
  simpl. rewrite andb_true_iff, forallb_forall, Forall_forall. unfold gentry. split.
  - intros [H1 H2]. split; [apply nodupb_NoDup; exact H1|].
    intros [k v] Hin. specialize (H2 (k, v) Hin). simpl in *.
    apply andb_true_iff in H2. destruct H2 as [H2 H3]. apply andb_true_iff in H2. tauto.
  - intros [H1 H2]. split; [apply NoDup_nodupb; exact H1|].
    intros [k v] Hin. destruct (H2 (k, v) Hin) as [A [B0 C]]. simpl in *. rewrite A, B0, C. reflexivity.
Qed.

Lemma jgoodb_obj m : jgoodb (JObj m) = true <-> sorted_strict (keys m) = true /\ Forall jgentry m.
Proof.
  simpl. rewrite andb_true_iff, forallb_forall, Forall_forall. unfold jgentry, keys. split.
  - intros [H1 H2]. split; [exact H1|].
    intros [k v] Hin. specialize (H2 (k, v) Hin). simpl in *.
    apply andb_true_iff in H2. destruct H2 as [H2 H3]. apply andb_true_iff in H2. tauto.
  - intros [H1 H2]. split; [exact H1|].
    intros [k v] Hin. destruct (H2 (k, v) Hin) as [A [B0 C]]. simpl in *. rewrite A, B0, C. reflexivity.
Qed.

Lemma key_lower_modelled k : key_lower_initial k = true -> key_modelled k = true.
Proof. destruct k as [|c r]; [reflexivity|]. simpl. intros H. apply andb_true_iff in H. tauto. Qed.

Lemma good_obj_ok o : goodb o = true -> obj_ok o = true.
Proof.
  induction o as [| b | z | s | l IHl | m IHm] using obj_ind2; intros H; try exact H; try reflexivity.
  - simpl in *. rewrite forallb_forall in *. rewrite Forall_forall in IHl. intros x Hx. apply IHl; auto.
  - apply goodb_map in H. destruct H as [_ H]. simpl. rewrite forallb_forall. rewrite Forall_forall in *.
    intros [k v] Hin. destruct (H (k, v) Hin) as [A [B0 C]]. simpl in *.
    rewrite (key_lower_modelled k A), B0. simpl. apply (IHm (k, v) Hin). exact C.
Qed.

(* Map.MarshalJSON on a good map: the members, sorted *)
Lemma marshal_good_map m : goodb (OMap m) = true -> marshal (OMap m) = JObj (sort_kv (map marshal_entry m)).
Proof.
  intros H. apply goodb_map in H. destruct H as [Hnd Hf].
  rewrite marshal_map_eq. f_equal.
  assert (Hk : keys (map marshal_entry m) = keys m).
  { unfold keys. rewrite map_map. apply map_ext. intros [k v]. reflexivity. }
  assert (Hs : sorted_strict (keys (sort_kv (map marshal_entry m))) = true).
  { apply sort_kv_sorted. rewrite Hk. exact Hnd. }
  rewrite tmp_map_fixed; [apply sort_kv_id; exact Hs|apply sorted_strict_NoDup; exact Hs|].
  apply Forall_sort_kv. rewrite Forall_forall in *. intros [k j] Hin.
  apply in_map_iff in Hin. destruct Hin as [[k' v] [E Hin]]. simpl in E. injection E as <- <-.
  destruct (Hf (k', v) Hin) as [A _]. simpl. apply lower_first_fixed. exact A.
Qed.

Lemma keys_marshal_entry m : keys (map marshal_entry m) = keys m.
Proof. unfold keys. rewrite map_map. apply map_ext. intros [k v]. reflexivity. Qed.

Lemma marshal_jgood o : goodb o = true -> jgoodb (marshal o) = true.
Proof.
  induction o as [| b | z | s | l IHl | m IHm] using obj_ind2; intros H; try exact H; try reflexivity.
  - simpl in *. rewrite forallb_forall in *. intros j Hj. apply in_map_iff in Hj. destruct Hj as [x [<- Hx]].
    rewrite Forall_forall in IHl. apply IHl; auto.
  - rewrite (marshal_good_map m H). apply goodb_map in H. destruct H as [Hnd Hf].
    apply jgoodb_obj. split.
    + apply sort_kv_sorted. rewrite keys_marshal_entry. exact Hnd.
    + apply Forall_sort_kv. rewrite Forall_forall in *. intros [k j] Hin.
      apply in_map_iff in Hin. destruct Hin as [[k' v] [E Hin]]. simpl in E. injection E as <- <-.
      destruct (Hf (k', v) Hin) as [A [B0 C]]. unfold jgentry. simpl in *. repeat split; try assumption.
      apply (IHm (k', v) Hin). exact C.
Qed.

Lemma jgood_wf j : jgoodb j = true -> wf_jv j = true /\ lf_fixedb j = true.
Proof.
  induction j as [| b | z | s | l IHl | m IHm] using jv_ind2; intros H; try (split; [exact H|reflexivity]); try (split; reflexivity).
  - simpl in *. rewrite forallb_forall in H. rewrite Forall_forall in IHl. split; rewrite forallb_forall; intros x Hx; apply IHl; auto.
  - apply jgoodb_obj in H. destruct H as [Hs Hf]. rewrite Forall_forall in *. split.
    + simpl. apply andb_true_iff. split; [exact Hs|]. rewrite forallb_forall. intros [k v] Hin.
      destruct (Hf (k, v) Hin) as [A [B0 C]]. simpl in *. rewrite B0. simpl. apply (IHm (k, v) Hin). exact C.
    + simpl. rewrite forallb_forall. intros [k v] Hin.
      destruct (Hf (k, v) Hin) as [A [B0 C]]. simpl in *. rewrite (lower_first_fixed k A), beqb_refl. simpl.
      apply (IHm (k, v) Hin). exact C.
Qed.

Lemma obj_of_jv_good j : jgoodb j = true -> goodb (obj_of_jv j) = true.
Proof.
  induction j as [| b | z | s | l IHl | m IHm] using jv_ind2; intros H; try exact H; try reflexivity.
  - simpl in *. rewrite forallb_forall in *. intros o Ho. apply in_map_iff in Ho. destruct Ho as [x [<- Hx]].
    rewrite Forall_forall in IHl. apply IHl; auto.
  - apply jgoodb_obj in H. destruct H as [Hs Hf]. simpl obj_of_jv. apply goodb_map. split.
    + unfold keys. rewrite map_map.
      replace (map (fun x : bytes * jv => fst (let (k, v) := x in (k, obj_of_jv v))) m) with (keys m)
        by (unfold keys; apply map_ext; intros [k v]; reflexivity).
      apply sorted_strict_NoDup. exact Hs.
    + rewrite Forall_forall in *. intros [k o] Hin.
      apply in_map_iff in Hin. destruct Hin as [[k' v] [E Hin]]. injection E as <- <-.
      destruct (Hf (k', v) Hin) as [A [B0 C]]. unfold gentry. simpl in *. repeat split; try assumption.
      apply (IHm (k', v) Hin). exact C.
Qed.

(* page data of the domain converts to a good object *)
Lemma dom_good d : dom_C12 d = true -> goodb (convert d) = true.
Proof.
  induction d as [| b | z | s | l IHl | m IHm |] using gv_ind2; intros Hdom; try reflexivity; try discriminate.
  - exact Hdom.
  - simpl in *. rewrite forallb_forall in *. intros j Hj. apply in_map_iff in Hj. destruct Hj as [x [<- Hx]].
    rewrite Forall_forall in IHl. apply IHl; auto.
  - simpl convert. apply goodb_map. simpl in Hdom. apply andb_true_iff in Hdom. destruct Hdom as [Hnd Hdom].
    rewrite forallb_forall in Hdom. split.
    + unfold keys. rewrite map_map.
      replace (map (fun x : bytes * gv => fst (let (k, v) := x in (k, convert v))) m) with (map fst m)
        by (apply map_ext; intros [k v]; reflexivity).
      apply nodupb_NoDup. exact Hnd.
    + rewrite Forall_forall in *. intros [k o] Hin.
      apply in_map_iff in Hin. destruct Hin as [[k' v] [E Hin]]. injection E as <- <-.
      specialize (Hdom (k', v) Hin). simpl in Hdom.
      apply andb_true_iff in Hdom. destruct Hdom as [Hdom Hv]. apply andb_true_iff in Hdom. destruct Hdom as [Hk Hu].
      unfold gentry. simpl. repeat split; try assumption. apply (IHm (k', v) Hin). exact Hv.
Qed.

Lemma parse_stringify_good o : goodb o = true ->
  parse (stringify o) = Some (obj_of_jv (marshal o)) /\ goodb (obj_of_jv (marshal o)) = true
  /\ marshal (obj_of_jv (marshal o)) = marshal o.
Proof.
  intros H. assert (Hj := marshal_jgood o H). destruct (jgood_wf _ Hj) as [Hwf Hlf]. repeat split.
  - unfold parse. rewrite (decode_stringify o (good_obj_ok o H)). reflexivity.
  - apply obj_of_jv_good. exact Hj.
  - apply marshal_obj_of_jv; assumption.
Qed.

(* ------------------------------------------------------------------ one mutation: M against S *)

(* f on objects does what g does on trees, and stays inside the invariant *)
Definition commutes (f : obj -> obj) (g : jv -> jv) : Prop :=
  forall o, goodb o = true -> marshal (f o) = g (marshal o) /\ goodb (f o) = true.

Lemma map_insert {A C} (h : A -> C) k x (m : list (bytes * A)) :
  map (fun kv => match kv with (k0, v) => (k0, h v) end) (insert k x m)
  = insert k (h x) (map (fun kv => match kv with (k0, v) => (k0, h v) end) m).
Proof.
  induction m as [|[k' v'] r IH]; simpl; [reflexivity|].
  destruct (beqb k k'); simpl; [reflexivity|]. rewrite IH. reflexivity.
Qed.

Lemma map_removelast {A C} (h : A -> C) l : map h (removelast l) = removelast (map h l).
Proof.
  induction l as [|x r IH]; [reflexivity|]. simpl. destruct r as [|y r]; [reflexivity|].
  simpl in *. rewrite IH. reflexivity.
Qed.

Lemma forallb_removelast {A} (p : A -> bool) l : forallb p l = true -> forallb p (removelast l) = true.
Proof.
  induction l as [|x r IH]; [reflexivity|]. simpl. intros H. apply andb_true_iff in H. destruct H as [H1 H2].
  destruct r as [|y r]; [reflexivity|]. simpl in *. rewrite H1. apply IH. exact H2.
Qed.

Lemma forallb_firstn {A} (p : A -> bool) n l : forallb p l = true -> forallb p (firstn n l) = true.
Proof.
  revert l. induction n as [|n IH]; intros [|x r] H; try reflexivity.
  simpl in *. apply andb_true_iff in H. destruct H as [H1 H2]. rewrite H1. apply IH. exact H2.
Qed.

Lemma Forall_gentry_insert k x m :
  gentry (k, x) -> Forall gentry m -> Forall gentry (insert k x m).
Proof.
  intros Hx Hm. apply Forall_insert; [|exact Hx|exact Hm].
  intros k' v' [A [B0 _]] E. apply beqb_eq in E. subst k'. destruct Hx as [_ [_ C]]. repeat split; assumption.
Qed.

Theorem act_commutes a : act_dom a = true -> commutes (obj_act a) (jv_act a).
Proof.
  intros Hd o Ho. destruct a as [k v | v | v | | | n]; destruct o as [| b | z | s | l | m]; simpl; try (split; [reflexivity|exact Ho]).
  - (* a[k] = v on a map *)
    simpl in Hd. apply andb_true_iff in Hd. destruct Hd as [Hd Hv]. apply andb_true_iff in Hd. destruct Hd as [Hk Hu].
    assert (Hgv := dom_good v Hv).
    destruct (proj1 (goodb_map m) Ho) as [Hnd Hf].
    assert (Hg' : goodb (OMap (insert k (convert v) m)) = true).
    { apply goodb_map. split; [apply NoDup_keys_insert; exact Hnd|].
      apply Forall_gentry_insert; [|exact Hf]. repeat split; assumption. }
    split; [|exact Hg'].
    change (marshal (OMap (insert k (convert v) m)) = JObj (sort_kv (insert k (json_of v) (match marshal (OMap m) with JObj m' => m' | _ => [] end)))).
    rewrite (marshal_good_map _ Hg'), (marshal_good_map m Ho). f_equal.
    unfold marshal_entry. rewrite (map_insert marshal k (convert v) m). rewrite (marshal_convert v Hv).
    symmetry. apply sort_insert. rewrite keys_marshal_entry. exact Hnd.
  - (* push *)
    simpl in Ho. split.
    + rewrite map_app. simpl. rewrite (marshal_convert v Hd). reflexivity.
    + rewrite forallb_app, Ho. simpl. rewrite (dom_good v Hd). reflexivity.
  - (* unshift *)
    simpl in Ho. split.
    + rewrite (marshal_convert v Hd). reflexivity.
    + rewrite (dom_good v Hd), Ho. reflexivity.
  - simpl in Ho. split; [rewrite map_removelast; reflexivity|apply forallb_removelast; exact Ho].
  - simpl in Ho. split; [destruct l; reflexivity|].
    destruct l as [|x r]; [reflexivity|]. simpl in *. apply andb_true_iff in Ho. tauto.
  - simpl in Ho. split; [rewrite firstn_map; reflexivity|apply forallb_firstn; exact Ho].
Qed.

Lemma map_upd_nth {A C} (h : A -> C) (f : A -> A) (g : C -> C) i l :
  Forall (fun x => h (f x) = g (h x)) l -> map h (upd_nth i f l) = upd_nth i g (map h l).
Proof.
  intros H. revert i. induction H as [|x r Hx Hr IH]; intros [|i]; simpl; try reflexivity.
  - rewrite Hx. reflexivity.
  - rewrite IH. reflexivity.
Qed.

Lemma forallb_upd_nth {A} (p : A -> bool) (f : A -> A) i l :
  Forall (fun x => p x = true -> p (f x) = true) l -> forallb p l = true -> forallb p (upd_nth i f l) = true.
Proof.
  intros H. revert i. induction H as [|x r Hx Hr IH]; intros [|i] Hp; simpl in *; try reflexivity;
    apply andb_true_iff in Hp; destruct Hp as [H1 H2].
  - rewrite (Hx H1), H2. reflexivity.
  - rewrite H1. apply IH. exact H2.
Qed.

Lemma map_upd_key {A C} (h : A -> C) (f : A -> A) (g : C -> C) k m :
  Forall (fun kv : bytes * A => h (f (snd kv)) = g (h (snd kv))) m ->
  map (fun kv => match kv with (k0, v) => (k0, h v) end) (upd_key k f m)
  = upd_key k g (map (fun kv => match kv with (k0, v) => (k0, h v) end) m).
Proof.
  induction 1 as [|[k' v'] r Hx Hr IH]; simpl; [reflexivity|].
  destruct (beqb k k'); simpl; [simpl in Hx; rewrite Hx; reflexivity|]. rewrite IH. reflexivity.
Qed.

Lemma Forall_gentry_upd_key k f m :
  Forall (fun kv : bytes * obj => goodb (snd kv) = true -> goodb (f (snd kv)) = true) m ->
  Forall gentry m -> Forall gentry (upd_key k f m).
Proof.
  induction 1 as [|[k' v'] r Hx Hr IH]; intros Hm; simpl; [constructor|].
  inversion Hm as [|? ? Hg Hm']; subst.
  destruct (beqb k k'); constructor; auto.
  destruct Hg as [A [B0 C]]. unfold gentry. simpl in *. repeat split; auto.
Qed.

Theorem at_commutes p : forall f g, commutes f g -> commutes (obj_at p f) (jv_at p g).
Proof.
  induction p as [|[k|i] r IH]; intros f g Hfg; [exact Hfg| |]; intros o Ho.
  - (* through a member *)
    destruct o as [| b | z | s | l | m]; simpl; try (split; [reflexivity|exact Ho]).
    specialize (IH f g Hfg).
    destruct (proj1 (goodb_map m) Ho) as [Hnd Hf].
    assert (Hg' : goodb (OMap (upd_key k (obj_at r f) m)) = true).
    { apply goodb_map. split; [rewrite keys_upd_key; exact Hnd|].
      apply Forall_gentry_upd_key; [|exact Hf]. rewrite Forall_forall. intros kv _ Hkv. apply (IH (snd kv) Hkv). }
    split; [|exact Hg'].
    change (marshal (OMap (upd_key k (obj_at r f) m))
            = match marshal (OMap m) with JObj m' => JObj (upd_key k (jv_at r g) m') | j => j end).
    rewrite (marshal_good_map _ Hg'), (marshal_good_map m Ho). f_equal.
    unfold marshal_entry. rewrite (map_upd_key marshal (obj_at r f) (jv_at r g) k m).
    + apply sort_upd. rewrite keys_marshal_entry. exact Hnd.
    + rewrite Forall_forall in *. intros [k' v'] Hin. simpl. destruct (Hf (k', v') Hin) as [_ [_ C]].
      apply (IH v' C).
  - (* through an element *)
    destruct o as [| b | z | s | l | m]; simpl; try (split; [reflexivity|exact Ho]).
    specialize (IH f g Hfg). simpl in Ho. split.
    + f_equal. apply map_upd_nth. rewrite Forall_forall. intros x Hx.
      rewrite forallb_forall in Ho. apply (IH x (Ho x Hx)).
    + apply forallb_upd_nth; [|exact Ho]. rewrite Forall_forall. intros x _ Hx. apply (IH x Hx).
Qed.

(* a mutation of the domain, applied to a good object: what the text shows is the mutated tree *)
Theorem apply_commutes op : op_dom op = true -> commutes (obj_apply op) (jv_apply op).
Proof. intros H. destruct op as [p a]. apply at_commutes. apply act_commutes. exact H. Qed.

Theorem mutation_commutes op o : op_dom op = true -> goodb o = true ->
  marshal (obj_apply op o) = jv_apply op (marshal o) /\ goodb (obj_apply op o) = true.
Proof. intros Hop Ho. exact (apply_commutes op Hop o Ho). Qed.

(* ------------------------------------------------------------------ the process against value semantics *)

Lemma lookup_nat_upd_var {A} v v' (f : A -> A) e :
  lookup_nat v' (upd_var v f e) = if Nat.eqb v' v then option_map f (lookup_nat v e) else lookup_nat v' e.
Proof.
  induction e as [|[v2 a] r IH]; simpl.
  - destruct (Nat.eqb v' v); reflexivity.
  - destruct (Nat.eqb v v2) eqn:E; simpl.
    + apply Nat.eqb_eq in E. subst v2. destruct (Nat.eqb v' v) eqn:E2; [reflexivity|]. reflexivity.
    + destruct (Nat.eqb v' v2) eqn:E2.
      * apply Nat.eqb_eq in E2. subst v2. destruct (Nat.eqb v' v) eqn:E3; [|reflexivity].
        apply Nat.eqb_eq in E3. subst. rewrite Nat.eqb_refl in E. discriminate.
      * exact IH.
Qed.

Lemma nth_error_upd_nth_same {A} (f : A -> A) a l : nth_error (upd_nth a f l) a = option_map f (nth_error l a).
Proof. revert a. induction l as [|x r IH]; intros [|a]; simpl; try reflexivity. apply IH. Qed.

Lemma nth_error_upd_nth_other {A} (f : A -> A) a a' l : a <> a' -> nth_error (upd_nth a f l) a' = nth_error l a'.
Proof.
  revert a a'. induction l as [|x r IH]; intros [|a] [|a'] H; simpl; try reflexivity; try congruence.
  apply IH. congruence.
Qed.

(* what links the machine's state to the spec's environment *)
Definition var_rel (st : pstate) (senv : list (nat * jv)) (v : nat) : Prop :=
  match lookup_nat v (env st), lookup_nat v senv with
  | Some a, Some j => exists o, nth_error (heap st) a = Some o /\ goodb o = true /\ marshal o = j
  | None, None => True
  | _, _ => False
  end.

Record inv (st : pstate) (senv : list (nat * jv)) : Prop := {
  inv_rel : forall v, var_rel st senv v;
  inv_inj : forall v1 v2 a, lookup_nat v1 (env st) = Some a -> lookup_nat v2 (env st) = Some a -> v1 = v2;
}.

Lemma inv_bound st senv v a : inv st senv -> lookup_nat v (env st) = Some a -> a < length (heap st).
Proof.
  intros [Hr _] Hv. specialize (Hr v). unfold var_rel in Hr. rewrite Hv in Hr.
  destruct (lookup_nat v senv); [|contradiction]. destruct Hr as [o [Hn _]].
  apply nth_error_Some. congruence.
Qed.

(* a new cell for v *)
Lemma inv_bind_new st senv v o j c :
  inv st senv -> goodb o = true -> marshal o = j -> inv (bind_new st v o c) ((v, j) :: senv).
Proof.
  intros Hinv Hg Hm. split.
  - intros v'. unfold var_rel, bind_new. simpl. destruct (Nat.eqb v' v) eqn:E.
    + exists o. split; [|tauto]. rewrite nth_error_app2 by lia. rewrite Nat.sub_diag. reflexivity.
    + assert (Hr := inv_rel _ _ Hinv v'). unfold var_rel in Hr.
      destruct (lookup_nat v' (env st)) as [a|] eqn:Ea; destruct (lookup_nat v' senv) as [j'|]; try exact Hr.
      destruct Hr as [o' [Hn Hrest]]. exists o'. split; [|exact Hrest].
      rewrite nth_error_app1; [exact Hn|]. apply nth_error_Some. congruence.
  - intros v1 v2 a. unfold bind_new. simpl.
    destruct (Nat.eqb v1 v) eqn:E1; destruct (Nat.eqb v2 v) eqn:E2; intros H1 H2.
    + apply Nat.eqb_eq in E1, E2. congruence.
    + injection H1 as <-. assert (Hb := inv_bound _ _ _ _ Hinv H2). lia.
    + injection H2 as <-. assert (Hb := inv_bound _ _ _ _ Hinv H1). lia.
    + eapply inv_inj; eassumption.
Qed.

Definition ojgood (sj : option jv) : Prop := match sj with Some j => jgoodb j = true | None => True end.

(* the machine without a table writes, at every HOut, Go's encoding of the tree the value semantics holds,
   whatever came before: any number of copies, mutations, renders *)
Lemma run_refines cx j0 : goodb cx = true -> marshal cx = j0 ->
  forall steps st senv, steps_dom steps = true -> inv st senv ->
  run_proc false cx steps st = map (option_map encode_go) (spec_run j0 steps senv)
  /\ Forall ojgood (spec_run j0 steps senv).
Proof.
  intros Hcx Hm. induction steps as [|s steps IH]; intros st senv Hd Hinv; [split; [reflexivity|constructor]|].
  simpl in Hd. apply andb_true_iff in Hd. destruct Hd as [Hs Hd].
  destruct s as [v | v u | v op | v]; simpl.
  - apply IH; [exact Hd|]. apply inv_bind_new; assumption.
  - assert (Hr := inv_rel _ _ Hinv u). unfold var_rel in Hr. unfold deref.
    destruct (lookup_nat u (env st)) as [a|] eqn:Ea; destruct (lookup_nat u senv) as [ju|] eqn:Ej; try contradiction.
    + destruct Hr as [o [Hn [Hg Hmo]]]. rewrite Hn.
      destruct (parse_stringify_good o Hg) as [Hp [Hg2 Hm2]]. rewrite Hp.
      apply IH; [exact Hd|]. apply inv_bind_new; [exact Hinv|exact Hg2|congruence].
    + apply IH; assumption.
  - assert (Hr := inv_rel _ _ Hinv v). unfold var_rel in Hr.
    destruct (lookup_nat v (env st)) as [a|] eqn:Ea; destruct (lookup_nat v senv) as [jv0|] eqn:Ej; try contradiction.
    + apply IH; [exact Hd|]. destruct Hr as [o [Hn [Hg Hmo]]].
      destruct (apply_commutes op Hs o Hg) as [Hc Hg'].
      split.
      * intros v'. unfold var_rel. simpl. rewrite lookup_nat_upd_var.
        destruct (Nat.eqb v' v) eqn:E.
        -- apply Nat.eqb_eq in E. subst v'. rewrite Ea, Ej. simpl.
           exists (obj_apply op o). rewrite nth_error_upd_nth_same, Hn. simpl. repeat split; [exact Hg'|congruence].
        -- assert (Hr' := inv_rel _ _ Hinv v'). unfold var_rel in Hr'.
           destruct (lookup_nat v' (env st)) as [a'|] eqn:Ea'; destruct (lookup_nat v' senv) as [j'|]; try exact Hr'.
           destruct Hr' as [o' [Hn' Hrest]]. exists o'. split; [|exact Hrest].
           rewrite nth_error_upd_nth_other; [exact Hn'|]. intros ->.
           assert (v = v') by (eapply inv_inj; eassumption). subst. rewrite Nat.eqb_refl in E. discriminate.
      * simpl. apply (inv_inj _ _ Hinv).
    + apply IH; [exact Hd|]. split; [|apply (inv_inj _ _ Hinv)].
      intros v'. unfold var_rel. rewrite lookup_nat_upd_var. destruct (Nat.eqb v' v) eqn:E.
      * apply Nat.eqb_eq in E. subst v'. rewrite Ea, Ej. exact I.
      * apply (inv_rel _ _ Hinv v').
  - destruct (IH st senv Hd Hinv) as [IH1 IH2]. rewrite IH1.
    assert (Hr := inv_rel _ _ Hinv v). unfold var_rel in Hr. unfold deref.
    destruct (lookup_nat v (env st)) as [a|] eqn:Ea; destruct (lookup_nat v senv) as [jv0|] eqn:Ej; try contradiction.
    + destruct Hr as [o [Hn [Hg Hmo]]]. rewrite Hn. simpl. unfold stringify. rewrite Hmo.
      split; [reflexivity|]. constructor; [|exact IH2]. simpl. rewrite <- Hmo. apply marshal_jgood. exact Hg.
    + split; [reflexivity|]. constructor; [exact I|exact IH2].
Qed.

Lemma inv_st0 : inv st0 [].
Proof. split; [intros v; exact I|intros v1 v2 a H; discriminate]. Qed.

Theorem history_refines d steps : dom_C12 d = true -> steps_dom steps = true ->
  run_data d steps = map (option_map encode_go) (spec_run (json_of d) steps []).
Proof.
  intros Hd Hs. unfold run_data.
  apply (run_refines (convert d) (json_of d) (dom_good d Hd) (marshal_convert d Hd) steps st0 [] Hs inv_st0).
Qed.

(* ... and every text written reads back as that tree and is a JSON text *)
Theorem history_outputs d steps : dom_C12 d = true -> steps_dom steps = true ->
  Forall2 reads_back_as (run_data d steps) (spec_run (json_of d) steps []).
Proof.
  intros Hd Hs. rewrite (history_refines d steps Hd Hs).
  destruct (run_refines (convert d) (json_of d) (dom_good d Hd) (marshal_convert d Hd) steps st0 [] Hs inv_st0) as [_ Hg].
  induction Hg as [|sj r Hx Hr IH]; simpl; constructor; [|exact IH].
  destruct sj as [j|]; simpl; [|exact I].
  split; [apply decode_encode; apply (jgood_wf j Hx)|apply encode_valid_json].
Qed.

(* S alone: a value nothing was done to is the data *)
Definition flag_rel (j0 : jv) (fenv : list (nat * bool)) (senv : list (nat * jv)) : Prop :=
  forall v, match lookup_nat v fenv, lookup_nat v senv with
            | Some b, Some j => b = true -> j = j0
            | None, None => True
            | _, _ => False
            end.

Lemma pristine_is_data j0 : forall steps fenv senv, flag_rel j0 fenv senv ->
  Forall2 (fun (b : bool) sj => b = true -> sj = Some j0) (pristine_run steps fenv) (spec_run j0 steps senv).
Proof.
  induction steps as [|s steps IH]; intros fenv senv Hrel; [constructor|].
  destruct s as [v | v u | v op | v]; simpl.
  - apply IH. intros v'. simpl. destruct (Nat.eqb v' v); [reflexivity|apply Hrel].
  - assert (Hu := Hrel u).
    destruct (lookup_nat u fenv) as [b|]; destruct (lookup_nat u senv) as [ju|]; try contradiction.
    + apply IH. intros v'. simpl. destruct (Nat.eqb v' v); [exact Hu|apply Hrel].
    + apply IH. exact Hrel.
  - apply IH. intros v'. rewrite !lookup_nat_upd_var. destruct (Nat.eqb v' v) eqn:E; [|apply Hrel].
    assert (Hv := Hrel v).
    destruct (lookup_nat v fenv); destruct (lookup_nat v senv); simpl; try contradiction; [discriminate|exact I].
  - constructor; [|apply IH; exact Hrel].
    assert (Hv := Hrel v).
    destruct (lookup_nat v fenv) as [b|]; destruct (lookup_nat v senv) as [j|]; try contradiction.
    + intros Hb. rewrite (Hv Hb). reflexivity.
    + discriminate.
Qed.

(* JSON.parse and JSON.stringify are functions of their argument: whatever the process did before - parsed
   copies assigned into, arrays pushed onto, in this render or an earlier one - the data, and every parse of
   its text, is written as THE text of the data *)
Theorem pristine_text d steps : dom_C12 d = true -> steps_dom steps = true ->
  Forall2 (fun (b : bool) o => b = true -> o = Some (stringify_data d)) (pristine_run steps []) (run_data d steps).
Proof.
  intros Hd Hs. rewrite (history_refines d steps Hd Hs).
  assert (H := pristine_is_data (json_of d) steps [] [] (fun v => I)).
  induction H as [|b sj fl sp Hx Hr IH]; simpl; constructor; [|exact IH].
  intros Hb. rewrite (Hx Hb). simpl. rewrite (stringify_text d Hd). reflexivity.
Qed.

(* ------------------------------------------------------------------ non-vacuity and the design that is ruled out *)

Definition ex_steps : list hstep :=
  [HConv 0; HParse 1 0;
   HMut 1 ([], ASet (B "renderedBy") (GStr (B "widget")));
   HMut 1 ([SKey (B "tags")], APush (GStr (B "seen")));
   HMut 1 ([SKey (B "opts"); SKey (B "ttl")], AUnshift (GInt 5));
   HOut 1; HParse 2 0; HOut 2; HOut 0;
   HConv 3; HParse 4 3; HMut 4 ([SKey (B "tags")], AShift); HOut 4; HParse 5 4; HMut 5 ([SKey (B "tags")], ASplice 0); HOut 5; HOut 4].

Definition ex_hist_data : gv :=
  GMap [(B "tags", GArr [GStr (B "a"); GStr (B "b")]); (B "opts", GMap [(B "ttl", GArr []); (B "debug", GBool false)]); (B "limit", GInt 25)].

Example ex_hist_in_domain :
  dom_C12 ex_hist_data = true /\ steps_dom ex_steps = true /\ steps_fit ex_steps [] (json_of ex_hist_data) = true.
Proof. vm_compute. repeat split. Qed.

Example ex_hist_run :
  run_data ex_hist_data ex_steps =
  [Some (B "{""limit"":25,""opts"":{""debug"":false,""ttl"":[5]},""renderedBy"":""widget"",""tags"":[""a"",""b"",""seen""]}");
   Some (B "{""limit"":25,""opts"":{""debug"":false,""ttl"":[]},""tags"":[""a"",""b""]}");
   Some (B "{""limit"":25,""opts"":{""debug"":false,""ttl"":[]},""tags"":[""a"",""b""]}");
   Some (B "{""limit"":25,""opts"":{""debug"":false,""ttl"":[]},""tags"":[""b""]}");
   Some (B "{""limit"":25,""opts"":{""debug"":false,""ttl"":[]},""tags"":[]}");
   Some (B "{""limit"":25,""opts"":{""debug"":false,""ttl"":[]},""tags"":[""b""]}")]
  /\ pristine_run ex_steps [] = [false; true; true; false; false; false].
Proof. vm_compute. split; reflexivity. Qed.

Lemma ex_hist_inhabited :
  (dom_C12 ex_hist_data = true /\ steps_dom ex_steps = true /\ steps_fit ex_steps [] (json_of ex_hist_data) = true) /\
  pristine_run ex_steps [] = [false; true; true; false; false; false] /\
  nth_error (run_data ex_hist_data ex_steps) 0 =
    Some (Some (B "{""limit"":25,""opts"":{""debug"":false,""ttl"":[5]},""renderedBy"":""widget"",""tags"":[""a"",""b"",""seen""]}")) /\
  nth_error (run_data ex_hist_data ex_steps) 1 = Some (Some (stringify_data ex_hist_data)).
Proof. vm_compute. repeat split. Qed.

(* the same machine with a table text -> object: the second parse hands out the object the first one was
   assigned into.  The theorem above is false of it. *)
Theorem memo_table_refuted :
  exists d steps, dom_C12 d = true /\ steps_dom steps = true /\ steps_fit steps [] (json_of d) = true /\
                  pristine_run steps [] = [true] /\
                  run_data d steps = [Some (stringify_data d)] /\
                  run_memo d steps = [Some (B "{""k"":0}")] /\ stringify_data d = B "{}".
Proof.
  exists (GMap []), [HConv 0; HParse 1 0; HMut 1 ([], ASet (B "k") (GInt 0)); HParse 2 0; HOut 2].
  vm_compute. repeat split.
Qed.
