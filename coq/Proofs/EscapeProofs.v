(* Lemmas about the five-character HTML escaper (Base/Escape.v = pugjs/tpl_funcs.go HTMLEscape). *)
From PV Require Import Base.Bytes Base.Escape.
Local Open Scope char_scope.

(* escaped text: none of the four characters lt gt double-quote apostrophe; an ampersand only as the start
   of one of the five references *)
Definition refs5 : list bytes := [B "&#34;"; B "&#39;"; B "&amp;"; B "&lt;"; B "&gt;"].
Inductive EscText : bytes -> Prop :=
| ET_nil : EscText []
| ET_char c s : is_special c = false -> EscText s -> EscText (c :: s)
| ET_ref r s : In r refs5 -> EscText s -> EscText (r ++ s).

Lemma EscText_app a b : EscText a -> EscText b -> EscText (a ++ b).
Proof.
  induction 1 as [|c s Hc Hs IH|r s Hr Hs IH]; intros Hb; cbn.
  - exact Hb.
  - apply ET_char; auto.
  - rewrite <- app_assoc. apply ET_ref; auto.
Qed.

Lemma esc_char_cases c :
  (is_special c = false /\ esc_char c = [c]) \/ (is_special c = true /\ In (esc_char c) refs5).
Proof.
  unfold esc_char, is_special.
  destruct (Ascii.eqb c """") eqn:E1; [right; split; [reflexivity|cbn; auto]|].
  destruct (Ascii.eqb c "'") eqn:E2; [right; split; [reflexivity|cbn; auto]|].
  destruct (Ascii.eqb c "&") eqn:E3; [right; split; [reflexivity|cbn; auto]|].
  destruct (Ascii.eqb c "<") eqn:E4; [right; split; [reflexivity|cbn; auto 6]|].
  destruct (Ascii.eqb c ">") eqn:E5; [right; split; [reflexivity|cbn; auto 6]|].
  left; split; reflexivity.
Qed.

Lemma escape_EscText s : EscText (escape s).
Proof.
  induction s as [|c s IH]; cbn; [constructor|].
  destruct (esc_char_cases c) as [[Hc ->]|[_ Hin]]; cbn.
  - apply ET_char; assumption.
  - apply ET_ref; assumption.
Qed.

Lemma escape_app a b : escape (a ++ b) = escape a ++ escape b.
Proof. unfold escape. apply flat_map_app. Qed.

(* none of lt gt double-quote apostrophe survives escaping *)
Definition hard_special (c : ascii) : bool :=
  Ascii.eqb c """" || Ascii.eqb c "'" || Ascii.eqb c "<" || Ascii.eqb c ">".

Lemma EscText_no_hard s : EscText s -> forall c, In c s -> hard_special c = false.
Proof.
  induction 1 as [|c s Hc Hs IH|r s Hr Hs IH]; intros x Hx.
  - destruct Hx.
  - destruct Hx as [<-|Hx]; [|auto].
    unfold is_special in Hc. unfold hard_special.
    destruct (Ascii.eqb c """"), (Ascii.eqb c "'"), (Ascii.eqb c "&"), (Ascii.eqb c "<"), (Ascii.eqb c ">");
      cbn in *; congruence.
  - apply in_app_or in Hx. destruct Hx as [Hx|Hx]; [|auto].
    cbn in Hr. repeat (destruct Hr as [<-|Hr]; [cbn in Hx; repeat (destruct Hx as [<-|Hx]; [reflexivity|]); destruct Hx|]).
    destruct Hr.
Qed.

Lemma escape_no_hard s c : In c (escape s) -> hard_special c = false.
Proof. apply EscText_no_hard, escape_EscText. Qed.

(* the reader gets the data back *)
Lemma unesc_skip n a b : length a = n -> unesc n (a ++ b) = unesc 0 b.
Proof.
  revert a; induction n as [|n IH]; intros a Ha.
  - destruct a; [reflexivity|discriminate].
  - destruct a as [|x a]; [discriminate|]. cbn. apply IH. cbn in Ha; congruence.
Qed.

Lemma unesc_quot t : unesc 0 (B "&#34;" ++ t) = """" :: unesc 0 t.  Proof. reflexivity. Qed.
Lemma unesc_apos t : unesc 0 (B "&#39;" ++ t) = "'" :: unesc 0 t.  Proof. reflexivity. Qed.
Lemma unesc_amp t : unesc 0 (B "&amp;" ++ t) = "&" :: unesc 0 t.  Proof. reflexivity. Qed.
Lemma unesc_lt t : unesc 0 (B "&lt;" ++ t) = "<" :: unesc 0 t.  Proof. reflexivity. Qed.
Lemma unesc_gt t : unesc 0 (B "&gt;" ++ t) = ">" :: unesc 0 t.  Proof. reflexivity. Qed.

Lemma unescape_escape s : unescape5 (escape s) = s.
Proof.
  unfold unescape5. induction s as [|c s IH]; [reflexivity|].
  change (escape (c :: s)) with (esc_char c ++ escape s).
  unfold esc_char.
  destruct (Ascii.eqb c """") eqn:E1.
  { apply Ascii.eqb_eq in E1; subst. rewrite unesc_quot, IH. reflexivity. }
  destruct (Ascii.eqb c "'") eqn:E2.
  { apply Ascii.eqb_eq in E2; subst. rewrite unesc_apos, IH. reflexivity. }
  destruct (Ascii.eqb c "&") eqn:E3.
  { apply Ascii.eqb_eq in E3; subst. rewrite unesc_amp, IH. reflexivity. }
  destruct (Ascii.eqb c "<") eqn:E4.
  { apply Ascii.eqb_eq in E4; subst. rewrite unesc_lt, IH. reflexivity. }
  destruct (Ascii.eqb c ">") eqn:E5.
  { apply Ascii.eqb_eq in E5; subst. rewrite unesc_gt, IH. reflexivity. }
  cbn [app unesc]. rewrite E3. rewrite IH. reflexivity.
Qed.

Example escape_example :
  escape (B "<i x=""1"" y='2'>&amp;{{.}}") = B "&lt;i x=&#34;1&#34; y=&#39;2&#39;&gt;&amp;amp;{{.}}".
Proof. vm_compute. reflexivity. Qed.
