(* Coverage: everything the SOURCE tables list (Gen/Sigs.v) is known to the model, or is named here as
   not modelled (the model then answers Unmod / declines, never a wrong value).  Kept apart from
   Proofs/SigsProofs.v: a failure there means the model says something FALSE about the source, a failure
   here means the source has grown something the model does not know yet.  No check depends on this
   file; the full build of setup.sh does. *)
From PV Require Import Base.Bytes Tmpl.Value Tmpl.Runtime Tmpl.Exec Gen.Sigs Proofs.SigsProofs.

(* ---- helpers --------------------------------------------------------------------------------------- *)
(* every function of the source is in the model's table, or is one of the names the model treats outside
   the table (call_ident: null, __freeze), or is listed here as not modelled *)
Definition helpers_special : list bytes := [B "null"; B "__freeze"].
Definition helpers_not_modelled : list bytes :=
  [B "__Range"; B "__range_helper__"; B "__range_helper_keys__";
   B "debug"; B "startsWith"; B "truncate"; B "stripTags"; B "capitalize"; B "trim"; B "escapeHtml";
   B "asset"; B "data"; B "get"; B "tryUrl"; B "url"].
Definition source_names : list bytes :=
  map (fun e => let '(n, _, _) := e in n) tfunc_sigs ++ map fst helper_sigs.

Lemma source_helpers_covered :
  forallb (fun n => match lookup n builtin_sigs with
                    | Some _ => true
                    | None => mem n helpers_special || mem n helpers_not_modelled
                    end) source_names = true.
Proof. vm_compute. reflexivity. Qed.

Lemma not_modelled_not_in_model :
  forallb (fun n => match lookup n builtin_sigs with Some _ => false | None => true end)
          (helpers_special ++ helpers_not_modelled) = true.
Proof. vm_compute. reflexivity. Qed.

(* ---- modules --------------------------------------------------------------------------------------- *)
Definition module_methods_not_modelled : list (bytes * bytes) := [(B "JSON", B "parse")].

Lemma module_methods_covered :
  forallb (fun m =>
    forallb (fun e => match mod_sig m (fst e) with
                      | Some _ => true
                      | None => existsb (fun x => beqb (fst x) m && beqb (snd x) (fst e)) module_methods_not_modelled
                      end) (module_methods_of m)) module_names = true.
Proof. vm_compute. reflexivity. Qed.

(* the template functions that return a module value are exactly the three the model knows *)
Lemma modules_covered :
  forallb (fun e => let '(n, _, g) := e in
                    match g with
                    | ([], false, [_]) => mem n module_names
                    | _ => true
                    end) tfunc_sigs = true.
Proof. vm_compute. reflexivity. Qed.

(* ---- methods --------------------------------------------------------------------------------------- *)
Lemma array_methods_covered :
  forallb (fun e => match array_sig (fst e) with Some _ => true | None => false end)
          (methods_of (B "*Array")) = true.
Proof. vm_compute. reflexivity. Qed.

Definition string_methods_not_modelled : list bytes := [B "replace"].   (* eval_field: Unmod *)

Lemma string_methods_covered :
  forallb (fun e => match string_sig (fst e) with
                    | Some _ => true
                    | None => mem (fst e) string_methods_not_modelled
                    end) (methods_of (B "String")) = true.
Proof. vm_compute. reflexivity. Qed.

(* a map dispatches the one name __assign; numbers, booleans, nil and functions dispatch nothing *)
Lemma map_methods_covered :
  match methods_of (B "*Map") with
  | [(n, _)] => beqb n (B "__assign")
  | _ => false
  end = true.
Proof. vm_compute. reflexivity. Qed.

Lemma only_array_string_map_dispatch :
  forallb (fun e => let '(r, _, _, _) := e in mem r [B "*Array"; B "String"; B "*Map"]) method_sigs = true.
Proof. vm_compute. reflexivity. Qed.
