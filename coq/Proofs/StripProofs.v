(* C14 proofs: stripTags (Models/Strip.v). *)
From PV Require Import Base.Bytes Gen.Tables Models.Strip.
Local Open Scope char_scope.

(* ------------------------------------------------------------------ *)
(* induction over node trees (children are a nested list)               *)

Section hnode_induction.
  Variable P : hnode -> Prop.
  Hypothesis HE : forall n a k, Forall P k -> P (HElem n a k).
  Hypothesis HT : forall s, P (HText s).
  Hypothesis HC : forall s, P (HComment s).
  Hypothesis HD : forall s, P (HDoctype s).
  Hypothesis HO : P HOther.

  Fixpoint hnode_ind2 (n : hnode) : P n :=
    match n with
    | HElem nm a k =>
      HE nm a k ((fix go (l : list hnode) : Forall P l :=
                    match l with
                    | [] => Forall_nil P
                    | x :: r => Forall_cons x (hnode_ind2 x) (go r)
                    end) k)
    | HText s => HT s
    | HComment s => HC s
    | HDoctype s => HD s
    | HOther => HO
    end.
End hnode_induction.

Lemma clean_elem allow name attrs kids :
  clean allow (HElem name attrs kids) =
  match find_tag allow name with
  | Some aa =>
    "<" :: name ++ allowed_attrs aa attrs
        ++ (if void name then [" "; "/"] else []) ++ ">" :: flat_map (clean allow) kids
        ++ (if void name then [] else "<" :: "/" :: name ++ [">"])
  | None => flat_map (clean allow) kids
  end.
Proof. reflexivity. Qed.

(* ------------------------------------------------------------------ *)
(* small list facts                                                     *)

Lemma flat_map_flat_map {A B C} (f : B -> list C) (g : A -> list B) l :
  flat_map f (flat_map g l) = flat_map (fun x => flat_map f (g x)) l.
Proof.
  induction l as [|x r IH]; simpl; [reflexivity|].
  rewrite flat_map_app, IH; reflexivity.
Qed.

Lemma flat_map_ext_Forall {A B} (f g : A -> list B) l :
  Forall (fun x => f x = g x) l -> flat_map f l = flat_map g l.
Proof. induction 1 as [|x r Hx _ IH]; simpl; [reflexivity|rewrite Hx, IH; reflexivity]. Qed.

(* a character that does not occur in a cannot be split inside a *)
Lemma split_notin (c : ascii) a : forall b pre post,
  ~ In c a -> a ++ b = pre ++ c :: post ->
  exists pre', pre = a ++ pre' /\ b = pre' ++ c :: post.
Proof.
  induction a as [|x a IH]; simpl; intros b pre post Hn He.
  - exists pre; split; [reflexivity|exact He].
  - destruct pre as [|y pre]; simpl in He; inversion He; subst.
    + exfalso; apply Hn; left; reflexivity.
    + destruct (IH b pre post) as [pre' [Hp1 Hp2]]; [intros Hi; apply Hn; right; exact Hi|assumption|].
      exists pre'; subst; split; reflexivity.
Qed.

Lemma prefixb_skipn p s : prefixb p s = true -> s = p ++ skipn (length p) s.
Proof.
  intros H; apply prefixb_spec in H; destruct H as [r ->].
  rewrite skipn_app, skipn_all, Nat.sub_diag; simpl; reflexivity.
Qed.

(* ------------------------------------------------------------------ *)
(* esc6 = html.EscapeString                                             *)

Ltac eqb_cases c :=
  repeat match goal with
         | |- context [Ascii.eqb c ?x] =>
           destruct (Ascii.eqb_spec c x); [subst c|]
         end.

(* either the character is kept (and was harmless), or it becomes one of the six references *)
Lemma esc_char_cases c :
  (esc_char c = [c] /\ plain c = true /\ c <> "013") \/
  (In (esc_char c) refs /\ (plain c = false \/ c = "013")).
Proof.
  unfold esc_char, plain.
  destruct (Ascii.eqb_spec c "&"); [subst; right; split; [simpl; auto|left; reflexivity]|].
  destruct (Ascii.eqb_spec c "'"); [subst; right; split; [simpl; auto|left; reflexivity]|].
  destruct (Ascii.eqb_spec c "<"); [subst; right; split; [simpl; auto|left; reflexivity]|].
  destruct (Ascii.eqb_spec c ">"); [subst; right; split; [simpl; auto|left; reflexivity]|].
  destruct (Ascii.eqb_spec c """"); [subst; right; split; [simpl; auto 6|left; reflexivity]|].
  destruct (Ascii.eqb_spec c "013"); [subst; right; split; [simpl; auto 7|right; reflexivity]|].
  left; split; [reflexivity|split; [reflexivity|assumption]].
Qed.

Lemma esc6_app a b : esc6 (a ++ b) = esc6 a ++ esc6 b.
Proof. apply flat_map_app. Qed.

Lemma esc6_EscText s : EscText (esc6 s).
Proof.
  induction s as [|c s IH]; simpl; [constructor|].
  destruct (esc_char_cases c) as [[E [Hp _]]|[Hr _]].
  - rewrite E; simpl; constructor; assumption.
  - apply ET_ref; assumption.
Qed.

(* characters that are live in HTML text or in a double-quoted attribute value, and CR *)
Definition inert (c : ascii) : bool :=
  negb (Ascii.eqb c "<" || Ascii.eqb c ">" || Ascii.eqb c """" || Ascii.eqb c "'" ||
        Ascii.eqb c "013").

Lemma refs_inert r : In r refs -> forallb inert r = true.
Proof.
  simpl; intros H.
  repeat (destruct H as [<-|H]; [reflexivity|]). destruct H.
Qed.

Lemma esc6_inert s : forallb inert (esc6 s) = true.
Proof.
  induction s as [|c s IH]; simpl; [reflexivity|].
  rewrite forallb_app, IH, andb_true_r.
  destruct (esc_char_cases c) as [[E [Hp Hc]]|[Hr _]].
  - rewrite E; simpl; rewrite andb_true_r.
    unfold plain in Hp; unfold inert.
    destruct (Ascii.eqb_spec c "013"); [contradiction|].
    destruct (Ascii.eqb c "&"), (Ascii.eqb c "<"), (Ascii.eqb c ">"), (Ascii.eqb c """"),
      (Ascii.eqb c "'"); simpl in *; congruence.
  - apply refs_inert; exact Hr.
Qed.

Lemma esc6_no_special s c :
  In c (esc6 s) -> c <> "<" /\ c <> ">" /\ c <> """" /\ c <> "'" /\ c <> "013".
Proof.
  intros Hin.
  pose proof (proj1 (forallb_forall inert (esc6 s)) (esc6_inert s) c Hin) as H.
  unfold inert in H.
  repeat split; intros ->; discriminate H.
Qed.

Lemma EscText_inert_lt s : EscText s -> ~ In "<" s /\ ~ In ">" s /\ ~ In """" s /\ ~ In "'" s.
Proof.
  induction 1 as [|c s Hp _ IH|r s Hr _ IH].
  - repeat split; intros [].
  - destruct IH as [I1 [I2 [I3 I4]]].
    unfold plain in Hp.
    repeat split; intros [->|Hi]; try discriminate Hp; auto.
  - destruct IH as [I1 [I2 [I3 I4]]].
    pose proof (proj1 (forallb_forall inert r) (refs_inert r Hr)) as Hf.
    repeat split; intros Hi; apply in_app_or in Hi; destruct Hi as [Hi|Hi]; auto;
      apply Hf in Hi; discriminate Hi.
Qed.

(* unescaping undoes escaping *)
Lemma prefixb_amp_plain p c r : c <> "&" -> prefixb ("&" :: p) (c :: r) = false.
Proof. intros Hc; cbn [prefixb]; destruct (Ascii.eqb_spec "&" c); congruence. Qed.

Lemma decode_ref_plain c r : c <> "&" -> decode_ref (c :: r) = None.
Proof.
  intros Hc. unfold decode_ref, ref_table, B. cbn [find fst list_ascii_of_string].
  rewrite !prefixb_amp_plain by assumption. reflexivity.
Qed.

Lemma unesc_esc_char c rest : unesc_go 0 (esc_char c ++ rest) = c :: unesc_go 0 rest.
Proof.
  unfold esc_char.
  destruct (Ascii.eqb_spec c "&"); [subst; reflexivity|].
  destruct (Ascii.eqb_spec c "'"); [subst; reflexivity|].
  destruct (Ascii.eqb_spec c "<"); [subst; reflexivity|].
  destruct (Ascii.eqb_spec c ">"); [subst; reflexivity|].
  destruct (Ascii.eqb_spec c """"); [subst; reflexivity|].
  destruct (Ascii.eqb_spec c "013"); [subst; reflexivity|].
  change ([c] ++ rest) with (c :: rest); cbn [unesc_go].
  rewrite decode_ref_plain by assumption. reflexivity.
Qed.

Lemma unesc6_esc6 s : unesc6 (esc6 s) = s.
Proof.
  unfold unesc6; induction s as [|c s IH]; simpl; [reflexivity|].
  rewrite unesc_esc_char, IH; reflexivity.
Qed.

(* ------------------------------------------------------------------ *)
(* allow-list facts                                                     *)

Lemma find_tag_allowed allow n : find_tag allow n = allowed_b allow n.
Proof.
  unfold find_tag, allowed_b; destruct n; destruct (lookup _ allow); reflexivity.
Qed.

Lemma allow_ok_lookup allow n aa :
  allow_ok allow = true -> lookup n allow = Some aa ->
  elem_name_ok n = true /\ forallb attr_name_ok aa = true.
Proof.
  unfold allow_ok; induction allow as [|[k v] r IH]; simpl; intros Hok Hl; [discriminate|].
  apply andb_true_iff in Hok; destruct Hok as [Hkv Hr].
  destruct (beqb n k) eqn:E.
  - apply beqb_eq in E; subst k; inversion Hl; subst v.
    apply andb_true_iff in Hkv; exact Hkv.
  - apply IH; assumption.
Qed.

Lemma allow_ok_allowed allow n aa :
  allow_ok allow = true -> allowed_b allow n = Some aa ->
  elem_name_ok n = true /\ (forall k, In k aa -> attr_name_ok k = true).
Proof.
  intros Hok Ha. unfold allowed_b in Ha. destruct n as [|c n]; [discriminate|].
  destruct (allow_ok_lookup _ _ _ Hok Ha) as [H1 H2].
  split; [exact H1|]. apply forallb_forall; exact H2.
Qed.

(* ------------------------------------------------------------------ *)
(* C14_safe                                                             *)

Lemma SafeDoc_app allow a b : SafeDoc allow a -> SafeDoc allow b -> SafeDoc allow (a ++ b).
Proof.
  induction 1 as [|t s Ht _ IH|n aa av sc s Hn Hok Hav _ IH|n aa s Hn Hok _ IH]; intros Hb.
  - exact Hb.
  - rewrite <- app_assoc; constructor; auto.
  - replace (("<" :: n ++ av ++ (if sc then [" "; "/"] else []) ++ ">" :: s) ++ b)
      with ("<" :: n ++ av ++ (if sc then [" "; "/"] else []) ++ ">" :: (s ++ b)).
    + econstructor; eauto.
    + simpl; rewrite <- !app_assoc; simpl; reflexivity.
  - replace (("<" :: "/" :: n ++ ">" :: s) ++ b) with ("<" :: "/" :: n ++ ">" :: (s ++ b)).
    + econstructor; eauto.
    + simpl; rewrite <- !app_assoc; simpl; reflexivity.
Qed.

Lemma SafeDoc_esc allow t : EscText t -> SafeDoc allow t.
Proof. intros H; rewrite <- (app_nil_r t); constructor; [exact H|constructor]. Qed.

Lemma attr_out_eq aa k v :
  attr_out aa (k, v) =
  if mem k aa then
    match v with
    | [] => " " :: k
    | _ :: _ => " " :: k ++ "=" :: """" :: esc6 v ++ [""""]
    end
  else [].
Proof. reflexivity. Qed.

Lemma val_assoc (k v rest : bytes) :
  (" " :: k ++ "=" :: """" :: v ++ [""""]) ++ rest = " " :: k ++ "=" :: """" :: v ++ """" :: rest.
Proof. simpl; rewrite <- !app_assoc; simpl; rewrite <- !app_assoc; reflexivity. Qed.

Lemma allowed_attrs_safe aa attrs :
  (forall k, In k aa -> attr_name_ok k = true) -> SafeAttrs aa (allowed_attrs aa attrs).
Proof.
  intros Hk; unfold allowed_attrs; induction attrs as [|[k v] r IH]; [constructor|].
  cbn [flat_map]; rewrite attr_out_eq.
  destruct (mem k aa) eqn:Em; [|exact IH].
  apply mem_In in Em.
  destruct v as [|c v].
  - apply (SA_bare aa k); auto.
  - rewrite val_assoc. apply SA_val; auto. apply esc6_EscText.
Qed.

Lemma clean_safe allow : allow_ok allow = true -> forall n, SafeDoc allow (clean allow n).
Proof.
  intros Hok n; induction n as [name attrs kids IH|s|s|s|] using hnode_ind2;
    try (simpl; constructor).
  - rewrite clean_elem.
    assert (Hbody : SafeDoc allow (flat_map (clean allow) kids)).
    { induction IH as [|x r Hx _ IHr]; simpl; [constructor|apply SafeDoc_app; assumption]. }
    destruct (find_tag allow name) as [aa|] eqn:Ef; [|exact Hbody].
    rewrite find_tag_allowed in Ef.
    destruct (allow_ok_allowed _ _ _ Hok Ef) as [Hn Hk].
    apply (SD_start allow name aa (allowed_attrs aa attrs) (void name)); auto.
    + apply allowed_attrs_safe; exact Hk.
    + apply SafeDoc_app; [exact Hbody|].
      destruct (void name); [constructor|].
      apply (SD_end allow name aa []); auto. constructor.
  - simpl. apply SafeDoc_esc, esc6_EscText.
Qed.

Theorem strip_safe allow forest :
  allow_ok allow = true -> SafeDoc allow (strip allow forest).
Proof.
  intros Hok; unfold strip; induction forest as [|n r IH]; simpl; [constructor|].
  apply SafeDoc_app; [apply clean_safe; exact Hok|exact IH].
Qed.

(* ------------------------------------------------------------------ *)
(* C14_empty_no_lt                                                      *)

Lemma clean_nil_no_lt n : ~ In "<" (clean [] n).
Proof.
  induction n as [name attrs kids IH|s|s|s|] using hnode_ind2; try (simpl; intros []).
  - rewrite clean_elem. change (find_tag [] name) with (@None (list bytes)).
    intros Hin. apply in_flat_map in Hin. destruct Hin as [x [Hx Hin]].
    rewrite Forall_forall in IH. exact (IH x Hx Hin).
  - simpl. intros Hin. apply esc6_no_special in Hin. destruct Hin as [H _]. congruence.
Qed.

Theorem strip_nil_no_lt forest : ~ In "<" (strip [] forest).
Proof.
  unfold strip; intros Hin. apply in_flat_map in Hin. destruct Hin as [x [_ Hin]].
  exact (clean_nil_no_lt x Hin).
Qed.

(* ------------------------------------------------------------------ *)
(* C14_no_comment_decl                                                  *)

Lemma prune_elem name attrs kids :
  prune (HElem name attrs kids) = [HElem name attrs (flat_map prune kids)].
Proof. reflexivity. Qed.

Lemma clean_prune allow n : flat_map (clean allow) (prune n) = clean allow n.
Proof.
  induction n as [name attrs kids IH|s|s|s|] using hnode_ind2; try reflexivity.
  - rewrite prune_elem. cbn [flat_map]. rewrite app_nil_r, !clean_elem.
    rewrite flat_map_flat_map.
    rewrite (flat_map_ext_Forall _ (clean allow) kids IH). reflexivity.
  - simpl. apply app_nil_r.
Qed.

Theorem strip_prune allow forest :
  strip allow forest = strip allow (flat_map prune forest).
Proof.
  unfold strip. rewrite flat_map_flat_map. symmetry.
  apply flat_map_ext_Forall. apply Forall_forall. intros x _. apply clean_prune.
Qed.

Lemma forallb_flat_map {A B} (p : B -> bool) (g : A -> list B) l :
  Forall (fun x => forallb p (g x) = true) l -> forallb p (flat_map g l) = true.
Proof.
  induction 1 as [|x r Hx _ IH]; simpl; [reflexivity|].
  rewrite forallb_app, Hx, IH; reflexivity.
Qed.

Lemma prune_has_no_decl n : forallb has_no_decl (prune n) = true.
Proof.
  induction n as [name attrs kids IH|s|s|s|] using hnode_ind2; try reflexivity.
  rewrite prune_elem. cbn [forallb has_no_decl]. rewrite andb_true_r.
  change ((fix has_no_decl (n : hnode) : bool :=
             match n with
             | HElem _ _ kids => forallb has_no_decl kids
             | HText _ => true
             | _ => false
             end)) with has_no_decl.
  apply forallb_flat_map; exact IH.
Qed.

Theorem pruned_has_no_decl forest : forallb has_no_decl (flat_map prune forest) = true.
Proof.
  apply forallb_flat_map, Forall_forall. intros x _. apply prune_has_no_decl.
Qed.

(* ------------------------------------------------------------------ *)
(* characters that cannot occur inside a tag or a text chunk            *)

Definition nochar (c : ascii) (s : bytes) : bool := forallb (fun x => negb (Ascii.eqb x c)) s.

Lemma nochar_In c s : nochar c s = true <-> ~ In c s.
Proof.
  unfold nochar; induction s as [|x s IH]; simpl.
  - split; [intros _ []|reflexivity].
  - rewrite andb_true_iff, IH. destruct (Ascii.eqb_spec x c); simpl; split.
    + intros [H _]; discriminate.
    + intros H; exfalso; apply H; left; assumption.
    + intros [_ H] [E|Hi]; [contradiction|exact (H Hi)].
    + intros H; split; [reflexivity|intros Hi; apply H; right; exact Hi].
Qed.

Lemma nochar_app c a b : nochar c (a ++ b) = nochar c a && nochar c b.
Proof. apply forallb_app. Qed.

Lemma name_ok_nochar k c :
  forallb name_char_ok k = true -> name_char_ok c = false -> nochar c k = true.
Proof.
  intros Hk Hc; unfold nochar; induction k as [|x k IH]; simpl in *; [reflexivity|].
  apply andb_true_iff in Hk; destruct Hk as [Hx Hk].
  rewrite (IH Hk), andb_true_r.
  destruct (Ascii.eqb_spec x c); [subst; congruence|reflexivity].
Qed.

Lemma attr_name_nochar k c : attr_name_ok k = true -> name_char_ok c = false -> nochar c k = true.
Proof. destruct k; [discriminate|]; apply name_ok_nochar. Qed.

Lemma elem_name_nochar n c : elem_name_ok n = true -> name_char_ok c = false -> nochar c n = true.
Proof.
  destruct n as [|x n]; [discriminate|]; unfold elem_name_ok.
  intros H; apply andb_true_iff in H; destruct H as [_ H]; apply name_ok_nochar; exact H.
Qed.

Lemma EscText_nochar v : EscText v -> nochar "<" v = true /\ nochar ">" v = true.
Proof.
  intros H; destruct (EscText_inert_lt v H) as [H1 [H2 _]].
  split; apply nochar_In; assumption.
Qed.

Lemma SafeAttrs_nochar aa av :
  SafeAttrs aa av -> nochar "<" av = true /\ nochar ">" av = true.
Proof.
  induction 1 as [|k r Hin Hk _ [I1 I2]|k v r Hin Hk Hv _ [I1 I2]].
  - split; reflexivity.
  - change (" " :: k ++ r) with ([" "] ++ k ++ r).
    rewrite !nochar_app, I1, I2, !(attr_name_nochar k) by (exact Hk || reflexivity).
    split; reflexivity.
  - destruct (EscText_nochar v Hv) as [V1 V2].
    change (" " :: k ++ "=" :: """" :: v ++ """" :: r)
      with ([" "] ++ k ++ ["="; """"] ++ v ++ [""""] ++ r).
    rewrite !nochar_app, I1, I2, V1, V2, !(attr_name_nochar k) by (exact Hk || reflexivity).
    split; reflexivity.
Qed.

(* ------------------------------------------------------------------ *)
(* reading SafeDoc: every "<" opens a start or end tag of an allowed,    *)
(* well-formed element name                                              *)

Theorem SafeDoc_lt allow s : SafeDoc allow s -> forall pre post, s = pre ++ "<" :: post ->
  exists n aa post', allowed_b allow n = Some aa /\ elem_name_ok n = true /\
    (post = n ++ " " :: post' \/ post = n ++ ">" :: post' \/ post = "/" :: n ++ ">" :: post').
Proof.
  induction 1 as [|t s Ht _ IH|n aa av sc s Hn Hok Hav _ IH|n aa s Hn Hok _ IH]; intros pre post He.
  - destruct pre; discriminate.
  - destruct (EscText_nochar t Ht) as [Hlt _]. apply nochar_In in Hlt.
    destruct (split_notin _ _ _ _ _ Hlt He) as [pre' [_ Hs]].
    exact (IH pre' post Hs).
  - destruct pre as [|c pre]; simpl in He;
      [injection He as Hr; symmetry in Hr|injection He as Hc Hr].
    + subst post. exists n, aa.
      destruct Hav as [|k r Hin Hk Hr'|k v r Hin Hk Hv Hr'].
      * destruct sc.
        -- exists ("/" :: ">" :: s). split; [exact Hn|split; [exact Hok|left; reflexivity]].
        -- exists s. split; [exact Hn|split; [exact Hok|right; left; reflexivity]].
      * exists ((k ++ r) ++ (if sc then [" "; "/"] else []) ++ ">" :: s).
        split; [exact Hn|split; [exact Hok|left; reflexivity]].
      * exists ((k ++ "=" :: """" :: v ++ """" :: r) ++ (if sc then [" "; "/"] else []) ++ ">" :: s).
        split; [exact Hn|split; [exact Hok|left; reflexivity]].
    + destruct (SafeAttrs_nochar aa av Hav) as [A1 _].
      assert (Hno : ~ In "<" (n ++ av ++ (if sc then [" "; "/"] else []) ++ [">"])).
      { apply nochar_In. rewrite !nochar_app, A1, (elem_name_nochar n) by (exact Hok || reflexivity).
        destruct sc; reflexivity. }
      assert (Hr2 : (n ++ av ++ (if sc then [" "; "/"] else []) ++ [">"]) ++ s = pre ++ "<" :: post).
      { rewrite <- Hr. rewrite <- !app_assoc. reflexivity. }
      destruct (split_notin _ _ _ _ _ Hno Hr2) as [pre' [_ Hs]].
      exact (IH pre' post Hs).
  - destruct pre as [|c pre]; simpl in He;
      [injection He as Hr; symmetry in Hr|injection He as Hc Hr].
    + subst post. exists n, aa, s. split; [exact Hn|split; [exact Hok|right; right; reflexivity]].
    + assert (Hno : ~ In "<" ("/" :: n ++ [">"])).
      { apply nochar_In. change ("/" :: n ++ [">"]) with (["/"] ++ n ++ [">"]).
        rewrite !nochar_app, (elem_name_nochar n) by (exact Hok || reflexivity). reflexivity. }
      assert (Hr2 : ("/" :: n ++ [">"]) ++ s = pre ++ "<" :: post).
      { rewrite <- Hr. simpl. rewrite <- !app_assoc. reflexivity. }
      destruct (split_notin _ _ _ _ _ Hno Hr2) as [pre' [_ Hs]].
      exact (IH pre' post Hs).
Qed.

(* so the output never opens a comment, a declaration, CDATA or a processing instruction *)
Theorem SafeDoc_lt_letter allow s : SafeDoc allow s -> forall pre c post,
  s = pre ++ "<" :: c :: post ->
  is_letter c = true \/ (c = "/" /\ exists c' post', post = c' :: post' /\ is_letter c' = true).
Proof.
  intros Hs pre c post He.
  destruct (SafeDoc_lt allow s Hs pre (c :: post) He) as [n [aa [post' [_ [Hok H]]]]].
  destruct n as [|x n]; [discriminate|].
  unfold elem_name_ok in Hok. apply andb_true_iff in Hok. destruct Hok as [Hl _].
  destruct H as [H|[H|H]]; simpl in H; inversion H; subst.
  - left; exact Hl.
  - left; exact Hl.
  - right; split; [reflexivity|]. eauto.
Qed.

(* ------------------------------------------------------------------ *)
(* C14_text_escaped: between the tags stands exactly the escaped text    *)
(* of the forest, in document order                                      *)

Lemma drop_tags_text a b : nochar "<" a = true -> drop_tags false (a ++ b) = a ++ drop_tags false b.
Proof.
  unfold nochar; induction a as [|c a IH]; intros H; [reflexivity|].
  cbn [forallb] in H. apply andb_true_iff in H. destruct H as [Hc Ha].
  cbn [app drop_tags]. destruct (Ascii.eqb c "<"); [discriminate|].
  rewrite (IH Ha). reflexivity.
Qed.

Lemma drop_tags_in_tag a b : nochar ">" a = true -> drop_tags true (a ++ ">" :: b) = drop_tags false b.
Proof.
  unfold nochar; induction a as [|c a IH]; intros H; [reflexivity|].
  cbn [forallb] in H. apply andb_true_iff in H. destruct H as [Hc Ha].
  cbn [app drop_tags]. destruct (Ascii.eqb c ">"); [discriminate|].
  exact (IH Ha).
Qed.

Lemma drop_tags_tag a b :
  nochar ">" a = true -> drop_tags false ("<" :: a ++ ">" :: b) = drop_tags false b.
Proof. intros H. cbn [drop_tags]. change (Ascii.eqb "<" "<") with true. cbv iota. apply drop_tags_in_tag, H. Qed.

Lemma esc6_nochar_lt s : nochar "<" (esc6 s) = true.
Proof. apply nochar_In. intros Hin. apply esc6_no_special in Hin. destruct Hin as [H _]; congruence. Qed.

Lemma text_of_elem name attrs kids : text_of (HElem name attrs kids) = flat_map text_of kids.
Proof. reflexivity. Qed.

Lemma clean_text allow : allow_ok allow = true -> forall n rest,
  drop_tags false (clean allow n ++ rest) = esc6 (text_of n) ++ drop_tags false rest.
Proof.
  intros Hok n; induction n as [name attrs kids IH|s|s|s|] using hnode_ind2; intros rest;
    try reflexivity.
  - assert (Hkids : forall rest, drop_tags false (flat_map (clean allow) kids ++ rest) =
                                 esc6 (flat_map text_of kids) ++ drop_tags false rest).
    { induction IH as [|x r Hx _ IHr]; intros rest'; [reflexivity|].
      cbn [flat_map]. rewrite <- app_assoc, Hx, IHr, esc6_app, app_assoc. reflexivity. }
    rewrite clean_elem, text_of_elem.
    destruct (find_tag allow name) as [aa|] eqn:Ef; [|apply Hkids].
    rewrite find_tag_allowed in Ef.
    destruct (allow_ok_allowed _ _ _ Hok Ef) as [Hn Hk].
    destruct (SafeAttrs_nochar aa _ (allowed_attrs_safe aa attrs Hk)) as [_ A2].
    set (sc := if void name then [" "; "/"] else []).
    set (et := if void name then [] else "<" :: "/" :: name ++ [">"]).
    replace (("<" :: name ++ allowed_attrs aa attrs ++ sc ++ ">" :: flat_map (clean allow) kids ++ et) ++ rest)
      with ("<" :: (name ++ allowed_attrs aa attrs ++ sc) ++ ">" :: flat_map (clean allow) kids ++ (et ++ rest))
      by (simpl; rewrite <- !app_assoc; simpl; rewrite <- !app_assoc; reflexivity).
    rewrite drop_tags_tag.
    + rewrite Hkids. f_equal. unfold et. destruct (void name); [reflexivity|].
      replace (("<" :: "/" :: name ++ [">"]) ++ rest) with ("<" :: ("/" :: name) ++ ">" :: rest)
        by (simpl; rewrite <- app_assoc; reflexivity).
      apply drop_tags_tag. change ("/" :: name) with (["/"] ++ name).
      rewrite nochar_app, (elem_name_nochar name) by (exact Hn || reflexivity). reflexivity.
    + rewrite !nochar_app, A2, (elem_name_nochar name) by (exact Hn || reflexivity).
      unfold sc; destruct (void name); reflexivity.
  - cbn [clean text_of]. apply drop_tags_text, esc6_nochar_lt.
Qed.

Theorem strip_text allow forest : allow_ok allow = true ->
  drop_tags false (strip allow forest) = esc6 (flat_map text_of forest).
Proof.
  intros Hok. unfold strip.
  rewrite <- (app_nil_r (flat_map (clean allow) forest)).
  rewrite <- (app_nil_r (esc6 (flat_map text_of forest))).
  change (@nil ascii) with (drop_tags false []) at 2.
  generalize (@nil ascii) as rest.
  induction forest as [|n r IH]; intros rest; [reflexivity|].
  cbn [flat_map]. rewrite <- app_assoc, (clean_text allow Hok), IH, esc6_app, app_assoc. reflexivity.
Qed.

Theorem strip_text_unescaped allow forest : allow_ok allow = true ->
  unesc6 (drop_tags false (strip allow forest)) = flat_map text_of forest.
Proof. intros Hok. rewrite (strip_text allow forest Hok). apply unesc6_esc6. Qed.

(* ------------------------------------------------------------------ *)
(* the executable checker is sound for SafeDoc                           *)

Lemma span_app p s : fst (span p s) ++ snd (span p s) = s.
Proof.
  induction s as [|c s IH]; [reflexivity|]. cbn [span].
  destruct (p c); cbn [fst snd app]; [rewrite IH|]; reflexivity.
Qed.

Lemma span_len p s : length (snd (span p s)) <= length s.
Proof.
  induction s as [|c s IH]; [apply le_n|]. cbn [span].
  destruct (p c); cbn [snd length]; lia.
Qed.

Lemma span_snd_head p s c r : snd (span p s) = c :: r -> p c = false.
Proof.
  induction s as [|x s IH]; cbn [span]; [discriminate|].
  destruct (p x) eqn:E; cbn [snd]; [exact IH|].
  intros H; inversion H; subst; exact E.
Qed.

Lemma refs_shape r : In r refs -> exists t, r = "&" :: t /\ forallb plain t = true.
Proof.
  simpl; intros H.
  repeat (destruct H as [<-|H]; [eexists; split; [reflexivity|reflexivity]|]). destruct H.
Qed.

Lemma EscText_inv_plain c s : plain c = true -> EscText (c :: s) -> EscText s.
Proof.
  intros Hp H; inversion H as [|c' s' Hc Hs|r s' Hr Hs He]; subst; [assumption|].
  destruct (refs_shape r Hr) as [t [-> _]].
  simpl in He; inversion He; subst. discriminate Hp.
Qed.

Lemma EscText_drop_plain t s : forallb plain t = true -> EscText (t ++ s) -> EscText s.
Proof.
  induction t as [|c t IH]; simpl; intros Hp H; [exact H|].
  apply andb_true_iff in Hp; destruct Hp as [Hc Ht].
  apply IH; [exact Ht|]. exact (EscText_inv_plain c _ Hc H).
Qed.

Lemma esc_text_b_sound s : esc_text_b s = true -> EscText s.
Proof.
  induction s as [|c r IH]; [constructor|].
  cbn [esc_text_b]. intros H. apply andb_true_iff in H. destruct H as [Hc Hr].
  specialize (IH Hr).
  destruct (plain c) eqn:Ep; [constructor; assumption|].
  simpl in Hc. apply andb_true_iff in Hc. destruct Hc as [_ Hat].
  unfold ref_at in Hat. apply existsb_exists in Hat. destruct Hat as [ref [Hin Hpre]].
  apply prefixb_spec in Hpre. destruct Hpre as [rest Hrest].
  destruct (refs_shape ref Hin) as [t [Et Ht]].
  rewrite Hrest. apply ET_ref; [exact Hin|].
  subst ref. simpl in Hrest. inversion Hrest; subst.
  exact (EscText_drop_plain t rest Ht IH).
Qed.

Lemma allowed_ok_b_spec allow n aa :
  allowed_ok_b allow n = Some aa -> allowed_b allow n = Some aa /\ elem_name_ok n = true.
Proof.
  unfold allowed_ok_b. destruct (allowed_b allow n); [|discriminate].
  destruct (elem_name_ok n); [|discriminate]. intros H; inversion H; auto.
Qed.

Lemma attrs_chk_sound aa : forall f s r, attrs_chk f aa s = POk r ->
  exists av (sc : bool),
    s = av ++ (if sc then [" "; "/"] else []) ++ ">" :: r /\ SafeAttrs aa av.
Proof.
  induction f as [|f IH]; intros s r H; [discriminate|].
  cbn [attrs_chk] in H. destruct s as [|c s']; [discriminate|].
  destruct (Ascii.eqb_spec c ">") as [->|Hgt].
  { inversion H; subst. exists [], false. split; [reflexivity|constructor]. }
  destruct (Ascii.eqb_spec c " ") as [->|Hsp]; [|discriminate].
  destruct (prefixb ["/"; ">"] s') eqn:Ep.
  { inversion H; subst. apply prefixb_skipn in Ep. exists [], true.
    split; [|constructor]. simpl. rewrite Ep at 1. reflexivity. }
  pose proof (span_app (fun c => negb (key_end c)) s') as Hs'.
  destruct (span (fun c => negb (key_end c)) s') as [k r1]. cbn [fst snd] in *.
  destruct (mem k aa && attr_name_ok k) eqn:Ek; [|discriminate].
  apply andb_true_iff in Ek. destruct Ek as [Hin Hk]. apply mem_In in Hin.
  destruct (prefixb ["="; """"] r1) eqn:Eq.
  - apply prefixb_skipn in Eq. cbn [length] in Eq.
    pose proof (span_app (fun c => negb (Ascii.eqb c """")) (skipn 2 r1)) as Hv.
    pose proof (span_snd_head (fun c => negb (Ascii.eqb c """")) (skipn 2 r1)) as Hq.
    destruct (span (fun c => negb (Ascii.eqb c """")) (skipn 2 r1)) as [v r3]. cbn [fst snd] in *.
    destruct r3 as [|q r4]; [discriminate|].
    specialize (Hq q r4 eq_refl). apply negb_false_iff in Hq. apply Ascii.eqb_eq in Hq. subst q.
    destruct (esc_text_b v) eqn:Ev; [|discriminate].
    apply esc_text_b_sound in Ev.
    destruct (IH _ _ H) as [av [sc [E4 Hav]]].
    exists (" " :: k ++ "=" :: """" :: v ++ """" :: av), sc.
    split; [|apply SA_val; assumption].
    rewrite <- Hs', Eq, <- Hv, E4. simpl. rewrite <- !app_assoc. simpl.
    rewrite <- !app_assoc. reflexivity.
  - destruct (IH _ _ H) as [av [sc [E1 Hav]]].
    exists (" " :: k ++ av), sc.
    split; [|apply SA_bare; assumption].
    rewrite <- Hs', E1. simpl. rewrite <- !app_assoc. reflexivity.
Qed.

Lemma ref_skip_spec s r' : ref_skip s = Some r' -> exists ref, In ref refs /\ s = ref ++ r'.
Proof.
  unfold ref_skip. destruct (find (fun r => prefixb r s) refs) as [ref|] eqn:Ef; [|discriminate].
  intros H; inversion H; subst. apply find_some in Ef. destruct Ef as [Hin Hp].
  exists ref; split; [exact Hin|]. apply prefixb_skipn; exact Hp.
Qed.

Lemma doc_chk_sound allow : forall f s u, doc_chk f allow s = POk u -> SafeDoc allow s.
Proof.
  induction f as [|f IH]; intros s u H; [discriminate|].
  cbn [doc_chk] in H. destruct s as [|c r]; [constructor|].
  destruct (Ascii.eqb_spec c "<") as [->|Hlt].
  - destruct (prefixb ["/"] r) eqn:Esl.
    + apply prefixb_skipn in Esl. cbn [length] in Esl.
      pose proof (span_app (fun c => negb (Ascii.eqb c ">")) (skipn 1 r)) as Hn.
      pose proof (span_snd_head (fun c => negb (Ascii.eqb c ">")) (skipn 1 r)) as Hq.
      destruct (span (fun c => negb (Ascii.eqb c ">")) (skipn 1 r)) as [n r3]. cbn [fst snd] in *.
      destruct r3 as [|q r4]; [discriminate|].
      specialize (Hq q r4 eq_refl). apply negb_false_iff in Hq. apply Ascii.eqb_eq in Hq. subst q.
      destruct (allowed_ok_b allow n) as [aa|] eqn:Ea; [|discriminate].
      apply allowed_ok_b_spec in Ea. destruct Ea as [Ea Hok].
      rewrite Esl, <- Hn. simpl.
      apply (SD_end allow n aa); auto. exact (IH _ _ H).
    + pose proof (span_app (fun c => negb (name_end c)) r) as Hn.
      destruct (span (fun c => negb (name_end c)) r) as [n r3]. cbn [fst snd] in *.
      destruct (allowed_ok_b allow n) as [aa|] eqn:Ea; [|discriminate].
      apply allowed_ok_b_spec in Ea. destruct Ea as [Ea Hok].
      destruct (attrs_chk f aa r3) as [| |r4] eqn:Eat; try discriminate.
      destruct (attrs_chk_sound aa _ _ _ Eat) as [av [sc [E3 Hav]]].
      rewrite <- Hn, E3.
      apply (SD_start allow n aa av sc); auto. exact (IH _ _ H).
  - destruct (plain c) eqn:Ep.
    + change (c :: r) with ([c] ++ r). constructor; [|exact (IH _ _ H)].
      constructor; [exact Ep|constructor].
    + destruct (Ascii.eqb c "&"); [|discriminate].
      destruct (ref_skip (c :: r)) as [r'|] eqn:Er; [|discriminate].
      destruct (ref_skip_spec _ _ Er) as [ref [Hin Hs]].
      rewrite Hs. constructor; [|exact (IH _ _ H)].
      rewrite <- (app_nil_r ref). apply ET_ref; [exact Hin|constructor].
Qed.

Theorem safe_doc_b_sound allow s : safe_doc_b allow s = true -> SafeDoc allow s.
Proof.
  unfold safe_doc_b. destruct (doc_chk (S (length s)) allow s) as [| |u] eqn:E; try discriminate.
  intros _. exact (doc_chk_sound allow _ _ _ E).
Qed.

(* ---- the fuel given by safe_doc_b is enough: the checker never answers POut ---- *)

Lemma attrs_chk_len aa f s r : attrs_chk f aa s = POk r -> length r < length s.
Proof.
  intros H. destruct (attrs_chk_sound aa f s r H) as [av [sc [E _]]].
  rewrite E, !app_length. simpl. lia.
Qed.

Lemma attrs_chk_fuel aa : forall f s, length s < f -> attrs_chk f aa s <> POut.
Proof.
  induction f as [|f IH]; intros s Hl; [lia|].
  cbn [attrs_chk]. destruct s as [|c s']; [discriminate|]. cbn [length] in Hl.
  destruct (Ascii.eqb c ">"); [discriminate|].
  destruct (Ascii.eqb c " "); [|discriminate].
  destruct (prefixb ["/"; ">"] s'); [discriminate|].
  pose proof (span_len (fun c => negb (key_end c)) s') as L1.
  destruct (span (fun c => negb (key_end c)) s') as [k r1]. cbn [fst snd] in *.
  destruct (mem k aa && attr_name_ok k); [|discriminate].
  destruct (prefixb ["="; """"] r1).
  - pose proof (span_len (fun c => negb (Ascii.eqb c """")) (skipn 2 r1)) as L2.
    pose proof (skipn_length 2 r1) as L3.
    destruct (span (fun c => negb (Ascii.eqb c """")) (skipn 2 r1)) as [v r3]. cbn [fst snd] in *.
    destruct r3 as [|q r4]; [discriminate|]. cbn [length] in L2.
    destruct (esc_text_b v); [|discriminate].
    apply IH. lia.
  - apply IH. lia.
Qed.

Lemma refs_nonempty ref : In ref refs -> 1 <= length ref.
Proof. intros H. destruct (refs_shape ref H) as [t [-> _]]. simpl. lia. Qed.

Lemma doc_chk_fuel allow : forall f s, length s < f -> doc_chk f allow s <> POut.
Proof.
  induction f as [|f IH]; intros s Hl; [lia|].
  cbn [doc_chk]. destruct s as [|c r]; [discriminate|]. cbn [length] in Hl.
  destruct (Ascii.eqb c "<").
  - destruct (prefixb ["/"] r).
    + pose proof (span_len (fun c => negb (Ascii.eqb c ">")) (skipn 1 r)) as L1.
      pose proof (skipn_length 1 r) as L2.
      destruct (span (fun c => negb (Ascii.eqb c ">")) (skipn 1 r)) as [n r3]. cbn [fst snd] in *.
      destruct r3 as [|q r4]; [discriminate|]. cbn [length] in L1.
      destruct (allowed_ok_b allow n); [|discriminate].
      apply IH. lia.
    + pose proof (span_len (fun c => negb (name_end c)) r) as L1.
      destruct (span (fun c => negb (name_end c)) r) as [n r3]. cbn [fst snd] in *.
      destruct (allowed_ok_b allow n) as [aa|]; [|discriminate].
      destruct (attrs_chk f aa r3) as [| |r4] eqn:Eat.
      * exfalso. apply (attrs_chk_fuel aa f r3); [lia|exact Eat].
      * discriminate.
      * apply attrs_chk_len in Eat. apply IH. lia.
  - destruct (plain c); [apply IH; lia|].
    destruct (Ascii.eqb c "&"); [|discriminate].
    destruct (ref_skip (c :: r)) as [r'|] eqn:Er; [|discriminate].
    destruct (ref_skip_spec _ _ Er) as [ref [Hin Hs]].
    apply refs_nonempty in Hin.
    assert (length (c :: r) = length ref + length r') by (rewrite Hs, app_length; reflexivity).
    cbn [length] in H. apply IH. lia.
Qed.

Theorem safe_doc_b_fuel allow s : doc_chk (S (length s)) allow s <> POut.
Proof. apply doc_chk_fuel. lia. Qed.

(* ------------------------------------------------------------------ *)
(* the accumulator version is the same function                         *)

Lemma clean_acc_elem allow name attrs kids acc :
  clean_acc allow (HElem name attrs kids) acc =
  let body := fun tail => fold_right (fun k t => clean_acc allow k t) tail kids in
  match find_tag allow name with
  | Some aa =>
    "<" :: name ++ allowed_attrs aa attrs
        ++ (if void name then [" "; "/"] else []) ++ ">" ::
        body ((if void name then [] else "<" :: "/" :: name ++ [">"]) ++ acc)
  | None => body acc
  end.
Proof.
  cbn [clean_acc].
  assert (E : forall tail,
    (fix go (l : list hnode) : bytes :=
       match l with [] => tail | k :: r => clean_acc allow k (go r) end) kids =
    fold_right (fun k t => clean_acc allow k t) tail kids).
  { intros tail. induction kids as [|k r IH]; [reflexivity|]. cbn [fold_right]. rewrite <- IH. reflexivity. }
  cbv zeta. rewrite !E. reflexivity.
Qed.

Lemma fold_clean_acc allow kids : Forall (fun k => forall acc, clean_acc allow k acc = clean allow k ++ acc) kids ->
  forall tail, fold_right (fun k t => clean_acc allow k t) tail kids = flat_map (clean allow) kids ++ tail.
Proof.
  induction 1 as [|k r Hk _ IH]; intros tail; [reflexivity|].
  cbn [fold_right flat_map]. rewrite Hk, IH, app_assoc. reflexivity.
Qed.

Lemma clean_acc_spec allow : forall n acc, clean_acc allow n acc = clean allow n ++ acc.
Proof.
  induction n as [name attrs kids IH|s|s|s|] using hnode_ind2; intros acc; try reflexivity.
  rewrite clean_acc_elem, clean_elem. cbv zeta.
  destruct (find_tag allow name) as [aa|].
  - rewrite (fold_clean_acc allow kids IH).
    cbn [app]. rewrite <- !app_assoc. cbn [app]. rewrite <- !app_assoc. reflexivity.
  - apply fold_clean_acc; exact IH.
Qed.

Lemma strip_acc_spec allow forest : strip_acc allow forest = strip allow forest.
Proof.
  unfold strip. induction forest as [|n r IH]; [reflexivity|].
  cbn [strip_acc flat_map]. rewrite clean_acc_spec, IH. reflexivity.
Qed.

Theorem striptags_fast_spec slices forest : striptags_fast slices forest = striptags slices forest.
Proof. unfold striptags_fast, striptags. apply strip_acc_spec. Qed.

(* ------------------------------------------------------------------ *)
(* the flat encoding of a forest loses nothing                          *)

Lemma flatten_elem name attrs kids :
  flatten (HElem name attrs kids) = FOpen name attrs :: flat_map flatten kids ++ [FClose].
Proof. reflexivity. Qed.

Lemma build_go_flat_list kids :
  Forall (fun n => forall rest stack cur,
            build_go (flatten n ++ rest) stack cur = build_go rest stack (n :: cur)) kids ->
  forall rest stack cur,
    build_go (flat_map flatten kids ++ rest) stack cur = build_go rest stack (rev kids ++ cur).
Proof.
  induction 1 as [|k r Hk _ IH]; intros rest stack cur; [reflexivity|].
  cbn [flat_map rev]. rewrite <- !app_assoc, Hk, IH. reflexivity.
Qed.

Lemma build_go_flatten : forall n rest stack cur,
  build_go (flatten n ++ rest) stack cur = build_go rest stack (n :: cur).
Proof.
  induction n as [name attrs kids IH|s|s|s|] using hnode_ind2; intros rest stack cur; try reflexivity.
  rewrite flatten_elem. cbn [app build_go]. rewrite <- app_assoc.
  rewrite (build_go_flat_list kids IH). cbn [app build_go].
  rewrite app_nil_r, rev_involutive. reflexivity.
Qed.

Theorem build_flatten forest : build_forest (flatten_forest forest) = forest.
Proof.
  unfold build_forest, flatten_forest.
  rewrite <- (app_nil_r (flat_map flatten forest)).
  rewrite (build_go_flat_list forest).
  - cbn [build_go unwind]. rewrite app_nil_r. apply rev_involutive.
  - apply Forall_forall. intros n _. apply build_go_flatten.
Qed.

(* ------------------------------------------------------------------ *)
(* non-vacuity                                                          *)

Definition nv_allow : allowlist :=
  mk_allowlist [Some (B "P"); Some (B "a(HREF title)"); Some (B "b"); Some (B "img(src alt)")].

(* the forest x/net/html returns for
   <p class=x>a&lt;b<script>alert(1)</script><a href="x&quot;y" onclick=e title>t</a><b>u</b><!--c-->&lt;script&gt; *)
Definition nv_forest : list hnode :=
  [HElem (B "html") [] [HElem (B "head") [] []; HElem (B "body") [] [
     HElem (B "p") [(B "class", B "x")] [
       HText (B "a<b");
       HElem (B "script") [] [HText (B "alert(1)")];
       HElem (B "a") [(B "href", B "x""y"); (B "onclick", B "e"); (B "title", B "")] [HText (B "t")];
       HElem (B "b") [] [HText (B "u")];
       HComment (B "c");
       HText (B "<script>")]]]].

Example nv_allow_value :
  nv_allow = [(B "p", []); (B "a", [B "href"; B "title"]); (B "b", []); (B "img", [B "src"; B "alt"])].
Proof. vm_compute. reflexivity. Qed.

Example nv_dom : dom_C14 nv_allow = true.
Proof. vm_compute. reflexivity. Qed.

Example nv_strip :
  strip nv_allow nv_forest =
  B "<p>a&lt;balert(1)<a href=""x&#34;y"" title>t</a><b>u</b>&lt;script&gt;</p>".
Proof. vm_compute. reflexivity. Qed.

Example nv_strip_checker : safe_doc_b nv_allow (strip nv_allow nv_forest) = true.
Proof. vm_compute. reflexivity. Qed.

Example nv_strip_empty : strip [] nv_forest = B "a&lt;balert(1)tu&lt;script&gt;".
Proof. vm_compute. reflexivity. Qed.

Example nv_text : unesc6 (drop_tags false (strip nv_allow nv_forest)) = B "a<balert(1)tu<script>".
Proof. vm_compute. reflexivity. Qed.

Example nv_pruned :
  flat_map prune nv_forest <> nv_forest /\
  strip nv_allow (flat_map prune nv_forest) = strip nv_allow nv_forest.
Proof. split; [intros H; vm_compute in H; discriminate H|vm_compute; reflexivity]. Qed.

(* the checker rejects what the property forbids *)
Example nv_fast : striptags_fast [[Some (B "P"); Some (B "a(HREF title)")]] nv_forest =
                  striptags [[Some (B "P"); Some (B "a(HREF title)")]] nv_forest.
Proof. vm_compute. reflexivity. Qed.

Example nv_flat : build_forest (flatten_forest nv_forest) = nv_forest /\
                  6 <= length (flatten_forest nv_forest).
Proof. vm_compute. split; [reflexivity|lia]. Qed.

(* tokens that are not the image of a forest are read leniently *)
Example nv_build_lenient :
  build_forest [FClose; FOpen (B "p") []; FLeaf (HText (B "t")); FOpen (B "b") []] =
  [HElem (B "p") [] [HText (B "t"); HElem (B "b") [] []]].
Proof. vm_compute. reflexivity. Qed.

Example nv_reject_script : safe_doc_b nv_allow (B "<p><script>alert(1)</script></p>") = false.
Proof. vm_compute. reflexivity. Qed.

Example nv_reject_attr : safe_doc_b nv_allow (B "<a href=""x"" onclick=""e"">t</a>") = false.
Proof. vm_compute. reflexivity. Qed.

Example nv_reject_unescaped_value : safe_doc_b nv_allow (B "<a href=""x""y"">t</a>") = false.
Proof. vm_compute. reflexivity. Qed.

Example nv_reject_comment : safe_doc_b nv_allow (B "<p><!--c--></p>") = false.
Proof. vm_compute. reflexivity. Qed.

Example nv_reject_raw_amp : safe_doc_b nv_allow (B "a &lt b &#60; c") = false.
Proof. vm_compute. reflexivity. Qed.

Example nv_accept_hand : safe_doc_b nv_allow (B "x &amp; y<b /><a title href=""&#39;"">z</a>") = true.
Proof. vm_compute. reflexivity. Qed.

(* allow-lists outside the domain *)
Example nv_dom_rawtext : dom_C14 (mk_allowlist [Some (B "p"); Some (B "script")]) = false.
Proof. vm_compute. reflexivity. Qed.

Example nv_dom_badname : allow_ok (mk_allowlist [Some (B "!--")]) = false.
Proof. vm_compute. reflexivity. Qed.

Example nv_dom_emptyattr : allow_ok (mk_allowlist [Some (B "a()")]) = false.
Proof. vm_compute. reflexivity. Qed.

(* createTag quirks *)
Example nv_mk_allow :
  map mk_allow [B "A(Href  Title))"; B "a(b)(c)"; B "a"; B "a(b"; B ""] =
  [(B "a", [B "href"; B ""; B "title"]); (B "a", [B "b"]); (B "a", []); (B "a", [B "b"]); (B "", [])].
Proof. vm_compute. reflexivity. Qed.

(* a later definition of the same name replaces the earlier one; not exactly one list: nothing allowed *)
Example nv_last_wins :
  mk_allowlist [Some (B "a(href)"); None; Some (B "a(title)")] = [(B "a", [B "title"])].
Proof. vm_compute. reflexivity. Qed.

Example nv_two_slices : allow_of_slices [[Some (B "a")]; [Some (B "b")]] = [].
Proof. reflexivity. Qed.

(* void elements, for whatever names the extracted table lists (the examples above do not
   depend on the table) *)
Lemma clean_void_shape n : n <> [] ->
  clean [(n, [])] (HElem n [] []) =
  if void n then "<" :: n ++ [" "; "/"; ">"] else "<" :: n ++ ">" :: "<" :: "/" :: n ++ [">"].
Proof.
  intros Hn. rewrite clean_elem. unfold find_tag. cbn [lookup]. rewrite beqb_refl.
  destruct n as [|c n]; [congruence|].
  destruct (void (c :: n)); reflexivity.
Qed.

(* ------------------------------------------------------------------ *)
(* the statements of Props/C14.v                                        *)

Theorem strip_only_allowed_tags (allow : allowlist) (forest : list hnode) :
  allow_ok allow = true ->
  forall pre post, strip allow forest = pre ++ "<" :: post ->
  exists n aa post', allowed_b allow n = Some aa /\ elem_name_ok n = true /\
    (post = n ++ " " :: post' \/ post = n ++ ">" :: post' \/ post = "/" :: n ++ ">" :: post').
Proof. intros Hok. exact (SafeDoc_lt allow _ (strip_safe allow forest Hok)). Qed.

Theorem strip_empty_no_lt (allow : allowlist) (forest : list hnode) :
  allow = [] -> ~ In "<" (strip allow forest).
Proof. intros ->. apply strip_nil_no_lt. Qed.

Theorem strip_no_comment_decl (allow : allowlist) (forest : list hnode) :
  strip allow forest = strip allow (flat_map prune forest) /\
  forallb has_no_decl (flat_map prune forest) = true.
Proof. split; [apply strip_prune|apply pruned_has_no_decl]. Qed.

Theorem strip_no_markup_declaration (allow : allowlist) (forest : list hnode) :
  allow_ok allow = true ->
  forall pre c post, strip allow forest = pre ++ "<" :: c :: post ->
  is_letter c = true \/ (c = "/" /\ exists c' post', post = c' :: post' /\ is_letter c' = true).
Proof. intros Hok. exact (SafeDoc_lt_letter allow _ (strip_safe allow forest Hok)). Qed.

Theorem strip_text_escaped (allow : allowlist) (forest : list hnode) :
  allow_ok allow = true ->
  drop_tags false (strip allow forest) = esc6 (flat_map text_of forest) /\
  unesc6 (drop_tags false (strip allow forest)) = flat_map text_of forest.
Proof. intros Hok. split; [apply strip_text|apply strip_text_unescaped]; exact Hok. Qed.

Theorem esc6_escape_inert (s : bytes) :
  EscText (esc6 s) /\
  (forall c, In c (esc6 s) -> c <> "<" /\ c <> ">" /\ c <> """" /\ c <> "'" /\ c <> "013") /\
  unesc6 (esc6 s) = s.
Proof. split; [apply esc6_EscText|split; [apply esc6_no_special|apply unesc6_esc6]]. Qed.
