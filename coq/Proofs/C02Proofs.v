(* C02 — lemmas about the control constructs of the executor model (Tmpl/Exec.v). *)
From PV Require Import Base.Bytes Base.Escape Tmpl.Value Tmpl.IR Tmpl.Runtime Tmpl.Exec.

(* ---- the never-popped variable stack behaves like a flat environment -------------- *)
Lemma var_upd_some_get vs x v l : var_upd vs x v = Some l -> exists w, var_get vs x = Some w.
Proof.
  revert l; induction vs as [|[k w] r IH]; simpl; intros l H; [discriminate|].
  destruct (var_upd r x v) as [r'|] eqn:E.
  - destruct (IH _ eq_refl) as [u Hu]; rewrite Hu; eauto.
  - destruct (var_get r x) eqn:G; [eauto|].
    destruct (beqb k x); [eauto|discriminate].
Qed.

Lemma var_upd_none_get vs x v : var_upd vs x v = None -> var_get vs x = None.
Proof.
  induction vs as [|[k w] r IH]; simpl; intros H; [reflexivity|].
  destruct (var_upd r x v) eqn:E; [discriminate|].
  rewrite (IH eq_refl). destruct (beqb k x); [discriminate|reflexivity].
Qed.

Lemma var_get_none_upd vs x v : var_get vs x = None -> var_upd vs x v = None.
Proof.
  induction vs as [|[k w] r IH]; simpl; intros H; [reflexivity|].
  destruct (var_get r x) eqn:G; [discriminate|].
  rewrite (IH eq_refl). destruct (beqb k x); [discriminate|reflexivity].
Qed.

Lemma var_get_upd_same vs x v l : var_upd vs x v = Some l -> var_get l x = Some v.
Proof.
  revert l; induction vs as [|[k w] r IH]; simpl; intros l H; [discriminate|].
  destruct (var_upd r x v) as [r'|] eqn:E.
  - inversion H; subst; simpl. rewrite (IH _ eq_refl); reflexivity.
  - destruct (beqb k x) eqn:K; [|discriminate].
    inversion H; subst; simpl.
    rewrite (var_upd_none_get _ _ _ E), K; reflexivity.
Qed.

Lemma var_get_upd_other vs x y v l : x <> y -> var_upd vs x v = Some l -> var_get l y = var_get vs y.
Proof.
  intros Hn; revert l; induction vs as [|[k w] r IH]; simpl; intros l H; [discriminate|].
  destruct (var_upd r x v) as [r'|] eqn:E.
  - inversion H; subst; simpl. rewrite (IH _ eq_refl); reflexivity.
  - destruct (beqb k x) eqn:K; [|discriminate].
    inversion H; subst; simpl.
    apply beqb_eq in K; subst k.
    destruct (var_get r y); [reflexivity|].
    destruct (beqb x y) eqn:K2; [apply beqb_eq in K2; contradiction|reflexivity].
Qed.

Lemma var_get_app_new vs x v y :
  var_get (vs ++ [(x, v)]) y = if beqb x y then Some v else var_get vs y.
Proof.
  induction vs as [|[k w] r IH]; simpl.
  - destruct (beqb x y); reflexivity.
  - rewrite IH. destruct (beqb x y); [reflexivity|]. reflexivity.
Qed.

(* setVarValue followed by varValue *)
Lemma var_set_get_same vs x v : var_get (var_set vs x v) x = Some v.
Proof.
  unfold var_set. destruct (var_upd vs x v) as [l|] eqn:E.
  - exact (var_get_upd_same _ _ _ _ E).
  - rewrite var_get_app_new, beqb_refl; reflexivity.
Qed.

Lemma var_set_get_other vs x y v : x <> y -> var_get (var_set vs x v) y = var_get vs y.
Proof.
  intros Hn. unfold var_set. destruct (var_upd vs x v) as [l|] eqn:E.
  - exact (var_get_upd_other _ _ _ _ _ Hn E).
  - rewrite var_get_app_new.
    destruct (beqb x y) eqn:K; [apply beqb_eq in K; contradiction|reflexivity].
Qed.

Lemma var_val_set_same vs x v : var_val (var_set vs x v) x = v.
Proof. unfold var_val; rewrite var_set_get_same; reflexivity. Qed.
Lemma var_val_set_other vs x y v : x <> y -> var_val (var_set vs x v) y = var_val vs y.
Proof. intros H; unfold var_val; rewrite (var_set_get_other _ _ _ _ H); reflexivity. Qed.

(* the flat environment a stack stands for *)
Definition env_of_stack (vs : vars) (x : bytes) : val := var_val vs x.

Lemma env_sim_set vs x v y :
  env_of_stack (var_set vs x v) y = if beqb x y then v else env_of_stack vs y.
Proof.
  unfold env_of_stack. destruct (beqb x y) eqn:K.
  - apply beqb_eq in K; subst; apply var_val_set_same.
  - apply beqb_neq in K; apply var_val_set_other; exact K.
Qed.

(* nothing is ever removed: a variable that is set stays set under any later assignments *)
Lemma var_set_keeps vs x v y : var_get vs y <> None -> var_get (var_set vs x v) y <> None.
Proof.
  intros H. destruct (list_eq_dec ascii_dec x y) as [->|Hn].
  - rewrite var_set_get_same; discriminate.
  - rewrite (var_set_get_other _ _ _ _ Hn); exact H.
Qed.

(* ==== control constructs =========================================================== *)
From PV Require Import Proofs.ExecMono.
(* kernel conversion must not unfold the fuelled evaluator (fuel 400) or the unary cap when re-checking proofs *)
Local Strategy opaque [eval_pipeline eval_cmds truthy while_cap].

Section Control.
  Variable defs : list (bytes * list tnode).

  (* the state in which a branch / a loop body starts: the test's heap, its declared variables set *)
  Definition after_test (s : xstate) (p : tpipe) (v : val) (h1 : heap) : xstate :=
    let s1 := set_heap s h1 in set_vars s1 (set_decl (f_vars (cur s1)) (fst p) v).

  (* ---- if / else if / else ---------------------------------------------------------- *)
  (* what parse.go builds for {{if a}}A{{else if b}}B{{else}}E{{end}} and for the nested
     {{if a}}A{{else}}{{if b}}B{{else}}E{{end}}{{end}} that transform_conditional.go emits *)
  Fixpoint mk_chain (brs : list (tpipe * list tnode)) (els : list tnode) : list tnode :=
    match brs with
    | [] => els
    | (p, b) :: r => [NIf p b (mk_chain r els)]
    end.

  (* the tests are evaluated in order, each in the state its predecessors left; the first truthy one
     selects its body, none selects the else list *)
  Inductive chain_sel (dot : val) : xstate -> list (tpipe * list tnode) -> list tnode -> xstate -> list tnode -> Prop :=
  | CS_else s els : chain_sel dot s [] els s els
  | CS_hit s p b r els v h1 :
      eval_pipeline (env_of s dot) (x_heap s) p = Ok (v, h1) -> truthy h1 v = Ok true ->
      chain_sel dot s ((p, b) :: r) els (after_test s p v h1) b
  | CS_miss s p b r els v h1 s' body :
      eval_pipeline (env_of s dot) (x_heap s) p = Ok (v, h1) -> truthy h1 v = Ok false ->
      chain_sel dot (after_test s p v h1) r els s' body ->
      chain_sel dot s ((p, b) :: r) els s' body.

  Lemma nodes_single f dot s n : exec_nodes defs (S (S f)) dot s [n] = exec_node defs (S f) dot s n.
  Proof.
    rewrite nodes_cons. destruct (exec_node defs (S f) dot s n); reflexivity.
  Qed.

  Lemma if_step f dot s p th el v h1 t :
    eval_pipeline (env_of s dot) (x_heap s) p = Ok (v, h1) -> truthy h1 v = Ok t ->
    exec_node defs (S f) dot s (NIf p th el) = exec_nodes defs f dot (after_test s p v h1) (if t then th else el).
  Proof. intros He Ht. rewrite node_if, He. cbn [bind]. rewrite Ht. reflexivity. Qed.

  (* exactly the selected body runs, from the state the tests left, and nothing else *)
  Lemma chain_selects dot s brs els s' body :
    chain_sel dot s brs els s' body ->
    forall f, fin (exec_nodes defs f dot s' body) ->
    exists f', forall g, f' <= g -> exec_nodes defs g dot s (mk_chain brs els) = exec_nodes defs f dot s' body.
  Proof.
    induction 1 as [s els|s p b r els v h1 He Ht|s p b r els v h1 s' body He Ht Hc IH]; intros f Hf.
    - exists f. intros g Hg. apply exec_nodes_mono; assumption.
    - exists (S (S f)). intros g Hg. cbn [mk_chain].
      assert (E : exec_nodes defs (S (S f)) dot s [NIf p b (mk_chain r els)] = exec_nodes defs f dot (after_test s p v h1) b).
      { rewrite nodes_single. exact (if_step f dot s p b _ v h1 true He Ht). }
      rewrite <- E. apply exec_nodes_mono; [exact Hg|rewrite E; exact Hf].
    - destruct (IH f Hf) as [f1 H1]. exists (S (S f1)). intros g Hg. cbn [mk_chain].
      assert (E : exec_nodes defs (S (S f1)) dot s [NIf p b (mk_chain r els)] = exec_nodes defs f dot s' body).
      { rewrite nodes_single. rewrite (if_step f1 dot s p b _ v h1 false He Ht). apply H1. apply le_n. }
      rewrite <- E. apply exec_nodes_mono; [exact Hg|rewrite E; exact Hf].
  Qed.

  (* ---- each ------------------------------------------------------------------------------- *)
  Definition bind_loop (vs : vars) (decl : list bytes) (k v : val) : vars :=
    match decl with
    | [a; b] => var_set (var_set vs a k) b v
    | [a] => var_set vs a v
    | _ => vs
    end.

  (* the body once per pair, in order, with the key/index and the element bound, each iteration
     starting in the state the previous one left (variables assigned in the body persist) *)
  Fixpoint iter_spec (f : nat) (s : xstate) (decl : list bytes) (body : list tnode) (pairs : list (val * val))
    : res xstate :=
    match pairs with
    | [] => Ok s
    | (k, v) :: r =>
      do s1 <- exec_nodes defs f v (set_vars s (bind_loop (f_vars (cur s)) decl k v)) body;
      iter_spec f s1 decl body r
    end.

  Lemma iter_is_spec f s decl body pairs :
    fin (iter_spec f s decl body pairs) ->
    forall g, f + S (length pairs) <= g -> exec_iter defs g s decl body pairs = iter_spec f s decl body pairs.
  Proof.
    revert s; induction pairs as [|[k v] r IH]; intros s Hf g Hg.
    - destruct g; [simpl in Hg; lia|reflexivity].
    - destruct g as [|g]; [simpl in Hg; lia|].
      rewrite iter_cons. cbv zeta. cbn [iter_spec] in *. fold (bind_loop (f_vars (cur s)) decl k v).
      rewrite (exec_nodes_mono defs f g); [|simpl in Hg; lia|exact (bind_fin _ _ Hf)].
      destruct (exec_nodes defs f v (set_vars s (bind_loop (f_vars (cur s)) decl k v)) body) as [s1| | |];
        cbn [bind] in *; try reflexivity.
      apply IH; [exact Hf|simpl in *; lia].
  Qed.

  Definition indexed (items : list val) : list (val * val) :=
    combine (map (fun i => VInt (Z.of_nat i)) (seq 0 (length items))) items.

  (* each over an array: index i and element i, in index order; the else list (empty for pug's each)
     when there is no element *)
  Lemma range_plan_array dot s p l h1 items :
    eval_pipeline (env_of (set_vars s (f_vars (cur s) ++ map (fun x => (x, VInvalid)) (fst p))) dot) (x_heap s) p
      = Ok (VArr l, h1) ->
    hget h1 l = Some (OArr items) ->
    exists s2, range_plan dot s p = Ok (match items with [] => RElse s2 | _ => RIter s2 (indexed items) end).
  Proof.
    destruct p as [decl cmds]; intros He Hg. unfold range_plan. cbn [fst] in He.
    replace (x_heap (set_vars s (f_vars (cur s) ++ map (fun x : bytes => (x, VInvalid)) decl))) with (x_heap s)
      by (unfold set_vars, set_cur; reflexivity).
    rewrite He. cbn [bind]. rewrite Hg. eexists. unfold indexed.
    destruct items as [|x r]; reflexivity.
  Qed.

  (* each over null / undefined: nothing is iterated *)
  Lemma range_plan_missing dot s p v h1 :
    eval_pipeline (env_of (set_vars s (f_vars (cur s) ++ map (fun x => (x, VInvalid)) (fst p))) dot) (x_heap s) p
      = Ok (v, h1) ->
    v = VNil \/ v = VInvalid ->
    exists s2, range_plan dot s p = Ok (RElse s2) /\ x_out s2 = x_out s.
  Proof.
    destruct p as [decl cmds]; intros He Hv. unfold range_plan. cbn [fst] in He.
    replace (x_heap (set_vars s (f_vars (cur s) ++ map (fun x : bytes => (x, VInvalid)) decl))) with (x_heap s)
      by (unfold set_vars, set_cur; reflexivity).
    rewrite He. cbn [bind]. destruct Hv; subst v; eexists; split; reflexivity.
  Qed.

  (* each over a data map (a Go map without explicit order): sorted key order; over an object literal: its own order *)
  Lemma range_plan_map dot s p l h1 items order :
    eval_pipeline (env_of (set_vars s (f_vars (cur s) ++ map (fun x => (x, VInvalid)) (fst p))) dot) (x_heap s) p
      = Ok (VMap l, h1) ->
    hget h1 l = Some (OMap items order) ->
    let ks := match order with [] => sort_bytes (keys items) | _ => filter (fun k => mem k (keys items)) order end in
    let pairs := map (fun k => (VGoStr k, member_lookup items k)) ks in
    exists s2, range_plan dot s p = Ok (match pairs with
                                        | [] => match order with [] => RElse s2 | _ => RDone s2 end
                                        | _ => RIter s2 pairs end).
  Proof.
    destruct p as [decl cmds]; intros He Hg. unfold range_plan. cbn [fst] in He.
    replace (x_heap (set_vars s (f_vars (cur s) ++ map (fun x : bytes => (x, VInvalid)) decl))) with (x_heap s)
      by (unfold set_vars, set_cur; reflexivity).
    rewrite He. cbn [bind]. rewrite Hg. eexists. cbv zeta.
    destruct order as [|o1 orest].
    - destruct (map (fun k : bytes => (VGoStr k, member_lookup items k)) (sort_bytes (keys items))); reflexivity.
    - destruct (map (fun k : bytes => (VGoStr k, member_lookup items k))
                    (filter (fun k : bytes => mem k (keys items)) (o1 :: orest))); reflexivity.
  Qed.

  (* the whole each node: once per element in order *)
  Lemma each_runs_in_order f dot s p body s2 pairs :
    range_plan dot s p = Ok (RIter s2 pairs) ->
    fin (iter_spec f s2 (fst p) body pairs) ->
    forall g, f + S (S (length pairs)) <= g ->
    exec_node defs g dot s (NRange p body []) = iter_spec f s2 (fst p) body pairs.
  Proof.
    intros Hp Hf g Hg. destruct g as [|g]; [simpl in Hg; lia|].
    rewrite node_range, Hp. cbn [bind]. apply iter_is_spec; [exact Hf|simpl in *; lia].
  Qed.

  Lemma each_nothing f dot s p body s2 :
    range_plan dot s p = Ok (RElse s2) ->
    exec_node defs (S (S f)) dot s (NRange p body []) = Ok s2.
  Proof. intros Hp. rewrite node_range, Hp. reflexivity. Qed.

  (* ---- while ------------------------------------------------------------------------------ *)
  (* a test that is true in every state and changes nothing; a body that always succeeds *)
  Definition always_true (dot : val) (p : tpipe) : Prop :=
    forall s, eval_pipeline (env_of s dot) (x_heap s) p = Ok (VBool true, x_heap s).
  Definition body_total (body : list tnode) (f0 : nat) : Prop :=
    forall s, exists s', exec_nodes defs f0 (VBool true) s body = Ok s'.

  Lemma set_heap_same s : set_heap s (x_heap s) = s.
  Proof. destruct s; reflexivity. Qed.

  (* a while whose test never becomes false ends with the execution error when the budget is used up — whatever
     the fuel, it never returns normally, and with enough fuel the answer is the error, not "out of fuel" *)
  Lemma while_never_ok dot p body :
    always_true dot p ->
    forall f s budget, ~ exists s', exec_while defs f dot s p body budget (VBool true) = Ok s'.
  Proof.
    intros Ht f. induction f as [|f IH]; intros s budget [s' H]; [discriminate|].
    rewrite while_step in H.
    destruct (exec_nodes defs f (VBool true) s body) as [s1| | |]; cbn [bind] in H; try discriminate.
    rewrite (Ht s1) in H. cbn [bind] in H. rewrite set_heap_same in H.
    destruct budget as [|b]; [discriminate|]. exact (IH s1 b (ex_intro _ s' H)).
  Qed.

  Lemma while_cap_error dot p body f0 :
    always_true dot p -> body_total body f0 ->
    forall budget s g, f0 + S budget < g -> exec_while defs g dot s p body budget (VBool true) = Panic.
  Proof.
    intros Ht Hb. induction budget as [|b IH]; intros s g Hg.
    - destruct g as [|g]; [lia|]. rewrite while_step.
      destruct (Hb s) as [s1 H1]. rewrite (exec_nodes_mono defs f0 g); [|lia|rewrite H1; apply fin_ok].
      rewrite H1. cbn [bind]. rewrite (Ht s1). reflexivity.
    - destruct g as [|g]; [lia|]. rewrite while_step.
      destruct (Hb s) as [s1 H1]. rewrite (exec_nodes_mono defs f0 g); [|lia|rewrite H1; apply fin_ok].
      rewrite H1. cbn [bind]. rewrite (Ht s1). cbn [bind]. rewrite set_heap_same. apply IH. lia.
  Qed.

  (* the whole while node with a never-false test: the execution error after the cap *)
  Lemma while_node_cap dot s p body f0 s2 :
    always_true dot p -> body_total body f0 ->
    range_plan dot s p = Ok (RWhile s2 (VBool true)) ->
    forall g, f0 + S (S while_cap) < g -> exec_node defs g dot s (NRange p body []) = Panic.
  Proof.
    intros Ht Hb Hp g Hg. destruct g as [|g]; [lia|].
    rewrite node_range, Hp. cbn [bind]. apply (while_cap_error dot p body f0 Ht Hb). lia.
  Qed.

  (* a test that is false on entry: the body never runs, nothing is printed *)
  Lemma while_false_skips dot s p body v h1 :
    eval_pipeline (env_of (set_vars s (f_vars (cur s) ++ map (fun x => (x, VInvalid)) (fst p))) dot) (x_heap s) p
      = Ok (v, h1) ->
    v = VBool false \/ v = VGoBool false ->
    forall f, exists s2, exec_node defs (S f) dot s (NRange p body []) = Ok s2 /\ x_out s2 = x_out s.
  Proof.
    destruct p as [decl cmds]; intros He Hv f. rewrite node_range. unfold range_plan. cbn [fst] in He.
    replace (x_heap (set_vars s (f_vars (cur s) ++ map (fun x : bytes => (x, VInvalid)) decl))) with (x_heap s)
      by (unfold set_vars, set_cur; reflexivity).
    rewrite He. cbn [bind]. destruct Hv; subst v; eexists; split; reflexivity.
  Qed.

  (* one more round: the body, then the test again, in the state the body left *)
  Lemma while_round f dot s p body b v s1 v' h1 :
    exec_nodes defs f v s body = Ok s1 ->
    eval_pipeline (env_of s1 dot) (x_heap s1) p = Ok (v', h1) ->
    exec_while defs (S f) dot s p body (S b) v =
    match v' with
    | VBool true | VGoBool true => exec_while defs f dot (set_heap s1 h1) p body b v'
    | VBool false | VGoBool false => Ok (set_heap s1 h1)
    | VAttrs _ | VMod _ => Unmod
    | _ => Panic
    end.
  Proof. intros Hb He. rewrite while_step, Hb. cbn [bind]. rewrite He. reflexivity. Qed.
End Control.

(* ---- non-vacuity: the hypotheses of the while-cap theorem are met by the lowering of `while 0 < 1` with a
   text body, and chain_sel by a two-branch chain on a concrete state ---------------------------------- *)
Definition ex_test : tpipe := ([], [[APipe [] [[AIdent (B "__op__lt"); ANum 0; ANum 1]]]]).
Example ex_always_true : always_true VInvalid ex_test.
Proof. intros s. vm_compute. reflexivity. Qed.
Example ex_body_total : body_total [] [NText (B "x")] 2.
Proof. intros s. eexists. reflexivity. Qed.
Definition ex_state : xstate :=
  {| x_frames := [{| f_vars := [(B "n", VNum 0)]; f_globals := []; f_bound := []; f_depth := 0 |}]; x_heap := []; x_out := [] |}.
Example ex_while_plan : exists s2, range_plan VInvalid ex_state ex_test = Ok (RWhile s2 (VBool true)).
Proof. eexists. vm_compute. reflexivity. Qed.
Definition ex_if_n : tpipe := ([], [[AVar (B "n") []]]).
Definition ex_if_t : tpipe := ([], [[ABool true]]).
Example ex_chain : exists s', chain_sel VInvalid ex_state [(ex_if_n, [NText (B "A")]); (ex_if_t, [NText (B "B")])] [NText (B "E")]
                                          s' [NText (B "B")].
Proof.
  eexists. eapply CS_miss; [vm_compute; reflexivity|vm_compute; reflexivity|].
  eapply CS_hit; vm_compute; reflexivity.
Qed.
Example ex_chain_runs : exec_nodes [] 10 VInvalid ex_state
                          (mk_chain [(ex_if_n, [NText (B "A")]); (ex_if_t, [NText (B "B")])] [NText (B "E")])
                        = Ok (emit ex_state (B "B")).
Proof. vm_compute. reflexivity. Qed.
