(* C04 — the program-level marker theorem on the proved fragment.
   For every program of the control fragment of Pug/Lower.v (text, tags, escaped buffered code, var / assignment /
   ++, if / else, while) in which the HOSTILE NAMES T (data variables, and variables declared or assigned from them)
   occur only in TRANSPARENT POSITIONS (escaped buffered code `= e` and declarations / assignments of T-variables,
   e built from T-variables, T-free expressions, `+`, and `c ? a : b` with a T-free test; no test mentions T), the
   output is a list of segments (literal chunk | hole) that does not depend on the string bound to the data
   variables of T, with `escape h` in the holes: first for the specification S (Spec/Sem.v), then for the executor
   model M through Proofs/C02InstProofs.v program_scalar.  The key lemma: the evaluation of T-free expressions,
   and with it the whole control flow, is independent of h; S's states for all h are instances of ONE symbolic
   state. *)
From PV Require Import Base.Bytes Base.Escape Js.Ast Tmpl.Value Tmpl.IR Tmpl.Runtime Tmpl.Exec Pug.Ast Pug.Compile
  Pug.Lower Spec.Sem Spec.HtmlSer Proofs.EscapeProofs Proofs.C01EvalProofs Proofs.C02SimProofs Proofs.C02InstProofs
  Run.Judge_Core.
Require Import Lia.
Local Open Scope Z_scope.

Local Strategy opaque [sem_expr sem_nodes sem_node sem_fuel while_limit efuel].

(* ---- segments ------------------------------------------------------------------------------------------------- *)
Definition seg := (bytes + unit)%type.                      (* literal chunk | hole *)
Definition fill_holes (r : bytes) (cs : list seg) : bytes :=
  concat_bytes (map (fun c : seg => match c with inl s => s | inr _ => r end) cs).
Definition esc_seg (c : seg) : seg := match c with inl s => inl (escape s) | inr u => inr u end.
Definition chunks_of (cs : list seg) : list bytes :=
  flat_map (fun c : seg => match c with inl s => [s] | inr _ => [] end) cs.

Lemma fill_holes_app r a b : fill_holes r (a ++ b) = fill_holes r a ++ fill_holes r b.
Proof. unfold fill_holes. rewrite map_app. apply concat_bytes_app. Qed.
Lemma fill_holes_cons r c cs :
  fill_holes r (c :: cs) = (match c with inl s => s | inr _ => r end) ++ fill_holes r cs.
Proof. reflexivity. Qed.

Lemma escape_fill h cs : escape (fill_holes h cs) = fill_holes (escape h) (map esc_seg cs).
Proof.
  induction cs as [|c cs IH]; [reflexivity|].
  cbn [map]. rewrite !fill_holes_cons, escape_app, IH. destruct c; reflexivity.
Qed.

Lemma concat_fill r (segs : list (list seg)) :
  concat_bytes (map (fill_holes r) segs) = fill_holes r (concat segs).
Proof.
  induction segs as [|a segs IH]; [reflexivity|].
  cbn [map concat concat_bytes]. rewrite fill_holes_app, IH. reflexivity.
Qed.

(* ---- symbolic values and variables; the states of all renders as instances of one symbolic state ------------- *)
(* a value that is the same in every render, or a string with holes for the hostile string *)
Definition sval := (jv + list seg)%type.
Definition conc (h : bytes) (v : sval) : jv := match v with inl j => j | inr cs => JS (fill_holes h cs) end.
Definition symenv := list (bytes * sval).
Definition inst (h : bytes) (SE : symenv) : list (bytes * jv) := map (fun kv => (fst kv, conc h (snd kv))) SE.
Definition sget (SE : symenv) (y : bytes) : sval := match lookup y SE with Some v => v | None => inl JUndef end.

Lemma conc_hole h : conc h (inr [inr tt]) = JS h.
Proof. unfold conc, fill_holes. cbn [map concat_bytes]. rewrite app_nil_r. reflexivity. Qed.

Lemma lookup_inst h SE y : lookup y (inst h SE) = option_map (conc h) (lookup y SE).
Proof.
  induction SE as [|[k v] SE IH]; [reflexivity|]. cbn [inst map lookup fst snd]. fold (inst h SE).
  destruct (beqb y k); [reflexivity|exact IH].
Qed.
Lemma env_get_inst h SE y : env_get (inst h SE) y = conc h (sget SE y).
Proof. unfold env_get, sget. rewrite lookup_inst. destruct (lookup y SE); reflexivity. Qed.
Lemma insert_inst h SE y v : insert y (conc h v) (inst h SE) = inst h (insert y v SE).
Proof.
  induction SE as [|[k w] SE IH]; [reflexivity|]. cbn [inst map insert fst snd]. fold (inst h SE).
  destruct (beqb y k); cbn [map fst snd]; [reflexivity|]. fold (inst h (insert y v SE)). rewrite IH. reflexivity.
Qed.
Lemma sget_insert_same SE y v : sget (insert y v SE) y = v.
Proof. unfold sget. rewrite lookup_insert_same. reflexivity. Qed.
Lemma sget_insert_other SE y z v : y <> z -> sget (insert y v SE) z = sget SE z.
Proof. intros H. unfold sget. rewrite lookup_insert_other by exact H. reflexivity. Qed.

(* the variables outside T hold the same value in every render *)
Definition Inv (T : list bytes) (SE : symenv) : Prop := forall y, mem y T = false -> exists j, sget SE y = inl j.
Lemma Inv_insert_const T SE y j : Inv T SE -> Inv T (insert y (inl j) SE).
Proof.
  intros H z Hz. destruct (beqb y z) eqn:E.
  - apply beqb_eq in E. subst. rewrite sget_insert_same. eexists; reflexivity.
  - apply beqb_neq in E. rewrite sget_insert_other by exact E. exact (H z Hz).
Qed.
Lemma Inv_insert_T T SE y v : mem y T = true -> Inv T SE -> Inv T (insert y v SE).
Proof.
  intros Hy H z Hz. destruct (beqb y z) eqn:E.
  - apply beqb_eq in E. subst. congruence.
  - apply beqb_neq in E. rewrite sget_insert_other by exact E. exact (H z Hz).
Qed.

Definition reframe (E : list (bytes * jv)) (O : list bytes) (s : sstate) : sstate :=
  {| s_env := E; s_heap := s_heap s; s_out := O; s_flags := s_flags s; s_grown := s_grown s |}.

(* the instance at h of the symbolic state (SE, base, segs): the variables hold their symbolic values with h in the
   holes, each output chunk has its holes filled with escape h; heap, flags and the grown-list are those of base,
   for every h *)
Definition mk (SE : symenv) (base : sstate) (segs : list (list seg)) (h : bytes) : sstate :=
  reframe (inst h SE) (map (fill_holes (escape h)) segs) base.

(* ---- expressions that do not mention T ------------------------------------------------------------------------- *)
(* the expression forms S evaluates without touching the heap or the variables *)
Fixpoint shape (e : jexpr) : bool :=
  match e with
  | JId _ | JNum _ | JStr _ | JBool _ => true
  | JBin _ l r => shape l && shape r
  | JUn UNot _ a | JUn UNeg _ a => shape a
  | JCond c a b => shape c && shape a && shape b
  | _ => false
  end.
Definition tfree (T : list bytes) (e : jexpr) : bool := shape e && forallb (fun y => negb (mem y T)) (fv e).

Definition rmap (g : sstate -> sstate) (r : sres (jv * sstate)) : sres (jv * sstate) :=
  match r with SOk (v, s) => SOk (v, g s) | SErr fl => SErr fl | SOff => SOff | SFuel => SFuel end.

Lemma to_boolean_reframe E O s v :
  to_boolean (reframe E O s) v = (fst (to_boolean s v), reframe E O (snd (to_boolean s v))).
Proof.
  destruct v; try reflexivity; cbn [to_boolean reframe s_heap].
  - destruct (jget (s_heap s) l) as [[[|]|]|]; reflexivity.
  - destruct (jget (s_heap s) l) as [[|[|]]|]; reflexivity.
Qed.
Lemma to_boolean_env s v : s_env (snd (to_boolean s v)) = s_env s.
Proof. destruct (to_boolean_pres s v) as [fl ->]. reflexivity. Qed.

Lemma sem_binop_reframe E O s op a b :
  sem_binop (reframe E O s) op a b = rmap (reframe E O) (sem_binop s op a b).
Proof.
  assert (Hn : forall z, (sdo v <- num z; SOk (v, reframe E O s)) = rmap (reframe E O) (sdo v <- num z; SOk (v, s))).
  { intros z. unfold num. destruct (in_range z); reflexivity. }
  destruct op; cbn [sem_binop]; try reflexivity;
    destruct a, b; cbn [jv_strict_eq]; try reflexivity; try apply Hn;
    repeat match goal with |- context [if ?c then _ else _] => destruct c end;
    try reflexivity; try apply Hn.
Qed.
Lemma sem_binop_env s op a b v s' : sem_binop s op a b = SOk (v, s') -> s_env s' = s_env s.
Proof. intros H. destruct (sem_binop_pres _ _ _ _ _ _ H) as [fl ->]. reflexivity. Qed.

Definition agree_on (xs : list bytes) (E1 E2 : list (bytes * jv)) : Prop :=
  forall y, In y xs -> env_get E1 y = env_get E2 y.
Lemma agree_app_l xs ys E1 E2 : agree_on (xs ++ ys) E1 E2 -> agree_on xs E1 E2.
Proof. intros H y Hy. apply H, in_or_app. left; exact Hy. Qed.
Lemma agree_app_r xs ys E1 E2 : agree_on (xs ++ ys) E1 E2 -> agree_on ys E1 E2.
Proof. intros H y Hy. apply H, in_or_app. right; exact Hy. Qed.

(* the frame lemma: on these forms S reads the variables of the expression and the heap, nothing else; it leaves
   the variables alone *)
Lemma shape_frame : forall e f s E O,
  shape e = true -> agree_on (fv e) E (s_env s) ->
  sem_expr f (reframe E O s) e = rmap (reframe E O) (sem_expr f s e) /\
  (forall v s', sem_expr f s e = SOk (v, s') -> s_env s' = s_env s).
Proof.
  induction e as [x|z|txt|t|parts|b| |es|kvs|e0 IH0 name|e0 IH0 i IHi|fn IHfn args|fn IHfn args|op p x IHx
                 |op l IHl r IHr|c IHc a IHa b IHb|op l IHl r IHr|es|x init];
    intros f s E O Hsh Hag; try discriminate Hsh; (destruct f as [|f]; [split; [reflexivity|discriminate]|]).
  - rewrite !sem_id. cbn [rmap reframe s_env]. split.
    + rewrite (Hag x (or_introl eq_refl)). reflexivity.
    + intros v s' H. injection H as _ <-. reflexivity.
  - rewrite !sem_num. unfold num. destruct (in_range z); cbn [sbind rmap]; split; try reflexivity; try discriminate.
    intros v s' H. injection H as _ <-. reflexivity.
  - rewrite !sem_str. split; [reflexivity|]. intros v s' H. injection H as _ <-. reflexivity.
  - rewrite !sem_bool. split; [reflexivity|]. intros v s' H. injection H as _ <-. reflexivity.
  - (* JUn *)
    assert (Hsx : shape x = true) by (destruct op; try discriminate Hsh; exact Hsh).
    cbn [fv] in Hag. destruct (IHx f s E O Hsx Hag) as [Hfx Hex].
    destruct op; try discriminate Hsh.
    + rewrite !sem_not, Hfx. destruct (sem_expr f s x) as [[v s1]| | |] eqn:Hx; cbn [rmap sbind];
        [|split; [reflexivity|discriminate]..].
      rewrite to_boolean_reframe. pose proof (to_boolean_env s1 v) as Hb.
      destruct (to_boolean s1 v) as [bb s2]. cbn [fst snd] in *. split; [reflexivity|].
      intros v' s' H. injection H as _ <-. rewrite Hb. exact (Hex _ _ eq_refl).
    + rewrite !sem_neg, Hfx. destruct (sem_expr f s x) as [[v s1]| | |] eqn:Hx; cbn [rmap sbind];
        [|split; [reflexivity|discriminate]..].
      destruct v; try (split; [reflexivity|discriminate]).
      unfold num. destruct (in_range (- z)); cbn [sbind rmap]; (split; [reflexivity|]); [|discriminate].
      intros v' s' H. injection H as _ <-. exact (Hex _ _ eq_refl).
  - (* JBin *)
    cbn [shape] in Hsh. apply andb_prop in Hsh. destruct Hsh as [Hsl Hsr]. cbn [fv] in Hag.
    destruct (IHl f s E O Hsl (agree_app_l _ _ _ _ Hag)) as [Hfl Hel].
    assert (Hr : forall s1, s_env s1 = s_env s ->
                   sem_expr f (reframe E O s1) r = rmap (reframe E O) (sem_expr f s1 r) /\
                   (forall v s', sem_expr f s1 r = SOk (v, s') -> s_env s' = s_env s)).
    { intros s1 H1. destruct (IHr f s1 E O Hsr) as [A B].
      - rewrite H1. exact (agree_app_r _ _ _ _ Hag).
      - split; [exact A|]. intros v s' H. rewrite (B _ _ H). exact H1. }
    destruct (plain_binop op) eqn:Hp.
    + rewrite !(sem_bin f _ op l r Hp), Hfl.
      destruct (sem_expr f s l) as [[a s1]| | |] eqn:Hl; cbn [rmap sbind]; [|split; [reflexivity|discriminate]..].
      destruct (Hr s1 (Hel _ _ eq_refl)) as [Hfr Her]. rewrite Hfr.
      destruct (sem_expr f s1 r) as [[b s2]| | |] eqn:Hrr; cbn [rmap sbind]; [|split; [reflexivity|discriminate]..].
      split; [apply sem_binop_reframe|].
      intros v s' H. rewrite (sem_binop_env _ _ _ _ _ _ H). exact (Her _ _ eq_refl).
    + destruct op; try discriminate Hp.
      * rewrite !sem_and, Hfl.
        destruct (sem_expr f s l) as [[a s1]| | |] eqn:Hl; cbn [rmap sbind]; [|split; [reflexivity|discriminate]..].
        rewrite to_boolean_reframe. pose proof (to_boolean_env s1 a) as Hb.
        destruct (to_boolean s1 a) as [bb s2]. cbn [fst snd] in *.
        destruct (Hr s2 (eq_trans Hb (Hel _ _ eq_refl))) as [Hfr Her]. rewrite Hfr.
        destruct bb; [split; [reflexivity|exact Her]|].
        destruct (sem_expr f s2 r) as [[b s3]| | |]; cbn [rmap sbind]; (split; [reflexivity|]); try discriminate.
        intros v s' H. injection H as _ <-. rewrite Hb. exact (Hel _ _ eq_refl).
      * rewrite !sem_or, Hfl.
        destruct (sem_expr f s l) as [[a s1]| | |] eqn:Hl; cbn [rmap sbind]; [|split; [reflexivity|discriminate]..].
        rewrite to_boolean_reframe. pose proof (to_boolean_env s1 a) as Hb.
        destruct (to_boolean s1 a) as [bb s2]. cbn [fst snd] in *.
        destruct (Hr s2 (eq_trans Hb (Hel _ _ eq_refl))) as [Hfr Her]. rewrite Hfr.
        destruct bb; [|split; [reflexivity|exact Her]].
        destruct (sem_expr f s2 r) as [[b s3]| | |]; cbn [rmap sbind]; (split; [reflexivity|]); try discriminate.
        intros v s' H. injection H as _ <-. rewrite Hb. exact (Hel _ _ eq_refl).
  - (* JCond *)
    cbn [shape] in Hsh. apply andb_prop in Hsh. destruct Hsh as [Hsh Hsb].
    apply andb_prop in Hsh. destruct Hsh as [Hsc Hsa]. cbn [fv] in Hag.
    destruct (IHc f s E O Hsc (agree_app_l _ _ _ _ Hag)) as [Hfc Hec].
    pose proof (agree_app_r _ _ _ _ Hag) as Hab.
    rewrite !C01EvalProofs.sem_cond, Hfc.
    destruct (sem_expr f s c) as [[v s1]| | |] eqn:Hc; cbn [rmap sbind]; [|split; [reflexivity|discriminate]..].
    rewrite to_boolean_reframe. pose proof (to_boolean_env s1 v) as Hb.
    destruct (to_boolean s1 v) as [bb s2]. cbn [fst snd] in *.
    assert (H2 : s_env s2 = s_env s) by (rewrite Hb; exact (Hec _ _ eq_refl)).
    destruct (IHa f s2 E O Hsa) as [Hfa Hea]; [rewrite H2; exact (agree_app_l _ _ _ _ Hab)|].
    destruct (IHb f s2 E O Hsb) as [Hfb Heb]; [rewrite H2; exact (agree_app_r _ _ _ _ Hab)|].
    destruct bb.
    + rewrite Hfb, Hfa. destruct (sem_expr f s2 b) as [[y s3]| | |]; cbn [rmap sbind];
        [|split; [reflexivity|discriminate]..].
      split; [reflexivity|]. intros v' s' H. rewrite (Hea _ _ H). exact H2.
    + rewrite Hfa, Hfb. destruct (sem_expr f s2 a) as [[y s3]| | |]; cbn [rmap sbind];
        [|split; [reflexivity|discriminate]..].
      split; [reflexivity|]. intros v' s' H. rewrite (Heb _ _ H). exact H2.
Qed.

Lemma tfree_parts T e :
  tfree T e = true -> shape e = true /\ forall h SE, Inv T SE -> agree_on (fv e) (inst h SE) (inst [] SE).
Proof.
  unfold tfree. intros H. apply andb_prop in H. destruct H as [Hs Hm]. split; [exact Hs|].
  intros h SE HI y Hy. rewrite forallb_forall in Hm. specialize (Hm y Hy). apply negb_true_iff in Hm.
  destruct (HI y Hm) as [j Hj]. rewrite !env_get_inst, Hj. reflexivity.
Qed.

(* the key lemma: a T-free expression evaluates alike in every instance of a symbolic state *)
Lemma tfree_mk T e f SE base segs h :
  Inv T SE -> tfree T e = true ->
  sem_expr f (mk SE base segs h) e = rmap (fun s' => mk SE s' segs h) (sem_expr f (reframe (inst [] SE) [] base) e).
Proof.
  intros HI Hx. destruct (tfree_parts T e Hx) as [Hs Hag].
  change (mk SE base segs h)
    with (reframe (inst h SE) (map (fill_holes (escape h)) segs) (reframe (inst [] SE) [] base)).
  rewrite (proj1 (shape_frame e f (reframe (inst [] SE) [] base) (inst h SE) (map (fill_holes (escape h)) segs)
                              Hs (Hag h SE HI))).
  destruct (sem_expr f (reframe (inst [] SE) [] base) e) as [[v s']| | |]; reflexivity.
Qed.

Lemma to_boolean_mk SE base segs h v :
  to_boolean (mk SE base segs h) v = (fst (to_boolean base v), mk SE (snd (to_boolean base v)) segs h).
Proof. unfold mk. apply to_boolean_reframe. Qed.

(* ---- transparent expressions ---------------------------------------------------------------------------------- *)
(* a T-variable, T-free expressions, `+` of such, `c ? a : b` with a T-free test.  Excluded: T-variables under
   && / || (ToBoolean looks into the string: the empty string selects the other operand), comparisons, arithmetic. *)
Fixpoint tp (T : list bytes) (e : jexpr) : bool :=
  tfree T e ||
  match e with
  | JId y => mem y T
  | JBin BAdd a b => tp T a && tp T b
  | JCond c a b => tfree T c && tp T a && tp T b
  | _ => false
  end.

Definition einst (SE : symenv) (segs : list (list seg)) (h : bytes) (r : sres (sval * sstate)) : sres (jv * sstate) :=
  match r with
  | SOk (v, s') => SOk (conc h v, mk SE s' segs h)
  | SErr fl => SErr fl | SOff => SOff | SFuel => SFuel
  end.
Definition lift (r : sres (jv * sstate)) : sres (sval * sstate) :=
  match r with SOk (v, s) => SOk (inl v, s) | SErr fl => SErr fl | SOff => SOff | SFuel => SFuel end.
Lemma einst_lift SE segs h r : rmap (fun s' => mk SE s' segs h) r = einst SE segs h (lift r).
Proof. destruct r as [[v s]| | |]; reflexivity. Qed.

Lemma add_uniform SE segs s2 va vb :
  exists r, forall h, sem_binop (mk SE s2 segs h) BAdd (conc h va) (conc h vb) = einst SE segs h r.
Proof.
  destruct va as [a|ca], vb as [b|cb]; cbn [conc].
  - exists (lift (sem_binop (reframe (inst [] SE) [] s2) BAdd a b)). intros h. rewrite <- einst_lift.
    change (mk SE s2 segs h)
      with (reframe (inst h SE) (map (fill_holes (escape h)) segs) (reframe (inst [] SE) [] s2)).
    rewrite sem_binop_reframe. destruct (sem_binop (reframe (inst [] SE) [] s2) BAdd a b) as [[v s']| | |]; reflexivity.
  - destruct a; try (exists SOff; intros h; reflexivity).
    + exists (SOk (inr (inl (show_Z z) :: cb), flag s2 fl_num_plus_str)). intros h. reflexivity.
    + exists (SOk (inr (inl s :: cb), s2)). intros h. reflexivity.
  - destruct b; try (exists SOff; intros h; reflexivity).
    + exists (SOk (inr (ca ++ [inl (show_Z z)]), s2)). intros h. cbn [sem_binop einst conc].
      rewrite fill_holes_app. cbn. rewrite app_nil_r. reflexivity.
    + exists (SOk (inr (ca ++ [inl s]), s2)). intros h. cbn [sem_binop einst conc].
      rewrite fill_holes_app. cbn. rewrite app_nil_r. reflexivity.
  - exists (SOk (inr (ca ++ cb), s2)). intros h. cbn [sem_binop einst conc]. rewrite fill_holes_app. reflexivity.
Qed.

Lemma tp_uniform T : forall e f SE base segs,
  Inv T SE -> tp T e = true ->
  exists r, forall h, sem_expr f (mk SE base segs h) e = einst SE segs h r.
Proof.
  assert (Hfree : forall e f SE base segs, Inv T SE -> tfree T e = true ->
            exists r, forall h, sem_expr f (mk SE base segs h) e = einst SE segs h r).
  { intros e f SE base segs HI Hx. exists (lift (sem_expr f (reframe (inst [] SE) [] base) e)). intros h.
    rewrite (tfree_mk T e f SE base segs h HI Hx). apply einst_lift. }
  induction e as [y|z|txt|t|parts|b| |es|kvs|e0 IH0 name|e0 IH0 i IHi|fn IHfn args|fn IHfn args|op p a IHa
                 |op l IHl r IHr|c IHc a IHa b IHb|op l IHl r IHr|es|y init];
    intros f SE base segs HI Ht; cbn [tp] in Ht;
    (destruct (tfree T _) eqn:Hx in Ht; [exact (Hfree _ f SE base segs HI Hx)|]); cbn [orb] in Ht;
    try discriminate Ht.
  - (* a T-variable *)
    destruct f as [|f]; [exists SFuel; intros h; reflexivity|].
    exists (SOk (sget SE y, base)). intros h. rewrite sem_id. cbn [einst].
    change (s_env (mk SE base segs h)) with (inst h SE). rewrite env_get_inst. reflexivity.
  - (* + *)
    destruct op; try discriminate Ht. apply andb_prop in Ht. destruct Ht as [Hl Hr].
    destruct f as [|f]; [exists SFuel; intros h; reflexivity|].
    destruct (IHl f SE base segs HI Hl) as [rl Hrl].
    destruct rl as [[va s1]|fl| |]; [|exists (SErr fl)|exists SOff|exists SFuel];
      try (intros h; rewrite (sem_bin f _ BAdd l r eq_refl), (Hrl h); reflexivity).
    destruct (IHr f SE s1 segs HI Hr) as [rr Hrr].
    destruct rr as [[vb s2]|fl| |]; [|exists (SErr fl)|exists SOff|exists SFuel];
      try (intros h; rewrite (sem_bin f _ BAdd l r eq_refl), (Hrl h); cbn [einst sbind]; rewrite (Hrr h); reflexivity).
    destruct (add_uniform SE segs s2 va vb) as [ra Hra]. exists ra. intros h.
    rewrite (sem_bin f _ BAdd l r eq_refl), (Hrl h). cbn [einst sbind]. rewrite (Hrr h). cbn [einst sbind].
    apply Hra.
  - (* ?: with a T-free test *)
    apply andb_prop in Ht. destruct Ht as [Ht Htb]. apply andb_prop in Ht. destruct Ht as [Hc Hta].
    destruct f as [|f]; [exists SFuel; intros h; reflexivity|].
    destruct (sem_expr f (reframe (inst [] SE) [] base) c) as [[v s1]|fl| |] eqn:Ec;
      [|exists (SErr fl)|exists SOff|exists SFuel];
      try (intros h; rewrite C01EvalProofs.sem_cond, (tfree_mk T c f SE base segs h HI Hc), Ec; reflexivity).
    destruct (to_boolean s1 v) as [bb s2] eqn:Eb.
    assert (Hstep : forall h, sem_expr (S f) (mk SE base segs h) (JCond c a b) =
              (sdo _ <- sem_expr f (mk SE s2 segs h) (if bb then b else a);
               sem_expr f (mk SE s2 segs h) (if bb then a else b))).
    { intros h. rewrite C01EvalProofs.sem_cond, (tfree_mk T c f SE base segs h HI Hc), Ec. cbn [rmap sbind].
      rewrite to_boolean_mk, Eb. reflexivity. }
    destruct (IHa f SE s2 segs HI Hta) as [ra Hra]. destruct (IHb f SE s2 segs HI Htb) as [rb Hrb].
    destruct bb.
    + destruct rb as [[vb s3]|fl| |]; [exists ra|exists (SErr fl)|exists SOff|exists SFuel];
        intros h; rewrite (Hstep h), (Hrb h); cbn [einst sbind]; try reflexivity. apply Hra.
    + destruct ra as [[va s3]|fl| |]; [exists rb|exists (SErr fl)|exists SOff|exists SFuel];
        intros h; rewrite (Hstep h), (Hra h); cbn [einst sbind]; try reflexivity. apply Hrb.
Qed.

(* printing *)
Definition pinst (SE : symenv) (segs : list (list seg)) (h : bytes) (r : sres (list seg * sstate))
  : sres (bytes * sstate) :=
  match r with
  | SOk (cs, s') => SOk (fill_holes h cs, mk SE s' segs h)
  | SErr fl => SErr fl | SOff => SOff | SFuel => SFuel
  end.

Lemma print_string_reframe E O s v :
  print_string (reframe E O s) v =
  match print_string s v with
  | SOk (t, s') => SOk (t, reframe E O s') | SErr fl => SErr fl | SOff => SOff | SFuel => SFuel
  end.
Proof.
  destruct v; cbn [print_string]; try reflexivity; unfold tostr; cbn [reframe s_heap];
    match goal with |- context [to_string ?a ?b ?c] => destruct (to_string a b c) end; reflexivity.
Qed.

Lemma print_uniform SE segs s1 sv :
  exists r, forall h, print_string (mk SE s1 segs h) (conc h sv) = pinst SE segs h r.
Proof.
  destruct sv as [v|cs]; cbn [conc].
  - destruct (print_string (reframe (inst [] SE) [] s1) v) as [[t s']|fl| |] eqn:Ep;
      [exists (SOk ([inl t], s'))|exists (SErr fl)|exists SOff|exists SFuel]; intros h;
      change (mk SE s1 segs h)
        with (reframe (inst h SE) (map (fill_holes (escape h)) segs) (reframe (inst [] SE) [] s1));
      rewrite print_string_reframe, Ep; try reflexivity.
    cbn [pinst]. unfold fill_holes. cbn. rewrite app_nil_r. reflexivity.
  - exists (SOk (cs, s1)). intros h. reflexivity.
Qed.

Lemma put_mk SE base segs h cs : put (mk SE base segs h) (fill_holes (escape h) cs) = mk SE base (cs :: segs) h.
Proof. reflexivity. Qed.
Lemma put_mk_lit SE base segs h t : put (mk SE base segs h) t = mk SE base ([inl t] :: segs) h.
Proof. rewrite <- put_mk. unfold fill_holes. cbn [map concat_bytes]. rewrite app_nil_r. reflexivity. Qed.
Lemma with_env_mk SE base segs h y v :
  with_env (mk SE base segs h) (env_set (s_env (mk SE base segs h)) y (conc h v)) = mk (insert y v SE) base segs h.
Proof. unfold env_set. change (s_env (mk SE base segs h)) with (inst h SE). rewrite insert_inst. reflexivity. Qed.

(* ---- the programs: T only in transparent positions ------------------------------------------------------------ *)
(* what may be stored: in a T-variable a transparent expression, in any other variable a T-free expression *)
Definition assign_ok (T : list bytes) (y : bytes) (r : jexpr) : bool := if mem y T then tp T r else tfree T r.

Definition safe_code (T : list bytes) (stmts : list jstmt) (esc : bool) : bool :=
  match stmts with
  | [st] =>
    match st with
    | SExpr e =>
      if esc then Lower.printable e && tp T e
      else match e with
           | JAssign None (JId y) r => assign_ok T y r
           | JUn UInc _ (JId y) => true
           | _ => false
           end
    | SVar ds =>
      match ds with
      | [d] => match d with JVar y (Some i) => negb esc && assign_ok T y i | _ => false end
      | _ => false
      end
    | _ => false
    end
  | _ => false
  end.

(* the control fragment of Pug/Lower.v; no test mentions T; T-variables are printed by escaped buffered code and
   stored into T-variables only, through transparent expressions *)
Fixpoint safe (T : list bytes) (n : pnode) : bool :=
  let all := fix go (l : list pnode) : bool := match l with [] => true | a :: r => safe T a && go r end in
  match n with
  | PComment | PText _ => true
  | PBlock l => all l
  | PTag _ _ attrs ablocks body => match attrs, ablocks with [], [] => all body | _, _ => false end
  | PCode stmts esc _ => safe_code T stmts esc
  | PCond test cons_ alt =>
    tfree T test && all cons_ && match alt with Some a => safe T a | None => true end
  | PWhile test body => tfree T test && all body
  | _ => false
  end.
Definition safe_list (T : list bytes) (l : list pnode) : bool := forallb (safe T) l.

Lemma safe_all T l :
  (fix go (l : list pnode) : bool := match l with [] => true | a :: r => safe T a && go r end) l = safe_list T l.
Proof. induction l as [|a r IH]; [reflexivity|]. cbn [safe_list forallb]. rewrite IH. reflexivity. Qed.

Lemma safe_block T l : safe T (PBlock l) = safe_list T l.
Proof. cbn [safe]. apply safe_all. Qed.
Lemma safe_tag T name il attrs ablocks body :
  safe T (PTag name il attrs ablocks body) = true -> attrs = [] /\ ablocks = [] /\ safe_list T body = true.
Proof.
  cbn [safe]. destruct attrs; [|discriminate]. destruct ablocks; [|discriminate].
  rewrite safe_all. auto.
Qed.
Lemma safe_cond T test cons_ alt :
  safe T (PCond test cons_ alt) = true ->
  tfree T test = true /\ safe_list T cons_ = true /\ match alt with Some a => safe T a = true | None => True end.
Proof.
  cbn [safe]. rewrite safe_all. intros H. apply andb_prop in H. destruct H as [H Ha].
  apply andb_prop in H. destruct H as [Ht Hc]. repeat split; try assumption. destruct alt; [exact Ha|exact I].
Qed.
Lemma safe_while T test body :
  safe T (PWhile test body) = true -> tfree T test = true /\ safe_list T body = true.
Proof. cbn [safe]. rewrite safe_all. intros H. apply andb_prop in H. exact H. Qed.

Inductive code_form (T : list bytes) : list jstmt -> bool -> Prop :=
| CF_print e : Lower.printable e = true -> tp T e = true -> code_form T [SExpr e] true
| CF_assign y r : assign_ok T y r = true -> code_form T [SExpr (JAssign None (JId y) r)] false
| CF_inc y post : code_form T [SExpr (JUn UInc post (JId y))] false
| CF_var y i : assign_ok T y i = true -> code_form T [SVar [JVar y (Some i)]] false.

Lemma safe_code_inv T stmts esc : safe_code T stmts esc = true -> code_form T stmts esc.
Proof.
  unfold safe_code. intros H.
  destruct stmts as [|st [|st2 r]]; try discriminate H.
  destruct st as [e|ds| | |]; try discriminate H.
  - destruct esc.
    + apply andb_prop in H. destruct H as [Hp Ht]. apply CF_print; assumption.
    + destruct e; try discriminate H.
      * destruct op; try discriminate H. destruct e; try discriminate H. apply CF_inc.
      * destruct op; try discriminate H. destruct e1; try discriminate H. apply CF_assign. exact H.
  - destruct ds as [|d [|d2 r]]; try discriminate H.
    destruct d; try discriminate H. destruct init as [i|]; try discriminate H.
    apply andb_prop in H. destruct H as [He Hi].
    destruct esc; [discriminate He|]. apply CF_var. exact Hi.
Qed.

(* ---- uniform outcomes: the runs for all h are the instances of one symbolic outcome ------------------------- *)
Definition sym_out : Type := (symenv * sstate * list (list seg)) * list (bytes * mixin).
Definition ninst (h : bytes) (r : sres sym_out) : sres (sstate * list (bytes * mixin)) :=
  match r with
  | SOk (SE, s', segs', m') => SOk (mk SE s' segs' h, m')
  | SErr fl => SErr fl | SOff => SOff | SFuel => SFuel
  end.
Definition okr (T : list bytes) (r : sres sym_out) : Prop :=
  match r with SOk (SE, _, _, _) => Inv T SE | _ => True end.
Definition U (T : list bytes) (F : bytes -> sres (sstate * list (bytes * mixin))) : Prop :=
  exists r, okr T r /\ forall h, F h = ninst h r.

Lemma U_ext T F G : (forall h, F h = G h) -> U T G -> U T F.
Proof. intros H [r [Ho Hr]]. exists r. split; [exact Ho|]. intros h. rewrite H. apply Hr. Qed.
Lemma U_ret T SE s segs m : Inv T SE -> U T (fun h => SOk (mk SE s segs h, m)).
Proof. intros Hb. exists (SOk (SE, s, segs, m)). split; [exact Hb|]. intros h. reflexivity. Qed.
Lemma U_err T fl : U T (fun _ => SErr fl).
Proof. exists (SErr fl). split; [exact I|]. intros h. reflexivity. Qed.
Lemma U_off T : U T (fun _ => SOff).
Proof. exists SOff. split; [exact I|]. intros h. reflexivity. Qed.
Lemma U_fuel T : U T (fun _ => SFuel).
Proof. exists SFuel. split; [exact I|]. intros h. reflexivity. Qed.

Lemma U_bind T F (K : bytes -> sstate * list (bytes * mixin) -> sres (sstate * list (bytes * mixin))) :
  U T F ->
  (forall SE s segs m, Inv T SE -> U T (fun h => K h (mk SE s segs h, m))) ->
  U T (fun h => sdo a <- F h; K h a).
Proof.
  intros [r [Ho Hr]] HK. destruct r as [[[[SE s] segs] m]|fl| |].
  - apply (U_ext T _ (fun h => K h (mk SE s segs h, m))); [intros h; rewrite Hr; reflexivity|].
    apply HK. exact Ho.
  - apply (U_ext T _ (fun _ => SErr fl)); [intros h; rewrite Hr; reflexivity|apply U_err].
  - apply (U_ext T _ (fun _ => SOff)); [intros h; rewrite Hr; reflexivity|apply U_off].
  - apply (U_ext T _ (fun _ => SFuel)); [intros h; rewrite Hr; reflexivity|apply U_fuel].
Qed.

(* a T-free test in front *)
Lemma U_test T e f SE base segs (K : bytes -> jv * sstate -> sres (sstate * list (bytes * mixin))) :
  Inv T SE -> tfree T e = true ->
  (forall v s1, U T (fun h => K h (v, mk SE s1 segs h))) ->
  U T (fun h => sdo a <- sem_expr f (mk SE base segs h) e; K h a).
Proof.
  intros HI Hx HK.
  destruct (sem_expr f (reframe (inst [] SE) [] base) e) as [[v s1]|fl| |] eqn:Ee.
  - apply (U_ext T _ (fun h => K h (v, mk SE s1 segs h))); [|apply HK].
    intros h. rewrite (tfree_mk T e f SE base segs h HI Hx), Ee. reflexivity.
  - apply (U_ext T _ (fun _ => SErr fl)); [|apply U_err].
    intros h. rewrite (tfree_mk T e f SE base segs h HI Hx), Ee. reflexivity.
  - apply (U_ext T _ (fun _ => SOff)); [|apply U_off].
    intros h. rewrite (tfree_mk T e f SE base segs h HI Hx), Ee. reflexivity.
  - apply (U_ext T _ (fun _ => SFuel)); [|apply U_fuel].
    intros h. rewrite (tfree_mk T e f SE base segs h HI Hx), Ee. reflexivity.
Qed.

(* ---- S on the fragment: induction on S's fuel ------------------------------------------------------------------ *)
Section Main.
  Variable T : list bytes.
  Variable Gl : bytes -> list (bytes * jv).          (* the page data a mixin body would see: not read on the fragment *)

  Definition PU_nodes (f : nat) : Prop := forall ns, safe_list T ns = true -> forall m blk SE base segs,
    Inv T SE -> U T (fun h => sem_nodes (Gl h) f m blk (mk SE base segs h) ns).
  Definition PU_node (f : nat) : Prop := forall n, safe T n = true -> forall m blk SE base segs,
    Inv T SE -> U T (fun h => sem_node (Gl h) f m blk (mk SE base segs h) n).

  Lemma sem_code_nofuel g m blk s st r esc il : sem_node g 1 m blk s (PCode (st :: r) esc il) = SFuel.
  Proof. reflexivity. Qed.
  Lemma sem_nodes_0 g m blk s ns : sem_nodes g 0 m blk s ns = SFuel.
  Proof. reflexivity. Qed.
  Lemma sem_node_0 g m blk s n : sem_node g 0 m blk s n = SFuel.
  Proof. reflexivity. Qed.

  (* `y = r` and `var y = r` *)
  Lemma assign_U y r m SE base segs :
    Inv T SE -> assign_ok T y r = true ->
    U T (fun h => sdo s1 <- (sdo a <- sem_expr efuel (mk SE base segs h) r; let '(v, s1) := a in
                             SOk (with_env s1 (env_set (s_env s1) y v)));
                  SOk (s1, m)).
  Proof.
    intros HI Ha. unfold assign_ok in Ha. destruct (mem y T) eqn:Hy.
    - destruct (tp_uniform T r efuel SE base segs HI Ha) as [re Hre].
      destruct re as [[sv s1]|fl| |];
        [apply (U_ext T _ (fun h => SOk (mk (insert y sv SE) s1 segs h, m)));
           [|apply U_ret; apply Inv_insert_T; assumption]
         |apply (U_ext T _ (fun _ => SErr fl)); [|apply U_err]
         |apply (U_ext T _ (fun _ => SOff)); [|apply U_off]
         |apply (U_ext T _ (fun _ => SFuel)); [|apply U_fuel]];
        intros h; rewrite (Hre h); cbn [einst sbind]; try reflexivity.
      rewrite with_env_mk. reflexivity.
    - destruct (sem_expr efuel (reframe (inst [] SE) [] base) r) as [[v s1]|fl| |] eqn:Ee;
        [apply (U_ext T _ (fun h => SOk (mk (insert y (inl v) SE) s1 segs h, m)));
           [|apply U_ret; apply Inv_insert_const; exact HI]
         |apply (U_ext T _ (fun _ => SErr fl)); [|apply U_err]
         |apply (U_ext T _ (fun _ => SOff)); [|apply U_off]
         |apply (U_ext T _ (fun _ => SFuel)); [|apply U_fuel]];
        intros h; rewrite (tfree_mk T r efuel SE base segs h HI Ha), Ee; cbn [rmap sbind]; try reflexivity.
      exact (f_equal (fun s => SOk (s, m)) (with_env_mk SE s1 segs h y (inl v))).
  Qed.

  Lemma code_U f stmts esc il m blk SE base segs :
    code_form T stmts esc -> Inv T SE ->
    U T (fun h => sem_node (Gl h) (S f) m blk (mk SE base segs h) (PCode stmts esc il)).
  Proof.
    intros Hc HI. destruct f as [|f].
    { apply (U_ext T _ (fun _ => SFuel)); [|apply U_fuel]. intros h. destruct Hc; apply sem_code_nofuel. }
    destruct Hc as [e Hp Ht|y r Hr|y post|y i Hi].
    - (* escaped buffered code *)
      destruct (tp_uniform T e efuel SE base segs HI Ht) as [re Hre].
      destruct re as [[sv s1]|fl| |];
        [|apply (U_ext T _ (fun _ => SErr fl)); [|apply U_err]
         |apply (U_ext T _ (fun _ => SOff)); [|apply U_off]
         |apply (U_ext T _ (fun _ => SFuel)); [|apply U_fuel]];
        try (intros h; rewrite (sem_code_print (Gl h) f m blk _ e true il Hp), (Hre h); reflexivity).
      destruct (print_uniform SE segs s1 sv) as [rp Hrp].
      destruct rp as [[cs s2]|fl| |];
        [|apply (U_ext T _ (fun _ => SErr fl)); [|apply U_err]
         |apply (U_ext T _ (fun _ => SOff)); [|apply U_off]
         |apply (U_ext T _ (fun _ => SFuel)); [|apply U_fuel]];
        try (intros h; rewrite (sem_code_print (Gl h) f m blk _ e true il Hp), (Hre h); cbn [einst sbind];
             rewrite (Hrp h); reflexivity).
      apply (U_ext T _ (fun h => SOk (mk SE s2 (map esc_seg cs :: segs) h, m))); [|apply U_ret; exact HI].
      intros h. rewrite (sem_code_print (Gl h) f m blk _ e true il Hp), (Hre h). cbn [einst sbind].
      rewrite (Hrp h). cbn [pinst sbind]. rewrite escape_fill, put_mk. reflexivity.
    - (* y = r *)
      apply (U_ext T _ (fun h => sdo s1 <- (sdo a <- sem_expr efuel (mk SE base segs h) r; let '(v, s1) := a in
                                            SOk (with_env s1 (env_set (s_env s1) y v)));
                                 SOk (s1, m))); [intros h; apply sem_code_assign|].
      apply assign_U; assumption.
    - (* y++ *)
      assert (Hg : forall h, env_get (s_env (mk SE base segs h)) y = conc h (sget SE y)).
      { intros h. change (s_env (mk SE base segs h)) with (inst h SE). apply env_get_inst. }
      destruct (sget SE y) as [j|cs] eqn:Ey; cbn [conc] in Hg;
        [|apply (U_ext T _ (fun _ => SOff)); [|apply U_off]; intros h; rewrite sem_code_inc, Hg; reflexivity].
      destruct j as [| | |z| | |];
        try (apply (U_ext T _ (fun _ => SOff)); [|apply U_off]; intros h; rewrite sem_code_inc, Hg; reflexivity).
      destruct (in_range (z + 1)) eqn:Er.
      + apply (U_ext T _ (fun h => SOk (mk (insert y (inl (JN (z + 1))) SE) base segs h, m)));
          [|apply U_ret; apply Inv_insert_const; exact HI].
        intros h. rewrite sem_code_inc, Hg. unfold num. rewrite Er. cbn [sbind].
        exact (f_equal (fun s => SOk (s, m)) (with_env_mk SE base segs h y (inl (JN (z + 1))))).
      + apply (U_ext T _ (fun _ => SOff)); [|apply U_off]. intros h. rewrite sem_code_inc, Hg. unfold num.
        rewrite Er. reflexivity.
    - (* var y = i *)
      apply (U_ext T _ (fun h => sdo s1 <- (sdo a <- sem_expr efuel (mk SE base segs h) i; let '(v, s1) := a in
                                            SOk (with_env s1 (env_set (s_env s1) y v)));
                                 SOk (s1, m))); [intros h; apply sem_code_var|].
      apply assign_U; assumption.
  Qed.

  Lemma sem_while_0 g f blk test body b s m : sem_while g f blk test body b 0 s m = SFuel.
  Proof. reflexivity. Qed.

  Lemma while_U f test body :
    PU_nodes f -> tfree T test = true -> safe_list T body = true ->
    forall f2 b m blk SE base segs, Inv T SE ->
      U T (fun h => sem_while (Gl h) f blk test body b f2 (mk SE base segs h) m).
  Proof.
    intros IH Ht Hbody. induction f2 as [|f2 IH2]; intros b m blk SE base segs HI.
    { apply (U_ext T _ (fun _ => SFuel)); [|apply U_fuel]. intros h. apply sem_while_0. }
    apply (U_ext T _ (fun h => sdo a <- sem_expr efuel (mk SE base segs h) test;
                               (fun h (a : jv * sstate) =>
                                  match a with
                                  | (JB true, g1) => after_true (Gl h) f blk test body b f2 g1 m
                                  | (JB false, g1) => SOk (g1, m)
                                  | _ => SOff
                                  end) h a)); [intros h; apply sem_while_step|].
    apply U_test; [exact HI|exact Ht|]. intros v s1. cbv beta.
    destruct v as [| |[|]| | | |]; try apply U_off; [|apply U_ret; exact HI].
    unfold after_true. destruct b as [|b].
    - apply (U_bind T _ (fun h r => let '(s2, _) := r in sdo t <- sem_expr efuel s2 test; SErr (s_flags (snd t)))).
      + apply IH; assumption.
      + intros SE2 s2 segs2 m2 HI2. cbv beta iota.
        apply (U_test T test efuel SE2 s2 segs2 (fun _ t => SErr (s_flags (snd t))) HI2 Ht).
        intros v2 s3. apply (U_ext T _ (fun _ => SErr (s_flags s3))); [intros h; reflexivity|apply U_err].
    - apply (U_bind T _ (fun h r => let '(s2, m2) := r in sem_while (Gl h) f blk test body b f2 s2 m2)).
      + apply IH; assumption.
      + intros SE2 s2 segs2 m2 HI2. cbv beta iota. apply IH2. exact HI2.
  Qed.

  Lemma PU_all f : PU_nodes f /\ PU_node f.
  Proof.
    induction f as [|f [IHns IHn]].
    { split.
      - intros ns _ m blk SE base segs _. apply (U_ext T _ (fun _ => SFuel)); [|apply U_fuel].
        intros h. apply sem_nodes_0.
      - intros n _ m blk SE base segs _. apply (U_ext T _ (fun _ => SFuel)); [|apply U_fuel].
        intros h. apply sem_node_0. }
    split.
    - intros ns Hs m blk SE base segs HI. destruct ns as [|n r].
      + apply (U_ext T _ (fun h => SOk (mk SE base segs h, m))); [|apply U_ret; exact HI].
        intros h. apply sem_nodes_nil.
      + cbn [safe_list forallb] in Hs. apply andb_prop in Hs. destruct Hs as [Hn Hr].
        apply (U_ext T _ (fun h => sdo a <- sem_node (Gl h) f m blk (mk SE base segs h) n;
                                   (fun h (a : sstate * list (bytes * mixin)) =>
                                      let '(s1, m1) := a in sem_nodes (Gl h) f m1 blk s1 r) h a));
          [intros h; apply sem_nodes_cons|].
        apply U_bind; [apply IHn; assumption|].
        intros SE1 s1 segs1 m1 HI1. cbv beta iota. apply IHns; assumption.
    - intros n Hs m blk SE base segs HI.
      destruct n as [name il attrs ablocks body|t|stmts esc il|test cons_ alt| | |test body| | | | |l|];
        try discriminate Hs.
      + (* tag *)
        destruct (safe_tag T _ _ _ _ _ Hs) as (-> & -> & Hbody).
        destruct (mem name void_tags) eqn:Ev.
        * apply (U_ext T _ (fun h => SOk (mk SE base ([inl (B "<" ++ name ++ [] ++ B ">")] :: segs) h, m)));
            [|apply U_ret; exact HI].
          intros h. rewrite sem_tag. cbv zeta. rewrite Ev, put_mk_lit. reflexivity.
        * apply (U_ext T _ (fun h =>
                   sdo a <- sem_nodes (Gl h) f m blk (mk SE base ([inl (B "<" ++ name ++ [] ++ B ">")] :: segs) h) body;
                   (fun (h : bytes) (a : sstate * list (bytes * mixin)) =>
                      let '(s3, m3) := a in SOk (put s3 (B "</" ++ name ++ B ">"), m3)) h a)).
          { intros h. rewrite sem_tag. cbv zeta. rewrite Ev, put_mk_lit. reflexivity. }
          apply U_bind; [apply IHns; assumption|].
          intros SE1 s1 segs1 m1 HI1. cbv beta iota.
          apply (U_ext T _ (fun h => SOk (mk SE1 s1 ([inl (B "</" ++ name ++ B ">")] :: segs1) h, m1)));
            [|apply U_ret; exact HI1].
          intros h. rewrite put_mk_lit. reflexivity.
      + (* text *)
        apply (U_ext T _ (fun h => SOk (mk SE base ([inl t] :: segs) h, m))); [|apply U_ret; exact HI].
        intros h. rewrite sem_text, put_mk_lit. reflexivity.
      + (* code *)
        cbn [safe] in Hs. apply code_U; [apply safe_code_inv; exact Hs|exact HI].
      + (* if / else *)
        destruct (safe_cond T _ _ _ Hs) as (Ht & Hc & Ha).
        apply (U_ext T _ (fun h => sdo a <- sem_expr efuel (mk SE base segs h) test;
                   (fun h (a : jv * sstate) =>
                      let '(v, s1) := a in
                      let '(b, s2) := to_boolean s1 v in
                      if b then sem_nodes (Gl h) f m blk s2 cons_
                      else match alt with Some a' => sem_node (Gl h) f m blk s2 a' | None => SOk (s2, m) end) h a));
          [intros h; apply C02SimProofs.sem_cond|].
        apply U_test; [exact HI|exact Ht|]. intros v s1. cbv beta iota.
        destruct (to_boolean s1 v) as [bb s2] eqn:Eb.
        destruct bb.
        * apply (U_ext T _ (fun h => sem_nodes (Gl h) f m blk (mk SE s2 segs h) cons_)); [|apply IHns; assumption].
          intros h. rewrite to_boolean_mk, Eb. reflexivity.
        * destruct alt as [a'|].
          -- apply (U_ext T _ (fun h => sem_node (Gl h) f m blk (mk SE s2 segs h) a')); [|apply IHn; assumption].
             intros h. rewrite to_boolean_mk, Eb. reflexivity.
          -- apply (U_ext T _ (fun h => SOk (mk SE s2 segs h, m))); [|apply U_ret; exact HI].
             intros h. rewrite to_boolean_mk, Eb. reflexivity.
      + (* while *)
        destruct (safe_while T _ _ Hs) as (Ht & Hbody).
        apply (U_ext T _ (fun h => sem_while (Gl h) f blk test body while_limit f (mk SE base segs h) m));
          [|apply while_U; assumption].
        intros h. apply sem_while_eq.
      + (* block *)
        rewrite safe_block in Hs.
        apply (U_ext T _ (fun h => sem_nodes (Gl h) f m blk (mk SE base segs h) l)); [|apply IHns; assumption].
        intros h. apply sem_block.
      + (* comment *)
        apply (U_ext T _ (fun h => SOk (mk SE base segs h, m))); [|apply U_ret; exact HI].
        intros h. apply sem_comment.
  Qed.
End Main.

(* ---- whole renders of S ------------------------------------------------------------------------------------------ *)
(* the data with the string h at every name of T *)
Definition dset (T : list bytes) (h : bytes) (l : list (bytes * dval)) : list (bytes * dval) :=
  map (fun kv => if mem (fst kv) T then (fst kv, DStr h) else kv) l.
(* its symbolic variables: a hole at the names of T *)
Fixpoint ssenv (T : list bytes) (l : list (bytes * dval)) : symenv :=
  match l with
  | [] => []
  | (k, d) :: r => insert k (if mem k T then inr [inr tt] else inl (sv d)) (ssenv T r)
  end.

Lemma senv_dset T h l : senv_of (dset T h l) = inst h (ssenv T l).
Proof.
  induction l as [|[k d] r IH]; [reflexivity|].
  cbn [dset map fst ssenv]. fold (dset T h r). destruct (mem k T) eqn:Ek; cbn [senv_of]; rewrite IH, <- insert_inst.
  - rewrite conc_hole. reflexivity.
  - reflexivity.
Qed.
Lemma ssenv_Inv T l : Inv T (ssenv T l).
Proof.
  induction l as [|[k d] r IH]; [intros y _; exists JUndef; reflexivity|].
  cbn [ssenv]. destruct (mem k T) eqn:Ek; [apply Inv_insert_T; assumption|apply Inv_insert_const; exact IH].
Qed.
Lemma dset_scalar T h l :
  forallb (fun kv => scalar_d (snd kv)) l = true -> forallb (fun kv => scalar_d (snd kv)) (dset T h l) = true.
Proof.
  induction l as [|[k d] r IH]; [reflexivity|]. cbn [dset map forallb fst snd]. fold (dset T h r).
  intros H. apply andb_prop in H. destruct H as [Hd Hr]. rewrite (IH Hr).
  destruct (mem k T); cbn [snd]; [reflexivity|rewrite Hd; reflexivity].
Qed.
Lemma dset_entries T h l : forallb entry_ok l = true -> forallb entry_ok (dset T h l) = true.
Proof.
  induction l as [|[k d] r IH]; [reflexivity|]. cbn [dset map forallb fst]. fold (dset T h r).
  intros H. apply andb_prop in H. destruct H as [Hd Hr]. rewrite (IH Hr).
  unfold entry_ok in *. cbn [fst snd] in *. apply andb_prop in Hd. destruct Hd as [Hs Hk].
  destruct (mem k T); cbn [fst snd]; rewrite Hk; [reflexivity|rewrite Hs; reflexivity].
Qed.
Lemma dset_data_ok names T h l : data_ok names (DMap l) = true -> data_ok names (DMap (dset T h l)) = true.
Proof.
  cbn [data_ok]. intros H. apply andb_prop in H. destruct H as [He Hg]. rewrite (dset_entries T h l He), Hg. reflexivity.
Qed.

(* the symbolic outcome of a render: segments and the listed-deviation flags, or the prescribed error, ... *)
Inductive sym_final := FOut (cs : list seg) (flags : list nat) | FErr (flags : list nat) | FOff | FNoFuel.
Definition finst (h : bytes) (r : sym_final) : sout :=
  match r with
  | FOut cs fl => SOut (fill_holes (escape h) cs) fl
  | FErr fl => SError fl
  | FOff => SOffDomain
  | FNoFuel => SNoFuel
  end.

Lemma soutput_mk SE s segs h : soutput (mk SE s segs h) = fill_holes (escape h) (concat (rev segs)).
Proof. unfold soutput. cbn [mk reframe s_out]. rewrite <- map_rev. apply concat_fill. Qed.

Theorem S_marker T nodes l :
  safe_list T nodes = true -> forallb (fun kv => scalar_d (snd kv)) l = true ->
  exists r, forall h, sem_run nodes (sd_top (DMap (dset T h l))) = finst h r.
Proof.
  intros Hs Hsc.
  destruct (proj1 (PU_all T (fun h => senv_of (dset T h l)) sem_fuel) nodes Hs [] None (ssenv T l) (g_init l) []
                  (ssenv_Inv T l)) as [r [_ Hr]].
  assert (Hi : forall h, g_init (dset T h l) = mk (ssenv T l) (g_init l) [] h).
  { intros h. unfold g_init. rewrite senv_dset. reflexivity. }
  destruct r as [[[[SE s] segs] m]|fl| |];
    [exists (FOut (concat (rev segs)) (s_flags s))|exists (FErr fl)|exists FOff|exists FNoFuel];
    intros h; rewrite (sem_run_scalar nodes (dset T h l) (dset_scalar T h l Hsc)), Hi, (Hr h); cbn [ninst finst];
    try reflexivity.
  rewrite soutput_mk. reflexivity.
Qed.

(* ---- transfer to the executor model ------------------------------------------------------------------------------- *)
Theorem M_marker funcs names T nodes t l :
  lower_nodes funcs (goodS funcs names) nodes = Some t -> safe_list T nodes = true ->
  data_ok names (DMap l) = true ->
  exists r, forall h,
    sem_run nodes (sd_top (DMap (dset T h l))) = finst h r /\
    match r with
    | FOut cs [] => run_program {| p_main := t; p_defs := [] |} (DMap (dset T h l)) = OOk (fill_holes (escape h) cs) \/
                    run_program {| p_main := t; p_defs := [] |} (DMap (dset T h l)) = OFuel
    | FErr [] => run_program {| p_main := t; p_defs := [] |} (DMap (dset T h l)) = OPanic \/
                 run_program {| p_main := t; p_defs := [] |} (DMap (dset T h l)) = OFuel
    | _ => True
    end.
Proof.
  intros Hl Hs Hd.
  assert (Hsc : forallb (fun kv => scalar_d (snd kv)) l = true).
  { cbn [data_ok] in Hd. apply andb_prop in Hd. destruct Hd as [He _]. exact (entries_scalar l He). }
  destruct (S_marker T nodes l Hs Hsc) as [r Hr]. exists r. intros h. split; [apply Hr|].
  pose proof (program_scalar funcs names nodes t (DMap (dset T h l)) Hl (dset_data_ok names T h l Hd)) as Hp.
  rewrite (Hr h) in Hp. destruct r as [cs [|k fl]|[|k fl]| |]; cbn [finst] in Hp; try exact I; exact Hp.
Qed.

(* ---- the marker form ------------------------------------------------------------------------------------------------ *)
Lemma escape_plain m : existsb is_special m = false -> escape m = m.
Proof.
  induction m as [|c m IH]; [reflexivity|]. cbn [existsb]. intros H. apply orb_false_iff in H. destruct H as [Hc Hm].
  change (escape (c :: m)) with (esc_char c ++ escape m). rewrite (IH Hm).
  unfold is_special in Hc. repeat (apply orb_false_iff in Hc; destruct Hc as [Hc ?]).
  unfold esc_char. repeat match goal with H : Ascii.eqb _ _ = false |- _ => rewrite H; clear H end. reflexivity.
Qed.

Lemma prefixb_self m rest : prefixb m (m ++ rest) = true.
Proof. apply prefixb_spec. exists rest. reflexivity. Qed.
Lemma skipn_self {A} (m rest : list A) : skipn (length m) (m ++ rest) = rest.
Proof. induction m as [|c m IH]; [reflexivity|exact IH]. Qed.

Section Subst.
  Variables (c0 : ascii) (m' r : bytes).
  Let m := c0 :: m'.

  Lemma replace_lit s : ~ In c0 s -> forall f rest,
    replace_all_fuel (length s + f) m r (s ++ rest) = s ++ replace_all_fuel f m r rest.
  Proof.
    induction s as [|c s IH]; intros Hn f rest; [reflexivity|].
    cbn [length Nat.add app replace_all_fuel]. unfold m at 1. cbn [prefixb].
    assert (Hc : Ascii.eqb c0 c = false).
    { apply Ascii.eqb_neq. intros ->. apply Hn. left; reflexivity. }
    rewrite Hc. rewrite IH; [reflexivity|]. intros Hi. apply Hn. right; exact Hi.
  Qed.
  Lemma replace_hole f rest : replace_all_fuel (S f) m r (m ++ rest) = r ++ replace_all_fuel f m r rest.
  Proof.
    cbn [replace_all_fuel]. change (m ++ rest) with (c0 :: (m' ++ rest)) at 1.
    cbv iota. change (c0 :: m' ++ rest) with (m ++ rest). rewrite prefixb_self, skipn_self. reflexivity.
  Qed.
  Lemma replace_nil f : replace_all_fuel f m r [] = [].
  Proof. destruct f; reflexivity. Qed.

  Lemma replace_fill cs : ~ In c0 (fill_holes [] cs) -> forall f,
    (length (fill_holes m cs) <= f)%nat -> replace_all_fuel f m r (fill_holes m cs) = fill_holes r cs.
  Proof.
    induction cs as [|c cs IH]; intros Hn f Hf; [apply replace_nil|].
    rewrite fill_holes_cons in Hn, Hf. rewrite !fill_holes_cons.
    assert (Hn2 : ~ In c0 (fill_holes [] cs)) by (intros Hi; apply Hn, in_or_app; right; exact Hi).
    destruct c as [s|u].
    - rewrite app_length in Hf.
      replace f with (length s + (f - length s))%nat by lia.
      rewrite replace_lit; [|intros Hi; apply Hn, in_or_app; left; exact Hi].
      rewrite (IH Hn2) by lia. reflexivity.
    - rewrite app_length in Hf. unfold m in Hf at 1. cbn [length] in Hf.
      destruct f as [|f]; [lia|]. rewrite replace_hole, (IH Hn2) by lia. reflexivity.
  Qed.
End Subst.

(* a marker whose first byte occurs in no literal chunk (equivalently: not in the rendering with the empty
   string) and that holds none of the five characters: substituting escape h for it gives the rendering with h *)
Lemma replace_all_unfold old new s : replace_all old new s = replace_all_fuel (S (length s)) old new s.
Proof. Local Transparent replace_all. reflexivity. Qed.
Local Opaque replace_all.

Lemma marker_subst cs c0 m' h :
  existsb is_special (c0 :: m') = false -> ~ In c0 (fill_holes [] cs) ->
  fill_holes (escape h) cs = replace_all (c0 :: m') (escape h) (fill_holes (escape (c0 :: m')) cs).
Proof.
  intros Hsp Hn. rewrite (escape_plain _ Hsp), replace_all_unfold.
  symmetry. apply replace_fill; [exact Hn|lia].
Qed.

(* that the marker does not occur in the literal chunks is not enough *)
Example marker_overlap_refuted :
  let cs : list seg := [inl (B "ab"); inr tt] in let m := B "aba" in let h := B "x" in
  forallb (fun s => negb (containsb m s)) (chunks_of cs) = true /\
  fill_holes (escape h) cs <> replace_all m (escape h) (fill_holes (escape m) cs).
Proof. vm_compute. split; [reflexivity|discriminate]. Qed.

Theorem S_marker_subst T nodes l c0 m' o0 fl :
  safe_list T nodes = true -> forallb (fun kv => scalar_d (snd kv)) l = true ->
  existsb is_special (c0 :: m') = false ->
  sem_run nodes (sd_top (DMap (dset T [] l))) = SOut o0 fl -> ~ In c0 o0 ->
  exists om, sem_run nodes (sd_top (DMap (dset T (c0 :: m') l))) = SOut om fl /\
    forall h, sem_run nodes (sd_top (DMap (dset T h l))) = SOut (replace_all (c0 :: m') (escape h) om) fl.
Proof.
  intros Hs Hsc Hsp H0 Hn. destruct (S_marker T nodes l Hs Hsc) as [r Hr].
  rewrite (Hr []) in H0. destruct r as [cs fl'| | |]; try discriminate H0. cbn [finst] in H0.
  injection H0 as <- <-. exists (fill_holes (escape (c0 :: m')) cs). split; [apply Hr|].
  intros h. rewrite (Hr h). cbn [finst]. rewrite <- (marker_subst cs c0 m' h Hsp Hn). reflexivity.
Qed.

Theorem M_marker_subst funcs names T nodes t l c0 m' o0 :
  lower_nodes funcs (goodS funcs names) nodes = Some t -> safe_list T nodes = true ->
  data_ok names (DMap l) = true ->
  existsb is_special (c0 :: m') = false ->
  sem_run nodes (sd_top (DMap (dset T [] l))) = SOut o0 [] -> ~ In c0 o0 ->
  forall h om oh,
    run_program {| p_main := t; p_defs := [] |} (DMap (dset T (c0 :: m') l)) = OOk om ->
    run_program {| p_main := t; p_defs := [] |} (DMap (dset T h l)) = OOk oh ->
    oh = replace_all (c0 :: m') (escape h) om.
Proof.
  intros Hl Hs Hd Hsp H0 Hn h om oh Hm Hh.
  destruct (M_marker funcs names T nodes t l Hl Hs Hd) as [r Hr].
  destruct (Hr []) as [Hr0 _]. rewrite Hr0 in H0. destruct r as [cs fl'| | |]; try discriminate H0.
  cbn [finst] in H0. injection H0 as <- ->.
  destruct (Hr (c0 :: m')) as [_ [Hrm|Hrm]]; [|congruence]. destruct (Hr h) as [_ [Hrh|Hrh]]; [|congruence].
  rewrite Hm in Hrm. rewrite Hh in Hrh. injection Hrm as ->. injection Hrh as ->.
  apply marker_subst; assumption.
Qed.

(* ---- non-vacuity: the hostile data variable hs and the variable hx declared from it and growing in the loop; a
   while with ++, an if / else inside it, a tag; five transparent positions ----------------------------------------- *)
Definition k_T : list bytes := [B "hs"; B "hx"].
Definition k_names : list bytes := [B "n"; B "i"; B "hs"; B "hx"].
Definition k_h : bytes := B "<script>""'&".
Definition k_m : bytes := B "@@M".
Definition k_data : list (bytes * dval) := [(B "n", DInt 3); (B "hs", DStr (B "seed"))].
Definition k_nodes : list pnode :=
  [PCode [SVar [JVar (B "i") (Some (JNum 0))]] false false;
   PCode [SVar [JVar (B "hx") (Some (JBin BAdd (JBin BAdd (JStr (B "[")) (JId (B "hs"))) (JStr (B "]"))))]] false false;
   PWhile (JBin BLt (JId (B "i")) (JId (B "n")))
     [PCode [SExpr (JUn UInc true (JId (B "i")))] false false;
      PTag (B "p") false [] []
        [PCode [SExpr (JBin BAdd (JBin BAdd (JStr (B "v")) (JId (B "hs"))) (JId (B "i")))] true true];
      PCond (JBin BSEq (JId (B "i")) (JNum 2)) [PText (B " two ")]
        (Some (PBlock [PCode [SExpr (JId (B "hx"))] true true]));
      PCode [SExpr (JAssign None (JId (B "hx")) (JBin BAdd (JId (B "hx")) (JId (B "i"))))] false false];
   PCode [SExpr (JBin BAdd (JId (B "hs")) (JStr (B "!")))] true true;
   PCode [SExpr (JId (B "hx"))] true true].
Definition k_cs : list seg :=
  [inl (B "<p>v"); inr tt; inl (B "1</p>["); inr tt; inl (B "]");
   inl (B "<p>v"); inr tt; inl (B "2</p> two ");
   inl (B "<p>v"); inr tt; inl (B "3</p>["); inr tt; inl (B "]12");
   inr tt; inl (B "!["); inr tt; inl (B "]123")].

Example k_both_sides :
  safe_list k_T k_nodes = true /\ data_ok k_names (DMap k_data) = true /\
  sem_run k_nodes (sd_top (DMap (dset k_T k_h k_data))) = SOut (fill_holes (escape k_h) k_cs) [] /\
  fill_holes (escape k_h) k_cs =
    B "<p>v&lt;script&gt;&#34;&#39;&amp;1</p>[&lt;script&gt;&#34;&#39;&amp;]<p>v&lt;script&gt;&#34;&#39;&amp;2</p> two <p>v&lt;script&gt;&#34;&#39;&amp;3</p>[&lt;script&gt;&#34;&#39;&amp;]12&lt;script&gt;&#34;&#39;&amp;![&lt;script&gt;&#34;&#39;&amp;]123" /\
  match lower_nodes ex_funcs (goodS ex_funcs k_names) k_nodes with
  | Some t =>
    run_program {| p_main := t; p_defs := [] |} (DMap (dset k_T k_h k_data)) = OOk (fill_holes (escape k_h) k_cs) /\
    run_program {| p_main := t; p_defs := [] |} (DMap (dset k_T k_m k_data)) = OOk (fill_holes k_m k_cs) /\
    fill_holes (escape k_h) k_cs = replace_all k_m (escape k_h) (fill_holes k_m k_cs)
  | None => False
  end.
Proof. vm_compute. repeat split; reflexivity. Qed.

(* the theorems apply to it: for EVERY string at hs *)
Example k_theorem_applies :
  exists t, lower_nodes ex_funcs (goodS ex_funcs k_names) k_nodes = Some t /\
    (exists cs, forall h,
       sem_run k_nodes (sd_top (DMap (dset k_T h k_data))) = SOut (fill_holes (escape h) cs) [] /\
       (run_program {| p_main := t; p_defs := [] |} (DMap (dset k_T h k_data)) = OOk (fill_holes (escape h) cs) \/
        run_program {| p_main := t; p_defs := [] |} (DMap (dset k_T h k_data)) = OFuel)) /\
    (forall h om oh,
       run_program {| p_main := t; p_defs := [] |} (DMap (dset k_T k_m k_data)) = OOk om ->
       run_program {| p_main := t; p_defs := [] |} (DMap (dset k_T h k_data)) = OOk oh ->
       oh = replace_all k_m (escape h) om).
Proof.
  destruct (lower_nodes ex_funcs (goodS ex_funcs k_names) k_nodes) as [t|] eqn:Hl; [|vm_compute in Hl; discriminate Hl].
  exists t. split; [reflexivity|].
  assert (Hs : safe_list k_T k_nodes = true) by (vm_compute; reflexivity).
  assert (Hd : data_ok k_names (DMap k_data) = true) by (vm_compute; reflexivity).
  split.
  - destruct (M_marker ex_funcs k_names k_T k_nodes t k_data Hl Hs Hd) as [r Hr].
    assert (H0 : sem_run k_nodes (sd_top (DMap (dset k_T k_h k_data))) = SOut (fill_holes (escape k_h) k_cs) [])
      by exact (proj1 (proj2 (proj2 k_both_sides))).
    rewrite (proj1 (Hr k_h)) in H0. destruct r as [cs fl| | |]; try discriminate H0. cbn [finst] in H0.
    injection H0 as _ ->. exists cs. intros h. exact (Hr h).
  - assert (H0 : sem_run k_nodes (sd_top (DMap (dset k_T [] k_data))) =
                 SOut (B "<p>v1</p>[]<p>v2</p> two <p>v3</p>[]12![]123") []) by (vm_compute; reflexivity).
    apply (M_marker_subst ex_funcs k_names k_T k_nodes t k_data "@"%char (B "@M") _ Hl Hs Hd eq_refl H0).
    vm_compute. intros H. repeat (destruct H as [H|H]; [discriminate H|]). exact H.
Qed.
