From PV Require Import Base.Bytes Models.Assets.

(* ------------------------------------------------------------------ split / join *)

Definition noslash (c : bytes) : Prop := ~ In slash c.

Lemma split_slash_ne p : split_slash p <> [].
Proof.
  destruct p as [|c r]; simpl; [discriminate|].
  destruct (Ascii.eqb c slash); [discriminate|].
  destruct (split_slash r); discriminate.
Qed.

Lemma split_slash_noslash p : Forall noslash (split_slash p).
Proof.
  induction p as [|c r IH]; simpl.
  - constructor; [intros []|constructor].
  - destruct (Ascii.eqb c slash) eqn:E.
    + constructor; [intros []|exact IH].
    + apply Ascii.eqb_neq in E.
      destruct (split_slash r) as [|x xs].
      * constructor; [|constructor]. intros [H|[]]; congruence.
      * inversion IH as [|? ? Hx Hxs]; subst.
        constructor; [|exact Hxs]. intros [H|H]; [congruence|exact (Hx H)].
Qed.

Lemma split_noslash x : noslash x -> split_slash x = [x].
Proof.
  induction x as [|c r IH]; simpl; intros Hn; [reflexivity|].
  destruct (Ascii.eqb c slash) eqn:E.
  - apply Ascii.eqb_eq in E; subst c. exfalso; apply Hn; left; reflexivity.
  - rewrite IH; [reflexivity|]. intros H; apply Hn; right; exact H.
Qed.

Lemma split_app x s : noslash x -> split_slash (x ++ slash :: s) = x :: split_slash s.
Proof.
  induction x as [|c r IH]; simpl; intros Hn.
  - try rewrite Ascii.eqb_refl; reflexivity.
  - destruct (Ascii.eqb c slash) eqn:E.
    + apply Ascii.eqb_eq in E; subst c. exfalso; apply Hn; left; reflexivity.
    + rewrite IH; [reflexivity|]. intros H; apply Hn; right; exact H.
Qed.

Lemma split_join l : l <> [] -> Forall noslash l -> split_slash (join [slash] l) = l.
Proof.
  induction l as [|x r IH]; intros Hne Hall; [congruence|].
  inversion Hall as [|? ? Hx Hr]; subst.
  destruct r as [|y r'].
  - simpl. apply split_noslash; exact Hx.
  - change (join [slash] (x :: y :: r')) with (x ++ slash :: join [slash] (y :: r')).
    rewrite split_app by exact Hx.
    rewrite IH; [reflexivity|discriminate|exact Hr].
Qed.

(* ------------------------------------------------------------------ clean on rooted paths *)

Definition good (c : bytes) : Prop := okcomp c = true /\ noslash c.

Lemma clean_step_good st c :
  Forall good st -> noslash c -> Forall good (clean_step true st c).
Proof.
  intros Hst Hc. unfold clean_step.
  destruct (beqb c [] || beqb c dot) eqn:E1; [exact Hst|].
  destruct (beqb c dotdot) eqn:E2.
  - destruct st as [|t st']; [constructor|].
    simpl. inversion Hst; subst; assumption.
  - constructor; [|exact Hst]. split; [|exact Hc].
    unfold okcomp. apply orb_false_iff in E1. destruct E1 as [Ea Eb].
    rewrite Ea, Eb, E2. reflexivity.
Qed.

Lemma fold_clean_good cs : forall st,
  Forall good st -> Forall noslash cs ->
  Forall good (fold_left (clean_step true) cs st).
Proof.
  induction cs as [|c r IH]; simpl; intros st Hst Hcs; [exact Hst|].
  inversion Hcs; subst. apply IH; [apply clean_step_good|]; assumption.
Qed.

Lemma Forall_good_rev l : Forall good l -> Forall good (rev l).
Proof.
  intros H. apply Forall_forall. intros x Hx. apply in_rev in Hx.
  exact (proj1 (Forall_forall _ _) H x Hx).
Qed.

Lemma good_forallb l : Forall good l -> forallb okcomp l = true.
Proof.
  intros H. apply forallb_forall. intros x Hx.
  exact (proj1 (proj1 (Forall_forall _ _) H x Hx)).
Qed.

Lemma good_noslash l : Forall good l -> Forall noslash l.
Proof.
  intros H. apply Forall_forall. intros x Hx.
  exact (proj2 (proj1 (Forall_forall _ _) H x Hx)).
Qed.

(* the shape of Clean's result on any rooted input *)
Lemma clean_rooted_shape p :
  exists comps, clean (slash :: p) = slash :: join [slash] comps /\ Forall good comps.
Proof.
  unfold clean. rewrite Ascii.eqb_refl.
  exists (rev (fold_left (clean_step true) (split_slash (slash :: p)) [])).
  split; [reflexivity|].
  apply Forall_good_rev. apply fold_clean_good; [constructor|apply split_slash_noslash].
Qed.

Lemma inside_of_shape comps :
  Forall good comps -> inside (slash :: join [slash] comps) = true.
Proof.
  intros Hg. unfold inside. rewrite Ascii.eqb_refl. simpl.
  destruct (join [slash] comps) as [|a r] eqn:Ej; [reflexivity|].
  rewrite <- Ej.
  destruct comps as [|x xs]; [discriminate Ej|].
  rewrite split_join; [apply good_forallb; exact Hg|discriminate|apply good_noslash; exact Hg].
Qed.

Theorem clean_rooted_inside p : inside (clean (slash :: p)) = true.
Proof.
  destruct (clean_rooted_shape p) as [comps [E Hg]].
  rewrite E. apply inside_of_shape; exact Hg.
Qed.

Lemma okcomp_not_dotdot c : okcomp c = true -> beqb dotdot c = false.
Proof.
  unfold okcomp. intros H. apply negb_true_iff in H.
  apply orb_false_iff in H. destruct H as [_ H].
  apply beqb_neq. apply beqb_neq in H. congruence.
Qed.

Lemma good_mem_dotdot l : Forall good l -> mem dotdot l = false.
Proof.
  induction l as [|x r IH]; intros H; [reflexivity|].
  inversion H as [|? ? Hx Hr]; subst. unfold mem; simpl.
  rewrite (okcomp_not_dotdot x (proj1 Hx)). exact (IH Hr).
Qed.

(* rooted, and ".." is not among its components *)
Theorem clean_rooted p :
  prefixb [slash] (clean (slash :: p)) = true /\
  mem dotdot (split_slash (clean (slash :: p))) = false.
Proof.
  destruct (clean_rooted_shape p) as [comps [E Hg]]. rewrite E. split.
  - reflexivity.
  - change (split_slash (slash :: join [slash] comps))
      with ([] :: split_slash (join [slash] comps)).
    change (mem dotdot ([] :: split_slash (join [slash] comps)))
      with (beqb dotdot [] || mem dotdot (split_slash (join [slash] comps))).
    replace (beqb dotdot []) with false by (symmetry; apply beqb_neq; discriminate).
    simpl orb. destruct comps as [|x xs]; [reflexivity|].
    rewrite split_join; [apply good_mem_dotdot; exact Hg|discriminate|apply good_noslash; exact Hg].
Qed.

Theorem resolve_inside req : inside (resolve req) = true.
Proof. unfold resolve, dir_path. apply clean_rooted_inside. Qed.

(* ------------------------------------------------------------------ serving *)

Lemma afs_open_never_dir t n : afs_open t n <> ODir.
Proof.
  unfold afs_open. destruct (dir_open t (afs_path n)); discriminate.
Qed.

Lemma afs_open_reg t n b :
  afs_open t n = OReg b ->
  lookup (dir_path (afs_path n)) t = Some (Reg b) /\ has_nul (dir_path (afs_path n)) = false.
Proof.
  unfold afs_open, dir_open.
  destruct (has_nul (dir_path (afs_path n))) eqn:En; [discriminate|].
  destruct (lookup (dir_path (afs_path n)) t) as [[c|]|] eqn:El; try discriminate.
  intros H; inversion H; subst. split; reflexivity.
Qed.

(* serveFile over a file system that never hands out a directory *)
Lemma serve_file_nodir fs url name :
  (forall n, fs n <> ODir) ->
  match serve_file fs url name with
  | File b => fs name = OReg b /\ suffixb index_page url = false /\ ends_slash url = false
  | Listing => False
  | _ => True
  end.
Proof.
  intros Hnd. unfold serve_file.
  destruct (suffixb index_page url) eqn:Ei; [exact I|].
  destruct (fs name) as [b| | |] eqn:Ef.
  - destruct (ends_slash url) eqn:Es.
    + destruct (beqb (base url) [slash] || beqb (base url) dot); exact I.
    + repeat split; reflexivity.
  - exfalso; exact (Hnd name Ef).
  - exact I.
  - exact I.
Qed.

Lemma handler_cases t dec :
  match handler t dec with
  | File b => lookup (resolve dec) t = Some (Reg b) /\ has_nul (resolve dec) = false /\
              suffixb index_page (rooted dec) = false /\ ends_slash (rooted dec) = false
  | Listing => False
  | _ => True
  end.
Proof.
  unfold handler.
  pose proof (serve_file_nodir (afs_open t) (rooted dec) (clean (rooted dec))
                               (afs_open_never_dir t)) as H.
  destruct (serve_file (afs_open t) (rooted dec) (clean (rooted dec))) as [b| | | | |]; try exact H.
  destruct H as [Ho [Hi Hs]].
  apply afs_open_reg in Ho. destruct Ho as [Hl Hn].
  unfold resolve, fs_name. repeat split; assumption.
Qed.

(* a File answer carries exactly the bytes of the regular file at [resolve dec],
   which lies inside dist; a listing is impossible; every other answer is a
   constructor without bytes *)
Theorem only_file_bytes t m dec :
  match serve_at t m dec with
  | File b => lookup (resolve dec) t = Some (Reg b) /\ inside (resolve dec) = true
  | Listing => False
  | Redirect | NotFound | ServerError | BadRequest => True
  end.
Proof.
  destruct m; simpl; try exact I.
  pose proof (handler_cases t dec) as H.
  destruct (handler t dec); try exact H.
  destruct H as [Hl _]. split; [exact Hl|apply resolve_inside].
Qed.

Theorem no_listing t m dec :
  serve_at t m dec <> Listing /\
  (lookup (resolve dec) t = Some Dir -> content (serve_at t m dec) = None).
Proof.
  pose proof (only_file_bytes t m dec) as H. split.
  - intros E. rewrite E in H. exact H.
  - intros Hd. destruct (serve_at t m dec); try reflexivity.
    destruct H as [Hl _]. rewrite Hl in Hd. discriminate.
Qed.

(* the other direction: the handler does serve a regular file below dist *)
Theorem handler_serves t dec b :
  lookup (resolve dec) t = Some (Reg b) -> has_nul (resolve dec) = false ->
  suffixb index_page (rooted dec) = false -> ends_slash (rooted dec) = false ->
  handler t dec = File b.
Proof.
  intros Hl Hn Hi Hs. unfold handler, serve_file. rewrite Hi.
  unfold afs_open, dir_open.
  change (dir_path (afs_path (clean (rooted dec)))) with (resolve dec).
  rewrite Hn, Hl, Hs. reflexivity.
Qed.

(* from the raw request target *)
Theorem raw_only_file_bytes t raw :
  match serve t raw with
  | File b => exists dec, pct_decode raw = Some dec /\
                          lookup (resolve dec) t = Some (Reg b) /\ inside (resolve dec) = true
  | Listing => False
  | Redirect | NotFound | ServerError | BadRequest => True
  end.
Proof.
  unfold serve. destruct (pct_decode raw) as [dec|]; [|exact I].
  pose proof (only_file_bytes t (mux_decide raw) dec) as H.
  destruct (serve_at t (mux_decide raw) dec); try exact H.
  exists dec. destruct H as [Hl Hin]. repeat split; assumption.
Qed.

(* ------------------------------------------------------------------ CORS *)

Theorem cors_correct wl hdr : cors wl hdr = cors_spec_req wl (origin_of hdr).
Proof. destruct hdr as [|a r]; reflexivity. Qed.

Theorem cors_sound wl hdr v :
  cors wl hdr = Some v <-> v = hdr /\ hdr <> [] /\ (In hdr wl \/ In (B "*") wl).
Proof.
  unfold cors. destruct hdr as [|a r].
  - simpl. split; [discriminate|intros [_ [H _]]; congruence].
  - change (nonemptyb (a :: r)) with true. rewrite andb_true_l.
    destruct (mem (a :: r) wl) eqn:E1; [|destruct (mem (B "*") wl) eqn:E2]; cbv [orb].
    + apply mem_In in E1. split.
      * intros H; inversion H; subst. split; [reflexivity|split; [discriminate|left; exact E1]].
      * intros [-> _]; reflexivity.
    + apply mem_In in E2. split.
      * intros H; inversion H; subst. split; [reflexivity|split; [discriminate|right; exact E2]].
      * intros [-> _]; reflexivity.
    + apply mem_false_In in E1. apply mem_false_In in E2. split; [discriminate|].
      intros [_ [_ [H|H]]]; contradiction.
Qed.

Theorem acao_only_when_whitelisted m wl hdr v :
  acao_at m wl hdr = Some v -> v = hdr /\ hdr <> [] /\ (In hdr wl \/ In (B "*") wl).
Proof.
  destruct m; simpl; try discriminate. apply cors_sound.
Qed.

(* the test of the pinned tree is not the specification *)
Theorem cors_unrepaired_refuted :
  (* an origin that is in no whitelist entry is accepted *)
  (cors_unrepaired [B "a"; B "b"] (B "a!b") = Some (B "a!b") /\
   cors_spec_req [B "a"; B "b"] (origin_of (B "a!b")) = None) /\
  (* no Origin, empty whitelist: the header is set (to the empty string) *)
  (cors_unrepaired [] [] = Some [] /\ cors_spec_req [] (origin_of []) = None) /\
  (* no Origin, wildcard: the header is set to the empty string *)
  (cors_unrepaired [B "*"] [] = Some [] /\ cors_spec_req [B "*"] (origin_of []) = None).
Proof. vm_compute. repeat split; reflexivity. Qed.

(* ------------------------------------------------------------------ non-vacuity *)

Definition nv_tree : tree :=
  [ (B "/", Dir); (B "/a.txt", Reg (B "AAAA")); (B "/sub", Dir);
    (B "/sub/b.js", Reg (B "BBBB")); (B "/sub/index.html", Reg (B "IDX"));
    (B "/xy", Reg (B "XY")); (B "/assets", Reg (B "NAMED")) ].

Example nv_file : serve nv_tree (B "/assets/sub/b.js") = File (B "BBBB").
Proof. vm_compute. reflexivity. Qed.

Example nv_file_encoded : serve nv_tree (B "/%61ssets/sub/%2e%2e/a.txt") = File (B "AAAA").
Proof. vm_compute. reflexivity. Qed.

Example nv_dir : serve nv_tree (B "/assets/sub") = ServerError /\
                 serve nv_tree (B "/assets/sub/") = ServerError /\
                 lookup (resolve (B "/assets/sub/")) nv_tree = Some Dir.
Proof. vm_compute. repeat split; reflexivity. Qed.

(* the listing branch of the modelled serveFile is live: plain http.Dir lists
   the directory, or serves its index.html; only assetFileSystem prevents it *)
Example nv_listing_without_afs :
  serve_file (dir_open nv_tree) (B "/") (B "/") = Listing /\
  serve_file (dir_open nv_tree) (B "/sub/") (B "/sub") = File (B "IDX").
Proof. vm_compute. split; reflexivity. Qed.

Example nv_escape_attempts :
  resolve (B "/assets/../../canary.txt") = B "/canary.txt" /\
  serve nv_tree (B "/assets/%2e%2e/%2e%2e/canary.txt") = NotFound /\
  serve nv_tree (B "/assets/../../canary.txt") = Redirect /\
  serve nv_tree (B "/assets/..%2f..%2fcanary.txt") = NotFound /\
  serve nv_tree (B "/assets%2fa.txt") = NotFound /\
  serve nv_tree (B "/assets/%zz") = BadRequest /\
  serve nv_tree (B "/assets/%00") = ServerError.
Proof. vm_compute. repeat split; reflexivity. Qed.

(* the quirk of strings.Replace(.., 1) on a path that does not start with the
   prefix: still inside dist *)
Example nv_second_prefix :
  resolve (B "/assets/../x/assets/y") = B "/xy" /\
  serve nv_tree (B "/assets/%2e%2e/x/assets/y") = File (B "XY") /\
  serve nv_tree (B "/assets/") = Redirect /\
  serve nv_tree (B "/assets/%2e/") = ServerError /\
  serve nv_tree (B "/assets/sub/index.html") = Redirect.
Proof. vm_compute. repeat split; reflexivity. Qed.

Example nv_clean :
  clean (B "/assets/../../a//b/./c/") = B "/a/b/c" /\ clean (B "a/../../b") = B "../b" /\
  clean [] = B "." /\ clean (B "///") = B "/" /\ clean (B "/..") = B "/" /\
  inside (B "/a/../b") = false /\ inside (B "a") = false /\ inside (B "/a//b") = false /\
  inside (B "/a/b") = true.
Proof. vm_compute. repeat split; reflexivity. Qed.

Example nv_cors :
  cors [B "http://a"; B "http://b"] (B "http://b") = Some (B "http://b") /\
  cors [B "http://a"] (B "http://b") = None /\
  cors [B "x"; B "*"] (B "http://b") = Some (B "http://b") /\
  cors [B "a"; B "b"] (B "a!b") = None /\ cors [B "*"] [] = None /\
  cors [B "http://a/"] (B "http://a") = None.
Proof. vm_compute. repeat split; reflexivity. Qed.
