From PV Require Import Base.Bytes Models.Assets.

(* ------------------------------------------------------------------ split / join *)

Definition noslash (c : bytes) : Prop := ~ In slash c.

Lemma split_slash_ne p : split_slash p <> [].
Proof.
  destruct p as [|c r]; simpl; [discriminate|].
  destruct (Ascii.eqb c slash); [discriminate|].
  destruct (split_slash r); discriminate.
Qed.

Lemma split_slash_noslash p : Forall noslash (split_slash p).
Proof.
  induction p as [|c r IH]; simpl.
  - constructor; [intros []|constructor].
  - destruct (Ascii.eqb c slash) eqn:E.
    + constructor; [intros []|exact IH].
    + apply Ascii.eqb_neq in E.
      destruct (split_slash r) as [|x xs].
      * constructor; [|constructor]. intros [H|[]]; congruence.
      * inversion IH as [|? ? Hx Hxs]; subst.
        constructor; [|exact Hxs]. intros [H|H]; [congruence|exact (Hx H)].
Qed.

Lemma split_noslash x : noslash x -> split_slash x = [x].
Proof.
  induction x as [|c r IH]; simpl; intros Hn; [reflexivity|].
  destruct (Ascii.eqb c slash) eqn:E.
  - apply Ascii.eqb_eq in E; subst c. exfalso; apply Hn; left; reflexivity.
  - rewrite IH; [reflexivity|]. intros H; apply Hn; right; exact H.
Qed.

Lemma split_app x s : noslash x -> split_slash (x ++ slash :: s) = x :: split_slash s.
Proof.
  induction x as [|c r IH]; simpl; intros Hn.
  - try rewrite Ascii.eqb_refl; reflexivity.
  - destruct (Ascii.eqb c slash) eqn:E.
    + apply Ascii.eqb_eq in E; subst c. exfalso; apply Hn; left; reflexivity.
    + rewrite IH; [reflexivity|]. intros H; apply Hn; right; exact H.
Qed.

Lemma split_join l : l <> [] -> Forall noslash l -> split_slash (join [slash] l) = l.
Proof.
  induction l as [|x r IH]; intros Hne Hall; [congruence|].
  inversion Hall as [|? ? Hx Hr]; subst.
  destruct r as [|y r'].
  - simpl. apply split_noslash; exact Hx.
  - change (join [slash] (x :: y :: r')) with (x ++ slash :: join [slash] (y :: r')).
    rewrite split_app by exact Hx.
    rewrite IH; [reflexivity|discriminate|exact Hr].
Qed.

(* ------------------------------------------------------------------ clean on rooted paths *)

Definition good (c : bytes) : Prop := okcomp c = true /\ noslash c.

Lemma clean_step_good st c :
  Forall good st -> noslash c -> Forall good (clean_step true st c).
Proof.
  intros Hst Hc. unfold clean_step.
  destruct (beqb c [] || beqb c dot) eqn:E1; [exact Hst|].
  destruct (beqb c dotdot) eqn:E2.
  - destruct st as [|t st']; [constructor|].
    simpl. inversion Hst; subst; assumption.
  - constructor; [|exact Hst]. split; [|exact Hc].
    unfold okcomp. apply orb_false_iff in E1. destruct E1 as [Ea Eb].
    rewrite Ea, Eb, E2. reflexivity.
Qed.

Lemma fold_clean_good cs : forall st,
  Forall good st -> Forall noslash cs ->
  Forall good (fold_left (clean_step true) cs st).
Proof.
  induction cs as [|c r IH]; simpl; intros st Hst Hcs; [exact Hst|].
  inversion Hcs; subst. apply IH; [apply clean_step_good|]; assumption.
Qed.

Lemma Forall_good_rev l : Forall good l -> Forall good (rev l).
Proof.
  intros H. apply Forall_forall. intros x Hx. apply in_rev in Hx.
  exact (proj1 (Forall_forall _ _) H x Hx).
Qed.

Lemma good_forallb l : Forall good l -> forallb okcomp l = true.
Proof.
  intros H. apply forallb_forall. intros x Hx.
  exact (proj1 (proj1 (Forall_forall _ _) H x Hx)).
Qed.

Lemma good_noslash l : Forall good l -> Forall noslash l.
Proof.
  intros H. apply Forall_forall. intros x Hx.
  exact (proj2 (proj1 (Forall_forall _ _) H x Hx)).
Qed.

(* the shape of Clean's result on any rooted input *)
Lemma clean_rooted_shape p :
  exists comps, clean (slash :: p) = slash :: join [slash] comps /\ Forall good comps.
Proof.
  unfold clean. rewrite Ascii.eqb_refl.
  exists (rev (fold_left (clean_step true) (split_slash (slash :: p)) [])).
  split; [reflexivity|].
  apply Forall_good_rev. apply fold_clean_good; [constructor|apply split_slash_noslash].
Qed.

Lemma inside_of_shape comps :
  Forall good comps -> inside (slash :: join [slash] comps) = true.
Proof.
  intros Hg. unfold inside. rewrite Ascii.eqb_refl. simpl.
  destruct (join [slash] comps) as [|a r] eqn:Ej; [reflexivity|].
  rewrite <- Ej.
  destruct comps as [|x xs]; [discriminate Ej|].
  rewrite split_join; [apply good_forallb; exact Hg|discriminate|apply good_noslash; exact Hg].
Qed.

Theorem clean_rooted_inside p : inside (clean (slash :: p)) = true.
Proof.
  destruct (clean_rooted_shape p) as [comps [E Hg]].
  rewrite E. apply inside_of_shape; exact Hg.
Qed.

Lemma okcomp_not_dotdot c : okcomp c = true -> beqb dotdot c = false.
Proof.
  unfold okcomp. intros H. apply negb_true_iff in H.
  apply orb_false_iff in H. destruct H as [_ H].
  apply beqb_neq. apply beqb_neq in H. congruence.
Qed.

Lemma good_mem_dotdot l : Forall good l -> mem dotdot l = false.
Proof.
  induction l as [|x r IH]; intros H; [reflexivity|].
  inversion H as [|? ? Hx Hr]; subst. unfold mem; simpl.
  rewrite (okcomp_not_dotdot x (proj1 Hx)). exact (IH Hr).
Qed.

(* rooted, and ".." is not among its components *)
Theorem clean_rooted p :
  prefixb [slash] (clean (slash :: p)) = true /\
  mem dotdot (split_slash (clean (slash :: p))) = false.
Proof.
  destruct (clean_rooted_shape p) as [comps [E Hg]]. rewrite E. split.
  - reflexivity.
  - change (split_slash (slash :: join [slash] comps))
      with ([] :: split_slash (join [slash] comps)).
    change (mem dotdot ([] :: split_slash (join [slash] comps)))
      with (beqb dotdot [] || mem dotdot (split_slash (join [slash] comps))).
    replace (beqb dotdot []) with false by (symmetry; apply beqb_neq; discriminate).
    simpl orb. destruct comps as [|x xs]; [reflexivity|].
    rewrite split_join; [apply good_mem_dotdot; exact Hg|discriminate|apply good_noslash; exact Hg].
Qed.

Theorem resolve_inside req : inside (resolve req) = true.
Proof. unfold resolve, dir_path. apply clean_rooted_inside. Qed.

(* ------------------------------------------------------------------ path resolution with links *)

Lemma lookup_forallb {A} (f : bytes * A -> bool) k (m : list (bytes * A)) v :
  forallb f m = true -> lookup k m = Some v -> exists k', f (k', v) = true.
Proof.
  induction m as [|[k' v'] r IH]; simpl; intros Hf Hl; [discriminate|].
  apply andb_true_iff in Hf. destruct Hf as [Hh Hr].
  destruct (beqb k k'); [inversion Hl; subst; exists k'; exact Hh|exact (IH Hr Hl)].
Qed.

Lemma lookup_link_max t p tg :
  lookup p t = Some (Link tg) -> length (split_slash tg) <= max_target t.
Proof.
  induction t as [|[k n] r IH]; simpl; intros Hl; [discriminate|].
  destruct (beqb p k).
  - inversion Hl; subst. apply Nat.le_max_l.
  - specialize (IH Hl). destruct n; try exact IH.
    eapply Nat.le_trans; [exact IH|apply Nat.le_max_r].
Qed.

Lemma walk_S f follows t cur rest :
  walk (S f) follows t cur rest =
  match rest with
  | [] => WNode cur Dir
  | c :: rest' =>
    if beqb c [] || beqb c dot then walk f follows t cur rest'
    else if beqb c dotdot then
      match cur with [] => WAbove | _ :: up => walk f follows t up rest' end
    else match lookup (path_of (c :: cur)) t with
         | None => WNotExist
         | Some (Reg b) => match rest' with [] => WNode (c :: cur) (Reg b) | _ => WNotDir end
         | Some Dir => walk f follows t (c :: cur) rest'
         | Some (Link tg) =>
           match follows with
           | O => WLoop
           | S k => if nonemptyb tg
                    then walk f k t (if prefixb [slash] tg then [] else cur) (split_slash tg ++ rest')
                    else WNotExist
           end
         end
  end.
Proof. reflexivity. Qed.

(* the result of a resolution is never a link: the last component is followed too *)
Lemma walk_never_link t : forall fuel follows cur rest at_ tg,
  walk fuel follows t cur rest <> WNode at_ (Link tg).
Proof.
  induction fuel as [|f IH]; intros follows cur rest at_ tg; simpl; [discriminate|].
  destruct rest as [|c rest']; [discriminate|].
  destruct (beqb c [] || beqb c dot); [apply IH|].
  destruct (beqb c dotdot).
  - destruct cur; [discriminate|apply IH].
  - destruct (lookup (path_of (c :: cur)) t) as [[b| |tg']|]; try discriminate.
    + destruct rest'; discriminate.
    + apply IH.
    + destruct follows; [discriminate|].
      destruct (nonemptyb tg'); [apply IH|discriminate].
Qed.

(* the fuel of [walk_fuel] is enough: no answer is "because fuel ran out" *)
Lemma walk_fuel_ok t : forall fuel follows cur rest,
  length rest + follows * S (max_target t) < fuel ->
  walk fuel follows t cur rest <> WFuel.
Proof.
  induction fuel as [|f IH]; intros follows cur rest Hm; [lia|]. simpl.
  destruct rest as [|c rest']; [discriminate|]. simpl in Hm.
  destruct (beqb c [] || beqb c dot); [apply IH; lia|].
  destruct (beqb c dotdot).
  - destruct cur; [discriminate|apply IH; lia].
  - destruct (lookup (path_of (c :: cur)) t) as [[b| |tg]|] eqn:El; try discriminate.
    + destruct rest'; discriminate.
    + apply IH; lia.
    + destruct follows as [|k]; [discriminate|].
      destruct (nonemptyb tg); [|discriminate].
      apply IH. rewrite app_length.
      pose proof (lookup_link_max t _ _ El) as Hle.
      rewrite Nat.mul_succ_l in Hm. lia.
Qed.

Theorem walk_fuel_enough t comps : os_walk t comps <> WFuel.
Proof. unfold os_walk, walk_fuel. apply walk_fuel_ok. lia. Qed.

Lemma below_distb_spec l : below_distb l = true <-> below_dist l.
Proof.
  unfold below_distb, below_dist. split.
  - destruct (rev l) as [|a [|b r]] eqn:E; try discriminate. intros H.
    apply andb_true_iff in H. destruct H as [Ha Hb].
    apply beqb_eq in Ha. apply beqb_eq in Hb. subst a b.
    exists (rev r). rewrite <- (rev_involutive l), E. simpl.
    rewrite <- app_assoc. reflexivity.
  - intros [x ->]. rewrite rev_app_distr. simpl.
    rewrite !beqb_refl. reflexivity.
Qed.

Definition nodotdot (c : bytes) : Prop := beqb c dotdot = false.

Lemma existsb_false_Forall (l : list bytes) :
  existsb (fun c => beqb c dotdot) l = false -> Forall nodotdot l.
Proof.
  induction l as [|x r IH]; simpl; intros H; [constructor|].
  apply orb_false_iff in H. destruct H as [Hx Hr]. constructor; [exact Hx|exact (IH Hr)].
Qed.

(* on [dom_C19] a resolution that starts inside dist with a path free of ".."
   never leaves dist: there is no step that pops *)
Lemma walk_below t : dom_C19 t = true -> forall fuel follows cur rest at_ n,
  below_dist cur -> Forall nodotdot rest ->
  walk fuel follows t cur rest = WNode at_ n -> below_dist at_.
Proof.
  intros Hdom. induction fuel as [|f IH]; intros follows cur rest at_ n Hcur Hrest;
    [simpl; discriminate|rewrite walk_S].
  destruct rest as [|c rest']; [intros H; inversion H; subst; exact Hcur|].
  inversion Hrest as [|? ? Hc Hrest']; subst.
  destruct (beqb c [] || beqb c dot); [apply IH; assumption|].
  unfold nodotdot in Hc. rewrite Hc.
  assert (Hpush : below_dist (c :: cur)).
  { destruct Hcur as [x ->]. exists (c :: x). reflexivity. }
  destruct (lookup (path_of (c :: cur)) t) as [[b| |tg]|] eqn:El; try discriminate.
  - destruct rest'; [|discriminate]. intros H; inversion H; subst. exact Hpush.
  - apply IH; assumption.
  - destruct follows as [|k]; [discriminate|].
    destruct (nonemptyb tg); [|discriminate].
    destruct (lookup_forallb _ _ _ _ Hdom El) as [k' Hd]. simpl in Hd.
    unfold downward in Hd. apply andb_true_iff in Hd. destruct Hd as [Hrel Hnd].
    apply negb_true_iff in Hrel. apply negb_true_iff in Hnd. rewrite Hrel.
    apply IH; [exact Hcur|].
    apply Forall_app. split; [apply existsb_false_Forall; exact Hnd|exact Hrest'].
Qed.

Lemma good_nodotdot l : Forall good l -> Forall nodotdot l.
Proof.
  intros H. apply Forall_forall. intros x Hx.
  pose proof (proj1 (proj1 (Forall_forall _ _) H x Hx)) as Hok.
  unfold okcomp in Hok. apply negb_true_iff in Hok.
  apply orb_false_iff in Hok. exact (proj2 Hok).
Qed.

(* the components that http.Dir hands to the OS never contain ".." *)
Lemma comps_of_clean_nodotdot p : Forall nodotdot (comps_of (clean (slash :: p))).
Proof.
  destruct (clean_rooted_shape p) as [comps [E Hg]]. rewrite E.
  unfold comps_of. simpl tl. destruct comps as [|x xs].
  - simpl. constructor; [reflexivity|constructor].
  - rewrite split_join; [apply good_nodotdot; exact Hg|discriminate|apply good_noslash; exact Hg].
Qed.

Theorem resolve_confined t req at_ n :
  dom_C19 t = true -> os_resolve t (resolve req) = WNode at_ n -> below_dist at_.
Proof.
  intros Hdom. unfold os_resolve, os_walk, resolve, dir_path.
  apply (walk_below t Hdom); [exists []; reflexivity|apply comps_of_clean_nodotdot].
Qed.

(* ------------------------------------------------------------------ serving *)

Lemma map_open_error_not_reg t : forall rest pre b, map_open_error t pre rest <> OReg b.
Proof.
  induction rest as [|c r IH]; intros pre b; simpl; [discriminate|].
  destruct (beqb c []); [apply IH|].
  destruct (os_walk t (pre ++ [c])) as [a [x| |x]| | | | |]; try discriminate. apply IH.
Qed.

Lemma afs_open_never_dir t n : afs_open t n <> ODir.
Proof.
  unfold afs_open. destruct (dir_open t (afs_path n)); discriminate.
Qed.

Lemma afs_open_reg t n b :
  afs_open t n = OReg b ->
  (exists at_, os_resolve t (dir_path (afs_path n)) = WNode at_ (Reg b)) /\
  has_nul (dir_path (afs_path n)) = false.
Proof.
  unfold afs_open, dir_open.
  destruct (has_nul (dir_path (afs_path n))) eqn:En; [discriminate|].
  destruct (os_resolve t (dir_path (afs_path n))) as [a [c| |tg]| | | | |] eqn:El; try discriminate.
  - intros H; inversion H; subst. split; [exists a; reflexivity|reflexivity].
  - destruct (map_open_error t [] (comps_of (dir_path (afs_path n)))) eqn:Em; try discriminate.
    exfalso. exact (map_open_error_not_reg _ _ _ _ Em).
  - destruct (map_open_error t [] (comps_of (dir_path (afs_path n)))) eqn:Em; try discriminate.
    exfalso. exact (map_open_error_not_reg _ _ _ _ Em).
Qed.

(* serveFile over a file system that never hands out a directory *)
Lemma serve_file_nodir fs url name :
  (forall n, fs n <> ODir) ->
  match serve_file fs url name with
  | File b => fs name = OReg b /\ suffixb index_page url = false /\ ends_slash url = false
  | Listing => False
  | _ => True
  end.
Proof.
  intros Hnd. unfold serve_file.
  destruct (suffixb index_page url) eqn:Ei; [exact I|].
  destruct (fs name) as [b| | |] eqn:Ef.
  - destruct (ends_slash url) eqn:Es.
    + destruct (beqb (base url) [slash] || beqb (base url) dot); exact I.
    + repeat split; reflexivity.
  - exfalso; exact (Hnd name Ef).
  - exact I.
  - exact I.
Qed.

Lemma handler_cases t dec :
  match handler t dec with
  | File b => (exists at_, os_resolve t (resolve dec) = WNode at_ (Reg b)) /\
              has_nul (resolve dec) = false /\
              suffixb index_page (rooted dec) = false /\ ends_slash (rooted dec) = false
  | Listing => False
  | _ => True
  end.
Proof.
  unfold handler.
  pose proof (serve_file_nodir (afs_open t) (rooted dec) (clean (rooted dec))
                               (afs_open_never_dir t)) as H.
  destruct (serve_file (afs_open t) (rooted dec) (clean (rooted dec))) as [b| | | | |]; try exact H.
  destruct H as [Ho [Hi Hs]].
  apply afs_open_reg in Ho. destruct Ho as [Hl Hn].
  unfold resolve, fs_name. repeat split; assumption.
Qed.

(* a File answer carries exactly the bytes of the regular file that the OS
   finds - after following every link - at [resolve dec], a name inside dist;
   a listing is impossible; every other answer is a constructor without bytes *)
Theorem only_file_bytes t m dec :
  match serve_at t m dec with
  | File b => (exists at_, os_resolve t (resolve dec) = WNode at_ (Reg b)) /\
              inside (resolve dec) = true
  | Listing => False
  | Redirect | NotFound | ServerError | BadRequest => True
  end.
Proof.
  destruct m; simpl; try exact I.
  pose proof (handler_cases t dec) as H.
  destruct (handler t dec); try exact H.
  destruct H as [Hl _]. split; [exact Hl|apply resolve_inside].
Qed.

(* whatever the request resolves to - a directory, a link to a directory, a
   dangling or looping link, nothing - there is no listing and no content;
   content means the resolution ended at a regular file with these bytes *)
Theorem no_listing t m dec :
  serve_at t m dec <> Listing /\
  (forall at_, os_resolve t (resolve dec) = WNode at_ Dir -> content (serve_at t m dec) = None) /\
  (forall b, content (serve_at t m dec) = Some b ->
             exists at_, os_resolve t (resolve dec) = WNode at_ (Reg b)).
Proof.
  pose proof (only_file_bytes t m dec) as H. split; [|split].
  - intros E. rewrite E in H. exact H.
  - intros at_ Hd. destruct (serve_at t m dec); try reflexivity.
    destruct H as [[a Hl] _]. rewrite Hl in Hd. discriminate.
  - intros b Hc. destruct (serve_at t m dec); try discriminate.
    inversion Hc; subst. exact (proj1 H).
Qed.

(* on the documented domain the served file lies physically inside dist *)
Theorem only_file_bytes_confined t m dec :
  dom_C19 t = true ->
  match serve_at t m dec with
  | File b => exists at_, os_resolve t (resolve dec) = WNode at_ (Reg b) /\ below_dist at_
  | Listing => False
  | Redirect | NotFound | ServerError | BadRequest => True
  end.
Proof.
  intros Hdom. pose proof (only_file_bytes t m dec) as H.
  destruct (serve_at t m dec); try exact H.
  destruct H as [[a Hl] _]. exists a. split; [exact Hl|].
  exact (resolve_confined t dec a _ Hdom Hl).
Qed.

(* the other direction: the handler does serve a regular file below dist,
   also when the name is (or leads through) a link *)
Theorem handler_serves t dec b at_ :
  os_resolve t (resolve dec) = WNode at_ (Reg b) -> has_nul (resolve dec) = false ->
  suffixb index_page (rooted dec) = false -> ends_slash (rooted dec) = false ->
  handler t dec = File b.
Proof.
  intros Hl Hn Hi Hs. unfold handler, serve_file. rewrite Hi.
  unfold afs_open, dir_open.
  change (dir_path (afs_path (clean (rooted dec)))) with (resolve dec).
  rewrite Hn, Hl, Hs. reflexivity.
Qed.

(* from the raw request target *)
Theorem raw_only_file_bytes t raw :
  match serve t raw with
  | File b => exists dec, pct_decode raw = Some dec /\
                          (exists at_, os_resolve t (resolve dec) = WNode at_ (Reg b)) /\
                          inside (resolve dec) = true
  | Listing => False
  | Redirect | NotFound | ServerError | BadRequest => True
  end.
Proof.
  unfold serve. destruct (pct_decode raw) as [dec|]; [|exact I].
  pose proof (only_file_bytes t (mux_decide raw) dec) as H.
  destruct (serve_at t (mux_decide raw) dec); try exact H.
  exists dec. destruct H as [Hl Hin]. repeat split; assumption.
Qed.

(* ------------------------------------------------------------------ CORS *)

Theorem cors_correct wl hdr : cors wl hdr = cors_spec_req wl (origin_of hdr).
Proof. destruct hdr as [|a r]; reflexivity. Qed.

Theorem cors_sound wl hdr v :
  cors wl hdr = Some v <-> v = hdr /\ hdr <> [] /\ (In hdr wl \/ In (B "*") wl).
Proof.
  unfold cors. destruct hdr as [|a r].
  - simpl. split; [discriminate|intros [_ [H _]]; congruence].
  - change (nonemptyb (a :: r)) with true. rewrite andb_true_l.
    destruct (mem (a :: r) wl) eqn:E1; [|destruct (mem (B "*") wl) eqn:E2]; cbv [orb].
    + apply mem_In in E1. split.
      * intros H; inversion H; subst. split; [reflexivity|split; [discriminate|left; exact E1]].
      * intros [-> _]; reflexivity.
    + apply mem_In in E2. split.
      * intros H; inversion H; subst. split; [reflexivity|split; [discriminate|right; exact E2]].
      * intros [-> _]; reflexivity.
    + apply mem_false_In in E1. apply mem_false_In in E2. split; [discriminate|].
      intros [_ [_ [H|H]]]; contradiction.
Qed.

Theorem acao_only_when_whitelisted m wl hdr v :
  acao_at m wl hdr = Some v -> v = hdr /\ hdr <> [] /\ (In hdr wl \/ In (B "*") wl).
Proof.
  destruct m; simpl; try discriminate. apply cors_sound.
Qed.

(* the test of the pinned tree is not the specification *)
Theorem cors_unrepaired_refuted :
  (* an origin that is in no whitelist entry is accepted *)
  (cors_unrepaired [B "a"; B "b"] (B "a!b") = Some (B "a!b") /\
   cors_spec_req [B "a"; B "b"] (origin_of (B "a!b")) = None) /\
  (* no Origin, empty whitelist: the header is set (to the empty string) *)
  (cors_unrepaired [] [] = Some [] /\ cors_spec_req [] (origin_of []) = None) /\
  (* no Origin, wildcard: the header is set to the empty string *)
  (cors_unrepaired [B "*"] [] = Some [] /\ cors_spec_req [B "*"] (origin_of []) = None).
Proof. vm_compute. repeat split; reflexivity. Qed.

(* ------------------------------------------------------------------ non-vacuity *)

Definition nv_tree : tree :=
  [ (B "/", Dir); (B "/frontend", Dir); (B "/frontend/dist", Dir);
    (B "/frontend/dist/a.txt", Reg (B "AAAA")); (B "/frontend/dist/sub", Dir);
    (B "/frontend/dist/sub/b.js", Reg (B "BBBB")); (B "/frontend/dist/sub/index.html", Reg (B "IDX"));
    (B "/frontend/dist/xy", Reg (B "XY")); (B "/frontend/dist/assets", Reg (B "NAMED"));
    (B "/canary.txt", Reg (B "CANARY")); (B "/frontend/secret.txt", Reg (B "SECRET")) ].

(* links that stay inside dist: to a directory, to a file, to a link, upward but inside *)
Definition nv_down : tree :=
  nv_tree ++ [ (B "/frontend/dist/latest", Link (B "sub")); (B "/frontend/dist/la", Link (B "a.txt"));
               (B "/frontend/dist/l2", Link (B "latest/b.js")); (B "/frontend/dist/lsl", Link (B "sub/")) ].

(* every kind of link, among them links that leave dist *)
Definition nv_links : tree :=
  nv_down ++ [ (B "/frontend/dist/up", Link (B "../secret.txt")); (B "/frontend/dist/upd", Link (B ".."));
               (B "/frontend/dist/abs", Link (B "/canary.txt")); (B "/frontend/dist/dang", Link (B "nope"));
               (B "/frontend/dist/loop1", Link (B "loop2")); (B "/frontend/dist/loop2", Link (B "loop1"));
               (B "/frontend/dist/las", Link (B "a.txt/")); (B "/frontend/dist/lax", Link (B "a.txt/x"));
               (B "/frontend/dist/sub/ba", Link (B "../a.txt")); (B "/frontend/dist/top", Link (B "../../..")) ].

Example nv_file : serve nv_tree (B "/assets/sub/b.js") = File (B "BBBB").
Proof. vm_compute. reflexivity. Qed.

Example nv_file_encoded : serve nv_tree (B "/%61ssets/sub/%2e%2e/a.txt") = File (B "AAAA").
Proof. vm_compute. reflexivity. Qed.

Example nv_dir : serve nv_tree (B "/assets/sub") = ServerError /\
                 serve nv_tree (B "/assets/sub/") = ServerError /\
                 os_resolve nv_tree (resolve (B "/assets/sub/")) = WNode [B "sub"; B "dist"; B "frontend"] Dir.
Proof. vm_compute. repeat split; reflexivity. Qed.

(* the domain predicate is satisfiable on a tree with links, and there the
   handler serves through them; the answers are those of the real handler
   (observed with the harness on the same tree) *)
Example nv_dom : dom_C19 nv_down = true /\ dom_C19 nv_links = false /\
  serve nv_down (B "/assets/l2") = File (B "BBBB") /\
  serve nv_down (B "/assets/latest/b.js") = File (B "BBBB") /\
  serve nv_down (B "/assets/la") = File (B "AAAA") /\
  serve nv_down (B "/assets/la/") = Redirect /\
  serve nv_down (B "/assets/latest") = ServerError /\
  serve nv_down (B "/assets/latest/") = ServerError /\
  serve nv_down (B "/assets/lsl/") = ServerError /\
  serve nv_down (B "/assets/latest/index.html") = Redirect /\
  os_resolve nv_down (resolve (B "/assets/latest/")) = WNode [B "sub"; B "dist"; B "frontend"] Dir.
Proof. vm_compute. repeat split; reflexivity. Qed.

Example nv_link_errors :
  serve nv_links (B "/assets/dang") = NotFound /\ serve nv_links (B "/assets/dang/x") = NotFound /\
  serve nv_links (B "/assets/loop1") = ServerError /\ serve nv_links (B "/assets/loop1/x") = ServerError /\
  serve nv_links (B "/assets/las") = ServerError /\ serve nv_links (B "/assets/lax") = ServerError /\
  serve nv_links (B "/assets/la/x") = NotFound /\
  serve nv_links (B "/assets/sub/ba") = File (B "AAAA") /\
  serve nv_links (B "/assets/upd/dist/a.txt") = File (B "AAAA") /\
  os_resolve nv_links (resolve (B "/assets/loop1")) = WLoop /\
  os_resolve nv_links (resolve (B "/assets/top/x")) = WAbove.
Proof. vm_compute. repeat split; reflexivity. Qed.

(* F-C19-b: off the domain the model - like the code - serves files that lie
   outside dist: through a relative link, through a link to an outside
   directory, through an absolute link *)
Theorem file_outside_refuted :
  exists t dec b at_,
    dom_C19 t = false /\ serve_at t MuxPass dec = File b /\
    os_resolve t (resolve dec) = WNode at_ (Reg b) /\ ~ below_dist at_.
Proof.
  exists nv_links, (B "/assets/up"), (B "SECRET"), [B "secret.txt"; B "frontend"].
  split; [vm_compute; reflexivity|]. split; [vm_compute; reflexivity|].
  split; [vm_compute; reflexivity|].
  intros H. apply below_distb_spec in H. vm_compute in H. discriminate.
Qed.

Example nv_outside :
  serve nv_links (B "/assets/up") = File (B "SECRET") /\
  serve nv_links (B "/assets/upd/secret.txt") = File (B "SECRET") /\
  serve nv_links (B "/assets/abs") = File (B "CANARY") /\
  os_resolve nv_links (resolve (B "/assets/abs")) = WNode [B "canary.txt"] (Reg (B "CANARY")).
Proof. vm_compute. repeat split; reflexivity. Qed.

(* the listing branch of the modelled serveFile is live: plain http.Dir lists
   the directory, or serves its index.html; only assetFileSystem prevents it *)
Example nv_listing_without_afs :
  serve_file (dir_open nv_tree) (B "/") (B "/") = Listing /\
  serve_file (dir_open nv_tree) (B "/sub/") (B "/sub") = File (B "IDX").
Proof. vm_compute. split; reflexivity. Qed.

Example nv_escape_attempts :
  resolve (B "/assets/../../canary.txt") = B "/canary.txt" /\
  serve nv_tree (B "/assets/%2e%2e/%2e%2e/canary.txt") = NotFound /\
  serve nv_tree (B "/assets/../../canary.txt") = Redirect /\
  serve nv_tree (B "/assets/..%2f..%2fcanary.txt") = NotFound /\
  serve nv_tree (B "/assets%2fa.txt") = NotFound /\
  serve nv_tree (B "/assets/%zz") = BadRequest /\
  serve nv_tree (B "/assets/%00") = ServerError.
Proof. vm_compute. repeat split; reflexivity. Qed.

(* the quirk of strings.Replace(.., 1) on a path that does not start with the
   prefix: still inside dist *)
Example nv_second_prefix :
  resolve (B "/assets/../x/assets/y") = B "/xy" /\
  serve nv_tree (B "/assets/%2e%2e/x/assets/y") = File (B "XY") /\
  serve nv_tree (B "/assets/") = Redirect /\
  serve nv_tree (B "/assets/%2e/") = ServerError /\
  serve nv_tree (B "/assets/sub/index.html") = Redirect.
Proof. vm_compute. repeat split; reflexivity. Qed.

Example nv_clean :
  clean (B "/assets/../../a//b/./c/") = B "/a/b/c" /\ clean (B "a/../../b") = B "../b" /\
  clean [] = B "." /\ clean (B "///") = B "/" /\ clean (B "/..") = B "/" /\
  inside (B "/a/../b") = false /\ inside (B "a") = false /\ inside (B "/a//b") = false /\
  inside (B "/a/b") = true.
Proof. vm_compute. repeat split; reflexivity. Qed.

Example nv_cors :
  cors [B "http://a"; B "http://b"] (B "http://b") = Some (B "http://b") /\
  cors [B "http://a"] (B "http://b") = None /\
  cors [B "x"; B "*"] (B "http://b") = Some (B "http://b") /\
  cors [B "a"; B "b"] (B "a!b") = None /\ cors [B "*"] [] = None /\
  cors [B "http://a/"] (B "http://a") = None.
Proof. vm_compute. repeat split; reflexivity. Qed.

(* ------------------------------------------------------------------ the whole request: method and headers *)

Lemma header_get_in_values name hs :
  header_get name hs <> [] -> In (header_get name hs) (header_values name hs).
Proof.
  unfold header_values. induction hs as [|h r IH]; simpl; [congruence|].
  destruct (name_eqb (fst h) name); simpl; [left; reflexivity|exact IH].
Qed.

Lemma allowedb_iff wl o : allowedb wl o = true <-> o <> [] /\ (In o wl \/ In (B "*") wl).
Proof.
  unfold allowedb. rewrite andb_true_iff, orb_true_iff, !mem_In.
  destruct o as [|a r]; simpl.
  - split; intros [H1 H2]; [discriminate|congruence].
  - split; intros [H1 H2]; (split; [|exact H2]); [discriminate|reflexivity].
Qed.

(* the Access-Control-* headers of the answer are none at all, or exactly one
   Access-Control-Allow-Origin with exactly one value: the request's (first)
   Origin, non-empty and whitelisted - for EVERY method and EVERY list of
   header lines *)
Theorem resp_ac_only_when_whitelisted m wl meth hs :
  resp_ac m wl meth hs = [] \/
  (let o := header_get h_origin hs in
   resp_ac m wl meth hs = [(acao_name, [o])] /\ m = MuxPass /\ o <> [] /\ (In o wl \/ In (B "*") wl)).
Proof.
  unfold resp_ac. destruct (acao_at m wl (header_get h_origin hs)) as [v|] eqn:E; [right|left; reflexivity].
  pose proof (acao_only_when_whitelisted _ _ _ _ E) as [-> [Hne Hin]].
  destruct m; simpl in E; try discriminate. repeat split; assumption.
Qed.

(* ... and whenever the handler runs on a whitelisted Origin the header is there *)
Theorem resp_ac_complete wl meth hs :
  allowedb wl (header_get h_origin hs) = true ->
  resp_ac MuxPass wl meth hs = [(acao_name, [header_get h_origin hs])].
Proof.
  intros H. unfold resp_ac, acao_at, cors. unfold allowedb in H. rewrite H. reflexivity.
Qed.

(* the CORS decision depends on the Origin and the whitelist ONLY: two
   requests with the same first Origin line get the same Access-Control-*
   headers, whatever their methods and their other header lines *)
Theorem resp_ac_origin_only m wl meth meth' hs hs' :
  header_get h_origin hs = header_get h_origin hs' ->
  resp_ac m wl meth hs = resp_ac m wl meth' hs'.
Proof. unfold resp_ac. intros ->. reflexivity. Qed.

(* M meets S (the executable clause that the judge evaluates on Go's headers) *)
Theorem resp_ac_meets_spec m wl meth hs :
  ac_spec wl (header_values h_origin hs) (resp_ac m wl meth hs) = true.
Proof.
  destruct (resp_ac_only_when_whitelisted m wl meth hs) as [->|[-> [_ [Hne Hin]]]]; [reflexivity|].
  cbn [ac_spec forallb fst snd]. replace (name_eqb acao_name acao_name) with true by (symmetry; apply beqb_refl).
  rewrite andb_true_r, andb_true_iff. split.
  - apply mem_In, header_get_in_values, Hne.
  - apply allowedb_iff. split; assumption.
Qed.

(* S is what the property says: an accepted list of headers carries no
   Access-Control-* header at all unless some Origin of the request is
   whitelisted, and an accepted Access-Control-Allow-Origin names one *)
Theorem ac_spec_sound wl origins acs :
  ac_spec wl origins acs = true ->
  (acs <> [] -> exists o, In o origins /\ o <> [] /\ (In o wl \/ In (B "*") wl)) /\
  (forall n vs, In (n, vs) acs -> name_eqb n acao_name = true ->
     exists o, vs = [o] /\ In o origins /\ o <> [] /\ (In o wl \/ In (B "*") wl)).
Proof.
  unfold ac_spec. rewrite forallb_forall. intros H. split.
  - destruct acs as [|h r]; [congruence|]. intros _. specialize (H h (or_introl eq_refl)).
    destruct (name_eqb (fst h) acao_name).
    + destruct (snd h) as [|v [|? ?]]; try discriminate. apply andb_true_iff in H as [H1 H2].
      exists v. split; [apply mem_In, H1|apply allowedb_iff, H2].
    + apply existsb_exists in H as [o [Ho Ha]]. exists o. split; [exact Ho|apply allowedb_iff, Ha].
  - intros n vs Hin Hn. specialize (H _ Hin). cbn [fst snd] in H. rewrite Hn in H.
    destruct vs as [|v [|? ?]]; try discriminate. apply andb_true_iff in H as [H1 H2].
    exists v. split; [reflexivity|]. split; [apply mem_In, H1|apply allowedb_iff, H2].
Qed.

(* the body that goes out is the file's, or nothing (HEAD) *)
Theorem sent_body_content meth a b :
  sent_body meth a = Some b -> b = [] \/ content a = Some b.
Proof.
  destruct a; simpl; try discriminate. destruct (beqb meth m_head); intros H; inversion H; auto.
Qed.

(* a handler that answers preflights itself and writes the Origin there with
   Set is refuted by S: foreign Origin, and no Origin at all *)
Theorem resp_ac_preflight_refuted :
  (let hs := [(B "Origin", B "https://evil.test"); (B "Access-Control-Request-Method", B "GET")] in
   ac_spec [B "http://a.test"] (header_values h_origin hs)
           (resp_ac_preflight MuxPass [B "http://a.test"] (B "OPTIONS") hs) = false /\
   ac_spec [B "http://a.test"] (header_values h_origin hs)
           (resp_ac MuxPass [B "http://a.test"] (B "OPTIONS") hs) = true) /\
  (let hs := [(B "access-control-request-method", B "PUT")] in
   ac_spec [B "*"] (header_values h_origin hs) (resp_ac_preflight MuxPass [B "*"] (B "OPTIONS") hs) = false).
Proof. vm_compute. repeat split; reflexivity. Qed.

Example nv_resp_ac :
  resp_ac MuxPass [B "http://a"] (B "OPTIONS")
          [(B "Accept", B "*/*"); (B "oRiGiN", B "http://a"); (B "Origin", B "http://b")]
    = [(acao_name, [B "http://a"])] /\
  resp_ac MuxPass [B "http://a"] (B "DELETE") [(B "Origin", B "http://b"); (B "Origin", B "http://a")] = [] /\
  resp_ac MuxRedirect [B "*"] (B "GET") [(B "Origin", B "http://b")] = [] /\
  header_values h_origin [(B "ORIGIN", B "x"); (B "Range", B "bytes=0-"); (B "origin", B "y")] = [B "x"; B "y"] /\
  sent_body (B "HEAD") (File (B "abc")) = Some [] /\ sent_body (B "POST") (File (B "abc")) = Some (B "abc") /\
  sent_body (B "head") (File (B "abc")) = Some (B "abc") /\ sent_body (B "HEAD") NotFound = None.
Proof. vm_compute. repeat split; reflexivity. Qed.
